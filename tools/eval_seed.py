#!/usr/bin/env python3
"""tools/eval_seed.py <seed-dir> <PROPERTY> [--all]

Confirms a seeded change (patch.diff + demo.py + meta.json) in a scratch worktree, then applies it to /repo, runs the check(s), undoes it,
and files the result under /verif/seeded/<PROPERTY>-<name>/.
"""
import json
import os
import shutil
import subprocess
import sys
import time
from pathlib import Path

VERIF = Path(__file__).resolve().parent.parent
PY = '/venv/bin/python'
REPO = os.environ.get('GAMBIT_REPO', '/repo')   # where the change is applied for the check phase (a scratch worktree when set)


def sh(cmd, **kw):
	return subprocess.run(cmd, shell=True, capture_output=True, text=True, **kw)


def main():
	seed = Path(sys.argv[1]).resolve()
	pid = sys.argv[2]
	run_all = '--all' in sys.argv
	tag = sys.argv[sys.argv.index('--tag') + 1] if '--tag' in sys.argv else ''
	name = f'{pid}-{tag}{seed.name}'
	patch = seed / 'patch.diff'
	demo = seed / 'demo.py'
	meta = json.loads((seed / 'meta.json').read_text()) if (seed / 'meta.json').exists() else {}
	out = {'property': pid, 'seed': str(seed), 'summary': meta.get('summary'), 'needs': meta.get('needs')}
	prev = None
	dest0 = VERIF / 'seeded' / name / 'meta.json'
	if '--checks-only' in sys.argv and dest0.exists():
		prev = json.loads(dest0.read_text())
		out = prev['what_i_ran']
		out.setdefault('history', []).append({'checks': out.get('checks'), 'caught_by': out.get('caught_by')})
	# ---- confirm in a scratch worktree -------------------------------------------------------------
	wt = Path(f'/tmp/confirm_{name}')
	if prev is not None:
		return finish(seed, pid, name, patch, demo, meta, out, run_all)
	return confirm_and_finish(seed, pid, name, patch, demo, meta, out, run_all, wt)


def confirm_and_finish(seed, pid, name, patch, demo, meta, out, run_all, wt):
	sh(f'git -C /repo worktree remove --force {wt}')
	r = sh(f'git -C /repo worktree add -q {wt} HEAD')
	try:
		sh(f'cp /repo/src/gambit/_cython/*.so {wt}/src/gambit/_cython/')
		sh(f'rsync -a /repo/tests/data/ {wt}/tests/data/')   # incl. the .gz twins the test-suite generates on first run (untracked)
		env = dict(os.environ, PYTHONPATH=f'{wt}/src')
		r0 = subprocess.run([PY, str(demo)], capture_output=True, text=True, env=env, cwd=seed, timeout=600)
		out['demo_unpatched_exit'] = r0.returncode
		ra = sh(f'git -C {wt} apply {patch}')
		out['patch_applies'] = ra.returncode == 0
		if ra.returncode != 0:
			out['apply_error'] = ra.stderr[-500:]
		else:
			r1 = subprocess.run([PY, str(demo)], capture_output=True, text=True, env=env, cwd=seed, timeout=600)
			out['demo_patched_exit'] = r1.returncode
			out['demo_patched_tail'] = (r1.stdout + r1.stderr)[-400:]
			if '--no-tests' not in sys.argv:
				t = subprocess.run([PY, '-m', 'pytest', '-q', '-p', 'no:cacheprovider', '--timeout=900', '--continue-on-collection-errors', 'tests'],
				                   capture_output=True, text=True, env=env, cwd=wt, timeout=3600)
				tail = [l for l in t.stdout.splitlines() if ' passed' in l or ' failed' in l][-1:]
				out['suite'] = tail[0] if tail else t.stdout[-200:]
	finally:
		sh(f'git -C /repo worktree remove --force {wt}')
	out['confirmed'] = bool(out.get('patch_applies') and out.get('demo_unpatched_exit') == 0 and out.get('demo_patched_exit', 0) != 0
	                        and ('542 passed' in out.get('suite', '542 passed')))
	return finish(seed, pid, name, patch, demo, meta, out, run_all)


def finish(seed, pid, name, patch, demo, meta, out, run_all):
	# ---- run the checks against /repo with the patch applied -----------------------------------------
	import fcntl
	lock = open('/tmp/eval_seed.lock', 'w')
	if '--confirm-only' not in sys.argv:
		fcntl.flock(lock, fcntl.LOCK_EX)
	if '--confirm-only' in sys.argv:
		out.setdefault('checks', {}); out.setdefault('caught_by', []); out.setdefault('broken', [])
		res = {}
	elif out['confirmed'] or '--force' in sys.argv:
		if sh(f'git -C {REPO} diff --quiet').returncode != 0:
			print(f'{REPO} dirty; abort'); return 3
		ids = [pid]
		if run_all:
			ids = [c['property_id'] for c in json.loads((VERIF / 'MANIFEST.json').read_text())['checks']]
		sh(f'git -C {REPO} apply {patch}')
		try:
			res = {}
			for i in ids:
				t = time.time()
				r = subprocess.run(['./check', i, os.environ.get('TIER', 'quick')], capture_output=True, text=True, cwd=VERIF, env=dict(os.environ, VERIF_SEED=os.environ.get('VERIF_SEED', '3')))
				vline = [l for l in r.stdout.splitlines() if l.startswith('VIOLATION')]
				res[i] = {'exit': r.returncode, 'violation': vline[0] if vline else None, 's': round(time.time() - t, 1)}
				if r.returncode == 2:
					res[i]['stderr_tail'] = r.stderr[-600:]
				if vline and i == pid:
					rp = vline[0].split('replay=')[1].split()[0]
					try:
						out['replay_excerpt'] = json.loads(Path(rp).read_text())
						out['replay_excerpt'] = {k: (str(v)[:600]) for k, v in out['replay_excerpt'].items() if k in ('case', 'bad', 'pyfails', 'kind')}
					except Exception:
						pass
			out['checks'] = res
		finally:
			sh(f'git -C {REPO} checkout -- .')
			sh(f'git -C {REPO} clean -fdq src')
		out['caught_by_own_check'] = res.get(pid, {}).get('exit') == 1
		out['caught_by'] = [i for i, v in res.items() if v['exit'] == 1]
		out['broken'] = [i for i, v in res.items() if v['exit'] == 2]
	dest = VERIF / 'seeded' / name
	dest.mkdir(parents=True, exist_ok=True)
	shutil.copy(patch, dest / 'patch.diff')
	shutil.copy(demo, dest / ('demo' + demo.suffix))
	for extra in seed.iterdir():
		if extra.is_file() and extra.name not in ('patch.diff', 'demo.py', 'meta.json') and extra.stat().st_size < 200000:
			shutil.copy(extra, dest / extra.name)
	meta_out = {'breaks_property': pid, 'needs_to_manifest': meta.get('needs'), 'summary': meta.get('summary'), 'files': meta.get('files'),
	            'author_verified': meta.get('verified'), 'what_i_ran': out}
	(dest / 'meta.json').write_text(json.dumps(meta_out, indent=1, default=str))
	print(json.dumps({k: out.get(k) for k in ('property', 'confirmed', 'demo_unpatched_exit', 'demo_patched_exit', 'suite', 'caught_by_own_check', 'caught_by', 'broken')}, default=str))
	return 0


if __name__ == '__main__':
	sys.exit(main())
