#!/usr/bin/env python3
"""tools/mk_seed_brief.py <ID> <root>  ->  <root>/_briefs/<ID>.txt

Brief for a seeding sub-agent: the text of ONE property (from properties.jsonl), its own scratch worktree <root>/<ID>, the list of
earlier seeded changes for that property (summaries only, so that the new ones differ in kind) - and nothing else from /verif.
"""
import json
import sys
from pathlib import Path

VERIF = Path(__file__).resolve().parent.parent
pid, root = sys.argv[1], sys.argv[2]
NCH = int(sys.argv[sys.argv.index('--n') + 1]) if '--n' in sys.argv else 3
NEUTRAL = '--neutral' in sys.argv   # wave 6: no list of earlier changes, no style hints - a plain estimate of first-run detection
prop = next(p for p in map(json.loads, open(VERIF / 'properties.jsonl')) if p['id'] == pid)
wt = f'{root}/{pid}'
anchors = '; '.join(f"{m['name']} ({m['where']})" for m in prop['anchors'].get('mechanism', []))
earlier = []
for d in sorted((VERIF / 'seeded').glob(f'{pid}-*')):
	try:
		m = json.loads((d / 'meta.json').read_text())
	except Exception:
		continue
	s = m.get('summary') or (m.get('what_i_ran') or {}).get('summary') or ''
	if s:
		earlier.append('  - ' + ' '.join(s.split())[:300])
text = f"""You are a software engineer asked to seed a realistic, subtle regression into a Python/Cython bioinformatics library (jlumpe/gambit) so that a verification team can test whether their tooling detects it. You get ONE semantic property of the system and your own scratch git worktree of the repository. Work ONLY inside your worktree: {wt} (never touch /repo or /verif, and do not read anything under /verif).

Environment: run code against your worktree with  `cd {wt} && PYTHONPATH={wt}/src /venv/bin/python ...`  (the compiled Cython extensions are already copied in; Cython itself is NOT installed, so do not edit .pyx/.c files - restrict yourself to the .py sources). Tests: `cd {wt} && PYTHONPATH={wt}/src /venv/bin/python -m pytest -q -p no:cacheprovider --timeout=900 tests` takes ~40 s (longer when the machine is busy); on the unmodified tree exactly 542 tests pass and 48 fail (the 48 failures are pre-existing, environment-related, mostly tests/cli and tests/test_query.py - ignore them, but do not add new failures: the set of passing tests must stay the same).

THE PROPERTY ({pid}: {prop['title']})
{prop['statement']}

Quantifier: {prop['quantifier']['text']}
Code anchors: {anchors}

YOUR TASK: produce {NCH} DIFFERENT changes to the .py sources (each an independent alternative, not cumulative) that each BREAK this property while (a) the package still imports and (b) the existing test suite passes exactly as before (same 542 passing tests). Prefer changes that need something specific to manifest - an unusual input, a boundary value, a particular ordering / interleaving / completion order, a multi-step sequence of operations, a particular option combination, or two cooperating sites that each look fine alone - NOT ones that any ordinary use would expose at once. They should look like plausible refactorings / optimisations / "fixes" a maintainer might commit.

For EACH change i = 1..{NCH}, create the directory {wt}/seeded/m<i>/ containing:
  - patch.diff   : `git diff` of the change against the worktree HEAD (sources only; produce it, then `git checkout -- src` before starting the next change so changes are independent)
  - demo.py      : a small stand-alone program (run as `PYTHONPATH=<tree>/src /venv/bin/python demo.py`) that exits 0 on the unmodified tree and exits non-zero (assertion failure) on the tree with patch.diff applied, demonstrating the violation of the property with a concrete input
  - meta.json    : {{"property": "{pid}", "summary": "...what was changed...", "needs": "...what specific input / order / option is needed for it to manifest...", "files": [...]}}
Verify each one yourself: apply patch -> run the full test suite (must still show 542 passed) -> run demo.py (must fail) -> revert -> run demo.py (must pass). Record the commands you ran and their outcome in meta.json under "verified".

Finish with `git checkout -- src` so the worktree sources are unmodified (the seeded/ directory stays, untracked). Final report: for each change one line: what it is, which file, what it needs to manifest, and whether all verifications succeeded.

@@EXTRA@@"""
EXTRA_TEXT = f"""ADDITIONAL INSTRUCTIONS FOR THIS ROUND: earlier rounds already produced the following changes for this property; produce {NCH} that are DIFFERENT IN KIND from all of them (not variations):
{chr(10).join(earlier) if earlier else '  (none)'}
Favour these styles, one each if you can: (a) state carried across calls or objects within one process (caches, memoisation, module-level or class-level defaults, mutated shared arguments, objects reused after an earlier failure); (b) two cooperating sites in different functions or files that each look harmless alone; (c) a numeric / size / type boundary or an unusual-but-legal option combination or input form (symbolic links, read-only or strided arrays, numpy scalars, unusual but legal file layouts, timezone-aware values, documented `None` parameters ...). Shared utility modules (src/gambit/util/*.py, src/gambit/seq.py, src/gambit/sigs/base.py, src/gambit/cli/common.py, ...) are fair game as long as the property above is what breaks. If while exploring you notice a defect of the UNMODIFIED tree that violates the property, mention it at the end of your report with the exact reproducing input (do not use it as a seed).
"""
NEUTRAL_TEXT = """If while exploring you notice a defect of the UNMODIFIED tree that violates the property, mention it at the end of your report with the exact reproducing input (do not use it as a seed).
"""
GLUE = '--glue' in sys.argv         # wave 8: neutral, but at least one change outside the anchored functions (callers, helpers, utilities, CLI / I/O layers)
GLUE_TEXT = """At least one of the changes must be made OUTSIDE the function(s) named in the code anchors above - in a caller, a helper, a shared utility module, the command-line layer, the file I/O layer, a base class or a data class the anchored code relies on - while still breaking THIS property as a user would observe it.
"""
text = text.replace("@@EXTRA@@", (GLUE_TEXT if GLUE else '') + (NEUTRAL_TEXT if NEUTRAL else EXTRA_TEXT))
out = Path(root) / '_briefs' / f'{pid}.txt'
out.parent.mkdir(parents=True, exist_ok=True)
out.write_text(text)
print(out, len(earlier), 'earlier changes listed')
