#!/bin/bash
# regenerate lean/GambitV/Gen from the clean /repo and build everything (the committed Gen files must be the translation of the clean tree:
# MANIFEST.setup_cmd builds them as they are)
cd "$(dirname "$0")/.."
git -C /repo diff --quiet || { echo "/repo has uncommitted changes"; exit 3; }
/venv/bin/python -c "
import sys; sys.path.insert(0,'harness'); import core; r=core.regenerate_gen(); print('untranslatable:', r.get('untranslatable'))"
cd lean && lake build GambitV Driver driver 2>&1 | grep -A8 "error\|✖" | head -20; echo "build exit ${PIPESTATUS[0]}"
