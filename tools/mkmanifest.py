#!/usr/bin/env python3
"""Regenerates MANIFEST.json from the table below (run after adding a check)."""
import json
from pathlib import Path

VERIF = Path(__file__).resolve().parent.parent

COMMON_NOTE = ('Trusted: Lean 4.33 kernel; axioms at most propext, Classical.choice, Quot.sound (audited by #print axioms on '
               'every run, list in the evidence file); the hand-written model is tied to /repo by the correspondence run of '
               'this check (harness/props/{id}.py drives the real code in-process, Driver/{ID}.lean evaluates the Lean model / '
               'spec predicate on the real outputs). ')

# id -> (built, technique, level text, design_ref, note)
P = {
 'C01': (True, 'Lean 4 theorems (loop-to-set refinement of the search loops) + differential correspondence against the Lean spec',
         'Theorems: the modelled search loops + slice arithmetic + accumulators compute exactly the spec set for all sequences, k<=32, '
         'ACGT prefixes (mem_signature_iff, signature_eq_specList, signature_sorted, accumulators_agree). Tie: real calc_signature output '
         'must equal GambitV.specList (the Lean spec) on generated inputs; find_kmers positions and bytes.find validated against the model.',
         '§5 C01', 'CPython bytes.find/upper, Bio.Seq conversion are modelled (validated by sub-streams); text inputs ASCII.'),
 'C07': (True, 'Lean 4 theorems (round-trip laws, bijection, 64-bit no-wrap) + exhaustive/random correspondence',
         'Theorems: encode/decode mutually inverse on 0..4^k-1 for every k, case ignored, rejection iff a non-ACGT byte, >32 rejected, '
         'revcomp involutive with mirrored complement, encodeRc = encode∘revcomp, UInt64 accumulator never wraps for k<=32. '
         'Tie: all k-mers k<=6/8, all byte strings of length<=2, boundary and random k-mers/indices against the compiled module.',
         '§5 C07', 'The .so is what is exercised; Cython int conversions at the boundary are trusted.'),
 'C05': (True, 'Lean 4 theorems (index-plumbing refinement to cell(i,j) = dist q_i r_j; schedule independence of prange) + correspondence parametric in the real pairwise values',
         'Theorems (all parametric in dist): matrix_cells for every chunk size / index selection / pre-filled buffer, chunkSlices_partition, '
         'pairwiseSquareLoop_eq, pairwiseFlat_get (condensed offsets), prange_schedule_independent for every permutation of iterations. '
         'Tie: jaccarddist_array/_matrix/_pairwise over 4 container types x dtypes x chunk sizes x index selections x out buffers x 1..16 threads; '
         'the Lean model is instantiated with the table of real two-signature bit patterns. PARTIAL: a data race inside one compiled iteration is sampled, not proved.',
         '§5 C05', 'OpenMP prange semantics assumed (each iteration once, loop-assigned variables private); h5py slicing trusted.'),
 'C20': (True, 'Lean 4 theorems (refinement of the concatenated representation and of every index form to list semantics) + exhaustive/random correspondence',
         'Theorems: concat_refines_list (all index forms incl. the contiguous fast path), window_refines_list, ofList_toList, slice_spec/arange_mem (clipped arithmetic progression), '
         'ints/mask/int/errors specs, applyMut list semantics, sigEq_iff. Tie: SignatureArray/SignatureList/HDF5Signatures against GambitV.getItemList on '
         'every slice over a small range, all short index lists and masks, NumPy integer dtypes, ill-typed indices, mutation histories, equality.',
         '§5 C20', 'CPython slice.indices / numpy.arange / flatnonzero are modelled (validated by the c20.sliceidx stream); h5py trusted.'),
 'C02': (True, 'Lean 4 theorems (merge loop = |A∪B|; bit-exact binary32 model; correctly-rounded quotient) + correspondence against the compiled kernel',
         'Theorems: unionCount_eq_card, symmDiff_card, ofNat_exact, div_ofNat, roundRat_scale and the headline jaccard_correctly_rounded (for |A∪B| < 2^24 the '
         'returned bits are the exact ratio rounded once), jaccard_empty, index_eq_one_sub, castDtype_spec. Tie: jaccarddist/jaccard on exhaustive subset pairs, '
         'structured/random pairs x 6x6 dtypes x both orders, size-only large pairs, F32 model vs NumPy float32. PARTIAL beyond |A∪B| >= 2^24: open finding C02-F1.',
         '§5 C02, §4.5', 'x86-64 SSE binary32 arithmetic assumed for the compiled kernel; guard u < 2^24 in the theorem, the excluded range is the known finding.'),
 'C15': (True, 'Lean 4 theorems (metric laws over Finset ℕ in ℚ, lifted to binary32 through the rounding-error bound) + correspondence',
         'Theorems: dist_mem_unit, dist_eq_zero_iff, dist_eq_one_iff, dist_symm, dist_triangle (exact), jaccardBits_symm (bit-for-bit), bits_zero_iff, bits_one_iff, '
         'triangle_f32 (slack 2^-22), add_common_strict_f32 (u+1 < 2^23), dist_add_common_lt (exact). Tie: all 32^3 triples over a 5-element universe, random triples in '
         'mixed widths, common-element additions, evaluated by Lean predicates on the real bit patterns. PARTIAL: strictness beyond u+1 >= 2^23 is open finding C15-F1.',
         '§5 C15, §4.5', 'same kernel and binary32 assumptions as C02.'),
 'C03': (True, 'Lean 4 theorems (decision logic = statement wording; monotonicity) + correspondence with a relational Lean oracle',
         'Theorems: matchingTaxon_eq_spec, next_eq_spec (+ the three statement cases), classifyDefault_ok (the model meets the relation the driver checks), argminFirst_spec, '
         'coarsen_mono (a larger distance keeps or coarsens the prediction), threshold_equality_matches. Tie: classify / get_result_item / matching_taxon / next_taxon on all '
         'forests <= 3/4 nodes x threshold patterns and random forests, judged by GambitV.defaultOk on the real result.',
         '§5 C03, §4.4', 'np.argmin / float comparisons modelled exactly (values scaled to naturals); taxonomies are forests.'),
 'C09': (True, 'Lean 4 theorems (the specification determines the list uniquely) + correspondence',
         'Theorems: closestOk_unique (any list satisfying the (distance, reference order) prefix specification equals closestList), closestList_ok, stableArgsort_perm/sorted, '
         'closest_head_eq_argmin. Tie: closest_genomes of get_result_item on tie-heavy rows judged by GambitV.closestOk, head = closest_match, exact distances and per-entry taxa; '
         'thorough: identical lists under NPY_DISABLE_CPU_FEATURES settings.',
         '§5 C09, §4.1', 'NumPy stable argsort trusted only as far as every produced list is checked against the Lean spec.'),
 'C10': (True, 'Lean 4 theorems (fold invariant; refinement to an order-free spec; permutation invariance) + exhaustive/random correspondence',
         'Theorems: consensus_eq_spec (incremental trunk merge = LCA of the most specific taxa), consensus_perm / consensus_set (order and duplicates irrelevant), '
         'consensus_comparable, fail_iff, chain_case, warning_iff, others_eq_spec, classifyStrict_ok; consensusOld_order_dependent records the repaired defect. '
         'Tie: consensus_taxon on all forests <= 4/5 nodes x subsets x orders, classify(strict=True) with permuted reference orders, judged by consensusSpec / strictOk.',
         '§5 C10, §4.3', 'taxonomies are forests; dict insertion order.'),
 'C04': (True, 'Lean 4 theorems (pairing by key; completeness; order/padding irrelevance) + correspondence on scratch databases',
         'Theorems: pairing, positions_increasing, uses_exactly_matching, genome_matched_iff, order_padding_irrelevant, load_ok_iff / load_* error cases, locate_ok_iff. '
         'Tie: ReferenceDatabase.load / load_from_dir on scratch SQLite genome sets + signature files with permuted / padded / incomplete IDs for the four ID attributes; '
         'locate_files on generated directory listings; query() distance rows vs the real pairwise distance to the signature stored under each genome\'s ID.',
         '§5 C04', 'SQLAlchemy/SQLite/h5py return stored data; unique IDs (schema constraints).'),
 'C06': (True, 'Lean 4 theorems (invariance of the spec under the symmetries; FASTA render/parse round-trip) + correspondence on file variants',
         'Theorems: specMem_revcomp_any / _perm / _case / _union and the signature-level corollaries (signature_union: no k-mer across a contig boundary), parse_render for every width, '
         'LF/CRLF, with/without final newline, guess_iff (compression from the first two bytes). Tie: calc_file_signature on variants of generated multi-contig genomes; parsed records vs '
         'the Lean FASTA model; file signature = Lean union of the real per-contig signatures, identical across variants.',
         '§5 C06', 'Biopython FASTA parsing / gzip are modelled and compared on the generated shapes only.'),
 'C08': (True, 'Lean 4 theorems (the chunked matrix pipeline is a map over the inputs) + correspondence on the real CLI',
         'Theorems: pipeline_eq_spec (via C05.matrix_cells), row_local, batch_independent (any batch, position, chunk size), rows_perm, rows_length, sequenceFiles_* and label derivation. '
         'Tie: gambit query over batches x orders x {positional, list file + --ldir, signature file} x gzip twins x csv/json/archive x progress x -c; every row must equal the row the real CLI '
         'prints for that genome alone, labels derived in Lean.',
         '§5 C08', 'click parsing, process pools and the exporters are exercised, not modelled; timestamps/paths excluded from a row.'),
 'C12': (True, 'Lean 4 theorems (representation round-trip; both write paths agree; refusal of unmarked files) + correspondence incl. raw HDF5 datasets',
         'Theorems: read_write, read_window, write_paths_agree, writeSlices_eq, split_concat, foreign_refused, load_only_marked. Tie: dump_signatures/load_signatures over containers x ID kinds x Unicode/nested '
         'metadata x compression x k in 1..32; stored values/bounds vs the Lean store model; index expressions on the loaded object vs list semantics; foreign contents must raise SignaturesFileError.',
         '§5 C12', 'h5py/HDF5 as a key-value store (trusted to return what was stored).'),
 'C13': (True, 'Lean 4 theorems (every completion order yields the file-order list; any failing file fails the call) + exhaustive schedule enumeration through a harness executor',
         'Theorems: collect_any_order, collect_error(+source), no_partial_list, never_assertion, seq_agrees_concurrent. Tie: calc_file_signatures driven through all completion orders of <= 4/6 files by a '
         'harness-owned executor stepped by a harness progress meter, failing file at every position, plus sequential mode and real thread/process pools; model instantiated with the real single-file results.',
         '§5 C13', 'concurrent.futures semantics (as_completed, Future.result) assumed; real pools sampled.'),
 'C14': (True, 'Lean 4 theorems (decision table: run implies one parameter set everywhere; any disagreement is an error) + correspondence over all option combinations',
         'Theorems: run_implies_same_params, mismatch_is_error, explicit_vs_query/ref_is_error, defaults_source, consistent_runs, querySig_run_iff, create_exclusive/sources, explicit_both_or_neither. '
         'Tie: gambit dist (3 x 5 sources x parameter relations x explicit options), query -s, signatures create; observed exit status, output existence and which candidate parameter set reproduces the output.',
         '§5 C14, §4.2', 'click parsing trusted.'),
 'C16': (True, 'Lean 4 theorems (CSV write/parse round-trip state machine; label derivation; 4-decimal rounding is nearest/half-even; square = self matrix) + byte-exact correspondence',
         'Theorems: csv_roundtrip(_crlf), distCsv_parse, label_spec, fmt4_nearest, square_eq_self_matrix. Tie: gambit dist over the 3 x 5 ways of supplying the sides; the Lean distCsv instantiated with the '
         'real pairwise bit patterns must equal the output bytes; CSV model vs CPython csv; fmt4 vs format(x, "0.4f").',
         '§5 C16', 'CPython float formatting validated by stream, click parsing trusted.'),
 'C17': (True, 'Lean 4 theorems about the linkage-to-tree conversion and about an exact UPGMA model of hclust (heights = averages, minimal merges, monotone heights) + SciPy merges replayed in the model + a Lean checker applied to the printed tree',
         'Theorems: leaves_perm, branch_nonneg, ultrametric, path_eq_twice_merge_height for every ValidLinkage; for the exact UPGMA model of hclust: upgma_height_is_average, upgma_step_minimal, upgma_monotone_all (symmetric D), upgma_valid (so ValidLinkage is proved of the model, not assumed), replay_minimal, replay_eq_of_tieFree. Tie: SciPy\'s merge sequence from gambit.cluster.hclust replayed in the model on every run; gambit tree output parsed and checked by GambitV.checkTree against the real pairwise '
         'distances (leaves = labels once, binary, >= 0, ultrametric, every merge a valid average-linkage step) — SciPy/Biopython output is checked per run, not trusted. PARTIAL: float64 subtraction and '
         'the 8-significant-digit Newick format enter as a tolerance.',
         '§5 C17', 'exact scaling of all numbers of a case by the harness; tolerance 1e-8 per branch.'),
 'C18': (True, 'Lean 4 theorems (state-machine invariant: durable data unchanged over every history; commit raises; flush is a no-op) + hash/open-mode/SQL recording',
         'Theorems: durable_invariant, txn_stays_empty, commit_raises, txn_commit_raises, begin_block_raises, flush_noop, raw_sql_discarded, history_rows, dbOpens_never_write. Tie: histories of CLI commands and library calls (failing ones interleaved) on a scratch '
         'copy: sha256 and directory listing unchanged, every open of a database file is a read, no SQL other than SELECT/PRAGMA; session histories (ORM changes, direct SQL, commit / commit through the transaction object / begin-block, after a writable maker was created for the same file) vs the Lean ReadOnlySession machine. PARTIAL: OS/SQLite/HDF5 assumed.',
         '§5 C18', 'recording wrappers installed by the harness process.'),
 'C19': (True, 'Lean 4 theorems (crash-prefix invariant over the writer trace) + kill-at-every-storage-call correspondence',
         'Theorems: crash_never_loads, loads_implies_complete, complete_loads_exact, writerTrace_no_flush, writerTrace_close_last; for death by an exception that unwinds the writer: unwind_never_loads, unwind_loads_only_exact, unwind_eq_crash_verdict. Tie: the real writer killed (os._exit in a forked child), interrupted (KeyboardInterrupt raised at the call) or sent SIGTERM before each '
         'h5py call, both write paths, small and multi-megabyte payloads, also over an existing file and with a loaded file as the source; the real loader must raise before the final close and load exactly afterwards; recorded call trace = Lean writer trace. '
         'PARTIAL: HDF5 flush policy is the sampled assumption.',
         '§5 C19', 'os._exit models a crash; libhdf5 behaviour assumed.'),
 'C11': (True, 'Lean 4 theorems (CSV round-trip with the exact excluded class; JSON encoder with the exporters\' conversion rules = the documented JSON, which carries what the statement names; archive keys-only round-trip) + correspondence on real result sets',
         'Theorems: csv_parse, csv_columns, fieldOk_false_iff, archive_roundtrip, archive_needs_unique_keys; JSON side (Props/C11Json, C11JsonSpec): json_item, json_results, json_projection, itemJson_faithful, '
         'archive_item, archive_keys_only, archive_faithful, itemCarried_json, resultsCarried_json, archive_read_write (Props/C11JsonArchive), json_results_full, json_results_params_irrelevant (Props/C11JsonFull). Tie: exporters and ResultsArchiveReader on results of real queries on scratch databases with '
         'awkward names; CSV text = Lean writeCsv of rows built from the real objects and parses back; JSON: the Lean predicate resultsCarried on (results object, parsed JSON), and the whole document = Model.Json.encode '
         'with the exporter\'s rules (model rules and rules read from the current source; a difference there with the predicate satisfied is a broken correspondence, reported as no-failing-input-found); '
         'archive equal under == and field by field, archive document = the keys-only encoding. Open finding C11-F1 (bare CR).',
         '§5 C11, §4.5', 'Python json/csv parsing of outputs; float str().'),
}

# Python functions re-translated into Lean from /repo's current source on every run (harness/py2lean.py, harness/pytrace.py) and proved equal to the
# model (Tie/Py*.lean), with the property-level corollaries about the translated code (Tie/PyProps*.lean); DESIGN §9.5
PYTIE = {
 'C01': ('find_kmers, KmerMatch.kmer_indices, KmerMatch.kmer_index, accumulate_kmers, default_accumulator, calc_signature; as structural facts the accumulator classes and the binding of revcomp / ckmers to the compiled module; KmerSpec.__init__, the shape of KmerSpec and DEFAULT_KMERSPEC (structural facts)',
         'find_kmers_eq, kmer_indices_fwd/rev, py_find_kmers_complete, py_calc_signature_spec, accumulator_facts, kmer_binding_facts, kmerspec_facts'),
 'C02': ('_cast_sigs_array, jaccard, jaccarddist (the Python wrappers of the kernels); as a structural fact that _cmetric is the compiled module',
         'cast_sigs_array_eq, jaccarddist_eq, jaccard_eq, jaccarddist_bad, py_jaccarddist_correctly_rounded, metric_binding_facts'),
 'C03': ('matching_taxon, GenomeMatch.next_taxon, classify, reportable_taxon, get_result_item; as structural facts the data flow of query(); Taxon.ancestors (the lineage walk itself); as structural facts the computed defaults of the result records and zip_strict; the shapes of the result record classes (structural facts)',
         'matching_taxon_eq, next_taxon_eq, classify_default_eq, reportable_taxon_eq, get_result_item_eq, py_matching_spec, py_next_spec, py_coarsen_mono, py_classify_default_ok, query_flow_facts, taxon_ancestors_eq, py_ancestors_chain, classify_defaults_facts, zip_strict_facts, result_classes_facts'),
 'C04': ('_check_genomes_have_ids, _map_ids_to_genomes, genomes_by_id, genomes_by_id_subset, ReferenceDatabase.__init__; as structural facts the data flow of query() (ref_indices=db.sig_indices); ReferenceDatabase.locate_files (local helper inlined); as structural facts load / load_from_dir / load_genomeset / only_genomeset and the command line\'s way of opening the database',
         'genomes_by_id_subset_eq, refdb_init_eq, py_refdb_pairing, query_flow_facts, locate_files_eq, py_locate_ok_iff, py_locate_raises, load_flow_facts'),
 'C05': ('chunk_slices, jaccarddist_array, jaccarddist_matrix, jaccarddist_pairwise; the constructors of the two in-memory collections (structural facts)',
         'chunk_slices_eq/_bad/_neg, py_chunks_partition, jaccarddist_array_spec, jaccarddist_matrix_eq, py_matrix_cells, py_pairwise_flat, py_pairwise_square, metric_binding_facts, sigarray_init_facts'),
 'C06': ('find_kmers, KmerMatch.kmer_index, accumulate_kmers, calc_signature, calc_file_signature, guess_compression; accumulator and binding facts; as structural facts _open_auto, open_compressed, maybe_open, seq_to_bytes, SequenceFile.open / parse / from_paths; the shape of SequenceFile (structural fact)',
         'find_kmers_eq, py_calc_signature_spec, calc_file_signature_eq, py_file_signature_invariant, py_file_signature_union, guess_compression_eq, accumulator_facts, kmer_binding_facts, io_flow_facts, sig_classes_facts'),
 'C07': ('kmer_to_index, kmer_to_index_rc, index_dtype, nkmers; as structural facts that seq.revcomp / kmers.index_to_kmer are the compiled functions',
         'kmer_to_index_eq, kmer_to_index_rc_eq, index_dtype_eq, nkmers_eq, kmer_binding_facts'),
 'C08': ('strip_extensions, strip_seq_file_ext, get_file_id, calc_file_signatures, calc_file_signature, read_lines, get_sequence_files (pathlib normal form, str.strip); as structural facts query_parse, QueryInput.convert and the file-opening functions; the shape of SequenceFile (structural fact)',
         'strip_extensions_eq, strip_seq_file_ext_eq, get_file_id_eq/_nostrip/_noext, calc_files_sequential_eq, calc_files_pool_eq, calc_file_signature_eq, read_lines_eq, get_sequence_files_eq, py_seqfiles_positional, py_seqfiles_list, py_seqfiles_labels_positional, query_parse_facts, io_flow_facts, sig_classes_facts'),
 'C09': ('classify, get_result_item; the data flow of query() as structural facts; computed defaults of the result records (structural facts); the shapes of the result record classes (structural facts)',
         'classify_default_eq, classify_strict_eq, get_result_item_eq, get_result_item_head, py_closest_ok, query_flow_facts, classify_defaults_facts, result_classes_facts'),
 'C10': ('find_matches, consensus_taxon, classify; the data flow of query() as structural facts; Taxon.ancestors; computed defaults of the result records and zip_strict (structural facts); the shapes of the result record classes (structural facts)',
         'find_matches_eq, consensus_taxon_eq, classify_strict_eq, py_consensus_perm, py_classify_strict_ok, query_flow_facts, taxon_ancestors_eq, classify_defaults_facts, zip_strict_facts, result_classes_facts'),
 'C11': ('getattr_nested and the column table of CSVResultsExporter (COLUMNS, get_header, get_row); the conversion rules JSONResultsExporter and ResultsArchiveWriter register (as data), with BaseJSONResultsExporter, _todict, the cattrs converter and its hooks, CSVResultsExporter.export, the archive reader and the exporter choice as structural facts; the CSV dialect and the shapes of the result record classes (structural facts)',
         'getattr_nested_eq, py_csv_cells, py_csv_row, csv_header_eq, csv_row_eq, csv_structural_facts, json_rules_eq, archive_rules_eq, json_structural_facts, py_json_item, py_json_results, py_json_carries, py_archive_item, py_archive_keys, archive_reader_facts, exporter_choice_facts, csv_dialect_facts, result_classes_facts'),
 'C12': ('the storage calls of dump_signatures_hdf5 / HDF5Signatures.create / _init_attrs / write_metadata / _init_datasets, the loader\'s checks, HDF5Signatures.__init__ (structural facts), the inherited __getitem__ and _getitem_* methods, the method resolution of the collection classes (structural facts); write_metadata / read_metadata / none_to_empty / empty_to_none / dump_signatures (structural facts); which attribute of the HDF5 group holds which field on the writing and on the reading side (as data); the constructors of the in-memory collections and the shape of SignaturesMeta (structural facts)',
         'writer_trace_eq, hdf5_structural_facts, reader_structural_facts, class_structure_facts, concat_getitem_eq, concat_getitem_slice_eq, hdf5_meta_facts, meta_writer_eq, meta_reader_eq, py_meta_roundtrip, sigarray_init_facts, sig_classes_facts'),
 'C13': ('calc_file_signatures', 'calc_files_executor_eq, calc_files_pool_eq, calc_files_sequential_eq, calc_files_bad_concurrency, py_calc_files_any_order'),
 'C14': ('kspec_from_params, the parameter-deciding fragments of `dist` and `signatures create`, structural facts of the three commands; the file-opening functions (structural facts); the attribute tables of the signature file (the k-mer parameters a file is recognised by); KmerSpec, check_params_group, kspec_params (structural facts)',
         'kspec_from_params_eq, dist_params_eq, create_params_eq, py_dist_never_silent, cli_structural_facts, io_flow_facts, py_meta_roundtrip, kmerspec_facts, cli_params_facts'),
 'C15': ('_cast_sigs_array, jaccard, jaccarddist, jaccarddist_array / _matrix / _pairwise', 'jaccarddist_eq, py_width_irrelevant, jaccarddist_array_spec, jaccarddist_matrix_eq, metric_binding_facts'),
 'C16': ('strip_extensions, strip_seq_file_ext, get_file_id; as structural facts the data flow of dist_cmd and the layout written by dump_dmat_csv; read_lines, get_sequence_files; zip_strict (structural fact); dump_dmat_csv (as the rows handed to the csv writer)',
         'get_file_id_eq, dist_flow_facts, get_sequence_files_eq, py_seqfiles_positional, py_seqfiles_list, zip_strict_facts, dump_dmat_csv_eq, dump_dmat_csv_bad, py_dist_csv, py_dist_csv_cells'),
 'C17': ('linkage_to_bio_tree', 'linkage_to_bio_tree_eq, linkage_to_bio_tree_gen, linkage_to_bio_tree_bad_labels, py_linkage_tree_props'),
 'C18': ('ReadOnlySession, its before_commit listener, file_sessionmaker (structure)', 'session_structural_facts'),
 'C19': ('the storage calls of dump_signatures_hdf5 and everything it calls, its exception handler; read_lines / get_sequence_files and calc_file_signatures (which label goes with which signature); as structural facts tree_cmd and hclust; as structural facts how the library and the command line open a database (load_genomeset, CLIContext._init_genomes: ReadOnlySession)',
         'writer_trace_eq, writer_trace_no_flush, writer_trace_close_last, py_crash_never_loads, hdf5_structural_facts, tree_flow_facts, get_sequence_files_eq, py_calc_files_any_order, load_flow_facts'),
 'C20': ('AdvancedIndexingMixin.__getitem__ (as inherited by the packed and by the list-backed collections, on a dynamically typed index), _check_index, _getitem_slice, _getitem_bool_array, ConcatenatedSignatureArray.__len__/_getitem_int/sizeof/_getitem_int_array/_getitem_slice, SignatureList._getitem_int/_getitem_int_array/__setitem__/__delitem__/insert, sigarray_eq; the method resolution of the collection classes (structural facts); AbstractSignatureArray.__eq__ (structural fact); the constructors of the two in-memory collections (structural facts)',
         'concat_getitem_eq, siglist_getitem_eq, py_getitem_same_selection, py_getitem_ill_typed, check_index_eq, concat_getitem_slice_eq, siglist_setitem_eq/_delitem_eq/_insert_eq, sigarray_eq_eq, class_structure_facts, eq_flow_facts, sigarray_init_facts'),
}

REASON_PENDING = 'check not built yet in this round (machinery under construction; see DESIGN.md §8 build order)'

ALL = [f'C{i:02d}' for i in range(1, 21)]


def main():
	checks = []
	na = []
	for pid in ALL:
		if pid in P and P[pid][0]:
			_, tech, text, ref, note = P[pid]
			if pid in PYTIE:
				fns, thms = PYTIE[pid]
				tech += ' + source-to-Lean translator tie for the Python functions (re-translated from /repo on every run, proved equal to the model)'
				text += (f' Translator tie (DESIGN §9.5): {fns} are re-translated into Lean from the current source at the start of every run and '
				         f'proved equal to the model for all inputs ({thms} in Tie/Py*.lean); a change of these functions breaks the proof, '
				         'then a failing input is searched.')
				ref += ', §9.5'
				note += ' The translation scheme of harness/py2lean.py / pytrace.py and the run-time library Model/PyRt.lean are trusted as described in DESIGN §3; the generated definitions are evaluated next to the real functions on every run.'
			checks.append({
				'property_id': pid,
				'quick_cmd': f'./check {pid} quick',
				'thorough_cmd': f'./check {pid} thorough',
				'evidence_file': f'evidence/{pid}.json',
				'replay_cmd_template': f'./check {pid} --replay {{path}}',
				'engine': 'lean4-proof+correspondence',
				'level_claimed': {'category': 'proof', 'text': text, 'design_ref': ref},
				'level_note': COMMON_NOTE.replace('{id}', pid.lower()).replace('{ID}', pid) + note,
				'technique': tech,
			})
		else:
			na.append({'property_id': pid, 'reason': REASON_PENDING})
	m = {
		'version': 1,
		'setup_cmd': 'cd lean && lake build GambitV Driver driver',
		'hooks': {
			'guard': 'GAMBIT_VERIF',
			'enable': 'no source hooks are needed: the harness controls schedules, crash points and recording from outside '
			          '(public executor=/progress= parameters, wrappers installed by the harness process); GAMBIT_VERIF=1 is set by '
			          './check but nothing in /repo reads it',
			'baseline_off_cmd': 'cd /repo && /venv/bin/python -m pytest -ra -q -p no:cacheprovider --timeout=900 --continue-on-collection-errors',
			'source_commits': [],
			'add_only': True,
		},
		'engines': [{
			'name': 'lean4-proof+correspondence',
			'path': 'lean/ (theorems, models, driver) + harness/ (correspondence, audit)',
			'serves_properties': [c['property_id'] for c in checks],
			'kind_free_text': 'machine-checked proof in Lean 4 about executable models; models tied to the code on every run by a '
			                  'differential correspondence check whose oracle is the Lean spec, and by translators that regenerate Lean definitions from the '
			                  'current sources on every run (.pyx→Lean for the Cython kernels, Python→Lean for some eighty functions and methods, conversion rules / attribute tables read as data, and about sixty glue functions and classes pinned statement by statement), proved equal to the models',
		}],
		'checks': checks,
		'not_applicable': na,
		'notes': 'See DESIGN.md. Exit 0 = held; 1 = VIOLATION line; 2 = the check itself is broken (never a violation).',
	}
	(VERIF / 'MANIFEST.json').write_text(json.dumps(m, indent=1) + '\n')
	print(f'{len(checks)} checks, {len(na)} not_applicable')


if __name__ == '__main__':
	main()
