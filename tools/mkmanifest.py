#!/usr/bin/env python3
"""Regenerates MANIFEST.json from the table below (run after adding a check)."""
import json
from pathlib import Path

VERIF = Path(__file__).resolve().parent.parent

COMMON_NOTE = ('Trusted: Lean 4.33 kernel; axioms at most propext, Classical.choice, Quot.sound (audited by #print axioms on '
               'every run, list in the evidence file); the hand-written model is tied to /repo by the correspondence run of '
               'this check (harness/props/{id}.py drives the real code in-process, Driver/{ID}.lean evaluates the Lean model / '
               'spec predicate on the real outputs). ')

# id -> (built, technique, level text, design_ref, note)
P = {
 'C01': (True, 'Lean 4 theorems (loop-to-set refinement of the search loops) + differential correspondence against the Lean spec',
         'Theorems: the modelled search loops + slice arithmetic + accumulators compute exactly the spec set for all sequences, k<=32, '
         'ACGT prefixes (mem_signature_iff, signature_eq_specList, signature_sorted, accumulators_agree). Tie: real calc_signature output '
         'must equal GambitV.specList (the Lean spec) on generated inputs; find_kmers positions and bytes.find validated against the model.',
         '§5 C01', 'CPython bytes.find/upper, Bio.Seq conversion are modelled (validated by sub-streams); text inputs ASCII.'),
 'C07': (True, 'Lean 4 theorems (round-trip laws, bijection, 64-bit no-wrap) + exhaustive/random correspondence',
         'Theorems: encode/decode mutually inverse on 0..4^k-1 for every k, case ignored, rejection iff a non-ACGT byte, >32 rejected, '
         'revcomp involutive with mirrored complement, encodeRc = encode∘revcomp, UInt64 accumulator never wraps for k<=32. '
         'Tie: all k-mers k<=6/8, all byte strings of length<=2, boundary and random k-mers/indices against the compiled module.',
         '§5 C07', 'The .so is what is exercised; Cython int conversions at the boundary are trusted.'),
 'C05': (True, 'Lean 4 theorems (index-plumbing refinement to cell(i,j) = dist q_i r_j; schedule independence of prange) + correspondence parametric in the real pairwise values',
         'Theorems (all parametric in dist): matrix_cells for every chunk size / index selection / pre-filled buffer, chunkSlices_partition, '
         'pairwiseSquareLoop_eq, pairwiseFlat_get (condensed offsets), prange_schedule_independent for every permutation of iterations. '
         'Tie: jaccarddist_array/_matrix/_pairwise over 4 container types x dtypes x chunk sizes x index selections x out buffers x 1..16 threads; '
         'the Lean model is instantiated with the table of real two-signature bit patterns. PARTIAL: a data race inside one compiled iteration is sampled, not proved.',
         '§5 C05', 'OpenMP prange semantics assumed (each iteration once, loop-assigned variables private); h5py slicing trusted.'),
 'C20': (True, 'Lean 4 theorems (refinement of the concatenated representation and of every index form to list semantics) + exhaustive/random correspondence',
         'Theorems: concat_refines_list (all index forms incl. the contiguous fast path), ofList_toList, slice_spec/arange_mem (clipped arithmetic progression), '
         'ints/mask/int/errors specs, applyMut list semantics, sigEq_iff. Tie: SignatureArray/SignatureList/HDF5Signatures against GambitV.getItemList on '
         'every slice over a small range, all short index lists and masks, NumPy integer dtypes, ill-typed indices, mutation histories, equality.',
         '§5 C20', 'CPython slice.indices / numpy.arange / flatnonzero are modelled (validated by the c20.sliceidx stream); h5py trusted.'),
}

REASON_PENDING = 'check not built yet in this round (machinery under construction; see DESIGN.md §8 build order)'

ALL = [f'C{i:02d}' for i in range(1, 21)]


def main():
	checks = []
	na = []
	for pid in ALL:
		if pid in P and P[pid][0]:
			_, tech, text, ref, note = P[pid]
			checks.append({
				'property_id': pid,
				'quick_cmd': f'./check {pid} quick',
				'thorough_cmd': f'./check {pid} thorough',
				'evidence_file': f'evidence/{pid}.json',
				'replay_cmd_template': f'./check {pid} --replay {{path}}',
				'engine': 'lean4-proof+correspondence',
				'level_claimed': {'category': 'proof', 'text': text, 'design_ref': ref},
				'level_note': COMMON_NOTE.replace('{id}', pid.lower()).replace('{ID}', pid) + note,
				'technique': tech,
			})
		else:
			na.append({'property_id': pid, 'reason': REASON_PENDING})
	m = {
		'version': 1,
		'setup_cmd': 'cd lean && lake build GambitV Driver driver',
		'hooks': {
			'guard': 'GAMBIT_VERIF',
			'enable': 'no source hooks are needed: the harness controls schedules, crash points and recording from outside '
			          '(public executor=/progress= parameters, wrappers installed by the harness process); GAMBIT_VERIF=1 is set by '
			          './check but nothing in /repo reads it',
			'baseline_off_cmd': 'cd /repo && /venv/bin/python -m pytest -ra -q -p no:cacheprovider --timeout=900 --continue-on-collection-errors',
			'source_commits': [],
			'add_only': True,
		},
		'engines': [{
			'name': 'lean4-proof+correspondence',
			'path': 'lean/ (theorems, models, driver) + harness/ (correspondence, audit)',
			'serves_properties': [c['property_id'] for c in checks],
			'kind_free_text': 'machine-checked proof in Lean 4 about executable models; models tied to the code on every run by a '
			                  'differential correspondence check whose oracle is the Lean spec, and (native core) by a .pyx→Lean translator',
		}],
		'checks': checks,
		'not_applicable': na,
		'notes': 'See DESIGN.md. Exit 0 = held; 1 = VIOLATION line; 2 = the check itself is broken (never a violation).',
	}
	(VERIF / 'MANIFEST.json').write_text(json.dumps(m, indent=1) + '\n')
	print(f'{len(checks)} checks, {len(na)} not_applicable')


if __name__ == '__main__':
	main()
