#!/usr/bin/env python3
"""Regenerates MANIFEST.json from the table below (run after adding a check)."""
import json
from pathlib import Path

VERIF = Path(__file__).resolve().parent.parent

COMMON_NOTE = ('Trusted: Lean 4.33 kernel; axioms at most propext, Classical.choice, Quot.sound (audited by #print axioms on '
               'every run, list in the evidence file); the hand-written model is tied to /repo by the correspondence run of '
               'this check (harness/props/{id}.py drives the real code in-process, Driver/{ID}.lean evaluates the Lean model / '
               'spec predicate on the real outputs). ')

# id -> (built, technique, level text, design_ref, note)
P = {
 'C01': (True, 'Lean 4 theorems (loop-to-set refinement of the search loops) + differential correspondence against the Lean spec',
         'Theorems: the modelled search loops + slice arithmetic + accumulators compute exactly the spec set for all sequences, k<=32, '
         'ACGT prefixes (mem_signature_iff, signature_eq_specList, signature_sorted, accumulators_agree). Tie: real calc_signature output '
         'must equal GambitV.specList (the Lean spec) on generated inputs; find_kmers positions and bytes.find validated against the model.',
         '§5 C01', 'CPython bytes.find/upper, Bio.Seq conversion are modelled (validated by sub-streams); text inputs ASCII.'),
 'C07': (True, 'Lean 4 theorems (round-trip laws, bijection, 64-bit no-wrap) + exhaustive/random correspondence',
         'Theorems: encode/decode mutually inverse on 0..4^k-1 for every k, case ignored, rejection iff a non-ACGT byte, >32 rejected, '
         'revcomp involutive with mirrored complement, encodeRc = encode∘revcomp, UInt64 accumulator never wraps for k<=32. '
         'Tie: all k-mers k<=6/8, all byte strings of length<=2, boundary and random k-mers/indices against the compiled module.',
         '§5 C07', 'The .so is what is exercised; Cython int conversions at the boundary are trusted.'),
}

REASON_PENDING = 'check not built yet in this round (machinery under construction; see DESIGN.md §8 build order)'

ALL = [f'C{i:02d}' for i in range(1, 21)]


def main():
	checks = []
	na = []
	for pid in ALL:
		if pid in P and P[pid][0]:
			_, tech, text, ref, note = P[pid]
			checks.append({
				'property_id': pid,
				'quick_cmd': f'./check {pid} quick',
				'thorough_cmd': f'./check {pid} thorough',
				'evidence_file': f'evidence/{pid}.json',
				'replay_cmd_template': f'./check {pid} --replay {{path}}',
				'engine': 'lean4-proof+correspondence',
				'level_claimed': {'category': 'proof', 'text': text, 'design_ref': ref},
				'level_note': COMMON_NOTE.replace('{id}', pid.lower()).replace('{ID}', pid) + note,
				'technique': tech,
			})
		else:
			na.append({'property_id': pid, 'reason': REASON_PENDING})
	m = {
		'version': 1,
		'setup_cmd': 'cd lean && lake build GambitV Driver driver',
		'hooks': {
			'guard': 'GAMBIT_VERIF',
			'enable': 'no source hooks are needed: the harness controls schedules, crash points and recording from outside '
			          '(public executor=/progress= parameters, wrappers installed by the harness process); GAMBIT_VERIF=1 is set by '
			          './check but nothing in /repo reads it',
			'baseline_off_cmd': 'cd /repo && /venv/bin/python -m pytest -ra -q -p no:cacheprovider --timeout=900 --continue-on-collection-errors',
			'source_commits': [],
			'add_only': True,
		},
		'engines': [{
			'name': 'lean4-proof+correspondence',
			'path': 'lean/ (theorems, models, driver) + harness/ (correspondence, audit)',
			'serves_properties': [c['property_id'] for c in checks],
			'kind_free_text': 'machine-checked proof in Lean 4 about executable models; models tied to the code on every run by a '
			                  'differential correspondence check whose oracle is the Lean spec, and (native core) by a .pyx→Lean translator',
		}],
		'checks': checks,
		'not_applicable': na,
		'notes': 'See DESIGN.md. Exit 0 = held; 1 = VIOLATION line; 2 = the check itself is broken (never a violation).',
	}
	(VERIF / 'MANIFEST.json').write_text(json.dumps(m, indent=1) + '\n')
	print(f'{len(checks)} checks, {len(na)} not_applicable')


if __name__ == '__main__':
	main()
