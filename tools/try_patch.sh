#!/bin/bash
# tools/try_patch.sh <patch.diff> [ID ...]   — apply a seeded change to /repo, run the named checks (default: all claimed), undo it.
# Prints one line per check: ID exit-code first-VIOLATION-line
set -u
patch="$1"; shift
cd "$(dirname "$0")/.."
ids="$*"
if [ -z "$ids" ]; then ids=$(python3 -c "import json;print(' '.join(c['property_id'] for c in json.load(open('MANIFEST.json'))['checks']))"); fi
git -C /repo diff --quiet || { echo "/repo has uncommitted changes"; exit 3; }
git -C /repo apply "$patch" || { echo "patch does not apply"; exit 3; }
trap 'git -C /repo checkout -- . ; git -C /repo clean -fdq src 2>/dev/null' EXIT
for id in $ids; do
  out=$(VERIF_BUDGET_S=${VERIF_BUDGET_S:-40} ./check $id ${TIER:-quick} 2>&1); code=$?
  echo "$id exit=$code $(echo "$out" | grep -m1 '^VIOLATION' )"
done
