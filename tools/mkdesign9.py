#!/usr/bin/env python3
"""Regenerates the generated parts of DESIGN.md §9 (theorem inventory, seeded-change matrix) between the markers."""
import json, glob, re
from pathlib import Path
V = Path(__file__).resolve().parent.parent

def inventory():
	rows = []
	for f in sorted(glob.glob(str(V / 'lean/GambitV/Props/C*.lean'))):
		pid = f.split('/')[-1][:-5]
		t = re.sub(r'/-.*?-/', '', open(f).read(), flags=re.S)
		names = re.findall(r'^\s*theorem\s+([A-Za-z_][\w\'?!]*)', t, flags=re.M)
		ex = len(re.findall(r'^\s*example\b', t, flags=re.M))
		rows.append((pid, names, ex))
	out = ['| id | theorems in `Props/<id>.lean` | examples |', '|----|----|----|']
	for pid, names, ex in rows:
		out.append(f'| {pid} | ' + ', '.join(f'`{n}`' for n in names) + f' | {ex} |')
	tie = {}
	for f in sorted(glob.glob(str(V / 'lean/GambitV/Tie/*.lean'))):
		t = re.sub(r'/-.*?-/', '', open(f).read(), flags=re.S)
		tie[f.split('/')[-1][:-5]] = re.findall(r'^\s*theorem\s+([A-Za-z_][\w\'?!]*)', t, flags=re.M)
	out.append('')
	out.append('Tie modules: ' + '; '.join(f'`Tie/{k}.lean`: ' + ', '.join(f'`{n}`' for n in v) for k, v in tie.items()))
	out.append('')
	out.append(f'Totals: {sum(len(r[1]) for r in rows)} property theorems, {sum(r[2] for r in rows)} examples, {sum(len(v) for v in tie.values())} tie theorems.')
	return '\n'.join(out)

def seeded():
	out = ['| seeded change | what it does — what it needs to manifest | first run | now |', '|----|----|----|----|']
	for d in sorted(glob.glob(str(V / 'seeded/*/meta.json'))):
		m = json.load(open(d)); w = m['what_i_ran']; name = d.split('/')[-2]
		hist = w.get('history', [])
		first = (hist[0].get('caught_by') if hist else w.get('caught_by'))
		now = w.get('caught_by')
		summ = (m.get('summary') or '').replace('|', '/').replace('\n', ' ')[:200]
		needs = (m.get('needs_to_manifest') or m.get('needs') or '').replace('|', '/').replace('\n', ' ')[:200]
		note = ' (superseded: no longer a violation since a later fix: commit)' if m.get('superseded') else (' (patch rebased onto the current HEAD)' if m.get('ported') else '')
		out.append(f'| {name} | {summ} — needs: {needs} | {"caught" if first else "MISSED"} | {"caught by " + ",".join(now) if now else "MISSED"}{note} |')
	return '\n'.join(out)

def main():
	p = V / 'DESIGN.md'
	s = p.read_text()
	for tag, gen in (('INVENTORY', inventory), ('SEEDED', seeded)):
		a, b = f'<!-- BEGIN {tag} -->', f'<!-- END {tag} -->'
		if a in s and b in s:
			s = s[:s.index(a) + len(a)] + '\n' + gen() + '\n' + s[s.index(b):]
	p.write_text(s)

if __name__ == '__main__':
	main()
