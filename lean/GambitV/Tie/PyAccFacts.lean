import GambitV.Gen.PyAccFacts

/-!
Tie: the two k-mer accumulator classes of `sigs/calc.py` are what `Py.Acc` (Model/PyRt.lean) says they are, read off the *current* source by
harness/pytrace.py on every run: a fresh accumulator marks nothing, `add` marks one index, `signature` is the marked indices in increasing order
(`np.flatnonzero` of the Boolean array / the sorted array of the set), and the translated `accumulate_kmers` / `calc_signature`
(`Tie/PyCalcSig.lean`) use an accumulator through these two methods only.  Structural (statement text); core Lean only.
-/
namespace GambitV.Tie.Py

theorem accumulator_facts :
    Gen.pyAcc_arrayInit = true ∧ Gen.pyAcc_arrayAdd = true ∧ Gen.pyAcc_arraySignature = true ∧ Gen.pyAcc_setInit = true
      ∧ Gen.pyAcc_setAdd = true ∧ Gen.pyAcc_setSignature = true ∧ Gen.pyAcc_onlyAddUsed = true := by
  decide

end GambitV.Tie.Py
