import GambitV.Gen.PyResultClasses

/-!
Tie (structural facts): the shape of the result record classes (`GenomeMatch`, `ClassifierResult`, `QueryParams`, `QueryInput`, `QueryResultItem`,
`QueryResults`) as it stands in the current source — decorators, fields with their defaults, method names.  The translations of `classify` /
`get_result_item` build these records field by field; a hook that rewrites a field after construction (`__attrs_post_init__`, a validator, a
converter) would make that reading wrong, so the shape is pinned (harness/flow_facts.json; reading it as the models do is part of the trusted base).
-/
namespace GambitV.Tie.Py
open GambitV

theorem result_classes_facts :
    Gen.pyResultClasses_genomeMatch = true ∧ Gen.pyResultClasses_classifierResult = true ∧ Gen.pyResultClasses_queryParams = true ∧ Gen.pyResultClasses_queryInput = true ∧ Gen.pyResultClasses_queryResultItem = true ∧ Gen.pyResultClasses_queryResults = true := by decide

end GambitV.Tie.Py
