import GambitV.Gen.PyHdf5Meta

/-!
Tie (structural facts): how the metadata of a signature file are written and read back (`None` <-> empty attribute, the same six names both ways), as it stands in the current source.  Each fact says that one function consists of exactly the expected
statements (harness/flow_facts.json; compared as normalised `ast` text by harness/pytrace.py on every run); reading these statements as the
models do is part of the trusted base (DESIGN §3).
-/
namespace GambitV.Tie.Py
open GambitV

theorem hdf5_meta_facts :
    Gen.pyHdf5Meta_noneToEmpty = true ∧ Gen.pyHdf5Meta_emptyToNone = true ∧ Gen.pyHdf5Meta_writeMetadata = true ∧ Gen.pyHdf5Meta_readMetadata = true ∧ Gen.pyHdf5Meta_dumpSignatures = true := by decide

end GambitV.Tie.Py
