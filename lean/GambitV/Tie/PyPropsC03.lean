import GambitV.Tie.PyPropsHelpers
import GambitV.Tie.PyMatching
import GambitV.Tie.PyNext
import GambitV.Tie.PyClassify
import GambitV.Tie.PyReportable
import GambitV.Props.C03

/-!
Property-level statements about the definitions translated from the current Python sources (`GambitV.Gen.*`, regenerated on every run):
the tie theorems composed with the property theorems of `Props/`.  C03: default classification.
-/
namespace GambitV.Tie.Py
open GambitV

-- C03 ------------------------------------------------------------------------------------------
/-- the translated `matching_taxon` returns what the statement says: the most specific threshold-bearing taxon of the lineage whose
threshold is not smaller than the distance -/
theorem py_matching_spec (F : Forest) (t d : Nat) : Gen.matching_taxon F t d = .ok (predictedSpec F t d) := by
  rw [matching_taxon_eq, C03.matchingTaxon_eq_spec]

/-- the translated `GenomeMatch.next_taxon` returns the statement's "next taxon" -/
theorem py_next_spec (F : Forest) (hF : ForestWF F) (G : List Nat) (g d : Nat) (hg : G.getD g 0 < F.size) :
    Gen.next_taxon F G g d = .ok (nextSpec F (G.getD g 0) d) := by
  rw [next_taxon_eq F hF G g d hg, C03.next_eq_spec]

/-- coarsening: with a larger distance the translated `matching_taxon` predicts nothing or a taxon at or above the earlier prediction -/
theorem py_coarsen_mono (F : Forest) (t d d' p' : Nat) (h : d ≤ d') (hp' : Gen.matching_taxon F t d' = .ok (some p')) :
    ∃ (p i j : Nat), Gen.matching_taxon F t d = .ok (some p) ∧ i ≤ j ∧ (F.lineage t)[i]? = some p ∧ (F.lineage t)[j]? = some p' := by
  rw [py_matching_spec] at hp'
  have hp'' : predictedSpec F t d' = some p' := by injection hp'
  obtain ⟨p, i, j, h1, h2, h3, h4⟩ := C03.coarsen_mono F t d d' h p' hp''
  exact ⟨p, i, j, by rw [py_matching_spec, h1], h2, h3, h4⟩

/-- the whole default-mode statement (`defaultOk`, the relation the driver evaluates on real results) holds of the translated
`classify(…, strict=False)` together with the translated `next_taxon` and `reportable_taxon` -/
theorem py_classify_default_ok (F : Forest) (hF : ForestWF F) (gtax ds : List Nat) (h : ds.length = gtax.length) (hne : ds ≠ [])
    (hT : ∀ t ∈ gtax, t < F.size) :
    ∃ r nxt rep, Gen.classify F gtax (List.range gtax.length) ds false = .ok r
      ∧ Gen.next_taxon F gtax r.closest_match.genome r.closest_match.distance = .ok nxt
      ∧ Gen.reportable_taxon F r.predicted_taxon = .ok rep
      ∧ defaultOk F gtax ds r.closest_match.genome r.predicted_taxon (r.primary_match.map (·.genome)) nxt rep = true := by
  have hc : argminFirst ds < gtax.length := h ▸ (C03.argminFirst_spec ds hne).1
  refine ⟨resOf F gtax ds (classifyDefault F gtax ds), (classifyDefault F gtax ds).next,
    reportable F (classifyDefault F gtax ds).predicted, classify_default_eq F gtax ds h hne, ?_,
    reportable_taxon_eq F _, ?_⟩
  · exact next_taxon_eq F hF gtax (argminFirst ds) (ds.getD (argminFirst ds) 0) (getD_lt_size hT hc)
  · have := C03.classifyDefault_ok F gtax ds hne
    simp only at this
    simp only [resOf, map_genome_gmOf]
    exact this

end GambitV.Tie.Py
