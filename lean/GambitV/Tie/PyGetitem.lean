import GambitV.Gen.PyGetitem
import GambitV.Tie.PyConcat
import GambitV.Tie.PyCheckIndex
import GambitV.Lemmas.TiePyGetitem

/-!
Tie of the machine-translated `AdvancedIndexingMixin.__getitem__` (gambit/util/indexing.py), `GambitV.Gen.concat_getitem`, on a packed
collection (`cV sigs`, `cB sigs`) to the hand-written model `getItemConcat` of `Model/Indexing.lean`, composed with `classify`: the form
of index (`Index`) that a dynamically typed index expression (`Py.IdxVal`: what Python and NumPy say of the object) denotes.  The
classification itself — `isinstance` tests, the type check of the slice fields, `len`, `np.asarray`, `ndim`, `dtype.kind` — is done by
the translated source; `classify` states what it amounts to.

The methods the dispatch calls are tied in `Tie.PyConcat` / `Tie.PyCheckIndex`.  Here the generated body is evaluated once per kind of
index (`getitem_int`, `getitem_slice_gen`, `getitem_arr_*` for an array or an object `np.asarray` converts, `getitem_sized_*`,
`getitem_unsized`); the loop `for i in index: self._check_index(i)` is `TieGet.forEach_check`, and the NumPy steps that wrap negative
entries (`TieGet.finalInts`) are shown in `Lemmas/TiePyGetitem.lean` to compute the positions `normIndices` returns.  Core Lean only.
-/
namespace GambitV.Tie.Py
open GambitV GambitV.Py GambitV.Gen GambitV.TieConcat GambitV.TieGet

/-- what a one-dimensional integer / Boolean array selects; any other array is refused -/
def classifyNd (a : Py.NdArr) : Index :=
  if a.ndim ≠ 1 then .badArray
  else if a.kind = 'b' then .mask a.bools
  else if a.kind = 'i' ∨ a.kind = 'u' then .ints a.ints
  else .badArray

/-- the form of index (`Model/Indexing.lean`) a dynamically typed index expression denotes -/
def classify : Py.IdxVal → Index
  | .int i => .int i
  | .slice a b c =>
    if a == some none || b == some none || c == some none then .sliceBadType
    else .slice (Py.IdxVal.fieldInt? a) (Py.IdxVal.fieldInt? b) (Py.IdxVal.fieldInt? c)
  | .nd a => classifyNd a
  | .sized n sp asarr =>
    if n = 0 ∧ sp = false then .ints []
    else match asarr with
      | none => .badArray
      | some a => classifyNd a
  | .unsized => .unsized

def excOf : IdxErr → Py.Exc
  | .indexError => .IndexError | .typeError => .TypeError | .valueError => .ValueError

/-- what NumPy guarantees of the description: `len` of a one-dimensional Boolean array is the number of its entries -/
def ndWF (a : Py.NdArr) : Prop := a.ndim = 1 → a.kind = 'b' → a.len0 = a.bools.length
def idxWF : Py.IdxVal → Prop
  | .nd a => ndWF a
  | .sized _ _ (some a) => ndWF a
  | _ => True

set_option linter.unusedSimpArgs false

/-! ### an integer -/

theorem getitem_int (sigs : List (List Nat)) (i : Int) :
    Gen.concat_getitem (cV sigs) (cB sigs) (.int i) = (match checkIndex sigs.length i with
      | .ok j => .ok (.one ((sigs.getD j []).map (fun (v : Nat) => (v : Int))))
      | .error _ => .raised .IndexError) := by
  unfold Gen.concat_getitem Gen.concat_getitem.run
  simp only [isInt_int, getInt_int, if_true, Bool.not_true, guard_false, cB_eq, pB_length_sub_one, check_index_eq,
    bind, Except.bind]
  cases hc : checkIndex sigs.length i with
  | error e => simp only [call_raised, finish_exc]
  | ok j =>
    have hj := C20.checkIndex_lt hc
    simp only [call_ok, ← cB_eq, concat_getitem_int_eq sigs j hj, throw, throwThe, MonadExceptOf.throw, finish_ret]

/-! ### a slice -/

/-- the three fields are type-checked in turn, then the step is compared with 0, then `_getitem_slice` decides -/
theorem getitem_slice_gen (V B : List Int) (a b c : Option (Option Int)) :
    Gen.concat_getitem V B (.slice a b c) =
      if (a == some none || b == some none || c == some none) then .raised .TypeError
      else if c == some (some 0) then .raised .ValueError
      else match Gen.concat_getitem_slice V B (IdxVal.fieldInt? a, IdxVal.fieldInt? b, IdxVal.fieldInt? c) with
        | .ok r => .ok (.many r)
        | .raised e => .raised e
        | .fuelOut => .fuelOut := by
  have key : ∀ c : Option (Option Int), (c == some (some 0)) = true ∨ (c == some (some 0)) = false := fun c => by
    cases (c == some (some 0)) <;> simp
  unfold Gen.concat_getitem Gen.concat_getitem.run
  simp only [isInt_slice, isSlice_slice, sliceFields_slice, Bool.false_eq_true, if_false, if_true]
  rcases key c with hz | hz <;>
  rcases a with _ | _ | a <;> rcases b with _ | _ | b <;> rcases c with _ | _ | c <;>
    simp only [forEach_cons, forEach_nil, Option.isSome, IdxVal.fieldIsInt, Bool.not_true, Bool.not_false, Bool.and_true, Bool.and_false,
      Bool.false_eq_true, if_false, if_true,
      bind, Except.bind, pure, Except.pure, throw, throwThe, MonadExceptOf.throw, finish_exc,
      IdxVal.stepIsZero, IdxVal.sliceHasOther, IdxVal.sliceTuple, IdxVal.fieldInt?, guard_false, hz,
      Option.some_beq_some, Option.none_beq_some, Option.some_beq_none, Option.none_beq_none, BEq.rfl,
      Bool.or_true, Bool.or_false, Bool.true_or, reduceCtorEq] at hz ⊢
  all_goals
    generalize concat_getitem_slice V B _ = w
    cases w <;> simp only [call_ok, call_raised, call_fuelOut, finish_ret, finish_exc, finish_fuel]

/-! ### an array, or an object that `np.asarray` converts -/

/-- the index is an `np.ndarray`, or a sized object (not the empty non-special one) that `np.asarray` turns into the array `a` -/
def IsArr (idx : IdxVal) (a : NdArr) : Prop :=
  idx = .nd a ∨ ∃ n sp, idx = .sized n sp (some a) ∧ ¬ (((n : Nat) : Int) = 0 ∧ sp = false)

theorem cB_length_sub_one (sigs : List (List Nat)) : (((cB sigs).length : Nat) : Int) - 1 = (sigs.length : Int) :=
  pB_length_sub_one sigs

/-- evaluation of the generated body: Boolean conditions as propositions first (while the `Decidable` instances still match), then the
accessors on a known kind of index and the monad -/
local macro "gi_simp" "[" ts:Lean.Parser.Tactic.simpLemma,* "]" : tactic =>
  `(tactic| (
    try simp only [decide_eq_true_eq, Bool.and_eq_true, Bool.or_eq_true, Bool.not_eq_true', beq_iff_eq]
    simp only [isInt_nd, isSlice_nd, isNd_nd, ndim_nd, kind_nd, ints_nd, bools_nd, isInt_sized, isSlice_sized, isNd_sized,
      len?_sized, isSpecial_sized, asarrayFails_some, asarrayFails_none, asarray_some, tryExcept_ok, tryExcept_other,
      isInt_unsized, isSlice_unsized, isNd_unsized, len?_unsized,
      isNd_astypeIntp, isNd_addWhere, cB_length_sub_one,
      Option.isNone_some, Option.isNone_none, Option.getD_some,
      Bool.false_eq_true, Bool.true_eq_false, eq_self, ne_eq, if_false, if_true, Bool.not_true, Bool.not_false, guard_false, guard_true,
      decide_eq_true_eq, Bool.and_eq_true, Bool.or_eq_true, Bool.not_eq_true', beq_iff_eq, not_false_eq_true, not_true_eq_false,
      bind, Except.bind, pure, Except.pure, throw, throwThe, MonadExceptOf.throw, finish_exc, finish_ret, finish_fuel,
      call_ok, call_raised, call_fuelOut, $ts,*]))

theorem getitem_arr_ndim (V B : List Int) (idx : IdxVal) (a : NdArr) (h : IsArr idx a) (hnd : a.ndim ≠ 1) :
    Gen.concat_getitem V B idx = .raised .IndexError := by
  have h1 : (a.ndim : Int) ≠ 1 := by omega
  rcases h with rfl | ⟨n, sp, rfl, hne⟩
  all_goals
    unfold Gen.concat_getitem Gen.concat_getitem.run
    first | gi_simp [h1, hne] | gi_simp [h1]

theorem getitem_arr_kind (V B : List Int) (idx : IdxVal) (a : NdArr) (h : IsArr idx a) (hnd : a.ndim = 1)
    (hb : a.kind ≠ 'b') (hi : a.kind ≠ 'i') (hu : a.kind ≠ 'u') :
    Gen.concat_getitem V B idx = .raised .IndexError := by
  have h1 : (a.ndim : Int) = 1 := by omega
  rcases h with rfl | ⟨n, sp, rfl, hne⟩
  all_goals
    unfold Gen.concat_getitem Gen.concat_getitem.run
    first | gi_simp [h1, hb, hi, hu, or_self, hne] | gi_simp [h1, hb, hi, hu, or_self]

theorem getitem_arr_bool_len (sigs : List (List Nat)) (idx : IdxVal) (a : NdArr) (h : IsArr idx a) (hnd : a.ndim = 1)
    (hk : a.kind = 'b') (hl : a.len0 ≠ sigs.length) :
    Gen.concat_getitem (cV sigs) (cB sigs) idx = .raised .IndexError := by
  have h1 : (a.ndim : Int) = 1 := by omega
  have h2 : (a.len0 : Int) ≠ (sigs.length : Int) := by omega
  rcases h with rfl | ⟨n, sp, rfl, hne⟩
  all_goals
    unfold Gen.concat_getitem Gen.concat_getitem.run
    first | gi_simp [h1, hk, len?_nd a hnd, h2, hne] | gi_simp [h1, hk, len?_nd a hnd, h2]

theorem getitem_arr_bool (sigs : List (List Nat)) (idx : IdxVal) (a : NdArr) (h : IsArr idx a) (hnd : a.ndim = 1)
    (hk : a.kind = 'b') (hl : a.len0 = sigs.length) (r : Py.CArr)
    (hr : Gen.mixin_getitem_bool_array (cV sigs) (cB sigs) a.bools = .ok r) :
    Gen.concat_getitem (cV sigs) (cB sigs) idx = .ok (.many r) := by
  have h1 : (a.ndim : Int) = 1 := by omega
  have h2 : (a.len0 : Int) = (sigs.length : Int) := by omega
  rcases h with rfl | ⟨n, sp, rfl, hne⟩
  all_goals
    unfold Gen.concat_getitem Gen.concat_getitem.run
    first | gi_simp [h1, hk, len?_nd a hnd, h2, hr, hne] | gi_simp [h1, hk, len?_nd a hnd, h2, hr]

/-- the invariant of the checking loop `for i in index: self._check_index(i)` -/
def LoopInv (sigs : List (List Nat)) (a : NdArr) (s : Gen.concat_getitem.St) : Prop :=
  s.self_values = cV sigs ∧ s.self_bounds = cB sigs ∧ s.index = .nd a

/-- one iteration of the checking loop: `_check_index` raises `IndexError` or the loop goes on (only the loop variable is assigned) -/
theorem check_body (sigs : List (List Nat)) (a : NdArr) (x : Int) (s : Gen.concat_getitem.St) (hs : LoopInv sigs a s) :
    Except.bind (call (check_index (↑s.self_bounds.length - 1) x) : M Gen.concat_getitem.St Gen.concat_getitem.Ret Int)
        (fun _ => Except.ok
          { self_values := s.self_values, self_bounds := s.self_bounds, index := s.index,
            input_index := s.input_index, i_1 := s.i_1, i_2 := x, isneg := s.isneg })
      = chkOut (checkIndex sigs.length x) { s with i_2 := x } .IndexError ∧ LoopInv sigs a { s with i_2 := x } := by
  obtain ⟨sv, sb, ix, ii, i1, i2, ng⟩ := s
  obtain ⟨h1, h2, h3⟩ := hs
  dsimp only at h1 h2 h3
  subst h1 h2 h3
  refine ⟨?_, rfl, rfl, rfl⟩
  simp only [cB_length_sub_one, check_index_eq]
  cases checkIndex sigs.length x <;> simp only [call_ok, call_raised, Except.bind, chkOut_ok, chkOut_error]

theorem getitem_arr_ints_bad (sigs : List (List Nat)) (idx : IdxVal) (a : NdArr) (h : IsArr idx a) (hnd : a.ndim = 1)
    (hb : a.kind ≠ 'b') (hiu : a.kind = 'i' ∨ a.kind = 'u') (e : IdxErr) (hn : normIndices sigs.length a.ints = .error e) :
    Gen.concat_getitem (cV sigs) (cB sigs) idx = .raised .IndexError := by
  have h1 : (a.ndim : Int) = 1 := by omega
  unfold normIndices at hn
  rcases h with rfl | ⟨n, sp, rfl, hne⟩
  all_goals
    unfold Gen.concat_getitem Gen.concat_getitem.run
    first | gi_simp [h1, hb, hiu, hne] | gi_simp [h1, hb, hiu]
    generalize hw : Py.forEach _ _ _ = w
    obtain ⟨-, rfl⟩ := forEach_check hw (LoopInv sigs a) (checkIndex sigs.length) (fun s x => { s with i_2 := x }) .IndexError
      (fun x s hs => check_body sigs a x s hs) ⟨rfl, rfl, rfl⟩
    simp only [hn, chkOut_error, finish_exc]

theorem getitem_arr_ints (sigs : List (List Nat)) (idx : IdxVal) (a : NdArr) (h : IsArr idx a) (hnd : a.ndim = 1)
    (hb : a.kind ≠ 'b') (hiu : a.kind = 'i' ∨ a.kind = 'u') (js : List Nat) (hn : normIndices sigs.length a.ints = .ok js)
    (r : Py.CArr) (hr : Gen.concat_getitem_int_array (cV sigs) (cB sigs) (finalInts sigs.length a) = .ok r) :
    Gen.concat_getitem (cV sigs) (cB sigs) idx = .ok (.many r) := by
  have h1 : (a.ndim : Int) = 1 := by omega
  unfold normIndices at hn
  unfold finalInts at hr
  rcases h with rfl | ⟨n, sp, rfl, hne⟩
  all_goals
    unfold Gen.concat_getitem Gen.concat_getitem.run
    first | gi_simp [h1, hb, hiu, hne] | gi_simp [h1, hb, hiu]
    generalize hw : Py.forEach _ _ _ = w
    obtain ⟨hP, rfl⟩ := forEach_check hw (LoopInv sigs a) (checkIndex sigs.length) (fun s x => { s with i_2 := x }) .IndexError
      (fun x s hs => check_body sigs a x s hs) ⟨rfl, rfl, rfl⟩
    clear hw
    generalize List.foldl _ _ _ = s1 at hP ⊢
    obtain ⟨sv, sb, ix, ii, i1, i2, ng⟩ := s1
    obtain ⟨q1, q2, q3⟩ := hP
    dsimp only at q1 q2 q3
    subst q1 q2 q3
    by_cases hu : a.kind = 'u'
    · rw [if_pos hu] at hr
      by_cases hneg : (IdxVal.ltZero (IdxVal.astypeIntp (.nd a))).any id = true
      · rw [if_pos hneg] at hr
        gi_simp [hn, chkOut_ok, hu, hneg, hr]
      · rw [if_neg hneg] at hr
        gi_simp [hn, chkOut_ok, hu, hneg, hr]
    · simp only [if_neg hu] at hr
      by_cases hneg : (IdxVal.ltZero (.nd a)).any id = true
      · rw [if_pos hneg] at hr
        gi_simp [hn, chkOut_ok, hu, hneg, hr]
      · rw [if_neg hneg, ints_nd] at hr
        gi_simp [hn, chkOut_ok, hu, hneg, hr]

/-! ### the other objects -/

/-- an empty sequence that is not a string / mapping / set: an empty integer array, whatever `np.asarray` would say -/
theorem getitem_sized_empty (sigs : List (List Nat)) (asarr : Option NdArr) (r : Py.CArr)
    (hr : Gen.concat_getitem_int_array (cV sigs) (cB sigs) [] = .ok r) :
    Gen.concat_getitem (cV sigs) (cB sigs) (.sized 0 false asarr) = .ok (.many r) := by
  unfold Gen.concat_getitem Gen.concat_getitem.run
  gi_simp [isNd_emptyInt, ndim_emptyInt, kind_emptyInt_b, kind_emptyInt_u, kind_emptyInt_i, true_or, or_false, ints_emptyInt, ltZero_emptyInt,
    forEach_nil, List.any_nil, Int.natCast_zero, and_self, hr]

/-- `np.asarray` raises: reported as an `IndexError` -/
theorem getitem_sized_none (V B : List Int) (n : Nat) (sp : Bool) (hne : ¬ (((n : Nat) : Int) = 0 ∧ sp = false)) :
    Gen.concat_getitem V B (.sized n sp none) = .raised .IndexError := by
  unfold Gen.concat_getitem Gen.concat_getitem.run
  gi_simp [hne]

theorem getitem_unsized (V B : List Int) : Gen.concat_getitem V B .unsized = .raised .TypeError := by
  unfold Gen.concat_getitem Gen.concat_getitem.run
  gi_simp []

/-! ### the dispatch against the model -/

/-- the shape of the three stated conclusions, for one outcome of the model -/
def Agrees (sigs : List (List Nat)) (idx : IdxVal) (m : Except IdxErr CSel) : Prop :=
  match m with
  | .ok (.one x) => Gen.concat_getitem (cV sigs) (cB sigs) idx = .ok (.one (x.map (fun (v : Nat) => (v : Int))))
  | .ok (.many c) => ∃ r, Gen.concat_getitem (cV sigs) (cB sigs) idx = .ok (.many r) ∧ toConcat r = c
  | .error e => Gen.concat_getitem (cV sigs) (cB sigs) idx = .raised (excOf e)

/-- an array (given as such or made by `np.asarray`) against the model on `classifyNd` -/
theorem getitem_arr_eq (sigs : List (List Nat)) (idx : IdxVal) (a : NdArr) (h : IsArr idx a) (hwf : ndWF a)
    (hlen : sigs.length < 2 ^ 63) : Agrees sigs idx (getItemConcat (Concat.ofList sigs) (classifyNd a)) := by
  unfold classifyNd
  by_cases hnd : a.ndim ≠ 1
  · rw [if_pos hnd]
    exact getitem_arr_ndim _ _ idx a h hnd
  · rw [if_neg hnd]
    have hnd' : a.ndim = 1 := by omega
    by_cases hk : a.kind = 'b'
    · rw [if_pos hk]
      have hl0 := hwf hnd' hk
      by_cases hl : a.bools.length ≠ sigs.length
      · have hm : getItemConcat (Concat.ofList sigs) (.mask a.bools) = .error .indexError := by
          simp only [getItemConcat, ofList_len', if_pos hl]
        rw [hm]
        exact getitem_arr_bool_len sigs idx a h hnd' hk (by omega)
      · have hm : getItemConcat (Concat.ofList sigs) (.mask a.bools)
            = .ok (.many ((Concat.ofList sigs).gather (flatnonzero a.bools))) := by
          simp only [getItemConcat, ofList_len', if_neg hl]
        rw [hm]
        obtain ⟨r, hr, hc⟩ := mixin_getitem_bool_array_eq sigs a.bools (by omega)
        exact ⟨r, getitem_arr_bool sigs idx a h hnd' hk (by omega) r hr, hc⟩
    · rw [if_neg hk]
      by_cases hiu : a.kind = 'i' ∨ a.kind = 'u'
      · rw [if_pos hiu]
        cases hn : normIndices sigs.length a.ints with
        | error e =>
          have he := normIndices_error_kind _ _ e hn
          subst he
          have hm : getItemConcat (Concat.ofList sigs) (.ints a.ints) = .error .indexError := by
            simp only [getItemConcat, ofList_len', hn, bind, Except.bind]
          rw [hm]
          exact getitem_arr_ints_bad sigs idx a h hnd' hk hiu _ hn
        | ok js =>
          have hm : getItemConcat (Concat.ofList sigs) (.ints a.ints) = .ok (.many ((Concat.ofList sigs).gather js)) := by
            simp only [getItemConcat, ofList_len', hn, bind, Except.bind, pure, Except.pure]
          rw [hm]
          obtain ⟨r, hr, hc, -, -⟩ := concat_getitem_int_array_eq sigs js (normIndices_lt _ _ js hn)
          rw [← finalInts_eq sigs.length a hlen js hn] at hr
          exact ⟨r, getitem_arr_ints sigs idx a h hnd' hk hiu js hn r hr, hc⟩
      · rw [if_neg hiu]
        exact getitem_arr_kind _ _ idx a h hnd' hk (fun hi => hiu (Or.inl hi)) (fun hu => hiu (Or.inr hu))

theorem concat_getitem_agrees (sigs : List (List Nat)) (idx : Py.IdxVal) (hwf : idxWF idx) (hlen : sigs.length < 2 ^ 63) :
    Agrees sigs idx (getItemConcat (Concat.ofList sigs) (classify idx)) := by
  cases idx with
  | int i =>
    have hg := getitem_int sigs i
    cases hc : checkIndex sigs.length i with
    | error e =>
      have he := (C20.checkIndex_error _ _ e hc).1
      subst he
      have hm : getItemConcat (Concat.ofList sigs) (classify (.int i)) = .error .indexError := by
        simp only [classify, getItemConcat, ofList_len', hc, bind, Except.bind]
      rw [hm]
      rw [hc] at hg
      exact hg
    | ok j =>
      have hm : getItemConcat (Concat.ofList sigs) (classify (.int i)) = .ok (.one (sigs.getD j [])) := by
        simp only [classify, getItemConcat, ofList_len', hc, bind, Except.bind, pure, Except.pure, ofList_get']
      rw [hm]
      rw [hc] at hg
      exact hg
  | slice a b c =>
    have hg := getitem_slice_gen (cV sigs) (cB sigs) a b c
    simp only [classify]
    by_cases hbad : (a == some none || b == some none || c == some none) = true
    · rw [if_pos hbad] at hg ⊢
      exact hg
    · rw [if_neg hbad] at hg ⊢
      by_cases hz : (c == some (some 0)) = true
      · rw [if_pos hz] at hg
        have hc0 : IdxVal.fieldInt? c = some 0 := by
          have : c = some (some 0) := by simpa using hz
          rw [this]; rfl
        have hm : getItemConcat (Concat.ofList sigs) (.slice (IdxVal.fieldInt? a) (IdxVal.fieldInt? b) (IdxVal.fieldInt? c))
            = .error .valueError := by
          simp only [getItemConcat, hc0, if_true]
        rw [hm]
        exact hg
      · rw [if_neg hz] at hg
        have hc0 : IdxVal.fieldInt? c ≠ some 0 := by
          intro h0
          apply hz
          rcases c with _ | _ | c
          · cases h0
          · cases h0
          · have : c = 0 := by simpa [IdxVal.fieldInt?] using h0
            subst this
            rfl
        obtain ⟨r, hr, hm⟩ := concat_getitem_slice_eq sigs _ _ _ hc0
        rw [hm]
        rw [hr] at hg
        exact ⟨r, hg, rfl⟩
  | nd a => exact getitem_arr_eq sigs (.nd a) a (Or.inl rfl) hwf hlen
  | sized n sp asarr =>
    simp only [classify]
    by_cases he : n = 0 ∧ sp = false
    · rw [if_pos he]
      obtain ⟨rfl, rfl⟩ := he
      have hm : getItemConcat (Concat.ofList sigs) (.ints []) = .ok (.many ((Concat.ofList sigs).gather [])) := rfl
      rw [hm]
      obtain ⟨r, hr, hc, -, -⟩ := concat_getitem_int_array_eq sigs [] (fun j hj => by cases hj)
      exact ⟨r, getitem_sized_empty sigs asarr r hr, hc⟩
    · rw [if_neg he]
      have he' : ¬ (((n : Nat) : Int) = 0 ∧ sp = false) := fun h => he ⟨by omega, h.2⟩
      cases asarr with
      | none => exact getitem_sized_none _ _ n sp he'
      | some a => exact getitem_arr_eq sigs _ a (Or.inr ⟨n, sp, rfl, he'⟩) hwf hlen
  | unsized => exact getitem_unsized _ _

/-- the dispatch of `__getitem__`, as the source has it now, on a packed collection = the model on the classified index -/
theorem concat_getitem_eq (sigs : List (List Nat)) (idx : Py.IdxVal) (hwf : idxWF idx) (hlen : sigs.length < 2 ^ 63) :
    match getItemConcat (Concat.ofList sigs) (classify idx) with
    | .ok (.one x) => Gen.concat_getitem (cV sigs) (cB sigs) idx = .ok (.one (x.map (fun (v : Nat) => (v : Int))))
    | .ok (.many c) => ∃ r, Gen.concat_getitem (cV sigs) (cB sigs) idx = .ok (.many r) ∧ toConcat r = c
    | .error e => Gen.concat_getitem (cV sigs) (cB sigs) idx = .raised (excOf e) :=
  concat_getitem_agrees sigs idx hwf hlen

/-- read back as what a plain list selects (C20's reference semantics) -/
def selOfPy : Py.CSel → Sel (List Nat)
  | .one x => .one (x.map Int.toNat)
  | .many r => .many (toConcat r).toList

theorem py_getitem_refines_list (sigs : List (List Nat)) (idx : Py.IdxVal) (hwf : idxWF idx) (hlen : sigs.length < 2 ^ 63) :
    match getItemList sigs (classify idx) with
    | .ok sel => ∃ r, Gen.concat_getitem (cV sigs) (cB sigs) idx = .ok r ∧ selOfPy r = sel
    | .error e => Gen.concat_getitem (cV sigs) (cB sigs) idx = .raised (excOf e) := by
  have h := concat_getitem_agrees sigs idx hwf hlen
  have href := C20.concat_refines_list sigs (classify idx)
  cases hg : getItemConcat (Concat.ofList sigs) (classify idx) with
  | error e =>
    rw [hg] at h href
    rw [← href]
    exact h
  | ok sel =>
    rw [hg] at h href
    rw [← href]
    cases sel with
    | one x => exact ⟨_, h, by show Sel.one _ = Sel.one _; rw [toNat_natCast_map]⟩
    | many c =>
      obtain ⟨r, hr, hc⟩ := h
      exact ⟨_, hr, by show Sel.many _ = Sel.many _; rw [hc]⟩

/-- an array that `classifyNd` refuses is refused by the code -/
theorem getitem_arr_bad (sigs : List (List Nat)) (idx : IdxVal) (a : NdArr) (h : IsArr idx a)
    (hc : classifyNd a = .badArray ∨ classifyNd a = .unsized ∨ classifyNd a = .sliceBadType) :
    Gen.concat_getitem (cV sigs) (cB sigs) idx = .raised .IndexError := by
  unfold classifyNd at hc
  by_cases hnd : a.ndim ≠ 1
  · exact getitem_arr_ndim _ _ idx a h hnd
  · rw [if_neg hnd] at hc
    by_cases hk : a.kind = 'b'
    · rw [if_pos hk] at hc
      rcases hc with hc | hc | hc <;> cases hc
    · rw [if_neg hk] at hc
      by_cases hiu : a.kind = 'i' ∨ a.kind = 'u'
      · rw [if_pos hiu] at hc
        rcases hc with hc | hc | hc <;> cases hc
      · exact getitem_arr_kind _ _ idx a h (by omega) hk (fun hi => hiu (Or.inl hi)) (fun hu => hiu (Or.inr hu))

/-- ill-typed indices raise an index or type error, never select: every index that is not an integer, a well-typed slice, or a
one-dimensional integer / Boolean array is refused -/
theorem py_getitem_ill_typed (sigs : List (List Nat)) (idx : Py.IdxVal)
    (h : classify idx = .badArray ∨ classify idx = .unsized ∨ classify idx = .sliceBadType) :
    Gen.concat_getitem (cV sigs) (cB sigs) idx = .raised .IndexError ∨ Gen.concat_getitem (cV sigs) (cB sigs) idx = .raised .TypeError := by
  cases idx with
  | int i => rcases h with h | h | h <;> cases h
  | slice a b c =>
    right
    have hg := getitem_slice_gen (cV sigs) (cB sigs) a b c
    simp only [classify] at h
    by_cases hbad : (a == some none || b == some none || c == some none) = true
    · rw [if_pos hbad] at hg
      exact hg
    · rw [if_neg hbad] at h
      rcases h with h | h | h <;> cases h
  | nd a => exact Or.inl (getitem_arr_bad sigs _ a (Or.inl rfl) h)
  | sized n sp asarr =>
    left
    simp only [classify] at h
    by_cases he : n = 0 ∧ sp = false
    · rw [if_pos he] at h
      rcases h with h | h | h <;> cases h
    · rw [if_neg he] at h
      have he' : ¬ (((n : Nat) : Int) = 0 ∧ sp = false) := fun h => he ⟨by omega, h.2⟩
      cases asarr with
      | none => exact getitem_sized_none _ _ n sp he'
      | some a => exact getitem_arr_bad sigs _ a (Or.inr ⟨n, sp, rfl, he'⟩) h
  | unsized => exact Or.inr (getitem_unsized _ _)

/-! ### non-vacuity: the generated dispatch on the collection `[[1, 2], [], [7, 8, 9]]` -/

-- an integer index `-1` is wrapped once
example : Gen.concat_getitem (cV [[1, 2], [], [7, 8, 9]]) (cB [[1, 2], [], [7, 8, 9]]) (.int (-1)) = .ok (.one [7, 8, 9])
    ∧ classify (.int (-1)) = .int (-1) := by decide
-- the slice `::-1` goes through the mixin's `_getitem_slice` (gathered copy, reversed)
example : Gen.concat_getitem (cV [[1, 2], [], [7, 8, 9]]) (cB [[1, 2], [], [7, 8, 9]]) (.slice none none (some (some (-1))))
    = .ok (.many { values := [7, 8, 9, 1, 2], bounds := [0, 3, 3, 5] }) := by decide
-- a slice with a field that is not an integer, and a zero step
example : Gen.concat_getitem (cV [[1, 2], [], [7, 8, 9]]) (cB [[1, 2], [], [7, 8, 9]]) (.slice (some none) none (some (some 0)))
      = .raised .TypeError
    ∧ Gen.concat_getitem (cV [[1, 2], [], [7, 8, 9]]) (cB [[1, 2], [], [7, 8, 9]]) (.slice none none (some (some 0)))
      = .raised .ValueError := by decide
-- an unsigned array `[2, 0]` (converted to `intp`) and a signed one with negative entries `[-1, -3, 1]` (wrapped in place)
example : Gen.concat_getitem (cV [[1, 2], [], [7, 8, 9]]) (cB [[1, 2], [], [7, 8, 9]])
      (.nd { ndim := 1, kind := 'u', len0 := 2, ints := [2, 0], bools := [] })
      = .ok (.many { values := [7, 8, 9, 1, 2], bounds := [0, 3, 5] })
    ∧ Gen.concat_getitem (cV [[1, 2], [], [7, 8, 9]]) (cB [[1, 2], [], [7, 8, 9]])
      (.nd { ndim := 1, kind := 'i', len0 := 3, ints := [-1, -3, 1], bools := [] })
      = .ok (.many { values := [7, 8, 9, 1, 2], bounds := [0, 3, 5, 5] }) := by decide
-- an unsigned entry 2^64 - 1 is out of range (it is checked before the conversion, not read as -1)
example : Gen.concat_getitem (cV [[1, 2], [], [7, 8, 9]]) (cB [[1, 2], [], [7, 8, 9]])
      (.nd { ndim := 1, kind := 'u', len0 := 1, ints := [18446744073709551615], bools := [] }) = .raised .IndexError := by decide
-- a Boolean mask of the right and of the wrong length
example : Gen.concat_getitem (cV [[1, 2], [], [7, 8, 9]]) (cB [[1, 2], [], [7, 8, 9]])
      (.nd { ndim := 1, kind := 'b', len0 := 3, ints := [], bools := [true, false, true] })
      = .ok (.many { values := [1, 2, 7, 8, 9], bounds := [0, 2, 5] })
    ∧ Gen.concat_getitem (cV [[1, 2], [], [7, 8, 9]]) (cB [[1, 2], [], [7, 8, 9]])
      (.nd { ndim := 1, kind := 'b', len0 := 2, ints := [], bools := [true, false] }) = .raised .IndexError
    ∧ idxWF (.nd { ndim := 1, kind := 'b', len0 := 2, ints := [], bools := [true, false] }) :=
  ⟨by decide, by decide, fun _ _ => rfl⟩
-- a float array, a two-dimensional array, a list that `np.asarray` makes a string array, a float
example : Gen.concat_getitem (cV [[1, 2], [], [7, 8, 9]]) (cB [[1, 2], [], [7, 8, 9]])
      (.nd { ndim := 1, kind := 'f', len0 := 1, ints := [], bools := [] }) = .raised .IndexError
    ∧ Gen.concat_getitem (cV [[1, 2], [], [7, 8, 9]]) (cB [[1, 2], [], [7, 8, 9]])
      (.nd { ndim := 2, kind := 'i', len0 := 2, ints := [], bools := [] }) = .raised .IndexError
    ∧ Gen.concat_getitem (cV [[1, 2], [], [7, 8, 9]]) (cB [[1, 2], [], [7, 8, 9]])
      (.sized 2 false (some { ndim := 1, kind := 'U', len0 := 2, ints := [], bools := [] })) = .raised .IndexError
    ∧ Gen.concat_getitem (cV [[1, 2], [], [7, 8, 9]]) (cB [[1, 2], [], [7, 8, 9]]) .unsized = .raised .TypeError
    ∧ classify (.nd { ndim := 1, kind := 'f', len0 := 1, ints := [], bools := [] }) = .badArray := by decide
-- a list of integers `[1, -1]`, and the empty list
example : Gen.concat_getitem (cV [[1, 2], [], [7, 8, 9]]) (cB [[1, 2], [], [7, 8, 9]])
      (.sized 2 false (some { ndim := 1, kind := 'i', len0 := 2, ints := [1, -1], bools := [] }))
      = .ok (.many { values := [7, 8, 9], bounds := [0, 0, 3] })
    ∧ Gen.concat_getitem (cV [[1, 2], [], [7, 8, 9]]) (cB [[1, 2], [], [7, 8, 9]]) (.sized 0 false none)
      = .ok (.many { values := [], bounds := [0] }) := by decide

end GambitV.Tie.Py
