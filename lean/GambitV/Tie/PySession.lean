import GambitV.Gen.PySession

/-!
Tie: the facts about `gambit/db/sqla.py` that the session model of C18 (`Model/Session.lean`: `stepRO`) rests on, read off the *current*
source on every run by harness/pytrace.py: `ReadOnlySession.flush` does nothing (`flush_noop`), `commit` only raises (`commit_raises`), the
`before_commit` listener raises unconditionally (`txn_commit_raises`, `begin_block_raises`: every commit path goes through it), the class
overrides nothing else, and `file_sessionmaker` hands out that class by default on an engine built from the file URL alone (no
autocommit isolation level).  Core Lean only.
-/
namespace GambitV.Tie.Py
open GambitV

theorem session_structural_facts :
    Gen.pySessionFlushNoop = true ∧ Gen.pySessionCommitRaises = true ∧ Gen.pySessionHookRaises = true ∧
    Gen.pySessionNoOtherOverrides = true ∧ Gen.pySessionDefaultReadOnly = true ∧ Gen.pySessionEngineDefault = true := by
  decide

end GambitV.Tie.Py
