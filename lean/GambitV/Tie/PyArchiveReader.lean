import GambitV.Gen.PyArchiveReader

/-!
Tie (structural facts): the archive reader as it stands in the current source: every database object is looked up afresh, by key, within the genome set found by key and version — the `Db.taxon` / `Db.genome` lookups of `Model/Export.lean` (`archive_roundtrip`).  Each fact says that one function consists of exactly the expected statements (compared as normalised
`ast` text by harness/pytrace.py on every run); reading these statements as the models do is part of the trusted base (DESIGN §3).
-/
namespace GambitV.Tie.Py
open GambitV

theorem archive_reader_facts :
    Gen.pyArchiveReader_init = true ∧ Gen.pyArchiveReader_converter = true ∧ Gen.pyArchiveReader_read = true ∧ Gen.pyArchiveReader_fromJson = true ∧ Gen.pyArchiveReader_genomeset = true ∧ Gen.pyArchiveReader_genome = true ∧ Gen.pyArchiveReader_taxon = true := by decide

end GambitV.Tie.Py
