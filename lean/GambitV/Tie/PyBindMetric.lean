import GambitV.Gen.PyBindings

/-!
Tie: `_cmetric` in `gambit.metric` — through which the translated wrappers `jaccard`, `jaccarddist`, `jaccarddist_array` reach the kernels
(`Tie/PyMetric.lean`, `Tie/PyBulk.lean`) — is the compiled module `gambit._cython.metric`, whose functions `harness/pyx2lean.py` regenerates from the
`.pyx` (`Tie/Metric.lean`).  Read off the current source on every run.  Core Lean only.
-/
namespace GambitV.Tie.Py

theorem metric_binding_facts : Gen.pyBind_metricModule = true := by decide

end GambitV.Tie.Py
