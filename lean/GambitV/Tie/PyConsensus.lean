import GambitV.Gen.PyConsensus
import GambitV.Lemmas.PyRt
import GambitV.Lemmas.TiePyConsensus

/-!
Tie of the machine-translated `consensus_taxon` (`GambitV.Gen.consensus_taxon`, from gambit/classify.py)
to the hand-written model `consensusPaths` (`Model/Taxonomy.lean`).

Two stages.  (1) The two loop bodies of the generated term are named (`innerBody`, `outerBody`; `run_eq`
is `rfl`) and shown to compute the clean step `stepNode` on `(trunk, split)`.  (2) `stepNode` on
`(F.lineage c, split)` is `consensusStep` on `(F.path c, split)` (`stepNode_consensusStep`, in
`Lemmas/TiePyConsensus.lean`); an invariant over the outer `for` then gives the statement.
Core Lean only.
-/
namespace GambitV.Tie.Py
open GambitV GambitV.Gen GambitV.TieCons GambitV.TieCons.Py

abbrev St := consensus_taxon.St
abbrev Ret := consensus_taxon.Ret

/-! ### the loop bodies of the generated term -/

/-- body of `for a in taxon.ancestors():` -/
def innerBody (F : Forest) : Nat → St → Py.M St Ret St :=
  fun x (s : St) => (do
    let s : St := { s with a := x }
    let s ← Py.tryExcept ((fun (s : St) => (do
        let _ ← Py.guard (Py.index? s.trunk s.a).isNone .ValueError
        let s : St := { s with i := (((Py.index? s.trunk s.a).getD 0 : Nat) : Int) }
        pure s : Py.M St Ret St)) s) .ValueError ((fun (s : St) => (do
        let _ ← (throw (Py.Ctl.cont s) : Py.M St Ret Unit)
        pure s : Py.M St Ret St)) s)
    let s ← (if (decide (s.i = (0 : Int))) then
        (fun (s : St) => (do
        let s ← (if (!s.split) then
            (fun (s : St) => (do
            let s : St := { s with trunk := (F.lineage s.taxon) }
            pure s : Py.M St Ret St)) s
          else pure s)
        pure s : Py.M St Ret St)) s
      else (fun (s : St) => (do
        let s : St := { s with trunk := (Py.slice s.trunk (some s.i) none) }
        let s : St := { s with split := true }
        pure s : Py.M St Ret St)) s)
    let _ ← (throw (Py.Ctl.brk s) : Py.M St Ret Unit)
    pure s : Py.M St Ret St)

/-- body of `for taxon in taxa[1:]:` -/
def outerBody (F : Forest) : Nat → St → Py.M St Ret St :=
  fun x (s : St) => (do
    let s : St := { s with taxon := x }
    let s ← (if ((s.trunk).contains s.taxon) then
        (fun (s : St) => (do
        let _ ← (throw (Py.Ctl.cont s) : Py.M St Ret Unit)
        pure s : Py.M St Ret St)) s
      else pure s)
    let r ← Py.forEach (F.properAncestors s.taxon) (innerBody F) s
    let s : St := r.1
    let s ← (if r.2 then
        (fun (s : St) => (do
        let _ ← (throw (Py.Ctl.ret (none, (s.taxa).eraseDups)) : Py.M St Ret Unit)
        pure s : Py.M St Ret St)) s
      else pure s)
    pure s : Py.M St Ret St)

/-- the generated body, with the two loop bodies named -/
theorem run_eq (F : Forest) (s : St) :
    consensus_taxon.run F s = (do
      let s : St := { s with taxa := s.taxa }
      let s ← (if (!(!(s.taxa).isEmpty)) then
          (fun (s : St) => (do
          let _ ← (throw (Py.Ctl.ret (none, [])) : Py.M St Ret Unit)
          pure s : Py.M St Ret St)) s
        else pure s)
      let _ ← Py.guard (Py.getItem? s.taxa (0 : Int)).isNone .IndexError
      let s : St := { s with trunk := (F.lineage ((Py.getItem? s.taxa (0 : Int)).getD (0 : Nat))) }
      let s : St := { s with split := false }
      let r ← Py.forEach (Py.slice s.taxa (some (1 : Int)) none) (outerBody F) s
      let s : St := r.1
      let s : St := { s with others := (((s.taxa).filter (fun x_t => (!((s.trunk).contains x_t))))).eraseDups }
      let _ ← Py.guard (Py.getItem? s.trunk (0 : Int)).isNone .IndexError
      let _ ← (throw (Py.Ctl.ret ((some ((Py.getItem? s.trunk (0 : Int)).getD (0 : Nat))), s.others)) : Py.M St Ret Unit)
      pure s) := rfl

/-! ### stage 1: the loop bodies compute `stepNode` -/

theorem innerBody_not_mem (F : Forest) (x : Nat) (s : St) (h : x ∉ s.trunk) :
    innerBody F x s = .error (.cont { s with a := x }) := by
  simp [innerBody, Py.index?_eq_none h, Py.tryExcept, Py.Exc.catches, throw, throwThe,
    MonadExceptOf.throw, bind, Except.bind]

theorem innerBody_mem (F : Forest) (x : Nat) (s : St) (h : x ∈ s.trunk) :
    ∃ s', innerBody F x s = .error (.brk s') ∧ s'.taxa = s.taxa ∧
      (s'.trunk, s'.split) = meetAt F (s.trunk, s.split) s.taxon x := by
  obtain ⟨pre, rest, e, hi⟩ := Py.index?_of_mem h
  by_cases h0 : pre.length = 0
  · cases hsp : s.split <;>
      simp [innerBody, meetAt, hi, h0, hsp, Py.tryExcept, throw, throwThe, MonadExceptOf.throw, bind,
        Except.bind, pure, Except.pure]
  · simp [innerBody, meetAt, hi, h0, Py.tryExcept, throw, throwThe, MonadExceptOf.throw, bind,
      Except.bind, pure, Except.pure, Py.slice_nat_none]

/-- the inner `for`: finds the first ancestor lying in the trunk; the flag tells whether one exists -/
theorem inner_loop (F : Forest) : ∀ (anc : List Nat) (s : St),
    ∃ s', s'.taxa = s.taxa ∧
      match anc.find? (fun a => s.trunk.contains a) with
      | none => Py.forEach anc (innerBody F) s = .ok (s', true)
      | some a => Py.forEach anc (innerBody F) s = .ok (s', false) ∧
          (s'.trunk, s'.split) = meetAt F (s.trunk, s.split) s.taxon a
  | [], s => ⟨s, rfl, rfl⟩
  | x :: anc, s => by
    by_cases h : x ∈ s.trunk
    · obtain ⟨s', hb, ht, hm⟩ := innerBody_mem F x s h
      refine ⟨s', ht, ?_⟩
      have : (s.trunk.contains x) = true := by simpa using h
      rw [List.find?_cons]
      simp only [this]
      exact ⟨by rw [Py.forEach_cons, hb], hm⟩
    · have hb := innerBody_not_mem F x s h
      have : (s.trunk.contains x) = false := by simpa using h
      rw [List.find?_cons, Py.forEach_cons, hb]
      simp only [this]
      exact inner_loop F anc { s with a := x }

/-- one iteration of the outer `for` is `stepNode` on the `trunk`, `split` fields -/
theorem outerBody_spec (F : Forest) (x : Nat) (s : St) :
    match stepNode F (s.trunk, s.split) x with
    | some ts' => ∃ s', (outerBody F x s = .ok s' ∨ outerBody F x s = .error (.cont s')) ∧
        s'.taxa = s.taxa ∧ s'.trunk = ts'.1 ∧ s'.split = ts'.2
    | none => outerBody F x s = .error (.ret (none, s.taxa.eraseDups)) := by
  unfold stepNode
  by_cases h : s.trunk.contains x = true
  · simp only [h, if_true]
    refine ⟨{ s with taxon := x }, Or.inr ?_, rfl, rfl, rfl⟩
    have h' : x ∈ s.trunk := by simpa using h
    simp [outerBody, h', throw, throwThe, MonadExceptOf.throw, bind, Except.bind]
  · have h : s.trunk.contains x = false := by simpa using h
    simp only [h, Bool.false_eq_true, if_false]
    obtain ⟨s', ht, hl⟩ := inner_loop F (F.properAncestors x) { s with taxon := x }
    have hout : outerBody F x s =
        (Py.forEach (F.properAncestors x) (innerBody F) { s with taxon := x } >>= fun r =>
          if r.2 then .error (.ret (none, r.1.taxa.eraseDups)) else .ok r.1) := by
      simp only [outerBody, h]
      rfl
    change match (F.properAncestors x).find? (fun a => s.trunk.contains a) with
      | none => _ | some a => _ at hl
    cases hf : (F.properAncestors x).find? (fun a => s.trunk.contains a) with
    | none =>
      rw [hf] at hl
      simp only
      rw [hout, hl]
      simp only [bind, Except.bind, if_true, ht]
    | some a =>
      rw [hf] at hl
      simp only
      refine ⟨s', Or.inl ?_, ht, ?_, ?_⟩
      · rw [hout, hl.1]; rfl
      · exact congrArg Prod.fst hl.2
      · exact congrArg Prod.snd hl.2

/-! ### stage 2: the invariant of the outer `for` -/

theorem outer_loop (F : Forest) (hF : ForestWF F) (taxa : List Nat) :
    ∀ (xs : List Nat), (∀ x ∈ xs, x < F.size) → ∀ (s : St) (c : Nat), c < F.size →
      s.taxa = taxa → s.trunk = F.lineage c →
      match consensusFold { c := F.path c, split := s.split } (xs.map F.path) with
      | some tr => ∃ s' c', Py.forEach xs (outerBody F) s = .ok (s', true) ∧ s'.taxa = taxa ∧
          c' < F.size ∧ s'.trunk = F.lineage c' ∧ tr.c = F.path c'
      | none => Py.forEach xs (outerBody F) s = .error (.ret (none, taxa.eraseDups))
  | [], _, s, c, hc, hs, htr => ⟨s, c, rfl, hs, hc, htr, rfl⟩
  | x :: xs, hxs, s, c, hc, hs, htr => by
    have hx : x < F.size := hxs x List.mem_cons_self
    have hxs' : ∀ y ∈ xs, y < F.size := fun y hy => hxs y (List.mem_cons_of_mem _ hy)
    have h1 := outerBody_spec F x s
    have h2 := stepNode_consensusStep F hF hc hx s.split
    rw [htr] at h1
    rw [List.map_cons, consensusFold, Py.forEach_cons]
    cases hst : stepNode F (F.lineage c, s.split) x with
    | none =>
      rw [hst] at h1 h2
      simp only at h1 h2
      rw [h2, h1, hs]
    | some ts' =>
      obtain ⟨tr', sp'⟩ := ts'
      rw [hst] at h1 h2
      simp only at h1 h2
      obtain ⟨s', hb, hs', htr', hsp'⟩ := h1
      obtain ⟨c', hc', e', h2⟩ := h2
      rw [h2]
      have ih := outer_loop F hF taxa xs hxs' s' c' hc' (hs'.trans hs) (htr'.trans e')
      rw [hsp'] at ih
      rcases hb with hb | hb <;> rw [hb] <;> exact ih

/-! ### the statement -/

/-- On a well-formed forest and distinct nodes of it, the translated `consensus_taxon` returns (no
exception, no fuel-out) the node whose root-first path is the model's consensus path, and the `others`
list of the nodes whose paths are the model's `others`. -/
theorem consensus_taxon_eq (F : Forest) (hF : ForestWF F) (taxa : List Nat)
    (hT : ∀ t ∈ taxa, t < F.size) (hN : taxa.Nodup) :
    ∃ c os, Gen.consensus_taxon F taxa = .ok (c, os)
      ∧ (consensusPaths (taxa.map F.path)).1 = c.map F.path
      ∧ (consensusPaths (taxa.map F.path)).2 = os.map F.path := by
  cases taxa with
  | nil => exact ⟨none, [], rfl, rfl, rfl⟩
  | cons t ts =>
    have ht : t < F.size := hT t List.mem_cons_self
    have hts : ∀ y ∈ ts, y < F.size := fun y hy => hT y (List.mem_cons_of_mem _ hy)
    have hl := outer_loop F hF (t :: ts) ts hts
      { taxa := t :: ts, trunk := F.lineage t, split := false, taxon := 0, a := 0, i := 0, others := [] }
      t ht rfl rfl
    simp only at hl
    unfold Gen.consensus_taxon
    rw [run_eq]
    simp only [List.isEmpty_cons, Bool.not_false, Bool.not_true, Py.getItem?_zero, Py.slice_one_none,
      List.drop_one, List.map_cons, consensusPaths]
    cases hfold : consensusFold { c := F.path t, split := false } (ts.map F.path) with
    | none =>
      rw [hfold] at hl
      simp only at hl
      refine ⟨none, t :: ts, ?_, rfl, rfl⟩
      simp [bind, Except.bind, pure, Except.pure, hl, eraseDups_of_nodup hN]
    | some tr =>
      rw [hfold] at hl
      simp only at hl
      obtain ⟨s', c', hl, hs', hc', htr', hc⟩ := hl
      have hfilt : ∀ p : Nat → Bool, ((t :: ts).filter p).eraseDups = (t :: ts).filter p :=
        fun p => eraseDups_of_nodup (hN.sublist List.filter_sublist)
      refine ⟨some c', (t :: ts).filter (fun x => !(F.lineage c').contains x), ?_, ?_, ?_⟩
      · simp [bind, Except.bind, pure, Except.pure, hl, hs', htr',
          lineage_head? F hF hc', throw, throwThe, MonadExceptOf.throw, hfilt]
      · simp [hc]
      · simp only [hc]
        rw [← List.map_cons, List.filter_map]
        congr 1
        apply List.filter_congr
        intro x hx
        have hxs : x < F.size := hT x hx
        simp only [Function.comp]
        congr 1
        rw [List.contains_eq_mem]
        rw [Bool.eq_iff_iff, isPrefix_iff, decide_eq_true_iff]
        exact (mem_lineage_iff_prefix F hF hc' hxs).symm

/-! ### evaluation on a concrete forest -/

def exF : Forest :=
  { parent := [none, some 0, some 0, some 1, none], thr := [none, none, none, none, none],
    report := [true, true, true, true, true] }

example : Gen.consensus_taxon exF [1, 3, 2] = .ok (some 0, [1, 3, 2]) := by decide
example : Gen.consensus_taxon exF [1, 4] = .ok (none, [1, 4]) := by decide
example : Gen.consensus_taxon exF [3, 1] = .ok (some 3, []) := by decide
example : Gen.consensus_taxon exF [] = .ok (none, []) := by decide

end GambitV.Tie.Py
