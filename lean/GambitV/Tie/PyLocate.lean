import GambitV.Gen.PyLocate
import GambitV.Model.RefDb
import GambitV.Props.C04

/-!
Tie: `ReferenceDatabase.locate_files` as it stands in the *current* source (translated by harness/py2lean.py on every run; the
environment `DIR` is the list of names `path.iterdir()` yields, the local helper `check_single_match` is inlined at both call sites)
against the model `locateFiles`: exactly one genome file and exactly one signature file, else `DatabaseLoadError`.  Core Lean only.
-/
namespace GambitV.Tie.Py
open GambitV

theorem pathSuffix_eq (name : List Char) : Py.pathSuffix name = pathSuffix name := rfl

/-- the translated `locate_files` is the model's `locateFiles`: the pair of files when there is exactly one of each kind, a raise otherwise -/
theorem locate_files_eq (DIR : List (List Char)) (path : List Char) :
    Gen.locate_files DIR () path =
      match locateFiles DIR with
      | some (g, s) => .ok (g, s)
      | none => .raised .Other := by
  have hG : DIR.filter (fun f => Py.pathSuffix f == ".gdb".toList || Py.pathSuffix f == ".db".toList) = DIR.filter isGenomesFile := rfl
  have hS : DIR.filter (fun f => Py.pathSuffix f == ".gs".toList || Py.pathSuffix f == ".h5".toList) = DIR.filter isSignaturesFile := rfl
  unfold Gen.locate_files Gen.locate_files.run locateFiles
  simp only [hG, hS]
  generalize DIR.filter isGenomesFile = G
  generalize DIR.filter isSignaturesFile = S
  match G, S with
  | [], _ => simp [Py.finish, bind, Except.bind, throw, throwThe, MonadExceptOf.throw]
  | _ :: _ :: t, _ =>
    have ht : ¬ ((t.length : Int) + 1 + 1 = 1) := by omega
    simp [ht, Py.finish, bind, Except.bind, throw, throwThe, MonadExceptOf.throw]
  | [g], [] => simp [Py.finish, Py.guard, bind, Except.bind, pure, Except.pure, throw, throwThe, MonadExceptOf.throw]
  | [g], _ :: _ :: t =>
    have ht : ¬ ((t.length : Int) + 1 + 1 = 1) := by omega
    simp [ht, Py.finish, Py.guard, bind, Except.bind, pure, Except.pure, throw, throwThe, MonadExceptOf.throw]
  | [g], [s] => simp [Py.finish, Py.guard, bind, Except.bind, pure, Except.pure, throw, throwThe, MonadExceptOf.throw]

/-- on the translated code: the call succeeds exactly when the directory holds one `.gdb`/`.db` file and one `.gs`/`.h5` file, and then
returns those two (C04 `locate_ok_iff`) -/
theorem py_locate_ok_iff (DIR : List (List Char)) (path g s : List Char) :
    Gen.locate_files DIR () path = .ok (g, s) ↔ DIR.filter isGenomesFile = [g] ∧ DIR.filter isSignaturesFile = [s] := by
  rw [locate_files_eq, ← C04.locate_ok_iff]
  cases h : locateFiles DIR with
  | none => simp
  | some p => obtain ⟨g', s'⟩ := p; simp

/-- … and it never returns silently otherwise -/
theorem py_locate_raises (DIR : List (List Char)) (path : List Char)
    (h : ¬ ((DIR.filter isGenomesFile).length = 1 ∧ (DIR.filter isSignaturesFile).length = 1)) :
    Gen.locate_files DIR () path = .raised .Other := by
  rw [locate_files_eq]
  cases hl : locateFiles DIR with
  | none => rfl
  | some p =>
    obtain ⟨g, s⟩ := p
    obtain ⟨hg, hs⟩ := (C04.locate_ok_iff DIR g s).mp hl
    exact absurd ⟨by rw [hg]; rfl, by rw [hs]; rfl⟩ h

end GambitV.Tie.Py
