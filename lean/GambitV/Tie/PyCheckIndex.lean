import GambitV.Gen.PyCheckIndex
import GambitV.Model.Indexing
import GambitV.Lemmas.PyRt

/-!
Tie: the generated translation of `AdvancedIndexingMixin._check_index` (util/indexing.py) equals the
hand-written model `checkIndex` of `Model/Indexing.lean`.  Core Lean only.
-/
namespace GambitV.Tie.Py
open GambitV GambitV.Gen

/-- `_check_index(i)` on a collection of length `n`: the wrapped index, or `IndexError`. -/
theorem check_index_eq (n : Nat) (i : Int) :
    Gen.check_index (n : Int) i = (match checkIndex n i with
      | .ok j => .ok (j : Int)
      | .error _ => .raised .IndexError) := by
  unfold Gen.check_index check_index.run checkIndex
  simp only [bind, Except.bind, pure, Except.pure, throw, throwThe, MonadExceptOf.throw, decide_eq_true_eq,
    Bool.not_eq_true', Bool.and_eq_false_iff, decide_eq_false_iff_not]
  generalize (if i < 0 then i + (n : Int) else i) = i2
  by_cases hin : 0 ≤ i2 ∧ i2 < (n : Int)
  · have hno : ¬ (¬ 0 ≤ i2 ∨ ¬ i2 < (n : Int)) := by omega
    rw [if_neg hno, if_pos hin]
    simp only [Py.finish_ret, Int.toNat_of_nonneg hin.1]
  · have hyes : ¬ 0 ≤ i2 ∨ ¬ i2 < (n : Int) := by omega
    rw [if_pos hyes, if_neg hin]
    simp only [Py.finish_exc]

example : Gen.check_index 5 (-2) = .ok 3 := by decide
example : Gen.check_index 5 4 = .ok 4 := by decide
example : Gen.check_index 5 5 = .raised .IndexError := by decide
example : Gen.check_index 5 (-6) = .raised .IndexError := by decide

end GambitV.Tie.Py
