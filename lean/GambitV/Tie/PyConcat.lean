import GambitV.Gen.PyConcat
import GambitV.Model.Indexing
import GambitV.Props.C20
import GambitV.Tie.PyCheckIndex
import GambitV.Lemmas.PyRt
import GambitV.Lemmas.TiePyConcat

/-!
Tie of the machine-translated methods of `ConcatenatedSignatureArray` (gambit/sigs/base.py: `__len__`, `_getitem_int`, `sizeof`,
`_getitem_int_array`, `_getitem_slice`) and of `AdvancedIndexingMixin` (gambit/util/indexing.py: `_getitem_slice`, `_getitem_bool_array`),
`GambitV.Gen.concat_*` / `GambitV.Gen.mixin_*`, to the hand-written model of `Model/Indexing.lean` (`Concat.ofList`, `Concat.get`,
`Concat.gather`, `Concat.sliceView`, `getItemConcat`).  A packed collection is passed as its two arrays (`cV sigs`, `cB sigs`) and a
returned one is read back with `toConcat`.

The two loops of `_getitem_int_array` are shown to be left folds with the clean steps `szStep` (sizes) and `cpStep` (copies)
by `TieConcat.forEach_fold_of`; what the folds compute (`TieConcat.uninitialized_sizes`, `TieConcat.copy_all`) does not mention the
generated term.  The last theorem is the C20 property of the translated slice path.  Core Lean only.
-/
namespace GambitV.Tie.Py
open GambitV GambitV.Py GambitV.Gen GambitV.TieConcat

/-- the packed representation of a list of signatures as the translated methods receive it -/
def cV (sigs : List (List Nat)) : List Int := (Concat.ofList sigs).values.map (fun (x : Nat) => (x : Int))
def cB (sigs : List (List Nat)) : List Int := (Concat.ofList sigs).bounds.map (fun (x : Nat) => (x : Int))
/-- a packed collection returned by the translated methods, read back as the model's `Concat` -/
def toConcat (c : Py.CArr) : Concat := { values := c.values.map Int.toNat, bounds := c.bounds.map Int.toNat }

theorem cV_eq (sigs : List (List Nat)) : cV sigs = pV sigs := rfl
theorem cB_eq (sigs : List (List Nat)) : cB sigs = pB sigs := rfl

theorem concat_len_eq (sigs : List (List Nat)) : Gen.concat_len (cV sigs) (cB sigs) = .ok (sigs.length : Int) := by
  unfold Gen.concat_len Gen.concat_len.run
  simp only [cB_eq, pB_length_sub_one, bind, Except.bind, throw, throwThe, MonadExceptOf.throw, finish_ret]

theorem concat_getitem_int_eq (sigs : List (List Nat)) (i : Nat) (hi : i < sigs.length) :
    Gen.concat_getitem_int (cV sigs) (cB sigs) (i : Int) = .ok ((sigs.getD i []).map (fun (x : Nat) => (x : Int))) := by
  unfold Gen.concat_getitem_int Gen.concat_getitem_int.run
  simp only [cB_eq, cV_eq, getItem?_pB sigs i (by omega), getItem?_pB_succ sigs i hi, Option.isNone_some, guard_false,
    Option.getD_some, slice_pV, bind, Except.bind, throw, throwThe, MonadExceptOf.throw, finish_ret]

theorem concat_sizeof_eq (sigs : List (List Nat)) (i : Int) :
    Gen.concat_sizeof (cV sigs) (cB sigs) i = (match checkIndex sigs.length i with
      | .ok j => .ok (((sigs.getD j []).length : Nat) : Int)
      | .error _ => .raised .IndexError) := by
  unfold Gen.concat_sizeof Gen.concat_sizeof.run
  simp only [cB_eq, cV_eq, pB_length_sub_one, check_index_eq]
  cases hc : checkIndex sigs.length i with
  | error e => simp only [call_raised, bind, Except.bind, finish_exc]
  | ok j =>
    have hj := C20.checkIndex_lt hc
    simp only [call_ok, getItem?_pB sigs j (by omega), getItem?_pB_succ sigs j hj, Option.isNone_some, guard_false,
      Option.getD_some, bind, Except.bind, throw, throwThe, MonadExceptOf.throw, finish_ret, bnd_succ sigs j hj]
    have : (((bnd sigs j + (sigs.getD j []).length : Nat) : Int) - ((bnd sigs j : Nat) : Int)) = (((sigs.getD j []).length : Nat) : Int) := by
      omega
    rw [this]

/-! ### `_getitem_int_array` -/

theorem concat_sizeof_nat (sigs : List (List Nat)) (j : Nat) (hj : j < sigs.length) :
    Gen.concat_sizeof (cV sigs) (cB sigs) (j : Int) = .ok (((sigs.getD j []).length : Nat) : Int) := by
  rw [concat_sizeof_eq, checkIndex_in_range sigs.length (j : Int) (by omega) (by omega),
    wrapIdx_nonneg sigs.length (j : Int) (by omega)]
  simp only [Int.toNat_natCast]

/-- one iteration of `[self.sizeof(i) for i in indices]` -/
def szStep (sigs : List (List Nat)) (s : Gen.concat_getitem_int_array.St) (x : Int) : Gen.concat_getitem_int_array.St :=
  { s with i := x, tmp__L1 := s.tmp__L1 ++ [(((sigs.getD x.toNat []).length : Nat) : Int)] }

/-- one iteration of `for i, idx in enumerate(indices): np.copyto(out[i], self._getitem_int(idx))` -/
def cpStep (sigs : List (List Nat)) (s : Gen.concat_getitem_int_array.St) (x : Int × Int) : Gen.concat_getitem_int_array.St :=
  { s with i := x.1, idx := x.2, out := s.out.putItem x.1 ((sigs.getD x.2.toNat []).map (fun (v : Nat) => (v : Int))) }

theorem foldl_szStep (sigs : List (List Nat)) (js : List Nat) (s : Gen.concat_getitem_int_array.St) :
    let s' := (js.map (fun (j : Nat) => (j : Int))).foldl (szStep sigs) s
    s'.self_values = s.self_values ∧ s'.self_bounds = s.self_bounds ∧ s'.indices = s.indices
      ∧ s'.tmp__L1 = s.tmp__L1 ++ (js.map (fun j => sigs.getD j [])).map (fun g => ((g.length : Nat) : Int)) := by
  induction js generalizing s with
  | nil => exact ⟨rfl, rfl, rfl, (List.append_nil _).symm⟩
  | cons j js ih =>
    obtain ⟨h1, h2, h3, h4⟩ := ih (szStep sigs s (j : Int))
    refine ⟨h1, h2, h3, ?_⟩
    rw [List.map_cons, List.foldl_cons, h4]
    simp only [szStep, Int.toNat_natCast, List.append_assoc, List.singleton_append, List.map_cons]

theorem foldl_cpStep_out (sigs : List (List Nat)) (l : List (Int × Int)) (s : Gen.concat_getitem_int_array.St) :
    (l.foldl (cpStep sigs) s).out
      = l.foldl (fun (c : CArr) (x : Int × Int) => c.putItem x.1 ((sigs.getD x.2.toNat []).map (fun (v : Nat) => (v : Int)))) s.out := by
  induction l generalizing s with
  | nil => rfl
  | cons x l ih => rw [List.foldl_cons, List.foldl_cons, ih]; rfl

/-- `_getitem_int_array` on non-negative in-range indices: the packed representation of the selected signatures -/
theorem concat_getitem_int_array_val (sigs : List (List Nat)) (js : List Nat) (h : ∀ j ∈ js, j < sigs.length) :
    Gen.concat_getitem_int_array (cV sigs) (cB sigs) (js.map (fun (j : Nat) => (j : Int)))
      = .ok { values := cV (js.map (fun j => sigs.getD j [])), bounds := cB (js.map (fun j => sigs.getD j [])) } := by
  unfold Gen.concat_getitem_int_array Gen.concat_getitem_int_array.run
  simp only [bind, Except.bind]
  generalize hw : Py.forEach _ _ _ = w
  have hfold := forEach_fold_of hw (fun s => s.self_values = cV sigs ∧ s.self_bounds = cB sigs)
    (fun x => ∃ j : Nat, x = (j : Int) ∧ j < sigs.length) (szStep sigs)
    (by
      rintro x ⟨sv, sb, ind, tmp, i0, out, idx⟩ ⟨j, rfl, hj⟩ ⟨hP1, hP2⟩
      dsimp only at hP1 hP2
      subst hP1 hP2
      refine ⟨?_, rfl, rfl⟩
      simp only [concat_sizeof_nat sigs j hj, call_ok, pure, Except.pure, szStep, Int.toNat_natCast])
    (by
      intro x hx
      obtain ⟨j, hj, rfl⟩ := List.mem_map.1 hx
      exact ⟨j, rfl, h j hj⟩)
    ⟨rfl, rfl⟩
  subst hfold
  obtain ⟨h1, h2, h3, h4⟩ := foldl_szStep sigs js
    { self_values := cV sigs, self_bounds := cB sigs, indices := js.map (fun (j : Nat) => (j : Int)), tmp__L1 := [],
      i := (0 : Int), out := (default : Py.CArr), idx := (0 : Int) }
  dsimp only at h1 h2 h3 h4
  generalize List.foldl (szStep sigs) _ _ = s1 at h1 h2 h3 h4
  obtain ⟨sv, sb, ind, tmp, i0, out, idx⟩ := s1
  dsimp only at h1 h2 h3 h4
  subst h1 h2 h3
  rw [List.nil_append] at h4
  subst h4
  dsimp only
  generalize hG : js.map (fun j => sigs.getD j []) = G
  rw [uninitialized_sizes]
  generalize hw2 : Py.forEach _ _ _ = w2
  have hfold2 := forEach_fold_of hw2
    (fun s => s.self_values = cV sigs ∧ s.self_bounds = cB sigs ∧ s.out.bounds = pB G
      ∧ s.out.values.length = G.flatten.length)
    (fun x => ∃ t j : Nat, x = ((t : Int), (j : Int)) ∧ j < sigs.length ∧ t < G.length ∧ G.getD t [] = sigs.getD j [])
    (cpStep sigs)
    (by
      rintro x ⟨sv, sb, ind, tmp, i0, out, idx⟩ ⟨t, j, rfl, hj, ht, hGt⟩ ⟨hP1, hP2, hP3, hP4⟩
      dsimp only at hP1 hP2 hP3 hP4
      subst hP1 hP2
      obtain ⟨q1, q2, q3⟩ := putItem_ok G out hP3 hP4 t ht ((sigs.getD j []).map (fun (v : Nat) => (v : Int)))
        (by rw [List.length_map, hGt])
      refine ⟨?_, rfl, rfl, ?_, ?_⟩
      · simp only [concat_getitem_int_eq sigs j hj, call_ok, q1, guard_false, pure, Except.pure, cpStep,
          Int.toNat_natCast]
      · simpa only [cpStep, Int.toNat_natCast] using q2
      · simpa only [cpStep, Int.toNat_natCast] using q3)
    (by
      intro x hx
      obtain ⟨t, ht, rfl⟩ := mem_enumerate _ x hx
      rw [List.length_map] at ht
      refine ⟨t, js[t], ?_, h _ (List.getElem_mem ht), ?_, ?_⟩
      · rw [List.getElem_map]
      · rw [← hG, List.length_map]; exact ht
      · rw [← hG, List.getD_eq_getElem?_getD, List.getElem?_map, List.getElem?_eq_getElem ht]
        rfl)
    ⟨rfl, rfl, rfl, List.length_replicate⟩
  subst hfold2
  simp only [throw, throwThe, MonadExceptOf.throw, finish_ret, foldl_cpStep_out]
  subst hG
  rw [copy_all (fun j => sigs.getD j []) js]
  rfl

theorem toConcat_packed (G : List (List Nat)) : toConcat { values := cV G, bounds := cB G } = Concat.ofList G := by
  unfold toConcat cV cB
  simp only [toNat_natCast_map]

theorem gather_eq (sigs : List (List Nat)) (js : List Nat) :
    (Concat.ofList sigs).gather js = Concat.ofList (js.map (fun j => sigs.getD j [])) := by
  unfold Concat.gather
  have : (Concat.ofList sigs).get = fun j => sigs.getD j [] := funext (ofList_get' sigs)
  rw [this]

/-- `_getitem_int_array` on non-negative in-range indices (its documented precondition): the gathered collection -/
theorem concat_getitem_int_array_eq (sigs : List (List Nat)) (js : List Nat) (h : ∀ j ∈ js, j < sigs.length) :
    ∃ r, Gen.concat_getitem_int_array (cV sigs) (cB sigs) (js.map (fun (j : Nat) => (j : Int))) = .ok r
      ∧ toConcat r = (Concat.ofList sigs).gather js ∧ (∀ v ∈ r.values, 0 ≤ v) ∧ (∀ b ∈ r.bounds, 0 ≤ b) := by
  refine ⟨_, concat_getitem_int_array_val sigs js h, ?_, ?_, ?_⟩
  · rw [toConcat_packed, gather_eq]
  · intro v hv
    obtain ⟨x, _, rfl⟩ := List.mem_map.1 hv
    exact Int.natCast_nonneg x
  · intro b hb
    obtain ⟨x, _, rfl⟩ := List.mem_map.1 hb
    exact Int.natCast_nonneg x

theorem mixin_getitem_bool_array_eq (sigs : List (List Nat)) (m : List Bool) (hm : m.length = sigs.length) :
    ∃ r, Gen.mixin_getitem_bool_array (cV sigs) (cB sigs) m = .ok r ∧ toConcat r = (Concat.ofList sigs).gather (flatnonzero m) := by
  have h : ∀ j ∈ flatnonzero m, j < sigs.length := fun j hj => hm ▸ flatnonzero_lt m j hj
  refine ⟨_, ?_, (toConcat_packed _).trans (gather_eq sigs (flatnonzero m)).symm⟩
  unfold Gen.mixin_getitem_bool_array Gen.mixin_getitem_bool_array.run
  simp only [concat_getitem_int_array_val sigs (flatnonzero m) h, call_ok, bind, Except.bind, throw, throwThe,
    MonadExceptOf.throw, finish_ret]

/-! ### `_getitem_slice` -/

theorem cB_len_toNat (sigs : List (List Nat)) : ((((cB sigs).length : Nat) : Int) - 1).toNat = sigs.length := by
  rw [cB_eq, pB_length_sub_one, Int.toNat_natCast]

theorem step_beq_false (c : Option Int) (hc : c ≠ some 0) : (c == some 0) = false := by
  cases c with
  | none => rfl
  | some v =>
    have : v ≠ 0 := fun e => hc (e ▸ rfl)
    simpa using this

/-- the positions selected by a slice, as natural numbers -/
def slicePos (n : Nat) (a b c : Option Int) : List Nat :=
  (arange (sliceIndices n a b c).1 (sliceIndices n a b c).2.1 (sliceIndices n a b c).2.2).map Int.toNat

theorem slicePos_cast (n : Nat) (a b c : Option Int) (hc : c ≠ some 0) :
    (slicePos n a b c).map (fun (j : Nat) => (j : Int))
      = arange (sliceIndices n a b c).1 (sliceIndices n a b c).2.1 (sliceIndices n a b c).2.2 :=
  natCast_toNat_map _ (fun j hj => (C20.slice_in_range n a b c hc _ _ _ rfl j hj).1)

theorem slicePos_lt (n : Nat) (a b c : Option Int) (hc : c ≠ some 0) : ∀ j ∈ slicePos n a b c, j < n := by
  intro j hj
  obtain ⟨x, hx, rfl⟩ := List.mem_map.1 hj
  have := C20.slice_in_range n a b c hc _ _ _ rfl x hx
  omega

/-- the model's `normIndices` succeeds on the positions of a slice, with the same list -/
theorem normIndices_slice (n : Nat) (a b c : Option Int) (hc : c ≠ some 0) :
    normIndices n (arange (sliceIndices n a b c).1 (sliceIndices n a b c).2.1 (sliceIndices n a b c).2.2)
      = .ok (slicePos n a b c) := by
  have hr := C20.slice_in_range n a b c hc _ _ _ rfl
  rw [normIndices_ok n _ (fun j hj => by have := hr j hj; omega)]
  unfold slicePos
  congr 1
  apply List.map_congr_left
  intro j hj
  exact wrapIdx_nonneg n j (hr j hj).1

/-- the mixin's `_getitem_slice`: `_getitem_int_array` on the positions of the slice -/
theorem mixin_getitem_slice_eq (sigs : List (List Nat)) (a b c : Option Int) (hc : c ≠ some 0) :
    Gen.mixin_getitem_slice (cV sigs) (cB sigs) (a, b, c)
      = .ok { values := cV ((slicePos sigs.length a b c).map (fun j => sigs.getD j [])),
              bounds := cB ((slicePos sigs.length a b c).map (fun j => sigs.getD j [])) } := by
  unfold Gen.mixin_getitem_slice Gen.mixin_getitem_slice.run
  simp only [step_beq_false c hc, guard_false, cB_len_toNat, ← slicePos_cast sigs.length a b c hc,
    concat_getitem_int_array_val sigs _ (slicePos_lt sigs.length a b c hc), call_ok, bind, Except.bind, throw, throwThe,
    MonadExceptOf.throw, finish_ret]

theorem mixin_getitem_slice_zero (sigs : List (List Nat)) (a b : Option Int) :
    Gen.mixin_getitem_slice (cV sigs) (cB sigs) (a, b, some 0) = .raised .ValueError := by
  unfold Gen.mixin_getitem_slice Gen.mixin_getitem_slice.run
  simp only [BEq.rfl, guard_true, bind, Except.bind, finish_exc]

theorem concat_getitem_slice_zero (sigs : List (List Nat)) (a b : Option Int) :
    Gen.concat_getitem_slice (cV sigs) (cB sigs) (a, b, some 0) = .raised .ValueError := by
  unfold Gen.concat_getitem_slice Gen.concat_getitem_slice.run
  simp only [BEq.rfl, guard_true, bind, Except.bind, finish_exc]

/-- `_getitem_slice` (fast contiguous path and the fallback through the mixin) = the model's slice branch of `getItemConcat` -/
theorem concat_getitem_slice_eq (sigs : List (List Nat)) (a b c : Option Int) (hc : c ≠ some 0) :
    ∃ r, Gen.concat_getitem_slice (cV sigs) (cB sigs) (a, b, c) = .ok r
      ∧ getItemConcat (Concat.ofList sigs) (.slice a b c) = .ok (.many (toConcat r)) := by
  rcases hp : sliceIndices sigs.length a b c with ⟨s, e, st⟩
  have hp1 : (sliceIndices sigs.length a b c).1 = s := by rw [hp]
  have hp2 : (sliceIndices sigs.length a b c).2.1 = e := by rw [hp]
  have hp3 : (sliceIndices sigs.length a b c).2.2 = st := by rw [hp]
  by_cases hslow : st ≠ 1 ∨ e ≤ s
  · -- fallback: the mixin's `_getitem_slice`
    refine ⟨{ values := cV ((slicePos sigs.length a b c).map (fun j => sigs.getD j [])),
              bounds := cB ((slicePos sigs.length a b c).map (fun j => sigs.getD j [])) }, ?_, ?_⟩
    · have hcond : (decide (st ≠ 1) || decide (e ≤ s)) = true := by
        rcases hslow with h | h
        · simp [h]
        · simp [h]
      unfold Gen.concat_getitem_slice Gen.concat_getitem_slice.run
      simp only [step_beq_false c hc, guard_false, cB_len_toNat, hp1, hp2, hp3, hcond, if_true,
        mixin_getitem_slice_eq sigs a b c hc, call_ok, bind, Except.bind, throw, throwThe, MonadExceptOf.throw, finish_ret]
    · have hn := normIndices_slice sigs.length a b c hc
      rw [hp1, hp2, hp3] at hn
      simp only [getItemConcat, if_neg hc, ofList_len', hp, if_pos hslow, hn, toConcat_packed, gather_eq]
      rfl
  · -- contiguous fast path: `st = 1`, `s < e`
    have hst : st = 1 := by omega
    have hse : s < e := by omega
    subst hst
    obtain ⟨_, hpos, _⟩ := C20.sliceIndices_bounds sigs.length a b c hc s e 1 hp
    have hb := hpos (by decide)
    obtain ⟨sn, rfl⟩ : ∃ sn : Nat, s = (sn : Int) := ⟨s.toNat, by omega⟩
    obtain ⟨en, rfl⟩ : ∃ en : Nat, e = (en : Int) := ⟨e.toNat, by omega⟩
    have hcond : (decide ((1 : Int) ≠ 1) || decide ((en : Int) ≤ (sn : Int))) = false := by
      have : ¬ (en : Int) ≤ (sn : Int) := by omega
      simp [this]
    refine ⟨{ values := Py.slice (pV sigs) (some ((bnd sigs sn : Nat) : Int)) (some ((bnd sigs en : Nat) : Int)),
              bounds := (Py.slice (pB sigs) (some (sn : Int)) (some ((en : Int) + 1))).map
                (fun (x_ : Int) => x_ - ((bnd sigs sn : Nat) : Int)) }, ?_, ?_⟩
    · unfold Gen.concat_getitem_slice Gen.concat_getitem_slice.run
      simp only [step_beq_false c hc, guard_false, cB_len_toNat, hp1, hp2, hp3, hcond, Bool.false_eq_true, if_false,
        bind, Except.bind, pure, Except.pure]
      simp only [cB_eq, cV_eq, getItem?_pB sigs sn (by omega), getItem?_pB sigs en (by omega),
        Option.isNone_some, guard_false, Option.getD_some, throw, throwThe, MonadExceptOf.throw, finish_ret]
    · simp only [getItemConcat, if_neg hc, ofList_len', hp, if_neg hslow, Int.toNat_natCast]
      unfold toConcat
      simp only [view_eq]

/-- PROPERTY (C20) of the translated slice path: a slice of a packed collection denotes exactly the signatures a plain list would select -/
theorem py_concat_slice_refines_list (sigs : List (List Nat)) (a b c : Option Int) (hc : c ≠ some 0) :
    ∃ r, Gen.concat_getitem_slice (cV sigs) (cB sigs) (a, b, c) = .ok r
      ∧ getItemList sigs (.slice a b c) = .ok (.many (toConcat r).toList) := by
  obtain ⟨r, h1, h2⟩ := concat_getitem_slice_eq sigs a b c hc
  refine ⟨r, h1, ?_⟩
  rw [← C20.concat_refines_list sigs (.slice a b c), h2]
  rfl

/-! ### non-vacuity: the generated methods on the collection `[[1,2,3],[],[7],[4,5],[9,9,9,9]]` -/

-- fast path: `c[1:4]` is a view with re-based bounds
example : Gen.concat_getitem_slice (cV [[1, 2, 3], [], [7], [4, 5], [9, 9, 9, 9]]) (cB [[1, 2, 3], [], [7], [4, 5], [9, 9, 9, 9]])
    (some 1, some 4, none) = .ok { values := [7, 4, 5], bounds := [0, 0, 1, 3] } := by decide
-- fallback through the mixin: `c[4:0:-2]` is gathered into a fresh array
example : Gen.concat_getitem_slice (cV [[1, 2, 3], [], [7], [4, 5], [9, 9, 9, 9]]) (cB [[1, 2, 3], [], [7], [4, 5], [9, 9, 9, 9]])
    (some 4, some 0, some (-2)) = .ok { values := [9, 9, 9, 9, 7], bounds := [0, 4, 5] } := by decide
example : Gen.concat_getitem_slice (cV [[1, 2, 3], [], [7]]) (cB [[1, 2, 3], [], [7]]) (some 0, none, some 0)
    = .raised .ValueError := by decide
-- a negative index is outside the precondition of `_getitem_int_array`: `np.copyto` sees a length mismatch
example : Gen.concat_getitem_int_array (cV [[1, 2, 3], [], [7]]) (cB [[1, 2, 3], [], [7]]) [-1] = .raised .ValueError := by decide
example : Gen.concat_getitem_int_array (cV [[1, 2, 3], [], [7]]) (cB [[1, 2, 3], [], [7]]) [2, 0, 1, 2]
    = .ok { values := [7, 1, 2, 3, 7], bounds := [0, 1, 4, 4, 5] } := by decide
example : Gen.mixin_getitem_bool_array (cV [[1, 2, 3], [], [7]]) (cB [[1, 2, 3], [], [7]]) [true, false, true]
    = .ok { values := [1, 2, 3, 7], bounds := [0, 3, 4] } := by decide
example : Gen.concat_sizeof (cV [[1, 2, 3], [], [7]]) (cB [[1, 2, 3], [], [7]]) (-3) = .ok 3
    ∧ Gen.concat_sizeof (cV [[1, 2, 3], [], [7]]) (cB [[1, 2, 3], [], [7]]) 3 = .raised .IndexError
    ∧ Gen.concat_len (cV [[1, 2, 3], [], [7]]) (cB [[1, 2, 3], [], [7]]) = .ok 3
    ∧ Gen.concat_getitem_int (cV [[1, 2, 3], [], [7]]) (cB [[1, 2, 3], [], [7]]) 2 = .ok [7] := by decide
-- the model on the same slices
example : (Concat.ofList [[1, 2, 3], [], [7], [4, 5], [9, 9, 9, 9]]).sliceView 1 4 = { values := [7, 4, 5], bounds := [0, 0, 1, 3] }
    ∧ (Concat.ofList [[1, 2, 3], [], [7], [4, 5], [9, 9, 9, 9]]).gather [4, 2] = { values := [9, 9, 9, 9, 7], bounds := [0, 4, 5] } := by
  decide

end GambitV.Tie.Py
