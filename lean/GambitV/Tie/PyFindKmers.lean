import GambitV.Gen.PyFindKmers
import GambitV.Model.Find
import GambitV.Lemmas.PyRt
import GambitV.Lemmas.Find
import GambitV.Lemmas.TiePyMisc

/-!
Tie: the generated translations of `gambit.kmers.find_kmers` and `KmerMatch.kmer_indices` equal the hand-written
models of `Model/Find.lean` (`haystack`, `fwdMatches`, `revMatches`, `fwdKmer`, `revKmer`).  Core Lean only.

`find_kmers_eq'` unfolds the generated `run` once and then walks through its three loops.  Each loop is named
with `generalize hw : Py.forEach/whileLoop … = w` (so the generated body is picked up by unification and never
copied here) and handed to a loop rule of `Lemmas/TiePyMisc.lean` (`forEach_break_sim`, `whileLoop_find_sim`);
the only facts proved against the generated term are the per-iteration ones ("falls through" / "breaks" /
"yields `f loc` and restarts at `loc + 1`"), each by one `simp only` + `rfl`.  The fuel the translator emits
(`len(seq) + 2`) and the model's (`len(hay) + 1`) are both more than the remaining range, so both give the
same `findLoop` (`findLoop_fuel`).

`1 ≤ k` is needed: for `k = 0` Python's `-0 == 0` makes the end bound of the forward search `0`
(`Gen.find_kmers {k := 0, pre := [65]} [65, 65, 65] = .ok []` has no forward matches, the model has 3; see the
examples after `find_kmers_eq`).
The hypothesis `pre ≠ []` of `find_kmers_eq` is not used (the run-time `Py.bytesFind` and the model share
`GambitV.bytesFind`, whatever it does on an empty pattern); `find_kmers_eq'` is the statement without it.
-/
namespace GambitV.Tie.Py
open GambitV GambitV.Gen

/-- `NUCLEOTIDES.lower()` is `b"acgt"` -/
theorem lower_nucleotides : Py.lower Py.NUCLEOTIDES = [97, 99, 103, 116] := by decide

/-- the membership test of the generated loop is the model's test for one of `acgt` -/
theorem any_acgt (seq : List UInt8) :
    seq.any (fun c => ([97, 99, 103, 116] : List UInt8).contains c)
      = seq.any (fun c => c == 97 || c == 99 || c == 103 || c == 116) := by
  congr 1
  funext c
  simp only [List.contains_cons, List.contains_nil, Bool.or_false, Bool.or_assoc]

/-- `find_kmers(kmerspec, seq)` yields the forward matches (`pos = loc`, `reverse = False`) and then the reverse
matches (`pos = loc + prefix_len - 1`, `reverse = True`) of the model, in that order. -/
theorem find_kmers_eq' (k : Nat) (pre seq : List UInt8) (hk : 1 ≤ k) :
    Gen.find_kmers { k := (k : Int), pre := pre } seq
      = .ok ((fwdMatches k pre (haystack seq)).map (fun (l : Nat) => ((l : Int), false))
          ++ (revMatches k pre (haystack seq)).map (fun (l : Nat) => ((l : Int) + (pre.length : Int) - 1, true))) := by
  unfold Gen.find_kmers find_kmers.run
  simp only [bind, Except.bind, pure, Except.pure]
  -- the upper-casing `for` loop
  generalize hw : Py.forEach _ _ _ = w
  obtain ⟨r, rfl, hr⟩ := forEach_break_sim hw (fun c => ([97, 99, 103, 116] : List UInt8).contains c)
    (fun s => s.kmerspec = { k := (k : Int), pre := pre } ∧ s.seq = seq ∧ s.yielded = [] ∧
      s.nucs_lower = [97, 99, 103, 116] ∧ s.haystack = seq)
    (fun s => s.kmerspec = { k := (k : Int), pre := pre } ∧ s.seq = seq ∧ s.yielded = [] ∧
      s.haystack = upper seq)
    (by
      rintro x s ⟨h1, h2, h3, h4, h5⟩ hx
      simp only [h4, hx, Bool.false_eq_true, if_false]
      exact ⟨_, rfl, h1, h2, h3, rfl, h5⟩)
    (by
      rintro x s ⟨h1, h2, h3, h4, h5⟩ hx
      simp only [h4, hx, if_true, throw, throwThe, MonadExceptOf.throw]
      exact ⟨_, rfl, h1, h2, h3, by simp only [h5]⟩)
    ⟨rfl, rfl, rfl, lower_nucleotides, rfl⟩
  clear hw
  have hr' : r.1.kmerspec = { k := (k : Int), pre := pre } ∧ r.1.seq = seq ∧ r.1.yielded = [] ∧
      r.1.haystack = haystack seq := by
    unfold haystack
    rw [← any_acgt]
    split at hr
    · rename_i hany; rw [if_pos hany]; exact hr
    · rename_i hany; rw [if_neg hany]; exact ⟨hr.1, hr.2.1, hr.2.2.1, hr.2.2.2.2⟩
  clear hr
  obtain ⟨hr1, hr2, hr3, hr4⟩ := hr'
  simp only []
  -- the forward search loop
  generalize hw : Py.whileLoop _ _ _ _ = w
  obtain ⟨s1, rfl, ⟨h1a, h1b, h1c⟩, hy1⟩ := whileLoop_find_sim hw (haystack seq) pre
    (pyEndNeg (haystack seq).length k) (fun (l : Nat) => ((l : Int), false))
    (fun s => s.yielded) (fun s => s.start)
    (fun s => s.kmerspec = { k := (k : Int), pre := pre } ∧ s.seq = seq ∧ s.haystack = haystack seq)
    (fun _ => rfl)
    (by
      rintro s start ⟨h1, h2, h3⟩ hst hfind
      simp only [h1, h3, hst, bytesFind_negStop _ _ _ _ hk, hfind, Int.reduceNeg, Int.reduceLT, decide_true,
        if_true, throw, throwThe, MonadExceptOf.throw]
      exact ⟨_, rfl, ⟨rfl, h2, rfl⟩, rfl⟩)
    (by
      rintro s start loc ⟨h1, h2, h3⟩ hst hfind
      have hnn : ¬ ((loc : Int) < 0) := by omega
      simp only [h1, h3, hst, bytesFind_negStop _ _ _ _ hk, hfind, hnn, decide_false, Bool.false_eq_true,
        if_false]
      exact ⟨_, rfl, ⟨rfl, h2, rfl⟩, rfl, rfl⟩)
    0 ⟨hr1, hr2, hr4⟩ rfl (by simp only [pyEndNeg, haystack_length, hr2]; omega)
  clear hw
  simp only []
  -- the reverse search loop
  generalize hw : Py.whileLoop _ _ _ _ = w
  obtain ⟨s2, rfl, -, hy2⟩ := whileLoop_find_sim hw (haystack seq) (revcomp pre)
    (haystack seq).length (fun (l : Nat) => ((l : Int) + (pre.length : Int) - 1, true))
    (fun s => s.yielded) (fun s => s.start)
    (fun s => s.kmerspec = { k := (k : Int), pre := pre } ∧ s.haystack = haystack seq ∧
      s.prefix_rc = revcomp pre)
    (fun _ => rfl)
    (by
      rintro s start ⟨h1, h2, h3⟩ hst hfind
      simp only [h2, h3, hst, bytesFind_noStop, hfind, Int.reduceNeg, Int.reduceLT, decide_true,
        if_true, throw, throwThe, MonadExceptOf.throw]
      exact ⟨_, rfl, ⟨h1, rfl, rfl⟩, rfl⟩)
    (by
      rintro s start loc ⟨h1, h2, h3⟩ hst hfind
      have hnn : ¬ ((loc : Int) < 0) := by omega
      simp only [h1, h2, h3, hst, bytesFind_noStop, hfind, hnn, decide_false, Bool.false_eq_true, if_false]
      exact ⟨_, rfl, ⟨rfl, rfl, rfl⟩, rfl, rfl⟩)
    k ⟨h1a, h1c, by simp only [h1a]⟩ (by simp only [h1a]) (by simp only [haystack_length, h1b]; omega)
  clear hw
  simp only [Py.finish_ok, hy2, hy1, hr3, hr2, h1b, List.nil_append, fwdMatches, revMatches]
  rw [findLoop_fuel _ pre _ (seq.length + 2) ((haystack seq).length + 1) 0
      (by simp only [pyEndNeg, haystack_length]; omega) (by simp only [pyEndNeg, haystack_length]; omega),
    findLoop_fuel _ (revcomp pre) _ (seq.length + 2) ((haystack seq).length + 1) k
      (by simp only [haystack_length]; omega) (by simp only [haystack_length]; omega)]

/-- The statement as specified (with `pre ≠ []`, which the proof does not need). -/
theorem find_kmers_eq (k : Nat) (pre seq : List UInt8) (hk : 1 ≤ k) (_hp : pre ≠ []) :
    Gen.find_kmers { k := (k : Int), pre := pre } seq
      = .ok ((fwdMatches k pre (haystack seq)).map (fun (l : Nat) => ((l : Int), false))
          ++ (revMatches k pre (haystack seq)).map (fun (l : Nat) => ((l : Int) + (pre.length : Int) - 1, true))) :=
  find_kmers_eq' k pre seq hk

-- `ACGGgtACTTGTAC`, prefix `AC` (reverse complement `GT`), k = 2: lower case forces the upper-casing branch,
-- the forward hit at 12 is cut off by the end bound `-k`, the reverse hits are at `loc = 4, 10`
example : Gen.find_kmers { k := 2, pre := [65, 67] } [65, 67, 71, 71, 103, 116, 65, 67, 84, 84, 71, 84, 65, 67]
    = .ok [(0, false), (6, false), (5, true), (11, true)] := by decide
-- `ACGGGTAC`, prefix `AC`, k = 3 (no lower case: the `for` loop runs to completion)
example : Gen.find_kmers { k := 3, pre := [65, 67] } [65, 67, 71, 71, 71, 84, 65, 67]
    = .ok [(0, false), (5, true)] := by decide
example : Gen.find_kmers { k := 3, pre := [65, 67] } [] = .ok [] := by decide
-- `k = 0` is outside the theorem: `hay.find(pre, start, -0)` searches `hay[start:0]`
example : Gen.find_kmers { k := 0, pre := [65] } [65, 65, 65] = .ok [] := by decide
example : (fwdMatches 0 [65] (haystack [65, 65, 65])) = [0, 1, 2] := by decide

/-! ### `KmerMatch.kmer_indices` -/

/-- Forward match at `pos = loc`: the slice `kmer_indices()` returns selects the model's `fwdKmer`. -/
theorem kmer_indices_fwd (k : Nat) (pre s : List UInt8) (loc : Nat) :
    ∃ a b, Gen.kmer_indices { k := (k : Int), pre := pre } (loc : Int) false = .ok (a, b)
      ∧ Py.slice s (some a) (some b) = fwdKmer k pre.length s loc := by
  refine ⟨((loc + pre.length : Nat) : Int), ((loc + pre.length + k : Nat) : Int), ?_, ?_⟩
  · unfold Gen.kmer_indices kmer_indices.run
    simp only [Bool.false_eq_true, if_false, bind, Except.bind, throw, throwThe, MonadExceptOf.throw,
      Py.finish_ret]
    congr 2 <;> omega
  · rw [slice_natCast]
    rfl

example : Gen.kmer_indices { k := 3, pre := [65, 67] } 0 false = .ok (2, 5) := by decide

/-- Reverse match at `pos = loc + prefix_len - 1` with `k ≤ loc` (which `find_kmers` guarantees by starting the
reverse search at offset `k`): the slice selects the model's `revKmer`.  Without `k ≤ loc` the lower bound
would be negative and Python would count it from the end. -/
theorem kmer_indices_rev (k : Nat) (pre s : List UInt8) (loc : Nat) (hl : k ≤ loc) :
    ∃ a b, Gen.kmer_indices { k := (k : Int), pre := pre } ((loc : Int) + (pre.length : Int) - 1) true = .ok (a, b)
      ∧ Py.slice s (some a) (some b) = revKmer k s loc := by
  refine ⟨((loc - k : Nat) : Int), (loc : Int), ?_, ?_⟩
  · unfold Gen.kmer_indices kmer_indices.run
    simp only [if_true, bind, Except.bind, throw, throwThe, MonadExceptOf.throw, Py.finish_ret]
    congr 2 <;> omega
  · rw [slice_natCast]
    rfl

example : Gen.kmer_indices { k := 3, pre := [65, 67] } 5 true = .ok (1, 4) := by decide

end GambitV.Tie.Py
