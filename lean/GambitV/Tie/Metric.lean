import GambitV.Gen.Metric
import GambitV.Lemmas.TieMetric

/-!
Tie: the generated (state-passing) translation of `c_jaccarddist` (metric.pyx) equals the
hand-written model `jaccardBits`. Core Lean only.
-/
namespace GambitV.Tie.Metric
open GambitV GambitV.Tie GambitV.Gen

/-- Loop invariant of the two-pointer index loop. -/
def Inv (a b : List Nat) (s : c_jaccarddist.St) : Prop :=
  s.coords1 = a ∧ s.coords2 = b ∧ s.N = a.length ∧ s.M = b.length ∧
  ∃ i j u : Nat, s.i = i ∧ s.j = j ∧ s.u = u ∧ i ≤ a.length ∧ j ≤ b.length ∧
    u + unionCount (a.drop i) (b.drop j) = unionCount a b

/-- 6. The generated kernel returns exactly the model's bit pattern, and never runs out of fuel. -/
theorem c_jaccarddist_eq (a b : List Nat) : Gen.c_jaccarddist a b = { ret := jaccardBits a b } := by
  unfold Gen.c_jaccarddist c_jaccarddist.run
  simp only [bind, Except.bind, pure, Except.pure]
  generalize hw : whileFuelE _ _ _ _ = w
  have hmain := whileFuelE_inv hw (Inv a b) (fun s => (s.N - s.i).toNat + (s.M - s.j).toNat)
    ?step ?init ?fuel
  case init =>
    exact ⟨rfl, rfl, rfl, rfl, 0, 0, 0, rfl, rfl, rfl, Nat.zero_le _, Nat.zero_le _, by simp⟩
  case fuel => simp only; omega
  case step =>
    clear hw
    rintro s ⟨h1, h2, hN, hM, i, j, u, hi, hj, hu, hiN, hjM, hinv⟩ hc
    simp only [Bool.and_eq_true, decide_eq_true_eq] at hc
    have hi' : i < a.length := by omega
    have hj' : j < b.length := by omega
    have hstep := unionCount_drop_step a b i j hi' hj'
    simp only [h1, h2, hi, hj, hu, hN, hM, Int.toNat_natCast, decide_eq_true_eq]
    by_cases hab : a.getD i 0 ≤ b.getD j 0 <;> by_cases hba : b.getD j 0 ≤ a.getD i 0 <;>
      simp only [hab, hba, if_pos, if_neg, not_false_eq_true] at hstep ⊢ <;>
      refine ⟨_, rfl, ⟨rfl, rfl, rfl, rfl, ?_⟩, ?_⟩
    · exact ⟨i + 1, j + 1, u + 1, by simp, by simp, by simp, by omega, by omega, by omega⟩
    · simp only; omega
    · exact ⟨i + 1, j, u + 1, by simp, by simp, by simp, by omega, by omega, by omega⟩
    · simp only; omega
    · exact ⟨i, j + 1, u + 1, by simp, by simp, by simp, by omega, by omega, by omega⟩
    · simp only; omega
    · omega
    · omega
  clear hw
  obtain ⟨s, rfl, ⟨h1, h2, hN, hM, i, j, u, hi, hj, hu, hiN, hjM, hinv⟩, hc⟩ := hmain
  have hfin : (u : Int) + ((a.length : Int) - i) + ((b.length : Int) - j) = (unionCount a b : Int) := by
    simp only [hN, hM, hi, hj, Bool.and_eq_false_iff, decide_eq_false_iff_not] at hc
    rcases hc with hc | hc
    · have : i = a.length := by omega
      subst this
      rw [List.drop_length, unionCount_nil_left, List.length_drop] at hinv
      omega
    · have : j = b.length := by omega
      subst this
      rw [List.drop_length, unionCount_nil_right, List.length_drop] at hinv
      omega
  simp only [hN, hM, hi, hj, hu, hfin, throw, throwThe, MonadExceptOf.throw, c_jaccarddist.retWith,
    c_jaccarddist.retOf, jaccardBits, decide_eq_true_eq, Int.natCast_eq_zero]
  by_cases h0 : unionCount a b = 0
  · simp only [h0, if_pos]; rfl
  · simp only [h0, if_false]

/-- Corollary: the fuel `N + M + 1` emitted by the translator always suffices. -/
theorem c_jaccarddist_fuel (a b : List Nat) : (Gen.c_jaccarddist a b).fuelOut = false := by
  rw [c_jaccarddist_eq]

/-- 7. Structural facts read off the parsed wrappers and the `prange` loop. -/
theorem structural_facts :
    Gen.prangeWritesOnlyOwnCell = true ∧ Gen.jaccardIsOneMinusDist = true ∧
    Gen.jaccarddistIsKernel = true ∧ Gen.prangeBodyIsSliceDist = true := by
  decide

/-! 8. Non-vacuity: the generated kernel evaluated on concrete inputs
(`{1,2,3}` vs `{2,3,4}`: union 4, symmetric difference 2, distance 0.5 = 0x3F000000). -/
example : Gen.c_jaccarddist [1, 2, 3] [2, 3, 4] = { ret := 0x3F000000 } := by decide
example : Gen.c_jaccarddist [] [] = { ret := 0 } := by decide
example : Gen.c_jaccarddist [1, 2, 3] [1, 2, 3] = { ret := 0 } := by decide
example : Gen.c_jaccarddist [1] [2] = { ret := F32.oneBits } := by decide

end GambitV.Tie.Metric
