import GambitV.Gen.PyQueryFlow

/-!
Tie: the data flow of `gambit.query.query`, read off the *current* source by harness/pytrace.py on every run — the glue between the tied
pieces: the distance matrix is `jaccarddist_matrix(queries, db.signatures, ref_indices=db.sig_indices, chunksize=params.chunksize)`
(`Tie/PyBulk.lean`: its cells; `Tie/PyRefDb.lean`: `sig_indices` pairs reference genome j with its own signature), result item i is
`get_result_item(db, params, dmat[i, :], input_i)` (`Tie/PyResultItem.lean`, `Tie/PyClassify.lean`), inputs are checked to be as many as the
queries, and nothing else assigns these names.  A structural tie (statement presence as normalised `ast` text + no other stores): an edit of one of
these statements makes a fact `false`, whatever input it needs in order to show.  Core Lean only.
-/
namespace GambitV.Tie.Py

theorem query_flow_facts :
    Gen.pyQuery_dists = true ∧ Gen.pyQuery_rows = true ∧ Gen.pyQuery_inputsChecked = true ∧ Gen.pyQuery_noOtherStores = true
      ∧ Gen.pyQuery_result = true := by
  decide

end GambitV.Tie.Py
