import GambitV.Gen.PyBulk
import GambitV.Tie.PyBulkDefs
import GambitV.Model.Bulk
import GambitV.Props.C05
import GambitV.Tie.PyMetric
import GambitV.Tie.PyChunks
import GambitV.Lemmas.PyRt
import GambitV.Lemmas.TiePyBulk

/-!
Tie of the machine-generated translation of the bulk distance functions of `gambit/metric.py` (`GambitV.Gen.PyBulk`:
`jaccarddist_array`, `jaccarddist_matrix`) to the hand-written models of `Model/Bulk.lean` (`arrayDists`, `matrixModel`), and the
C05 property carried over to the translated `jaccarddist_matrix`.

Each generated `run` is unfolded once; every loop is named with `generalize hw : Py.forEach _ _ _ = w` and evaluated with the
simulation rule `TieBulk.forEach_sim` (the body keeps a relation between the state and an abstract value, here the buffer), so the
generated loop bodies are picked up by unification and never copied.  The state-free descriptions of the loop bodies are
`array_some` (= `ArrSpec`), `chunk_spec` (`ref_chunk = refs[idx]`) and `row_step` (`out[i, a:b] = jaccarddist_array(…)`).
-/
namespace GambitV.Tie.Py
open GambitV

/-- an array of a kernel type passes `_cast_sigs_array` unchanged -/
theorem cast_sigs_array_id (a : Py.Arr) (h : a.dtype.kernelOk = true) : Gen.cast_sigs_array a = .ok a := by
  obtain ⟨⟨k, sz, nat⟩, vals⟩ := a
  simp only [Py.DType.kernelOk, Bool.and_eq_true, Bool.or_eq_true, beq_iff_eq] at h
  obtain ⟨⟨rfl, rfl⟩, hs⟩ := h
  rcases hs with (rfl | rfl) | rfl <;> rfl

theorem zipWith_ignore {α δ : Type} (f : α → δ) (xs : List α) (o : List δ) (h : o.length = xs.length) :
    List.zipWith (fun x (_ : δ) => f x) xs o = xs.map f := by
  induction xs generalizing o with
  | nil => simp
  | cons x xs ih =>
    cases o with
    | nil => simp at h
    | cons r o => rw [List.zipWith_cons_cons, List.map_cons, ih o (by simpa using h)]

/-- without a buffer the function allocates one and proceeds as with a caller-supplied buffer -/
theorem array_none (q : Py.Arr) (c : Py.Sigs) (hq : q.dtype.kernelOk = true) :
    Gen.jaccarddist_array q c none = Gen.jaccarddist_array q c (some (Py.ND.empty [(c.items.length : Int)])) := by
  have hne : Py.ND.shapeNe (Py.ND.empty [(c.items.length : Int)]) [(c.items.length : Int)] = false := by
    simp [Py.ND.shapeNe, Py.ND.empty]
  have hd : (Py.ND.empty [(c.items.length : Int)]).okDtype = true := rfl
  unfold Gen.jaccarddist_array Gen.jaccarddist_array.run
  simp only [cast_sigs_array_id q hq, bind, Except.bind, pure, Except.pure, Py.call_ok, Option.isNone_none, if_true,
    Option.isNone_some, Bool.false_eq_true, if_false, Option.getD_some, hne, hd, Bool.not_true]

theorem arrs_getElem? (c : Py.Sigs) (i : Nat) (a : Py.Arr) (h : c.arrs[i]? = some a) :
    i < c.items.length ∧ a.dtype.kernelOk = c.dtype.kernelOk := by
  unfold Py.Sigs.arrs at h
  rw [List.getElem?_map] at h
  cases hi : c.items[i]? with
  | none => rw [hi] at h; cases h
  | some v =>
    rw [hi] at h
    obtain ⟨hlt, -⟩ := List.getElem?_eq_some_iff.1 hi
    cases h
    exact ⟨hlt, rfl⟩

theorem array_some (q : Py.Arr) (c : Py.Sigs) (o : Py.ND) (vals : List UInt32)
    (hq : q.dtype.kernelOk = true) (hc : c.dtype.kernelOk = true)
    (hd : o.okDtype = true) (hsh : o.shape = [c.items.length]) (hr : o.rows = [vals]) (hl : vals.length = c.items.length) :
    Gen.jaccarddist_array q c (some o) = .ok { o with rows := [(Py.Sigs.nat c).map (kdist q.natVals)] } := by
  have hne : Py.ND.shapeNe o [(c.items.length : Int)] = false := by
    unfold Py.ND.shapeNe; rw [hsh]; simp
  have hcv : c.values.dtype.kernelOk = true := hc
  have hv1 : o.vals1 = vals := by unfold Py.ND.vals1; rw [hr]; rfl
  unfold Gen.jaccarddist_array Gen.jaccarddist_array.run
  simp only [cast_sigs_array_id q hq, bind, Except.bind, pure, Except.pure, Py.call_ok, Option.isNone_some, Bool.false_eq_true, if_false,
    Option.getD_some, hne, hd, Bool.not_true]
  by_cases hk : c.kind = 2
  · simp only [hk, decide_true, if_true, cast_sigs_array_id c.values hcv, Py.call_ok, hq, hcv, Bool.and_self, Bool.not_true,
      Py.guard_false, Option.getD_some, Option.isNone_some, throw, throwThe, MonadExceptOf.throw, Py.finish_ret,
      TieBulk.parallelDists_eq q c o vals hr hl]
    rw [hd]; rfl
  · simp only [hk, decide_false, Bool.false_eq_true, if_false]
    generalize hw : Py.forEach _ _ _ = w
    have hsim := TieBulk.forEach_sim hw
      (fun (s : Gen.jaccarddist_array.St) (b : List UInt32) =>
        s.query = q ∧ s.out = some { o with rows := [b] } ∧ b.length = c.items.length)
      (fun x => ∃ i : Nat, x.1 = (i : Int) ∧ c.arrs[i]? = some x.2)
      (TieBulk.setAt (fun (x : Py.Arr) (_ : UInt32) => jaccardBits q.natVals x.natVals))
      ?_ (TieBulk.mem_enumerate c.arrs) vals ⟨rfl, by rw [← hr], hl⟩
    · obtain ⟨s', rfl, -, hR, -⟩ := hsim
      rw [TieBulk.foldl_enum_set _ c.arrs vals (by rw [hl]; simp [Py.Sigs.arrs]), zipWith_ignore _ _ _ (by rw [hl]; simp [Py.Sigs.arrs])] at hR
      simp only [hR, Option.isNone_some, Py.guard_false, Option.getD_some, throw, throwThe, MonadExceptOf.throw, Py.finish_ret]
      rw [hd]
      simp only [Py.Sigs.arrs, Py.Sigs.nat, List.map_map]
      rfl
    · intro x s b ⟨i, hi, hx⟩ ⟨h1, h2, h3⟩
      obtain ⟨xi, xa⟩ := x
      simp only at hi hx
      subst hi
      obtain ⟨hlt, hxa⟩ := arrs_getElem? c i xa hx
      rw [hc] at hxa
      obtain ⟨r, hbr⟩ : ∃ r, b[i]? = some r := ⟨b[i]'(by omega), List.getElem?_eq_getElem (by omega)⟩
      simp only [cast_sigs_array_id xa hxa, Py.call_ok, h1, hq, hxa, Bool.and_self, Bool.not_true, Py.guard_false, h2,
        Option.getD_some, Py.ND.vals1, List.headD_cons, TieBulk.getItem?_nat, hbr, Option.isNone_some]
      refine ⟨_, rfl, ?_⟩
      simp only [Py.ND.set1, Py.ND.vals1, List.headD_cons, TieBulk.listSet_nat,
        TieBulk.setAt_nat _ b i xa r hbr, List.length_set, h3, and_self]

theorem jaccarddist_array_spec : ArrSpec :=
  fun q c o vals hq hc hd hsh hr hl => array_some q c o vals hq hc hd hsh hr hl

/-- without a buffer: a fresh float32 array of length `len(refs)` holding the distances -/
theorem jaccarddist_array_eq (q : Py.Arr) (c : Py.Sigs) (hq : q.dtype.kernelOk = true) (hc : c.dtype.kernelOk = true) :
    Gen.jaccarddist_array q c none
      = .ok { okDtype := true, shape := [c.items.length], rows := [(Py.Sigs.nat c).map (kdist q.natVals)] } := by
  rw [array_none q c hq, array_some q c _ (List.replicate c.items.length 0) hq hc rfl
    (by simp [Py.ND.empty]) (by simp [Py.ND.empty]) (by simp)]
  simp [Py.ND.empty]

/-- a buffer of the wrong length or type is refused -/
theorem jaccarddist_array_bad_out (q : Py.Arr) (c : Py.Sigs) (o : Py.ND) (hq : q.dtype.kernelOk = true)
    (h : o.shape ≠ [c.items.length] ∨ o.okDtype = false) :
    Gen.jaccarddist_array q c (some o) = .raised .ValueError := by
  unfold Gen.jaccarddist_array Gen.jaccarddist_array.run
  simp only [cast_sigs_array_id q hq, bind, Except.bind, pure, Except.pure, Py.call_ok, Option.isNone_some, Bool.false_eq_true, if_false,
    Option.getD_some]
  by_cases hs : o.shape = [c.items.length]
  · have hd : o.okDtype = false := by
      rcases h with h | h
      · exact absurd hs h
      · exact h
    have hne : Py.ND.shapeNe o [(c.items.length : Int)] = false := by
      unfold Py.ND.shapeNe; rw [hs]; simp
    simp only [hne, hd, Bool.false_eq_true, if_false, Bool.not_false, if_true, throw, throwThe, MonadExceptOf.throw, Py.finish_exc]
  · have hne : Py.ND.shapeNe o [(c.items.length : Int)] = true := by
      unfold Py.ND.shapeNe
      rw [bne_iff_ne]
      intro hm
      apply hs
      have := congrArg (List.map Int.toNat) hm
      simpa [List.map_map, Function.comp_def] using this
    simp only [hne, if_true, throw, throwThe, MonadExceptOf.throw, Py.finish_exc]

/-! ### `jaccarddist_matrix` -/

/-- the references of one chunk as the model selects them -/
def selSigs (c : Py.Sigs) (idxs : List Nat) (a b : Nat) : List (List Nat) :=
  (slc idxs a b).map (fun j => (Py.Sigs.nat c).getD j default)

/-- `nrefs` -/
theorem nrefs_eq (c : Py.Sigs) (idx : Option (List Nat)) (idxI : Option (List Int))
    (hI : idx.map (fun l => l.map (fun (j : Nat) => (j : Int))) = idxI) :
    (if idxI.isNone then (c.items.length : Int) else (((idxI.getD []).length : Nat) : Int))
      = (((idx.getD (List.range c.items.length)).length : Nat) : Int) := by
  subst hI
  cases idx <;> simp

/-- `ref_chunk = refs[idx]`: never an `IndexError`, and the chunk holds the signatures the model selects -/
theorem chunk_spec (c : Py.Sigs) (idx : Option (List Nat)) (hidx : ∀ l, idx = some l → ∀ j ∈ l, j < c.items.length)
    (idxI : Option (List Int)) (hI : idx.map (fun l => l.map (fun (j : Nat) => (j : Int))) = idxI) (a b : Nat) :
    ∃ chunk, Py.Sigs.get? c (if idxI.isNone then Py.Index.slice (a : Int) (b : Int)
        else Py.Index.ints (Py.slice (idxI.getD []) (some (a : Int)) (some (b : Int)))) = some chunk
      ∧ chunk.dtype = c.dtype ∧ Py.Sigs.nat chunk = selSigs c (idx.getD (List.range c.items.length)) a b
      ∧ chunk.items.length = min b (idx.getD (List.range c.items.length)).length - a := by
  subst hI
  cases idx with
  | none =>
    refine ⟨c.getSlice a b, by simp [Py.Sigs.get?], rfl, ?_, ?_⟩
    · simp only [Py.Sigs.nat, Py.Sigs.getSlice, selSigs, Option.getD_none, TieBulk.slice_nat]
      rw [← List.length_map (as := c.items) (f := fun it => it.map Int.toNat), TieBulk.slc_range_getD, TieBulk.slc_map]
    · simp only [Py.Sigs.getSlice, TieBulk.slice_nat, TieBulk.slc_length, Option.getD_none, List.length_range]
  | some l =>
    have hin : ∀ j ∈ slc l a b, j < c.items.length := fun j hj => hidx l rfl j (TieBulk.mem_slc l a b j hj)
    refine ⟨{ c with items := (slc l a b).map (fun j => c.items.getD j []) }, ?_, rfl, ?_, ?_⟩
    · simp only [Option.map_some, Option.isNone_some, Bool.false_eq_true, if_false, Option.getD_some, Py.Sigs.get?,
        TieBulk.slice_nat, TieBulk.slc_map, TieBulk.getIdx?_nat c _ hin]
    · simp only [Py.Sigs.nat, selSigs, Option.getD_some, List.map_map]
      apply List.map_congr_left
      intro j _
      simp only [Function.comp, List.getD_eq_getElem?_getD, List.getElem?_map]
      cases c.items[j]? <;> rfl
    · simp only [List.length_map, TieBulk.slc_length, Option.getD_some]

/-- a plain sequence of signatures is wrapped in a `SignatureList` first -/
theorem matrix_kind (qs : List Py.Arr) (c : Py.Sigs) (idxI : Option (List Int)) (out : Option Py.ND) (ch : Option Int) (hk : ¬ 1 ≤ c.kind) :
    Gen.jaccarddist_matrix qs c idxI out ch () = Gen.jaccarddist_matrix qs { c with kind := 1 } idxI out ch () := by
  unfold Gen.jaccarddist_matrix Gen.jaccarddist_matrix.run
  simp only [hk, decide_false, Bool.not_false, if_true, Nat.le_refl, decide_true, Bool.not_true, Bool.false_eq_true, if_false,
    bind, Except.bind, pure, Except.pure]

/-- what the loops of `jaccarddist_matrix` keep fixed, and the buffer -/
def MatInv (qs : List Py.Arr) (c : Py.Sigs) (idxI : Option (List Int)) (N : Nat) (s : Gen.jaccarddist_matrix.St)
    (rows : List (List UInt32)) : Prop :=
  s.queries = qs ∧ s.refs = c ∧ s.ref_indices = idxI ∧ s.out = some { okDtype := true, shape := [qs.length, N], rows := rows }
    ∧ rows.length = qs.length ∧ ∀ row ∈ rows, row.length = N

/-- the slices the outer loop runs over -/
def slicesOf (N : Nat) : Option Nat → List (Nat × Nat)
  | none => [(0, N)]
  | some k => chunkSlices N k

/-- one iteration of the inner loop, without the state: `out[i, a:b] = jaccarddist_array(query, ref_chunk, out[i, a:b])` writes the distances
of the query to the chunk into row `i` from column `a` on -/
theorem row_step (qa : Py.Arr) (chunk : Py.Sigs) (out : Py.ND) (i a b : Nat) (row : List UInt32)
    (hqa : qa.dtype.kernelOk = true) (hcd : chunk.dtype.kernelOk = true) (hod : out.okDtype = true)
    (hrow : out.rows[i]? = some row) (hlen : chunk.items.length = min b row.length - a) :
    ∃ w, Gen.jaccarddist_array qa chunk (some (out.rowView (i : Int) (a : Int) (b : Int))) = .ok w
      ∧ out.putRow (i : Int) (a : Int) (b : Int) w
          = { out with rows := out.rows.set i (writeSlice row a (arrayDists kdist qa.natVals (Py.Sigs.nat chunk))) } := by
  have hv : out.rowView (i : Int) (a : Int) (b : Int) = { okDtype := true, shape := [(slc row a b).length], rows := [slc row a b] } := by
    simp only [Py.ND.rowView, TieBulk.getItem?_nat, hrow, Option.getD_some, TieBulk.slice_nat, hod]
  have hsl : (slc row a b).length = chunk.items.length := by rw [TieBulk.slc_length, hlen]
  refine ⟨_, by rw [hv]; exact array_some qa chunk _ (slc row a b) hqa hcd rfl (by rw [hsl]) rfl hsl, ?_⟩
  simp only [Py.ND.putRow, TieBulk.getItem?_nat, hrow, Option.getD_some, TieBulk.putSlice_nat, TieBulk.listSet_nat,
    Py.ND.vals1, List.headD_cons, arrayDists]

theorem matrix_core (qs : List Py.Arr) (c : Py.Sigs) (hq : ∀ q ∈ qs, q.dtype.kernelOk = true) (hc : c.dtype.kernelOk = true)
    (hk : 1 ≤ c.kind)
    (idx : Option (List Nat)) (hidx : ∀ l, idx = some l → ∀ j ∈ l, j < c.items.length)
    (chunk : Option Nat) (hch : ∀ k, chunk = some k → 0 < k) :
    ∃ r, Gen.jaccarddist_matrix qs c (idx.map (fun l => l.map (fun (j : Nat) => (j : Int)))) none (chunk.map (fun (k : Nat) => (k : Int))) () = .ok r
      ∧ r.okDtype = true
      ∧ r.rows = matrixModel kdist (qs.map (·.natVals)) (Py.Sigs.nat c) idx chunk
          (List.replicate qs.length (List.replicate (idx.getD (List.range c.items.length)).length 0)) := by
  generalize hI : idx.map (fun l => l.map (fun (j : Nat) => (j : Int))) = idxI
  unfold Gen.jaccarddist_matrix Gen.jaccarddist_matrix.run
  simp only [hk, decide_true, Bool.not_true, Bool.false_eq_true, if_false, bind, Except.bind, pure, Except.pure, Option.isNone_none,
    if_true, nrefs_eq c idx idxI hI]
  generalize hN : (idx.getD (List.range c.items.length)).length = N
  -- the slices
  generalize hif : (ite ((Option.map (fun (k : Nat) => (k : Int)) chunk).isNone = true) _ _) = e
  obtain ⟨s1, rfl, hs1, hsl⟩ : ∃ s1, e = .ok s1 ∧ MatInv qs c idxI N s1 (List.replicate qs.length (List.replicate N 0))
      ∧ s1.ref_slices = (slicesOf N chunk).map (fun ab => ((ab.1 : Int), (ab.2 : Int))) := by
    subst hif
    have hinv : ∀ (s : Gen.jaccarddist_matrix.St), s.queries = qs → s.refs = c → s.ref_indices = idxI →
        s.out = some (Py.ND.empty [(qs.length : Int), (N : Int)]) →
        MatInv qs c idxI N s (List.replicate qs.length (List.replicate N 0)) := by
      intro s h1 h2 h3 h4
      refine ⟨h1, h2, h3, by rw [h4]; simp [Py.ND.empty], by simp, ?_⟩
      intro row hrow
      rw [(List.mem_replicate.1 hrow).2, List.length_replicate]
    cases chunk with
    | none => exact ⟨_, rfl, hinv _ rfl rfl rfl rfl, rfl⟩
    | some k =>
      simp only [Option.map_some, Option.isNone_some, Bool.false_eq_true, if_false, Py.guard_false, Option.getD_some,
        chunk_slices_eq N k (hch k rfl), Py.call_ok]
      exact ⟨_, rfl, hinv _ rfl rfl rfl rfl, rfl⟩
  simp only [hsl]
  generalize hw : Py.forEach _ _ _ = w
  have hsim := TieBulk.forEach_sim hw (MatInv qs c idxI N) (fun x => ∃ a b : Nat, x = ((a : Int), (b : Int)))
    (fun rows x => matrixChunk kdist (qs.map (·.natVals)) (selSigs c (idx.getD (List.range c.items.length)) x.1.toNat x.2.toNat) x.1.toNat rows)
    ?_ (by intro x hx; obtain ⟨ab, -, rfl⟩ := List.mem_map.1 hx; exact ⟨ab.1, ab.2, rfl⟩) _ hs1
  · obtain ⟨s', rfl, -, -, -, hout, -, -⟩ := hsim
    simp only [hout, Option.isNone_some, Py.guard_false, Option.getD_some, throw, throwThe, MonadExceptOf.throw, Py.finish_ret]
    refine ⟨_, rfl, rfl, ?_⟩
    have hlen : (Py.Sigs.nat c).length = c.items.length := by simp [Py.Sigs.nat]
    unfold matrixModel
    simp only [hlen, hN, List.foldl_map, Int.toNat_natCast]
    cases chunk <;> rfl
  · intro x s rows ⟨a, b, hx⟩ hR
    subst hx
    obtain ⟨h1, h2, h3, h4, h5, h6⟩ := hR
    obtain ⟨chk, hget, hdt, hnat, hlen⟩ := chunk_spec c idx hidx idxI hI a b
    rw [hN] at hlen
    simp only [h1, h2, h3, hget, Option.isNone_some, Py.guard_false, Option.getD_some]
    generalize hw2 : Py.forEach _ _ _ = w2
    have hsim2 := TieBulk.forEach_sim hw2
      (fun s rows => MatInv qs c idxI N s rows ∧ s.ref_slice = ((a : Int), (b : Int)) ∧ s.ref_chunk = chk)
      (fun x => ∃ i : Nat, x.1 = (i : Int) ∧ qs[i]? = some x.2)
      (TieBulk.setAt (fun (qa : Py.Arr) row => writeSlice row a (arrayDists kdist qa.natVals (Py.Sigs.nat chk))))
      ?_ (TieBulk.mem_enumerate qs) rows ⟨⟨rfl, rfl, rfl, h4, h5, h6⟩, rfl, rfl⟩
    · obtain ⟨s2, rfl, hR2, -, -⟩ := hsim2
      refine ⟨_, rfl, ?_⟩
      rw [TieBulk.foldl_enum_set _ qs rows h5] at hR2
      rw [matrixChunk_eq_zipWith kdist _ _ _ rows (by rw [h5, List.length_map]), List.zipWith_map_left, Int.toNat_natCast,
        Int.toNat_natCast, ← hnat]
      exact hR2
    · intro x s rows ⟨i, hi, hx⟩ ⟨⟨g1, g2, g3, g4, g5, g6⟩, g7, g8⟩
      obtain ⟨xi, qa⟩ := x
      simp only at hi hx
      subst hi
      obtain ⟨hlt, hqa⟩ := List.getElem?_eq_some_iff.1 hx
      obtain ⟨row, hrow⟩ : ∃ r, rows[i]? = some r := ⟨rows[i]'(by omega), List.getElem?_eq_getElem (by omega)⟩
      have hrl : row.length = N := g6 row (List.mem_of_getElem? hrow)
      obtain ⟨w4, hw4, hput⟩ := row_step qa chk { okDtype := true, shape := [qs.length, N], rows := rows } i a b row
        (hq qa (hqa ▸ List.getElem_mem hlt)) (by rw [hdt]; exact hc) rfl hrow (by rw [hrl]; exact hlen)
      simp only [g4, g7, g8, Option.getD_some, TieBulk.getItem?_nat, hrow, Option.isNone_some, Py.guard_false, hw4, Py.call_ok, hput]
      refine ⟨_, rfl, ⟨g1, g2, g3, ?_, ?_, ?_⟩, rfl, rfl⟩
      · rw [TieBulk.setAt_nat _ rows i qa row hrow]
      · rw [TieBulk.setAt_length, g5]
      · rw [TieBulk.setAt_nat _ rows i qa row hrow]
        intro r hr
        rcases List.mem_or_eq_of_mem_set hr with hr | rfl
        · exact g6 r hr
        · rw [TieBulk.writeSlice_length, hrl]
          rw [hrl]; simp only [arrayDists, List.length_map, Py.Sigs.nat, hlen]; omega

/-- `jaccarddist_matrix` (no caller buffer) = the model `matrixModel`: any chunk size, any index selection -/
theorem jaccarddist_matrix_eq (qs : List Py.Arr) (c : Py.Sigs) (hq : ∀ q ∈ qs, q.dtype.kernelOk = true) (hc : c.dtype.kernelOk = true)
    (idx : Option (List Nat)) (hidx : ∀ l, idx = some l → ∀ j ∈ l, j < c.items.length)
    (chunk : Option Nat) (hch : ∀ k, chunk = some k → 0 < k) :
    ∃ r, Gen.jaccarddist_matrix qs c (idx.map (fun l => l.map (fun (j : Nat) => (j : Int)))) none (chunk.map (fun (k : Nat) => (k : Int))) () = .ok r
      ∧ r.okDtype = true
      ∧ r.rows = matrixModel kdist (qs.map (·.natVals)) (Py.Sigs.nat c) idx chunk
          (List.replicate qs.length (List.replicate (idx.getD (List.range c.items.length)).length 0)) := by
  by_cases hk : 1 ≤ c.kind
  · exact matrix_core qs c hq hc hk idx hidx chunk hch
  · rw [matrix_kind qs c _ _ _ hk]
    exact matrix_core qs { c with kind := 1 } hq hc (Nat.le_refl 1) idx hidx chunk hch

/-- PROPERTY (C05) of the translated code: cell (i, j) is the two-signature distance of query i and reference idx[j] -/
theorem py_matrix_cells (qs : List Py.Arr) (c : Py.Sigs) (hq : ∀ q ∈ qs, q.dtype.kernelOk = true) (hc : c.dtype.kernelOk = true)
    (idx : Option (List Nat)) (hidx : ∀ l, idx = some l → ∀ j ∈ l, j < c.items.length)
    (chunk : Option Nat) (hch : ∀ k, chunk = some k → 0 < k) :
    ∃ r, Gen.jaccarddist_matrix qs c (idx.map (fun l => l.map (fun (j : Nat) => (j : Int)))) none (chunk.map (fun (k : Nat) => (k : Int))) () = .ok r
      ∧ r.rows = qs.map (fun q => (idx.getD (List.range c.items.length)).map (fun j => kdist q.natVals ((Py.Sigs.nat c).getD j default))) := by
  obtain ⟨r, h1, -, h3⟩ := jaccarddist_matrix_eq qs c hq hc idx hidx chunk hch
  refine ⟨r, h1, ?_⟩
  have hlen : (Py.Sigs.nat c).length = c.items.length := by simp [Py.Sigs.nat]
  rw [h3, C05.matrix_cells kdist _ (Py.Sigs.nat c) idx chunk hch _ (by simp)
    (by intro row hrow; rw [(List.mem_replicate.1 hrow).2, List.length_replicate, hlen]), List.map_map, hlen]
  rfl

/-! ### non-vacuity (`unionCount` is defined by well-founded recursion, so the value examples go through the kernel evaluator) -/

-- packed array (the fused kernel) and a plain list (the loop), the second with a pre-filled buffer
example : Gen.jaccarddist_array ⟨⟨'u', 8, true⟩, [1, 2, 3]⟩ ⟨2, ⟨'u', 4, true⟩, [[2, 3, 4], [], [1, 2, 3]]⟩ none
    = .ok ⟨true, [3], [[0x3F000000, 0x3F800000, 0]]⟩ := by decide +kernel
example : Gen.jaccarddist_array ⟨⟨'u', 8, true⟩, [1, 2, 3]⟩ ⟨0, ⟨'u', 4, true⟩, [[2, 3, 4], [], [1, 2, 3]]⟩ (some ⟨true, [3], [[7, 7, 7]]⟩)
    = .ok ⟨true, [3], [[0x3F000000, 0x3F800000, 0]]⟩ := by decide +kernel
example : Gen.jaccarddist_array ⟨⟨'u', 8, true⟩, [1, 2, 3]⟩ ⟨0, ⟨'u', 4, true⟩, [[2, 3, 4], []]⟩ (some ⟨true, [3], [[7, 7, 7]]⟩)
    = .raised .ValueError := by decide +kernel
-- 2 queries × 3 references, `ref_indices = [2, 0, 0, 1]` (repeat, out of order), `chunksize = 3` (the last chunk clamped)
example : Gen.jaccarddist_matrix [⟨⟨'u', 8, true⟩, [1, 2, 3]⟩, ⟨⟨'u', 2, true⟩, []⟩] ⟨2, ⟨'u', 4, true⟩, [[2, 3, 4], [], [1, 2, 3]]⟩
      (some [2, 0, 0, 1]) none (some 3) ()
    = .ok ⟨true, [2, 4], [[0, 0x3F000000, 0x3F000000, 0x3F800000], [0x3F800000, 0x3F800000, 0x3F800000, 0]]⟩ := by decide +kernel
example : matrixModel kdist [[1, 2, 3], []] [[2, 3, 4], [], [1, 2, 3]] (some [2, 0, 0, 1]) (some 3) [[9, 9, 9, 9], [9, 9, 9, 9]]
    = [[0, 0x3F000000, 0x3F000000, 0x3F800000], [0x3F800000, 0x3F800000, 0x3F800000, 0]] := by decide +kernel

end GambitV.Tie.Py
