import GambitV.Gen.PyEqFlow

/-!
Tie (structural facts): what `==` of two signature collections is, as it stands in the current source.  Each fact says that one function consists of exactly the expected
statements (harness/flow_facts.json; compared as normalised `ast` text by harness/pytrace.py on every run); reading these statements as the
models do is part of the trusted base (DESIGN §3).
-/
namespace GambitV.Tie.Py
open GambitV

theorem eq_flow_facts :
    Gen.pyEqFlow_arrayEq = true := by decide

end GambitV.Tie.Py
