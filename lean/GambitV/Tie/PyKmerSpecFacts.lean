import GambitV.Gen.PyKmerSpecFacts

/-!
Tie (structural facts): what a `KmerSpec` is (validation and normalisation of its two parameters, derived fields, the default), as it stands in the current source.  Each fact says that one function consists of exactly the expected
statements, one class has exactly the expected shape, or one constant the expected value (harness/flow_facts.json; compared as normalised `ast`
text by harness/pytrace.py on every run); reading these as the models do is part of the trusted base (DESIGN §3).
-/
namespace GambitV.Tie.Py
open GambitV

theorem kmerspec_facts :
    Gen.pyKmerSpecFacts_init = true ∧ Gen.pyKmerSpecFacts_shape = true ∧ Gen.pyKmerSpecFacts_default = true := by decide

end GambitV.Tie.Py
