import GambitV.Gen.PyCliFacts

/-!
Tie: where the k-mer parameters settled by the translated fragments (`Tie/PyParams.lean`) go, read off the *current* sources by
harness/pytrace.py on every run: `gambit dist` and `gambit signatures create` compute every signature with that one `kspec` and do not
assign the name again; `gambit query -s` compares the file's parameters with the database's and raises before the query is run;
`query_parse` computes query signatures with the database's parameters.  Core Lean only.
-/
namespace GambitV.Tie.Py

theorem cli_structural_facts :
    Gen.pyDistUsesKspec = true ∧ Gen.pyCreateUsesKspec = true ∧ Gen.pyQuerySigChecked = true ∧ Gen.pyQueryFilesUseDb = true := by
  decide

end GambitV.Tie.Py
