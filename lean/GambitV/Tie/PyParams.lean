import GambitV.Gen.PyParams
import GambitV.Model.Params
import GambitV.Props.C14
import GambitV.Lemmas.PyRt
import GambitV.Lemmas.TiePyParams

/-!
Tie: the generated translations of `kspec_from_params` (gambit/cli/common.py) and of the parameter-reconciling fragments of `dist_cmd`
(gambit/cli/dist.py) and `create` (gambit/cli/signatures.py) equal the hand-written model of `Model/Params.lean` (`explicitSpec`,
`distDecision`, `createDecision`); the C14 property `run_implies_same_params` is transferred to the translated `dist` fragment.
Core Lean only.

Text vs bytes: the translated code upper-cases the prefix as text, encodes it as ASCII, validates it and `KmerSpec` upper-cases the bytes
again; the model upper-cases bytes.  `Lemmas/TiePyParams.lean` shows the two agree for bytes below 128 (`encode_upper_text`,
`isAscii_upper_text`, `upper_idem`).  Each proof unfolds the generated `run` once and evaluates it by case analysis.
-/
set_option linter.unusedSimpArgs false
namespace GambitV.Tie.Py
open GambitV GambitV.TiePyParams

/-- the model's parameter record in the shape of the translated code -/
def toPyKS (s : KSpec) : Py.KSpec := { k := (s.k : Int), pre := s.pre }
/-- a prefix option as the command line hands it over (text) -/
def textOf (b : List UInt8) : List Char := b.map (fun c => Char.ofNat c.toNat)

/-- the model's decision in the shape of the translated fragments: an error is a `ClickException`, otherwise the parameters used -/
def decisionRes : Decision → Py.Res (Option Py.KSpec)
  | .error => .raised .Other
  | .run u => .ok (some (toPyKS u))

theorem textOf_eq (p : List UInt8) : textOf p = p.map charOf := rfl

theorem textOf_length (p : List UInt8) : (textOf p).length = p.length := by simp [textOf]

theorem toPyKS_inj {a b : KSpec} (h : toPyKS a = toPyKS b) : a = b := by
  cases a; cases b
  simp only [toPyKS, Py.KSpec.mk.injEq, Int.natCast_inj] at h
  simp [h.1, h.2]

theorem toPyKS_ne_iff (a b : KSpec) : (toPyKS a ≠ toPyKS b) ↔ a ≠ b :=
  ⟨fun h e => h (e ▸ rfl), fun h e => h (toPyKS_inj e)⟩

/-- `kspec_from_params(k, prefix)` = the model's `explicitSpec` (ASCII prefixes: bytes below 128) -/
theorem kspec_from_params_eq (D : Py.KSpec) (k : Option Nat) (pre : Option (List UInt8)) (hp : ∀ p, pre = some p → ∀ b ∈ p, b.toNat < 128) :
    Gen.kspec_from_params D (k.map (fun (n : Nat) => (n : Int))) (pre.map textOf) false
      = (match explicitSpec k pre with
         | none => .raised .Other
         | some r => .ok (r.map toPyKS)) := by
  unfold Gen.kspec_from_params Gen.kspec_from_params.run
  cases k with
  | none =>
    cases pre with
    | none => rfl
    | some p => rfl
  | some k =>
    cases pre with
    | none => rfl
    | some p =>
      have hp' := hp p rfl
      have hA := isAscii_upper_text p hp'
      have hE := encode_upper_text p hp'
      have hup : p.map (fun b => if 97 ≤ b ∧ b ≤ 122 then b - 32 else b) = upper p := rfl
      have hall : ((upper p).all fun b => b == 65 || b == 67 || b == 71 || b == 84) = Py.validDna (upper p) := rfl
      have S : ∀ P : Prop, [Decidable P] → P → decide P = true := fun _ _ h => decide_eq_true h
      have N : ∀ P : Prop, [Decidable P] → ¬ P → decide P = false := fun _ _ h => decide_eq_false h
      by_cases hk : k < 5
      · have hk' : ((k : Int) < 5) := by omega
        simp only [Option.map_some, Option.isNone_some, Bool.and_self, Bool.or_self, Bool.false_eq_true, if_false,
          bind, Except.bind, pure, Except.pure, Option.getD_some, S _ hk', if_true, throw, throwThe,
          MonadExceptOf.throw, Py.finish_exc, explicitSpec, hk]
      · have h5 : ¬ ((k : Int) < 5) := by omega
        have h1 : ¬ ((k : Int) < 1) := by omega
        by_cases hl : p.length < 2
        · have hl' : (((textOf p).length : Int) < 2) := by rw [textOf_length]; omega
          simp only [Option.map_some, Option.isNone_some, Bool.and_self, Bool.or_self, Bool.false_eq_true, if_false,
            bind, Except.bind, pure, Except.pure, Option.getD_some, N _ h5, S _ hl', if_true, throw, throwThe,
            MonadExceptOf.throw, Py.finish_exc, explicitSpec, hk, hl]
        · have hl' : ¬ (((textOf p).length : Int) < 2) := by rw [textOf_length]; omega
          rw [textOf_eq] at hl'
          simp only [Option.map_some, Option.isNone_some, Bool.and_self, Bool.or_self, Bool.false_eq_true, if_false,
            bind, Except.bind, pure, Except.pure, Option.getD_some, N _ h5, N _ hl', throw, throwThe,
            MonadExceptOf.throw, explicitSpec, hk, hl, textOf_eq, hA, hE, Bool.not_true, Py.guard_false,
            hup, hall]
          cases hv : Py.validDna (upper p) with
          | true =>
            simp only [Bool.not_true, Py.guard_false, Py.tryExcept, Py.finish_ret, if_true, Option.map_some, toPyKS,
              Option.getD_some, N _ h1, upper_idem, hv]
          | false =>
            simp only [Bool.not_false, Py.guard_true, Py.tryExcept, Py.Exc.catches, beq_self_eq_true, Bool.true_or, if_true,
              Py.finish_exc, Bool.false_eq_true, if_false]

/-- `kspec_from_params(k, prefix, default=True)` with nothing given: the default parameters -/
theorem kspec_from_params_default (D : Py.KSpec) : Gen.kspec_from_params D none none true = .ok (some D) := rfl

theorem decide_toPyKS_ne (a b : KSpec) : decide (toPyKS a ≠ toPyKS b) = decide (a ≠ b) := by
  simp only [toPyKS_ne_iff]

/-- the fragment of `gambit dist` that reconciles the parameters = the model's `distDecision` -/
theorem dist_params_eq (D : KSpec) (k : Option Nat) (pre : Option (List UInt8)) (hp : ∀ p, pre = some p → ∀ b ∈ p, b.toNat < 128)
    (q r : Option KSpec) :
    Gen.dist_params (toPyKS D) (k.map (fun (n : Nat) => (n : Int))) (pre.map textOf) (q.map toPyKS) (r.map toPyKS)
      = (match explicitSpec k pre with
         | none => .raised .Other
         | some e => decisionRes (distDecision e q r D)) := by
  unfold Gen.dist_params Gen.dist_params.run
  simp only [kspec_from_params_eq (toPyKS D) k pre hp]
  cases explicitSpec k pre with
  | none => simp only [Py.call_raised, bind, Except.bind, Py.finish_exc]
  | some e =>
    cases e with
    | none =>
      cases q with
      | none =>
        cases r with
        | none => rfl
        | some r => rfl
      | some q =>
        cases r with
        | none => rfl
        | some r =>
          simp only [Option.map_none, Option.map_some, Py.call_ok, bind, Except.bind, pure, Except.pure, Option.isNone_none,
            if_true, Option.isSome_some, Bool.and_self, Bool.true_and, Option.getD_some, decide_toPyKS_ne, distDecision]
          by_cases h : q = r
          · subst h
            simp [throw, throwThe, MonadExceptOf.throw, decisionRes]
          · simp [h, throw, throwThe, MonadExceptOf.throw, decisionRes]
    | some e =>
      cases q with
      | none =>
        cases r with
        | none => rfl
        | some r =>
          simp only [Option.map_none, Option.map_some, Py.call_ok, bind, Except.bind, pure, Except.pure, Option.isNone_some,
            Option.isSome_none, Bool.false_and, Bool.false_eq_true, if_false,
            Option.isSome_some, Bool.and_self, Bool.true_and, Option.getD_some, decide_toPyKS_ne, distDecision]
          by_cases h : r = e
          · subst h
            simp [throw, throwThe, MonadExceptOf.throw, decisionRes]
          · simp [h, throw, throwThe, MonadExceptOf.throw, decisionRes]
      | some q =>
        simp only [Option.map_none, Option.map_some, Py.call_ok, bind, Except.bind, pure, Except.pure, Option.isNone_some,
            Option.isSome_none, Bool.false_and, Bool.false_eq_true, if_false,
            Option.isSome_some, Bool.and_self, Bool.true_and, Option.getD_some, decide_toPyKS_ne, distDecision]
        by_cases h : q = e
        · subst h
          cases r with
          | none => simp [throw, throwThe, MonadExceptOf.throw, decisionRes]
          | some r =>
            by_cases h' : r = q
            · subst h'
              simp [throw, throwThe, MonadExceptOf.throw, decisionRes]
            · simp [h', throw, throwThe, MonadExceptOf.throw, decisionRes, toPyKS_ne_iff]
        · simp [h, throw, throwThe, MonadExceptOf.throw, decisionRes]

/-- the fragment of `gambit signatures create` = the model's `createDecision` -/
theorem create_params_eq (D : KSpec) (db : Option KSpec) (k : Option Nat) (pre : Option (List UInt8))
    (hp : ∀ p, pre = some p → ∀ b ∈ p, b.toNat < 128) (dbParams : Bool) :
    Gen.create_params (toPyKS D) (db.map toPyKS) (k.map (fun (n : Nat) => (n : Int))) (pre.map textOf) dbParams
      = (match explicitSpec k pre with
         | none => .raised .Other
         | some e => decisionRes (createDecision e dbParams db D)) := by
  unfold Gen.create_params Gen.create_params.run
  simp only [kspec_from_params_eq (toPyKS D) k pre hp]
  cases explicitSpec k pre with
  | none => simp only [Py.call_raised, bind, Except.bind, Py.finish_exc]
  | some e =>
    cases e <;> cases dbParams <;> cases db <;> rfl

/-- PROPERTY (C14) of the translated `dist` fragment: whenever it lets the command proceed, the parameters it settles on are those of every
signature source present and of the explicit options if given — two sources with different parameters are never compared -/
theorem py_dist_never_silent (D : KSpec) (k : Option Nat) (pre : Option (List UInt8)) (hp : ∀ p, pre = some p → ∀ b ∈ p, b.toNat < 128)
    (q r : Option KSpec) (u : Option Py.KSpec)
    (h : Gen.dist_params (toPyKS D) (k.map (fun (n : Nat) => (n : Int))) (pre.map textOf) (q.map toPyKS) (r.map toPyKS) = .ok u) :
    ∃ used : KSpec, u = some (toPyKS used) ∧ (∀ x, q = some x → x = used) ∧ (∀ x, r = some x → x = used)
      ∧ (∀ e, explicitSpec k pre = some (some e) → e = used) := by
  rw [dist_params_eq D k pre hp q r] at h
  cases he : explicitSpec k pre with
  | none => rw [he] at h; cases h
  | some e =>
    rw [he] at h
    replace h : decisionRes (distDecision e q r D) = .ok u := h
    cases hd : distDecision e q r D with
    | error => rw [hd] at h; cases h
    | run used =>
      rw [hd] at h
      simp only [decisionRes, Py.Res.ok.injEq] at h
      obtain ⟨hq, hr, hx⟩ := C14.run_implies_same_params e q r D used hd
      refine ⟨used, h.symm, hq, hr, ?_⟩
      intro e' he'
      exact hx e' (Option.some.inj he')

/-! ### Non-vacuity -/

/-- explicit `-k 11 -p atgac` against a query source computed with other parameters: refused -/
example : Gen.dist_params (toPyKS ⟨11, [65, 84, 71, 65, 67]⟩) (some 11) (some (textOf [97, 116, 103, 97, 99]))
    (some (toPyKS ⟨11, [65, 84]⟩)) none = .raised .Other := by decide

/-- two sources with equal parameters and no explicit options: those parameters (not the defaults) -/
example : Gen.dist_params (toPyKS ⟨11, [65, 84, 71, 65, 67]⟩) none none
    (some (toPyKS ⟨7, [65, 84]⟩)) (some (toPyKS ⟨7, [65, 84]⟩)) = .ok (some (toPyKS ⟨7, [65, 84]⟩)) := by decide

/-- `--db-params` together with explicit (valid) options: refused -/
example : Gen.create_params (toPyKS ⟨11, [65, 84, 71, 65, 67]⟩) (some (toPyKS ⟨7, [65, 84]⟩)) (some 11)
    (some (textOf [97, 116, 103, 97, 99])) true = .raised .Other := by decide

/-- … while the same explicit options alone are accepted (upper-cased) -/
example : Gen.create_params (toPyKS ⟨11, [65, 84, 71, 65, 67]⟩) (some (toPyKS ⟨7, [65, 84]⟩)) (some 11)
    (some (textOf [97, 116, 103, 97, 99])) false = .ok (some (toPyKS ⟨11, [65, 84, 71, 65, 67]⟩)) := by decide

end GambitV.Tie.Py
