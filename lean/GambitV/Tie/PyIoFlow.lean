import GambitV.Gen.PyIoFlow

/-!
Tie (structural facts): how a sequence file is opened and parsed (compression decided by name of the scheme or by the first bytes, never by the file name; records from Biopython in file order), as it stands in the current source.  Each fact says that one function consists of exactly the expected
statements (harness/flow_facts.json; compared as normalised `ast` text by harness/pytrace.py on every run); reading these statements as the
models do is part of the trusted base (DESIGN §3).
-/
namespace GambitV.Tie.Py
open GambitV

theorem io_flow_facts :
    Gen.pyIoFlow_openAuto = true ∧ Gen.pyIoFlow_openCompressed = true ∧ Gen.pyIoFlow_maybeOpen = true ∧ Gen.pyIoFlow_seqToBytes = true ∧ Gen.pyIoFlow_seqFileOpen = true ∧ Gen.pyIoFlow_seqFileParse = true ∧ Gen.pyIoFlow_seqFileFromPaths = true ∧ Gen.pyIoFlow_closingIterNext = true ∧ Gen.pyIoFlow_closingIterClose = true ∧ Gen.pyIoFlow_closingIterShape = true := by decide

end GambitV.Tie.Py
