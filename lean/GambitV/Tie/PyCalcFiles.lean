import GambitV.Gen.PyCalcFiles
import GambitV.Model.Schedule
import GambitV.Props.C13
import GambitV.Lemmas.PyRt
import GambitV.Lemmas.TiePyRefDb
import GambitV.Lemmas.TiePyCalcFiles

/-!
Tie of the machine-translated `calc_file_signatures` (`GambitV.Gen.calc_file_signatures`, from gambit/sigs/calc.py) to the
hand-written model of `Model/Schedule.lean` (`calcAll` for the branch with an executor, `calcSeq` for the branch without), and the
C13 property about the translated code (`py_calc_files_any_order`).

Environment of the translation: `R[f]` is the signature of file `f` (`none` = computing it raises), `SIGMA` the order in which
the submitted tasks complete; the future of file `f` is `f`.

Only `run_first_conc`, `run_first_seq`, `run_conc`, `run_seq` and `calc_files_bad_concurrency` unfold the generated term, each
once: the first `if` block is named and evaluated on its own, the submission loop is a left fold (`forEach_ok_of`, step
`submitStep`), the completion loop is the model's fold of `collectStep` (`TieCalc.forEach_collect_of`, invariant
`future_to_index = futDict n ∧ len(sigs) = n`), the sequential loop is `mapM` (`TieCalc.forEach_mapM_of`).  Core Lean only.
-/
set_option linter.unusedSimpArgs false
set_option linter.unusedVariables false
namespace GambitV.Tie.Py
open GambitV GambitV.Py GambitV.TieCalc

/-- the per-file outcome of the environment `R` (`none` = computing the file's signature raises) as the model's `result` function -/
def fileResult (R : List (Option Nat)) (f : Nat) : Except Unit Nat :=
  match R.getD f none with
  | some v => .ok v
  | none => .error ()

/-- the model's outcome in the shape of the translated function (a worker's exception is re-raised; the assertion failing would be an `AssertionError`) -/
def calcRes : Except Unit (Option (List Nat)) → Py.Res (List (Option Nat))
  | .error _ => .raised .Other
  | .ok none => .raised .AssertionError
  | .ok (some l) => .ok (l.map some)

theorem fileResult_ok {R : List (Option Nat)} {f v : Nat} (h : fileResult R f = .ok v) : R.getD f none = some v := by
  unfold fileResult at h
  split at h
  · next w hw => rw [hw]; injection h with h; rw [h]
  · cases h

theorem fileResult_error {R : List (Option Nat)} {f : Nat} {e : Unit} (h : fileResult R f = .error e) :
    R.getD f none = none := by
  unfold fileResult at h
  split at h
  · cases h
  · next hw => exact hw

theorem fileResult_of_some {R : List (Option Nat)} {f v : Nat} (h : R.getD f none = some v) : fileResult R f = .ok v := by
  unfold fileResult; rw [h]

theorem fileResult_of_none {R : List (Option Nat)} {f : Nat} (h : R.getD f none = none) : fileResult R f = .error () := by
  unfold fileResult; rw [h]

/-! ### the submission loop -/

open Gen.calc_file_signatures in
/-- one iteration of `for i, file in enumerate(files): future = submit(...); future_to_index[future] = i` -/
def submitStep (s : St) (x : Int × Nat) : St :=
  { s with i := x.1, file := x.2, future := x.2, future_to_index := Py.dictSet s.future_to_index x.2 x.1 }

open Gen.calc_file_signatures in
theorem foldl_submitStep (xs : List (Int × Nat)) (s : St) :
    (xs.foldl submitStep s).sigs = s.sigs ∧
      (xs.foldl submitStep s).future_to_index = xs.foldl (fun d p => Py.dictSet d p.2 p.1) s.future_to_index := by
  induction xs generalizing s with
  | nil => exact ⟨rfl, rfl⟩
  | cons x xs ih =>
    obtain ⟨h1, h2⟩ := ih (submitStep s x)
    rw [List.foldl_cons, List.foldl_cons, h1, h2]
    exact ⟨rfl, rfl⟩

/-! ### the translated function, from any state -/

open Gen.calc_file_signatures in
/-- the branch with an executor (given, or created for `concurrency = 'threads' / 'processes'`), files `0 … n-1`, completion
order `σ`: the model's `calcAll` -/
theorem run_conc (R : List (Option Nat)) (n : Nat) (σ : List Nat) (hσ : σ.Perm (List.range n)) (s : St)
    (hf : s.files = List.range n)
    (hA : s.executor = some () ∨
      s.executor = none ∧ (s.concurrency = some "threads".toList ∨ s.concurrency = some "processes".toList)) :
    Py.finish (fun _ => .raised .Other) (run R σ s) = calcRes (calcAll n (fileResult R) σ) := by
  unfold run
  -- the first `if` block: an executor is there afterwards
  generalize hA' : (if (Option.isNone _) then _ else _ : Py.M St Ret St) = a
  have ha : a = .ok { s with executor := some (), executor_context := some () } := by
    subst hA'
    obtain ⟨_, _, _, conc, _, ex, _, _, _, _, _, _, _, _⟩ := s
    simp only at hA
    rcases hA with h | ⟨h, h' | h'⟩
    · subst h; rfl
    · subst h; subst h'; rfl
    · subst h; subst h'; rfl
  clear hA'
  subst ha
  simp only [bind, Except.bind, hf, Option.isNone_some, Bool.false_eq_true, if_false]
  -- the submission loop
  generalize hw : Py.forEach (Py.enumerate _) _ _ = w
  have hfold := TieRefDb.forEach_ok_of hw submitStep (fun _ _ => rfl)
  clear hw
  subst hfold
  simp only []
  generalize hs2 : List.foldl submitStep _ (Py.enumerate _) = s2
  have h2 : s2.future_to_index = futDict n := by
    subst hs2
    rw [(foldl_submitStep _ _).2, enumerate_range, foldl_dictSet_range]
  have h3 : s2.sigs = List.replicate n none := by
    subst hs2
    rw [(foldl_submitStep _ _).1]
    simp only [List.length_range, Int.toNat_natCast]
  clear hs2
  rw [h2, filter_keys n σ hσ]
  -- the completion loop
  generalize hw2 : Py.forEach σ _ s2 = w2
  have hloop := forEach_collect_of hw2 (fun s => s.sigs) (fun s => s.future_to_index = futDict n ∧ s.sigs.length = n)
    (fun x => x < n) (fileResult R) .Other
    (by
      rintro x s v hx ⟨hd, hl⟩ hr
      have hR := fileResult_ok hr
      have hx' : x < s.sigs.length := by omega
      refine ⟨{ s with future := x, i := (x : Int), sigs := s.sigs.set x (some v) }, ?_, ⟨hd, ?_⟩, rfl⟩
      · simp only [hd, dictGet?_futDict n x hx, Option.isNone_some, guard_false, Option.getD_some, hR,
          getItem?_nat_isNone _ _ hx', listSet_nat, pure, Except.pure]
      · simp only [List.length_set, hl])
    (by
      rintro x s e hx ⟨hd, hl⟩ hr
      have hR := fileResult_error hr
      simp only [hd, dictGet?_futDict n x hx, Option.isNone_some, guard_false, hR, Option.isNone_none, guard_true])
    (fun x hx => List.mem_range.1 (hσ.mem_iff.1 hx)) ⟨h2, by rw [h3, List.length_replicate]⟩
  clear hw2
  simp only [h3] at hloop
  unfold calcAll collect
  cases hc : σ.foldl (collectStep (fileResult R)) (.ok (List.replicate n none)) with
  | error e =>
    rw [hc] at hloop
    subst hloop
    rfl
  | ok l =>
    rw [hc] at hloop
    obtain ⟨s', rfl, -, hl⟩ := hloop
    simp only []
    -- the final `assert`
    cases hall : allSome l with
    | none =>
      rw [hl, all_isSome_of_allSome_none l hall]
      rfl
    | some l' =>
      obtain ⟨h5, h6⟩ := all_isSome_of_allSome_some l l' hall
      rw [hl, h5]
      simp only [Bool.not_true, guard_false, pure, Except.pure, throw, throwThe, MonadExceptOf.throw, finish_ret, hl, h6,
        calcRes]

open Gen.calc_file_signatures in
/-- the branch without an executor: the sequential model -/
theorem run_seq (R : List (Option Nat)) (n : Nat) (σ : List Nat) (s : St)
    (hf : s.files = List.range n) (he : s.executor = none) (hcn : s.concurrency = none) :
    Py.finish (fun _ => .raised .Other) (run R σ s) = calcRes ((calcSeq n (fileResult R)).map some) := by
  unfold run
  generalize hA' : (if (Option.isNone _) then _ else _ : Py.M St Ret St) = a
  have ha : a = .ok { s with executor_context := none } := by
    subst hA'
    obtain ⟨_, _, _, conc, _, ex, _, _, _, _, _, _, _, _⟩ := s
    simp only at he hcn
    subst he; subst hcn; rfl
  clear hA'
  subst ha
  simp only [bind, Except.bind, hf, he, Option.isNone_none, if_true]
  generalize hw : Py.forEach (List.range n) _ _ = w
  have hloop := forEach_mapM_of hw (fun s => s.sigs) (fileResult R) .Other
    (by
      intro x s v hr
      have hR := fileResult_ok hr
      refine ⟨{ s with file := x, sigs := s.sigs ++ [some v] }, ?_, rfl⟩
      simp only [hR, Option.isNone_some, guard_false, Option.getD_some, pure, Except.pure])
    (by
      intro x s e hr
      have hR := fileResult_error hr
      simp only [hR, Option.isNone_none, guard_true])
  clear hw
  unfold calcSeq
  cases hm : (List.range n).mapM (fileResult R) with
  | error e =>
    rw [hm] at hloop
    subst hloop
    rfl
  | ok l =>
    rw [hm] at hloop
    obtain ⟨s', rfl, hl⟩ := hloop
    simp only [List.nil_append] at hl
    simp only [pure, Except.pure, throw, throwThe, MonadExceptOf.throw, finish_ret, hl, Except.map, calcRes]

/-! ### the ties -/

/-- with a caller-supplied executor: the translated function is the model's `calcAll` on the completion order `σ` (files `0 … n-1`) -/
theorem calc_files_executor_eq (R : List (Option Nat)) (n : Nat) (σ : List Nat) (hσ : σ.Perm (List.range n))
    (conc : Option (List Char)) (mw : Option Int) :
    Gen.calc_file_signatures R σ () (List.range n) () conc mw (some ()) = calcRes (calcAll n (fileResult R) σ) :=
  run_conc R n σ hσ _ rfl (.inl rfl)

/-- with a pool the function creates itself (`concurrency = 'threads'` or `'processes'`): the same -/
theorem calc_files_pool_eq (R : List (Option Nat)) (n : Nat) (σ : List Nat) (hσ : σ.Perm (List.range n))
    (conc : List Char) (hc : conc = "threads".toList ∨ conc = "processes".toList) (mw : Option Int) :
    Gen.calc_file_signatures R σ () (List.range n) () (some conc) mw none = calcRes (calcAll n (fileResult R) σ) :=
  run_conc R n σ hσ _ rfl (.inr ⟨rfl, hc.elim (fun h => .inl (congrArg some h)) (fun h => .inr (congrArg some h))⟩)

/-- without concurrency: the sequential model -/
theorem calc_files_sequential_eq (R : List (Option Nat)) (n : Nat) (σ : List Nat) (mw : Option Int) :
    Gen.calc_file_signatures R σ () (List.range n) () none mw none = calcRes ((calcSeq n (fileResult R)).map some) :=
  run_seq R n σ _ rfl rfl rfl

/-- any other value of `concurrency` is refused -/
theorem calc_files_bad_concurrency (R : List (Option Nat)) (files σ : List Nat) (conc : List Char)
    (hc : conc ≠ "threads".toList ∧ conc ≠ "processes".toList) (mw : Option Int) :
    Gen.calc_file_signatures R σ () files () (some conc) mw none = .raised .ValueError := by
  have h1 : (some conc == some "threads".toList) = false := by
    rw [beq_eq_false_iff_ne]; exact fun e => hc.1 (Option.some.inj e)
  have h2 : (some conc == some "processes".toList) = false := by
    rw [beq_eq_false_iff_ne]; exact fun e => hc.2 (Option.some.inj e)
  unfold Gen.calc_file_signatures Gen.calc_file_signatures.run
  simp only [h1, h2, Option.isNone_none, Option.isSome_some, if_true, Bool.false_eq_true, if_false, bind, Except.bind, throw,
    throwThe, MonadExceptOf.throw, finish_exc]

/-- PROPERTY (C13) of the translated code: whatever the completion order, the result is the list of the files' signatures in file order
when every file succeeds, and the call raises (and returns no list) when some file fails; the assertion never fires -/
theorem py_calc_files_any_order (R : List (Option Nat)) (n : Nat) (σ : List Nat) (hσ : σ.Perm (List.range n))
    (conc : Option (List Char)) (mw : Option Int) :
    ((∀ i, i < n → (R.getD i none).isSome) →
        Gen.calc_file_signatures R σ () (List.range n) () conc mw (some ()) = .ok ((List.range n).map (fun i => R.getD i none)))
    ∧ ((∃ i, i < n ∧ R.getD i none = none) →
        Gen.calc_file_signatures R σ () (List.range n) () conc mw (some ()) = .raised .Other) := by
  rw [calc_files_executor_eq R n σ hσ conc mw]
  constructor
  · intro h
    have hok : ∀ i, i < n → fileResult R i = .ok ((R.getD i none).getD 0) := by
      intro i hi
      apply fileResult_of_some
      have := h i hi
      cases hr : R.getD i none with
      | none => rw [hr] at this; cases this
      | some v => rfl
    rw [C13.collect_any_order n (fileResult R) _ hok σ hσ]
    simp only [calcRes, List.map_map]
    congr 1
    apply List.map_congr_left
    intro i hi
    have := h i (List.mem_range.1 hi)
    cases hr : R.getD i none with
    | none => rw [hr] at this; cases this
    | some v => simp only [Function.comp, hr, Option.getD_some]
  · rintro ⟨i, hi, hn⟩
    obtain ⟨e', he'⟩ := C13.collect_error n (fileResult R) σ hσ i hi () (fileResult_of_none hn)
    rw [he']
    rfl

/-! ### non-vacuity -/

example : Gen.calc_file_signatures [some 10, some 11, some 12] [2, 0, 1] () [0, 1, 2] () none none (some ())
    = .ok [some 10, some 11, some 12] := by decide
example : Gen.calc_file_signatures [some 10, some 11, some 12] [1, 2, 0] () [0, 1, 2] () (some "threads".toList) (some 4) none
    = .ok [some 10, some 11, some 12] := by decide
-- a failing file (and a file beyond the end of `R`) fails the call
example : Gen.calc_file_signatures [some 10, none, some 12] [2, 0, 1] () [0, 1, 2] () none none (some ())
    = .raised .Other := by decide
example : Gen.calc_file_signatures [some 10, some 11] [2, 0, 1] () [0, 1, 2] () none none (some ()) = .raised .Other := by decide
-- the sequential branch
example : Gen.calc_file_signatures [some 10, some 11, some 12] [] () [0, 1, 2] () none none none
    = .ok [some 10, some 11, some 12] := by decide
example : Gen.calc_file_signatures [some 10, none, some 12] [] () [0, 1, 2] () none none none = .raised .Other := by decide
-- an unknown `concurrency`
example : Gen.calc_file_signatures [some 10] [0] () [0] () (some "fibers".toList) none none = .raised .ValueError := by decide
-- the permutation hypothesis is needed: a lost future trips the assertion
example : Gen.calc_file_signatures [some 10, some 11, some 12] [2, 0] () [0, 1, 2] () none none (some ())
    = .raised .AssertionError := by decide
example : [2, 0, 1].Perm (List.range 3) := by decide

end GambitV.Tie.Py
