import GambitV.Gen.PySigList
import GambitV.Model.Indexing
import GambitV.Lemmas.PyRt
import GambitV.Lemmas.Indexing

/-!
Tie: the mutation methods of the list-backed collection (`SignatureList.__setitem__`, `__delitem__`, `insert`, and `_getitem_int`),
translated from the current source, against the list semantics of the model (`applyMut`, Python `list`).  Core Lean only.
-/
namespace GambitV.Tie.Py
open GambitV

/-- signatures as the translated methods see them -/
def sigsZ (xs : List (List Nat)) : List (List Int) := xs.map (fun s => s.map (fun (x : Nat) => (x : Int)))

/-- the outcome of a model mutation in the shape of the translated methods (`IndexError` for an index out of range) -/
def mutRes : Except IdxErr (List (List Nat)) → Py.Res (List (List Int))
  | .ok xs => .ok (sigsZ xs)
  | .error _ => .raised .IndexError

/-! ### the run-time list built-ins against `checkIndex` -/

/-- the wrapped index of the run-time built-ins, for an index `checkIndex` accepts -/
private theorem wrap_of_ok {n : Nat} {i : Int} {j : Nat} (h : checkIndex n i = .ok j) :
    (if i < 0 then i + (n : Int) else i) = (j : Int) := by
  have := (checkIndex_ok_iff' n i j).1 h
  by_cases hi : i < 0
  · rw [if_pos hi]; omega
  · rw [if_neg hi]; omega

theorem getItem?_of_checkIndex_ok {α : Type} (l : List α) {i : Int} {j : Nat}
    (h : checkIndex l.length i = .ok j) : Py.getItem? l i = l[j]? := by
  unfold Py.getItem?
  simp only [wrap_of_ok h]
  rw [if_neg (by omega), Int.toNat_natCast]

theorem getItem?_of_checkIndex_error {α : Type} (l : List α) {i : Int} {e : IdxErr}
    (h : checkIndex l.length i = .error e) : Py.getItem? l i = none := by
  have := (checkIndex_error' l.length i e h).2
  unfold Py.getItem?
  by_cases hi : i < 0
  · simp only [if_pos hi]
    by_cases hj : i + (l.length : Int) < 0
    · rw [if_pos hj]
    · omega
  · simp only [if_neg hi]
    rw [List.getElem?_eq_none (by omega)]

/-- `xs[i]` raises `IndexError` exactly when `checkIndex` rejects `i` -/
theorem getItem?_eq_none_iff {α : Type} (l : List α) (i : Int) :
    Py.getItem? l i = none ↔ ∃ e, checkIndex l.length i = .error e := by
  cases h : checkIndex l.length i with
  | error e => exact ⟨fun _ => ⟨e, rfl⟩, fun _ => getItem?_of_checkIndex_error l h⟩
  | ok j =>
    have hj : j < l.length := by have := (checkIndex_ok_iff' l.length i j).1 h; omega
    rw [getItem?_of_checkIndex_ok l h, List.getElem?_eq_getElem hj]
    constructor
    · intro h'; cases h'
    · rintro ⟨e, he⟩; cases he

theorem listSet_of_checkIndex_ok {α : Type} (l : List α) {i : Int} {j : Nat} (v : α)
    (h : checkIndex l.length i = .ok j) : Py.listSet l i v = l.set j v := by
  unfold Py.listSet
  simp only [wrap_of_ok h]
  rw [if_neg (by omega), Int.toNat_natCast]

theorem listDel_of_checkIndex_ok {α : Type} (l : List α) {i : Int} {j : Nat}
    (h : checkIndex l.length i = .ok j) : Py.listDel l i = l.eraseIdx j := by
  unfold Py.listDel
  simp only [wrap_of_ok h]
  rw [if_neg (by omega), Int.toNat_natCast]

/-! ### the element-wise cast -/

@[simp] theorem sigsZ_length (xs : List (List Nat)) : (sigsZ xs).length = xs.length := by
  unfold sigsZ; rw [List.length_map]

theorem sigsZ_set (xs : List (List Nat)) (j : Nat) (x : List Nat) :
    (sigsZ xs).set j (x.map (fun (v : Nat) => (v : Int))) = sigsZ (xs.set j x) := by
  unfold sigsZ; rw [List.map_set]

private theorem map_eraseIdx' {α β : Type} (f : α → β) (l : List α) (j : Nat) :
    (l.map f).eraseIdx j = (l.eraseIdx j).map f := by
  induction l generalizing j with
  | nil => rfl
  | cons a l ih =>
    cases j with
    | zero => rfl
    | succ j => simp only [List.map_cons, List.eraseIdx_cons_succ, ih]

theorem sigsZ_eraseIdx (xs : List (List Nat)) (j : Nat) :
    (sigsZ xs).eraseIdx j = sigsZ (xs.eraseIdx j) := by
  unfold sigsZ; rw [map_eraseIdx']

theorem sigsZ_getElem? (xs : List (List Nat)) (j : Nat) :
    (sigsZ xs)[j]? = xs[j]?.map (fun s => s.map (fun (x : Nat) => (x : Int))) := by
  unfold sigsZ; rw [List.getElem?_map]

/-! ### the four methods -/

theorem siglist_setitem_eq (xs : List (List Nat)) (i : Int) (x : List Nat) :
    Gen.siglist_setitem (sigsZ xs) i (x.map (fun (v : Nat) => (v : Int))) = mutRes (applyMut xs (.set i x)) := by
  unfold Gen.siglist_setitem Gen.siglist_setitem.run applyMut
  simp only [bind, Except.bind, pure, Except.pure]
  cases h : checkIndex xs.length i with
  | error e =>
    have h' : checkIndex (sigsZ xs).length i = .error e := by rw [sigsZ_length]; exact h
    rw [getItem?_of_checkIndex_error _ h']
    rfl
  | ok j =>
    have hj : j < xs.length := by have := (checkIndex_ok_iff' xs.length i j).1 h; omega
    have h' : checkIndex (sigsZ xs).length i = .ok j := by rw [sigsZ_length]; exact h
    rw [getItem?_of_checkIndex_ok _ h', listSet_of_checkIndex_ok _ _ h', sigsZ_set,
      List.getElem?_eq_getElem (by rw [sigsZ_length]; exact hj)]
    rfl

theorem siglist_delitem_eq (xs : List (List Nat)) (i : Int) :
    Gen.siglist_delitem (sigsZ xs) i = mutRes (applyMut xs (.del i)) := by
  unfold Gen.siglist_delitem Gen.siglist_delitem.run applyMut
  simp only [bind, Except.bind, pure, Except.pure]
  cases h : checkIndex xs.length i with
  | error e =>
    have h' : checkIndex (sigsZ xs).length i = .error e := by rw [sigsZ_length]; exact h
    rw [getItem?_of_checkIndex_error _ h']
    rfl
  | ok j =>
    have hj : j < xs.length := by have := (checkIndex_ok_iff' xs.length i j).1 h; omega
    have h' : checkIndex (sigsZ xs).length i = .ok j := by rw [sigsZ_length]; exact h
    rw [getItem?_of_checkIndex_ok _ h', listDel_of_checkIndex_ok _ h', sigsZ_eraseIdx,
      List.getElem?_eq_getElem (by rw [sigsZ_length]; exact hj)]
    rfl

theorem siglist_insert_eq (xs : List (List Nat)) (i : Int) (x : List Nat) :
    Gen.siglist_insert (sigsZ xs) i (x.map (fun (v : Nat) => (v : Int))) = mutRes (applyMut xs (.insert i x)) := by
  unfold Gen.siglist_insert Gen.siglist_insert.run applyMut Py.listInsert
  simp only [pure, Except.pure, Py.finish_ok, sigsZ_length, mutRes]
  unfold sigsZ
  simp only [List.map_append, List.map_take, List.map_drop, List.map_cons, List.map_nil]

/-- `SignatureList._getitem_int(i)` for every integer `i`: the element `checkIndex` selects (cast element-wise),
or `IndexError` when `checkIndex` rejects the index. -/
theorem siglist_getitem_int_eq (xs : List (List Nat)) (i : Int) :
    Gen.siglist_getitem_int (sigsZ xs) i = (match checkIndex xs.length i with
      | .ok j => .ok ((xs.getD j []).map (fun (v : Nat) => (v : Int)))
      | .error _ => .raised .IndexError) := by
  unfold Gen.siglist_getitem_int Gen.siglist_getitem_int.run
  simp only [bind, Except.bind, throw, throwThe, MonadExceptOf.throw]
  cases h : checkIndex xs.length i with
  | error e =>
    have h' : checkIndex (sigsZ xs).length i = .error e := by rw [sigsZ_length]; exact h
    rw [getItem?_of_checkIndex_error _ h']
    rfl
  | ok j =>
    have hj : j < xs.length := by have := (checkIndex_ok_iff' xs.length i j).1 h; omega
    have h' : checkIndex (sigsZ xs).length i = .ok j := by rw [sigsZ_length]; exact h
    rw [getItem?_of_checkIndex_ok _ h', sigsZ_getElem?]
    simp only [List.getD_eq_getElem?_getD, List.getElem?_eq_getElem hj, Option.map_some, Option.getD_some,
      Option.isNone_some, Py.guard_false, Py.finish_ret]

/-- the accepted case with the element named: `checkIndex` accepts `i` as `j`, and the method returns `xs[j]` -/
theorem siglist_getitem_int_ok (xs : List (List Nat)) (i : Int) (j : Nat) (h : checkIndex xs.length i = .ok j) :
    ∃ hj : j < xs.length,
      Gen.siglist_getitem_int (sigsZ xs) i = .ok ((xs[j]'hj).map (fun (v : Nat) => (v : Int))) := by
  have hj : j < xs.length := by have := (checkIndex_ok_iff' xs.length i j).1 h; omega
  refine ⟨hj, ?_⟩
  rw [siglist_getitem_int_eq, h]
  simp only [List.getD_eq_getElem?_getD, List.getElem?_eq_getElem hj, Option.getD_some]

/-! ### non-vacuity -/

example : Gen.siglist_insert [[1], [2], [3], [4], [5], [6]] (-8) [9] = .ok [[9], [1], [2], [3], [4], [5], [6]] := by decide
example : Gen.siglist_delitem [[1], [2], [3], [4], [5], [6]] (-1) = .ok [[1], [2], [3], [4], [5]] := by decide
example : Gen.siglist_setitem [[1], [2], [3], [4], [5], [6]] 6 [9] = .raised .IndexError := by decide
example : Gen.siglist_setitem [[1], [2], [3]] (-3) [9] = .ok [[9], [2], [3]] := by decide
example : Gen.siglist_getitem_int [[1], [2], [3]] (-1) = .ok [3] := by decide
example : Gen.siglist_getitem_int [[1], [2], [3]] (-4) = .raised .IndexError := by decide
example : mutRes (applyMut [[1], [2], [3]] (.del 3)) = .raised .IndexError := by decide

end GambitV.Tie.Py
