import GambitV.Gen.PyJson
import GambitV.Model.JsonResults

/-!
Tie: the conversion rules of the two JSON exporters as they stand in the *current* source (`@to_json.register(X)` methods of
`JSONResultsExporter` and `ResultsArchiveWriter`, read by harness/pytrace.py on every run) against the exporters of `Model/Json.lean`,
and the structural facts around them (what `export` dumps with which `default=`, what the base `to_json` is, which hooks the converter has).
`Tie/PyJsonProps.lean` composes this with the theorems of `Props/C11Json.lean`.  Core Lean only.
-/
namespace GambitV.Tie.Py
open GambitV GambitV.Json

/-- the rules `JSONResultsExporter` registers are the model's (same classes, same keys, same attribute paths) -/
theorem json_rules_eq : Gen.pyJsonExporter = jsonExporter := by decide

/-- the rules `ResultsArchiveWriter` registers are the model's: keys only for the three database classes, nothing else -/
theorem archive_rules_eq : Gen.pyArchiveExporter = archiveExporter := by decide

theorem json_translated : Gen.pyJsonExporter.untranslatable = false ∧ Gen.pyArchiveExporter.untranslatable = false := by decide

theorem json_structural_facts :
    Gen.pyJson_baseToJson = true ∧ Gen.pyJson_export = true ∧ Gen.pyJson_todict = true ∧ Gen.pyJson_converter = true
    ∧ Gen.pyJson_hooks = true ∧ Gen.pyJson_csvExport = true := by decide

end GambitV.Tie.Py
