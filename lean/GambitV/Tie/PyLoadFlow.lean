import GambitV.Gen.PyLoadFlow

/-!
Tie (structural facts): how a reference database is opened, by the library and by the command line, as it stands in the current source: the located files, a read-only session, the one constructor.  Each fact says that one function consists of exactly the expected statements (compared as normalised
`ast` text by harness/pytrace.py on every run); reading these statements as the models do is part of the trusted base (DESIGN §3).
-/
namespace GambitV.Tie.Py
open GambitV

theorem load_flow_facts :
    Gen.pyLoadFlow_loadGenomeset = true ∧ Gen.pyLoadFlow_load = true ∧ Gen.pyLoadFlow_loadFromDir = true ∧ Gen.pyLoadFlow_onlyGenomeset = true ∧ Gen.pyLoadFlow_loadSignatures = true ∧ Gen.pyLoadFlow_cliFindDb = true ∧ Gen.pyLoadFlow_cliInitGenomes = true ∧ Gen.pyLoadFlow_cliEngine = true ∧ Gen.pyLoadFlow_cliSession = true ∧ Gen.pyLoadFlow_cliSignatures = true ∧ Gen.pyLoadFlow_cliGetDatabase = true := by decide

end GambitV.Tie.Py
