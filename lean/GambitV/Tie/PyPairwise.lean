import GambitV.Tie.PyBulkDefs
import GambitV.Tie.PyMetric
import GambitV.Tie.PyBulk
import GambitV.Lemmas.TiePyPairwise

/-!
Tie of the machine-translated `jaccarddist_pairwise` (`GambitV.Gen.jaccarddist_pairwise`, from gambit/metric.py) with
`indices = None`, `out = None` to the hand-written models `pairwiseFlat` (`flat=True`) and `pairwiseSquare` (`flat=False`),
given the behaviour of the translated `jaccarddist_array` on a caller-supplied one-dimensional buffer (`ArrSpec`, proved
separately).

The `for i in range(n - 1)` loop is evaluated with `TiePair.forEach_range_inv` (an invariant indexed by the iteration number).
Flat case: after `i` iterations the first `|rows 0..i-1|` cells of the buffer hold the rows `0..i-1` of the condensed output
and `next_out` is that length.  Square case: one iteration on the buffer (`putRow`, then `putCol` of the `rowView` of the row just
written) is one step `sqStep` of the model loop `pairwiseSquareLoop` (`TiePair.square_iter`), so the buffer satisfies the model
loop's own invariant `SqInv` (`Lemmas/Bulk.lean`: `sqInv_init`, `sqInv_step`, `sqInv_final` — the ingredients of
`C05.pairwiseSquareLoop_eq`), which at the end identifies it with `pairwiseSquare`.  A plain sequence (`kind = 0`) is first wrapped
(`kind := 1`): `pairwise_kind0`.  Only `flat_main` and `square_main` depend on the shape of the generated term.  Core Lean only.
-/
set_option linter.unusedSimpArgs false
namespace GambitV.Tie.Py
open GambitV GambitV.Py GambitV.TiePair

theorem pairwise_kind0 (c : Py.Sigs) (hk : c.kind = 0) (ind : Option (List Int)) (flat : Bool) (out : Option Py.ND) :
    Gen.jaccarddist_pairwise c ind flat out () = Gen.jaccarddist_pairwise { c with kind := 1 } ind flat out () := by
  obtain ⟨k, d, its⟩ := c
  subst hk
  rfl

/-! ### `flat=True` -/

/-- the condensed output after `i` rows -/
def flatPre (c : Py.Sigs) (i : Nat) : List UInt32 := (List.range i).flatMap (flatRow kdist (Py.Sigs.nat c))

/-- loop invariant of the flat case -/
def FlatInv (c : Py.Sigs) (i : Nat) (s : Gen.jaccarddist_pairwise.St) : Prop :=
  s.sigs = c ∧ s.indices = none ∧ s.flat = true ∧ s.n = (c.items.length : Int) ∧
  ∃ vals, s.out = some { okDtype := true, shape := [c.items.length * (c.items.length - 1) / 2], rows := [vals] }
    ∧ vals.length = c.items.length * (c.items.length - 1) / 2
    ∧ s.next_out = ((flatPre c i).length : Int) ∧ vals.take (flatPre c i).length = flatPre c i

theorem nat_length (c : Py.Sigs) : (Py.Sigs.nat c).length = c.items.length := by
  unfold Py.Sigs.nat; rw [List.length_map]

theorem flatPre_le (c : Py.Sigs) (i : Nat) (hi : i ≤ c.items.length - 1) :
    (flatPre c i).length ≤ c.items.length * (c.items.length - 1) / 2 := by
  have h1 := flatMap_range_length_le (flatRow kdist (Py.Sigs.nat c)) i (c.items.length - 1) hi
  have h2 := C05.pairwiseFlat_length kdist (Py.Sigs.nat c)
  rw [pairwiseFlat_eq, nat_length] at h2
  rw [h2] at h1
  exact h1

theorem flat_main (harr : ArrSpec) (c : Py.Sigs) (hc : c.dtype.kernelOk = true) (hk : 1 ≤ c.kind) :
    ∃ r, Gen.jaccarddist_pairwise c none true none () = .ok r ∧ r.okDtype = true
      ∧ r.shape = [c.items.length * (c.items.length - 1) / 2] ∧ r.vals1 = pairwiseFlat kdist (Py.Sigs.nat c) := by
  unfold Gen.jaccarddist_pairwise Gen.jaccarddist_pairwise.run
  have hk' : decide (1 ≤ c.kind) = true := by simpa using hk
  have hm : ((c.items.length : Int) - 1 - 0).toNat = c.items.length - 1 := by omega
  simp only [hk', Bool.not_true, Bool.false_eq_true, if_false, if_true, bind, Except.bind, pure, Except.pure,
    Option.isSome_none, Option.isNone_none, num_pairs_eq, call_ok, hm, ND.empty, Int.toNat_natCast]
  generalize hw : Py.forEach _ _ _ = w
  obtain ⟨s', rfl, hP⟩ := forEach_range_inv hw (FlatInv c)
    (by
      rintro i ⟨sigs, indices, flat, out, progress, n, npairs, out_shape, next_out, meter, i0, row_sig, cols, ncol, col_sigs, row_out⟩
        hi ⟨h1, h2, h3, h4, vals, h5, h6, h7, h8⟩
      dsimp only at h1 h2 h3 h4 h5 h7
      subst h1 h2 h3 h4 h5 h7
      have hi1 : i < sigs.items.length := by omega
      have hi2 : i + 1 ≤ sigs.items.length := by omega
      have e1 : (i : Int) + 1 = ((i + 1 : Nat) : Int) := by omega
      have e2 : ((flatPre sigs i).length : Int) + ((sigs.items.length : Int) - (i : Int) - 1)
          = (((flatPre sigs i).length + (sigs.items.length - (i + 1)) : Nat) : Int) := by omega
      clear hw
      have hb1 : (flatPre sigs i).length + (sigs.items.length - (i + 1)) ≤ vals.length := by
        have := flatPre_le sigs (i + 1) (by omega)
        rw [flatPre, flatMap_range_succ, List.length_append, flatRow_length, nat_length] at this
        rw [h6]; exact this
      simp only [Option.isNone_none, Bool.true_and, Bool.not_true, Bool.false_and, guard_false, if_true,
        getItem?_arrs sigs i hi1, e1, e2, sigs_slice_to_end sigs (i + 1) hi2, Option.isNone_some, Option.getD_some,
        view1_nat { okDtype := true, shape := [sigs.items.length * (sigs.items.length - 1) / 2], rows := [vals] } vals rfl _ _ hb1 (Nat.le_add_right _ _),
        Nat.add_sub_cancel_left]
      rw [harr { dtype := sigs.dtype, vals := sigs.items[i] }
        { kind := sigs.kind, dtype := sigs.dtype, items := List.drop (i + 1) sigs.items } _ _ hc hc rfl (by simp only [List.length_drop]) rfl
        (by simp only [List.length_take, List.length_drop]; omega)]
      have hrow : List.map (kdist (Arr.natVals { dtype := sigs.dtype, vals := sigs.items[i] }))
          (Py.Sigs.nat { kind := sigs.kind, dtype := sigs.dtype, items := List.drop (i + 1) sigs.items })
          = flatRow kdist (Py.Sigs.nat sigs) i := by
        rw [flatRow_of_getElem? kdist _ i (sigs.items[i].map Int.toNat)
          (by unfold Py.Sigs.nat; rw [List.getElem?_map, List.getElem?_eq_getElem hi1]; rfl)]
        unfold Py.Sigs.nat Arr.natVals
        rw [List.map_drop]
      have hsucc : flatPre sigs (i + 1) = flatPre sigs i ++ flatRow kdist (Py.Sigs.nat sigs) i :=
        flatMap_range_succ _ _
      have hle : (flatPre sigs i).length + (flatRow kdist (Py.Sigs.nat sigs) i).length
          ≤ sigs.items.length * (sigs.items.length - 1) / 2 := by
        rw [flatRow_length, nat_length, ← h6]; exact hb1
      obtain ⟨hA, hB⟩ := writeSlice_prefix vals (flatPre sigs i) (flatRow kdist (Py.Sigs.nat sigs) i) _ h6 h8 hle
      simp only [call_ok, hrow, ND.vals1, List.headD_cons,
        put1_nat { okDtype := true, shape := [sigs.items.length * (sigs.items.length - 1) / 2], rows := [vals] } vals rfl _ _ _
          (Nat.le_trans (Nat.le_add_right _ _) hb1)]
      refine ⟨_, rfl, rfl, rfl, rfl, rfl, _, rfl, hA, ?_, ?_⟩
      · show ((_ : Nat) : Int) = _
        rw [hsucc, List.length_append, flatRow_length, nat_length]
      · rw [hsucc]; exact hB)
    ⟨rfl, rfl, rfl, rfl, _, rfl, List.length_replicate, rfl, rfl⟩
  obtain ⟨h1, h2, h3, h4, vals, h5, h6, h7, h8⟩ := hP
  have hfin : flatPre c (c.items.length - 1) = pairwiseFlat kdist (Py.Sigs.nat c) := by
    rw [pairwiseFlat_eq, nat_length]; rfl
  rw [hfin, C05.pairwiseFlat_length, nat_length, ← h6, List.take_length] at h8
  simp only [h5, Option.isNone_some, guard_false, Option.getD_some, throw, throwThe, MonadExceptOf.throw, finish_ret]
  exact ⟨_, rfl, rfl, rfl, h8⟩

/-- `jaccarddist_pairwise(flat=True)` (no index selection, no caller buffer) = the condensed list of the model -/
theorem jaccarddist_pairwise_flat_eq (harr : ArrSpec) (c : Py.Sigs) (hc : c.dtype.kernelOk = true) :
    ∃ r, Gen.jaccarddist_pairwise c none true none () = .ok r ∧ r.okDtype = true
      ∧ r.shape = [c.items.length * (c.items.length - 1) / 2] ∧ r.vals1 = pairwiseFlat kdist (Py.Sigs.nat c) := by
  by_cases hk : 1 ≤ c.kind
  · exact flat_main harr c hc hk
  · rw [pairwise_kind0 c (by omega)]
    exact flat_main harr { c with kind := 1 } hc (Nat.le_refl 1)

/-! ### `flat=False` -/

/-- loop invariant of the square case: the buffer satisfies the invariant of the model loop `pairwiseSquareLoop` -/
def SquareInv (c : Py.Sigs) (i : Nat) (s : Gen.jaccarddist_pairwise.St) : Prop :=
  s.sigs = c ∧ s.indices = none ∧ s.flat = false ∧ s.n = (c.items.length : Int) ∧
  ∃ M, s.out = some { okDtype := true, shape := [c.items.length, c.items.length], rows := M }
    ∧ SqInv kdist 0 (Py.Sigs.nat c) i M

theorem square_main (harr : ArrSpec) (c : Py.Sigs) (hc : c.dtype.kernelOk = true) (hk : 1 ≤ c.kind) :
    ∃ r, Gen.jaccarddist_pairwise c none false none () = .ok r ∧ r.okDtype = true
      ∧ r.rows = pairwiseSquare kdist 0 (Py.Sigs.nat c) := by
  unfold Gen.jaccarddist_pairwise Gen.jaccarddist_pairwise.run
  have hk' : decide (1 ≤ c.kind) = true := by simpa using hk
  have hm : ((c.items.length : Int) - 1 - 0).toNat = c.items.length - 1 := by omega
  simp only [hk', Bool.not_true, Bool.false_eq_true, if_false, if_true, bind, Except.bind, pure, Except.pure,
    Option.isSome_none, Option.isNone_none, num_pairs_eq, call_ok, hm, ND.empty, Int.toNat_natCast, Option.getD_some,
    ND.fillDiagonal]
  generalize hw : Py.forEach _ _ _ = w
  obtain ⟨s', rfl, hP⟩ := forEach_range_inv_eq hw (SquareInv c)
    (by
      rintro i ⟨sigs, indices, flat, out, progress, n, npairs, out_shape, next_out, meter, i0, row_sig, cols, ncol, col_sigs, row_out⟩
        hi ⟨h1, h2, h3, h4, M, h5, hM⟩ r hr
      dsimp only at h1 h2 h3 h4 h5
      subst h1 h2 h3 h4 h5
      clear hw
      have hi1 : i < sigs.items.length := by omega
      have hi2 : i + 1 ≤ sigs.items.length := by omega
      have e1 : (i : Int) + 1 = ((i + 1 : Nat) : Int) := by omega
      have hn := nat_length sigs
      obtain ⟨rk, hMk, hrk, -⟩ := (hM i).2 (by rw [hn]; exact hi1)
      rw [hn] at hrk
      have hlen : M.length = sigs.items.length := by rw [sqInv_length _ _ _ _ _ hM, hn]
      subst hr
      simp only [Option.isNone_none, Bool.true_and, Bool.not_true, Bool.false_and, guard_false, if_true,
        getItem?_arrs sigs i hi1, e1, sigs_slice_to_end sigs (i + 1) hi2, Option.isNone_some, Option.getD_some,
        Bool.not_false, Bool.false_eq_true, if_false, getItem?_nat, hMk,
        rowView_nat true _ M i (i + 1) sigs.items.length rk hMk (by omega) hi2]
      rw [harr { dtype := sigs.dtype, vals := sigs.items[i] }
        { kind := sigs.kind, dtype := sigs.dtype, items := List.drop (i + 1) sigs.items } _ _ hc hc rfl
        (by simp only [List.length_drop]) rfl
        (by simp only [List.length_take, List.length_drop]; omega)]
      have hrow : List.map (kdist (Arr.natVals { dtype := sigs.dtype, vals := sigs.items[i] }))
          (Py.Sigs.nat { kind := sigs.kind, dtype := sigs.dtype, items := List.drop (i + 1) sigs.items })
          = flatRow kdist (Py.Sigs.nat sigs) i := by
        rw [flatRow_of_getElem? kdist _ i (sigs.items[i].map Int.toNat)
          (by unfold Py.Sigs.nat; rw [List.getElem?_map, List.getElem?_eq_getElem hi1]; rfl)]
        unfold Py.Sigs.nat Arr.natVals
        rw [List.map_drop]
      obtain ⟨hA, hB⟩ := square_iter true [sigs.items.length, sigs.items.length] M sigs.items.length i rk
        (flatRow kdist (Py.Sigs.nat sigs) i)
        { okDtype := true, shape := [sigs.items.length - (i + 1)], rows := [flatRow kdist (Py.Sigs.nat sigs) i] }
        hi2 hlen hMk hrk (by rw [flatRow_length, hn]; omega) rfl
      simp only [call_ok, hrow, hA, hB, set_getElem?_of_some M i i rk _ hMk, if_true, Option.isNone_some, guard_false]
      refine ⟨_, rfl, rfl, rfl, rfl, rfl, _, rfl, ?_⟩
      have hstep := sqInv_step kdist 0 (Py.Sigs.nat sigs) i M (by rw [hn]; exact hi) hM
      rw [sqStep_of_lt kdist _ M i (by rw [hn]; exact hi1), hn] at hstep
      exact hstep)
    ⟨rfl, rfl, rfl, rfl, _, rfl, by
      rw [zipIdx_set_diag, List.length_replicate]
      have := sqInv_init kdist 0 (Py.Sigs.nat c) (List.replicate c.items.length (List.replicate c.items.length 0))
        (by rw [List.length_replicate, nat_length])
        (by intro row hr; rw [List.eq_of_mem_replicate hr, List.length_replicate, nat_length])
      rw [nat_length] at this
      exact this⟩
  obtain ⟨h1, h2, h3, h4, M, h5, hM⟩ := hP
  rw [← nat_length c] at hM
  have hfin := sqInv_final kdist 0 (Py.Sigs.nat c) M hM
  simp only [h5, Option.isNone_some, guard_false, Option.getD_some, throw, throwThe, MonadExceptOf.throw, finish_ret]
  exact ⟨_, rfl, rfl, hfin⟩

/-- `jaccarddist_pairwise(flat=False)` = the model's square matrix (zero diagonal, symmetric) -/
theorem jaccarddist_pairwise_square_eq (harr : ArrSpec) (c : Py.Sigs) (hc : c.dtype.kernelOk = true) :
    ∃ r, Gen.jaccarddist_pairwise c none false none () = .ok r ∧ r.okDtype = true
      ∧ r.rows = pairwiseSquare kdist 0 (Py.Sigs.nat c) := by
  by_cases hk : 1 ≤ c.kind
  · exact square_main harr c hc hk
  · rw [pairwise_kind0 c (by omega)]
    exact square_main harr { c with kind := 1 } hc (Nat.le_refl 1)

/-! ### non-vacuity: the generated function against the two models on concrete collections (kinds 0, 1, 2; an empty signature;
no and one signature).  `jaccardBits` is defined by well-founded recursion, so the examples go through the kernel evaluator, as in
`Tie/PyMetric.lean`. -/

example : (match Gen.jaccarddist_pairwise ⟨1, ⟨'u', 8, true⟩, [[1, 2, 3], [2, 3, 4], [], [1, 5, 9, 11], [3, 4, 5]]⟩ none true none () with
    | .ok r => r.okDtype && r.shape == [10]
        && r.vals1 == pairwiseFlat kdist [[1, 2, 3], [2, 3, 4], [], [1, 5, 9, 11], [3, 4, 5]]
    | _ => false) = true := by decide +kernel
example : (match Gen.jaccarddist_pairwise ⟨2, ⟨'u', 4, true⟩, [[1, 2, 3], [2, 3, 4], [], [1, 5, 9, 11]]⟩ none false none () with
    | .ok r => r.okDtype && r.rows == pairwiseSquare kdist 0 [[1, 2, 3], [2, 3, 4], [], [1, 5, 9, 11]]
    | _ => false) = true := by decide +kernel
example : (match Gen.jaccarddist_pairwise ⟨0, ⟨'u', 2, true⟩, [[1, 2], [2]]⟩ none false none () with
    | .ok r => r.okDtype && r.rows == pairwiseSquare kdist 0 [[1, 2], [2]]
    | _ => false) = true := by decide +kernel
example : Gen.jaccarddist_pairwise ⟨1, ⟨'u', 8, true⟩, []⟩ none true none () = .ok ⟨true, [0], [[]]⟩ := by decide +kernel
example : Gen.jaccarddist_pairwise ⟨1, ⟨'u', 8, true⟩, [[7]]⟩ none false none () = .ok ⟨true, [1, 1], [[0]]⟩ := by decide +kernel

/-! ### Unconditional forms (with `jaccarddist_array_spec`, `Tie/PyBulk.lean`) -/

/-- `jaccarddist_pairwise(sigs, flat=True)` as the source has it now = the condensed model output. -/
theorem py_pairwise_flat (c : Py.Sigs) (hc : c.dtype.kernelOk = true) :
    ∃ r, Gen.jaccarddist_pairwise c none true none () = .ok r ∧ r.okDtype = true
      ∧ r.shape = [c.items.length * (c.items.length - 1) / 2] ∧ r.vals1 = pairwiseFlat kdist (Py.Sigs.nat c) :=
  jaccarddist_pairwise_flat_eq jaccarddist_array_spec c hc

/-- `jaccarddist_pairwise(sigs, flat=False)` as the source has it now = the square model output (zero diagonal, symmetric). -/
theorem py_pairwise_square (c : Py.Sigs) (hc : c.dtype.kernelOk = true) :
    ∃ r, Gen.jaccarddist_pairwise c none false none () = .ok r ∧ r.okDtype = true
      ∧ r.rows = pairwiseSquare kdist 0 (Py.Sigs.nat c) :=
  jaccarddist_pairwise_square_eq jaccarddist_array_spec c hc

end GambitV.Tie.Py
