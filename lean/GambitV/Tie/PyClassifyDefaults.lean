import GambitV.Gen.PyClassifyDefaults

/-!
Tie (structural facts): the computed defaults of the result records (`matched_taxon`, `next_taxon`), which the translation of `classify` / `get_result_item` expands, as it stands in the current source.  Each fact says that one function consists of exactly the expected
statements (harness/flow_facts.json; compared as normalised `ast` text by harness/pytrace.py on every run); reading these statements as the
models do is part of the trusted base (DESIGN §3).
-/
namespace GambitV.Tie.Py
open GambitV

theorem classify_defaults_facts :
    Gen.pyClassifyDefaults_matchedDefault = true ∧ Gen.pyClassifyDefaults_nextDefault = true := by decide

end GambitV.Tie.Py
