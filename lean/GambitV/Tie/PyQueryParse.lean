import GambitV.Gen.PyQueryParse

/-!
Tie (structural facts): how genome files become query inputs (labels paired with files in order, signatures with the database's parameters), as it stands in the current source.  Each fact says that one function consists of exactly the expected
statements (harness/flow_facts.json; compared as normalised `ast` text by harness/pytrace.py on every run); reading these statements as the
models do is part of the trusted base (DESIGN §3).
-/
namespace GambitV.Tie.Py
open GambitV

theorem query_parse_facts :
    Gen.pyQueryParse_inputConvert = true ∧ Gen.pyQueryParse_queryParse = true := by decide

end GambitV.Tie.Py
