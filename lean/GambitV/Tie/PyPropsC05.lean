import GambitV.Tie.PyChunks
import GambitV.Props.C05

/-!
Property-level statements about the definitions translated from the current Python sources (`GambitV.Gen.*`, regenerated on every run):
the tie theorems composed with the property theorems of `Props/`.  C05: chunking.
-/
namespace GambitV.Tie.Py
open GambitV

-- C05 ------------------------------------------------------------------------------------------
/-- the chunks produced by the translated `chunk_slices`, clamped to the length, partition `0 … n-1` in order -/
theorem py_chunks_partition (n size : Nat) (hs : 0 < size) :
    ∃ cs, Gen.chunk_slices (n : Int) (size : Int) = .ok cs
      ∧ cs.flatMap (fun ab => List.range' ab.1.toNat (min ab.2.toNat n - ab.1.toNat)) = List.range n := by
  refine ⟨_, chunk_slices_eq n size hs, ?_⟩
  rw [List.flatMap_map]
  simp only [Int.toNat_natCast]
  exact C05.chunkSlices_partition n size hs

end GambitV.Tie.Py
