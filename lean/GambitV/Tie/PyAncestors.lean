import GambitV.Gen.PyAncestors
import GambitV.Tie.PyNext

/-!
Tie: `Taxon.ancestors` (db/models.py) as it stands in the *current* source — the walk along `parent` every classification step rests on —
against the model's `Forest.lineage` / `Forest.properAncestors`.  Until now the lineage was part of the environment of the other
translated functions (`t.ancestors(incself=…)` read as `F.lineage t`), validated by the `pyrt.lineage` operation only.
-/
namespace GambitV.Tie.Py
open GambitV

open GambitV.Py in
/-- the loop of `Taxon.ancestors` from a node `x < n`: it stops with the lineage of `x` appended to what was yielded before -/
private theorem ancestors_loop (F : Forest) (hF : ForestWF F) (st : Nat) (inc : Bool) :
    ∀ (n x : Nat) (ys : List Nat), x < n →
      Py.whileLoop (n + 1) (fun (s : Gen.taxon_ancestors.St) => (do
        pure (s.taxon).isSome : Py.M Gen.taxon_ancestors.St Gen.taxon_ancestors.Ret Bool)) (fun (s : Gen.taxon_ancestors.St) => (do
        let _ ← Py.guard (s.taxon).isNone .TypeError
        let s : Gen.taxon_ancestors.St := { s with yielded := s.yielded ++ [((s.taxon).getD (0 : Nat))] }
        let s : Gen.taxon_ancestors.St := { s with taxon := (F.parentOf ((s.taxon).getD (0 : Nat))) }
        pure s : Py.M Gen.taxon_ancestors.St Gen.taxon_ancestors.Ret Gen.taxon_ancestors.St))
        { self_t := st, incself := inc, taxon := some x, yielded := ys }
      = .ok { self_t := st, incself := inc, taxon := none, yielded := ys ++ F.lineageFuel n x } := by
  intro n
  induction n with
  | zero => intro x ys hx; omega
  | succ n ih =>
    intro x ys hx
    rw [whileLoop_succ]
    show whileLoop (n + 1) _ _ ({ self_t := st, incself := inc, taxon := F.parentOf x, yielded := ys ++ [x] } : Gen.taxon_ancestors.St) = _
    unfold Forest.lineageFuel
    cases hp : F.parentOf x with
    | none =>
      rw [whileLoop_succ]
      rfl
    | some p =>
      have hpx := (hF x p hp).1
      rw [ih p (ys ++ [x]) (by omega)]
      simp only [List.append_assoc, List.singleton_append]

private theorem lineageFuel_chain (F : Forest) : ∀ (n x i : Nat), i + 1 < (F.lineageFuel n x).length →
    F.parentOf ((F.lineageFuel n x).getD i 0) = some ((F.lineageFuel n x).getD (i + 1) 0)
  | 0, x, i, h => by simp [Forest.lineageFuel] at h
  | n + 1, x, i, h => by
    unfold Forest.lineageFuel at h ⊢
    cases hp : F.parentOf x with
    | none => simp [hp] at h
    | some p =>
      simp only [hp, List.length_cons] at h ⊢
      cases i with
      | zero =>
        cases n with
        | zero => simp [Forest.lineageFuel] at h
        | succ n => simp [Forest.lineageFuel, hp]
      | succ i =>
        simp only [List.getD_cons_succ]
        exact lineageFuel_chain F n p i (by omega)

/-- bottom to top, starting with the taxon itself (`incself=True`) or its parent; the fuel `F.size + 1` suffices in a well-formed forest -/
theorem taxon_ancestors_eq (F : Forest) (hF : ForestWF F) (t : Nat) (ht : t < F.size) (inc : Bool) :
    Gen.taxon_ancestors F t inc = .ok (if inc then F.lineage t else F.properAncestors t) := by
  obtain ⟨k, hk⟩ : ∃ k, F.size = k + 1 := ⟨F.size - 1, by omega⟩
  cases inc with
  | true =>
    have key := ancestors_loop F hF t true F.size t [] ht
    have hrun : Gen.taxon_ancestors.run F { self_t := t, incself := true, taxon := none, yielded := [] }
        = .ok { self_t := t, incself := true, taxon := none, yielded := [] ++ F.lineageFuel F.size t } :=
      key
    unfold Gen.taxon_ancestors
    rw [hrun]
    simp [Py.finish, Forest.lineage]
  | false =>
    rw [if_neg (by simp), Forest.properAncestors, lineage_unfold hF (by omega) t]
    cases hp : F.parentOf t with
    | none =>
      have hrun : Gen.taxon_ancestors.run F { self_t := t, incself := false, taxon := none, yielded := [] }
          = .ok { self_t := t, incself := false, taxon := none, yielded := [] } := by
        unfold Gen.taxon_ancestors.run
        simp only [Bool.false_eq_true, if_false, hp, hk]
        rw [Py.whileLoop_succ]
        rfl
      unfold Gen.taxon_ancestors
      rw [hrun]
      simp [Py.finish]
    | some p =>
      have hpt := (hF t p hp).1
      have key := ancestors_loop F hF t false F.size p [] (by omega)
      have hrun : Gen.taxon_ancestors.run F { self_t := t, incself := false, taxon := none, yielded := [] }
          = .ok { self_t := t, incself := false, taxon := none, yielded := [] ++ F.lineageFuel F.size p } := by
        unfold Gen.taxon_ancestors.run
        simp only [Bool.false_eq_true, if_false, hp]
        exact key
      unfold Gen.taxon_ancestors
      rw [hrun]
      simp [Py.finish, Forest.lineage]

/-- the reading the other translations use: `t.ancestors(incself=True)` is `F.lineage t` -/
theorem py_ancestors_incself (F : Forest) (hF : ForestWF F) (t : Nat) (ht : t < F.size) :
    Gen.taxon_ancestors F t true = .ok (F.lineage t) := by
  simpa using taxon_ancestors_eq F hF t ht true

theorem py_ancestors_proper (F : Forest) (hF : ForestWF F) (t : Nat) (ht : t < F.size) :
    Gen.taxon_ancestors F t false = .ok (F.properAncestors t) := by
  simpa using taxon_ancestors_eq F hF t ht false

/-- the first ancestor reported with `incself=True` is the taxon itself, and every later one is the parent of the one before -/
theorem py_ancestors_chain (F : Forest) (hF : ForestWF F) (t : Nat) (ht : t < F.size) (l : List Nat)
    (h : Gen.taxon_ancestors F t true = .ok l) :
    l.head? = some t ∧ ∀ i, i + 1 < l.length → F.parentOf (l.getD i 0) = some (l.getD (i + 1) 0) := by
  rw [py_ancestors_incself F hF t ht] at h
  obtain rfl : F.lineage t = l := by simpa using h
  refine ⟨?_, fun i hi => lineageFuel_chain F F.size t i hi⟩
  rw [lineage_unfold hF (by omega) t]
  rfl

end GambitV.Tie.Py
