import GambitV.Gen.PyRefDb
import GambitV.Model.RefDb
import GambitV.Props.C04
import GambitV.Lemmas.PyRt
import GambitV.Lemmas.TiePyRefDb

/-!
Tie of the machine-translated `_check_genomes_have_ids`, `_map_ids_to_genomes`, `genomes_by_id`, `genomes_by_id_subset` and
`ReferenceDatabase.__init__` (`GambitV.Gen.*`, from gambit/db/refdb.py) to the hand-written model `matchIds` / `loadDb`
(`Model/RefDb.lean`).

The Python dict comprehension of `_map_ids_to_genomes` keeps the LAST genome with a given ID, `matchIds` looks up the FIRST
(`idxOf?`): the two agree when the ID values are unique (the schema's uniqueness constraints), which is the hypothesis of the
theorems.  The refusals come in the same order as in `loadDb`: no ID attribute (TypeError), not a valid attribute (ValueError),
a genome without an ID (RuntimeError), genomes left unmatched (ValueError).

Only the `*_eq` lemmas up to `refdb_init_eq` unfold generated terms; each unfolds `run` once, replaces the callees by their proved
values and the loops (`forEach_ok`) by left folds with the clean steps `idStep` / `subStep`, evaluated by `foldl_idStep` /
`foldl_subStep`.  Core Lean only.
-/
set_option linter.unusedSimpArgs false
namespace GambitV.Tie.Py
open GambitV GambitV.Py GambitV.TieRefDb

/-- the outcome of the model's `loadDb` in the shape the translated `ReferenceDatabase.__init__` returns -/
def loadRes : Except LoadErr (List (Nat × Nat)) → Py.Res (List Nat × List Int)
  | .ok m => .ok (m.map (·.1), m.map (fun p => (p.2 : Int)))
  | .error .typeError => .raised .TypeError
  | .error .valueError => .raised .ValueError
  | .error .runtimeError => .raised .RuntimeError

/-! ### the callees -/

/-- `_check_genomes_have_ids`: RuntimeError iff some genome has no value for the ID attribute -/
theorem check_genomes_have_ids_eq (gids : List (Option Nat)) (a : Bool) :
    Gen.check_genomes_have_ids gids () a = if gids.any (·.isNone) then .raised .RuntimeError else .ok none := by
  unfold Gen.check_genomes_have_ids Gen.check_genomes_have_ids.run
  simp only [count_none_pos]
  cases gids.any (·.isNone) <;> rfl

/-- `_map_ids_to_genomes` when every genome has an ID -/
theorem map_ids_to_genomes_eq (ids : List Nat) (a : Bool) :
    Gen.map_ids_to_genomes (ids.map some) () a = .ok (dictFromPairs ids.zipIdx) := by
  unfold Gen.map_ids_to_genomes Gen.map_ids_to_genomes.run
  simp only [swapped_pairs]
  rfl

/-- one iteration of `[d.get(id_) for id_ in ids]` -/
def idStep (s : Gen.genomes_by_id.St) (x : Nat) : Gen.genomes_by_id.St :=
  { s with id_ := x, ret__ := s.ret__ ++ [dictGet? s.d x] }

theorem foldl_idStep (xs : List Nat) (s : Gen.genomes_by_id.St) :
    (xs.foldl idStep s).ret__ = s.ret__ ++ xs.map (fun x => dictGet? s.d x) ∧ (xs.foldl idStep s).d = s.d := by
  induction xs generalizing s with
  | nil => exact ⟨(List.append_nil _).symm, rfl⟩
  | cons x xs ih =>
    obtain ⟨h1, h2⟩ := ih (idStep s x)
    rw [List.foldl_cons, h1, h2]
    simp only [idStep, List.append_assoc, List.singleton_append, List.map_cons, and_self]

/-- `genomes_by_id(..., strict=False)` with a valid attribute, every genome with an ID, IDs unique: `d.get(id)` is `idxOf?` -/
theorem genomes_by_id_eq (ids sigIds : List Nat) (hN : ids.Nodup) :
    Gen.genomes_by_id (ids.map some) () true sigIds false = .ok (sigIds.map (fun x => ids.idxOf? x)) := by
  have hany : (ids.map some).any (·.isNone) = false := by
    rw [List.any_eq_false]; intro x hx; obtain ⟨i, _, rfl⟩ := List.mem_map.1 hx; simp
  unfold Gen.genomes_by_id Gen.genomes_by_id.run
  simp only [check_genomes_have_ids_eq, hany, map_ids_to_genomes_eq, Bool.not_true, guard_false, call_ok, bind, Except.bind,
    Bool.false_eq_true, if_false]
  generalize hw : Py.forEach _ _ _ = w
  have hfold := forEach_ok_of hw idStep (fun _ _ => rfl)
  subst hfold
  simp only [(foldl_idStep _ _).1, List.nil_append, dictGet?_fromPairs ids hN, throw, throwThe, MonadExceptOf.throw, finish_ret]

/-- `genomes_by_id` refuses an attribute that is not one of `Genome.ID_ATTRS` before looking at the genomes -/
theorem genomes_by_id_bad_attr (gids : List (Option Nat)) (sigIds : List Nat) (strict : Bool) :
    Gen.genomes_by_id gids () false sigIds strict = .raised .ValueError := by
  unfold Gen.genomes_by_id Gen.genomes_by_id.run
  rfl

/-- `genomes_by_id` raises the RuntimeError of `_check_genomes_have_ids` -/
theorem genomes_by_id_missing (gids : List (Option Nat)) (sigIds : List Nat) (strict : Bool)
    (h : gids.any (·.isNone) = true) : Gen.genomes_by_id gids () true sigIds strict = .raised .RuntimeError := by
  unfold Gen.genomes_by_id Gen.genomes_by_id.run
  simp only [check_genomes_have_ids_eq, h, if_true, Bool.not_true, guard_false, call_raised, bind, Except.bind, finish_exc]

/-! ### `genomes_by_id_subset` -/

/-- one iteration of `for i, g in enumerate(genomes): if g is not None: ...` -/
def subStep (s : Gen.genomes_by_id_subset.St) (x : Int × Option Nat) : Gen.genomes_by_id_subset.St :=
  if x.2.isSome then
    { s with i := x.1, g := x.2, genomes_out := s.genomes_out ++ [x.2.getD 0], idxs_out := s.idxs_out ++ [x.1] }
  else { s with i := x.1, g := x.2 }

theorem foldl_subStep (xs : List (Int × Option Nat)) (s : Gen.genomes_by_id_subset.St) :
    (xs.foldl subStep s).genomes_out = s.genomes_out ++ xs.filterMap (fun x => x.2) ∧
      (xs.foldl subStep s).idxs_out = s.idxs_out ++ xs.filterMap (fun x => x.2.map (fun _ => x.1)) := by
  induction xs generalizing s with
  | nil => exact ⟨(List.append_nil _).symm, (List.append_nil _).symm⟩
  | cons x xs ih =>
    obtain ⟨h1, h2⟩ := ih (subStep s x)
    rw [List.foldl_cons, h1, h2]
    obtain ⟨i, g⟩ := x
    cases g <;> simp [subStep]

/-- `genomes_by_id_subset` (valid attribute, every genome has an ID, IDs unique): the genomes of the matched signature positions, in file order -/
theorem genomes_by_id_subset_eq (gids sigIds : List Nat) (hN : gids.Nodup) :
    Gen.genomes_by_id_subset (gids.map some) () true sigIds
      = .ok ((matchIds gids sigIds).map (·.1), (matchIds gids sigIds).map (fun p => (p.2 : Int))) := by
  unfold Gen.genomes_by_id_subset Gen.genomes_by_id_subset.run
  simp only [genomes_by_id_eq gids sigIds hN, call_ok, bind, Except.bind]
  generalize hw : Py.forEach _ _ _ = w
  have hfold := forEach_ok_of hw subStep (by
    rintro ⟨i, g⟩ s
    cases g <;> rfl)
  subst hfold
  simp only [(foldl_subStep _ _).1, (foldl_subStep _ _).2, List.nil_append, enumerate, enumerate_genomes, enumerate_positions,
    matchOff_zero, throw, throwThe, MonadExceptOf.throw, finish_ret]

theorem genomes_by_id_subset_bad_attr (gids : List (Option Nat)) (sigIds : List Nat) :
    Gen.genomes_by_id_subset gids () false sigIds = .raised .ValueError := by
  unfold Gen.genomes_by_id_subset Gen.genomes_by_id_subset.run
  simp only [genomes_by_id_bad_attr, call_raised, bind, Except.bind, finish_exc]

theorem genomes_by_id_subset_missing (gids : List (Option Nat)) (sigIds : List Nat) (h : gids.any (·.isNone) = true) :
    Gen.genomes_by_id_subset gids () true sigIds = .raised .RuntimeError := by
  unfold Gen.genomes_by_id_subset Gen.genomes_by_id_subset.run
  simp only [genomes_by_id_missing _ _ _ h, call_raised, bind, Except.bind, finish_exc]

/-! ### `ReferenceDatabase.__init__` -/

/-- `ReferenceDatabase.__init__` = the model's `loadDb`, with the same order of the four refusals (unique ID values assumed: the schema's
uniqueness constraints) -/
theorem refdb_init_eq (gids : List (Option Nat)) (idAttr : Option Bool) (sigIds : List Nat) (hN : (gids.filterMap id).Nodup) :
    Gen.refdb_init gids idAttr sigIds () () = loadRes (loadDb idAttr gids sigIds) := by
  unfold Gen.refdb_init Gen.refdb_init.run
  cases idAttr with
  | none => rfl
  | some a =>
    cases a with
    | false =>
      simp only [Option.isNone_some, Bool.false_eq_true, if_false, guard_false, Option.getD_some, genomes_by_id_subset_bad_attr,
        call_raised, bind, Except.bind, pure, Except.pure, finish_exc]
      rfl
    | true =>
      cases hany : gids.any (·.isNone) with
      | true =>
        simp only [Option.isNone_some, Bool.false_eq_true, if_false, guard_false, Option.getD_some,
          genomes_by_id_subset_missing _ _ hany, call_raised, bind, Except.bind, pure, Except.pure, finish_exc, loadDb, hany, if_true]
        rfl
      | false =>
        have hsub := genomes_by_id_subset_eq (gids.filterMap id) sigIds hN
        rw [map_some_filterMap_id gids hany] at hsub
        simp only [Option.isNone_some, Bool.false_eq_true, if_false, guard_false, Option.getD_some, hsub,
          call_ok, bind, Except.bind, pure, Except.pure, loadDb, hany, List.length_map]
        by_cases hlen : (matchIds (gids.filterMap id) sigIds).length = gids.length
        · simp [hlen, loadRes]
        · have hlen' : ¬ (((matchIds (gids.filterMap id) sigIds).length : Int) = (gids.length : Int)) := by omega
          simp [hlen, hlen', loadRes, throw, throwThe, MonadExceptOf.throw]

/-! ### property-level consequence -/

/-- property-level consequence (C04 `pairing`): whenever the translated constructor succeeds, every genome is paired with the signature
whose stored ID equals the genome's ID, and all genomes are paired -/
theorem py_refdb_pairing (gids : List (Option Nat)) (idAttr : Option Bool) (sigIds : List Nat) (hN : (gids.filterMap id).Nodup)
    (gs : List Nat) (ps : List Int) (h : Gen.refdb_init gids idAttr sigIds () () = .ok (gs, ps)) :
    gs.length = gids.length ∧ ps.length = gs.length ∧
      ∀ j, j < gs.length → ∃ p : Nat, ps[j]? = some (p : Int) ∧ sigIds[p]? = (gids.getD (gs.getD j 0) none) ∧ (gids.getD (gs.getD j 0) none).isSome := by
  rw [refdb_init_eq gids idAttr sigIds hN] at h
  cases idAttr with
  | none => cases h
  | some a =>
    cases a with
    | false => cases h
    | true =>
      cases hl : loadDb (some true) gids sigIds with
      | error e => rw [hl] at h; cases e <;> cases h
      | ok m =>
        rw [hl] at h
        simp only [loadRes, Res.ok.injEq, Prod.mk.injEq] at h
        obtain ⟨rfl, rfl⟩ := h
        obtain ⟨hne, rfl, hlen⟩ := (C04.load_ok_iff gids sigIds m).1 hl
        have hany : gids.any (·.isNone) = false := by
          rw [List.any_eq_false]
          intro x hx
          cases x with
          | none => exact absurd rfl (hne none hx)
          | some _ => simp
        refine ⟨by simpa using hlen, by simp, ?_⟩
        intro j hj
        rw [List.length_map] at hj
        obtain ⟨i0, hs, hg⟩ := C04.pairing (List.getElem_mem hj)
        simp only [List.get_eq_getElem] at hs hg
        refine ⟨((matchIds (gids.filterMap id) sigIds)[j]).2, by simp [hj], ?_⟩
        have e1 : ((matchIds (gids.filterMap id) sigIds).map (·.1)).getD j 0
            = ((matchIds (gids.filterMap id) sigIds)[j]).1 := by
          simp [List.getD_eq_getElem?_getD, hj]
        have e2 : ∀ k : Nat, gids[k]? = ((gids.filterMap id).map some)[k]? := by
          intro k; rw [map_some_filterMap_id gids hany]
        have hgd : gids.getD (((matchIds (gids.filterMap id) sigIds).map (·.1)).getD j 0) none = some i0 := by
          rw [e1, List.getD_eq_getElem?_getD, e2, List.getElem?_map, hg]
          rfl
        rw [hgd]
        exact ⟨hs, rfl⟩

/-! ### non-vacuity -/

example : Gen.refdb_init [some 5, some 7, some 9] (some true) [9, 1, 5, 7, 2] () () = .ok ([2, 0, 1], [0, 2, 3]) := by decide
example : Gen.refdb_init [some 5, none, some 9] (some true) [9, 1, 5, 7, 2] () () = .raised .RuntimeError := by decide
example : Gen.refdb_init [some 5, some 7, some 9] (some true) [9, 1, 5, 2] () () = .raised .ValueError := by decide
example : Gen.refdb_init [some 5, none] (some false) [9] () () = .raised .ValueError := by decide
example : Gen.refdb_init [some 5, none] none [9] () () = .raised .TypeError := by decide
example : Gen.genomes_by_id_subset [some 5, some 7, some 9] () true [9, 1, 5, 5, 7, 2] = .ok ([2, 0, 0, 1], [0, 2, 3, 4]) := by decide

end GambitV.Tie.Py
