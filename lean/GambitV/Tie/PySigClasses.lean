import GambitV.Gen.PySigClasses

/-!
Tie (structural facts): the shape of `SignaturesMeta` and `SequenceFile`, as it stands in the current source.  Each fact says that one function consists of exactly the expected
statements, one class has exactly the expected shape, or one constant the expected value (harness/flow_facts.json; compared as normalised `ast`
text by harness/pytrace.py on every run); reading these as the models do is part of the trusted base (DESIGN §3).
-/
namespace GambitV.Tie.Py
open GambitV

theorem sig_classes_facts :
    Gen.pySigClasses_signaturesMeta = true ∧ Gen.pySigClasses_sequenceFile = true := by decide

end GambitV.Tie.Py
