import GambitV.Gen.PyGetattr
import GambitV.Tie.PyCsvColumns
import GambitV.Lemmas.PyRt

/-!
Tie: `getattr_nested` of `gambit/results.py` as it stands in the *current* source (machine-translated in `Gen/PyGetattr.lean`) is the
attribute walk along the dot-separated names, and on the attribute paths of the CSV exporter's column table (`Gen.pyCsvColumns`) it
yields the cells of the model's row (`csvRow`, `Model/Export.lean`).  Core Lean only.
-/
namespace GambitV.Tie.Py
open GambitV GambitV.Py

/-- the steps of `getattr_nested` on a list of attribute names: `None` is passed through when asked to, a missing attribute raises -/
def walk (passNone : Bool) : Py.Obj → List (List Char) → Py.Res Py.Obj
  | o, [] => .ok o
  | o, a :: as =>
    if passNone && o.isNone then .ok .none
    else match o.getattr? a with
      | none => .raised .AttributeError
      | some o' => walk passNone o' as

def optText : Option (List Char) → Py.Obj
  | none => .none
  | some t => .text t

def taxObj (t : TaxonRec) : Py.Obj :=
  .record [("name".toList, .text t.name), ("rank".toList, optText t.rank), ("ncbi_id".toList, optText t.ncbiId),
           ("distance_threshold".toList, optText t.threshold)]

def optTax : Option TaxonRec → Py.Obj
  | none => .none
  | some t => taxObj t

/-- a result item as the attribute walk sees it (the attributes the exporter's paths mention) -/
def itemObj (it : ItemRec) : Py.Obj :=
  .record [("input".toList, .record [("label".toList, .text it.label)]),
           ("report_taxon".toList, optTax it.report),
           ("classifier_result".toList, .record [
              ("closest_match".toList, .record [("distance".toList, .text it.closestMatch.distanceText),
                                                 ("genome".toList, .record [("description".toList, .text it.closestMatch.genome.description)])]),
              ("next_taxon".toList, optTax it.next)])]

/-- the CSV cell of a walked value: `None` is the empty cell -/
def cellOf : Py.Obj → List Char
  | .text t => t
  | _ => []

/-- the body of the loop of `getattr_nested`, as the translator emits it -/
def loopBody : List Char → Gen.getattr_nested.St → Py.M Gen.getattr_nested.St Gen.getattr_nested.Ret Gen.getattr_nested.St :=
  fun x (s : Gen.getattr_nested.St) => (do
    let s : Gen.getattr_nested.St := { s with attr := x }
    let s ← (if (s.pass_none && (Py.Obj.isNone s.obj)) then
        (fun (s : Gen.getattr_nested.St) => (do
        let _ ← (throw (Py.Ctl.ret Py.Obj.none) : Py.M Gen.getattr_nested.St Gen.getattr_nested.Ret Unit)
        pure s : Py.M Gen.getattr_nested.St Gen.getattr_nested.Ret Gen.getattr_nested.St)) s
      else pure s)
    let _ ← Py.guard (Py.Obj.getattr? s.obj s.attr).isNone .AttributeError
    let s : Gen.getattr_nested.St := { s with obj := ((Py.Obj.getattr? s.obj s.attr).getD Py.Obj.none) }
    pure s : Py.M Gen.getattr_nested.St Gen.getattr_nested.Ret Gen.getattr_nested.St)

/-- one round of the loop: early return on a passed `None`, `AttributeError` on a missing attribute, else step to the attribute -/
theorem loopBody_eq (a : List Char) (s : Gen.getattr_nested.St) :
    loopBody a s =
      if s.pass_none && s.obj.isNone then .error (.ret .none)
      else match s.obj.getattr? a with
        | none => .error (.exc .AttributeError)
        | some o' => .ok { s with attr := a, obj := o' } := by
  unfold loopBody
  by_cases h : (s.pass_none && s.obj.isNone) = true
  · simp only [h, if_true]; rfl
  · simp only [h]
    cases hg : s.obj.getattr? a <;> simp [hg, bind, Except.bind, pure, Except.pure]

/-- the loop of `getattr_nested` from any state: the walk from the state's `obj` -/
theorem getattr_loop (names : List (List Char)) (s : Gen.getattr_nested.St) :
    Py.finish (fun _ => .raised .Other) (do
      let r ← Py.forEach names loopBody s
      let s : Gen.getattr_nested.St := r.1
      let _ ← (throw (Py.Ctl.ret s.obj) : Py.M Gen.getattr_nested.St Gen.getattr_nested.Ret Unit)
      pure s) = walk s.pass_none s.obj names := by
  induction names generalizing s with
  | nil => rfl
  | cons a as ih =>
    rw [forEach_cons, loopBody_eq]
    unfold walk
    by_cases h : (s.pass_none && s.obj.isNone) = true
    · simp only [h, if_true]; rfl
    · simp only [h]
      cases hg : s.obj.getattr? a with
      | none => rfl
      | some o' => exact ih { s with attr := a, obj := o' }

/-- `getattr_nested(obj, 'a.b.c', pass_none)` as the source has it now = the attribute walk along the dot-separated names -/
theorem getattr_nested_eq (o : Py.Obj) (path : List Char) (pn : Bool) :
    Gen.getattr_nested o path pn = walk pn o (Py.splitOnChar '.' path) := by
  unfold Gen.getattr_nested Gen.getattr_nested.run
  exact getattr_loop _ _

theorem cellOf_text (t : List Char) : cellOf (.text t) = t := rfl
theorem cellOf_none : cellOf .none = [] := rfl
theorem cellOf_optText (o : Option (List Char)) : cellOf (optText o) = o.getD [] := by cases o <;> rfl

/-- the cell the current source computes for a column path -/
def genCell (it : ItemRec) (p : String) : List Char :=
  match Gen.getattr_nested (itemObj it) p.toList true with
  | .ok o => cellOf o
  | _ => []

/-- every column path of the current table walks without error on every item, to the value the model puts in that cell -/
theorem py_csv_cells (it : ItemRec) :
    ∀ c ∈ Gen.pyCsvColumns, ∃ o, Gen.getattr_nested (itemObj it) c.2.toList true = .ok o ∧ some (cellOf o) = pathCell it c.2 := by
  rcases it with ⟨label, report, next, cm, _, _, _, _, _, _⟩
  cases report <;> cases next <;>
    simp [Gen.pyCsvColumns, getattr_nested_eq, Py.splitOnChar, walk, itemObj, Py.Obj.getattr?, Py.Obj.isNone, pathCell,
      optTax, taxObj, cellOf_optText, cellOf_text, cellOf_none, optCell]

/-- without `pass_none` a `None` along the path is an error, not an empty cell -/
theorem getattr_nested_none_raises (a : List Char) (rest : List (List Char)) :
    walk false .none (a :: rest) = .raised .AttributeError := rfl

/-- the row computed by the current `COLUMNS` table and the current `getattr_nested` is the model's row, for every item -/
theorem py_csv_row (it : ItemRec) : Gen.pyCsvColumns.map (fun c => genCell it c.2) = csvRow it := by
  have h : Gen.pyCsvColumns.map (fun c => some (genCell it c.2)) = (csvRow it).map some := by
    rw [← csv_row_eq]
    apply List.map_congr_left
    intro c hc
    obtain ⟨o, ho, hcell⟩ := py_csv_cells it c hc
    simp only [genCell, ho]
    exact hcell
  have h' : (Gen.pyCsvColumns.map (fun c => genCell it c.2)).map some = (csvRow it).map some := by
    rw [List.map_map]; exact h
  exact (List.map_inj_right (fun _ _ h => Option.some.inj h)).mp h'

/-! ### the statements are not vacuous -/

/-- an item for the examples, with the given reported and next taxon -/
def exItem (r n : Option TaxonRec) : ItemRec :=
  { label := "q1".toList, report := r, next := n,
    closestMatch := { genome := { key := "g".toList, description := "desc".toList }, distanceBits := 0, distanceText := "0.25".toList, matched := none },
    primary := none, predicted := none, closestGenomes := [], success := true, warnings := [], error := none }
def exTaxon : TaxonRec := { key := "k".toList, name := "Escherichia".toList, rank := some "genus".toList, ncbiId := none, threshold := some "0.5".toList }

/-- no next taxon: the walk stops at the `None` and the cell is empty -/
example : Gen.getattr_nested (itemObj (exItem none none)) "classifier_result.next_taxon.rank".toList true = .ok .none := by rfl
/-- the same walk without `pass_none` raises -/
example : Gen.getattr_nested (itemObj (exItem none none)) "classifier_result.next_taxon.rank".toList false = .raised .AttributeError := by rfl
/-- with a next taxon the walk reaches its rank -/
example : Gen.getattr_nested (itemObj (exItem none (some exTaxon))) "classifier_result.next_taxon.rank".toList true = .ok (.text "genus".toList) := by rfl
/-- an attribute that is not there raises, also with `pass_none` -/
example : Gen.getattr_nested (itemObj (exItem none none)) "input.nolabel".toList true = .raised .AttributeError := by rfl
/-- the whole row on an item with a reported taxon whose `ncbi_id` is `None` -/
example : Gen.pyCsvColumns.map (fun c => genCell (exItem (some exTaxon) none) c.2) =
    ["q1", "Escherichia", "genus", "", "0.5", "0.25", "desc", "", "", "", ""].map String.toList := by decide

end GambitV.Tie.Py
