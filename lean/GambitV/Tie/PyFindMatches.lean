import GambitV.Gen.PyFindMatches
import GambitV.Tie.PyMatching

/-!
Tie: the generated (state-passing) translation of `find_matches` (classify.py) equals the
hand-written model `findMatches` (genome indices as Python ints).  Core Lean only.
-/
namespace GambitV.Tie.Py
open GambitV GambitV.Py

abbrev FSt := Gen.find_matches.St

/-- effect of one iteration of `for i, (g, d) in enumerate(itr)` on the state -/
def fmIter (F : Forest) (G : List Nat) (s : FSt) (x : Int × Nat × Nat) : FSt :=
  { itr := s.itr
    matches_ := (match matchingTaxon F (G.getD x.2.1 0) x.2.2 with
      | some t => dictAppend s.matches_ t x.1
      | none => s.matches_)
    i := x.1, g := x.2.1, d := x.2.2
    match_ := matchingTaxon F (G.getD x.2.1 0) x.2.2 }

/-- the `matches` dict after the loop only depends on the `matches` dict before it -/
theorem matches_foldl_fmIter (F : Forest) (G : List Nat) (l : List (Int × Nat × Nat)) (s : FSt) :
    (l.foldl (fmIter F G) s).matches_ = l.foldl (fun acc x =>
      match matchingTaxon F (G.getD x.2.1 0) x.2.2 with
      | some t => dictAppend acc t x.1
      | none => acc) s.matches_ := by
  induction l generalizing s with
  | nil => rfl
  | cons x l ih => rw [List.foldl_cons, List.foldl_cons, ih]; rfl

/-- values cast to Python ints -/
abbrev castE (e : Nat × List Nat) : Nat × List Int := (e.1, e.2.map (fun (i : Nat) => (i : Int)))

/-- the fold of the generated loop is the cast of the fold of the model -/
theorem foldl_cast (m : Nat → Option Nat) (l : List Nat) (acc : List (Nat × List Nat)) :
    l.foldl (fun (acc : List (Nat × List Int)) (i : Nat) =>
      match m i with
      | some t => dictAppend acc t (i : Int)
      | none => acc) (acc.map castE)
    = (l.foldl (fun acc i =>
      match m i with
      | some t => dictAppend acc t i
      | none => acc) acc).map castE := by
  induction l generalizing acc with
  | nil => rfl
  | cons i l ih =>
    rw [List.foldl_cons, List.foldl_cons]
    cases m i with
    | none => exact ih acc
    | some t =>
      simp only []
      rw [← ih]
      congr 1
      exact dictAppend_map (fun (i : Nat) => (i : Int)) acc t i

theorem find_matches_eq (F : Forest) (gtax ds : List Nat) (h : ds.length = gtax.length) :
    Gen.find_matches F gtax ((List.range gtax.length).zip ds)
      = .ok ((findMatches F gtax ds).map (fun e => (e.1, e.2.map (fun (i : Nat) => (i : Int))))) := by
  unfold Gen.find_matches Gen.find_matches.run
  dsimp only
  rw [forEach_ok (f := fmIter F gtax)]
  case h =>
    intro x s
    simp only [matching_taxon_eq, call_ok, bind, Except.bind, pure, Except.pure, fmIter]
    cases matchingTaxon F (gtax.getD x.2.1 0) x.2.2 <;> rfl
  simp only [bind, Except.bind, throw, throwThe, MonadExceptOf.throw, finish_ret]
  rw [matches_foldl_fmIter, enumerate_zip_range ds gtax.length h, List.foldl_map,
    findMatches_eq_dictFold]
  exact congrArg Res.ok (foldl_cast _ _ [])

/-! non-vacuity: the generated function evaluated on a concrete forest -/

/-- genomes 0..4 belong to taxa 3, 2, 3, 4, 1 -/
example : Gen.find_matches demoForest [3, 2, 3, 4, 1] ((List.range 5).zip [3, 9, 1, 2, 4])
    = .ok [(1, [0, 2]), (4, [3]), (0, [4])] := by decide

example : findMatches demoForest [3, 2, 3, 4, 1] [3, 9, 1, 2, 4]
    = [(1, [0, 2]), (4, [3]), (0, [4])] := by decide

end GambitV.Tie.Py
