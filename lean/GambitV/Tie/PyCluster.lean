import GambitV.Gen.PyCluster
import GambitV.Props.C17
import GambitV.Lemmas.PyRt
import GambitV.Lemmas.TiePyCluster

/-!
Tie: the generated translation of `linkage_to_bio_tree` (gambit/cluster.py) equals the hand-written model `linkageToTree` /
`buildClades` of `Model/Cluster.lean`, read through `pyClade` (the Biopython clade of a model clade).  Core Lean only.

The generated body is two `for` loops.  The first appends one leaf clade per label; the second, for every linkage row, reads the two
child clades, sets the branch lengths of (copies of) them to `row height − child height` and appends the new clade.  Both are evaluated
with `TieClu.forEach_inv_eq` under an invariant indexed by the iteration number; after `r` rows the clade list is the image of the
model's list after `r` rows (`buildPrefix`), every clade of the list having no branch length (the children are modified copies, in the
translation as in the model).  The only facts proved against the generated term are the per-iteration ones.

`linkage_to_bio_tree_gen` needs only: as many labels as rows + 1, non-negative child indices, and both children of row `r` existing
already (`< n + r`).  `ValidLinkage` (which also asks for distinct children, every cluster merged once and monotone heights) implies
that; the three stated theorems are corollaries.
-/
namespace GambitV.Tie.Py
open GambitV GambitV.Gen GambitV.TieClu

/-- the rows of the SciPy linkage matrix as the translated function receives them (left, right, height, size) → model rows -/
def toLinkRows (rows : List (Int × Int × Int × Int)) : List LinkRow := rows.map fun x => ⟨x.1.toNat, x.2.1.toNat, x.2.2.1⟩

/-- the Biopython clade of a model clade whose own branch length is `bl` (`none` for the root: never assigned) -/
def pyClade (labels : List Nat) : Option Int → Clade → Py.Clade
  | bl, .leaf l _ => { name := some (labels.getD l 0), branch_length := bl, clades := [] }
  | bl, .node a b _ => { name := none, branch_length := bl, clades := [pyClade labels (some a.len) a, pyClade labels (some b.len) b] }

/-! ### `pyClade` and the model's loop step -/

/-- `pyClade` does not read the clade's own length -/
theorem pyClade_setLen (labels : List Nat) (bl : Option Int) (c : Clade) (x : Int) :
    pyClade labels bl (c.setLen x) = pyClade labels bl c := by
  cases c <;> rfl

/-- assigning `branch_length` on (a copy of) the image of a clade -/
theorem pyClade_with_bl (labels : List Nat) (bl bl' : Option Int) (c : Clade) :
    { pyClade labels bl c with branch_length := bl' } = pyClade labels bl' c := by
  cases c <;> rfl

theorem toLinkRows_length (rows : List (Int × Int × Int × Int)) : (toLinkRows rows).length = rows.length := by
  unfold toLinkRows
  rw [List.length_map]

theorem toLinkRows_getElem (rows : List (Int × Int × Int × Int)) (i : Nat) (h : i < rows.length) :
    (toLinkRows rows)[i]'(by rw [toLinkRows_length]; exact h) = ⟨rows[i].1.toNat, rows[i].2.1.toNat, rows[i].2.2.1⟩ := by
  unfold toLinkRows
  rw [List.getElem_map]

/-- the image of the model's clade list after one more row -/
theorem map_cladeStep (labels : List Nat) (n : Nat) (link : List LinkRow) (cl : List Clade) (row : LinkRow) :
    (cladeStep n link cl row).map (pyClade labels none) = cl.map (pyClade labels none) ++
      [({ name := none, branch_length := none,
          clades := [{ pyClade labels none (cl.getD row.left (.leaf 0 0)) with
                        branch_length := some (row.height - nodeHeight n link row.left) },
                     { pyClade labels none (cl.getD row.right (.leaf 0 0)) with
                        branch_length := some (row.height - nodeHeight n link row.right) }] } : Py.Clade)] := by
  unfold cladeStep
  simp only [List.map_append, List.map_cons, List.map_nil, pyClade, Clade.setLen_len, pyClade_setLen, pyClade_with_bl]

/-- the image of the model's initial clade list: one leaf per label -/
theorem map_leaves_take (labels : List Nat) (i : Nat) (hi : i ≤ labels.length) :
    ((List.range i).map (fun j => Clade.leaf j 0)).map (pyClade labels none)
      = (labels.take i).map (fun x => ({ name := some x, branch_length := none, clades := [] } : Py.Clade)) := by
  apply List.ext_getElem
  · simp only [List.length_map, List.length_range, List.length_take]
    omega
  · intro j h1 h2
    have hj : j < i := by simpa using h1
    have hj' : j < labels.length := by omega
    simp only [List.getElem_map, List.getElem_range, List.getElem_take, pyClade, List.getD_eq_getElem?_getD,
      List.getElem?_eq_getElem hj', Option.getD_some]

/-! ### the two loops -/

/-- after `i` labels: one leaf clade per label seen -/
def LeafInv (n : Nat) (rows : List (Int × Int × Int × Int)) (labels : List Nat) (i : Nat) (s : linkage_to_bio_tree.St) : Prop :=
  s.link = rows ∧ s.nleaves = (n : Int) ∧
    s.clades = (labels.take i).map (fun x => ({ name := some x, branch_length := none, clades := [] } : Py.Clade))

/-- after `i` rows: the image of the model's clade list after `i` rows -/
def RowInv (n : Nat) (rows : List (Int × Int × Int × Int)) (labels : List Nat) (i : Nat) (s : linkage_to_bio_tree.St) : Prop :=
  s.link = rows ∧ s.nleaves = (n : Int) ∧
    s.clades = (buildPrefix n (toLinkRows rows) ((toLinkRows rows).take i)).map (pyClade labels none)

/-- The translated function returns the image of the model tree whenever there are `rows + 1` labels, the child indices are
non-negative and both children of row `r` exist already (`< n + r`). -/
theorem linkage_to_bio_tree_gen (n : Nat) (rows : List (Int × Int × Int × Int)) (labels : List Nat)
    (hnn : ∀ x ∈ rows, 0 ≤ x.1 ∧ 0 ≤ x.2.1) (hn : n = rows.length + 1) (hl : labels.length = n)
    (hidx : ∀ r (h : r < rows.length), rows[r].1.toNat < n + r ∧ rows[r].2.1.toNat < n + r) :
    ∃ t, linkageToTree n (toLinkRows rows) = some t ∧ Gen.linkage_to_bio_tree rows labels = .ok (pyClade labels none t) := by
  have hn1 : 1 ≤ n := by omega
  have hlen : (buildClades n (toLinkRows rows)).length = n + (toLinkRows rows).length := by
    rw [buildClades_eq, buildPrefix_length]
  refine ⟨_, linkageToTree_eq n _ hn1 hlen, ?_⟩
  have hnI : (rows.length : Int) + 1 = (n : Int) := by omega
  have hg : decide ((labels.length : Int) = (n : Int)) = true := by
    simp only [decide_eq_true_eq]; omega
  unfold Gen.linkage_to_bio_tree linkage_to_bio_tree.run
  simp only [hnI, hg, Bool.not_true, Py.guard_false, bind, Except.bind, pure, Except.pure]
  -- first loop
  generalize hw : Py.forEach _ _ _ = w
  obtain ⟨s1, rfl, hP1⟩ := forEach_inv_eq hw (LeafInv n rows labels)
    (by
      rintro i hi ⟨link, labels', clades, nleaves, nnodes, name, left_i, right_i, height, size, left, right⟩ ⟨h1, h2, h3⟩ r hr
      dsimp only at h1 h2 h3
      have h1 := h1.symm
      subst h1 h2 h3
      clear hw
      subst hr
      refine ⟨_, rfl, rfl, rfl, ?_⟩
      dsimp only
      rw [List.take_succ_eq_append_getElem hi, List.map_append]
      rfl)
    ⟨rfl, rfl, rfl⟩
  clear hw
  obtain ⟨h1, h2, h3⟩ := hP1
  rw [← map_leaves_take labels labels.length (Nat.le_refl _), hl] at h3
  simp only [h1]
  -- second loop
  generalize hw : Py.forEach _ _ _ = w
  obtain ⟨s2, rfl, hP2⟩ := forEach_inv_eq hw (RowInv n rows labels)
    (by
      rintro i hi ⟨link, labels', clades, nleaves, nnodes, name, left_i, right_i, height, size, left, right⟩ ⟨h1, h2, h3⟩ r hr
      dsimp only at h1 h2 h3
      have h1 := h1.symm
      subst h1 h2 h3
      clear hw
      have hi' : i < (toLinkRows rows).length := by rw [toLinkRows_length]; exact hi
      have hx := hnn rows[i] (List.getElem_mem _)
      have hix := hidx i hi
      have hcl : (buildPrefix n (toLinkRows rows) ((toLinkRows rows).take i)).length = n + i := by
        rw [buildPrefix_length, List.length_take, toLinkRows_length]; omega
      have e1 := getItem?_map_nonneg (pyClade labels none) (buildPrefix n (toLinkRows rows) ((toLinkRows rows).take i))
        (.leaf 0 0) rows[i].1 hx.1 (by rw [hcl]; exact hix.1)
      have e2 := getItem?_map_nonneg (pyClade labels none) (buildPrefix n (toLinkRows rows) ((toLinkRows rows).take i))
        (.leaf 0 0) rows[i].2.1 hx.2 (by rw [hcl]; exact hix.2)
      have g1 := height_guard n i rows (Nat.le_of_lt hi) rows[i].1 hx.1 hix.1
      have g2 := height_guard n i rows (Nat.le_of_lt hi) rows[i].2.1 hx.2 hix.2
      have hh1 := height_lookup n rows (fun x => ⟨x.1.toNat, x.2.1.toNat, x.2.2.1⟩) (fun _ => rfl) rows[i].1 hx.1
      have hh2 := height_lookup n rows (fun x => ⟨x.1.toNat, x.2.1.toNat, x.2.2.1⟩) (fun _ => rfl) rows[i].2.1 hx.2
      subst hr
      simp only [e1, e2, g1, g2, hh1, hh2, Option.isNone_some, Py.guard_false, Option.getD_some]
      refine ⟨_, rfl, rfl, rfl, ?_⟩
      dsimp only
      rw [List.take_succ_eq_append_getElem hi', buildPrefix_snoc, map_cladeStep, toLinkRows_getElem rows i hi]
      rfl)
    ⟨h1, h2, h3⟩
  clear hw
  obtain ⟨h1, h2, h3⟩ := hP2
  rw [← toLinkRows_length rows, List.take_length, ← buildClades_eq] at h3
  have hlast : (buildClades n (toLinkRows rows)).getLast?
      = some ((buildClades n (toLinkRows rows)).getD (n + (toLinkRows rows).length - 1) (.leaf 0 0)) :=
    linkageToTree_eq n _ hn1 hlen
  simp only [h3, getItem?_neg_one, List.getLast?_map, hlast, Option.map_some, Option.isNone_some, Py.guard_false,
    Option.getD_some, throw, throwThe, MonadExceptOf.throw, Py.finish_ret]

/-- what `ValidLinkage` gives for the hypotheses of `linkage_to_bio_tree_gen` -/
theorem valid_idx (n : Nat) (rows : List (Int × Int × Int × Int)) (h : ValidLinkage n (toLinkRows rows) = true) :
    n = rows.length + 1 ∧ ∀ r (h : r < rows.length), rows[r].1.toNat < n + r ∧ rows[r].2.1.toNat < n + r := by
  obtain ⟨h1, h2, h3, -⟩ := ValidLinkage.spec h
  rw [toLinkRows_length] at h2
  refine ⟨by omega, ?_⟩
  intro r hr
  have := h3 r _ (List.getElem?_eq_getElem (by rw [toLinkRows_length]; exact hr))
  rw [toLinkRows_getElem rows r hr] at this
  exact ⟨this.left_lt, this.right_lt⟩

/-- the translated function on a valid linkage returns the Biopython image of the model tree -/
theorem linkage_to_bio_tree_eq (n : Nat) (rows : List (Int × Int × Int × Int)) (labels : List Nat)
    (hnn : ∀ x ∈ rows, 0 ≤ x.1 ∧ 0 ≤ x.2.1) (h : ValidLinkage n (toLinkRows rows) = true) (hl : labels.length = n) :
    ∃ t, linkageToTree n (toLinkRows rows) = some t ∧ Gen.linkage_to_bio_tree rows labels = .ok (pyClade labels none t) := by
  obtain ⟨hn, hidx⟩ := valid_idx n rows h
  exact linkage_to_bio_tree_gen n rows labels hnn hn hl hidx

/-- wrong number of labels: the assertion fails (no tree is returned) -/
theorem linkage_to_bio_tree_bad_labels (rows : List (Int × Int × Int × Int)) (labels : List Nat)
    (hl : labels.length ≠ rows.length + 1) : Gen.linkage_to_bio_tree rows labels = .raised .AssertionError := by
  have hg : decide ((labels.length : Int) = (rows.length : Int) + 1) = false := by
    simp only [decide_eq_false_iff_not]; omega
  unfold Gen.linkage_to_bio_tree linkage_to_bio_tree.run
  simp only [hg, Bool.not_false, Py.guard_true, bind, Except.bind, Py.finish_exc]

/-- property-level corollary: the returned tree is the image of a model tree whose leaves are exactly the labels' positions,
whose branch lengths are non-negative and which is ultrametric at the last merge height -/
theorem py_linkage_tree_props (n : Nat) (rows : List (Int × Int × Int × Int)) (labels : List Nat)
    (hnn : ∀ x ∈ rows, 0 ≤ x.1 ∧ 0 ≤ x.2.1) (h : ValidLinkage n (toLinkRows rows) = true) (hl : labels.length = n) :
    ∃ t, Gen.linkage_to_bio_tree rows labels = .ok (pyClade labels none t) ∧ t.leaves.Perm (List.range n) ∧ t.nonneg = true ∧
      (∀ p ∈ t.depths, p.2 = (((toLinkRows rows).getLast?.map (·.height)).getD 0)) ∧
      (t.leaves.map (fun l => labels.getD l 0)).Perm labels := by
  obtain ⟨t, ht, hpy⟩ := linkage_to_bio_tree_eq n rows labels hnn h hl
  have hperm := C17.leaves_perm' h t ht
  refine ⟨t, hpy, hperm, C17.branch_nonneg' h t ht, C17.ultrametric' h t ht, ?_⟩
  have := hperm.map (fun l => labels.getD l 0)
  rw [← hl, map_getD_range] at this
  exact this

/-! ### non-vacuity -/

-- the hypotheses hold for four observations merged as (2,3), (0,1), (4,5)
example : ValidLinkage 4 (toLinkRows [(2, 3, 25, 2), (0, 1, 50, 2), (4, 5, 75, 4)]) = true
    ∧ (∀ x ∈ [((2 : Int), (3 : Int), (25 : Int), (2 : Int)), (0, 1, 50, 2), (4, 5, 75, 4)], 0 ≤ x.1 ∧ 0 ≤ x.2.1)
    ∧ [10, 11, 12, 13].length = 4 := by decide

-- the model tree of that linkage and its image
example : linkageToTree 4 (toLinkRows [(2, 3, 25, 2), (0, 1, 50, 2), (4, 5, 75, 4)])
    = some (.node (.node (.leaf 2 25) (.leaf 3 25) 50) (.node (.leaf 0 50) (.leaf 1 50) 25) 0) := by decide

example : (Gen.linkage_to_bio_tree [(2, 3, 25, 2), (0, 1, 50, 2), (4, 5, 75, 4)] [10, 11, 12, 13]
    = .ok (pyClade [10, 11, 12, 13] none (.node (.node (.leaf 2 25) (.leaf 3 25) 50) (.node (.leaf 0 50) (.leaf 1 50) 25) 0))) := by
  obtain ⟨t, ht, hpy⟩ := linkage_to_bio_tree_eq 4 [(2, 3, 25, 2), (0, 1, 50, 2), (4, 5, 75, 4)] [10, 11, 12, 13]
    (by decide) (by decide) rfl
  have : linkageToTree 4 (toLinkRows [(2, 3, 25, 2), (0, 1, 50, 2), (4, 5, 75, 4)])
      = some (.node (.node (.leaf 2 25) (.leaf 3 25) 50) (.node (.leaf 0 50) (.leaf 1 50) 25) 0) := by decide
  rw [this] at ht
  cases ht
  exact hpy

-- a single observation: no rows, the tree is the leaf carrying the label
example : Gen.linkage_to_bio_tree [] [7] = .ok { name := some 7, branch_length := none, clades := [] } := rfl

-- one label too many: the assertion fails; `linkage_to_bio_tree_bad_labels` applies
example : Gen.linkage_to_bio_tree [(1, 0, 3, 2)] [8, 9, 10] = .raised .AssertionError :=
  linkage_to_bio_tree_bad_labels _ _ (by decide)

-- the general form applies where `ValidLinkage` does not hold (a height inversion: row 1 is lower than its child, row 0)
example : ValidLinkage 3 (toLinkRows [(0, 1, 20, 2), (3, 2, 10, 3)]) = false := by decide
example : ∃ t, linkageToTree 3 (toLinkRows [(0, 1, 20, 2), (3, 2, 10, 3)]) = some t
    ∧ Gen.linkage_to_bio_tree [(0, 1, 20, 2), (3, 2, 10, 3)] [5, 6, 7] = .ok (pyClade [5, 6, 7] none t) :=
  linkage_to_bio_tree_gen 3 _ _ (by decide) rfl rfl (by decide)

end GambitV.Tie.Py
