import GambitV.Gen.PyMatching
import GambitV.Lemmas.PyRt
import GambitV.Lemmas.TiePyClassify

/-!
Tie: the generated (state-passing) translation of `matching_taxon` (classify.py) equals the
hand-written model `matchingTaxon`.  Core Lean only.
-/
namespace GambitV.Tie.Py
open GambitV GambitV.Py

/-- body of the `for t in taxon.ancestors(incself=True)` loop of the generated `matching_taxon` -/
def matchingBody (F : Forest) (x : Nat) (s : Gen.matching_taxon.St) :
    M Gen.matching_taxon.St Gen.matching_taxon.Ret Gen.matching_taxon.St :=
  if F.covers x s.d then .error (.ret (some x)) else .ok { s with t := x }

/-- The loop returns the first covering member of the list, or falls through without touching `d`. -/
theorem forEach_matchingBody (F : Forest) (xs : List Nat) (s : Gen.matching_taxon.St) :
    (∃ a, xs.find? (fun a => F.covers a s.d) = some a ∧
        forEach xs (matchingBody F) s = .error (.ret (some a))) ∨
    (xs.find? (fun a => F.covers a s.d) = none ∧
        ∃ s', forEach xs (matchingBody F) s = .ok (s', true)) := by
  induction xs generalizing s with
  | nil => exact .inr ⟨rfl, s, rfl⟩
  | cons x xs ih =>
    rw [forEach_cons, List.find?_cons]
    by_cases hc : F.covers x s.d
    · refine .inl ⟨x, ?_, ?_⟩
      · simp only [hc]
      · simp only [matchingBody, hc, if_true]
    · have hb : matchingBody F x s = .ok { s with t := x } := by
        simp only [matchingBody, hc, if_false, Bool.false_eq_true]
      rw [hb]
      simp only [hc]
      exact ih { s with t := x }

theorem matching_taxon_eq (F : Forest) (t d : Nat) :
    Gen.matching_taxon F t d = .ok (matchingTaxon F t d) := by
  unfold Gen.matching_taxon Gen.matching_taxon.run matchingTaxon
  rw [forEach_congr (b₂ := matchingBody F)]
  case h =>
    intro x s
    simp only [covers_eq, matchingBody]
    cases F.covers x s.d <;> rfl
  rcases forEach_matchingBody F (F.lineage t) { taxon := t, d := d, t := 0 } with
    ⟨a, hf, hr⟩ | ⟨hf, s', hr⟩
  · simp only [bind, Except.bind, hr, finish_ret, hf]
  · simp only [bind, Except.bind, hr, hf]
    rfl

/-! non-vacuity: the generated function evaluated on a concrete forest -/

/-- `0 ← 1 ← 3`, `0 ← 2`, `4` isolated; node 3 has no threshold -/
def demoForest : Forest :=
  { parent := [none, some 0, some 0, some 1, none], thr := [some 5, some 3, some 3, none, some 2],
    report := [true, true, true, true, true] }

example : Gen.matching_taxon demoForest 3 3 = .ok (some 1) := by decide
example : Gen.matching_taxon demoForest 3 4 = .ok (some 0) := by decide
example : Gen.matching_taxon demoForest 4 3 = .ok none := by decide

end GambitV.Tie.Py
