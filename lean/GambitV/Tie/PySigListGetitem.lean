import GambitV.Gen.PySigListGetitem
import GambitV.Tie.PyGetitem
import GambitV.Tie.PySigList

/-!
Tie of the machine-translated `AdvancedIndexingMixin.__getitem__` instantiated for the list-backed collection (`SignatureList`),
`GambitV.Gen.siglist_getitem`, and of the helper methods it calls (`SignatureList._getitem_int_array`, the mixin's `_getitem_slice` /
`_getitem_bool_array` defaults: `GambitV.Gen.siglist_getitem_int_array` / `_slice` / `_bool_array`), to the model `getItemList` of
`Model/Indexing.lean` — what a plain list selects — composed with `classify` (`Tie.PyGetitem`).  The collection is passed as the list
of its signatures (`lV sigs`).

The dispatch is the same source as for the packed collection; the generated body is evaluated once per kind of index exactly as in
`Tie.PyGetitem` (same loop rule `TieGet.forEach_check`, same NumPy steps `TieGet.finalInts`).  The last theorem puts the two ties
together: for every index expression both representations select the same signatures or raise the same error.  Core Lean only.
-/
namespace GambitV.Tie.Py
open GambitV GambitV.Py GambitV.Gen GambitV.TieConcat GambitV.TieGet

/-- the list-backed collection as the translated methods receive it -/
def lV (sigs : List (List Nat)) : List (List Int) := sigs.map (fun g => g.map (fun (x : Nat) => (x : Int)))

theorem lV_eq (sigs : List (List Nat)) : lV sigs = sigsZ sigs := rfl

theorem lV_length (sigs : List (List Nat)) : (lV sigs).length = sigs.length := by
  unfold lV; rw [List.length_map]

theorem lV_toNat (xs : List (List Nat)) : (lV xs).map (fun g => g.map Int.toNat) = xs := by
  unfold lV
  rw [List.map_map]
  conv => rhs; rw [← List.map_id xs]
  apply List.map_congr_left
  intro g _
  exact toNat_natCast_map g

theorem getItem?_lV (sigs : List (List Nat)) (j : Nat) (hj : j < sigs.length) :
    Py.getItem? (lV sigs) (j : Int) = some ((sigs.getD j []).map (fun (x : Nat) => (x : Int))) := by
  rw [getItem?_nat]
  unfold lV
  rw [List.getElem?_map, List.getD_eq_getElem?_getD, List.getElem?_eq_getElem hj]
  rfl

set_option linter.unusedSimpArgs false

/-! ### the helper methods of the list-backed collection -/

/-- one iteration of `[self._list[i] for i in indices]` -/
def liStep (sigs : List (List Nat)) (s : Gen.siglist_getitem_int_array.St) (x : Int) : Gen.siglist_getitem_int_array.St :=
  { s with i := x, tmp__L1 := s.tmp__L1 ++ [(sigs.getD x.toNat []).map (fun (v : Nat) => (v : Int))] }

theorem foldl_liStep (sigs : List (List Nat)) (js : List Nat) (s : Gen.siglist_getitem_int_array.St) :
    ((js.map (fun (j : Nat) => (j : Int))).foldl (liStep sigs) s).tmp__L1 = s.tmp__L1 ++ lV (js.map (fun j => sigs.getD j [])) := by
  induction js generalizing s with
  | nil => exact (List.append_nil _).symm
  | cons j js ih =>
    rw [List.map_cons, List.foldl_cons, ih]
    simp only [liStep, Int.toNat_natCast, List.append_assoc, List.singleton_append, List.map_cons, lV]

/-- `_getitem_int_array` on non-negative in-range indices: the selected signatures -/
theorem siglist_getitem_int_array_eq (sigs : List (List Nat)) (js : List Nat) (h : ∀ j ∈ js, j < sigs.length) :
    Gen.siglist_getitem_int_array (lV sigs) (js.map (fun (j : Nat) => (j : Int))) = .ok (lV (js.map (fun j => sigs.getD j []))) := by
  unfold Gen.siglist_getitem_int_array Gen.siglist_getitem_int_array.run
  simp only [bind, Except.bind]
  generalize hw : Py.forEach _ _ _ = w
  have hfold := forEach_fold_of hw (fun s => s.self__list = lV sigs)
    (fun x => ∃ j : Nat, x = (j : Int) ∧ j < sigs.length) (liStep sigs)
    (by
      rintro x ⟨sl, ind, ret, tmp, i0⟩ ⟨j, rfl, hj⟩ hP
      dsimp only at hP
      subst hP
      refine ⟨?_, rfl⟩
      simp only [getItem?_lV sigs j hj, Option.isNone_some, guard_false, Option.getD_some, pure, Except.pure, liStep,
        Int.toNat_natCast])
    (by
      intro x hx
      obtain ⟨j, hj, rfl⟩ := List.mem_map.1 hx
      exact ⟨j, rfl, h j hj⟩)
    rfl
  subst hfold
  simp only [throw, throwThe, MonadExceptOf.throw, finish_ret, foldl_liStep, List.nil_append]

/-- the mixin's `_getitem_slice` on the list-backed collection: `_getitem_int_array` on the positions of the slice -/
theorem siglist_getitem_slice_eq (sigs : List (List Nat)) (a b c : Option Int) (hc : c ≠ some 0) :
    Gen.siglist_getitem_slice (lV sigs) (a, b, c) = .ok (lV ((slicePos sigs.length a b c).map (fun j => sigs.getD j []))) := by
  unfold Gen.siglist_getitem_slice Gen.siglist_getitem_slice.run
  simp only [step_beq_false c hc, guard_false, lV_length, Int.toNat_natCast, ← slicePos_cast sigs.length a b c hc,
    siglist_getitem_int_array_eq sigs _ (slicePos_lt sigs.length a b c hc), call_ok, bind, Except.bind, throw, throwThe,
    MonadExceptOf.throw, finish_ret]

/-- what the model selects for a slice with a non-zero step -/
theorem getItemList_slice (sigs : List (List Nat)) (a b c : Option Int) (hc : c ≠ some 0) :
    getItemList sigs (.slice a b c) = .ok (.many ((slicePos sigs.length a b c).map (fun j => sigs.getD j []))) := by
  rcases hp : sliceIndices sigs.length a b c with ⟨s, e, st⟩
  have hn := normIndices_slice sigs.length a b c hc
  rw [hp] at hn
  simp only [getItemList, if_neg hc, hp, hn]
  rfl

/-- the mixin's `_getitem_bool_array` on the list-backed collection -/
theorem siglist_getitem_bool_array_eq (sigs : List (List Nat)) (m : List Bool) (hm : m.length = sigs.length) :
    Gen.siglist_getitem_bool_array (lV sigs) m = .ok (lV ((flatnonzero m).map (fun j => sigs.getD j []))) := by
  have h : ∀ j ∈ flatnonzero m, j < sigs.length := fun j hj => hm ▸ flatnonzero_lt m j hj
  unfold Gen.siglist_getitem_bool_array Gen.siglist_getitem_bool_array.run
  simp only [siglist_getitem_int_array_eq sigs (flatnonzero m) h, call_ok, bind, Except.bind, throw, throwThe,
    MonadExceptOf.throw, finish_ret]

/-! ### the dispatch, one kind of index at a time -/

theorem getitemL_int (sigs : List (List Nat)) (i : Int) :
    Gen.siglist_getitem (lV sigs) (.int i) = (match checkIndex sigs.length i with
      | .ok j => .ok (.one ((sigs.getD j []).map (fun (v : Nat) => (v : Int))))
      | .error _ => .raised .IndexError) := by
  unfold Gen.siglist_getitem Gen.siglist_getitem.run
  simp only [isInt_int, getInt_int, if_true, Bool.not_true, guard_false, lV_length, check_index_eq, bind, Except.bind]
  cases hc : checkIndex sigs.length i with
  | error e => simp only [call_raised, finish_exc]
  | ok j =>
    have hj := C20.checkIndex_lt hc
    have hcj : checkIndex sigs.length (j : Int) = .ok j := by
      rw [checkIndex_in_range sigs.length (j : Int) (by omega) (by omega), wrapIdx_nonneg sigs.length (j : Int) (by omega),
        Int.toNat_natCast]
    simp only [call_ok, lV_eq, siglist_getitem_int_eq, hcj, throw, throwThe, MonadExceptOf.throw, finish_ret]

theorem getitemL_slice_gen (L : List (List Int)) (a b c : Option (Option Int)) :
    Gen.siglist_getitem L (.slice a b c) =
      if (a == some none || b == some none || c == some none) then .raised .TypeError
      else if c == some (some 0) then .raised .ValueError
      else match Gen.siglist_getitem_slice L (IdxVal.fieldInt? a, IdxVal.fieldInt? b, IdxVal.fieldInt? c) with
        | .ok r => .ok (.many r)
        | .raised e => .raised e
        | .fuelOut => .fuelOut := by
  have key : ∀ c : Option (Option Int), (c == some (some 0)) = true ∨ (c == some (some 0)) = false := fun c => by
    cases (c == some (some 0)) <;> simp
  unfold Gen.siglist_getitem Gen.siglist_getitem.run
  simp only [isInt_slice, isSlice_slice, sliceFields_slice, Bool.false_eq_true, if_false, if_true]
  rcases key c with hz | hz <;>
  rcases a with _ | _ | a <;> rcases b with _ | _ | b <;> rcases c with _ | _ | c <;>
    simp only [forEach_cons, forEach_nil, Option.isSome, IdxVal.fieldIsInt, Bool.not_true, Bool.not_false, Bool.and_true, Bool.and_false,
      Bool.false_eq_true, if_false, if_true,
      bind, Except.bind, pure, Except.pure, throw, throwThe, MonadExceptOf.throw, finish_exc,
      IdxVal.stepIsZero, IdxVal.sliceHasOther, IdxVal.sliceTuple, IdxVal.fieldInt?, guard_false, hz,
      Option.some_beq_some, Option.none_beq_some, Option.some_beq_none, Option.none_beq_none, BEq.rfl,
      Bool.or_true, Bool.or_false, Bool.true_or, reduceCtorEq] at hz ⊢
  all_goals
    generalize siglist_getitem_slice L _ = w
    cases w <;> simp only [call_ok, call_raised, call_fuelOut, finish_ret, finish_exc, finish_fuel]

/-- evaluation of the generated body (as `gi_simp` of `Tie.PyGetitem`, with the length of the list for `len(self)`) -/
local macro "gl_simp" "[" ts:Lean.Parser.Tactic.simpLemma,* "]" : tactic =>
  `(tactic| (
    try simp only [decide_eq_true_eq, Bool.and_eq_true, Bool.or_eq_true, Bool.not_eq_true', beq_iff_eq]
    simp only [isInt_nd, isSlice_nd, isNd_nd, ndim_nd, kind_nd, ints_nd, bools_nd, isInt_sized, isSlice_sized, isNd_sized,
      len?_sized, isSpecial_sized, asarrayFails_some, asarrayFails_none, asarray_some, tryExcept_ok, tryExcept_other,
      isInt_unsized, isSlice_unsized, isNd_unsized, len?_unsized,
      isNd_astypeIntp, isNd_addWhere, lV_length,
      Option.isNone_some, Option.isNone_none, Option.getD_some,
      Bool.false_eq_true, Bool.true_eq_false, eq_self, ne_eq, if_false, if_true, Bool.not_true, Bool.not_false, guard_false, guard_true,
      decide_eq_true_eq, Bool.and_eq_true, Bool.or_eq_true, Bool.not_eq_true', beq_iff_eq, not_false_eq_true, not_true_eq_false,
      bind, Except.bind, pure, Except.pure, throw, throwThe, MonadExceptOf.throw, finish_exc, finish_ret, finish_fuel,
      call_ok, call_raised, call_fuelOut, $ts,*]))

theorem getitemL_arr_ndim (L : List (List Int)) (idx : IdxVal) (a : NdArr) (h : IsArr idx a) (hnd : a.ndim ≠ 1) :
    Gen.siglist_getitem L idx = .raised .IndexError := by
  have h1 : (a.ndim : Int) ≠ 1 := by omega
  rcases h with rfl | ⟨n, sp, rfl, hne⟩
  all_goals
    unfold Gen.siglist_getitem Gen.siglist_getitem.run
    first | gl_simp [h1, hne] | gl_simp [h1]

theorem getitemL_arr_kind (L : List (List Int)) (idx : IdxVal) (a : NdArr) (h : IsArr idx a) (hnd : a.ndim = 1)
    (hb : a.kind ≠ 'b') (hi : a.kind ≠ 'i') (hu : a.kind ≠ 'u') :
    Gen.siglist_getitem L idx = .raised .IndexError := by
  have h1 : (a.ndim : Int) = 1 := by omega
  rcases h with rfl | ⟨n, sp, rfl, hne⟩
  all_goals
    unfold Gen.siglist_getitem Gen.siglist_getitem.run
    first | gl_simp [h1, hb, hi, hu, or_self, hne] | gl_simp [h1, hb, hi, hu, or_self]

theorem getitemL_arr_bool_len (sigs : List (List Nat)) (idx : IdxVal) (a : NdArr) (h : IsArr idx a) (hnd : a.ndim = 1)
    (hk : a.kind = 'b') (hl : a.len0 ≠ sigs.length) :
    Gen.siglist_getitem (lV sigs) idx = .raised .IndexError := by
  have h1 : (a.ndim : Int) = 1 := by omega
  have h2 : (a.len0 : Int) ≠ (sigs.length : Int) := by omega
  rcases h with rfl | ⟨n, sp, rfl, hne⟩
  all_goals
    unfold Gen.siglist_getitem Gen.siglist_getitem.run
    first | gl_simp [h1, hk, len?_nd a hnd, h2, hne] | gl_simp [h1, hk, len?_nd a hnd, h2]

theorem getitemL_arr_bool (sigs : List (List Nat)) (idx : IdxVal) (a : NdArr) (h : IsArr idx a) (hnd : a.ndim = 1)
    (hk : a.kind = 'b') (hl : a.len0 = sigs.length) (r : List (List Int))
    (hr : Gen.siglist_getitem_bool_array (lV sigs) a.bools = .ok r) :
    Gen.siglist_getitem (lV sigs) idx = .ok (.many r) := by
  have h1 : (a.ndim : Int) = 1 := by omega
  have h2 : (a.len0 : Int) = (sigs.length : Int) := by omega
  rcases h with rfl | ⟨n, sp, rfl, hne⟩
  all_goals
    unfold Gen.siglist_getitem Gen.siglist_getitem.run
    first | gl_simp [h1, hk, len?_nd a hnd, h2, hr, hne] | gl_simp [h1, hk, len?_nd a hnd, h2, hr]

/-- the invariant of the checking loop `for i in index: self._check_index(i)` -/
def LoopInvL (sigs : List (List Nat)) (a : NdArr) (s : Gen.siglist_getitem.St) : Prop :=
  s.self__list = lV sigs ∧ s.index = .nd a

/-- one iteration of the checking loop -/
theorem check_bodyL (sigs : List (List Nat)) (a : NdArr) (x : Int) (s : Gen.siglist_getitem.St) (hs : LoopInvL sigs a s) :
    Except.bind (call (check_index (↑s.self__list.length) x) : M Gen.siglist_getitem.St Gen.siglist_getitem.Ret Int)
        (fun _ => Except.ok
          { self__list := s.self__list, index := s.index,
            input_index := s.input_index, i_1 := s.i_1, i_2 := x, isneg := s.isneg })
      = chkOut (checkIndex sigs.length x) { s with i_2 := x } .IndexError ∧ LoopInvL sigs a { s with i_2 := x } := by
  obtain ⟨sl, ix, ii, i1, i2, ng⟩ := s
  obtain ⟨h1, h2⟩ := hs
  dsimp only at h1 h2
  subst h1 h2
  refine ⟨?_, rfl, rfl⟩
  simp only [lV_length, check_index_eq]
  cases checkIndex sigs.length x <;> simp only [call_ok, call_raised, Except.bind, chkOut_ok, chkOut_error]

theorem getitemL_arr_ints_bad (sigs : List (List Nat)) (idx : IdxVal) (a : NdArr) (h : IsArr idx a) (hnd : a.ndim = 1)
    (hb : a.kind ≠ 'b') (hiu : a.kind = 'i' ∨ a.kind = 'u') (e : IdxErr) (hn : normIndices sigs.length a.ints = .error e) :
    Gen.siglist_getitem (lV sigs) idx = .raised .IndexError := by
  have h1 : (a.ndim : Int) = 1 := by omega
  unfold normIndices at hn
  rcases h with rfl | ⟨n, sp, rfl, hne⟩
  all_goals
    unfold Gen.siglist_getitem Gen.siglist_getitem.run
    first | gl_simp [h1, hb, hiu, hne] | gl_simp [h1, hb, hiu]
    generalize hw : Py.forEach _ _ _ = w
    obtain ⟨-, rfl⟩ := forEach_check hw (LoopInvL sigs a) (checkIndex sigs.length) (fun s x => { s with i_2 := x }) .IndexError
      (fun x s hs => check_bodyL sigs a x s hs) ⟨rfl, rfl⟩
    simp only [hn, chkOut_error, finish_exc]

theorem getitemL_arr_ints (sigs : List (List Nat)) (idx : IdxVal) (a : NdArr) (h : IsArr idx a) (hnd : a.ndim = 1)
    (hb : a.kind ≠ 'b') (hiu : a.kind = 'i' ∨ a.kind = 'u') (js : List Nat) (hn : normIndices sigs.length a.ints = .ok js)
    (r : List (List Int)) (hr : Gen.siglist_getitem_int_array (lV sigs) (finalInts sigs.length a) = .ok r) :
    Gen.siglist_getitem (lV sigs) idx = .ok (.many r) := by
  have h1 : (a.ndim : Int) = 1 := by omega
  unfold normIndices at hn
  unfold finalInts at hr
  rcases h with rfl | ⟨n, sp, rfl, hne⟩
  all_goals
    unfold Gen.siglist_getitem Gen.siglist_getitem.run
    first | gl_simp [h1, hb, hiu, hne] | gl_simp [h1, hb, hiu]
    generalize hw : Py.forEach _ _ _ = w
    obtain ⟨hP, rfl⟩ := forEach_check hw (LoopInvL sigs a) (checkIndex sigs.length) (fun s x => { s with i_2 := x }) .IndexError
      (fun x s hs => check_bodyL sigs a x s hs) ⟨rfl, rfl⟩
    clear hw
    generalize List.foldl _ _ _ = s1 at hP ⊢
    obtain ⟨sl, ix, ii, i1, i2, ng⟩ := s1
    obtain ⟨q1, q2⟩ := hP
    dsimp only at q1 q2
    subst q1 q2
    by_cases hu : a.kind = 'u'
    · rw [if_pos hu] at hr
      by_cases hneg : (IdxVal.ltZero (IdxVal.astypeIntp (.nd a))).any id = true
      · rw [if_pos hneg] at hr
        gl_simp [hn, chkOut_ok, hu, hneg, hr]
      · rw [if_neg hneg] at hr
        gl_simp [hn, chkOut_ok, hu, hneg, hr]
    · simp only [if_neg hu] at hr
      by_cases hneg : (IdxVal.ltZero (.nd a)).any id = true
      · rw [if_pos hneg] at hr
        gl_simp [hn, chkOut_ok, hu, hneg, hr]
      · rw [if_neg hneg, ints_nd] at hr
        gl_simp [hn, chkOut_ok, hu, hneg, hr]

theorem getitemL_sized_empty (sigs : List (List Nat)) (asarr : Option NdArr) (r : List (List Int))
    (hr : Gen.siglist_getitem_int_array (lV sigs) [] = .ok r) :
    Gen.siglist_getitem (lV sigs) (.sized 0 false asarr) = .ok (.many r) := by
  unfold Gen.siglist_getitem Gen.siglist_getitem.run
  gl_simp [isNd_emptyInt, ndim_emptyInt, kind_emptyInt_b, kind_emptyInt_u, kind_emptyInt_i, true_or, or_false, ints_emptyInt,
    ltZero_emptyInt, forEach_nil, List.any_nil, Int.natCast_zero, and_self, hr]

theorem getitemL_sized_none (L : List (List Int)) (n : Nat) (sp : Bool) (hne : ¬ (((n : Nat) : Int) = 0 ∧ sp = false)) :
    Gen.siglist_getitem L (.sized n sp none) = .raised .IndexError := by
  unfold Gen.siglist_getitem Gen.siglist_getitem.run
  gl_simp [hne]

theorem getitemL_unsized (L : List (List Int)) : Gen.siglist_getitem L .unsized = .raised .TypeError := by
  unfold Gen.siglist_getitem Gen.siglist_getitem.run
  gl_simp []

/-! ### the dispatch against the model -/

/-- the shape of the stated conclusion, for one outcome of the model -/
def AgreesL (sigs : List (List Nat)) (idx : IdxVal) (m : Except IdxErr (Sel (List Nat))) : Prop :=
  match m with
  | .ok (.one x) => Gen.siglist_getitem (lV sigs) idx = .ok (.one (x.map (fun (v : Nat) => (v : Int))))
  | .ok (.many xs) => Gen.siglist_getitem (lV sigs) idx = .ok (.many (lV xs))
  | .error e => Gen.siglist_getitem (lV sigs) idx = .raised (excOf e)

/-- an array (given as such or made by `np.asarray`) against the model on `classifyNd` -/
theorem getitemL_arr_eq (sigs : List (List Nat)) (idx : IdxVal) (a : NdArr) (h : IsArr idx a) (hwf : ndWF a)
    (hlen : sigs.length < 2 ^ 63) : AgreesL sigs idx (getItemList sigs (classifyNd a)) := by
  unfold classifyNd
  by_cases hnd : a.ndim ≠ 1
  · rw [if_pos hnd]
    exact getitemL_arr_ndim _ idx a h hnd
  · rw [if_neg hnd]
    have hnd' : a.ndim = 1 := by omega
    by_cases hk : a.kind = 'b'
    · rw [if_pos hk]
      have hl0 := hwf hnd' hk
      by_cases hl : a.bools.length ≠ sigs.length
      · have hm : getItemList sigs (.mask a.bools) = .error .indexError := by
          simp only [getItemList, if_pos hl]
        rw [hm]
        exact getitemL_arr_bool_len sigs idx a h hnd' hk (by omega)
      · have hm : getItemList sigs (.mask a.bools) = .ok (.many ((flatnonzero a.bools).map (fun j => sigs.getD j []))) := by
          simp only [getItemList, if_neg hl]
          rfl
        rw [hm]
        exact getitemL_arr_bool sigs idx a h hnd' hk (by omega) _ (siglist_getitem_bool_array_eq sigs a.bools (by omega))
    · rw [if_neg hk]
      by_cases hiu : a.kind = 'i' ∨ a.kind = 'u'
      · rw [if_pos hiu]
        cases hn : normIndices sigs.length a.ints with
        | error e =>
          have he := normIndices_error_kind _ _ e hn
          subst he
          have hm : getItemList sigs (.ints a.ints) = .error .indexError := by
            simp only [getItemList, hn, bind, Except.bind]
          rw [hm]
          exact getitemL_arr_ints_bad sigs idx a h hnd' hk hiu _ hn
        | ok js =>
          have hm : getItemList sigs (.ints a.ints) = .ok (.many (js.map (fun j => sigs.getD j []))) := by
            simp only [getItemList, hn, bind, Except.bind, pure, Except.pure]
            rfl
          rw [hm]
          have hr := siglist_getitem_int_array_eq sigs js (normIndices_lt _ _ js hn)
          rw [← finalInts_eq sigs.length a hlen js hn] at hr
          exact getitemL_arr_ints sigs idx a h hnd' hk hiu js hn _ hr
      · rw [if_neg hiu]
        exact getitemL_arr_kind _ idx a h hnd' hk (fun hi => hiu (Or.inl hi)) (fun hu => hiu (Or.inr hu))

theorem siglist_getitem_agrees (sigs : List (List Nat)) (idx : Py.IdxVal) (hwf : idxWF idx) (hlen : sigs.length < 2 ^ 63) :
    AgreesL sigs idx (getItemList sigs (classify idx)) := by
  cases idx with
  | int i =>
    have hg := getitemL_int sigs i
    cases hc : checkIndex sigs.length i with
    | error e =>
      have he := (C20.checkIndex_error _ _ e hc).1
      subst he
      have hm : getItemList sigs (classify (.int i)) = .error .indexError := by
        simp only [classify, getItemList, hc, bind, Except.bind]
      rw [hm]
      rw [hc] at hg
      exact hg
    | ok j =>
      have hm : getItemList sigs (classify (.int i)) = .ok (.one (sigs.getD j [])) := by
        simp only [classify, getItemList, hc, bind, Except.bind, pure, Except.pure]
        rfl
      rw [hm]
      rw [hc] at hg
      exact hg
  | slice a b c =>
    have hg := getitemL_slice_gen (lV sigs) a b c
    simp only [classify]
    by_cases hbad : (a == some none || b == some none || c == some none) = true
    · rw [if_pos hbad] at hg ⊢
      exact hg
    · rw [if_neg hbad] at hg ⊢
      by_cases hz : (c == some (some 0)) = true
      · rw [if_pos hz] at hg
        have hc0 : IdxVal.fieldInt? c = some 0 := by
          have : c = some (some 0) := by simpa using hz
          rw [this]; rfl
        have hm : getItemList sigs (.slice (IdxVal.fieldInt? a) (IdxVal.fieldInt? b) (IdxVal.fieldInt? c))
            = .error .valueError := by
          simp only [getItemList, hc0, if_true]
        rw [hm]
        exact hg
      · rw [if_neg hz] at hg
        have hc0 : IdxVal.fieldInt? c ≠ some 0 := by
          intro h0
          apply hz
          rcases c with _ | _ | c
          · cases h0
          · cases h0
          · have : c = 0 := by simpa [IdxVal.fieldInt?] using h0
            subst this
            rfl
        rw [getItemList_slice sigs _ _ _ hc0]
        rw [siglist_getitem_slice_eq sigs _ _ _ hc0] at hg
        exact hg
  | nd a => exact getitemL_arr_eq sigs (.nd a) a (Or.inl rfl) hwf hlen
  | sized n sp asarr =>
    simp only [classify]
    by_cases he : n = 0 ∧ sp = false
    · rw [if_pos he]
      obtain ⟨rfl, rfl⟩ := he
      have hm : getItemList sigs (.ints []) = .ok (.many []) := rfl
      rw [hm]
      exact getitemL_sized_empty sigs asarr _ (siglist_getitem_int_array_eq sigs [] (fun j hj => by cases hj))
    · rw [if_neg he]
      have he' : ¬ (((n : Nat) : Int) = 0 ∧ sp = false) := fun h => he ⟨by omega, h.2⟩
      cases asarr with
      | none => exact getitemL_sized_none _ n sp he'
      | some a => exact getitemL_arr_eq sigs _ a (Or.inr ⟨n, sp, rfl, he'⟩) hwf hlen
  | unsized => exact getitemL_unsized _

/-- the dispatch of `__getitem__`, as the source has it now, on a list-backed collection = the model (what a plain list selects) on
the classified index -/
theorem siglist_getitem_eq (sigs : List (List Nat)) (idx : Py.IdxVal) (hwf : idxWF idx) (hlen : sigs.length < 2 ^ 63) :
    match getItemList sigs (classify idx) with
    | .ok (.one x) => Gen.siglist_getitem (lV sigs) idx = .ok (.one (x.map (fun (v : Nat) => (v : Int))))
    | .ok (.many xs) => Gen.siglist_getitem (lV sigs) idx = .ok (.many (lV xs))
    | .error e => Gen.siglist_getitem (lV sigs) idx = .raised (excOf e) :=
  siglist_getitem_agrees sigs idx hwf hlen

/-- both representations select the same signatures, or raise the same error, for every index expression (C20: "index like a list",
on the code as it is now) -/
def selOfPyL : Py.LSel → Sel (List Nat)
  | .one x => .one (x.map Int.toNat)
  | .many xs => .many (xs.map (fun g => g.map Int.toNat))

theorem py_getitem_same_selection (sigs : List (List Nat)) (idx : Py.IdxVal) (hwf : idxWF idx) (hlen : sigs.length < 2 ^ 63) :
    (∃ r l, Gen.concat_getitem (cV sigs) (cB sigs) idx = .ok r ∧ Gen.siglist_getitem (lV sigs) idx = .ok l ∧ selOfPy r = selOfPyL l)
    ∨ (∃ e, Gen.concat_getitem (cV sigs) (cB sigs) idx = .raised e ∧ Gen.siglist_getitem (lV sigs) idx = .raised e) := by
  have hc := py_getitem_refines_list sigs idx hwf hlen
  have hl := siglist_getitem_agrees sigs idx hwf hlen
  cases hg : getItemList sigs (classify idx) with
  | error e =>
    rw [hg] at hc hl
    exact Or.inr ⟨excOf e, hc, hl⟩
  | ok sel =>
    rw [hg] at hc hl
    obtain ⟨r, hr, hs⟩ := hc
    left
    cases sel with
    | one x =>
      refine ⟨r, _, hr, hl, ?_⟩
      rw [hs]
      show Sel.one x = Sel.one _
      rw [toNat_natCast_map]
    | many xs =>
      refine ⟨r, _, hr, hl, ?_⟩
      rw [hs]
      show Sel.many xs = Sel.many _
      rw [lV_toNat]

/-! ### non-vacuity: the generated dispatch on the list `[[1, 2], [], [7, 8, 9]]` -/

-- the helper methods
example : Gen.siglist_getitem_int_array (lV [[1, 2], [], [7, 8, 9]]) [2, 0, 2] = .ok [[7, 8, 9], [1, 2], [7, 8, 9]]
    ∧ Gen.siglist_getitem_int_array (lV [[1, 2], [], [7, 8, 9]]) [3] = .raised .IndexError
    ∧ Gen.siglist_getitem_slice (lV [[1, 2], [], [7, 8, 9]]) (some 2, none, some (-2)) = .ok [[7, 8, 9], [1, 2]]
    ∧ Gen.siglist_getitem_bool_array (lV [[1, 2], [], [7, 8, 9]]) [false, true, true] = .ok [[], [7, 8, 9]] := by decide
-- an integer index `-1`, the slice `::-1`, a zero step, a field that is not an integer
example : Gen.siglist_getitem (lV [[1, 2], [], [7, 8, 9]]) (.int (-1)) = .ok (.one [7, 8, 9])
    ∧ Gen.siglist_getitem (lV [[1, 2], [], [7, 8, 9]]) (.int 3) = .raised .IndexError
    ∧ Gen.siglist_getitem (lV [[1, 2], [], [7, 8, 9]]) (.slice none none (some (some (-1)))) = .ok (.many [[7, 8, 9], [], [1, 2]])
    ∧ Gen.siglist_getitem (lV [[1, 2], [], [7, 8, 9]]) (.slice none none (some (some 0))) = .raised .ValueError
    ∧ Gen.siglist_getitem (lV [[1, 2], [], [7, 8, 9]]) (.slice (some none) none none) = .raised .TypeError := by decide
-- an unsigned array `[2, 0]`, a signed one with negative entries, an unsigned entry 2^64 - 1
example : Gen.siglist_getitem (lV [[1, 2], [], [7, 8, 9]]) (.nd { ndim := 1, kind := 'u', len0 := 2, ints := [2, 0], bools := [] })
      = .ok (.many [[7, 8, 9], [1, 2]])
    ∧ Gen.siglist_getitem (lV [[1, 2], [], [7, 8, 9]]) (.nd { ndim := 1, kind := 'i', len0 := 3, ints := [-1, -3, 1], bools := [] })
      = .ok (.many [[7, 8, 9], [1, 2], []])
    ∧ Gen.siglist_getitem (lV [[1, 2], [], [7, 8, 9]])
      (.nd { ndim := 1, kind := 'u', len0 := 1, ints := [18446744073709551615], bools := [] }) = .raised .IndexError := by decide
-- Boolean masks of the right and of the wrong length, a float array, a float, the empty list
example : Gen.siglist_getitem (lV [[1, 2], [], [7, 8, 9]])
      (.nd { ndim := 1, kind := 'b', len0 := 3, ints := [], bools := [true, false, true] }) = .ok (.many [[1, 2], [7, 8, 9]])
    ∧ Gen.siglist_getitem (lV [[1, 2], [], [7, 8, 9]])
      (.nd { ndim := 1, kind := 'b', len0 := 2, ints := [], bools := [true, false] }) = .raised .IndexError
    ∧ Gen.siglist_getitem (lV [[1, 2], [], [7, 8, 9]])
      (.nd { ndim := 1, kind := 'f', len0 := 1, ints := [], bools := [] }) = .raised .IndexError
    ∧ Gen.siglist_getitem (lV [[1, 2], [], [7, 8, 9]]) .unsized = .raised .TypeError
    ∧ Gen.siglist_getitem (lV [[1, 2], [], [7, 8, 9]]) (.sized 0 false none) = .ok (.many []) := by decide
-- the two representations on the same index: the same signatures
example : selOfPy (.many { values := [7, 8, 9, 1, 2], bounds := [0, 3, 5] }) = selOfPyL (.many [[7, 8, 9], [1, 2]]) := by decide

end GambitV.Tie.Py
