import GambitV.Gen.PyNext
import GambitV.Lemmas.PyRt
import GambitV.Lemmas.TiePyClassify

/-!
Tie: the generated (state-passing) translation of `GenomeMatch.next_taxon` (classify.py) equals the
hand-written model `nextTaxon`, for a well-formed, non-empty forest.  Core Lean only.

The statement needs `0 < F.size` (implied by `G.getD g 0 < F.size`): in the empty forest the
model's lineage is `[]` (fuel `F.size = 0`) while the generated walk starts at `some t` and runs
out of its fuel `F.size + 1 = 1`; see the counterexamples at the end of the file.
-/
namespace GambitV.Tie.Py
open GambitV GambitV.Py

abbrev NSt := Gen.next_taxon.St
abbrev NM := M Gen.next_taxon.St Gen.next_taxon.Ret

/-- `while hi is not None and hi.distance_threshold is None` -/
def condSkip (F : Forest) (s : NSt) : NM Bool :=
  .ok (s.hi.isSome && (F.thrOf (s.hi.getD 0)).isNone)

/-- `hi = hi.parent` -/
def bodySkip (F : Forest) (s : NSt) : NM NSt :=
  .ok { s with hi := F.parentOf (s.hi.getD 0) }

/-- `while hi is not None` -/
def condOuter (s : NSt) : NM Bool := .ok s.hi.isSome

/-- body of the outer loop: return `lo` if `hi` covers the distance, else step and skip -/
def bodyOuter (F : Forest) (s : NSt) : NM NSt :=
  if F.covers (s.hi.getD 0) s.self_distance then .error (.ret s.lo)
  else whileLoop (F.size + 1) (condSkip F) (bodySkip F)
    { s with lo := s.hi, hi := F.parentOf (s.hi.getD 0) }

/-- The skipping loop moves `hi` to the first threshold-bearing node of the remaining chain. -/
theorem skip_spec {F : Forest} (hF : ForestWF F) (hpos : 0 < F.size) (g d : Nat) (lo : Option Nat)
    (n : Nat) (h : Option Nat) (hn : (F.chain h).length ≤ n) :
    ∃ h', whileLoop (n + 1) (condSkip F) (bodySkip F) ⟨g, d, lo, h⟩ = .ok ⟨g, d, lo, h'⟩ ∧
      F.chain h' = (F.chain h).dropWhile (fun a => !(F.thrOf a).isSome) ∧
      (∀ x, h' = some x → (F.thrOf x).isSome = true) := by
  induction n generalizing h with
  | zero =>
    cases h with
    | none => exact ⟨none, rfl, rfl, fun x hx => by cases hx⟩
    | some x => rw [chain_some hF hpos] at hn; simp at hn
  | succ n ih =>
    cases h with
    | none => exact ⟨none, rfl, rfl, fun x hx => by cases hx⟩
    | some x =>
      rw [chain_some hF hpos] at hn ⊢
      rw [whileLoop_succ, List.dropWhile_cons]
      cases hx : F.thrOf x with
      | some th =>
        refine ⟨some x, ?_, ?_, ?_⟩
        · simp only [condSkip, Option.isSome_some, Option.getD_some, hx, Option.isNone_some,
            Bool.and_false]
        · simp only [Option.isSome_some, Bool.not_true, Bool.false_eq_true, if_false]
          exact chain_some hF hpos x
        · intro y hy
          cases hy
          rw [hx]; rfl
      | none =>
        obtain ⟨h', hw, hc, hs⟩ := ih (F.parentOf x) (by simpa using hn)
        refine ⟨h', ?_, ?_, hs⟩
        · simp only [condSkip, bodySkip, Option.isSome_some, Option.getD_some, hx,
            Option.isNone_none, Bool.and_true]
          exact hw
        · simp only [Option.isSome_none, Bool.not_false, if_true]
          exact hc

/-- The outer loop, started with `hi` on a threshold-bearing node (or `None`), computes `nextWalk`
over the threshold-bearing part of the remaining chain: it either returns it or ends with it in `lo`. -/
theorem outer_spec {F : Forest} (hF : ForestWF F) (hpos : 0 < F.size) (g d : Nat)
    (n : Nat) (lo h : Option Nat) (hn : (F.chain h).length ≤ n)
    (hthr : ∀ x, h = some x → (F.thrOf x).isSome = true) :
    whileLoop (n + 1) condOuter (bodyOuter F) ⟨g, d, lo, h⟩
        = .error (.ret (nextWalk F d ((F.chain h).filter (fun a => (F.thrOf a).isSome)) lo)) ∨
    ∃ h', whileLoop (n + 1) condOuter (bodyOuter F) ⟨g, d, lo, h⟩
        = .ok ⟨g, d, nextWalk F d ((F.chain h).filter (fun a => (F.thrOf a).isSome)) lo, h'⟩ := by
  induction n generalizing lo h with
  | zero =>
    cases h with
    | none => exact .inr ⟨none, rfl⟩
    | some x => rw [chain_some hF hpos] at hn; simp at hn
  | succ n ih =>
    cases h with
    | none => exact .inr ⟨none, rfl⟩
    | some x =>
      have hx := hthr x rfl
      rw [chain_some hF hpos] at hn ⊢
      rw [whileLoop_succ, List.filter_cons_of_pos (p := fun a => (F.thrOf a).isSome) hx]
      simp only [nextWalk, condOuter, bodyOuter, Option.isSome_some, Option.getD_some]
      cases hc : F.covers x d with
      | true => exact .inl rfl
      | false =>
        simp only [Bool.false_eq_true, if_false]
        obtain ⟨h', hw, hch, hs⟩ :=
          skip_spec hF hpos g d (some x) F.size (F.parentOf x) (length_chain_le F _)
        rw [hw]
        have hlen : (F.chain h').length ≤ n := by
          rw [hch]
          exact Nat.le_trans (List.dropWhile_sublist _).length_le (by simpa using hn)
        have hfil : (F.chain h').filter (fun a => (F.thrOf a).isSome)
            = (F.chain (F.parentOf x)).filter (fun a => (F.thrOf a).isSome) := by
          rw [hch]; exact filter_dropWhile_not _ _
        rw [← hfil]
        exact ih (some x) h' hlen hs

/-- The tie, for a well-formed non-empty forest. -/
theorem next_taxon_eq' (F : Forest) (hF : ForestWF F) (hpos : 0 < F.size) (G : List Nat) (g d : Nat) :
    Gen.next_taxon F G g d = .ok (nextTaxon F (G.getD g 0) d) := by
  unfold Gen.next_taxon Gen.next_taxon.run nextTaxon
  simp only [bind, Except.bind]
  -- first loop: skip to the first threshold-bearing node
  obtain ⟨h₁, hw₁, hch₁, hs₁⟩ :=
    skip_spec hF hpos g d none F.size (some (G.getD g 0)) (length_chain_le F _)
  rw [whileLoop_congr (c₂ := condSkip F) (b₂ := bodySkip F)]
  case hc => intro s; rfl
  case hb => intro s; rfl
  rw [hw₁]
  simp only []
  -- second loop
  rw [whileLoop_congr (c₂ := condOuter) (b₂ := bodyOuter F)]
  case hc => intro s; rfl
  case hb =>
    intro s
    simp only [covers_eq, bodyOuter]
    cases F.covers (s.hi.getD 0) s.self_distance <;> rfl
  have hfil : (F.chain h₁).filter (fun a => (F.thrOf a).isSome)
      = (F.lineage (G.getD g 0)).filter (fun a => (F.thrOf a).isSome) := by
    rw [hch₁]; exact filter_dropWhile_not _ _
  rw [← hfil]
  rcases outer_spec hF hpos g d F.size none h₁ (length_chain_le F _) hs₁ with hr | ⟨h', hr⟩
  · rw [hr]; rfl
  · rw [hr]; rfl

/-- The tie as it is used: the genome's taxon is a node of the forest. -/
theorem next_taxon_eq (F : Forest) (hF : ForestWF F) (G : List Nat) (g d : Nat)
    (hg : G.getD g 0 < F.size) :
    Gen.next_taxon F G g d = .ok (nextTaxon F (G.getD g 0) d) :=
  next_taxon_eq' F hF (Nat.lt_of_le_of_lt (Nat.zero_le _) hg) G g d

/-! non-vacuity: the generated function evaluated on a concrete forest -/

/-- `0 ← 1 ← 3`, `0 ← 2`, `4` isolated; node 3 has no threshold -/
def demoForestN : Forest :=
  { parent := [none, some 0, some 0, some 1, none], thr := [some 5, some 3, some 3, none, some 2],
    report := [true, true, true, true, true] }

example : ForestWF demoForestN := by
  intro t p h
  match t, h with
  | 0, h => cases h
  | 1, h => cases h; decide
  | 2, h => cases h; decide
  | 3, h => cases h; decide
  | 4, h => cases h
  | t + 5, h => cases h

example : Gen.next_taxon demoForestN [3, 2, 4] 0 4 = .ok (some 1) := by decide
example : Gen.next_taxon demoForestN [3, 2, 4] 0 2 = .ok none := by decide
example : Gen.next_taxon demoForestN [3, 2, 4] 0 9 = .ok (some 0) := by decide
example : Gen.next_taxon demoForestN [3, 2, 4] 2 3 = .ok (some 4) := by decide

/-! The hypothesis `0 < F.size` cannot be dropped: in the empty forest (which is vacuously
well-formed) the generated walk starts at `some t` and runs out of its fuel `F.size + 1 = 1`, while
the model's lineage (fuel `F.size = 0`) is empty. -/

example : ForestWF { parent := [], thr := [], report := [] } := by
  intro t p h; cases t <;> cases h

example : Gen.next_taxon { parent := [], thr := [], report := [] } [] 0 1 = .fuelOut := by decide
example : nextTaxon { parent := [], thr := [], report := [] } 0 1 = none := by decide
example : Gen.next_taxon { parent := [], thr := [some 5], report := [] } [] 0 9 = .fuelOut := by
  decide

end GambitV.Tie.Py
