import GambitV.Gen.PyResultItem
import GambitV.Tie.PyClassify
import GambitV.Tie.PyReportable
import GambitV.Tie.PyMatching
import GambitV.Lemmas.TiePyResultItem

/-!
Tie of the machine-translated `get_result_item` (`GambitV.Gen.get_result_item`, from gambit/query.py) to the
hand-written models: the classifier result is that of `classifyDefault` / `classifyStrict` (through the tie of
`classify`), the reported taxon is `reportable` of the prediction, and the closest-genomes list is
`closestList ds N` (`np.argsort(dists, kind='stable')[:N]`) with one `GenomeMatch` (`gmOf`) per index.

The loop that builds the list is shown to be a left fold with the clean step `riStep`
(`TieRI.forEach_fold_of`, with the invariant "`dists` is unchanged" and the side condition "the index is a
natural number `< ds.length`", which holds for every entry of the argsort), and `foldl_riStep` evaluates that
fold.  Only `get_result_item_of_classify` depends on the shape of the generated term.  Core Lean only.
-/
set_option linter.unusedSimpArgs false
namespace GambitV.Tie.Py
open GambitV GambitV.Py GambitV.TieTop GambitV.TieRI

/-- one iteration of `for i in closest_indices: closest.append(GenomeMatch(...))` -/
def riStep (F : Forest) (gtax ds : List Nat) (s : Gen.get_result_item.St) (x : Int) : Gen.get_result_item.St :=
  { s with i := x, closest := s.closest ++ [gmOf F gtax ds x.toNat] }

/-- the loop appends one entry per index and leaves `clsresult`, `input` alone -/
theorem foldl_riStep (F : Forest) (gtax ds : List Nat) (L : List Nat) (s : Gen.get_result_item.St) :
    let s' := (L.map (fun (i : Nat) => (i : Int))).foldl (riStep F gtax ds) s
    s'.closest = s.closest ++ L.map (gmOf F gtax ds) ∧ s'.clsresult = s.clsresult ∧ s'.input = s.input := by
  induction L generalizing s with
  | nil => exact ⟨(List.append_nil _).symm, rfl, rfl⟩
  | cons i L ih =>
    obtain ⟨h1, h2, h3⟩ := ih (riStep F gtax ds s (i : Int))
    refine ⟨?_, h2, h3⟩
    rw [List.map_cons, List.foldl_cons, h1]
    simp only [riStep, Int.toNat_natCast, List.append_assoc, List.singleton_append, List.map_cons]

/-- `get_result_item`, given the outcome of the call to `classify` -/
theorem get_result_item_of_classify (F : Forest) (gtax ds : List Nat) (h : ds.length = gtax.length)
    (strict : Bool) (cs : Option Int) (N : Nat) (inp : Int) (cr : Py.ClassifierResult)
    (hcls : Gen.classify F gtax (List.range gtax.length) ds strict = .ok cr) :
    Gen.get_result_item F gtax () { classify_strict := strict, chunksize := cs, report_closest := (N : Int) } ds inp
      = .ok { input := inp, classifier_result := cr, report_taxon := reportable F cr.predicted_taxon,
              closest_genomes := (closestList ds N).map (gmOf F gtax ds) } := by
  unfold Gen.get_result_item Gen.get_result_item.run
  simp only [hcls, call_ok, bind, Except.bind, slice_none_natCast, ← List.map_take]
  generalize hw : Py.forEach _ _ _ = w
  have hfold := forEach_fold_of hw (fun s => s.dists = ds) (fun x => ∃ i : Nat, x = (i : Int) ∧ i < ds.length)
    (riStep F gtax ds)
    (by
      rintro x ⟨db, params, dists, input, closest, cls, i0⟩ ⟨i, rfl, hi⟩ hP
      dsimp only at hP
      subst hP
      have hi' : i < gtax.length := h ▸ hi
      refine ⟨?_, rfl⟩
      simp only [getItem?_range hi', getItem?_getD dists hi, Option.isNone_some, Option.getD_some, guard_false,
        matching_taxon_eq, call_ok, bind, Except.bind, pure, Except.pure, riStep, gmOf, Int.toNat_natCast])
    (by
      intro x hx
      obtain ⟨i, hi, rfl⟩ := List.mem_map.1 hx
      exact ⟨i, rfl, closestList_lt ds N hi⟩)
    rfl
  obtain ⟨h1, h2, h3⟩ := foldl_riStep F gtax ds ((stableArgsort ds).take N)
    { db := (), params := { classify_strict := strict, chunksize := cs, report_closest := (N : Int) }, dists := ds,
      input := inp, closest := [], clsresult := cr, i := (0 : Int) }
  dsimp only at h1 h2 h3
  subst hfold
  simp only [h1, h2, h3, reportable_taxon_eq, call_ok, throw, throwThe, MonadExceptOf.throw, finish_ret,
    List.nil_append, closestList]

theorem classify_eq (F : Forest) (hF : ForestWF F) (gtax ds : List Nat) (h : ds.length = gtax.length) (hne : ds ≠ [])
    (hT : ∀ t ∈ gtax, t < F.size) (strict : Bool) :
    Gen.classify F gtax (List.range gtax.length) ds strict
      = .ok (resOf F gtax ds (if strict then classifyStrict F gtax ds else classifyDefault F gtax ds)) := by
  cases strict
  · exact classify_default_eq F gtax ds h hne
  · exact classify_strict_eq F hF gtax ds h hne hT

/-- `get_result_item`: the classifier result is that of `classify`, the reported taxon is the first reportable taxon at or above the
prediction, and the closest-genomes list is the `(distance, reference order)`-sorted prefix of length `N`, each entry with its own
distance and the taxon matched by that genome alone. -/
theorem get_result_item_eq (F : Forest) (hF : ForestWF F) (gtax ds : List Nat) (h : ds.length = gtax.length) (hne : ds ≠ [])
    (hT : ∀ t ∈ gtax, t < F.size) (strict : Bool) (cs : Option Int) (N : Nat) (inp : Int) :
    Gen.get_result_item F gtax () { classify_strict := strict, chunksize := cs, report_closest := (N : Int) } ds inp
      = .ok (let m := if strict then classifyStrict F gtax ds else classifyDefault F gtax ds
             { input := inp, classifier_result := resOf F gtax ds m, report_taxon := reportable F m.predicted,
               closest_genomes := (closestList ds N).map (gmOf F gtax ds) }) :=
  get_result_item_of_classify F gtax ds h strict cs N inp _ (classify_eq F hF gtax ds h hne hT strict)

/-- consequence used by C09: the list is non-empty for N ≥ 1 and its head is the closest match of the classifier result -/
theorem get_result_item_head (F : Forest) (hF : ForestWF F) (gtax ds : List Nat) (h : ds.length = gtax.length) (hne : ds ≠ [])
    (hT : ∀ t ∈ gtax, t < F.size) (strict : Bool) (cs : Option Int) (N : Nat) (hN : 1 ≤ N) (inp : Int) :
    ∃ r, Gen.get_result_item F gtax () { classify_strict := strict, chunksize := cs, report_closest := (N : Int) } ds inp = .ok r
      ∧ r.closest_genomes.head? = some r.classifier_result.closest_match := by
  refine ⟨_, get_result_item_eq F hF gtax ds h hne hT strict cs N inp, ?_⟩
  have hc : (if strict then classifyStrict F gtax ds else classifyDefault F gtax ds).closest = argminFirst ds := by
    cases strict
    · exact classifyDefault_closest F gtax ds
    · exact classifyStrict_closest F gtax ds
  show ((closestList ds N).map (gmOf F gtax ds)).head? = some (gmOf F gtax ds _)
  rw [List.head?_map, C09.closest_head_eq_argmin ds N hne hN, hc]
  rfl

/-! non-vacuity: the generated function and the model on a concrete forest (`demoForest`: `0 ← 1 ← 3`, `0 ← 2`,
`4` isolated; thresholds 5, 3, 3, –, 2), a distance row with a tie between genomes 1 and 2, `N = 2` -/

example : Gen.get_result_item demoForest [3, 2, 3] () { classify_strict := true, chunksize := none, report_closest := 2 }
      [2, 1, 1] 7 =
    .ok { input := 7,
          classifier_result :=
            { success := true, predicted_taxon := some 0,
              primary_match := some { genome := 2, distance := 1, matched_taxon := some 1 },
              closest_match := { genome := 1, distance := 1, matched_taxon := some 2 },
              warnings := ["Query matched ", "Primary genome match is not closest match."], error := none },
          report_taxon := some 0,
          closest_genomes := [{ genome := 1, distance := 1, matched_taxon := some 2 },
                              { genome := 2, distance := 1, matched_taxon := some 1 }] } := by decide

example : (closestList [2, 1, 1] 2).map (gmOf demoForest [3, 2, 3] [2, 1, 1]) =
      [{ genome := 1, distance := 1, matched_taxon := some 2 }, { genome := 2, distance := 1, matched_taxon := some 1 }]
    ∧ resOf demoForest [3, 2, 3] [2, 1, 1] (classifyStrict demoForest [3, 2, 3] [2, 1, 1]) =
      { success := true, predicted_taxon := some 0,
        primary_match := some { genome := 2, distance := 1, matched_taxon := some 1 },
        closest_match := { genome := 1, distance := 1, matched_taxon := some 2 },
        warnings := ["Query matched ", "Primary genome match is not closest match."], error := none }
    ∧ reportable demoForest (classifyStrict demoForest [3, 2, 3] [2, 1, 1]).predicted = some 0 := by decide

/-- default mode, the same row: the first of the tied genomes is both the closest match and the head of the list -/
example : Gen.get_result_item demoForest [3, 2, 3] () { classify_strict := false, chunksize := some 5, report_closest := 2 }
      [2, 1, 1] 0 =
    .ok { input := 0,
          classifier_result :=
            { success := true, predicted_taxon := some 2,
              primary_match := some { genome := 1, distance := 1, matched_taxon := some 2 },
              closest_match := { genome := 1, distance := 1, matched_taxon := some 2 },
              warnings := [], error := none },
          report_taxon := some 2,
          closest_genomes := [{ genome := 1, distance := 1, matched_taxon := some 2 },
                              { genome := 2, distance := 1, matched_taxon := some 1 }] } := by decide

/-- the hypotheses of the theorems are satisfiable (strict mode, a tie, `N = 2`) -/
private theorem demoForest_wf' : ForestWF demoForest := by
  intro t p hp
  unfold Forest.parentOf demoForest at hp
  unfold Forest.size demoForest
  match t, hp with
  | 0, hp => simp at hp
  | 1, hp => simp at hp; subst hp; exact ⟨by decide, by decide⟩
  | 2, hp => simp at hp; subst hp; exact ⟨by decide, by decide⟩
  | 3, hp => simp at hp; subst hp; exact ⟨by decide, by decide⟩
  | 4, hp => simp at hp
  | _ + 5, hp => simp at hp

example : ∃ r, Gen.get_result_item demoForest [3, 2, 3] ()
      { classify_strict := true, chunksize := none, report_closest := ((2 : Nat) : Int) } [2, 1, 1] 7 = .ok r
    ∧ r.closest_genomes.head? = some r.classifier_result.closest_match :=
  get_result_item_head demoForest demoForest_wf' [3, 2, 3] [2, 1, 1] rfl (by decide) (by decide) true none 2
    (by decide) 7

end GambitV.Tie.Py
