import GambitV.Gen.PyClassify
import GambitV.Tie.PyMatching
import GambitV.Tie.PyFindMatches
import GambitV.Tie.PyConsensus
import GambitV.Lemmas.PyRt
import GambitV.Lemmas.TiePyClassifyTop

/-!
Tie of the machine-translated `classify` (`GambitV.Gen.classify`, from gambit/classify.py) to the hand-written
models `classifyDefault` and `classifyStrict` (`Model/Taxonomy.lean`).

The three calls to translated functions are rewritten with their ties (`matching_taxon_eq`, `find_matches_eq`,
`consensus_taxon_eq`).  In strict mode the two nested `for` loops that pick the primary match are replaced
(`forEach_congr`) by the clean bodies `TieTop.outerB` / `TieTop.innerB`; `TieTop.forEach_outerB` shows that they
compute a nested left fold on `(best_i, best_d, best_taxon)`, and `TieTop.primary_spec` relates that fold to the
model's fold over the flattened candidate list (`Lemmas/TiePyClassifyTop.lean`).  Only the `simp only` calls that
run the generated term and the two `forEach_congr` steps depend on the shape of the generated term.
Core Lean only.
-/
set_option linter.unusedSimpArgs false
namespace GambitV.Tie.Py
open GambitV GambitV.Py GambitV.TieTop

/-- the `GenomeMatch` the code builds for reference genome `i` -/
def gmOf (F : Forest) (gtax ds : List Nat) (i : Nat) : Py.GenomeMatch :=
  { genome := i, distance := ds.getD i 0, matched_taxon := matchingTaxon F (gtax.getD i 0) (ds.getD i 0) }

/-- the model's result in the shape of `ClassifierResult` (messages identified by their first literal piece) -/
def resOf (F : Forest) (gtax ds : List Nat) (m : ClassifyResult) : Py.ClassifierResult :=
  { success := m.success, predicted_taxon := m.predicted,
    primary_match := m.primary.map (gmOf F gtax ds), closest_match := gmOf F gtax ds m.closest,
    warnings := (if m.warnInconsistent.isEmpty then [] else ["Query matched "])
      ++ (if m.warnNotClosest then ["Primary genome match is not closest match."] else []),
    error := if m.failed then some "Matched taxa have no common ancestor." else none }

/-- `np.argmin` of an empty array: `ValueError`, in either mode -/
theorem classify_empty (F : Forest) (gtax : List Nat) (b : Bool) :
    Gen.classify F gtax [] [] b = .raised .ValueError := rfl

/-- Default mode: the translated `classify` returns (no exception) the result of `classifyDefault`. -/
theorem classify_default_eq (F : Forest) (gtax ds : List Nat) (h : ds.length = gtax.length) (hne : ds ≠ []) :
    Gen.classify F gtax (List.range gtax.length) ds false = .ok (resOf F gtax ds (classifyDefault F gtax ds)) := by
  have hc := (argminFirst_getD_spec ds hne).1
  have hc' : argminFirst ds < gtax.length := h ▸ hc
  have he : ds.isEmpty = false := by cases ds with | nil => exact absurd rfl hne | cons _ _ => rfl
  unfold Gen.classify Gen.classify.run
  simp only [he, guard_false, getItem?_range hc', getItem?_getD ds hc, Option.isNone_some, Option.getD_some,
    matching_taxon_eq, call_ok, bind, Except.bind, pure, Except.pure, Bool.not_false, if_true,
    throw, throwThe, MonadExceptOf.throw, finish_ret]
  unfold resOf classifyDefault gmOf
  dsimp only
  cases hm : matchingTaxon F (gtax.getD (argminFirst ds) 0) (ds.getD (argminFirst ds) 0)
  · rfl
  · simp only [Option.isSome_some, if_true, Option.map_some, hm]
    rfl

/-- Strict mode, on a well-formed forest with the genome taxa in it: the translated `classify` returns (no
exception, no fuel-out) the result of `classifyStrict`. -/
theorem classify_strict_eq (F : Forest) (hF : ForestWF F) (gtax ds : List Nat) (h : ds.length = gtax.length)
    (hne : ds ≠ []) (hT : ∀ t ∈ gtax, t < F.size) :
    Gen.classify F gtax (List.range gtax.length) ds true = .ok (resOf F gtax ds (classifyStrict F gtax ds)) := by
  have hc := (argminFirst_getD_spec ds hne).1
  have hc' : argminFirst ds < gtax.length := h ▸ hc
  have he : ds.isEmpty = false := by cases ds with | nil => exact absurd rfl hne | cons _ _ => rfl
  have hlen : decide ((List.range gtax.length).length ≠ ds.length) = false := by simp [h]
  have hk1 : ∀ t ∈ (findMatches F gtax ds).map (·.1), t < F.size := by
    intro t ht
    obtain ⟨e, he, rfl⟩ := List.mem_map.1 ht
    exact findMatches_key_lt F hF gtax ds hT he
  have hk2 := findMatches_keys_nodup F gtax ds
  obtain ⟨cn, os, hcons, hc1, hc2⟩ := consensus_taxon_eq F hF ((findMatches F gtax ds).map (·.1)) hk1 hk2
  -- run the generated term up to `if not matches:`
  unfold Gen.classify Gen.classify.run
  simp only [he, guard_false, getItem?_range hc', getItem?_getD ds hc, Option.isNone_some, Option.getD_some,
    matching_taxon_eq, call_ok, bind, Except.bind, pure, Except.pure, Bool.not_true, Bool.false_eq_true, if_false,
    hlen, find_matches_eq F gtax ds h, map_castE_fst, hcons, List.isEmpty_map]
  by_cases hE : (findMatches F gtax ds).isEmpty = true
  · simp only [hE, Bool.not_true, Bool.not_false, if_true, throw, throwThe, MonadExceptOf.throw, finish_ret]
    rw [classifyStrict_empty F gtax ds hE]
    rfl
  have hE' : (findMatches F gtax ds).isEmpty = false := by simpa using hE
  simp only [hE', Bool.not_true, Bool.not_false, Bool.false_eq_true, if_false]
  rw [classifyStrict_nonempty F gtax ds hE']
  dsimp only
  rw [hc1, hc2]
  cases cn with
  | none =>
    -- no common ancestor
    simp only [Option.isNone_none, if_true, Option.isSome_none, Bool.false_and, Bool.false_eq_true, if_false,
      throw, throwThe, MonadExceptOf.throw, finish_ret, Option.map_none]
    have ho := others_of_none F gtax ds os hE' hc1 hc2
    unfold resOf
    simp only [others_facts F gtax ds os hc2, ho, Bool.not_false, if_true, Bool.false_eq_true, if_false]
    rfl
  | some c =>
    simp only [Option.isNone_some, Bool.false_eq_true, if_false]
    -- the generated loop bodies are `outerB` / `innerB`
    rw [forEach_congr (b₂ := outerB F)]
    case h =>
      intro x s
      unfold outerB
      by_cases hm : (F.lineage x.1).contains (s.consensus.getD 0) = true
      · simp only [hm, Bool.not_true, Bool.false_eq_true, if_false, if_true]
        rw [forEach_congr (b₂ := innerB)]
        case h =>
          intro i s
          unfold innerB
          cases hg : getItem? s.dists i with
          | none => rfl
          | some d =>
            simp only [Option.isNone_some, guard_false, Option.getD_some]
            cases s.best_d with
            | none => rfl
            | some b =>
              by_cases hlt : d < b <;>
                simp only [hlt, decide_true, decide_false, if_true, if_false, Bool.false_eq_true]
        cases forEach x.2 innerB _ <;> rfl
      · simp only [hm, Bool.not_false, if_true, if_false, Bool.false_eq_true, throw, throwThe, MonadExceptOf.throw]
    -- the loops compute the nested fold, which yields the model's primary index `p`
    obtain ⟨p, t, hfin, hp, hmt, hprim⟩ := primary_spec F hF gtax ds hT c hc1
    apply Exists.elim (forEach_outerB F c (findMatches F gtax ds) _ none _ _ _)
    · intro s' hs'
      obtain ⟨hl, hf, hR1, hR2, hR3⟩ := hs'
      rw [hl]
      dsimp only at hR1 hR2 hR3
      rw [hfin] at hR1 hR2 hR3
      have h1 := hf.ref_genomes
      have h2 := hf.consensus
      have h3 := hf.closest_match
      have h4 := hf.others
      dsimp only at h1 h2 h3 h4
      have hcs := (consensus_facts F hF gtax ds hT c hc1).1
      have hlast := path_getLast? F (Nat.lt_of_le_of_lt (Nat.zero_le _) hcs) c
      simp only [hR1, hR2, hR3, h1, h2, h3, h4, Option.map_some, Option.isSome_some, Bool.not_true, guard_false,
        Option.isNone_some, Option.getD_some, getItem?_range hp, Bool.false_eq_true, if_false, Bool.true_and,
        throw, throwThe, MonadExceptOf.throw]
      unfold resOf
      simp only [hprim, others_facts F gtax ds os hc2, Option.map_some, Option.bind_some, hlast,
        Option.isSome_some, Option.isNone_some]
      have hgm : gmOf F gtax ds p = { genome := p, distance := ds.getD p 0, matched_taxon := some t } := by
        unfold gmOf; rw [hmt]
      rw [hgm]
      have hbne : (p != argminFirst ds) = decide (p ≠ argminFirst ds) := by
        by_cases hpc : p = argminFirst ds <;> simp [hpc]
      rw [hbne]
      cases os.isEmpty <;>
        simp only [Bool.not_true, Bool.not_false, if_true, Bool.false_eq_true, if_false, Option.isNone_some,
          Option.isSome_some, Bool.true_and, Option.getD_some] <;>
        cases decide (p ≠ argminFirst ds) <;> rfl
    · rfl
    · intro e he i hi
      exact h ▸ (findMatches_idx F gtax ds he hi).1
    · exact ⟨rfl, rfl, rfl⟩

/-! non-vacuity: the generated function and the models evaluated on a concrete forest
(`demoForest`: `0 ← 1 ← 3`, `0 ← 2`, `4` isolated; thresholds 5, 3, 3, –, 2) -/

private theorem demoForest_wf : ForestWF demoForest := by
  intro t p hp
  unfold Forest.parentOf demoForest at hp
  unfold Forest.size demoForest
  match t, hp with
  | 0, hp => simp at hp
  | 1, hp => simp at hp; subst hp; exact ⟨by decide, by decide⟩
  | 2, hp => simp at hp; subst hp; exact ⟨by decide, by decide⟩
  | 3, hp => simp at hp; subst hp; exact ⟨by decide, by decide⟩
  | 4, hp => simp at hp
  | _ + 5, hp => simp at hp

/-- strict mode, genomes of taxa 3 and 2 matched to the sibling taxa 1 and 2: consensus 0 with the
"inconsistent taxa" warning -/
example : Gen.classify demoForest [3, 2] (List.range 2) [1, 2] true =
    .ok { success := true, predicted_taxon := some 0,
          primary_match := some { genome := 0, distance := 1, matched_taxon := some 1 },
          closest_match := { genome := 0, distance := 1, matched_taxon := some 1 },
          warnings := ["Query matched "], error := none } := by decide

example : resOf demoForest [3, 2] [1, 2] (classifyStrict demoForest [3, 2] [1, 2]) =
    { success := true, predicted_taxon := some 0,
      primary_match := some { genome := 0, distance := 1, matched_taxon := some 1 },
      closest_match := { genome := 0, distance := 1, matched_taxon := some 1 },
      warnings := ["Query matched "], error := none } := by decide

/-- strict mode, matched taxa 1 and 4 lie in different trees: "no common ancestor" -/
example : Gen.classify demoForest [3, 4] (List.range 2) [1, 2] true =
    .ok { success := false, predicted_taxon := none, primary_match := none,
          closest_match := { genome := 0, distance := 1, matched_taxon := some 1 },
          warnings := ["Query matched "], error := some "Matched taxa have no common ancestor." } := by decide

example : resOf demoForest [3, 4] [1, 2] (classifyStrict demoForest [3, 4] [1, 2]) =
    { success := false, predicted_taxon := none, primary_match := none,
      closest_match := { genome := 0, distance := 1, matched_taxon := some 1 },
      warnings := ["Query matched "], error := some "Matched taxa have no common ancestor." } := by decide

/-- strict mode, the closest genome matches nothing: the primary match is another genome -/
example : Gen.classify demoForest [4, 3] (List.range 2) [3, 4] true =
    .ok { success := true, predicted_taxon := some 0,
          primary_match := some { genome := 1, distance := 4, matched_taxon := some 0 },
          closest_match := { genome := 0, distance := 3, matched_taxon := none },
          warnings := ["Primary genome match is not closest match."], error := none } := by decide

/-- default mode, a tie in the distances: the first minimum is the closest genome -/
example : Gen.classify demoForest [3, 2, 3] (List.range 3) [2, 1, 1] false =
    .ok { success := true, predicted_taxon := some 2,
          primary_match := some { genome := 1, distance := 1, matched_taxon := some 2 },
          closest_match := { genome := 1, distance := 1, matched_taxon := some 2 },
          warnings := [], error := none } := by decide

/-- the hypotheses of the strict-mode theorem are satisfiable -/
example : Gen.classify demoForest [4, 3] (List.range 2) [3, 4] true =
    .ok (resOf demoForest [4, 3] [3, 4] (classifyStrict demoForest [4, 3] [3, 4])) :=
  classify_strict_eq demoForest demoForest_wf [4, 3] [3, 4] rfl (by decide) (by decide)

end GambitV.Tie.Py
