import GambitV.Tie.PyPropsHelpers
import GambitV.Tie.PyConsensus
import GambitV.Tie.PyClassify
import GambitV.Props.C10

/-!
Property-level statements about the definitions translated from the current Python sources (`GambitV.Gen.*`, regenerated on every run):
the tie theorems composed with the property theorems of `Props/`.  C10: strict classification, order independence.
-/
namespace GambitV.Tie.Py
open GambitV

-- C10 ------------------------------------------------------------------------------------------
/-- order independence of the translated `consensus_taxon`: permuting the matched taxa changes neither the consensus nor the set of
taxa reported as inconsistent -/
theorem py_consensus_perm (F : Forest) (hF : ForestWF F) (l₁ l₂ : List Nat) (hp : l₁.Perm l₂)
    (hT : ∀ t ∈ l₁, t < F.size) (hN : l₁.Nodup) :
    ∃ c o₁ o₂, Gen.consensus_taxon F l₁ = .ok (c, o₁) ∧ Gen.consensus_taxon F l₂ = .ok (c, o₂) ∧ (∀ x, x ∈ o₁ ↔ x ∈ o₂) := by
  have hT₂ : ∀ t ∈ l₂, t < F.size := fun t ht => hT t (hp.mem_iff.2 ht)
  have hN₂ : l₂.Nodup := hp.nodup_iff.1 hN
  obtain ⟨c₁, o₁, e₁, hc₁, ho₁⟩ := consensus_taxon_eq F hF l₁ hT hN
  obtain ⟨c₂, o₂, e₂, hc₂, ho₂⟩ := consensus_taxon_eq F hF l₂ hT₂ hN₂
  cases l₁ with
  | nil =>
    have : l₂ = [] := hp.nil_eq.symm
    subst this
    rw [e₁] at e₂
    injection e₂ with e₂
    injection e₂ with ec eo
    subst ec; subst eo
    exact ⟨c₁, o₁, o₁, e₁, e₁, fun _ => Iff.rfl⟩
  | cons a l =>
    have hpos : 0 < F.size := Nat.lt_of_le_of_lt (Nat.zero_le _) (hT a List.mem_cons_self)
    have hne : ∀ t ∈ (a :: l).map F.path, t ≠ [] := by
      intro t ht
      obtain ⟨x, hx, rfl⟩ := List.mem_map.1 ht
      exact TieCons.path_ne_nil F hF (hT x hx)
    have hpm : ((a :: l).map F.path).Perm (l₂.map F.path) := hp.map _
    have hcons := C10.consensus_perm _ _ hne hpm
    have hoth := C10.others_perm _ _ hne hpm
    rw [hc₁, hc₂] at hcons
    rw [ho₁, ho₂] at hoth
    have hc : c₁ = c₂ := by
      cases c₁ with
      | none => cases c₂ with
        | none => rfl
        | some b => cases hcons
      | some a' => cases c₂ with
        | none => cases hcons
        | some b =>
          simp only [Option.map_some, Option.some.injEq] at hcons
          rw [path_inj F hpos hcons]
    subst hc
    refine ⟨c₁, o₁, o₂, e₁, e₂, fun x => ?_⟩
    have key : ∀ (p q : List Nat), (∀ y, y ∈ p.map F.path → y ∈ q.map F.path) → x ∈ p → x ∈ q := by
      intro p q hpq hx
      obtain ⟨y, hy, e⟩ := List.mem_map.1 (hpq _ (List.mem_map_of_mem hx))
      rw [← path_inj F hpos e]; exact hy
    exact ⟨key o₁ o₂ (fun y => (hoth y).1), key o₂ o₁ (fun y => (hoth y).2)⟩

/-- the strict-mode statement (`strictOk`) holds of the translated `classify(…, strict=True)` -/
theorem py_classify_strict_ok (F : Forest) (hF : ForestWF F) (gtax ds : List Nat) (h : ds.length = gtax.length) (hne : ds ≠ [])
    (hT : ∀ t ∈ gtax, t < F.size) :
    ∃ r, Gen.classify F gtax (List.range gtax.length) ds true = .ok r
      ∧ strictOk F gtax ds r.success r.predicted_taxon (r.primary_match.map (·.genome)) r.closest_match.genome
          (classifyStrict F gtax ds).warnInconsistent r.error.isSome = true
      ∧ (r.warnings.contains "Query matched " = !(classifyStrict F gtax ds).warnInconsistent.isEmpty) := by
  refine ⟨resOf F gtax ds (classifyStrict F gtax ds), classify_strict_eq F hF gtax ds h hne hT, ?_, ?_⟩
  · have := C10.classifyStrict_ok F gtax ds hne h.symm
    simp only at this
    simp only [resOf, map_genome_gmOf]
    have he : (if (classifyStrict F gtax ds).failed = true then some "Matched taxa have no common ancestor." else none).isSome
        = (classifyStrict F gtax ds).failed := by
      cases (classifyStrict F gtax ds).failed <;> rfl
    rw [he]
    exact this
  · simp only [resOf]
    cases (classifyStrict F gtax ds).warnInconsistent.isEmpty <;>
      cases (classifyStrict F gtax ds).warnNotClosest <;> decide


/-! ### non-vacuity of `py_consensus_perm`: a permuted pair of three-taxon lists on `demoForest` -/

example : [3, 1, 2].Perm [2, 3, 1] ∧ (∀ t ∈ [3, 1, 2], t < demoForest.size) ∧ [3, 1, 2].Nodup := by decide

example : ForestWF demoForest := by
  intro t p h
  match t, h with
  | 0, h => cases h
  | 1, h => cases h; decide
  | 2, h => cases h; decide
  | 3, h => cases h; decide
  | 4, h => cases h
  | t + 5, h => cases h

-- the conclusion on that pair: same consensus, the same taxa reported (in a different order)
example : Gen.consensus_taxon demoForest [3, 1, 2] = .ok (some 0, [3, 1, 2])
    ∧ Gen.consensus_taxon demoForest [2, 3, 1] = .ok (some 0, [2, 3, 1]) := by decide

end GambitV.Tie.Py
