import GambitV.Gen.PySigArrayInit

/-!
Tie (structural facts): how the two in-memory collections are built (the packed one: bounds = running sum, signature i copied into its slice — the per-signature write path `writeSlices`, equal to `ofList` by `write_paths_agree`; the list-backed one: the list itself), as it stands in the current source.  Each fact says that one function consists of exactly the expected
statements, one class has exactly the expected shape, or one constant the expected value (harness/flow_facts.json; compared as normalised `ast`
text by harness/pytrace.py on every run); reading these as the models do is part of the trusted base (DESIGN §3).
-/
namespace GambitV.Tie.Py
open GambitV

theorem sigarray_init_facts :
    Gen.pySigArrayInit_uninit = true ∧ Gen.pySigArrayInit_initFromArrays = true ∧ Gen.pySigArrayInit_init = true ∧ Gen.pySigArrayInit_fromArrays = true ∧ Gen.pySigArrayInit_uninitialized = true ∧ Gen.pySigArrayInit_listInit = true := by decide

end GambitV.Tie.Py
