import GambitV.Gen.PySeqFiles
import GambitV.Model.SeqFiles
import GambitV.Model.Pipeline
import GambitV.Tie.PyLabels

/-!
Tie: `read_lines` (util/io.py) and `get_sequence_files` (cli/common.py) as they stand in the *current* source against the models
`readLines` / `sequenceFilesP`, and the link to the coarser `sequenceFiles` / `fileLabels` the theorems of C08 are about.
Environment of the translation: `LINES`, the lines iterating over the opened list file yields; a path is its text, `str(Path(p))`
pathlib's normal form `Py.pathStr`.
-/
namespace GambitV.Tie.Py
open GambitV

/-- a `for` loop whose body always falls through, with an invariant indexed by the items consumed so far
(used after `generalize hw : Py.forEach _ _ _ = w`, so that the generated body is picked up by unification) -/
private theorem forEach_inv {α σ ρ : Type} {xs : List α} {body : α → σ → Py.M σ ρ σ} {s : σ}
    {w : Py.M σ ρ (σ × Bool)} (hw : Py.forEach xs body s = w) (I : List α → σ → Prop)
    (hstep : ∀ pre x s, I pre s → ∃ s', body x s = .ok s' ∧ I (pre ++ [x]) s')
    (h0 : I [] s) : ∃ s', w = .ok (s', true) ∧ I xs s' := by
  subst hw
  suffices H : ∀ (xs pre : List α) (s : σ), I pre s → ∃ s', Py.forEach xs body s = .ok (s', true) ∧ I (pre ++ xs) s' by
    simpa using H xs [] s h0
  intro xs
  induction xs with
  | nil => intro pre s hI; exact ⟨s, rfl, by simpa using hI⟩
  | cons x xs ih =>
    intro pre s hI
    obtain ⟨s', hb, hI'⟩ := hstep pre x s hI
    obtain ⟨s'', hf, hI''⟩ := ih (pre ++ [x]) s' hI'
    refine ⟨s'', ?_, by simpa using hI''⟩
    rw [Py.forEach_cons, hb]
    exact hf

private theorem readLines_snoc (pre : List (List Char)) (x : List Char) (strip skip : Bool) :
    readLines (pre ++ [x]) strip skip =
      readLines pre strip skip ++
        (if !(skip && (if strip then Py.strStrip x else Py.strRstripChar '\n' x).isEmpty)
          then [if strip then Py.strStrip x else Py.strRstripChar '\n' x] else []) := by
  simp only [readLines, List.map_append, List.filter_append, List.map_cons, List.map_nil, List.filter_cons, List.filter_nil]

theorem read_lines_eq (LINES : List (List Char)) (strip skip : Bool) :
    Gen.read_lines LINES () strip skip = .ok (readLines LINES strip skip) := by
  unfold Gen.read_lines Gen.read_lines.run
  simp only [bind, Except.bind, pure, Except.pure]
  generalize hw : Py.forEach _ _ _ = w
  obtain ⟨s', rfl, hI⟩ := forEach_inv hw
    (fun pre s => s.yielded = readLines pre strip skip ∧ s.strip = strip ∧ s.skip_empty = skip)
    (by
      intro pre x s ⟨hy, hs, hk⟩
      simp only [hs, hk]
      rw [readLines_snoc]
      generalize (if strip = true then Py.strStrip x else Py.strRstripChar '\n' x) = ln
      cases skip <;> cases hE : ln.isEmpty <;> simp [hy])
    ⟨rfl, rfl, rfl⟩
  simp [Py.finish, hI.1]

private theorem get_file_id_fileId (p : List Char) (sd se : Bool) : Gen.get_file_id p sd se = .ok (fileId sd se p) := by
  cases sd with
  | false => simp [get_file_id_nostrip, fileId]
  | true =>
    cases se with
    | false => simp [get_file_id_noext, fileId]
    | true => simp [get_file_id_eq, fileId, fileLabel]

/-- the loop of `get_sequence_files` that computes the ids -/
private theorem ids_loop {xs : List (List Char)} {body : List Char → Gen.get_sequence_files.St → Py.M Gen.get_sequence_files.St Gen.get_sequence_files.Ret Gen.get_sequence_files.St}
    {s : Gen.get_sequence_files.St} {w} (hw : Py.forEach xs body s = w) (sd se : Bool)
    (hbody : ∀ x s, body x s = Except.bind (Py.call (Gen.get_file_id x s.strip_dir s.strip_ext))
        (fun v => .ok { s with f := x, ids := s.ids ++ [v] }))
    (hsd : s.strip_dir = sd) (hse : s.strip_ext = se) (hids : s.ids = []) :
    ∃ s', w = .ok (s', true) ∧ s'.ids = xs.map (fileId sd se) ∧ s'.files = s.files := by
  obtain ⟨s', hw', h1, _, _, h4⟩ := forEach_inv hw
    (fun pre s' => s'.ids = pre.map (fileId sd se) ∧ s'.strip_dir = sd ∧ s'.strip_ext = se ∧ s'.files = s.files)
    (by
      intro pre x s' ⟨h1, h2, h3, h4⟩
      rw [hbody, get_file_id_fileId]
      simp only [Py.call_ok, Except.bind]
      exact ⟨_, rfl, by simp [h1, h2, h3], h2, h3, h4⟩)
    ⟨by simp [hids], hsd, hse, rfl⟩
  exact ⟨s', hw', h1, h4⟩

/-- the translated `get_sequence_files` is `sequenceFilesP` (a `TypeError` when a list file is given without a base directory and has lines) -/
theorem get_sequence_files_eq (LINES : List (List Char)) (explicit : Option (List (List Char))) (listfile : Option Unit)
    (ldir : Option (List Char)) (sd se : Bool) :
    Gen.get_sequence_files LINES explicit listfile ldir sd se =
      match sequenceFilesP LINES explicit listfile.isSome ldir sd se with
      | .ok r => .ok r
      | .error _ => .raised .TypeError := by
  unfold Gen.get_sequence_files Gen.get_sequence_files.run sequenceFilesP
  cases hex : (!(explicit.getD []).isEmpty) with
  | true =>
    simp only [if_true, bind, Except.bind, pure, Except.pure]
    generalize hw : Py.forEach _ _ _ = w
    obtain ⟨s', rfl, hi, hf⟩ := ids_loop hw sd se (fun _ _ => rfl) rfl rfl rfl
    simp [Py.finish, throw, throwThe, MonadExceptOf.throw, hi, hf]
  | false =>
    cases listfile with
    | none =>
      simp [Py.finish, bind, Except.bind, throw, throwThe, MonadExceptOf.throw]
    | some u =>
      cases u
      simp only [Bool.false_eq_true, if_false, Option.isSome_some, if_true, Option.isNone_some, Py.guard_false, Option.getD_some,
        read_lines_eq, Py.call_ok, bind, Except.bind, pure, Except.pure]
      cases ldir with
      | some d =>
        generalize hw : Py.forEach _ _ _ = w
        obtain ⟨s', rfl, hp, hd, hln, hsd, hse⟩ := forEach_inv hw
          (fun pre s => s.paths = pre.map (fun l => Py.pathJoin (Py.pathStr d) l) ∧ s.listfile_dir = some d
            ∧ s.lines = readLines LINES true true ∧ s.strip_dir = sd ∧ s.strip_ext = se)
          (by
            intro pre x s ⟨h1, h2, h3, h4, h5⟩
            simp only [h2, Option.isNone_some, Py.guard_false, Option.getD_some]
            exact ⟨_, rfl, by simp [h1], rfl, h3, h4, h5⟩)
          ⟨rfl, rfl, rfl, rfl, rfl⟩
        simp only []
        generalize hw2 : Py.forEach _ _ _ = w2
        obtain ⟨s'', rfl, hi, hf⟩ := ids_loop hw2 sd se (fun _ _ => rfl) hsd hse rfl
        simp [Py.finish, throw, throwThe, MonadExceptOf.throw, hi, hf, hp, hln]
      | none =>
        cases hl : readLines LINES true true with
        | nil =>
          simp [Py.finish, throw, throwThe, MonadExceptOf.throw]
        | cons l ls =>
          simp [Py.finish, Py.forEach_cons]

/-- one label and one file per input, in input order: positional -/
theorem py_seqfiles_positional (LINES : List (List Char)) (ps : List (List Char)) (hne : ps ≠ []) (listfile : Option Unit) (ldir : Option (List Char)) :
    Gen.get_sequence_files LINES (some ps) listfile ldir true true
      = .ok (some ((ps.map Py.pathStr).map fileLabel, ps.map Py.pathStr)) := by
  rw [get_sequence_files_eq]
  cases ps with
  | nil => exact absurd rfl hne
  | cons p ps => simp [sequenceFilesP, fileId, fileLabel]

/-- … and list file: the non-empty stripped lines, labelled by the line itself, opened below the base directory -/
theorem py_seqfiles_list (LINES : List (List Char)) (d : List Char) :
    Gen.get_sequence_files LINES none (some ()) (some d) true true
      = .ok (some ((readLines LINES true true).map fileLabel, (readLines LINES true true).map (fun l => Py.pathJoin (Py.pathStr d) l))) := by
  rw [get_sequence_files_eq]
  simp [sequenceFilesP, fileId, fileLabel]

/-- on positional paths that are their own normal form the labels are those of the model C08's theorems are about -/
theorem py_seqfiles_labels_positional (LINES : List (List Char)) (ps : List (List Char)) (hne : ps ≠ []) (hnorm : ∀ p ∈ ps, Py.pathStr p = p)
    (listfile : Option Unit) (ldir : Option (List Char)) :
    ∃ files, sequenceFiles ps none [] = some files ∧
      Gen.get_sequence_files LINES (some ps) listfile ldir true true = .ok (some (fileLabels files, files.map (·.2))) := by
  have hmap : ps.map Py.pathStr = ps := by
    conv => rhs; rw [← List.map_id ps]
    exact List.map_congr_left (fun p hp => hnorm p hp)
  refine ⟨ps.map (fun p => (p, p)), ?_, ?_⟩
  · cases ps with
    | nil => exact absurd rfl hne
    | cons p ps => simp [sequenceFiles]
  · rw [py_seqfiles_positional LINES ps hne, hmap]
    simp [fileLabels, Function.comp_def]

end GambitV.Tie.Py
