import GambitV.Gen.PyDmatCsv
import GambitV.Model.Cli

/-!
Tie: `cluster.dump_dmat_csv` as it stands in the *current* source, read as the list of rows it hands to the csv writer (harness/py2lean.py,
`csv_rows_prepass`: the `with` block opened on the destination is its body, the writer the list of rows written so far, `[a, *b]` is `[a] ++ b`),
against the model `distCsv` of the distance-matrix file (C16): a header row with the corner cell and the column labels, then one row per
row label with its distances formatted with four decimals.  Core Lean only.
-/
namespace GambitV.Tie.Py
open GambitV

/-- a `for` loop whose body always falls through, with an invariant indexed by the items consumed so far
(used after `generalize hw : Py.forEach _ _ _ = w`, so that the generated body is picked up by unification) -/
private theorem forEach_inv {α σ ρ : Type} {xs : List α} {body : α → σ → Py.M σ ρ σ} {s : σ}
    {w : Py.M σ ρ (σ × Bool)} (hw : Py.forEach xs body s = w) (I : List α → σ → Prop)
    (hstep : ∀ pre x s, I pre s → ∃ s', body x s = .ok s' ∧ I (pre ++ [x]) s')
    (h0 : I [] s) : ∃ s', w = .ok (s', true) ∧ I xs s' := by
  subst hw
  suffices H : ∀ (xs pre : List α) (s : σ), I pre s → ∃ s', Py.forEach xs body s = .ok (s', true) ∧ I (pre ++ xs) s' by
    simpa using H xs [] s h0
  intro xs
  induction xs with
  | nil => intro pre s hI; exact ⟨s, rfl, by simpa using hI⟩
  | cons x xs ih =>
    intro pre s hI
    obtain ⟨s', hb, hI'⟩ := hstep pre x s hI
    obtain ⟨s'', hf, hI''⟩ := ih (pre ++ [x]) s' hI'
    refine ⟨s'', ?_, by simpa using hI''⟩
    simp only [Py.forEach, hb]
    exact hf

private theorem formatKnown_04f : Py.formatKnown "0.4f".toList = true := by
  simp [Py.formatKnown]

/-- the rows written for a matrix with as many rows as row labels -/
theorem dump_dmat_csv_eq (dmat : List (List UInt32)) (rowIds colIds : List (List Char)) (corner : Option (List Char))
    (hlen : rowIds.length = dmat.length) :
    Gen.dump_dmat_csv () dmat rowIds colIds corner "0.4f".toList
      = .ok (((corner.getD []) :: colIds) :: (rowIds.zip dmat).map (fun rc => rc.1 :: rc.2.map (fun b => (F32.fmt4 b).toList))) := by
  unfold Gen.dump_dmat_csv Gen.dump_dmat_csv.run
  simp only [bind, Except.bind, pure, Except.pure, hlen, ne_eq, not_true_eq_false, decide_false, Py.guard, Bool.false_eq_true, if_false]
  generalize hw : Py.forEach _ _ _ = w
  obtain ⟨s', rfl, hI, _⟩ := forEach_inv hw
    (fun pre s => s.writer = [((corner.getD []) :: colIds)] ++ pre.map (fun rc => rc.1 :: rc.2.map (fun b => (F32.fmt4 b).toList))
      ∧ s.fmt = "0.4f".toList)
    (by
      intro pre x s ⟨hwr, hfmt⟩
      generalize hw2 : Py.forEach _ _ _ = w2
      obtain ⟨s2, rfl, hv, hwr2, hfmt2, hrow⟩ := forEach_inv hw2
        (fun pre2 s2 => s2.values_str = pre2.map (fun b => (F32.fmt4 b).toList) ∧ s2.writer = s.writer ∧ s2.fmt = "0.4f".toList
          ∧ s2.row_id = x.1)
        (by
          intro pre2 d s2 ⟨h1, h2, h3, h4⟩
          simp only [h3, formatKnown_04f, Bool.not_true, Bool.false_eq_true, if_false]
          exact ⟨_, rfl, by simp [h1, Py.formatScore], h2, rfl, h4⟩)
        ⟨rfl, rfl, hfmt, rfl⟩
      exact ⟨_, rfl, by simp [hv, hwr2, hwr, hrow], hfmt2⟩)
    ⟨by simp, rfl⟩
  simp [Py.finish, hI]

/-- row labels and matrix rows of different number: `zip_strict` raises, nothing is returned -/
theorem dump_dmat_csv_bad (dmat : List (List UInt32)) (rowIds colIds : List (List Char)) (corner : Option (List Char)) (fmt : List Char)
    (hlen : rowIds.length ≠ dmat.length) :
    Gen.dump_dmat_csv () dmat rowIds colIds corner fmt = .raised .ValueError := by
  unfold Gen.dump_dmat_csv Gen.dump_dmat_csv.run
  simp [bind, Except.bind, Py.guard, Py.finish, hlen]

/-- the file the distance command writes (no corner text, default csv dialect) is the model's `distCsv` of the labels and the matrix -/
theorem py_dist_csv (dmat : List (List UInt32)) (rowIds colIds : List (List Char)) (hlen : rowIds.length = dmat.length) :
    ∃ rows, Gen.dump_dmat_csv () dmat rowIds colIds none "0.4f".toList = .ok rows ∧ writeCsv ['\r', '\n'] rows = distCsv rowIds colIds dmat := by
  exact ⟨_, dump_dmat_csv_eq dmat rowIds colIds none hlen, rfl⟩

/-- cell (i, j) of the written table is the four-decimal rendering of `dmat[i][j]`, row i starts with row label i, the header carries the column labels in order -/
theorem py_dist_csv_cells (dmat : List (List UInt32)) (rowIds colIds : List (List Char)) (hlen : rowIds.length = dmat.length)
    (rows : List (List (List Char))) (h : Gen.dump_dmat_csv () dmat rowIds colIds none "0.4f".toList = .ok rows) :
    rows.length = rowIds.length + 1 ∧ rows.head? = some ([] :: colIds)
    ∧ ∀ i, i < rowIds.length → rows[i + 1]? = some (rowIds.getD i [] :: (dmat.getD i []).map (fun b => (F32.fmt4 b).toList)) := by
  rw [dump_dmat_csv_eq dmat rowIds colIds none hlen] at h
  obtain rfl : _ = rows := by simpa using h
  refine ⟨by simp [hlen], by simp, ?_⟩
  intro i hi
  have hi' : i < dmat.length := by omega
  simp only [List.getD_eq_getElem?_getD, List.getElem?_cons_succ, List.getElem?_map, List.getElem?_eq_getElem hi,
    List.getElem?_eq_getElem hi', Option.getD_some]
  rw [List.getElem?_eq_getElem (by simp only [List.length_zip]; omega)]
  simp

end GambitV.Tie.Py
