import GambitV.Gen.Kmers
import GambitV.Props.C07
import GambitV.Lemmas.TieKmers

/-!
Tie: the generated (state-passing) translations of the loops in `kmers.pyx` equal the hand-written
models of `Model/Kmers.lean`. Core Lean only.

Each proof unfolds the generated `run` once, names the `for` loop (`generalize … = w`, so the generated
body is picked up by unification and never copied here), and applies a generic loop rule from
`Lemmas/TieKmers.lean` with a per-iteration lemma in terms of the model's per-byte functions.
-/
namespace GambitV.Tie.Kmers
open GambitV GambitV.Tie GambitV.Gen

/-- 1. The generated shift-and-add loop with early return is `encodeU64` (no length hypothesis: both
wrap the same way). -/
theorem c_kmer_to_index_eq (kmer : List UInt8) :
    Gen.c_kmer_to_index kmer =
      (match encodeU64 kmer with
       | some v => { ret := v, exc := false }
       | none => { ret := 0, exc := true }) := by
  unfold Gen.c_kmer_to_index c_kmer_to_index.run
  simp only [bind, Except.bind, pure, Except.pure]
  generalize hw : forRangeFrom _ _ _ _ = w
  have hmain := forRangeFrom_sim hw
    (fun _ s (t : UInt64) => s.kmer = kmer ∧ s.exc = false ∧ s.idx = t)
    (fun i t => (nucCode (kmer.getD i 0)).map (fun d => (t <<< 2) + UInt64.ofNat d))
    { ret := 0, exc := true } ?step 0 ⟨rfl, rfl, rfl⟩
  case step =>
    clear hw
    rintro i s t - - ⟨h1, h2, h3⟩
    simp only [h1, h2, h3, Int.toNat_natCast, nucCode, decide_eq_true_eq]
    generalize kmer.getD i 0 &&& 223 = y
    by_cases h65 : y = 65
    · simp only [h65, if_pos]; exact ⟨_, rfl, rfl, rfl, rfl⟩
    by_cases h67 : y = 67
    · simp only [h67, if_pos]; exact ⟨_, rfl, rfl, rfl, rfl⟩
    by_cases h71 : y = 71
    · simp only [h71, if_pos]; exact ⟨_, rfl, rfl, rfl, rfl⟩
    by_cases h84 : y = 84
    · simp only [h84, if_pos]; exact ⟨_, rfl, rfl, rfl, rfl⟩
    simp only [h65, h67, h71, h84, if_false]
    rfl
  clear hw
  rw [iterOpt_encodeU64 kmer _ 0 0 (by simp), List.drop_zero] at hmain
  unfold encodeU64
  cases he : encodeU64From 0 kmer with
  | none =>
    rw [he] at hmain
    simp only [hmain]
  | some v =>
    rw [he] at hmain
    obtain ⟨s', rfl, -, h2, h3⟩ := hmain
    simp only [throw, throwThe, MonadExceptOf.throw, c_kmer_to_index.retWith, c_kmer_to_index.retOf, h2, h3]

/-- 2. Under the wrapper's guard `k ≤ 32` the generated encoder computes the mathematical index. -/
theorem c_kmer_to_index_sound (kmer : List UInt8) (h : kmer.length ≤ 32) :
    (match (Gen.c_kmer_to_index kmer) with
     | r => if r.exc then encode kmer = none else encode kmer = some r.ret.toNat) := by
  rw [c_kmer_to_index_eq]
  have hnw := C07.u64_no_wrap kmer h
  cases he : encodeU64 kmer with
  | none => rw [he] at hnw; simpa using hnw.symm
  | some v => rw [he] at hnw; simpa using hnw.symm

/-- 4. The generated decoder writes exactly `decode index k` (`k = |out|`), whatever `out` held. -/
theorem c_index_to_kmer_eq (index : UInt64) (out : List UInt8) :
    (Gen.c_index_to_kmer index out).out = decode index.toNat out.length ∧
    (Gen.c_index_to_kmer index out).fuelOut = false := by
  unfold Gen.c_index_to_kmer c_index_to_kmer.run
  simp only [bind, Except.bind, pure, Except.pure]
  generalize hw : forRangeFrom _ _ _ _ = w
  have hmain := forRangeFrom_inv' hw
    (fun i s => s.k = out.length ∧ s.out.length = out.length ∧
      decode index.toNat out.length = decode s.index.toNat (out.length - i) ++ s.out.drop (out.length - i))
    ?step ⟨rfl, rfl, by simp⟩
  case step =>
    clear hw
    rintro i s - hlt ⟨hk, hlen, hinv⟩
    simp only [Int.toNat_natCast, Nat.zero_add] at hlt
    have hx : (s.index % 4).toNat = s.index.toNat % 4 := by
      rw [UInt64.toNat_mod]; rfl
    have hsh : (s.index >>> 2).toNat = s.index.toNat / 4 := by
      rw [UInt64.toNat_shiftRight]
      have h2 : (2 : UInt64).toNat % 64 = 2 := by decide
      rw [h2, Nat.shiftRight_eq_div_pow]
    have hidx : ((out.length : Int) - (i : Int) - 1).toNat = out.length - (i + 1) := by omega
    have hstep := decode_step s.index.toNat out.length i s.out hlen hlt
    rw [← hx] at hstep
    generalize (s.index % 4).toNat = d at hstep ⊢
    have e0 : ((d : Int) = 0) ↔ d = 0 := by omega
    have e1 : ((d : Int) = 1) ↔ d = 1 := by omega
    have e2 : ((d : Int) = 2) ↔ d = 2 := by omega
    simp only [e0, e1, e2, decide_eq_true_eq, hk]
    have hcases : (d = 0 ∧ nucLetter d = 65) ∨ (d = 1 ∧ nucLetter d = 67) ∨ (d = 2 ∧ nucLetter d = 71) ∨
        (d ≠ 0 ∧ d ≠ 1 ∧ d ≠ 2 ∧ nucLetter d = 84) := by
      by_cases h0 : d = 0
      · subst h0; exact Or.inl ⟨rfl, rfl⟩
      by_cases h1 : d = 1
      · subst h1; exact Or.inr (Or.inl ⟨rfl, rfl⟩)
      by_cases h2 : d = 2
      · subst h2; exact Or.inr (Or.inr (Or.inl ⟨rfl, rfl⟩))
      · exact Or.inr (Or.inr (Or.inr ⟨h0, h1, h2, by simp only [nucLetter, if_neg h0, if_neg h1, if_neg h2]⟩))
    rw [hinv, hstep]
    rcases hcases with ⟨h, hn⟩ | ⟨h, hn⟩ | ⟨h, hn⟩ | ⟨h0, h1, h2, hn⟩
    all_goals
      rw [hn]
      first
        | simp only [h, if_pos]
        | simp only [h0, h1, h2, if_false]
      refine ⟨_, rfl, rfl, ?_, ?_⟩
      · simp only [List.length_set]; exact hlen
      · simp only [hidx, hsh]
  clear hw
  obtain ⟨s', rfl, -, hlen, hinv⟩ := hmain
  simp only [Int.toNat_natCast, Nat.zero_add, Nat.sub_self, decode, List.drop_zero, List.nil_append] at hinv
  exact ⟨hinv.symm, rfl⟩

/-- 5. The generated reverse-complement loop writes `revcomp seq` into a buffer of the right length. -/
theorem c_revcomp_eq (seq out : List UInt8) (h : out.length = seq.length) :
    (Gen.c_revcomp seq out).out = revcomp seq := by
  unfold Gen.c_revcomp c_revcomp.run
  simp only [bind, Except.bind, pure, Except.pure]
  generalize hw : forRangeFrom _ _ _ _ = w
  have hmain := forRangeFrom_inv' hw
    (fun i s => s.seq = seq ∧ s.n = seq.length ∧ s.out.length = seq.length ∧
      s.out.drop (seq.length - i) = ((seq.take i).map comp).reverse)
    ?step ⟨rfl, rfl, h, by simp [← h]⟩
  case step =>
    clear hw
    rintro i s - hlt ⟨hseq, hn, hlen, hinv⟩
    simp only [Int.toNat_natCast, Nat.zero_add] at hlt
    have hidx : ((seq.length : Int) - (i : Int) - 1).toNat = seq.length - (i + 1) := by omega
    have hstep := revcomp_step seq s.out i hlt hlen hinv
    simp only [hseq, hn, Int.toNat_natCast, decide_eq_true_eq]
    rw [← hstep]
    unfold comp
    generalize seq.getD i 0 = x
    have hlen' : ∀ (m : Nat) (c : UInt8), (s.out.set m c).length = seq.length := by
      intro m c; rw [List.length_set]; exact hlen
    by_cases h0 : x = 65
    · simp only [h0, if_pos]
      exact ⟨_, rfl, rfl, rfl, hlen' _ _, by simp only [hidx] <;> rfl⟩
    by_cases h1 : x = 97
    · simp only [h1, if_pos]
      exact ⟨_, rfl, rfl, rfl, hlen' _ _, by simp only [hidx] <;> rfl⟩
    by_cases h2 : x = 84
    · simp only [h2, if_pos]
      exact ⟨_, rfl, rfl, rfl, hlen' _ _, by simp only [hidx] <;> rfl⟩
    by_cases h3 : x = 116
    · simp only [h3, if_pos]
      exact ⟨_, rfl, rfl, rfl, hlen' _ _, by simp only [hidx] <;> rfl⟩
    by_cases h4 : x = 71
    · simp only [h4, if_pos]
      exact ⟨_, rfl, rfl, rfl, hlen' _ _, by simp only [hidx] <;> rfl⟩
    by_cases h5 : x = 103
    · simp only [h5, if_pos]
      exact ⟨_, rfl, rfl, rfl, hlen' _ _, by simp only [hidx] <;> rfl⟩
    by_cases h6 : x = 67
    · simp only [h6, if_pos]
      exact ⟨_, rfl, rfl, rfl, hlen' _ _, by simp only [hidx] <;> rfl⟩
    by_cases h7 : x = 99
    · simp only [h7, if_pos]
      exact ⟨_, rfl, rfl, rfl, hlen' _ _, by simp only [hidx] <;> rfl⟩
    simp only [h0, h1, h2, h3, h4, h5, h6, h7, if_false]
    exact ⟨_, rfl, rfl, rfl, hlen' _ _, by simp only [hidx]⟩
  clear hw
  obtain ⟨s', rfl, -, -, -, hinv⟩ := hmain
  simp only [Int.toNat_natCast, Nat.zero_add, Nat.sub_self, List.drop_zero] at hinv
  rw [List.take_length] at hinv
  exact hinv

/-- 3a. The generated reverse-complement encoder equals the 64-bit complemented shift-and-add over the
reversed k-mer (no length hypothesis: both wrap the same way). -/
theorem c_kmer_to_index_rc_eq (kmer : List UInt8) :
    Gen.c_kmer_to_index_rc kmer =
      (match encodeRcU64 kmer with
       | some v => { ret := v, exc := false }
       | none => { ret := 0, exc := true }) := by
  unfold Gen.c_kmer_to_index_rc c_kmer_to_index_rc.run
  simp only [bind, Except.bind, pure, Except.pure]
  generalize hw : forRangeFrom _ _ _ _ = w
  have hmain := forRangeFrom_sim hw
    (fun _ s (t : UInt64) => s.kmer = kmer ∧ s.exc = false ∧ s.idx = t ∧ s.k = kmer.length)
    (fun i t => (nucCode (kmer.getD (kmer.length - i - 1) 0)).map (fun d => (t <<< 2) + UInt64.ofNat (3 - d)))
    { ret := 0, exc := true } ?step 0 ⟨rfl, rfl, rfl, rfl⟩
  case step =>
    clear hw
    rintro i s t - - ⟨h1, h2, h3, h4⟩
    have hidx : ((kmer.length : Int) - (i : Int) - 1).toNat = kmer.length - i - 1 := by omega
    simp only [h1, h2, h3, h4, hidx, nucCode, decide_eq_true_eq]
    generalize kmer.getD (kmer.length - i - 1) 0 &&& 223 = y
    by_cases h65 : y = 65
    · simp only [h65, if_pos]; exact ⟨_, rfl, rfl, rfl, rfl, rfl⟩
    by_cases h67 : y = 67
    · simp only [h67, if_pos]; exact ⟨_, rfl, rfl, rfl, rfl, rfl⟩
    by_cases h71 : y = 71
    · simp only [h71, if_pos]; exact ⟨_, rfl, rfl, rfl, rfl, rfl⟩
    by_cases h84 : y = 84
    · simp only [h84, if_pos]; exact ⟨_, rfl, rfl, rfl, rfl, rfl⟩
    simp only [h65, h67, h71, h84, if_false]
    rfl
  clear hw
  rw [iterOpt_encodeCompU64 kmer _ 0 0 (by simp), List.drop_zero] at hmain
  unfold encodeRcU64
  cases he : encodeCompU64From 0 kmer.reverse with
  | none =>
    rw [he] at hmain
    simp only [hmain]
  | some v =>
    rw [he] at hmain
    obtain ⟨s', rfl, -, h2, h3, -⟩ := hmain
    simp only [throw, throwThe, MonadExceptOf.throw, c_kmer_to_index_rc.retWith, c_kmer_to_index_rc.retOf, h2, h3]

/-- 3. Under the wrapper's guard `k ≤ 32` the generated reverse-complement encoder computes `encodeRc`. -/
theorem c_kmer_to_index_rc_sound (kmer : List UInt8) (h : kmer.length ≤ 32) :
    (match (Gen.c_kmer_to_index_rc kmer) with
     | r => if r.exc then encodeRc kmer = none else encodeRc kmer = some r.ret.toNat) := by
  rw [c_kmer_to_index_rc_eq]
  have hnw := encodeRcU64_no_wrap kmer h
  cases he : encodeRcU64 kmer with
  | none => rw [he] at hnw; simpa using hnw.symm
  | some v => rw [he] at hnw; simpa using hnw.symm

/-- 9. The Python-level wrappers as written in the `.pyx`: reject `kmer.shape[0] > 32` before calling the C function, raise when
the C function sets `exc`, and allocate output buffers of length `k` / `len(seq)`.  Together with theorems 1–5 this makes the
modelled wrappers `GambitV.kmerToIndex` / `kmerToIndexRc` (guard 32) the meaning of the source text. -/
theorem wrapper_facts :
    Gen.kmerLenGuard = 32 ∧ Gen.kmerRcLenGuard = 32 ∧ Gen.kmerWrappersCanonical = true ∧
    Gen.decodeWrapperCanonical = true ∧ Gen.revcompWrapperCanonical = true := by decide

/-- the modelled wrapper is: guard, then the generated C function -/
theorem kmerToIndex_eq_generated (kmer : List UInt8) :
    kmerToIndex kmer =
      (if kmer.length > Gen.kmerLenGuard then .error .tooLong
       else if (Gen.c_kmer_to_index kmer).exc then .error .invalidChar else .ok (Gen.c_kmer_to_index kmer).ret.toNat) := by
  unfold kmerToIndex
  have hg : Gen.kmerLenGuard = 32 := by decide
  rw [hg]
  by_cases h : kmer.length > 32
  · simp [h]
  · simp only [h, if_false]
    have hs := c_kmer_to_index_sound kmer (by omega)
    simp only at hs
    by_cases he : (Gen.c_kmer_to_index kmer).exc = true
    · simp only [he, if_true] at hs ⊢
      rw [hs]
    · have he' : (Gen.c_kmer_to_index kmer).exc = false := by simpa using he
      simp only [he', Bool.false_eq_true, if_false] at hs ⊢
      rw [hs]

/-! ### 8. Non-vacuity: the generated definitions evaluated on concrete inputs -/

-- "ACGT" ↦ 27; lower case accepted
example : Gen.c_kmer_to_index [65, 67, 71, 84] = { ret := 27, exc := false } := by decide
example : Gen.c_kmer_to_index [97, 99, 103, 116] = { ret := 27, exc := false } := by decide
-- 'N' is rejected: exception flag set, early return
example : Gen.c_kmer_to_index [65, 78, 67] = { ret := 0, exc := true } := by decide
-- reverse complement of "AACG" is "CGTT" ↦ 1*64 + 2*16 + 3*4 + 3 = 111
example : Gen.c_kmer_to_index_rc [65, 65, 67, 71] = { ret := 111, exc := false } := by decide
example : Gen.c_kmer_to_index_rc [65, 78] = { ret := 0, exc := true } := by decide
example : Gen.c_index_to_kmer 27 [0, 0, 0, 0] = { out := [65, 67, 71, 84] } := by decide
example : Gen.c_revcomp [65, 65, 67, 71] [0, 0, 0, 0] = { out := [67, 71, 84, 84] } := by decide
example : Gen.c_revcomp [97, 78, 67] [0, 0, 0] = { out := [71, 78, 116] } := by decide

end GambitV.Tie.Kmers
