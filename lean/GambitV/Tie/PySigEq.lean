import GambitV.Gen.PySigEq
import GambitV.Model.Indexing
import GambitV.Lemmas.PyRt

/-!
Tie of the machine-translated `gambit.sigs.base.sigarray_eq` (`GambitV.Gen.sigarray_eq`): two sequences of signatures are equal iff they have the
same length and equal signatures position by position — the `a == b` of the model's `sigEq` (`Model/Indexing.lean`, used by `C20.eq_*`).
`np.array_equal` of two one-dimensional integer arrays is read as equality of the entry lists.  Core Lean only.
-/
namespace GambitV.Tie.Py
open GambitV GambitV.Py

theorem zipWith_all_eq (a b : List (List Int)) (h : a.length = b.length) :
    (List.zipWith (fun (x y : List Int) => x == y) a b).all id = (a == b) := by
  induction a generalizing b with
  | nil => cases b with
    | nil => rfl
    | cons y ys => simp at h
  | cons x xs ih => cases b with
    | nil => simp at h
    | cons y ys =>
      have h' : xs.length = ys.length := by simpa using h
      simp only [List.zipWith_cons_cons, List.all_cons, id, ih ys h']
      by_cases hxy : x = y
      · subst hxy; simp
      · simp [hxy]

theorem sigarray_eq_eq (a b : List (List Int)) : Gen.sigarray_eq a b = .ok (a == b) := by
  unfold Gen.sigarray_eq Gen.sigarray_eq.run
  by_cases h : a.length = b.length
  · have : (decide ((a.length : Int) = (b.length : Int))) = true := by simp [h]
    simp only [this, Bool.true_and, zipWith_all_eq a b h, bind, Except.bind, throw, throwThe, MonadExceptOf.throw, finish_ret]
  · have hd : (decide ((a.length : Int) = (b.length : Int))) = false := by
      simp only [decide_eq_false_iff_not]; omega
    have hne : (a == b) = false := by
      apply Bool.eq_false_iff.2
      intro he
      exact h (by rw [eq_of_beq he])
    simp only [hd, Bool.false_and, hne, bind, Except.bind, throw, throwThe, MonadExceptOf.throw, finish_ret]

/-- the sequence part of the model's `sigEq` is what the current `sigarray_eq` computes -/
theorem py_sigarray_eq_iff (a b : List (List Int)) : Gen.sigarray_eq a b = .ok true ↔ a = b := by
  rw [sigarray_eq_eq]
  constructor
  · intro h; injection h with h; exact eq_of_beq h
  · intro h; subst h; simp

example : Gen.sigarray_eq [[1, 2], []] [[1, 2], []] = .ok true := by decide
example : Gen.sigarray_eq [[1, 2], []] [[1, 2]] = .ok false := by decide
example : Gen.sigarray_eq [[1, 2]] [[1, 3]] = .ok false := by decide

end GambitV.Tie.Py
