import GambitV.Gen.PyZipStrict

/-!
Tie (structural facts): the strict `zip` the translated callers rely on, as it stands in the current source.  Each fact says that one function consists of exactly the expected
statements (harness/flow_facts.json; compared as normalised `ast` text by harness/pytrace.py on every run); reading these statements as the
models do is part of the trusted base (DESIGN §3).
-/
namespace GambitV.Tie.Py
open GambitV

theorem zip_strict_facts :
    Gen.pyZipStrict_zipStrict = true := by decide

end GambitV.Tie.Py
