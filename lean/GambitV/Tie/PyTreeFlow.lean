import GambitV.Gen.PyTreeFlow

/-!
Tie (structural facts): the data flow of `gambit tree` (which labels go with which signatures, which distances are clustered, by which linkage) as it stands in the current source.  Each fact says that one function consists of exactly the expected statements (compared as normalised
`ast` text by harness/pytrace.py on every run); reading these statements as the models do is part of the trusted base (DESIGN §3).
-/
namespace GambitV.Tie.Py
open GambitV

theorem tree_flow_facts :
    Gen.pyTreeFlow_treeCmd = true ∧ Gen.pyTreeFlow_hclust = true := by decide

end GambitV.Tie.Py
