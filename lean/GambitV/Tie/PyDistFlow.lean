import GambitV.Gen.PyDistFlow

/-!
Tie: the data flow of `gambit dist` (`cli/dist.py:dist_cmd`) and the layout of its CSV (`cluster.py:dump_dmat_csv`), read off the *current*
sources by harness/pytrace.py on every run.  Each fact is the presence of one statement in one place (compared as normalised `ast` text) plus the
absence of any other assignment to the names involved; together they say what the model of C16 assumes of the command:

* every side's labels come with that side's signatures (file IDs with the file's signatures, file labels with the files handed to
  `calc_file_signatures`, which returns them in file order — `Tie/PyCalcFiles.lean`); with `--square` the column labels are the row labels;
* the matrix is `jaccarddist_pairwise(query_sigs)` (square) or `jaccarddist_matrix(query_sigs, ref_sigs)` — both tied to the bulk models in
  `Tie/PyBulk.lean` / `Tie/PyPairwise.lean`;
* `dump_dmat_csv(output, dmat, query_ids, ref_ids)`: header = corner cell + column labels, then per `zip_strict(row_ids, dmat)` pair the row
  label and `format(d, '0.4f')` of each cell — the rows `distCsvRows` of the model (`C16.distCsv_rows`).

A structural tie: an edit of any of these statements makes a fact `false` and this theorem fails, whatever input the edit needs in order to show
(a harmless rewrite of them does so too and is then reported as no-failing-input-found).  Core Lean only.
-/
namespace GambitV.Tie.Py

theorem dist_flow_facts :
    Gen.pyDist_queryIds = true ∧ Gen.pyDist_refIds = true ∧ Gen.pyDist_square = true ∧ Gen.pyDist_matrix = true
      ∧ Gen.pyDist_sigsFromFiles = true ∧ Gen.pyDist_dump = true ∧ Gen.pyDist_noOtherStores = true
      ∧ Gen.pyDist_csvHeader = true ∧ Gen.pyDist_csvRows = true ∧ Gen.pyDist_csvFmt = true := by
  decide

end GambitV.Tie.Py
