import GambitV.Gen.PyMetaRules
import GambitV.Model.MetaAttrs

/-!
Tie: which attribute of the HDF5 group holds which field, as the writing side (`_init_attrs`, `write_metadata`) and the reading side
(`HDF5Signatures.__init__`, `read_metadata`) of the *current* source say (tables read by harness/pytrace.py on every run), and the
round trip through them: what the reader reads is what the writer wrote, for every header.  Core Lean only.
-/
namespace GambitV.Tie.Py
open GambitV GambitV.MetaAttrs

theorem meta_writer_eq : Gen.pyMetaWriter = writerTable := by decide
theorem meta_reader_eq : Gen.pyMetaReader = readerTable := by decide
theorem meta_translated : Gen.pyMetaRules.untranslatable = false := by decide

/-- `find?` step as a `Bool` conditional: with `if (… == …) = true` simp's reflexivity check on the condition unfolds `String.decEq` on
the literals and times out; `bif` leaves the comparison to the `String.reduceBEq` simproc -/
private theorem find?_cons_cond {α : Type} (p : α → Bool) (a : α) (l : List α) :
    List.find? p (a :: l) = bif p a then some a else List.find? p l := by
  cases h : p a <;> simp [h]

/-- stores under pairwise distinct names do not overwrite each other: the store is the table, row by row -/
private theorem foldl_write (h : Header) (tbl : List (String × Src)) :
    ∀ acc : List (String × AttrV), (acc.map (·.1) ++ tbl.map (·.1)).Nodup →
      tbl.foldl (fun st row => (st.filter (·.1 != row.1)) ++ [(row.1, row.2.value h)]) acc
        = acc ++ tbl.map (fun row => (row.1, row.2.value h)) := by
  induction tbl with
  | nil => intro acc _; simp
  | cons r t ih =>
    intro acc hnd
    have hacc : acc.filter (·.1 != r.1) = acc := by
      rw [List.filter_eq_self]
      intro x hx
      have hd := (List.nodup_append.mp hnd).2.2 x.1 (List.mem_map_of_mem hx) r.1 (by simp)
      simpa using hd
    rw [List.foldl_cons, hacc, ih (acc ++ [(r.1, r.2.value h)]) (by simpa using hnd)]
    simp

private theorem writeAttrs_nodup (tbl : List (String × Src)) (hnd : (tbl.map (·.1)).Nodup) (h : Header) :
    writeAttrs tbl h = tbl.map (fun row => (row.1, row.2.value h)) := by
  have := foldl_write h tbl [] (by simpa using hnd)
  simpa [writeAttrs] using this

private theorem writerTable_nodup : (writerTable.map (·.1)).Nodup := by decide

private theorem fieldOf_mkHeader (k : Nat) (pre : String) (id name idAttr version description extra : Option String) :
    fieldOf (mkHeader k pre id name idAttr version description extra) "id" = id
    ∧ fieldOf (mkHeader k pre id name idAttr version description extra) "name" = name
    ∧ fieldOf (mkHeader k pre id name idAttr version description extra) "id_attr" = idAttr
    ∧ fieldOf (mkHeader k pre id name idAttr version description extra) "version" = version
    ∧ fieldOf (mkHeader k pre id name idAttr version description extra) "description" = description
    ∧ fieldOf (mkHeader k pre id name idAttr version description extra) "extra" = extra := by
  simp only [mkHeader, fieldOf, find?_cons_cond, String.reduceBEq, cond_true, cond_false, Option.map_some, Option.getD_some, and_self]

/-- the attributes the model's writer stores -/
theorem writeAttrs_model (k : Nat) (pre : String) (id name idAttr version description extra : Option String) :
    writeAttrs writerTable (mkHeader k pre id name idAttr version description extra) =
      [("gambit_signatures_version", .int 1), ("kmerspec_k", .int k), ("kmerspec_prefix", .text pre),
       ("id", optV id), ("name", optV name), ("id_attr", optV idAttr), ("version", optV version), ("description", optV description),
       ("extra", optV extra)] := by
  obtain ⟨h1, h2, h3, h4, h5, h6⟩ := fieldOf_mkHeader k pre id name idAttr version description extra
  rw [writeAttrs_nodup writerTable writerTable_nodup]
  simp only [writerTable, List.map_cons, List.map_nil, Src.value, h1, h2, h3, h4, h5, h6]
  rfl

private def modelSt (k : Nat) (pre : String) (v1 v2 v3 v4 v5 v6 : AttrV) : List (String × AttrV) :=
  [("gambit_signatures_version", .int 1), ("kmerspec_k", .int k), ("kmerspec_prefix", .text pre),
   ("id", v1), ("name", v2), ("id_attr", v3), ("version", v4), ("description", v5), ("extra", v6)]

private theorem getAttr_model (k : Nat) (pre : String) (v1 v2 v3 v4 v5 v6 : AttrV) :
    getAttr (modelSt k pre v1 v2 v3 v4 v5 v6) "gambit_signatures_version" = some (.int 1)
    ∧ getAttr (modelSt k pre v1 v2 v3 v4 v5 v6) "kmerspec_k" = some (.int k)
    ∧ getAttr (modelSt k pre v1 v2 v3 v4 v5 v6) "kmerspec_prefix" = some (.text pre)
    ∧ getAttr (modelSt k pre v1 v2 v3 v4 v5 v6) "id" = some v1
    ∧ getAttr (modelSt k pre v1 v2 v3 v4 v5 v6) "name" = some v2
    ∧ getAttr (modelSt k pre v1 v2 v3 v4 v5 v6) "id_attr" = some v3
    ∧ getAttr (modelSt k pre v1 v2 v3 v4 v5 v6) "version" = some v4
    ∧ getAttr (modelSt k pre v1 v2 v3 v4 v5 v6) "description" = some v5
    ∧ getAttr (modelSt k pre v1 v2 v3 v4 v5 v6) "extra" = some v6 := by
  simp only [modelSt, getAttr, find?_cons_cond, String.reduceBEq, cond_true, cond_false, Option.map_some, and_self]

private theorem readOpt_optV (st : List (String × AttrV)) (n : String) (o : Option String) (h : getAttr st n = some (optV o)) :
    readOpt st n = some o := by
  cases o <;> simp [readOpt, h, optV]

/-- round trip on the model's tables: every header is read back as it was written (`None` fields included) -/
theorem meta_roundtrip (k : Nat) (pre : String) (id name idAttr version description extra : Option String) :
    readHeader readerTable (writeAttrs writerTable (mkHeader k pre id name idAttr version description extra))
      = some (mkHeader k pre id name idAttr version description extra) := by
  rw [writeAttrs_model]
  obtain ⟨g1, g2, g3, g4, g5, g6, g7, g8, g9⟩ :=
    getAttr_model k pre (optV id) (optV name) (optV idAttr) (optV version) (optV description) (optV extra)
  simp only [modelSt] at g1 g2 g3 g4 g5 g6 g7 g8 g9
  have hv : lookupRow readerTable "format_version" = some ("gambit_signatures_version", .int) := by decide
  have hk : lookupRow readerTable "k" = some ("kmerspec_k", .int) := by decide
  have hp : lookupRow readerTable "pre" = some ("kmerspec_prefix", .text) := by decide
  have hf : readerTable.filter (fun r => r.2.2 == .opt || r.2.2 == .json) =
      [("id", "id", .opt), ("name", "name", .opt), ("id_attr", "id_attr", .opt), ("version", "version", .opt),
       ("description", "description", .opt), ("extra", "extra", .json)] := by decide
  unfold readHeader
  rw [hv, hk, hp, hf]
  simp only [readInt, readText, g1, g2, g3, List.mapM_cons, List.mapM_nil, readOpt_optV _ _ _ g4, readOpt_optV _ _ _ g5,
    readOpt_optV _ _ _ g6, readOpt_optV _ _ _ g7, readOpt_optV _ _ _ g8, readOpt_optV _ _ _ g9, Option.map_some, bind, Option.bind,
    pure, mkHeader]

/-- … and on the tables as the current source has them -/
theorem py_meta_roundtrip (k : Nat) (pre : String) (id name idAttr version description extra : Option String) :
    readHeader Gen.pyMetaReader (writeAttrs Gen.pyMetaWriter (mkHeader k pre id name idAttr version description extra))
      = some (mkHeader k pre id name idAttr version description extra) := by
  rw [meta_writer_eq, meta_reader_eq]; exact meta_roundtrip ..

/-- no attribute name is written twice, so nothing the writer stores is overwritten by a later store -/
theorem py_meta_names_distinct : (Gen.pyMetaWriter.map (·.1)).Nodup := by decide

/-- a reader that looked for one field under another field's name would not round-trip: the tie is not vacuous -/
example : readHeader [("k", "kmerspec_k", .int), ("pre", "kmerspec_prefix", .text), ("format_version", "gambit_signatures_version", .int),
                      ("id", "name", .opt), ("name", "id", .opt)]
            (writeAttrs writerTable (mkHeader 11 "ATGAC" (some "a") (some "b") none none none none))
          ≠ some { version := 1, k := 11, pre := "ATGAC", fields := [("id", some "a"), ("name", some "b")] } := by decide

end GambitV.Tie.Py
