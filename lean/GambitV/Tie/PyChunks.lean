import GambitV.Gen.PyChunks
import GambitV.Model.Bulk
import GambitV.Lemmas.PyRt

/-!
Tie: the generated translation of `gambit.util.misc.chunk_slices` equals the hand-written model
`chunkSlices` of `Model/Bulk.lean`.  Core Lean only.

Two stages: `chunk_loop` is the induction on a loop whose condition and body are given by clean equations
(`hcond`, `hbody`); the theorems unfold the generated `run` once, name the `while` loop with `generalize`
(so the generated body is picked up by unification and never copied here) and discharge the two equations by `rfl`.
-/
namespace GambitV.Tie.Py
open GambitV GambitV.Gen

/-- the pair of `Nat`s as the pair of Python ints -/
abbrev castPair (ab : Nat × Nat) : Int × Int := ((ab.1 : Int), (ab.2 : Int))

/-- The `while start < n` loop of `chunk_slices`, for any condition/body that satisfy the clean equations. -/
theorem chunk_loop (n size : Nat) (hsz : 0 < size)
    (cond : chunk_slices.St → Py.M chunk_slices.St chunk_slices.Ret Bool)
    (body : chunk_slices.St → Py.M chunk_slices.St chunk_slices.Ret chunk_slices.St)
    (hcond : ∀ s, cond s = .ok (decide (s.start < s.n)))
    (hbody : ∀ s, body s = .ok { s with
      stop := s.start + s.size, yielded := s.yielded ++ [(s.start, s.start + s.size)], start := s.start + s.size })
    (fuel start : Nat) (s : chunk_slices.St)
    (hn : s.n = (n : Int)) (hs : s.size = (size : Int)) (hst : s.start = (start : Int))
    (hfuel : n - start ≤ fuel) :
    ∃ s', Py.whileLoop (fuel + 1) cond body s = .ok s' ∧
      s'.yielded = s.yielded ++ (chunkSlicesFrom n size fuel start).map castPair := by
  induction fuel generalizing start s with
  | zero =>
    refine ⟨s, ?_, by simp [chunkSlicesFrom]⟩
    have hc : decide (s.start < s.n) = false := by
      rw [hn, hst]; simp only [decide_eq_false_iff_not]; omega
    rw [Py.whileLoop_succ, hcond, hc]
  | succ fuel ih =>
    by_cases hlt : start < n
    · have hc : decide (s.start < s.n) = true := by
        rw [hn, hst]; simp only [decide_eq_true_eq]; omega
      rw [Py.whileLoop_succ, hcond, hc]
      simp only [hbody]
      obtain ⟨s', h1, h2⟩ := ih (start + size)
        { s with stop := s.start + s.size, yielded := s.yielded ++ [(s.start, s.start + s.size)],
                 start := s.start + s.size }
        hn hs (by simp only [hst, hs]; omega) (by omega)
      refine ⟨s', h1, ?_⟩
      rw [h2]
      simp only [chunkSlicesFrom, if_pos hlt, List.map_cons, List.append_assoc, List.singleton_append,
        hst, hs, castPair, Int.natCast_add]
    · refine ⟨s, ?_, by simp [chunkSlicesFrom, hlt]⟩
      have hc : decide (s.start < s.n) = false := by
        rw [hn, hst]; simp only [decide_eq_false_iff_not]; omega
      rw [Py.whileLoop_succ, hcond, hc]

/-- `chunk_loop` in the form used after `generalize hw : Py.whileLoop _ _ _ _ = w`. -/
theorem chunk_loop' {fuel : Nat} {cond : chunk_slices.St → Py.M chunk_slices.St chunk_slices.Ret Bool}
    {body : chunk_slices.St → Py.M chunk_slices.St chunk_slices.Ret chunk_slices.St}
    {s : chunk_slices.St} {w : Py.M chunk_slices.St chunk_slices.Ret chunk_slices.St}
    (hw : Py.whileLoop (fuel + 1) cond body s = w) (n size : Nat) (hsz : 0 < size)
    (hcond : ∀ s, cond s = .ok (decide (s.start < s.n)))
    (hbody : ∀ s, body s = .ok { s with
      stop := s.start + s.size, yielded := s.yielded ++ [(s.start, s.start + s.size)], start := s.start + s.size })
    (start : Nat) (hn : s.n = (n : Int)) (hs : s.size = (size : Int)) (hst : s.start = (start : Int))
    (hfuel : n - start ≤ fuel) :
    ∃ s', w = .ok s' ∧ s'.yielded = s.yielded ++ (chunkSlicesFrom n size fuel start).map castPair :=
  hw ▸ chunk_loop n size hsz cond body hcond hbody fuel start s hn hs hst hfuel

/-- `chunk_slices(n, size)` for `n ≥ 0`, `size ≥ 1` is the model's list of un-clamped `(start, stop)` pairs. -/
theorem chunk_slices_eq (n size : Nat) (h : 0 < size) :
    Gen.chunk_slices (n : Int) (size : Int)
      = .ok ((chunkSlices n size).map (fun ab => ((ab.1 : Int), (ab.2 : Int)))) := by
  unfold Gen.chunk_slices chunk_slices.run
  have hsz : decide ((size : Int) ≤ 0) = false := by
    simp only [decide_eq_false_iff_not]; omega
  simp only [hsz, Bool.false_eq_true, if_false, bind, Except.bind, pure, Except.pure, Int.toNat_natCast]
  generalize hw : Py.whileLoop _ _ _ _ = w
  obtain ⟨s', rfl, h2⟩ := chunk_loop' hw n size h (fun _ => rfl) (fun _ => rfl) 0 rfl rfl rfl
    (Nat.sub_le _ _)
  simp only [Py.finish_ok, h2, List.nil_append, chunkSlices]

example : Gen.chunk_slices 10 3 = .ok [(0, 3), (3, 6), (6, 9), (9, 12)] := by decide
example : Gen.chunk_slices 6 2 = .ok [(0, 2), (2, 4), (4, 6)] := by decide

/-- `chunk_slices(n, size)` with `size ≤ 0` raises `ValueError` (before anything is yielded). -/
theorem chunk_slices_bad (n size : Int) (h : size ≤ 0) :
    Gen.chunk_slices n size = .raised .ValueError := by
  unfold Gen.chunk_slices chunk_slices.run
  have hsz : decide (size ≤ 0) = true := by simpa using h
  simp only [hsz, if_true, bind, Except.bind, throw, throwThe, MonadExceptOf.throw, Py.finish_exc]

example : Gen.chunk_slices 10 0 = .raised .ValueError := by decide
example : Gen.chunk_slices 10 (-3) = .raised .ValueError := by decide

/-- `chunk_slices(n, size)` with `n ≤ 0` (and a valid size) yields nothing. -/
theorem chunk_slices_neg (n size : Int) (hn : n ≤ 0) (h : 0 < size) :
    Gen.chunk_slices n size = .ok [] := by
  unfold Gen.chunk_slices chunk_slices.run
  have hsz : decide (size ≤ 0) = false := by
    simp only [decide_eq_false_iff_not]; omega
  have hn0 : n.toNat = 0 := by omega
  have hc : decide ((0 : Int) < n) = false := by
    simp only [decide_eq_false_iff_not]; omega
  simp only [hsz, Bool.false_eq_true, if_false, bind, Except.bind, pure, Except.pure, hn0, Nat.zero_add,
    Py.whileLoop_succ, hc, Py.finish_ok]

example : Gen.chunk_slices 0 3 = .ok [] := by decide
example : Gen.chunk_slices (-5) 3 = .ok [] := by decide

end GambitV.Tie.Py
