import GambitV.Gen.PyLabels
import GambitV.Lemmas.PyRt
import GambitV.Lemmas.TiePyBatch2

/-!
Tie: the generated translations of `strip_extensions`, `strip_seq_file_ext`, `get_file_id`
(`gambit/cli/common.py`) equal the hand-written models of `Model/Cli.lean`.  Core Lean only.

`strip_extensions` returns `filename[:-len(ext)]`.  For a non-empty matching `ext` that is the model's
`take (length - len ext)`; for `ext = ""` (which every name ends with) Python's `filename[:-0]` is `filename[:0]`,
the empty string, while the model keeps the name — hence the hypothesis that no extension is empty.
The extensions `get_file_id` passes are literals, all non-empty.
-/
namespace GambitV.Tie.Py
open GambitV GambitV.Py GambitV.TieB2

theorem strip_extensions_eq (name : List Char) (exts : List (List Char)) (h : ∀ e ∈ exts, e ≠ []) :
    Gen.strip_extensions name exts = .ok (stripExtensions name exts) := by
  unfold Gen.strip_extensions Gen.strip_extensions.run
  simp only [bind, Except.bind]
  generalize hw : Py.forEach _ _ _ = w
  rw [stripExtensions_find]
  rcases forEach_findRet' hw (fun s => s.filename = name) (fun e => endsWith name e)
      (fun e => Py.slice name none (some (-(e.length : Int))))
      (by intro x s hs hp; subst hs; simp only [hp, if_true]; rfl)
      (by intro x s hs hp; subst hs
          exact ⟨{ s with ext := x }, by simp only [hp, Bool.false_eq_true, if_false]; rfl, rfl⟩)
      rfl with ⟨a, hf, rfl⟩ | ⟨hf, s', rfl, hs'⟩
  · have hmem : a ∈ exts := List.mem_of_find?_eq_some hf
    have hend : endsWith name a = true := by simpa using List.find?_some hf
    have hpos : 1 ≤ a.length := by
      have := h a hmem
      cases a with
      | nil => exact absurd rfl this
      | cons _ _ => simp only [List.length_cons]; omega
    simp only [hf, Py.finish_ret, slice_dropLast name a.length hpos (endsWith_length hend)]
  · simp only [hf, throw, throwThe, MonadExceptOf.throw, Py.finish_ret, hs']

/-- the `ext = ""` corner really differs: Python's `name[:-0]` is empty, the model keeps the name -/
example : Gen.strip_extensions "ab".toList [[]] = .ok [] := by decide
example : stripExtensions "ab".toList [[]] = "ab".toList := by decide
example : Gen.strip_extensions "ab".toList [[]] ≠ .ok (stripExtensions "ab".toList [[]]) := by decide

theorem strip_seq_file_ext_eq (name : List Char) : Gen.strip_seq_file_ext name = .ok (stripSeqExt name) := by
  unfold Gen.strip_seq_file_ext Gen.strip_seq_file_ext.run
  have h1 : ∀ n, Gen.strip_extensions n [(".gz").toList] = .ok (stripExtensions n gzipExts) :=
    fun n => strip_extensions_eq n _ (by decide)
  have h2 : ∀ n, Gen.strip_extensions n
      [(".fasta").toList, (".fna").toList, (".ffn").toList, (".faa").toList, (".frn").toList, (".fa").toList]
        = .ok (stripExtensions n fastaExts) :=
    fun n => strip_extensions_eq n _ (by decide)
  simp only [h1, h2, Py.call_ok, bind, Except.bind, throw, throwThe, MonadExceptOf.throw, Py.finish_ret, stripSeqExt]

theorem get_file_id_eq (path : List Char) : Gen.get_file_id path true true = .ok (fileLabel path) := by
  unfold Gen.get_file_id Gen.get_file_id.run
  simp only [if_true, strip_seq_file_ext_eq, Py.call_ok, bind, Except.bind, pure, Except.pure, throw, throwThe,
    MonadExceptOf.throw, Py.finish_ret, fileLabel]

theorem get_file_id_nostrip (path : List Char) (b : Bool) : Gen.get_file_id path false b = .ok path := by
  unfold Gen.get_file_id Gen.get_file_id.run
  simp only [Bool.false_eq_true, if_false, bind, Except.bind, pure, Except.pure, throw, throwThe,
    MonadExceptOf.throw, Py.finish_ret]

theorem get_file_id_noext (path : List Char) : Gen.get_file_id path true false = .ok (basename path) := by
  unfold Gen.get_file_id Gen.get_file_id.run
  simp only [if_true, Bool.false_eq_true, if_false, bind, Except.bind, pure, Except.pure, throw, throwThe,
    MonadExceptOf.throw, Py.finish_ret]

/-! non-vacuity: the generated functions evaluated on concrete names -/
example : Gen.get_file_id "a/b/gen.fa.gz".toList true true = .ok "gen".toList := by decide
example : Gen.get_file_id "a/b/gen.fasta".toList true true = .ok "gen".toList := by decide
example : Gen.get_file_id "a/b/gen.fa.gz".toList true false = .ok "gen.fa.gz".toList := by decide
example : Gen.get_file_id "a/b/gen.fa.gz".toList false true = .ok "a/b/gen.fa.gz".toList := by decide
example : Gen.strip_seq_file_ext "x.gz.fna".toList = .ok "x.gz".toList := by decide
example : Gen.strip_extensions "x.fa.fa".toList fastaExts = .ok "x.fa".toList := by decide

end GambitV.Tie.Py
