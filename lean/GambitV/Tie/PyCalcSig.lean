import GambitV.Gen.PyCalcSig
import GambitV.Model.Find
import GambitV.Props.C01
import GambitV.Tie.PyFindKmers
import GambitV.Tie.PyKmerWrappers
import GambitV.Lemmas.PyRt
import GambitV.Lemmas.TiePyCalcSig

/-!
Tie: the generated translations of `KmerMatch.kmer_index` (gambit/kmers.py) and of `accumulate_kmers`, `default_accumulator`,
`calc_signature` (gambit/sigs/calc.py) equal the hand-written model of `Model/Find.lean` (`fwdKmer`, `revKmer`, `seqIndices`,
`allIndices`, `signature`).  Core Lean only.

Each proof unfolds the generated `run` once, rewrites the calls with the ties already proved (`kmer_indices_fwd/rev`,
`kmer_to_index_eq`, `kmer_to_index_rc_eq`, `find_kmers_eq'`) and evaluates the `for` loop, named with
`generalize hw : Py.forEach _ _ _ = w`, with the rule `TieCalcSig.forEach_filterMap_sim` (a body that falls through or `continue`s).
The only facts proved against the generated term are the per-iteration ones, each by one `simp only`.

The array accumulator never refuses an index: the slices `fwdKmer` / `revKmer` have at most `k` bytes, so an index the wrappers
return is below `4^k` (`TieCalcSig.matchIndex_lt`, from `C07.encode_lt`); nothing beyond `1 ≤ k` (needed by `find_kmers_eq'`) and
`a.k = k` is required.
-/
namespace GambitV.Tie.Py
open GambitV GambitV.Gen GambitV.TieCalcSig

/-- `KmerMatch.kmer_index` of a forward match at `loc`: the index of the k nucleotides after the prefix, or `ValueError` -/
theorem kmer_index_fwd (k : Nat) (pre s : List UInt8) (loc : Nat) :
    Gen.kmer_index { k := (k : Int), pre := pre } s (loc : Int) false
      = (match kmerToIndex (fwdKmer k pre.length s loc) with | .ok i => .ok (i : Int) | .error _ => .raised .ValueError) := by
  obtain ⟨a, b, h1, h2⟩ := kmer_indices_fwd k pre s loc
  unfold Gen.kmer_index kmer_index.run
  simp only [h1, Py.call_ok, bind, Except.bind, h2, Bool.false_eq_true, if_false, kmer_to_index_eq]
  cases kmerToIndex (fwdKmer k pre.length s loc) with
  | ok i => simp only [Py.call_ok, throw, throwThe, MonadExceptOf.throw, Py.finish_ret]
  | error e => simp only [Py.call_raised, Py.finish_exc]

/-- … of a reverse match found at `loc ≥ k` (position of the last prefix nucleotide `loc + |pre| - 1`): the reverse-complement index of the k
nucleotides before it -/
theorem kmer_index_rev (k : Nat) (pre s : List UInt8) (loc : Nat) (hl : k ≤ loc) :
    Gen.kmer_index { k := (k : Int), pre := pre } s ((loc : Int) + (pre.length : Int) - 1) true
      = (match kmerToIndexRc (revKmer k s loc) with | .ok i => .ok (i : Int) | .error _ => .raised .ValueError) := by
  obtain ⟨a, b, h1, h2⟩ := kmer_indices_rev k pre s loc hl
  unfold Gen.kmer_index kmer_index.run
  simp only [h1, Py.call_ok, bind, Except.bind, h2, if_true, kmer_to_index_rc_eq]
  cases kmerToIndexRc (revKmer k s loc) with
  | ok i => simp only [Py.call_ok, throw, throwThe, MonadExceptOf.throw, Py.finish_ret]
  | error e => simp only [Py.call_raised, Py.finish_exc]

/-- `kmer_index` of any match `find_kmers` yields: the index the model assigns to it, or `ValueError` -/
theorem kmer_index_match (k : Nat) (pre s : List UInt8) (m : Int × Bool) (hm : m ∈ matchList k pre s) :
    Gen.kmer_index { k := (k : Int), pre := pre } s m.1 m.2
      = (match matchIndex k pre s m with | some i => .ok (i : Int) | none => .raised .ValueError) := by
  rcases mem_matchList k pre s m hm with ⟨l, rfl⟩ | ⟨l, hl, rfl⟩
  · rw [kmer_index_fwd, matchIndex_fwd]
    cases kmerToIndex (fwdKmer k pre.length s l) <;> rfl
  · rw [kmer_index_rev k pre s l hl, matchIndex_rev]
    cases kmerToIndexRc (revKmer k s l) <;> rfl

/-- `accumulate_kmers`: the indices of one sequence are added in the order the model says; matches whose k-mer cannot be encoded are skipped.
(Set flavour: no index can be refused; array flavour: indices below 4^k, which indices of slices of at most k bytes always are —
`TieCalcSig.matchIndex_lt` with `C07.encode_lt`.) -/
theorem accumulate_kmers_eq (a : Py.Acc) (k : Nat) (pre s : List UInt8) (hk : 1 ≤ k) (hak : a.k = k) :
    Gen.accumulate_kmers a { k := (k : Int), pre := pre } s = .ok { a with elems := a.elems ++ seqIndices k pre s } := by
  unfold Gen.accumulate_kmers accumulate_kmers.run
  simp only [find_kmers_eq' k pre s hk, Py.call_ok, bind, Except.bind]
  generalize hw : Py.forEach _ _ _ = w
  obtain ⟨r, rfl, -, hobs⟩ := forEach_filterMap_sim hw (fun st => st.accumulator)
    (fun st => st.kmerspec = { k := (k : Int), pre := pre } ∧ st.seq = s ∧ st.accumulator.k = k)
    (matchIndex k pre s) (fun (a : Py.Acc) (i : Nat) => ({ a with elems := a.elems ++ [i] } : Py.Acc))
    (by
      rintro x hx st ⟨h1, h2, h3⟩ hg
      simp only [h1, h2, kmer_index_match k pre s x hx, hg, Py.call_raised, tryExcept_same, throw, throwThe,
        MonadExceptOf.throw]
      exact ⟨_, Or.inr rfl, ⟨rfl, rfl, h3⟩, rfl⟩)
    (by
      rintro x hx st i ⟨h1, h2, h3⟩ hg
      have hb : Py.Acc.addBad st.accumulator (i : Int) = false :=
        addBad_false _ _ (by rw [h3]; exact matchIndex_lt k pre s x i hg)
      simp only [h1, h2, kmer_index_match k pre s x hx, hg, Py.call_ok, tryExcept_ok, hb, Py.guard_false, pure,
        Except.pure]
      exact ⟨_, Or.inl rfl, ⟨rfl, rfl, h3⟩, add_natCast _ _⟩)
    ⟨rfl, rfl, hak⟩
  clear hw
  simp only [pure, Except.pure, Py.finish_ok, hobs]
  rw [foldl_add]
  exact congrArg (fun l => Py.Res.ok ({ a with elems := a.elems ++ l } : Py.Acc)) (filterMap_matchList k pre s)

/-- `default_accumulator(k)`: the array flavour up to `k = 11`, the set flavour above -/
theorem default_accumulator_eq (k : Nat) :
    Gen.default_accumulator (k : Int) = .ok (Py.Acc.new (decide (k ≤ 11)) (k : Int)) := by
  unfold Gen.default_accumulator default_accumulator.run
  have h0 : decide ((k : Int) < 0) = false := by simp only [decide_eq_false_iff_not]; omega
  by_cases h : k ≤ 11
  · have h1 : decide ((k : Int) > 11) = false := by simp only [decide_eq_false_iff_not]; omega
    simp only [h0, h1, h, Bool.and_false, Py.guard_false, bind, Except.bind, Bool.false_eq_true, if_false, throw,
      throwThe, MonadExceptOf.throw, Py.finish_ret, decide_true]
  · have h1 : decide ((k : Int) > 11) = true := by simp only [decide_eq_true_eq]; omega
    simp only [h0, h1, h, Bool.and_false, Py.guard_false, bind, Except.bind, if_true, throw,
      throwThe, MonadExceptOf.throw, Py.finish_ret, decide_false]

/-- without an accumulator `calc_signature` runs with the default one -/
theorem calc_signature_none (k : Nat) (pre : List UInt8) (seqs : List (List UInt8)) :
    Gen.calc_signature { k := (k : Int), pre := pre } seqs none
      = Gen.calc_signature { k := (k : Int), pre := pre } seqs (some (Py.Acc.new (decide (k ≤ 11)) (k : Int))) := by
  unfold Gen.calc_signature calc_signature.run
  simp only [Option.isNone_none, if_true, default_accumulator_eq, Py.call_ok, bind, Except.bind, Option.isNone_some,
    Bool.false_eq_true, if_false, pure, Except.pure]

/-- `calc_signature` with any accumulator of the same `k`: what it held before, and the indices of all sequences -/
theorem calc_signature_some (k : Nat) (pre : List UInt8) (seqs : List (List UInt8)) (hk : 1 ≤ k) (a : Py.Acc) (hak : a.k = k) :
    Gen.calc_signature { k := (k : Int), pre := pre } seqs (some a)
      = .ok (Py.Acc.signature { a with elems := a.elems ++ allIndices k pre seqs }) := by
  unfold Gen.calc_signature calc_signature.run
  simp only [Option.isNone_some, Bool.false_eq_true, if_false, bind, Except.bind, pure, Except.pure]
  generalize hw : Py.forEach _ _ _ = w
  obtain ⟨r, rfl, ⟨-, a', ha', -⟩, hobs⟩ := forEach_filterMap_sim hw (fun st => st.accumulator.getD default)
    (fun st => st.kmerspec = { k := (k : Int), pre := pre } ∧ ∃ a', st.accumulator = some a' ∧ a'.k = k)
    (fun (x : List UInt8) => some x)
    (fun (a : Py.Acc) (x : List UInt8) => ({ a with elems := a.elems ++ seqIndices k pre x } : Py.Acc))
    (by
      rintro x hx st hI hg
      cases hg)
    (by
      rintro x hx st i ⟨h1, a', ha', hk'⟩ hg
      injection hg with hg
      subst hg
      simp only [h1, ha', Option.isNone_some, Py.guard_false, Option.getD_some, accumulate_kmers_eq a' k pre x hk hk',
        Py.call_ok]
      exact ⟨_, Or.inl rfl, ⟨rfl, _, rfl, hk'⟩, rfl⟩)
    ⟨rfl, a, rfl, hak⟩
  clear hw
  simp only [ha', Option.isNone_some, Py.guard_false, throw, throwThe, MonadExceptOf.throw, Py.finish_ret] at hobs ⊢
  rw [hobs, List.filterMap_some, foldl_append_elems]
  rfl

/-- `calc_signature` with a caller-supplied empty accumulator of the same k, of either flavour: the model's signature of the sequences -/
theorem calc_signature_acc (k : Nat) (pre : List UInt8) (seqs : List (List UInt8)) (hk : 1 ≤ k) (isArr : Bool) :
    Gen.calc_signature { k := (k : Int), pre := pre } seqs (some { isArray := isArr, k := k, elems := [] })
      = .ok ((signature k pre seqs).map (fun (x : Nat) => (x : Int))) := by
  rw [calc_signature_some k pre seqs hk _ rfl]
  simp only [List.nil_append]
  rfl

/-- `calc_signature` with the default accumulator (array for k ≤ 11, set above): the model's signature of the sequences -/
theorem calc_signature_eq (k : Nat) (pre : List UInt8) (seqs : List (List UInt8)) (hk : 1 ≤ k) :
    Gen.calc_signature { k := (k : Int), pre := pre } seqs none = .ok ((signature k pre seqs).map (fun (x : Nat) => (x : Int))) := by
  rw [calc_signature_none]
  have h : Py.Acc.new (decide (k ≤ 11)) (k : Int) = { isArray := decide (k ≤ 11), k := k, elems := [] } := by
    unfold Py.Acc.new
    rw [Int.toNat_natCast]
  rw [h]
  exact calc_signature_acc k pre seqs hk _

/-- PROPERTY (C01) of the translated code: the signature is exactly the specification list — the sorted duplicate-free indices of all
prefix-anchored k-mers on both strands of all sequences -/
theorem py_calc_signature_spec (k : Nat) (pre : List UInt8) (seqs : List (List UInt8)) (hk : 1 ≤ k) (hk32 : k ≤ 32) (hp : pre ≠ [])
    (hpre : ∀ b ∈ pre, b ∈ [65, 67, 71, 84]) :
    Gen.calc_signature { k := (k : Int), pre := pre } seqs none = .ok ((specList k pre seqs).map (fun (x : Nat) => (x : Int))) := by
  rw [calc_signature_eq k pre seqs hk, C01.signature_eq_specList ⟨hk, hk32, hp, hpre⟩]

/-! non-vacuity -/

-- `ACGTAC`, prefix `A`, k = 2: forward hit at 0 gives `CG` (6), the one at 4 is cut off by the end bound; the reverse prefix `T` at 3
-- gives the reverse complement of `CG`, again 6
example : Gen.calc_signature { k := 2, pre := [65] } [[65, 67, 71, 84, 65, 67]] none = .ok [6] := by decide
example : signature 2 [65] [[65, 67, 71, 84, 65, 67]] = [6] := by decide
-- two sequences, `acgtnccgt` (lower case: forward `GT` = 11 at 0, reverse hits at 2 and 7 give 11 and 10) and `ACGNACTTCCGT`
-- (the forward match at 0 has the invalid byte `N` in its k-mer and is skipped; 15 at 4; reverse hit at 10 gives 10), prefix `AC`, k = 2
example : Gen.calc_signature { k := 2, pre := [65, 67] }
    [[97, 99, 103, 116, 110, 99, 99, 103, 116], [65, 67, 71, 78, 65, 67, 84, 84, 67, 67, 71, 84]] none = .ok [10, 11, 15] := by decide
example : signature 2 [65, 67] [[97, 99, 103, 116, 110, 99, 99, 103, 116], [65, 67, 71, 78, 65, 67, 84, 84, 67, 67, 71, 84]]
    = [10, 11, 15] := by decide
example : Gen.accumulate_kmers { isArray := true, k := 2, elems := [7] } { k := 2, pre := [65, 67] }
    [65, 67, 71, 78, 65, 67, 84, 84, 67, 67, 71, 84] = .ok { isArray := true, k := 2, elems := [7, 15, 10] } := by decide
example : Gen.kmer_index { k := 2, pre := [65, 67] } [65, 67, 71, 78, 65, 67, 84, 84, 67, 67, 71, 84] 0 false
    = .raised .ValueError := by decide
example : Gen.kmer_index { k := 2, pre := [65, 67] } [65, 67, 71, 78, 65, 67, 84, 84, 67, 67, 71, 84] 4 false = .ok 15 := by decide
example : Gen.kmer_index { k := 2, pre := [65, 67] } [65, 67, 71, 78, 65, 67, 84, 84, 67, 67, 71, 84] 11 true = .ok 10 := by decide

end GambitV.Tie.Py
