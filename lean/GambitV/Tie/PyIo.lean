import GambitV.Gen.PyIo
import GambitV.Model.Fasta
import GambitV.Lemmas.PyRt

/-!
Tie of the machine-translated `gambit.util.io.guess_compression` (`GambitV.Gen.guess_compression`; the stream is the environment `DATA`, the bytes
of the file from its beginning, `fobj.read(2)` its first two bytes) to the model `guessGzip` that the FASTA model and `C06.guess_iff` use.
Core Lean only.
-/
namespace GambitV.Tie.Py
open GambitV GambitV.Py

theorem take2_eq_iff (data : List UInt8) : (data.take 2 == [31, 139]) = guessGzip data := by
  unfold guessGzip
  rcases data with _ | ⟨a, _ | ⟨b, rest⟩⟩
  · rfl
  · simp
  · by_cases ha : a = 31 <;> by_cases hb : b = 139 <;> simp [ha, hb]

/-- `guess_compression` as the source has it now: `'gzip'` iff the content starts with `1f 8b`, else `'none'`; it never raises and the file's
name plays no role (it is not an input) -/
theorem guess_compression_eq (data : List UInt8) :
    Gen.guess_compression data () = .ok (if guessGzip data then "gzip".toList else "none".toList) := by
  unfold Gen.guess_compression Gen.guess_compression.run
  simp only [take2_eq_iff]
  cases guessGzip data <;> rfl

example : Gen.guess_compression [31, 139, 8, 0] () = .ok "gzip".toList := by decide
example : Gen.guess_compression [62, 115] () = .ok "none".toList := by decide
example : Gen.guess_compression [31] () = .ok "none".toList := by decide

end GambitV.Tie.Py
