import GambitV.Tie.PyPropsHelpers
import GambitV.Tie.PyResultItem
import GambitV.Props.C09
import GambitV.Props.C03

/-!
Property-level statements about the definitions translated from the current Python sources (`GambitV.Gen.*`, regenerated on every run):
the tie theorems composed with the property theorems of `Props/`.  C09: closest-genomes list.
-/
namespace GambitV.Tie.Py
open GambitV

-- C09 ------------------------------------------------------------------------------------------
/-- the closest-genomes list of the translated `get_result_item` is THE list the statement describes (`closestOk`): the `min N n`
nearest references in (distance, reference order) order; every entry carries its own distance and the taxon matched by that genome alone -/
theorem py_closest_ok (F : Forest) (hF : ForestWF F) (gtax ds : List Nat) (h : ds.length = gtax.length) (hne : ds ≠ [])
    (hT : ∀ t ∈ gtax, t < F.size) (strict : Bool) (cs : Option Int) (N : Nat) (inp : Int) :
    ∃ r, Gen.get_result_item F gtax () { classify_strict := strict, chunksize := cs, report_closest := (N : Int) } ds inp = .ok r
      ∧ closestOk ds N (r.closest_genomes.map (·.genome)) = true
      ∧ (∀ m ∈ r.closest_genomes, m.distance = ds.getD m.genome 0 ∧ m.matched_taxon = predictedSpec F (gtax.getD m.genome 0) (ds.getD m.genome 0)) := by
  refine ⟨_, get_result_item_eq F hF gtax ds h hne hT strict cs N inp, ?_, ?_⟩
  · simp only [List.map_map]
    have : ((fun (m : Py.GenomeMatch) => m.genome) ∘ gmOf F gtax ds) = id := rfl
    rw [this, List.map_id]
    exact C09.closestList_ok ds N
  · intro m hm
    obtain ⟨i, _, rfl⟩ := List.mem_map.1 hm
    exact ⟨rfl, C03.matchingTaxon_eq_spec _ _ _⟩

end GambitV.Tie.Py
