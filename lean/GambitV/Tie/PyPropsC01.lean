import GambitV.Tie.PyFindKmers
import GambitV.Props.C01

/-!
Property-level statements about the definitions translated from the current Python sources (`GambitV.Gen.*`, regenerated on every run):
the tie theorems composed with the property theorems of `Props/`.  C01: prefix search.
-/
namespace GambitV.Tie.Py
open GambitV

-- C01 ------------------------------------------------------------------------------------------
/-- the translated `find_kmers` reports exactly the occurrences of the prefix: forward matches at every position `i` with
`i + |pre| + k ≤ |seq|`, reverse matches (position of the last prefix nucleotide) for every occurrence of the reverse-complemented
prefix at `i ≥ k` -/
theorem py_find_kmers_complete (k : Nat) (pre seq : List UInt8) (hk : 1 ≤ k) (hp : pre ≠ []) :
    Gen.find_kmers { k := (k : Int), pre := pre } seq
      = .ok (((List.range ((haystack seq).length - k + 1 - pre.length)).filter (matchAt (haystack seq) pre)).map (fun (l : Nat) => ((l : Int), false))
          ++ ((List.range' k ((haystack seq).length + 1 - pre.length - k)).filter (matchAt (haystack seq) (revcomp pre))).map
               (fun (l : Nat) => ((l : Int) + (pre.length : Int) - 1, true))) := by
  rw [find_kmers_eq k pre seq hk hp, C01.fwdMatches_complete k pre _ hp, C01.revMatches_complete k pre _ hp]

end GambitV.Tie.Py
