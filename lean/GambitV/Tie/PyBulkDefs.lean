import GambitV.Gen.PyBulk

/-! Definitions shared by the ties of the bulk distance functions (`Tie/PyBulk.lean`, `Tie/PyPairwise.lean`). -/
namespace GambitV.Tie.Py
open GambitV

/-- the two-signature distance the bulk functions are built from (bit pattern of the kernel's value) -/
def kdist (q r : List Nat) : UInt32 := jaccardBits q r

/-- the signatures of a collection as the kernels read them -/
def Py.Sigs.nat (c : Py.Sigs) : List (List Nat) := c.items.map (fun it => it.map Int.toNat)

/-- `jaccarddist_array` into a caller-supplied buffer of the right shape and type: every cell is overwritten with the distance of the query
to the corresponding signature — for a packed `SignatureArray` (the fused parallel kernel) and for any other collection (the loop) alike -/
def ArrSpec : Prop :=
  ∀ (q : Py.Arr) (c : Py.Sigs) (o : Py.ND) (vals : List UInt32), q.dtype.kernelOk = true → c.dtype.kernelOk = true →
    o.okDtype = true → o.shape = [c.items.length] → o.rows = [vals] → vals.length = c.items.length →
    Gen.jaccarddist_array q c (some o) = .ok { o with rows := [(Py.Sigs.nat c).map (kdist q.natVals)] }

end GambitV.Tie.Py
