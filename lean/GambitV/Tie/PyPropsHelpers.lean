import GambitV.Tie.PyClassify

/-!
Helper lemmas shared by the `Tie/PyProps*` files.
-/
namespace GambitV.Tie.Py
open GambitV

/-! ### helpers -/

/-- in a non-empty forest the lineage of any number starts with that number -/
theorem lineage_head?_of_pos (F : Forest) (hpos : 0 < F.size) (t : Nat) : (F.lineage t).head? = some t := by
  unfold Forest.lineage
  obtain ⟨n, hs⟩ : ∃ n, F.size = n + 1 := ⟨F.size - 1, by omega⟩
  rw [hs]; rfl

/-- the root-first path ends at the node itself -/
theorem path_getLast?_of_pos (F : Forest) (hpos : 0 < F.size) (t : Nat) : (F.path t).getLast? = some t := by
  unfold Forest.path
  rw [List.getLast?_reverse]; exact lineage_head?_of_pos F hpos t

/-- `F.path` is injective in a non-empty forest -/
theorem path_inj (F : Forest) (hpos : 0 < F.size) {a b : Nat} (h : F.path a = F.path b) : a = b := by
  have ha := path_getLast?_of_pos F hpos a
  rw [h, path_getLast?_of_pos F hpos b] at ha
  exact (Option.some.inj ha).symm

theorem getD_lt_size {F : Forest} {gtax : List Nat} (hT : ∀ t ∈ gtax, t < F.size) {c : Nat} (hc : c < gtax.length) :
    gtax.getD c 0 < F.size := by
  have e : gtax.getD c 0 = gtax[c] := by simp [List.getD_eq_getElem?_getD, hc]
  rw [e]
  exact hT _ (List.getElem_mem hc)

theorem map_genome_gmOf (F : Forest) (gtax ds : List Nat) (o : Option Nat) :
    (o.map (gmOf F gtax ds)).map (·.genome) = o := by
  cases o <;> rfl

end GambitV.Tie.Py
