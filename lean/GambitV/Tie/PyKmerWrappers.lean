import GambitV.Gen.PyKmerWrappers
import GambitV.Lemmas.PyRt

/-!
Tie: the generated translations of the small functions of `gambit/kmers.py` (`nkmers`, `index_dtype`,
`kmer_to_index`, `kmer_to_index_rc`) equal the hand-written models of `Model/Kmers.lean`.  Core Lean only.
-/
namespace GambitV.Tie.Py
open GambitV

/-- `nkmers(k) = 4 ** k` for `k ≥ 0`. -/
theorem nkmers_eq (k : Nat) : Gen.nkmers (k : Int) = .ok ((4 ^ k : Nat) : Int) := by
  unfold Gen.nkmers Gen.nkmers.run
  have hk : decide ((k : Int) < 0) = false := by
    simp only [decide_eq_false_iff_not]; omega
  simp only [hk, Py.guard_false, bind, Except.bind, throw, throwThe, MonadExceptOf.throw, Py.finish_ret,
    Int.toNat_natCast, Int.natCast_pow, Int.cast_ofNat_Int]

/-- `nkmers(k)` for `k < 0` raises (the translator's guard in front of `4 ** k`; class `Other`). -/
theorem nkmers_neg (k : Int) (h : k < 0) : Gen.nkmers k = .raised .Other := by
  unfold Gen.nkmers Gen.nkmers.run
  have hk : decide (k < 0) = true := by simpa using h
  simp only [hk, Py.guard_true, bind, Except.bind, Py.finish_exc]

example : Gen.nkmers 3 = .ok 64 := by decide
example : Gen.nkmers (-1) = .raised .Other := by decide

/-- `index_dtype(k)`: item size of the smallest unsigned type holding `4^k - 1`, `None` for `k > 32`. -/
theorem index_dtype_eq (k : Nat) :
    Gen.index_dtype (k : Int) = .ok ((indexDtypeBytes k).map (fun (b : Nat) => (b : Int))) := by
  unfold Gen.index_dtype Gen.index_dtype.run indexDtypeBytes
  have h4 : decide ((k : Int) ≤ 4) = decide (k ≤ 4) := by
    apply decide_eq_decide.mpr; omega
  have h8 : decide ((k : Int) ≤ 8) = decide (k ≤ 8) := by
    apply decide_eq_decide.mpr; omega
  have h16 : decide ((k : Int) ≤ 16) = decide (k ≤ 16) := by
    apply decide_eq_decide.mpr; omega
  have h32 : decide ((k : Int) ≤ 32) = decide (k ≤ 32) := by
    apply decide_eq_decide.mpr; omega
  simp only [h4, h8, h16, h32]
  by_cases c4 : k ≤ 4
  · simp only [c4, decide_true, if_true, bind, Except.bind, throw, throwThe, MonadExceptOf.throw, Py.finish_ret]
    rfl
  · by_cases c8 : k ≤ 8
    · simp only [c4, c8, decide_true, decide_false, if_true, if_false, Bool.false_eq_true, bind, Except.bind, throw,
        throwThe, MonadExceptOf.throw, Py.finish_ret]
      rfl
    · by_cases c16 : k ≤ 16
      · simp only [c4, c8, c16, decide_true, decide_false, if_true, if_false, Bool.false_eq_true, bind, Except.bind,
          throw, throwThe, MonadExceptOf.throw, Py.finish_ret]
        rfl
      · by_cases c32 : k ≤ 32
        · simp only [c4, c8, c16, c32, decide_true, decide_false, if_true, if_false, Bool.false_eq_true, bind,
            Except.bind, throw, throwThe, MonadExceptOf.throw, Py.finish_ret]
          rfl
        · simp only [c4, c8, c16, c32, decide_false, if_false, Bool.false_eq_true, bind, Except.bind, throw,
            throwThe, MonadExceptOf.throw, Py.finish_ret]
          rfl

/-- `index_dtype(k)` for any `k ≤ 4` (negative ones included) is the one-byte type. -/
theorem index_dtype_neg (k : Int) (h : k ≤ 4) : Gen.index_dtype k = .ok (some 1) := by
  unfold Gen.index_dtype Gen.index_dtype.run
  have h4 : decide (k ≤ 4) = true := by simpa using h
  simp only [h4, if_true, bind, Except.bind, throw, throwThe, MonadExceptOf.throw, Py.finish_ret]

example : Gen.index_dtype 11 = .ok (some 4) := by decide
example : Gen.index_dtype 33 = .ok none := by decide
example : Gen.index_dtype (-7) = .ok (some 1) := by decide

/-- `kmer_to_index(kmer)`: the index, or `ValueError` where the model reports an error. -/
theorem kmer_to_index_eq (s : List UInt8) :
    Gen.kmer_to_index s =
      (match kmerToIndex s with | .ok i => .ok (i : Int) | .error _ => .raised .ValueError) := by
  unfold Gen.kmer_to_index Gen.kmer_to_index.run
  cases kmerToIndex s with
  | ok i => simp only [Py.guard_false, bind, Except.bind, throw, throwThe, MonadExceptOf.throw, Py.finish_ret]
  | error e => simp only [Py.guard_true, bind, Except.bind, Py.finish_exc]

/-- `kmer_to_index_rc(kmer)`: the index of the reverse complement, or `ValueError`. -/
theorem kmer_to_index_rc_eq (s : List UInt8) :
    Gen.kmer_to_index_rc s =
      (match kmerToIndexRc s with | .ok i => .ok (i : Int) | .error _ => .raised .ValueError) := by
  unfold Gen.kmer_to_index_rc Gen.kmer_to_index_rc.run
  cases kmerToIndexRc s with
  | ok i => simp only [Py.guard_false, bind, Except.bind, throw, throwThe, MonadExceptOf.throw, Py.finish_ret]
  | error e => simp only [Py.guard_true, bind, Except.bind, Py.finish_exc]

/-! non-vacuity -/
example : Gen.kmer_to_index [65, 67, 71, 84] = .ok 27 := by decide
example : Gen.kmer_to_index [65, 78] = .raised .ValueError := by decide
example : Gen.kmer_to_index_rc [65, 67, 71, 84] = .ok 27 := by decide

end GambitV.Tie.Py
