import GambitV.Gen.PyCliParams

/-!
Tie (structural facts): the option-group check and the `-k` / `-p` options of the commands, as it stands in the current source.  Each fact says that one function consists of exactly the expected
statements, one class has exactly the expected shape, or one constant the expected value (harness/flow_facts.json; compared as normalised `ast`
text by harness/pytrace.py on every run); reading these as the models do is part of the trusted base (DESIGN §3).
-/
namespace GambitV.Tie.Py
open GambitV

theorem cli_params_facts :
    Gen.pyCliParams_checkParamsGroup = true ∧ Gen.pyCliParams_kspecParams = true := by decide

end GambitV.Tie.Py
