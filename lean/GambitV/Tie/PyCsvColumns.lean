import GambitV.Gen.PyCsvColumns
import GambitV.Model.Export

/-!
Tie: the column table of the CSV exporter as it stands in the *current* source (`CSVResultsExporter.COLUMNS`, read by
harness/pytrace.py on every run) against the model's columns (`csvHeader`, `csvRow` in `Model/Export.lean`): the same names in the same
order, and every attribute path denotes the field the model puts in that cell (`None` anywhere along a path ↦ empty cell, which is what
`getattr_nested(…, pass_none=True)` does).  Core Lean only.
-/
namespace GambitV.Tie.Py
open GambitV

/-- the cell an attribute path of the exporter denotes on the model's item record (`none` = a path the model does not know) -/
def pathCell (it : ItemRec) : String → Option (List Char)
  | "input.label" => some it.label
  | "report_taxon.name" => some (optCell (it.report.map (·.name)))
  | "report_taxon.rank" => some (optCell (it.report.bind (·.rank)))
  | "report_taxon.ncbi_id" => some (optCell (it.report.bind (·.ncbiId)))
  | "report_taxon.distance_threshold" => some (optCell (it.report.bind (·.threshold)))
  | "classifier_result.closest_match.distance" => some it.closestMatch.distanceText
  | "classifier_result.closest_match.genome.description" => some it.closestMatch.genome.description
  | "classifier_result.next_taxon.name" => some (optCell (it.next.map (·.name)))
  | "classifier_result.next_taxon.rank" => some (optCell (it.next.bind (·.rank)))
  | "classifier_result.next_taxon.ncbi_id" => some (optCell (it.next.bind (·.ncbiId)))
  | "classifier_result.next_taxon.distance_threshold" => some (optCell (it.next.bind (·.threshold)))
  | _ => none

/-- the header the source's table gives is the model's header -/
theorem csv_header_eq : Gen.pyCsvColumns.map (fun c => c.1.toList) = csvHeader := by decide

/-- every row the source's table gives is the model's row, for every item -/
theorem csv_row_eq (it : ItemRec) : Gen.pyCsvColumns.map (fun c => pathCell it c.2) = (csvRow it).map some := by
  simp [Gen.pyCsvColumns, pathCell, csvRow]

theorem csv_structural_facts : Gen.pyCsvHeaderIsNames = true ∧ Gen.pyCsvRowIsPaths = true := by decide

end GambitV.Tie.Py
