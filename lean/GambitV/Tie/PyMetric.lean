import GambitV.Gen.PyMetric
import GambitV.Props.C02
import GambitV.Lemmas.PyRt

/-!
Tie of the machine-generated translation of `gambit/metric.py` (`GambitV.Gen.PyMetric`: `_cast_sigs_array`, `jaccard`,
`jaccarddist`, `num_pairs`) to the hand-written model (`GambitV.Model.Jaccard`: `castDtype`, `asUnsigned`, `jaccardBits`,
`jaccardIndexBits`), and the C02 property carried over to the translated wrappers.
-/
namespace GambitV.Tie.Py
open GambitV

/-- the values of an accepted array as the kernels read them: unsigned types as they are, signed types through their two's-complement view -/
def castVals (a : Py.Arr) : List Nat :=
  if a.dtype.kind = 'u' then a.vals.map Int.toNat else a.vals.map (asUnsigned a.dtype.size)

/-- `_cast_sigs_array`: exactly the six native 16/32/64-bit integer types are accepted (`castDtype`); unsigned arrays are returned as they
are, signed ones viewed as unsigned of the same width; anything else is a `ValueError` -/
theorem cast_sigs_array_eq (a : Py.Arr) :
    Gen.cast_sigs_array a = (match castDtype a.dtype.kind a.dtype.size a.dtype.native with
      | some w => .ok { dtype := { kind := 'u', size := w, native := true },
                        vals := if a.dtype.kind = 'u' then a.vals else a.vals.map (fun v => (asUnsigned a.dtype.size v : Int)) }
      | none => .raised .ValueError) := by
  obtain ⟨⟨k, sz, nat⟩, vals⟩ := a
  cases h : castDtype k sz nat with
  | some w =>
    rw [C02.castDtype_spec] at h
    obtain ⟨rfl, hk, hs, rfl⟩ := h
    rcases hk with rfl | rfl <;> rcases hs with rfl | rfl | rfl <;> rfl
  | none =>
    have hu : ([({ kind := 'u', size := 2, native := true } : Py.DType), ({ kind := 'u', size := 4, native := true } : Py.DType), ({ kind := 'u', size := 8, native := true } : Py.DType)]).contains ⟨k, sz, nat⟩ = false := by
      rw [Bool.eq_false_iff]
      intro hc
      simp only [List.contains_iff_mem, List.mem_cons, Py.DType.mk.injEq, List.not_mem_nil, or_false] at hc
      have : castDtype k sz nat = some sz := by
        rw [C02.castDtype_spec]; rcases hc with ⟨rfl, rfl, rfl⟩ | ⟨rfl, rfl, rfl⟩ | ⟨rfl, rfl, rfl⟩ <;> simp
      rw [h] at this; cases this
    have hi : ([({ kind := 'i', size := 2, native := true } : Py.DType), ({ kind := 'i', size := 4, native := true } : Py.DType), ({ kind := 'i', size := 8, native := true } : Py.DType)]).contains ⟨k, sz, nat⟩ = false := by
      rw [Bool.eq_false_iff]
      intro hc
      simp only [List.contains_iff_mem, List.mem_cons, Py.DType.mk.injEq, List.not_mem_nil, or_false] at hc
      have : castDtype k sz nat = some sz := by
        rw [C02.castDtype_spec]; rcases hc with ⟨rfl, rfl, rfl⟩ | ⟨rfl, rfl, rfl⟩ | ⟨rfl, rfl, rfl⟩ <;> simp
      rw [h] at this; cases this
    unfold Gen.cast_sigs_array Gen.cast_sigs_array.run
    simp only [hu, hi, bind, Except.bind, pure, Except.pure, Bool.false_eq_true, if_false, throw, throwThe, MonadExceptOf.throw, Py.finish_exc]


theorem asUnsigned_toNat (w : Nat) (v : Int) : ((asUnsigned w v : Nat) : Int).toNat = asUnsigned w v := Int.toNat_natCast _

/-- an accepted array: the cast succeeds, the result has a kernel type, and the kernels read `castVals` -/
theorem cast_sigs_array_ok (a : Py.Arr) (w : Nat) (h : castDtype a.dtype.kind a.dtype.size a.dtype.native = some w) :
    ∃ r, Gen.cast_sigs_array a = .ok r ∧ r.dtype.kernelOk = true ∧ r.natVals = castVals a := by
  rw [cast_sigs_array_eq, h]
  refine ⟨_, rfl, ?_, ?_⟩
  · rw [C02.castDtype_spec] at h
    obtain ⟨-, -, hs, rfl⟩ := h
    rcases hs with hs | hs | hs <;> simp [Py.DType.kernelOk, hs]
  · unfold Py.Arr.natVals castVals
    by_cases hk : a.dtype.kind = 'u'
    · simp only [hk, if_true]
    · simp only [hk, if_false, List.map_map]
      apply List.map_congr_left
      intro v _
      exact asUnsigned_toNat _ _

theorem cast_sigs_array_bad (a : Py.Arr) (h : castDtype a.dtype.kind a.dtype.size a.dtype.native = none) :
    Gen.cast_sigs_array a = .raised .ValueError := by
  rw [cast_sigs_array_eq, h]

/-- `jaccarddist` / `jaccard` (Python wrappers): the kernel's value on the unsigned views, whatever the two integer types -/
theorem jaccarddist_eq (a b : Py.Arr) (wa wb : Nat)
    (ha : castDtype a.dtype.kind a.dtype.size a.dtype.native = some wa) (hb : castDtype b.dtype.kind b.dtype.size b.dtype.native = some wb) :
    Gen.jaccarddist a b = .ok (jaccardBits (castVals a) (castVals b)) := by
  obtain ⟨ra, ea, ka, va⟩ := cast_sigs_array_ok a wa ha
  obtain ⟨rb, eb, kb, vb⟩ := cast_sigs_array_ok b wb hb
  unfold Gen.jaccarddist Gen.jaccarddist.run
  simp only [ea, eb, ka, kb, va, vb, bind, Except.bind, Py.call_ok, Bool.and_self, Bool.not_true,
    Py.guard_false, throw, throwThe, MonadExceptOf.throw, Py.finish_ret]

theorem jaccard_eq (a b : Py.Arr) (wa wb : Nat)
    (ha : castDtype a.dtype.kind a.dtype.size a.dtype.native = some wa) (hb : castDtype b.dtype.kind b.dtype.size b.dtype.native = some wb) :
    Gen.jaccard a b = .ok (jaccardIndexBits (castVals a) (castVals b)) := by
  obtain ⟨ra, ea, ka, va⟩ := cast_sigs_array_ok a wa ha
  obtain ⟨rb, eb, kb, vb⟩ := cast_sigs_array_ok b wb hb
  unfold Gen.jaccard Gen.jaccard.run
  simp only [ea, eb, ka, kb, va, vb, bind, Except.bind, Py.call_ok, Bool.and_self, Bool.not_true,
    Py.guard_false, throw, throwThe, MonadExceptOf.throw, Py.finish_ret]

theorem jaccarddist_bad (a b : Py.Arr)
    (h : castDtype a.dtype.kind a.dtype.size a.dtype.native = none ∨ castDtype b.dtype.kind b.dtype.size b.dtype.native = none) :
    Gen.jaccarddist a b = .raised .ValueError ∧ Gen.jaccard a b = .raised .ValueError := by
  cases ha : castDtype a.dtype.kind a.dtype.size a.dtype.native with
  | none =>
    have ea := cast_sigs_array_bad a ha
    constructor
    · unfold Gen.jaccarddist Gen.jaccarddist.run
      simp only [ea, bind, Except.bind, Py.call_raised, Py.finish_exc]
    · unfold Gen.jaccard Gen.jaccard.run
      simp only [ea, bind, Except.bind, Py.call_raised, Py.finish_exc]
  | some wa =>
    have hb : castDtype b.dtype.kind b.dtype.size b.dtype.native = none := by
      rcases h with h | h
      · rw [ha] at h; cases h
      · exact h
    obtain ⟨ra, ea, -, -⟩ := cast_sigs_array_ok a wa ha
    have eb := cast_sigs_array_bad b hb
    constructor
    · unfold Gen.jaccarddist Gen.jaccarddist.run
      simp only [ea, eb, bind, Except.bind, Py.call_ok, Py.call_raised, Py.finish_exc]
    · unfold Gen.jaccard Gen.jaccard.run
      simp only [ea, eb, bind, Except.bind, Py.call_ok, Py.call_raised, Py.finish_exc]

theorem num_pairs_eq (n : Nat) : Gen.num_pairs (n : Int) = .ok ((n * (n - 1) / 2 : Nat) : Int) := by
  unfold Gen.num_pairs Gen.num_pairs.run
  have hg : decide ((2 : Int) = 0) = false := by decide
  simp only [hg, bind, Except.bind, Py.guard_false, throw, throwThe, MonadExceptOf.throw, Py.finish_ret]
  congr 1
  unfold Py.floorDiv
  have hprod : (n : Int) * ((n : Int) - 1) = ((n * (n - 1) : Nat) : Int) := by
    cases n with
    | zero => simp
    | succ m => simp
  rw [hprod, Int.fdiv_eq_ediv_of_nonneg _ (by decide : (0 : Int) ≤ 2)]
  norm_cast

/-- PROPERTY (C02) of the translated wrapper: for sorted duplicate-free non-negative index arrays in any mix of the six integer types with
fewer than 2^24 elements in the union, the reported distance is the exact ratio |A△B| / |A∪B| rounded once to binary32, and the reported
index is one minus it -/
theorem py_jaccarddist_correctly_rounded (a b : Py.Arr) (wa wb : Nat)
    (ha : castDtype a.dtype.kind a.dtype.size a.dtype.native = some wa) (hb : castDtype b.dtype.kind b.dtype.size b.dtype.native = some wb)
    (sa : (castVals a).Pairwise (· < ·)) (sb : (castVals b).Pairwise (· < ·)) (hu : unionCount (castVals a) (castVals b) < 2 ^ 24) :
    Gen.jaccarddist a b = .ok (jaccardSpecBits (symmDiff (castVals a).toFinset (castVals b).toFinset).card ((castVals a).toFinset ∪ (castVals b).toFinset).card)
    ∧ Gen.jaccard a b = .ok (F32.sub F32.oneBits (jaccardSpecBits (symmDiff (castVals a).toFinset (castVals b).toFinset).card ((castVals a).toFinset ∪ (castVals b).toFinset).card)) := by
  rw [jaccarddist_eq a b wa wb ha hb, jaccard_eq a b wa wb ha hb, C02.index_eq_one_sub,
    C02.jaccard_correctly_rounded sa sb hu]
  exact ⟨rfl, rfl⟩

/-- width irrelevance: two arrays holding the same non-negative values in different accepted integer types give the same distance -/
theorem py_width_irrelevant (a a' b : Py.Arr) (wa wa' wb : Nat)
    (ha : castDtype a.dtype.kind a.dtype.size a.dtype.native = some wa) (ha' : castDtype a'.dtype.kind a'.dtype.size a'.dtype.native = some wa')
    (hb : castDtype b.dtype.kind b.dtype.size b.dtype.native = some wb) (hv : castVals a = castVals a') :
    Gen.jaccarddist a b = Gen.jaccarddist a' b ∧ Gen.jaccarddist b a = Gen.jaccarddist b a' := by
  rw [jaccarddist_eq a b wa wb ha hb, jaccarddist_eq a' b wa' wb ha' hb, jaccarddist_eq b a wb wa hb ha,
    jaccarddist_eq b a' wb wa' hb ha', hv]
  exact ⟨rfl, rfl⟩

/-! ### non-vacuity (`unionCount` is defined by well-founded recursion, so the two value examples go through the kernel evaluator, as in `Props/C02.lean`) -/

example : Gen.jaccarddist {dtype := ⟨'u', 2, true⟩, vals := [1,2,3]} {dtype := ⟨'i', 8, true⟩, vals := [2,3,4]} = .ok 0x3F000000 := by decide +kernel
example : Gen.jaccard {dtype := ⟨'i', 4, true⟩, vals := [1,2,3]} {dtype := ⟨'u', 8, true⟩, vals := [2,3,4]} = .ok 0x3F000000 := by decide +kernel
example : Gen.jaccarddist {dtype := ⟨'f', 4, true⟩, vals := [1,2,3]} {dtype := ⟨'i', 8, true⟩, vals := [2,3,4]} = .raised .ValueError := by decide
example : Gen.jaccarddist {dtype := ⟨'u', 2, true⟩, vals := [1,2,3]} {dtype := ⟨'u', 1, true⟩, vals := [2,3,4]} = .raised .ValueError := by decide
example : Gen.jaccard {dtype := ⟨'u', 2, false⟩, vals := [1,2,3]} {dtype := ⟨'u', 4, true⟩, vals := [2,3,4]} = .raised .ValueError := by decide
example : Gen.cast_sigs_array {dtype := ⟨'i', 2, true⟩, vals := [-1, 5]} = .ok {dtype := ⟨'u', 2, true⟩, vals := [65535, 5]} := by decide
example : castVals {dtype := ⟨'i', 2, true⟩, vals := [-1, 5]} = [65535, 5] := by decide
example : Gen.num_pairs 5 = .ok 10 := by decide
example : Gen.num_pairs 0 = .ok 0 := by decide

end GambitV.Tie.Py
