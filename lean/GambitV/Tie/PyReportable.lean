import GambitV.Gen.PyReportable
import GambitV.Lemmas.PyRt
import GambitV.Lemmas.TiePyBatch2

/-!
Tie: the generated translation of `reportable_taxon` (`gambit/db/models.py`) equals the hand-written model
`reportable` of `Model/Taxonomy.lean`.  Core Lean only.
-/
namespace GambitV.Tie.Py
open GambitV GambitV.Py GambitV.TieB2

theorem reportable_taxon_eq (F : Forest) (t : Option Nat) :
    Gen.reportable_taxon F t = .ok (reportable F t) := by
  unfold Gen.reportable_taxon Gen.reportable_taxon.run
  cases t with
  | none =>
    simp only [Option.isNone_none, if_true, bind, Except.bind, throw, throwThe, MonadExceptOf.throw, Py.finish_ret,
      reportable]
  | some t =>
    simp only [Option.isNone_some, Bool.false_eq_true, if_false, bind, Except.bind, pure, Except.pure,
      Option.getD_some, reportable]
    generalize hw : Py.forEach _ _ _ = w
    rcases forEach_findRet' hw (fun _ => True) (fun a => F.reportOf a) (fun a => some a)
        (by intro x s _ hp; simp only [hp, if_true]; rfl)
        (by intro x s _ hp; exact ⟨_, by simp only [hp, Bool.false_eq_true, if_false]; rfl, trivial⟩)
        trivial with ⟨a, hf, rfl⟩ | ⟨hf, s', rfl, _⟩
    · simp only [hf, Py.finish_ret]
    · simp only [hf, throw, throwThe, MonadExceptOf.throw, Py.finish_ret]

/-! non-vacuity: the generated function evaluated on a concrete forest -/

/-- `0 ← 1 ← 3`, `0 ← 2`, `4` isolated; nodes 1, 3 and 4 are not reportable -/
def demoForestR : Forest :=
  { parent := [none, some 0, some 0, some 1, none], thr := [some 5, some 3, some 3, none, some 2],
    report := [true, false, true, false, false] }

example : Gen.reportable_taxon demoForestR (some 3) = .ok (some 0) := by decide
example : Gen.reportable_taxon demoForestR (some 2) = .ok (some 2) := by decide
example : Gen.reportable_taxon demoForestR (some 4) = .ok none := by decide
example : Gen.reportable_taxon demoForestR none = .ok none := by decide

end GambitV.Tie.Py
