import GambitV.Tie.PyDmatCsv
import GambitV.Props.C16

/-!
C16 stated of the translated `dump_dmat_csv`: the file the distance command writes — the rows the *current* source hands to the csv writer,
in the default dialect — parses back to exactly those rows: the header with the column labels, then for every query its label and the
four-decimal rendering of its distances, whatever characters the labels contain.
-/
namespace GambitV.Tie.Py
open GambitV

theorem py_dist_csv_parses (dmat : List (List UInt32)) (rowIds colIds : List (List Char)) (hlen : rowIds.length = dmat.length) :
    ∃ rows, Gen.dump_dmat_csv () dmat rowIds colIds none "0.4f".toList = .ok rows
      ∧ parseCsv (writeCsv ['\r', '\n'] rows) = rows
      ∧ rows = ([] :: colIds) :: (rowIds.zip dmat).map (fun rc => rc.1 :: rc.2.map (fun b => (F32.fmt4 b).toList)) := by
  refine ⟨_, dump_dmat_csv_eq dmat rowIds colIds none hlen, ?_, rfl⟩
  have h := C16.distCsv_parse rowIds colIds dmat hlen
  unfold distCsv at h
  simpa using h

end GambitV.Tie.Py
