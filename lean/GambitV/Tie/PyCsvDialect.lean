import GambitV.Gen.PyCsvDialect

/-!
Tie (structural facts): the dialect of the CSV exporter (`\\n` line terminator, minimal quoting — what `writeCsv` models), as it stands in the current source.  Each fact says that one function consists of exactly the expected
statements, one class has exactly the expected shape, or one constant the expected value (harness/flow_facts.json; compared as normalised `ast`
text by harness/pytrace.py on every run); reading these as the models do is part of the trusted base (DESIGN §3).
-/
namespace GambitV.Tie.Py
open GambitV

theorem csv_dialect_facts :
    Gen.pyCsvDialect_init = true := by decide

end GambitV.Tie.Py
