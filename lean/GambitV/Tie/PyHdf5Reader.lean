import GambitV.Gen.PyHdf5Reader

/-!
Tie: what `HDF5Signatures.__init__` checks and reads when a signature file is opened, read off the *current* source by harness/pytrace.py on
every run — the reader side of the file model (`Model/SigFile.lean`; the writer side is the storage-call trace of `Tie/PyHdf5.lean`): the
format marker is checked first and a group without it refused with the dedicated error, then the version; the k-mer parameters, metadata,
`values`, `bounds` and `ids` are read from the attributes and datasets the writer's trace creates under the same names; string IDs are decoded.
Together with `Tie/PyClassFacts.lean` (no indexing method overridden) and `Tie/PyGetitem.lean` this is what "for every index, slice or index list,
the same signatures" of C12 rests on for a loaded file.  Structural; core Lean only.
-/
namespace GambitV.Tie.Py

theorem reader_structural_facts :
    Gen.pyReader_marker = true ∧ Gen.pyReader_version = true ∧ Gen.pyReader_kmerspec = true ∧ Gen.pyReader_meta = true
      ∧ Gen.pyReader_datasets = true ∧ Gen.pyReader_ids = true ∧ Gen.pyReader_order = true := by
  decide

end GambitV.Tie.Py
