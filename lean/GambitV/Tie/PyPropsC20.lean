import GambitV.Tie.PyCheckIndex
import GambitV.Props.C20

/-!
Property-level statements about the definitions translated from the current Python sources (`GambitV.Gen.*`, regenerated on every run):
the tie theorems composed with the property theorems of `Props/`.  C20: index checking.
-/
namespace GambitV.Tie.Py
open GambitV

-- C20 ------------------------------------------------------------------------------------------
/-- the translated `_check_index` accepts exactly `-n ≤ i < n` and returns the non-negative position -/
theorem py_check_index_spec (n : Nat) (i : Int) :
    (Gen.check_index (n : Int) i = .raised .IndexError ∧ ¬(-(n : Int) ≤ i ∧ i < n))
    ∨ (∃ j : Nat, Gen.check_index (n : Int) i = .ok (j : Int) ∧ j < n ∧ ((j : Int) = i ∨ (j : Int) = i + n) ∧ -(n : Int) ≤ i ∧ i < n) := by
  rw [check_index_eq]
  cases hci : checkIndex n i with
  | error e =>
    left
    have := (C20.checkIndex_error n i e hci).2
    exact ⟨rfl, by omega⟩
  | ok j =>
    right
    have := (C20.checkIndex_ok_iff n i j).1 hci
    exact ⟨j, rfl, by omega, by omega, by omega, by omega⟩

end GambitV.Tie.Py
