import GambitV.Gen.PySeqBytes

/-!
Tie (structural fact): `gambit.seq.seq_to_bytes` — the conversion every sequence goes through before it is searched — as it stands in the current
source: bytes and bytearray as they are, text encoded as ASCII character for character, a Biopython `Seq` through `bytes()`.  The models take a
sequence as its bytes; a conversion that dropped or changed characters would shift every position (harness/flow_facts.json; DESIGN §3).
-/
namespace GambitV.Tie.Py
open GambitV

theorem seq_bytes_facts : Gen.pySeqBytes_seqToBytes = true := by decide

end GambitV.Tie.Py
