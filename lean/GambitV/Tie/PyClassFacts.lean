import GambitV.Gen.PyClassFacts

/-!
Tie: the method resolution the translated indexing methods rely on (`harness/py2lean.py` resolves `self._getitem_slice(…)` inside the one source
function `AdvancedIndexingMixin.__getitem__` to `Gen.concat_getitem_slice` for the packed collections and to `Gen.siglist_getitem_slice` for the
list-backed one), read off the *current* sources on every run: the mixin precedes `AbstractSignatureArray` among the bases of both collection
classes (so its `__getitem__` is the one that runs), each class defines exactly the indexing methods the tables name, and `SignatureArray`,
`HDF5Signatures`, `ReferenceSignatures` override none of them, and the annotated wrapper delegates indexing, length and parameters to the
collection it wraps — what is proved of `Gen.concat_getitem` (`Tie/PyGetitem.lean`) is therefore about
`SignatureArray.__getitem__` and `HDF5Signatures.__getitem__` alike.  Structural; core Lean only.
-/
namespace GambitV.Tie.Py

theorem class_structure_facts :
    Gen.pyClass_concatBases = true ∧ Gen.pyClass_concatMethods = true ∧ Gen.pyClass_arrayInherits = true ∧ Gen.pyClass_hdf5Inherits = true
      ∧ Gen.pyClass_listBases = true ∧ Gen.pyClass_listMethods = true ∧ Gen.pyClass_mixinMethods = true ∧ Gen.pyClass_refSigsNeutral = true
      ∧ Gen.pyClass_annotatedDelegates = true := by
  decide

end GambitV.Tie.Py
