import GambitV.Gen.PyCalcFile
import GambitV.Tie.PyCalcSig
import GambitV.Props.C06

/-!
Tie of the machine-translated `gambit.sigs.calc.calc_file_signature` (`GambitV.Gen.calc_file_signature`; environment `RECS` = the sequences of the
records `seqfile.parse()` yields, in file order): it is `calc_signature` over exactly those sequences, with the accumulator it was given — so the
signature of a file is the specification list over its records (`py_calc_signature_spec`), which is what the properties of C06 (contig order,
orientation, case, line structure) are stated about.  Core Lean only.
-/
namespace GambitV.Tie.Py
open GambitV GambitV.Py

theorem calc_file_signature_eq (recs : List (List UInt8)) (ks : Py.KSpec) (acc : Option Py.Acc) :
    Gen.calc_file_signature recs ks () acc = Gen.calc_signature ks recs acc := by
  unfold Gen.calc_file_signature Gen.calc_file_signature.run
  cases h : Gen.calc_signature ks recs acc <;>
    simp [h, Py.call, Py.finish, bind, Except.bind, throw, throwThe, MonadExceptOf.throw]

/-- the signature of a file, as the source has it now: the sorted duplicate-free indices of all prefix-anchored k-mers on both strands of
all its records -/
theorem py_file_signature_spec (k : Nat) (pre : List UInt8) (recs : List (List UInt8)) (hk : 1 ≤ k) (hk32 : k ≤ 32) (hp : pre ≠ [])
    (hpre : ∀ b ∈ pre, b ∈ [65, 67, 71, 84]) :
    Gen.calc_file_signature recs { k := (k : Int), pre := pre } () none = .ok ((specList k pre recs).map (fun (x : Nat) => (x : Int))) := by
  rw [calc_file_signature_eq, py_calc_signature_spec k pre recs hk hk32 hp hpre]

/-- the file signature computed by the current source, in the model's terms -/
theorem py_file_signature_model (k : Nat) (pre : List UInt8) (recs : List (List UInt8)) (hk : 1 ≤ k) :
    Gen.calc_file_signature recs { k := (k : Int), pre := pre } () none = .ok ((signature k pre recs).map (fun (x : Nat) => (x : Int))) := by
  rw [calc_file_signature_eq, calc_signature_eq k pre recs hk]

/-- PROPERTY (C06) of the translated code: the file signature does not depend on the order of the records, on the orientation of any of
them, or on letter case -/
theorem py_file_signature_invariant {k : Nat} {pre : List UInt8} (wf : C01.WF k pre) (recs recs' : List (List UInt8))
    (h : recs.Perm recs' ∨ List.Forall₂ (fun a b => b = a ∨ b = revcomp a) recs recs' ∨ List.Forall₂ (fun a b => upper a = upper b) recs recs') :
    Gen.calc_file_signature recs' { k := (k : Int), pre := pre } () none = Gen.calc_file_signature recs { k := (k : Int), pre := pre } () none := by
  rw [py_file_signature_model k pre recs' wf.1, py_file_signature_model k pre recs wf.1]
  rcases h with h | h | h
  · rw [C06.signature_perm wf recs recs' h]
  · rw [C06.signature_revcomp_any wf recs recs' h]
  · rw [C06.signature_case wf recs recs' h]

/-- … and it is the union of the signatures of the records taken one at a time (no k-mer spans two records) -/
theorem py_file_signature_union {k : Nat} {pre : List UInt8} (wf : C01.WF k pre) (recs : List (List UInt8)) :
    Gen.calc_file_signature recs { k := (k : Int), pre := pre } () none
      = .ok ((setAccumulate (recs.flatMap (fun s => signature k pre [s]))).map (fun (x : Nat) => (x : Int))) := by
  rw [py_file_signature_model k pre recs wf.1, C06.signature_union wf recs]

example : Gen.calc_file_signature [[65, 67, 71, 84, 65, 67]] { k := 2, pre := [65] } () none = .ok [6] := by decide

end GambitV.Tie.Py
