import GambitV.Gen.PyBindings

/-!
Tie: the public names through which the k-mer kernels are reached are the compiled functions themselves, read off the *current* sources by
harness/pytrace.py on every run: `gambit.seq.revcomp` and `gambit.kmers.index_to_kmer` are imported from `gambit._cython.kmers` and bound by nothing
else in their modules; `revcomp` in `gambit.kmers` is `gambit.seq.revcomp`; `ckmers` is the compiled module.  The functions behind these names are
the ones `harness/pyx2lean.py` regenerates from the `.pyx` (`Tie/Kmers.lean`); a Python re-implementation put under one of these names (seeded change
C07-w7m1: a `bytes.translate` version of `revcomp` that also complements the IUPAC ambiguity codes) makes a fact `false`.  Core Lean only.
-/
namespace GambitV.Tie.Py

theorem kmer_binding_facts :
    Gen.pyBind_seqRevcomp = true ∧ Gen.pyBind_kmersIndexToKmer = true ∧ Gen.pyBind_kmersRevcomp = true ∧ Gen.pyBind_kmersModule = true := by
  decide

end GambitV.Tie.Py
