import GambitV.Model.JsonResultsFull
import GambitV.Props.C11Json
import GambitV.Props.C11JsonSpec
import GambitV.Tie.PyJsonProps

/-!
C11, JSON export of a whole results object: the dump never fails and writes exactly the documented document ("the JSON export is valid JSON
carrying …") whatever JSON-native extra metadata the results and the signatures carry and whatever the parameters are.
-/
namespace GambitV.Json

private theorem encodeList_of (ex : Exporter) (k : Nat) (f : PVal → PVal) (flist : List PVal → List PVal)
    (hnil : flist [] = []) (hcons : ∀ x xs, flist (x :: xs) = f x :: flist xs) :
    ∀ xs : List PVal, (∀ x ∈ xs, encode ex k (f x) = some (plainJson x)) → encodeList ex k (flist xs) = some (plainJsonList xs)
  | [], _ => by simp [hnil, encodeList, plainJsonList]
  | x :: xs, h => by
    have ih := encodeList_of ex k f flist hnil hcons xs (fun y hy => h y (List.mem_cons_of_mem _ hy))
    simp [hcons, encodeList, plainJsonList, h x (by simp), ih]

private theorem encodeFields_of (ex : Exporter) (k : Nat) (f : PVal → PVal) (ffields : List (List Char × PVal) → List (List Char × PVal))
    (hnil : ffields [] = []) (hcons : ∀ key v rest, ffields ((key, v) :: rest) = (key, f v) :: ffields rest) :
    ∀ kvs : List (List Char × PVal), (∀ kv ∈ kvs, encode ex k (f kv.2) = some (plainJson kv.2)) →
      encodeFields ex k (ffields kvs) = some (plainJsonFields kvs)
  | [], _ => by simp [hnil, encodeFields, plainJsonFields]
  | (key, v) :: rest, h => by
    have ih := encodeFields_of ex k f ffields hnil hcons rest (fun y hy => h y (List.mem_cons_of_mem _ hy))
    have hv := h (key, v) (by simp)
    simp only at hv
    simp [hcons, encodeFields, plainJsonFields, hv, ih]

/-- the converter leaves of a plain value what `json` writes for it -/
private theorem encode_unstructure_plain (ex : Exporter) (n : Nat) (v : PVal) (h : Plain v) :
    encode ex (n + 1) (unstructure v) = some (plainJson v) := by
  induction h with
  | none => simp [unstructure, encode, plainJson]
  | bool b => simp [unstructure, encode, plainJson]
  | int i => simp [unstructure, encode, plainJson]
  | float b => simp [unstructure, encode, plainJson]
  | str s => simp [unstructure, encode, plainJson]
  | hooked s => simp [unstructure, encode, plainJson]
  | list xs _ ih =>
    have := encodeList_of ex (n + 1) unstructure unstructureList (by simp [unstructureList]) (by intros; simp [unstructureList]) xs ih
    simp [unstructure, encode, plainJson, this]
  | dict kvs _ ih =>
    have := encodeFields_of ex (n + 1) unstructure unstructureFields (by simp [unstructureFields]) (by intros; simp [unstructureFields]) kvs ih
    simp [unstructure, encode, plainJson, this]

/-- a plain value is written as it is, under any exporter, with any fuel that lets a hooked object through -/
theorem encode_plain (ex : Exporter) (n : Nat) (v : PVal) (h : Plain v) : encode ex (n + 1) v = some (plainJson v) := by
  induction h with
  | none => simp [encode, plainJson]
  | bool b => simp [encode, plainJson]
  | int i => simp [encode, plainJson]
  | float b => simp [encode, plainJson]
  | str s => simp [encode, plainJson]
  | hooked s => simp [encode_hooked, plainJson]
  | list xs _ ih =>
    have := encodeList_of ex (n + 1) id id rfl (fun _ _ => rfl) xs ih
    simp only [id] at this
    simp [encode, plainJson, this]
  | dict kvs _ ih =>
    have := encodeFields_of ex (n + 1) id id rfl (fun _ _ _ => rfl) kvs ih
    simp only [id] at this
    simp [encode, plainJson, this]

theorem encodeFields_plain (ex : Exporter) (n : Nat) (kvs : List (List Char × PVal)) (h : ∀ kv ∈ kvs, Plain kv.2) :
    encodeFields ex (n + 1) kvs = some (plainJsonFields kvs) := by
  have := encodeFields_of ex (n + 1) id id rfl (fun _ _ _ => rfl) kvs (fun kv hkv => encode_plain ex n kv.2 (h kv hkv))
  simpa only [id] using this

private theorem encode_json_genomeset (n : Nat) (g : JGenomeSet) : encode jsonExporter (n + 1) g.toPVal = some (genomeSetJson g) := by
  have ht : toJson jsonExporter g.toPVal = some (.dict
      [("id".toList, .int g.id), ("key".toList, .str g.key), ("version".toList, optStr g.version), ("name".toList, optStr g.name),
       ("description".toList, optStr g.description)]) := by
    simp [JGenomeSet.toPVal, toJson, jsonExporter_eq, evalFields, JExpr.eval, walk, PVal.getattr?, lookup]
  rw [JGenomeSet.toPVal, encode_inst, ← JGenomeSet.toPVal, ht]
  simp [genomeSetJson, encode, encodeFields, encode_optStr]

private theorem encode_json_sigmeta (n : Nat) (m : JSigMeta) (hm : ∀ kv ∈ m.extra, Plain kv.2) :
    encode jsonExporter (n + 2) m.toPVal = some (sigMetaJson m) := by
  have ht : toJson jsonExporter m.toPVal = some (.dict
      [("id".toList, optStr m.id), ("name".toList, optStr m.name), ("version".toList, optStr m.version), ("id_attr".toList, optStr m.idAttr),
       ("description".toList, optStr m.description), ("extra".toList, unstructure (.dict m.extra))]) := by
    have hl : lookup "SignaturesMeta".toList jsonExporter = none := by simp [jsonExporter_eq, lookup]
    simp only [JSigMeta.toPVal, toJson, hl, if_true, unstructure, unstructureFields, unstructure_optStr]
  have hx := encode_unstructure_plain jsonExporter n (.dict m.extra) (Plain.dict _ hm)
  rw [JSigMeta.toPVal, encode_inst, ← JSigMeta.toPVal, ht]
  simp [sigMetaJson, encode, encodeFields, encode_optStr, hx, plainJson]

/-- **the whole document**: for every results object whose extra metadata are JSON-native the export succeeds and is `resultsJson` -/
theorem json_results_full (n : Nat) (r : JResults) (hx : ∀ kv ∈ r.extra, Plain kv.2) (hm : ∀ kv ∈ r.sigmeta.extra, Plain kv.2) :
    encode jsonExporter (n + 6) r.toPVal = some (resultsJson r) := by
  unfold JResults.toPVal resultsJson
  refine json_results n r.items r.params _ _ ?_ ?_
  · intro kv hkv
    simp only [List.mem_cons, List.not_mem_nil, or_false] at hkv
    rcases hkv with rfl | rfl | rfl | rfl | rfl <;> simp
  · have hxj := encodeFields_plain jsonExporter (n + 4) r.extra hx
    simp [encodeFields, encode, encode_json_genomeset (n + 4), encode_json_sigmeta (n + 3) r.sigmeta hm, encode_hooked, hxj]

/-- … it carries label, reported taxon, next taxon and closest genomes of every query, in order -/
theorem json_results_full_carries (r : JResults) : resultsCarried r.toPVal (resultsJson r) = true := by
  unfold JResults.toPVal resultsJson
  exact resultsCarried_json r.items r.params _ _

/-- … and the same holds of the conversion rules as the current source has them -/
theorem py_json_results_full (n : Nat) (r : JResults) (hx : ∀ kv ∈ r.extra, Plain kv.2) (hm : ∀ kv ∈ r.sigmeta.extra, Plain kv.2) :
    ∃ j, encode Gen.pyJsonExporter (n + 6) r.toPVal = some j ∧ resultsCarried r.toPVal j = true := by
  refine ⟨resultsJson r, ?_, json_results_full_carries r⟩
  rw [GambitV.Tie.Py.json_rules_eq]
  exact json_results_full n r hx hm

/-- the parameters do not reach the document: two results objects that differ in their parameters only are exported alike -/
theorem json_results_params_irrelevant (n : Nat) (r : JResults) (p : PVal) :
    encode jsonExporter (n + 6) ({ r with params := p }).toPVal = encode jsonExporter (n + 6) r.toPVal := by
  have ht : ∀ q : PVal, ∀ rest : List (List Char × PVal), (∀ kv ∈ rest, kv.1 ≠ "params".toList) →
      toJson jsonExporter (.inst "QueryResults".toList true
        (("items".toList, .list (r.items.map JItem.toPVal)) :: ("params".toList, q) :: rest))
      = some (.dict (("items".toList, .list (r.items.map JItem.toPVal)) :: rest)) := by
    intro q rest hrest
    have hf : rest.filter (fun kv => !(["params".toList].contains kv.1)) = rest := by
      rw [List.filter_eq_self]
      intro kv hkv
      have := hrest kv hkv
      simpa using this
    have h1 : lookup "QueryResults".toList jsonExporter = some (.asdictExcept ["params".toList]) := by
      simp [jsonExporter_eq, lookup]
    have h2 : (["params".toList].contains "items".toList) = false := by simp
    have h3 : (["params".toList].contains "params".toList) = true := by simp
    simp only [toJson, h1, if_true, List.filter_cons, h2, h3, hf, Bool.not_false, Bool.not_true, Bool.false_eq_true, if_false]
  have hrest : ∀ kv ∈ [("genomeset".toList, r.genomeset.toPVal), ("signaturesmeta".toList, r.sigmeta.toPVal),
      ("gambit_version".toList, PVal.str r.gambitVersion), ("timestamp".toList, PVal.hooked r.timestamp),
      ("extra".toList, PVal.dict r.extra)], kv.1 ≠ "params".toList := by
    intro kv hkv
    simp only [List.mem_cons, List.not_mem_nil, or_false] at hkv
    rcases hkv with rfl | rfl | rfl | rfl | rfl <;> simp
  unfold JResults.toPVal
  rw [encode_inst, encode_inst, ht p _ hrest, ht r.params _ hrest]

end GambitV.Json
