import GambitV.Model.Schedule
namespace GambitV.C13
end GambitV.C13
