import GambitV.Lemmas.Schedule

/-!
# C13 — the concurrent signature calculation returns one signature per file, in file order

`Model/Schedule.lean` follows the executor branch of `calc_file_signatures`: one task per file,
`sigs = [None] * n`, and as the futures complete — in *some* order `σ`, a permutation of
`0..n-1` — `sigs[i] = future.result()`, where `result()` re-raises the worker's exception; then
`assert all(sig is not None for sig in sigs)`.  `calcSeq` is the branch without an executor.

Every theorem below is stated for an arbitrary completion order `σ`.  Helper lemmas live in
`Lemmas/Schedule.lean`.  Core Lean only.
-/
namespace GambitV.C13
open GambitV

/-! ### The completion loop -/

/-- If every task succeeds, the loop ends with cell `i` holding task `i`'s result — for every
completion order. -/
theorem collect_ok {ε α : Type} (n : Nat) (result : Nat → Except ε α) (r : Nat → α)
    (hok : ∀ i, i < n → result i = .ok (r i)) (σ : List Nat) (hσ : σ.Perm (List.range n)) :
    collect n result σ = .ok ((List.range n).map (fun i => some (r i))) := by
  have hall : ∀ i ∈ σ, ∃ a, result i = .ok a := fun i hi =>
    ⟨r i, hok i (List.mem_range.1 (hσ.mem_iff.1 hi))⟩
  unfold collect
  rw [foldl_collectStep_ok result σ _ hall]
  have hσ' : σ.Perm (List.range (List.replicate n (none : Option α)).length) := by
    rw [List.length_replicate]; exact hσ
  rw [setFold_perm _ σ _ hσ', List.length_replicate]
  congr 1
  apply List.map_congr_left
  intro i hi
  exact okVal_ok (hok i (List.mem_range.1 hi))

/-- The loop ends normally only when every file's task succeeded, and then cell `i` holds exactly
task `i`'s result. -/
theorem collect_eq_ok {ε α : Type} (n : Nat) (result : Nat → Except ε α) (σ : List Nat)
    (hσ : σ.Perm (List.range n)) (l' : List (Option α)) (h : collect n result σ = .ok l') :
    (∀ i, i < n → ∃ a, result i = .ok a) ∧ l' = (List.range n).map (okVal result) := by
  unfold collect at h
  have hall := foldl_collectStep_eq_ok result σ _ l' h
  rw [foldl_collectStep_ok result σ _ hall] at h
  have hσ' : σ.Perm (List.range (List.replicate n (none : Option α)).length) := by
    rw [List.length_replicate]; exact hσ
  rw [setFold_perm _ σ _ hσ', List.length_replicate] at h
  refine ⟨fun i hi => hall i (hσ.mem_iff.2 (List.mem_range.2 hi)), ?_⟩
  injection h with h
  exact h.symm

/-! ### 1. Every completion order gives the same, file-ordered list -/

/-- 1. If every file's task succeeds, then for every completion order the call returns one
signature per file, in file order, each being the single-file result. -/
theorem collect_any_order {ε α : Type} (n : Nat) (result : Nat → Except ε α) (r : Nat → α)
    (hok : ∀ i, i < n → result i = .ok (r i)) (σ : List Nat) (hσ : σ.Perm (List.range n)) :
    calcAll n result σ = .ok (some ((List.range n).map r)) := by
  unfold calcAll
  rw [collect_ok n result r hok σ hσ]
  have : (List.range n).map (fun i => some (r i)) = ((List.range n).map r).map some := by
    rw [List.map_map]; rfl
  simp only [this, allSome_map_some]

/-- 1b. In particular two completion orders cannot give different outputs. -/
theorem order_irrelevant {ε α : Type} (n : Nat) (result : Nat → Except ε α) (r : Nat → α)
    (hok : ∀ i, i < n → result i = .ok (r i)) (σ τ : List Nat) (hσ : σ.Perm (List.range n))
    (hτ : τ.Perm (List.range n)) : calcAll n result σ = calcAll n result τ := by
  rw [collect_any_order n result r hok σ hσ, collect_any_order n result r hok τ hτ]

/-! ### 2. A failing file fails the whole call -/

/-- 2b. Whatever exception leaves the call was raised by some file's task. -/
theorem collect_error_source {ε α : Type} (n : Nat) (result : Nat → Except ε α) (σ : List Nat)
    (hσ : σ.Perm (List.range n)) (e' : ε) (h : calcAll n result σ = .error e') :
    ∃ j, j < n ∧ result j = .error e' := by
  unfold calcAll at h
  cases hc : collect n result σ with
  | ok l => rw [hc] at h; cases h
  | error e =>
    rw [hc] at h
    injection h with h
    subst h
    obtain ⟨j, hj, hje⟩ := foldl_collectStep_eq_error result σ _ e hc
    exact ⟨j, List.mem_range.1 (hσ.mem_iff.1 hj), hje⟩

/-- 2. If any file's task fails, the call fails — for every completion order. -/
theorem collect_error {ε α : Type} (n : Nat) (result : Nat → Except ε α) (σ : List Nat)
    (hσ : σ.Perm (List.range n)) (i : Nat) (hi : i < n) (e : ε) (he : result i = .error e) :
    ∃ e', calcAll n result σ = .error e' := by
  unfold calcAll
  cases hc : collect n result σ with
  | error e' => exact ⟨e', rfl⟩
  | ok l =>
    obtain ⟨a, ha⟩ := (collect_eq_ok n result σ hσ l hc).1 i hi
    rw [he] at ha
    cases ha

/-- 2 + 2b together: the call fails, with the exception of one of the failing files. -/
theorem collect_error_strong {ε α : Type} (n : Nat) (result : Nat → Except ε α) (σ : List Nat)
    (hσ : σ.Perm (List.range n)) (i : Nat) (hi : i < n) (e : ε) (he : result i = .error e) :
    ∃ e', calcAll n result σ = .error e' ∧ ∃ j, j < n ∧ result j = .error e' := by
  obtain ⟨e', h⟩ := collect_error n result σ hσ i hi e he
  exact ⟨e', h, collect_error_source n result σ hσ e' h⟩

/-! ### 3. No partial list, no assertion failure -/

/-- 3. A returned list has one entry per file and entry `i` is file `i`'s own result (so every
file's task succeeded): there is no partially filled or misordered output.
(`i < l.length` is `i < n` by the first conjunct; stated this way so that `l[i]` typechecks.) -/
theorem no_partial_list {ε α : Type} (n : Nat) (result : Nat → Except ε α) (σ : List Nat)
    (hσ : σ.Perm (List.range n)) (l : List α) (h : calcAll n result σ = .ok (some l)) :
    l.length = n ∧ ∀ i (hi : i < l.length), result i = .ok l[i] := by
  unfold calcAll at h
  cases hc : collect n result σ with
  | error e => rw [hc] at h; cases h
  | ok l' =>
    rw [hc] at h
    have hs : allSome l' = some l := by injection h with h
    have h1 := allSome_eq_some l' l hs
    have h2 := (collect_eq_ok n result σ hσ l' hc).2
    have h3 : l.map some = (List.range n).map (okVal result) := by rw [← h1, h2]
    have hlen : l.length = n := by
      have := congrArg List.length h3
      simpa using this
    refine ⟨hlen, fun i hi => ?_⟩
    have hin : i < n := by omega
    have h4 := congrArg (fun t => t[i]?) h3
    simp only [List.getElem?_map, List.getElem?_range hin, Option.map_some] at h4
    rw [List.getElem?_eq_getElem hi, Option.map_some] at h4
    injection h4 with h4
    exact okVal_eq_some h4.symm

/-- 3, indexed by `i < n`. -/
theorem no_partial_list_get {ε α : Type} (n : Nat) (result : Nat → Except ε α) (σ : List Nat)
    (hσ : σ.Perm (List.range n)) (l : List α) (h : calcAll n result σ = .ok (some l)) (i : Nat)
    (hi : i < n) :
    result i = .ok (l[i]'(by rw [(no_partial_list n result σ hσ l h).1]; exact hi)) :=
  (no_partial_list n result σ hσ l h).2 i _

/-- 3b. With a permutation schedule the `assert all(sig is not None …)` never fires. -/
theorem never_assertion {ε α : Type} (n : Nat) (result : Nat → Except ε α) (σ : List Nat)
    (hσ : σ.Perm (List.range n)) : calcAll n result σ ≠ .ok none := by
  intro h
  unfold calcAll at h
  cases hc : collect n result σ with
  | error e => rw [hc] at h; cases h
  | ok l' =>
    rw [hc] at h
    have hs : allSome l' = none := by injection h
    obtain ⟨hall, hl'⟩ := collect_eq_ok n result σ hσ l' hc
    have hmem := allSome_eq_none l' hs
    rw [hl'] at hmem
    obtain ⟨i, hi, hv⟩ := List.mem_map.1 hmem
    obtain ⟨a, ha⟩ := hall i (List.mem_range.1 hi)
    rw [okVal_ok ha] at hv
    cases hv

/-- The three possible outcomes, for every completion order: all files succeeded and the full
ordered list is returned, or the call raises one of the files' exceptions. -/
theorem calcAll_cases {ε α : Type} (n : Nat) (result : Nat → Except ε α) (σ : List Nat)
    (hσ : σ.Perm (List.range n)) :
    (∃ l, calcAll n result σ = .ok (some l) ∧ l.length = n) ∨
      (∃ e' j, calcAll n result σ = .error e' ∧ j < n ∧ result j = .error e') := by
  cases h : calcAll n result σ with
  | error e' =>
    obtain ⟨j, hj, hje⟩ := collect_error_source n result σ hσ e' h
    exact Or.inr ⟨e', j, rfl, hj, hje⟩
  | ok o =>
    cases o with
    | none => exact absurd h (never_assertion n result σ hσ)
    | some l =>
      exact Or.inl ⟨l, rfl, (no_partial_list n result σ hσ l h).1⟩

/-! ### 4. The sequential branch -/

/-- 4. Without an executor the same list is produced: under the hypothesis of 1, the sequential
branch returns the list that the executor branch returns for every completion order. -/
theorem seq_eq_concurrent {ε α : Type} (n : Nat) (result : Nat → Except ε α) (r : Nat → α)
    (hok : ∀ i, i < n → result i = .ok (r i)) : calcSeq n result = .ok ((List.range n).map r) :=
  mapM_except_ok result r (List.range n) (fun i hi => hok i (List.mem_range.1 hi))

/-- 4, as an equation between the two branches. -/
theorem seq_agrees_concurrent {ε α : Type} (n : Nat) (result : Nat → Except ε α) (r : Nat → α)
    (hok : ∀ i, i < n → result i = .ok (r i)) (σ : List Nat) (hσ : σ.Perm (List.range n)) :
    calcAll n result σ = (calcSeq n result).map some := by
  rw [seq_eq_concurrent n result r hok, collect_any_order n result r hok σ hσ]
  rfl

/-- 4b. A failing file fails the sequential branch too, with a failing file's exception. -/
theorem calcSeq_error_strong {ε α : Type} (n : Nat) (result : Nat → Except ε α) (i : Nat)
    (hi : i < n) (e : ε) (he : result i = .error e) :
    ∃ e', calcSeq n result = .error e' ∧ ∃ j, j < n ∧ result j = .error e' := by
  obtain ⟨e', h1, j, hj, hje⟩ :=
    mapM_except_error result (List.range n) ⟨i, List.mem_range.2 hi, e, he⟩
  exact ⟨e', h1, j, List.mem_range.1 hj, hje⟩

theorem calcSeq_error {ε α : Type} (n : Nat) (result : Nat → Except ε α) (i : Nat) (hi : i < n)
    (e : ε) (he : result i = .error e) : ∃ e', calcSeq n result = .error e' := by
  obtain ⟨e', h, _⟩ := calcSeq_error_strong n result i hi e he
  exact ⟨e', h⟩

/-- 4c. Both branches fail together: the sequential branch raises iff the executor branch raises
(for any completion order). -/
theorem seq_fails_iff_concurrent_fails {ε α : Type} (n : Nat) (result : Nat → Except ε α)
    (σ : List Nat) (hσ : σ.Perm (List.range n)) :
    (∃ e', calcSeq n result = .error e') ↔ (∃ e', calcAll n result σ = .error e') := by
  constructor
  · rintro ⟨e', h⟩
    rcases calcAll_cases n result σ hσ with ⟨l, hl, _⟩ | ⟨e'', _, h2, _⟩
    · obtain ⟨hlen, hget⟩ := no_partial_list n result σ hσ l hl
      obtain ⟨l', hl'⟩ := mapM_except_ok' result (List.range n) (fun i hi =>
        ⟨l[i]'(by have := List.mem_range.1 hi; omega), hget i _⟩)
      rw [calcSeq, hl'] at h
      cases h
    · exact ⟨e'', h2⟩
  · rintro ⟨e', h⟩
    obtain ⟨j, hj, hje⟩ := collect_error_source n result σ hσ e' h
    exact calcSeq_error n result j hj e' hje

/-! ### 5. Non-vacuity -/

section Examples

private def res3 : Nat → Except String Nat := fun i => .ok (10 * i + 7)
/-- file 1 fails -/
private def res3bad : Nat → Except String Nat := fun i => if i = 1 then .error "bad file" else .ok (10 * i + 7)
/-- files 0 and 2 fail, with different exceptions -/
private def res3bad2 : Nat → Except String Nat := fun i =>
  if i = 0 then .error "zero" else if i = 2 then .error "two" else .ok 5

private def isOkSome (x : Except String (Option (List Nat))) (l : List Nat) : Bool :=
  match x with
  | .ok (some l') => l' == l
  | _ => false

private def isErr {β : Type} (x : Except String β) (e : String) : Bool :=
  match x with
  | .error e' => e' == e
  | _ => false

example : [2, 0, 1].Perm (List.range 3) := by decide
example : [1, 2, 0].Perm (List.range 3) := by decide

-- two different completion orders, same file-ordered list
example : isOkSome (calcAll 3 res3 [2, 0, 1]) [7, 17, 27] = true := by decide
example : isOkSome (calcAll 3 res3 [1, 2, 0]) [7, 17, 27] = true := by decide
example : calcAll 3 res3 [2, 0, 1] = .ok (some [7, 17, 27]) := rfl
example : calcAll 3 res3 [1, 2, 0] = .ok (some [7, 17, 27]) := rfl
-- the intermediate list after the loop
example : collect 3 res3 [2, 0, 1] = .ok [some 7, some 17, some 27] := rfl
-- one failing file: the call fails in both orders
example : isErr (calcAll 3 res3bad [2, 0, 1]) "bad file" = true := by decide
example : isErr (calcAll 3 res3bad [1, 2, 0]) "bad file" = true := by decide
-- two failing files: which exception is raised depends on the completion order
example : isErr (calcAll 3 res3bad2 [2, 0, 1]) "two" = true := by decide
example : isErr (calcAll 3 res3bad2 [1, 0, 2]) "zero" = true := by decide
-- a schedule that is not a permutation (a lost future) would trip the assertion: the hypothesis
-- `hσ` of `never_assertion` is needed
example : calcAll 3 res3 [2, 0] = .ok none := rfl
-- sequential branch
example : calcSeq 3 res3 = .ok [7, 17, 27] := rfl
example : isErr (calcSeq 3 res3bad) "bad file" = true := by decide
example : isErr (calcSeq 3 res3bad2) "zero" = true := by decide

end Examples

end GambitV.C13
