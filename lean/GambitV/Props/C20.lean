import GambitV.Model.Indexing
namespace GambitV.C20
end GambitV.C20
