import GambitV.Lemmas.Indexing
import GambitV.Lemmas.Window

/-!
# C20 — advanced indexing selects what a plain list would select, on both storage layouts

The model (`Model/Indexing.lean`) follows `AdvancedIndexingMixin.__getitem__`: classification of the
index expression, `_check_index` (wrap a negative index once, then bounds-check), `slice.indices`,
`numpy.arange`, `numpy.flatnonzero`, and the two storage representations (list-backed, and
concatenated `values` + cumulative `bounds` with the contiguous-slice fast path).

`getItemList` is characterised first, against plain list operations (`List.getD`, `zip`/`filter`,
arithmetic progressions); then the concatenated representation is shown to denote the list it
was built from (`ofList_*`) and every index form on it is shown to select the same elements
(`concat_refines_list`).  Helper lemmas live in `Lemmas/Indexing.lean`.  Core Lean only.
-/
namespace GambitV.C20
open GambitV

/-! ### 1. `_check_index` -/

theorem checkIndex_ok_iff (n : Nat) (i : Int) (j : Nat) :
    checkIndex n i = .ok j ↔
      (0 ≤ i ∧ i < n ∧ (j : Int) = i) ∨ (i < 0 ∧ 0 ≤ i + n ∧ (j : Int) = i + n) :=
  checkIndex_ok_iff' n i j

theorem checkIndex_error (n : Nat) (i : Int) (e : IdxErr) :
    checkIndex n i = .error e → e = .indexError ∧ (i ≥ n ∨ i < -(n : Int)) :=
  checkIndex_error' n i e

theorem checkIndex_lt {n : Nat} {i : Int} {j : Nat} (h : checkIndex n i = .ok j) : j < n := by
  have := (checkIndex_ok_iff n i j).1 h
  omega

/-! ### 2. `slice.indices` -/

theorem sliceIndices_bounds (n : Nat) (a b c : Option Int) (hc : c ≠ some 0) (s e st : Int)
    (h : sliceIndices n a b c = (s, e, st)) :
    st ≠ 0 ∧ (st > 0 → 0 ≤ s ∧ s ≤ n ∧ 0 ≤ e ∧ e ≤ n) ∧
      (st < 0 → -1 ≤ s ∧ s ≤ (n : Int) - 1 ∧ -1 ≤ e ∧ e ≤ (n : Int) - 1) := by
  have := sliceIndices_bounds' n a b c hc
  rw [h] at this
  exact this

/-! ### 3. `numpy.arange` -/

/-- `arange s e st` is exactly the arithmetic progression from `s` with step `st`, clipped at `e`. -/
theorem arange_mem (s e st : Int) (hst : st ≠ 0) (x : Int) :
    x ∈ arange s e st ↔ ∃ t : Nat, x = s + t * st ∧ (st > 0 → x < e) ∧ (st < 0 → e < x) :=
  arange_mem' s e st hst x

theorem arange_pairwise (s e st : Int) :
    (st > 0 → (arange s e st).Pairwise (· < ·)) ∧ (st < 0 → (arange s e st).Pairwise (· > ·)) :=
  ⟨arange_pairwise_pos s e st, arange_pairwise_neg s e st⟩

/-! ### 4. Slices -/

/-- Every position produced by a slice is a valid position. -/
theorem slice_in_range (n : Nat) (a b c : Option Int) (hc : c ≠ some 0) (s e st : Int)
    (h : sliceIndices n a b c = (s, e, st)) : ∀ j ∈ arange s e st, 0 ≤ j ∧ j < n := by
  obtain ⟨hst, hp, hn⟩ := sliceIndices_bounds n a b c hc s e st h
  intro j hj
  obtain ⟨t, rfl, h1, h2⟩ := (arange_mem s e st hst j).1 hj
  by_cases hpos : st > 0
  · have := hp hpos
    have := h1 hpos
    have : 0 ≤ (t : Int) * st := Int.mul_nonneg (by omega) (by omega)
    omega
  · have hneg : st < 0 := by omega
    have := hn hneg
    have := h2 hneg
    have h0 : 0 ≤ (t : Int) * (-st) := Int.mul_nonneg (by omega) (by omega)
    rw [Int.mul_neg] at h0
    omega

theorem slice_spec {α : Type} [Inhabited α] (xs : List α) (a b c : Option Int) (hc : c ≠ some 0)
    (s e st : Int) (h : sliceIndices xs.length a b c = (s, e, st)) :
    getItemList xs (.slice a b c) =
        .ok (.many ((arange s e st).map (fun j => xs.getD j.toNat default))) ∧
      ∀ j ∈ arange s e st, 0 ≤ j ∧ j < xs.length := by
  have hr := slice_in_range xs.length a b c hc s e st h
  refine ⟨?_, hr⟩
  have hn : normIndices xs.length (arange s e st) = .ok ((arange s e st).map (wrapIdx xs.length)) :=
    normIndices_ok _ _ (fun j hj => by have := hr j hj; omega)
  simp only [getItemList, if_neg hc, h, hn]
  show Except.ok _ = Except.ok _
  rw [List.map_map]
  congr 2
  apply List.map_congr_left
  intro j hj
  simp only [Function.comp, wrapIdx_nonneg xs.length j (hr j hj).1]

theorem slice_never_raises {α : Type} [Inhabited α] (xs : List α) (a b c : Option Int)
    (hc : c ≠ some 0) : ∃ ys, getItemList xs (.slice a b c) = .ok (.many ys) := by
  rcases hp : sliceIndices xs.length a b c with ⟨s, e, st⟩
  exact ⟨_, (slice_spec xs a b c hc s e st hp).1⟩

/-! ### 5. Integer index -/

theorem int_spec {α : Type} [Inhabited α] (xs : List α) (i : Int) (h1 : -(xs.length : Int) ≤ i)
    (h2 : i < xs.length) :
    getItemList xs (.int i) =
      .ok (.one (xs.getD (if i < 0 then i + xs.length else i).toNat default)) := by
  simp only [getItemList, checkIndex_in_range xs.length i h1 h2]
  rfl

theorem int_spec_error {α : Type} [Inhabited α] (xs : List α) (i : Int)
    (h : i < -(xs.length : Int) ∨ i ≥ xs.length) :
    getItemList xs (.int i) = .error .indexError := by
  simp only [getItemList, checkIndex_out_of_range xs.length i h]
  rfl

/-! ### 6. Integer array / sequence -/

theorem ints_spec {α : Type} [Inhabited α] (xs : List α) (l : List Int)
    (h : ∀ i ∈ l, -(xs.length : Int) ≤ i ∧ i < xs.length) :
    getItemList xs (.ints l) =
      .ok (.many (l.map fun (i : Int) => xs.getD (if i < 0 then i + xs.length else i).toNat default)) := by
  simp only [getItemList, normIndices_ok xs.length l h]
  show Except.ok _ = Except.ok _
  rw [List.map_map]
  rfl

theorem ints_spec_error {α : Type} [Inhabited α] (xs : List α) (l : List Int)
    (h : ∃ i ∈ l, i < -(xs.length : Int) ∨ i ≥ xs.length) :
    getItemList xs (.ints l) = .error .indexError := by
  simp only [getItemList, normIndices_error xs.length l h]
  rfl

/-! ### 7. Boolean mask -/

theorem mask_spec {α : Type} [Inhabited α] (xs : List α) (m : List Bool)
    (h : m.length = xs.length) :
    getItemList xs (.mask m) = .ok (.many (((xs.zip m).filter (·.2)).map (·.1))) := by
  simp only [getItemList, h, ne_eq, not_true_eq_false, if_false]
  rw [flatnonzero_map_getD default m xs h]

theorem mask_spec_error {α : Type} [Inhabited α] (xs : List α) (m : List Bool)
    (h : m.length ≠ xs.length) : getItemList xs (.mask m) = .error .indexError := by
  simp only [getItemList, if_pos h]

/-! ### 8. Error classification -/

theorem errors_spec {α : Type} [Inhabited α] (xs : List α) (c : Concat) (a b : Option Int) :
    getItemList xs .sliceBadType = .error .typeError ∧
    getItemList xs (.slice a b (some 0)) = .error .valueError ∧
    getItemList xs .badArray = .error .indexError ∧
    getItemList xs .unsized = .error .typeError ∧
    getItemConcat c .sliceBadType = .error .typeError ∧
    getItemConcat c (.slice a b (some 0)) = .error .valueError ∧
    getItemConcat c .badArray = .error .indexError ∧
    getItemConcat c .unsized = .error .typeError := by
  refine ⟨rfl, ?_, rfl, rfl, rfl, ?_, rfl, rfl⟩
  · simp only [getItemList, if_true]
  · simp only [getItemConcat, if_true]

/-! ### 9. The cumulative representation denotes the list it was built from -/

theorem ofList_len (sigs : List (List Nat)) : (Concat.ofList sigs).len = sigs.length :=
  ofList_len' sigs

theorem ofList_get (sigs : List (List Nat)) (i : Nat) (h : i < sigs.length) :
    (Concat.ofList sigs).get i = sigs[i] := by
  rw [ofList_get', List.getD_eq_getElem?_getD, List.getElem?_eq_getElem h]
  rfl

theorem ofList_toList (sigs : List (List Nat)) : (Concat.ofList sigs).toList = sigs :=
  ofList_toList' sigs

/-- `bounds[i]` is the total length of the first `i` signatures (so empty signatures give
repeated bounds). -/
theorem ofList_bounds_getD (sigs : List (List Nat)) (i : Nat) (h : i ≤ sigs.length) :
    (Concat.ofList sigs).bounds.getD i 0 = (sigs.take i).flatten.length := by
  rw [ofList_bounds, prefixSums_getD 0 sigs i h, Nat.zero_add]

/-- A window of a larger values array (`SignatureArray.from_arrays` with bounds that neither start at 0 nor end at `len(values)`) denotes
exactly the signatures it was cut around, whatever surrounds them: length, every element, the whole list. -/
theorem window_refines_list (padL padR : List Nat) (sigs : List (List Nat)) :
    (Concat.window padL padR sigs).len = sigs.length ∧
    (∀ i, (Concat.window padL padR sigs).get i = sigs.getD i []) ∧
    (Concat.window padL padR sigs).toList = sigs :=
  ⟨window_len padL padR sigs, window_get padL padR sigs, window_toList padL padR sigs⟩

theorem ofList_WF (sigs : List (List Nat)) : (Concat.ofList sigs).WF := ofList_wf sigs

/-! ### 10. Every index form on the concatenated representation selects what the list selects -/

/-- The contiguous fast path on any well-formed array (in particular on a view of a view). -/
theorem sliceView_toList (c : Concat) (wf : c.WF) (start stop : Nat) (h1 : start ≤ stop)
    (h2 : stop ≤ c.len) :
    (c.sliceView start stop).toList = (List.range (stop - start)).map (fun t => c.get (start + t)) :=
  GambitV.sliceView_toList c wf start stop h1 h2

theorem sliceView_WF (c : Concat) (wf : c.WF) (start stop : Nat) (h1 : start ≤ stop)
    (h2 : stop ≤ c.len) : (c.sliceView start stop).WF :=
  sliceView_wf c wf start stop h1 h2

theorem gather_toList (c : Concat) (js : List Nat) : (c.gather js).toList = js.map c.get :=
  GambitV.gather_toList c js

private theorem gather_refines (sigs : List (List Nat)) (r : Except IdxErr (List Nat)) :
    (r >>= fun js => (pure (CSel.many ((Concat.ofList sigs).gather js)) : Except IdxErr CSel)).map
        CSel.toSel =
      (r >>= fun js => pure (Sel.many (js.map (fun j => sigs.getD j default)))) := by
  cases r with
  | error e => rfl
  | ok js =>
    show Except.ok _ = Except.ok _
    simp only [CSel.toSel, GambitV.gather_toList]
    congr 2
    apply List.map_congr_left
    intro j _
    exact ofList_get' sigs j

theorem concat_refines_list (sigs : List (List Nat)) (ix : Index) :
    (getItemConcat (Concat.ofList sigs) ix).map CSel.toSel = getItemList sigs ix := by
  cases ix with
  | int i =>
    simp only [getItemConcat, getItemList, ofList_len']
    cases checkIndex sigs.length i with
    | error e => rfl
    | ok j =>
      show Except.ok _ = Except.ok _
      simp only [CSel.toSel, ofList_get']
      rfl
  | sliceBadType => rfl
  | badArray => rfl
  | unsized => rfl
  | ints l =>
    simp only [getItemConcat, getItemList, ofList_len']
    exact gather_refines sigs _
  | mask m =>
    simp only [getItemConcat, getItemList, ofList_len']
    by_cases h : m.length ≠ sigs.length
    · rw [if_pos h, if_pos h]; rfl
    · rw [if_neg h, if_neg h]
      exact gather_refines sigs (.ok (flatnonzero m))
  | slice a b c =>
    by_cases hc : c = some 0
    · subst hc
      simp only [getItemConcat, getItemList, if_true]
      rfl
    · rcases hp : sliceIndices sigs.length a b c with ⟨s, e, st⟩
      by_cases hfast : st ≠ 1 ∨ e ≤ s
      · simp only [getItemConcat, getItemList, ofList_len', if_neg hc, hp, if_pos hfast]
        exact gather_refines sigs _
      · -- contiguous fast path: `st = 1`, `s < e`
        have hst : st = 1 := by omega
        have hse : s < e := by omega
        subst hst
        obtain ⟨_, hpos, _⟩ := sliceIndices_bounds sigs.length a b c hc s e 1 hp
        have hb := hpos (by decide)
        rw [(slice_spec sigs a b c hc s e 1 hp).1]
        simp only [getItemConcat, ofList_len', if_neg hc, hp, if_neg hfast]
        show Except.ok _ = Except.ok _
        simp only [CSel.toSel]
        rw [ofList_sliceView_toList sigs s.toNat e.toNat (by omega) (by omega), arange_one,
          List.map_map]
        have : e.toNat - s.toNat = (e - s).toNat := by omega
        rw [this]
        congr 2
        apply List.map_congr_left
        intro t _
        have : (s + (t : Int)).toNat = s.toNat + t := by omega
        simp only [Function.comp, this]
        rfl

/-! ### 11. Mutation (`SignatureList` delegates to a Python `list`) -/

theorem applyMut_set (xs : List (List Nat)) (i : Int) (x : List Nat) :
    (-(xs.length : Int) ≤ i → i < xs.length →
      applyMut xs (.set i x) = .ok (xs.set (if i < 0 then i + xs.length else i).toNat x)) ∧
    (i < -(xs.length : Int) ∨ i ≥ xs.length → applyMut xs (.set i x) = .error .indexError) := by
  constructor
  · intro h1 h2
    simp only [applyMut, checkIndex_in_range xs.length i h1 h2]; rfl
  · intro h
    simp only [applyMut, checkIndex_out_of_range xs.length i h]; rfl

theorem applyMut_del (xs : List (List Nat)) (i : Int) :
    (-(xs.length : Int) ≤ i → i < xs.length →
      applyMut xs (.del i) = .ok (xs.eraseIdx (if i < 0 then i + xs.length else i).toNat)) ∧
    (i < -(xs.length : Int) ∨ i ≥ xs.length → applyMut xs (.del i) = .error .indexError) := by
  constructor
  · intro h1 h2
    simp only [applyMut, checkIndex_in_range xs.length i h1 h2]; rfl
  · intro h
    simp only [applyMut, checkIndex_out_of_range xs.length i h]; rfl

/-- `del` fails exactly when the index is out of range. -/
theorem applyMut_del_error_iff (xs : List (List Nat)) (i : Int) :
    (∃ e, applyMut xs (.del i) = .error e) ↔ (i < -(xs.length : Int) ∨ i ≥ xs.length) := by
  constructor
  · rintro ⟨e, he⟩
    by_cases h : i < -(xs.length : Int) ∨ i ≥ xs.length
    · exact h
    · rw [(applyMut_del xs i).1 (by omega) (by omega)] at he; cases he
  · intro h; exact ⟨_, (applyMut_del xs i).2 h⟩

theorem applyMut_insert (xs : List (List Nat)) (i : Int) (x : List Nat) :
    applyMut xs (.insert i x) = .ok (xs.insertIdx (pyInsertPos xs.length i) x) := by
  simp only [applyMut, insertIdx_eq_take_drop xs _ x (pyInsertPos_le xs.length i)]

theorem applyMut_insert_length (xs : List (List Nat)) (i : Int) (x : List Nat) :
    ∃ ys, applyMut xs (.insert i x) = .ok ys ∧ ys.length = xs.length + 1 ∧
      ys[pyInsertPos xs.length i]? = some x ∧
      ys.eraseIdx (pyInsertPos xs.length i) = xs := by
  refine ⟨_, applyMut_insert xs i x, ?_, ?_, ?_⟩
  · rw [List.length_insertIdx, if_pos (pyInsertPos_le xs.length i)]
  · rw [List.getElem?_insertIdx_self, if_pos (pyInsertPos_le xs.length i)]
  · exact List.eraseIdx_insertIdx_self x

/-! ### 12. `__eq__` -/

theorem sigEq_iff (k1 : Nat) (p1 : List UInt8) (a : List (List Nat)) (k2 : Nat) (p2 : List UInt8)
    (b : List (List Nat)) : sigEq k1 p1 a k2 p2 b = true ↔ k1 = k2 ∧ p1 = p2 ∧ a = b := by
  simp [sigEq, and_assoc]

/-! ### 13. Non-vacuity -/

/-- Results are compared by evaluation (`Except` has no `DecidableEq` instance in core). -/
local instance {ε α : Type} [DecidableEq ε] [DecidableEq α] : DecidableEq (Except ε α)
  | .ok a, .ok b => if h : a = b then isTrue (by rw [h]) else isFalse (fun h' => h (by cases h'; rfl))
  | .error a, .error b =>
    if h : a = b then isTrue (by rw [h]) else isFalse (fun h' => h (by cases h'; rfl))
  | .ok _, .error _ => isFalse (fun h => by cases h)
  | .error _, .ok _ => isFalse (fun h => by cases h)

-- `xs[3:-5:-2]` on four elements: stop clips to `-1`, positions `3, 1`.
example : sliceIndices 4 (some 3) (some (-5)) (some (-2)) = (3, -1, -2) := by decide
example : getItemList [10, 11, 12, 13] (.slice (some 3) (some (-5)) (some (-2))) =
    .ok (.many [13, 11]) := by decide
example : getItemList [10, 11, 12, 13] (.mask [true, false, false, true]) =
    .ok (.many [10, 13]) := by decide
example : getItemList [10, 11, 12, 13] (.ints [-1, 0, -4, 2]) = .ok (.many [13, 10, 10, 12]) := by
  decide
example : getItemList [10, 11, 12, 13] (.ints [-1, 4]) = .error .indexError := by decide
example : getItemList [10, 11, 12, 13] (.int (-5)) = .error .indexError := by decide

-- The same through the concatenated representation (with an empty signature in the middle).
example : Concat.ofList [[1, 2], [], [3], [4, 5, 6]] =
    { values := [1, 2, 3, 4, 5, 6], bounds := [0, 2, 2, 3, 6] } := by decide
example : (getItemConcat (Concat.ofList [[1, 2], [], [3], [4, 5, 6]])
      (.slice (some 3) (some (-5)) (some (-2)))).map CSel.toSel =
    .ok (.many [[4, 5, 6], []]) := by decide
example : (getItemConcat (Concat.ofList [[1, 2], [], [3], [4, 5, 6]])
      (.mask [true, false, false, true])).map CSel.toSel = .ok (.many [[1, 2], [4, 5, 6]]) := by
  decide
example : (getItemConcat (Concat.ofList [[1, 2], [], [3], [4, 5, 6]])
      (.ints [-1, 0, -4, 2])).map CSel.toSel =
    .ok (.many [[4, 5, 6], [1, 2], [1, 2], [3]]) := by decide
-- Fast path: `c[1:3]` is a view with re-based bounds.
example : getItemConcat (Concat.ofList [[1, 2], [], [3], [4, 5, 6]]) (.slice (some 1) (some 3) none) =
    .ok (.many { values := [3], bounds := [0, 0, 1] }) := by decide
example : (getItemConcat (Concat.ofList [[1, 2], [], [3], [4, 5, 6]])
      (.slice (some 1) (some 3) none)).map CSel.toSel = .ok (.many [[], [3]]) := by decide
example : (getItemConcat (Concat.ofList [[1, 2], [], [3], [4, 5, 6]]) (.int (-1))).map CSel.toSel =
    .ok (.one [4, 5, 6]) := by decide
example : applyMut [[1], [2], [3]] (.insert (-10) [9]) = .ok [[9], [1], [2], [3]] := by decide
example : applyMut [[1], [2], [3]] (.insert 10 [9]) = .ok [[1], [2], [3], [9]] := by decide
example : applyMut [[1], [2], [3]] (.insert (-1) [9]) = .ok [[1], [2], [9], [3]] := by decide
example : applyMut [[1], [2], [3]] (.del (-1)) = .ok [[1], [2]] := by decide
example : applyMut [[1], [2], [3]] (.del 3) = .error .indexError := by decide

end GambitV.C20
