import GambitV.Lemmas.Find

/-!
# C01 — `calc_signature` computes exactly the set of k-mers that follow the prefix on either strand

The model (`Model/Find.lean`) follows the code: repeated `bytes.find` restarted one past each hit,
end bound `-k` on the forward search, start bound `k` on the reverse search, the slices of
`KmerMatch.kmer_indices`, the `ValueError`-skipping wrappers, and both accumulators.  The
specification (`Spec/Signature.lean`) does not mention searching at all.

All theorems quantify over arbitrary byte strings; the only hypotheses are those of `WF`
(`1 ≤ k ≤ 32`, non-empty upper-case `ACGT` prefix), which is what `KmerSpec.__init__` enforces.
Helper lemmas live in `Lemmas/Find.lean`.
-/
namespace GambitV.C01
open GambitV

/-- What `KmerSpec.__init__` guarantees about `(k, prefix)`. -/
structure WF (k : Nat) (pre : List UInt8) : Prop where
  kpos : 1 ≤ k
  k32  : k ≤ 32
  pre_ne : pre ≠ []
  pre_acgt : ∀ b ∈ pre, b ∈ [65, 67, 71, 84]

/-- 1. The find/record/restart-one-past-the-hit loop returns every matching position of the
searched range, in increasing order (so overlapping occurrences are all found). -/
theorem findLoop_eq_filter (hay pat : List UInt8) (stop fuel start : Nat) (hpat : pat ≠ [])
    (hf : stop + 1 - start ≤ fuel) :
    findLoop hay pat stop fuel start =
      (List.range' start (stop + 1 - pat.length - start)).filter (matchAt hay pat) :=
  GambitV.findLoop_eq_filter hay pat stop fuel start hpat hf

/-- 2. Forward search: exactly the positions `i` with a match and `i + |pre| + k ≤ |hay|`. -/
theorem fwdMatches_complete (k : Nat) (pre hay : List UInt8) (_h : pre ≠ []) :
    fwdMatches k pre hay =
      (List.range (hay.length - k + 1 - pre.length)).filter (matchAt hay pre) :=
  fwdMatches_eq k pre hay

/-- 3. Reverse search: exactly the positions `k ≤ i`, `i + |pre| ≤ |hay|` matching `revcomp pre`. -/
theorem revMatches_complete (k : Nat) (pre hay : List UInt8) (_h : pre ≠ []) :
    revMatches k pre hay =
      (List.range' k (hay.length + 1 - pre.length - k)).filter (matchAt hay (revcomp pre)) :=
  revMatches_eq k pre hay

/-- 4. Upper-casing the haystack only when it contains one of `acgt` is equivalent to
case-insensitive matching, for an upper-case `ACGT` pattern. -/
theorem haystack_matchAt (s pat : List UInt8) (i : Nat) (hpre : ∀ b ∈ pat, b ∈ [65, 67, 71, 84]) :
    matchAt (haystack s) pat i = matchAt (upper s) pat i :=
  haystack_matchAt' s pat i hpre

/-- 5. The indices contributed by one sequence are exactly the k-mers following the prefix on the
sequence or on its reverse complement. -/
theorem mem_seqIndices_iff {k : Nat} {pre : List UInt8} (wf : WF k pre) (s : List UInt8) (x : Nat) :
    x ∈ seqIndices k pre s ↔ StrandMem k pre s x ∨ StrandMem k pre (revcomp s) x := by
  unfold seqIndices
  simp only []
  rw [List.mem_append, mem_fwd_iff k pre s x wf.k32 wf.pre_ne wf.pre_acgt,
    mem_rev_iff k pre s x wf.k32 wf.pre_acgt]

theorem mem_allIndices_iff {k : Nat} {pre : List UInt8} (wf : WF k pre) (seqs : List (List UInt8))
    (x : Nat) : x ∈ allIndices k pre seqs ↔ SpecMem k pre seqs x := by
  unfold allIndices SpecMem
  simp only [List.mem_flatMap, mem_seqIndices_iff wf]

/-- 6. Membership in the computed signature is the specification. -/
theorem mem_signature_iff {k : Nat} {pre : List UInt8} (wf : WF k pre) (seqs : List (List UInt8))
    (x : Nat) : x ∈ signature k pre seqs ↔ SpecMem k pre seqs x := by
  unfold signature
  rw [mem_setAccumulate, mem_allIndices_iff wf]

/-- 7. The signature is strictly increasing (sorted, no duplicates). -/
theorem signature_sorted (k : Nat) (pre : List UInt8) (seqs : List (List UInt8)) :
    (signature k pre seqs).Pairwise (· < ·) :=
  setAccumulate_sorted _

theorem specMem_lt {k : Nat} {pre : List UInt8} {seqs : List (List UInt8)} {x : Nat}
    (h : SpecMem k pre seqs x) : x < 4 ^ k := by
  obtain ⟨s, _, h | h⟩ := h
  · exact strandMem_lt _ _ _ _ h
  · exact strandMem_lt _ _ _ _ h

/-- 8. Every element is a valid k-mer index. -/
theorem signature_lt {k : Nat} {pre : List UInt8} (wf : WF k pre) (seqs : List (List UInt8))
    (x : Nat) : x ∈ signature k pre seqs → x < 4 ^ k :=
  fun h => specMem_lt ((mem_signature_iff wf seqs x).1 h)

theorem mem_specList_iff {k : Nat} {pre : List UInt8} (wf : WF k pre) (seqs : List (List UInt8))
    (x : Nat) : x ∈ specList k pre seqs ↔ SpecMem k pre seqs x := by
  have h1 : 1 ≤ pre.length + k := by have := wf.kpos; omega
  unfold specList SpecMem
  rw [mem_setAccumulate]
  simp only [List.mem_flatMap, List.mem_append, mem_strandOcc _ _ _ _ h1]

/-- 9. The model of the implementation equals the brute-force oracle, as lists. -/
theorem signature_eq_specList {k : Nat} {pre : List UInt8} (wf : WF k pre)
    (seqs : List (List UInt8)) : signature k pre seqs = specList k pre seqs := by
  have hs : (specList k pre seqs).Pairwise (· < ·) := setAccumulate_sorted _
  exact sorted_ext _ _ (signature_sorted k pre seqs) hs
    (fun x => by rw [mem_signature_iff wf, mem_specList_iff wf])

/-- 10. The bitmap accumulator and the set accumulator give the same array. -/
theorem accumulators_agree {k : Nat} {pre : List UInt8} (wf : WF k pre)
    (seqs : List (List UInt8)) : signatureArrayAcc k pre seqs = signature k pre seqs := by
  unfold signatureArrayAcc signature
  apply arrayAccumulate_eq
  intro x hx
  exact specMem_lt ((mem_allIndices_iff wf seqs x).1 hx)

/-- 11. Every element fits the dtype chosen by `index_dtype(k)`. -/
theorem signature_dtype {k : Nat} {pre : List UInt8} (wf : WF k pre) (seqs : List (List UInt8)) :
    ∃ w, indexDtypeBytes k = some w ∧ ∀ x ∈ signature k pre seqs, x < 2 ^ (8 * w) := by
  cases hw : indexDtypeBytes k with
  | none => have := (C07.indexDtype_none_iff k).1 hw; have := wf.k32; omega
  | some w =>
    refine ⟨w, rfl, ?_⟩
    intro x hx
    exact Nat.lt_of_lt_of_le (signature_lt wf seqs x hx) (C07.indexDtype_minimal k w hw).1

/-! ### 12. Non-vacuity -/

example : WF 3 [65, 84] := ⟨by decide, by decide, by decide, by decide⟩

-- ATCCCATGGG, prefix AT, k = 3.  Forward: AT|CCC → 21, AT|GGG → 42.  The sequence is its own
-- reverse complement, so the reverse strand contributes the same two k-mers.
example : signature 3 [65, 84] [[65, 84, 67, 67, 67, 65, 84, 71, 71, 71]] = [21, 42] := by decide

-- atcnATGTATA, prefix AT, k = 2: lower-case match `at|cn` is found but its k-mer contains `n`
-- (skipped), AT|GT → 11, the last AT is too close to the end (dropped); reverse strand
-- TATACATngat: AT|AC → 1, AT|ng skipped, `at` at the very end dropped.
example : signature 2 [65, 84] [[97, 116, 99, 110, 65, 84, 71, 84, 65, 84, 65]] = [1, 11] := by decide

-- Self-overlapping prefix "AT" in ATATATAT, k = 2: matches at 0, 2, 4 (6 is too close to the end);
-- every k-mer is AT → 3; the sequence is its own reverse complement.
example : signature 2 [65, 84] [[65, 84, 65, 84, 65, 84, 65, 84]] = [3] := by decide
example : fwdMatches 2 [65, 84] [65, 84, 65, 84, 65, 84, 65, 84] = [0, 2, 4] := by decide
example : revMatches 2 [65, 84] [65, 84, 65, 84, 65, 84, 65, 84] = [2, 4, 6] := by decide

-- Self-overlapping prefix "AA" in AAAACG, k = 2: overlapping matches at 0, 1, 2 are all found.
example : fwdMatches 2 [65, 65] [65, 65, 65, 65, 67, 71] = [0, 1, 2] := by decide

example : signatureArrayAcc 3 [65, 84] [[65, 84, 67, 67, 67, 65, 84, 71, 71, 71]] = [21, 42] := by decide
example : specList 3 [65, 84] [[65, 84, 67, 67, 67, 65, 84, 71, 71, 71]] = [21, 42] := by decide

end GambitV.C01
