import GambitV.Spec.Signature
namespace GambitV.C01
end GambitV.C01
