import GambitV.Model.Csv
namespace GambitV.C11
end GambitV.C11
