import GambitV.Lemmas.Export
import GambitV.Props.C16

/-!
# C11 — result exporters: the CSV table and the keys-only archive

`Model/Export.lean` follows `gambit/results.py`.

* `CSVResultsExporter` (`queryCsv`): header plus one row per query with the documented 11 columns
  (`csv_columns`); written with `csv.writer` QUOTE_MINIMAL and terminator `"\n"`, read back with
  `csv.reader` the file parses to exactly the header and the rows, in order (`csv_parse`) — for names
  containing commas, quotes, LF, CRLF, any Unicode.  The excluded class is exactly "a field with a
  CR and nothing that forces quoting" (`fieldOk_false_iff`), and for such a field the file really
  does not read back (`bare_cr_breaks`, finding C11-F1).
* archive (`ItemRec.toKeys` / `readItem`): database objects are stored as keys only and looked up by
  key within the genome set on reading; with unique keys the item read back is equal to the one
  written (`archive_roundtrip`) — distances as the same bit pattern, warnings, error, success flag.
  Without unique keys it is not (`archive_needs_unique_keys`).

Helper lemmas: `Lemmas/Export.lean`, `Lemmas/Csv.lean` (the CSV round trip, also C16's).
Core Lean only.
-/
namespace GambitV.C11
open GambitV GambitV.Export

/-! ### 4. The header -/

/-- 4. No header field is in the excluded class. -/
theorem header_fields_ok : ∀ f ∈ csvHeader, fieldOk ['\n'] f = true := by decide

/-! ### 1. The CSV file parses back -/

theorem csvRow_ne_nil (it : ItemRec) : csvRow it ≠ [] := by
  unfold csvRow; exact List.cons_ne_nil _ _

/-- 1. The exported CSV reads back as the header followed by one row per query, in order; fields
with commas, quotes, LF, CRLF, non-ASCII text survive.  Excluded (hypothesis `hok`): fields in the
class characterised by `fieldOk_false_iff`. -/
theorem csv_parse (items : List ItemRec)
    (hok : ∀ it ∈ items, ∀ f ∈ csvRow it, fieldOk ['\n'] f = true) :
    parseCsv (queryCsv items) = csvHeader :: items.map csvRow := by
  unfold queryCsv
  apply C16.csv_roundtrip _ (Or.inl rfl)
  · intro row hrow
    rcases List.mem_cons.1 hrow with h | h
    · subst h; decide
    · obtain ⟨it, _, rfl⟩ := List.mem_map.1 h
      exact csvRow_ne_nil it
  · intro row hrow
    rcases List.mem_cons.1 hrow with h | h
    · subst h; exact header_fields_ok
    · obtain ⟨it, hit, rfl⟩ := List.mem_map.1 h
      exact hok it hit

/-- 1b. one row per query -/
theorem csv_parse_length (items : List ItemRec)
    (hok : ∀ it ∈ items, ∀ f ∈ csvRow it, fieldOk ['\n'] f = true) :
    (parseCsv (queryCsv items)).length = items.length + 1 := by
  rw [csv_parse items hok]; simp

/-- 1c. row `i + 1` of the parsed file is the row of query `i` -/
theorem csv_parse_row (items : List ItemRec)
    (hok : ∀ it ∈ items, ∀ f ∈ csvRow it, fieldOk ['\n'] f = true) (i : Nat) :
    (parseCsv (queryCsv items))[i + 1]? = (items[i]?).map csvRow := by
  rw [csv_parse items hok]; simp

/-! ### 2. The columns -/

/-- 2. A row has exactly 11 cells. -/
theorem csv_row_length (it : ItemRec) : (csvRow it).length = 11 := rfl

theorem csv_header_length : csvHeader.length = 11 := rfl

/-- 2. Cell `j` is the documented attribute, or empty when anything along the attribute path is
`None`. -/
theorem csv_columns (it : ItemRec) :
    (csvRow it).length = 11 ∧
    (csvRow it)[0]? = some it.label ∧
    (csvRow it)[1]? = some (optCell (it.report.map (·.name))) ∧
    (csvRow it)[2]? = some (optCell (it.report.bind (·.rank))) ∧
    (csvRow it)[3]? = some (optCell (it.report.bind (·.ncbiId))) ∧
    (csvRow it)[4]? = some (optCell (it.report.bind (·.threshold))) ∧
    (csvRow it)[5]? = some it.closestMatch.distanceText ∧
    (csvRow it)[6]? = some it.closestMatch.genome.description ∧
    (csvRow it)[7]? = some (optCell (it.next.map (·.name))) ∧
    (csvRow it)[8]? = some (optCell (it.next.bind (·.rank))) ∧
    (csvRow it)[9]? = some (optCell (it.next.bind (·.ncbiId))) ∧
    (csvRow it)[10]? = some (optCell (it.next.bind (·.threshold))) :=
  ⟨rfl, rfl, rfl, rfl, rfl, rfl, rfl, rfl, rfl, rfl, rfl, rfl⟩

/-- 2b. With no reported taxon the four `predicted.*` cells are empty; likewise `next.*`. -/
theorem csv_columns_none (it : ItemRec) :
    (it.report = none → (csvRow it)[1]? = some [] ∧ (csvRow it)[2]? = some [] ∧
      (csvRow it)[3]? = some [] ∧ (csvRow it)[4]? = some []) ∧
    (it.next = none → (csvRow it)[7]? = some [] ∧ (csvRow it)[8]? = some [] ∧
      (csvRow it)[9]? = some [] ∧ (csvRow it)[10]? = some []) := by
  constructor
  · intro h
    simp [csvRow, h, optCell]
  · intro h
    simp [csvRow, h, optCell]

/-- 2c. With a reported taxon the `predicted.*` cells are its name and its (possibly absent)
rank, NCBI id and threshold. -/
theorem csv_columns_some (it : ItemRec) (t : TaxonRec) (h : it.report = some t) :
    (csvRow it)[1]? = some t.name ∧ (csvRow it)[2]? = some (optCell t.rank) ∧
    (csvRow it)[3]? = some (optCell t.ncbiId) ∧ (csvRow it)[4]? = some (optCell t.threshold) := by
  simp [csvRow, h, optCell]

/-! ### 3. The excluded class (finding C11-F1) -/

/-- 3. A field fails the guard exactly when it contains a CR and nothing that forces quoting. -/
theorem fieldOk_false_iff (f : List Char) :
    fieldOk ['\n'] f = false ↔ ('\r' ∈ f ∧ ',' ∉ f ∧ '"' ∉ f ∧ '\n' ∉ f) :=
  fieldOk_nl_false_iff f

/-- 3'. Equivalently: the guard holds iff the field has no CR, or has a comma, a quote or an LF. -/
theorem fieldOk_true_iff (f : List Char) :
    fieldOk ['\n'] f = true ↔ ('\r' ∉ f ∨ ',' ∈ f ∨ '"' ∈ f ∨ '\n' ∈ f) := by
  have h := fieldOk_false_iff f
  cases hf : fieldOk ['\n'] f
  · obtain ⟨h1, h2, h3, h4⟩ := h.1 hf
    constructor
    · intro h; cases h
    · rintro (h | h | h | h)
      · exact absurd h1 h
      · exact absurd h h2
      · exact absurd h h3
      · exact absurd h h4
  · constructor
    · intro _
      by_cases h1 : '\r' ∈ f
      · by_cases h2 : ',' ∈ f
        · exact Or.inr (Or.inl h2)
        · by_cases h3 : '"' ∈ f
          · exact Or.inr (Or.inr (Or.inl h3))
          · by_cases h4 : '\n' ∈ f
            · exact Or.inr (Or.inr (Or.inr h4))
            · have := h.2 ⟨h1, h2, h3, h4⟩
              rw [hf] at this
              cases this
      · exact Or.inl h1
    · intro _; rfl

/-- 3''. A field without a CR is never in the excluded class. -/
theorem fieldOk_of_no_cr (f : List Char) (h : '\r' ∉ f) : fieldOk ['\n'] f = true :=
  (fieldOk_true_iff f).2 (Or.inl h)

def crTaxon : TaxonRec :=
  { key := ['k'], name := ['a', '\r', 'b'], rank := none, ncbiId := none, threshold := none }

def crItem : ItemRec :=
  { label := ['q'], report := some crTaxon, next := none,
    closestMatch := { genome := { key := ['g'], description := ['d'] }, distanceBits := 0,
                      distanceText := ['0'], matched := none },
    primary := none, predicted := some crTaxon, closestGenomes := [], success := true,
    warnings := [], error := none }

/-- the item's `predicted.name` cell is in the excluded class -/
theorem crItem_not_ok : ∃ f ∈ csvRow crItem, fieldOk ['\n'] f = false := by decide

/-- 3b. Finding C11-F1: an item whose reported taxon is named `"a\rb"` is exported to a file that
does not read back — the CR is written unquoted and the reader ends the record there. -/
theorem bare_cr_breaks : parseCsv (queryCsv [crItem]) ≠ csvHeader :: [csvRow crItem] := by
  set_option maxRecDepth 100000 in decide

/-- 3c. what the reader sees instead: three records, the query's row split at the CR -/
theorem bare_cr_rows : (parseCsv (queryCsv [crItem])).length = 3 := by
  set_option maxRecDepth 100000 in decide

/-! ### 5. The archive: keys only, read back within the genome set -/

/-- 5. Only keys are stored (`ItemRec.toKeys`); reading them back against a genome set with unique
taxon keys and unique genome keys that contains every object of the item reconstructs an equal item:
the same taxa and genomes, every distance as the same bit pattern (and its rendering), the
closest-genomes list in order, warnings, error, success flag.  `itemTaxa` / `itemGenomes` /
`itemMatches` (`Lemmas/Export.lean`) list the taxa (report, next, predicted, matched taxon of every
match), genomes and matches (closest, primary, closest-genomes list) occurring in the item. -/
theorem archive_roundtrip (db : Db) (render : Nat → List Char) (it : ItemRec)
    (hT : (db.taxa.map (·.key)).Nodup) (hG : (db.genomes.map (·.key)).Nodup)
    (hmem : (∀ t ∈ itemTaxa it, t ∈ db.taxa) ∧ (∀ g ∈ itemGenomes it, g ∈ db.genomes))
    (htext : ∀ m ∈ itemMatches it, m.distanceText = render m.distanceBits) :
    readItem db render it.toKeys = some it := by
  obtain ⟨hmT, hmG⟩ := hmem
  have hm : ∀ m ∈ itemMatches it, readMatch db render m.toKeys = some m := fun m hm =>
    readMatch_toKeys db render hT hG m (hmG _ (genome_mem_itemGenomes hm))
      (fun t ht => hmT t (matchTaxa_sub_itemTaxa hm ht)) (htext m hm)
  have h1 := readOptTaxon_key db hT it.report (fun t ht => hmT t (report_sub_itemTaxa ht))
  have h2 := readOptTaxon_key db hT it.next (fun t ht => hmT t (next_sub_itemTaxa ht))
  have h3 := readOptTaxon_key db hT it.predicted (fun t ht => hmT t (predicted_sub_itemTaxa ht))
  have h4 := hm it.closestMatch (mem_itemMatches.2 (Or.inl rfl))
  have h6 := mapM_readMatch db render it.closestGenomes
    (fun m h => hm m (mem_itemMatches.2 (Or.inr (Or.inr h))))
  have h5 : ∀ m, it.primary = some m → readMatch db render m.toKeys = some m :=
    fun m h => hm m (mem_itemMatches.2 (Or.inr (Or.inl h)))
  obtain ⟨label, report, next, cm, primary, predicted, cg, success, warnings, error⟩ := it
  unfold readItem ItemRec.toKeys
  simp only at h1 h2 h3 h4 h5 h6
  cases primary with
  | none => simp only [h1, h2, h3, h4, h6]; rfl
  | some m => simp only [h1, h2, h3, h4, h6, Option.map_some, h5 m rfl]; rfl

/-- 5b. The stored form keeps the non-database fields as they are. -/
theorem toKeys_fields (it : ItemRec) :
    it.toKeys.label = it.label ∧ it.toKeys.success = it.success ∧ it.toKeys.warnings = it.warnings ∧
    it.toKeys.error = it.error ∧ it.toKeys.closestMatch.distanceBits = it.closestMatch.distanceBits ∧
    it.toKeys.closestGenomes.map (·.distanceBits) = it.closestGenomes.map (·.distanceBits) := by
  refine ⟨rfl, rfl, rfl, rfl, rfl, ?_⟩
  simp [ItemRec.toKeys, MatchRec.toKeys]

/-- 5c. Consequently two items over the same genome set with the same stored form are equal. -/
theorem toKeys_injective (db : Db) (render : Nat → List Char) (it it' : ItemRec)
    (hT : (db.taxa.map (·.key)).Nodup) (hG : (db.genomes.map (·.key)).Nodup)
    (hmem : (∀ t ∈ itemTaxa it, t ∈ db.taxa) ∧ (∀ g ∈ itemGenomes it, g ∈ db.genomes))
    (htext : ∀ m ∈ itemMatches it, m.distanceText = render m.distanceBits)
    (hmem' : (∀ t ∈ itemTaxa it', t ∈ db.taxa) ∧ (∀ g ∈ itemGenomes it', g ∈ db.genomes))
    (htext' : ∀ m ∈ itemMatches it', m.distanceText = render m.distanceBits)
    (h : it.toKeys = it'.toKeys) : it = it' := by
  have h1 := archive_roundtrip db render it hT hG hmem htext
  have h2 := archive_roundtrip db render it' hT hG hmem' htext'
  rw [h, h2] at h1
  exact (Option.some.inj h1).symm

/-! ### 6. Why keys must be unique within the genome set -/

def dupTaxonA : TaxonRec :=
  { key := ['k'], name := ['A'], rank := none, ncbiId := none, threshold := none }
def dupTaxonB : TaxonRec :=
  { key := ['k'], name := ['B'], rank := none, ncbiId := none, threshold := none }
def dupDb : Db := { taxa := [dupTaxonA, dupTaxonB], genomes := [{ key := ['g'], description := ['d'] }] }
def dupRender : Nat → List Char := fun _ => ['0']
def dupItem : ItemRec :=
  { label := ['q'], report := some dupTaxonB, next := none,
    closestMatch := { genome := { key := ['g'], description := ['d'] }, distanceBits := 0,
                      distanceText := ['0'], matched := none },
    primary := none, predicted := none, closestGenomes := [], success := true,
    warnings := [], error := none }

/-- 6. Two taxa sharing a key: every object of the item is in the database and the distance texts
agree, yet the item read back is a different one (the lookup returns the first taxon with the key). -/
theorem archive_needs_unique_keys :
    ((∀ t ∈ itemTaxa dupItem, t ∈ dupDb.taxa) ∧ (∀ g ∈ itemGenomes dupItem, g ∈ dupDb.genomes)) ∧
    (∀ m ∈ itemMatches dupItem, m.distanceText = dupRender m.distanceBits) ∧
    (dupDb.genomes.map (·.key)).Nodup ∧ ¬ (dupDb.taxa.map (·.key)).Nodup ∧
    readItem dupDb dupRender dupItem.toKeys ≠ some dupItem := by
  decide

/-- 6b. what is read back instead: the other taxon -/
theorem archive_dup_reads_other :
    readItem dupDb dupRender dupItem.toKeys = some { dupItem with report := some dupTaxonA } := by
  decide

/-! ### 7. Non-vacuity -/

def exSpecies : TaxonRec :=
  { key := "sp1".toList, name := "Escherichia coli".toList, rank := some "species".toList,
    ncbiId := some "562".toList, threshold := some "0.5".toList }
def exGenus : TaxonRec :=
  { key := "ge1".toList, name := "Escherichia".toList, rank := some "genus".toList,
    ncbiId := none, threshold := some "0.9".toList }
def exG1 : GenomeRec := { key := "g1".toList, description := "genome one".toList }
def exG2 : GenomeRec := { key := "g2".toList, description := "genome, \"two\"".toList }
def exDb : Db := { taxa := [exSpecies, exGenus], genomes := [exG1, exG2] }
/-- a rendering function (the theorem holds for any) -/
def exRender : Nat → List Char := fun n => if n = 1056964608 then "0.5".toList else "0.75".toList
def exM1 : MatchRec :=
  { genome := exG1, distanceBits := 1056964608, distanceText := "0.5".toList, matched := some exGenus }
def exM2 : MatchRec :=
  { genome := exG2, distanceBits := 1061158912, distanceText := "0.75".toList, matched := none }
/-- no reported taxon, a next taxon, two closest genomes, a warning -/
def exItem : ItemRec :=
  { label := "query 1".toList, report := none, next := some exSpecies, closestMatch := exM1,
    primary := some exM1, predicted := some exGenus, closestGenomes := [exM1, exM2], success := true,
    warnings := ["inconsistent matches".toList], error := none }

/-- 7a. the hypotheses of `archive_roundtrip` are satisfiable -/
theorem archive_hyps_example :
    (exDb.taxa.map (·.key)).Nodup ∧ (exDb.genomes.map (·.key)).Nodup ∧
    ((∀ t ∈ itemTaxa exItem, t ∈ exDb.taxa) ∧ (∀ g ∈ itemGenomes exItem, g ∈ exDb.genomes)) ∧
    (∀ m ∈ itemMatches exItem, m.distanceText = exRender m.distanceBits) := by
  decide

/-- 7b. and the theorem applies -/
theorem archive_example : readItem exDb exRender exItem.toKeys = some exItem :=
  archive_roundtrip exDb exRender exItem archive_hyps_example.1 archive_hyps_example.2.1
    archive_hyps_example.2.2.1 archive_hyps_example.2.2.2

/-- a second query whose taxon name contains a comma, a quote and a line feed (and a CRLF) -/
def exOddTaxon : TaxonRec :=
  { key := "sp2".toList, name := "Odd, \"name\"\nline\r\nétrange".toList, rank := some "species".toList,
    ncbiId := none, threshold := none }
def exItem2 : ItemRec :=
  { label := "query,2".toList, report := some exOddTaxon, next := none, closestMatch := exM2,
    primary := none, predicted := some exOddTaxon, closestGenomes := [exM2], success := false,
    warnings := [], error := some "no match".toList }

/-- 7c. the hypothesis of `csv_parse` holds for these two items -/
theorem csv_hyp_example : ∀ it ∈ [exItem, exItem2], ∀ f ∈ csvRow it, fieldOk ['\n'] f = true := by
  decide

/-- 7d. and the exported file of the two items parses back to header + two rows -/
theorem csv_parse_example :
    parseCsv (queryCsv [exItem, exItem2]) = [csvHeader, csvRow exItem, csvRow exItem2] :=
  csv_parse [exItem, exItem2] csv_hyp_example

/-- 7e. the same fact by evaluation of the model (independent of the general proof) -/
theorem csv_parse_example_decide :
    parseCsv (queryCsv [exItem, exItem2]) = [csvHeader, csvRow exItem, csvRow exItem2] := by
  set_option maxRecDepth 100000 in decide

end GambitV.C11
