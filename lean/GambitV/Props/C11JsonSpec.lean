import GambitV.Props.C11Json
import GambitV.Spec.JsonCarries

/-!
C11, JSON side, second batch — the statement's predicate (`Spec/JsonCarries.lean`) holds of the documented JSON.
Final file: GambitV/Props/C11JsonSpec.lean.
-/
namespace GambitV.Json

theorem taxonCarried_json (t : JTaxon) : taxonCarried (some t.toPVal) (some (taxonJson t)) = true := by
  cases t with | mk id key name ncbiId rank threshold =>
  cases ncbiId <;> cases rank <;> cases threshold <;>
    simp [taxonCarried, JTaxon.toPVal_eq, JTaxon.columns_eq, taxonJson_eq, PVal.getattr?, Json.get?, lookup, leafEq, optInt, optStr, optFloat, jInt, jStr, jFloat]

private theorem zipAll_map {α β γ : Type} (p : β → γ → Bool) (f : α → β) (g : α → γ) (h : ∀ a, p (f a) (g a) = true) (l : List α) :
    zipAll p (l.map f) (l.map g) = true := by
  induction l with
  | nil => simp [zipAll]
  | cons a l ih => simp [zipAll, h, ih]

private theorem zipAll_length {α β : Type} (p : α → β → Bool) : ∀ (xs : List α) (ys : List β), zipAll p xs ys = true → xs.length = ys.length
  | [], [], _ => rfl
  | [], _ :: _, h => by simp [zipAll] at h
  | _ :: _, [], h => by simp [zipAll] at h
  | _ :: xs, _ :: ys, h => by
    simp only [zipAll, Bool.and_eq_true] at h
    simp [zipAll_length p xs ys h.2]

theorem optTaxonCarried_json (t : Option JTaxon) : taxonCarried (some (optTaxon t)) (some (optTaxonJson t)) = true := by
  cases t with
  | none => simp [optTaxon, optTaxonJson, taxonCarried]
  | some t => simpa [optTaxon, optTaxonJson] using taxonCarried_json t

private theorem leafEq_optStr (a b : Option (List Char)) : leafEq (some (optStr a)) (some (jStr b)) = true ↔ a = b := by
  cases a <;> cases b <;> simp [leafEq, optStr, jStr]

/-- the attribute walks of the predicate on a match -/
private theorem walk_match (m : JMatch) :
    walk m.toPVal ["genome".toList, "key".toList] = some (.str m.genome.key)
    ∧ walk m.toPVal ["genome".toList, "description".toList] = some (optStr m.genome.description)
    ∧ walk m.toPVal ["distance".toList] = some (.float m.distance)
    ∧ walk m.toPVal ["matched_taxon".toList] = some (optTaxon m.matched)
    ∧ walk m.toPVal ["genome".toList, "taxon".toList, "ancestors(incself=True)".toList] = some (.list (m.genome.taxonomy.map JTaxon.toPVal)) := by
  simp [JMatch.toPVal_eq, JGenome.toPVal_eq, JTaxon.toPValWith_eq, JTaxon.columns_eq, walk, PVal.getattr?, lookup]

private theorem path_matchJson (m : JMatch) :
    (matchJson m).path? ["genome".toList, "key".toList] = some (.str m.genome.key)
    ∧ (matchJson m).path? ["genome".toList, "description".toList] = some (jStr m.genome.description)
    ∧ (matchJson m).get? "distance".toList = some (.float m.distance)
    ∧ (matchJson m).get? "matched_taxon".toList = some (optTaxonJson m.matched)
    ∧ (matchJson m).path? ["genome".toList, "taxonomy".toList] = some (.arr (m.genome.taxonomy.map taxonJson)) := by
  simp [matchJson_eq, genomeJson_eq, Json.path?, Json.get?, lookup]

theorem matchCarried_json (m : JMatch) : matchCarried m.toPVal (matchJson m) = true := by
  obtain ⟨w1, w2, w3, w4, w5⟩ := walk_match m
  obtain ⟨p1, p2, p3, p4, p5⟩ := path_matchJson m
  unfold matchCarried
  rw [w1, w2, w3, w4, w5, p1, p2, p3, p4, p5]
  rw [(leafEq_optStr _ _).mpr rfl]
  simp [leafEq, optTaxonCarried_json,
    zipAll_map (fun t x => taxonCarried (some t) (some x)) JTaxon.toPVal taxonJson taxonCarried_json]

private theorem walk_item (it : JItem) :
    walk it.toPVal ["input".toList, "label".toList] = some (.str it.label)
    ∧ walk it.toPVal ["report_taxon".toList] = some (optTaxon it.report)
    ∧ walk it.toPVal ["classifier_result".toList, "next_taxon".toList] = some (optTaxon it.next)
    ∧ walk it.toPVal ["closest_genomes".toList] = some (.list (it.closest.map JMatch.toPVal)) := by
  simp [JItem.toPVal_eq, JItem.inputPVal_eq, JItem.resultPVal_eq, walk, PVal.getattr?, lookup]

/-- the documented element of `items` carries the label, the reported taxon, the next taxon and the closest genomes of the query -/
theorem itemCarried_json (it : JItem) : itemCarried it.toPVal (itemJson it) = true := by
  obtain ⟨w1, w2, w3, w4⟩ := walk_item it
  obtain ⟨p1, p2, p3, p4⟩ := json_projection it
  unfold itemCarried
  rw [w1, w2, w3, w4, p1, p2, p3, p4]
  simp [leafEq, optTaxonCarried_json, zipAll_map _ JMatch.toPVal matchJson matchCarried_json]

/-- … and so does the whole export, whatever else the results object holds -/
theorem resultsCarried_json (items : List JItem) (p : PVal) (rest : List (List Char × PVal)) (restJ : List (List Char × Json)) :
    resultsCarried (.inst "QueryResults".toList true (("items".toList, .list (items.map JItem.toPVal)) :: ("params".toList, p) :: rest))
      (.obj (("items".toList, .arr (items.map itemJson)) :: restJ)) = true := by
  simp [resultsCarried, walk, PVal.getattr?, Json.get?, lookup, zipAll_map _ JItem.toPVal itemJson itemCarried_json]

/-- the predicate is not vacuous: it tells two labels apart, and two distances that differ in the last bit -/
theorem itemCarried_label (a b : JItem) (h : itemCarried a.toPVal (itemJson b) = true) : a.label = b.label := by
  obtain ⟨w1, w2, w3, w4⟩ := walk_item a
  obtain ⟨p1, p2, p3, p4⟩ := json_projection b
  unfold itemCarried at h
  rw [w1, p1] at h
  simp only [Bool.and_eq_true, leafEq, beq_iff_eq] at h
  exact h.1.1.1

theorem matchCarried_distance (a b : JMatch) (h : matchCarried a.toPVal (matchJson b) = true) :
    a.distance = b.distance ∧ a.genome.key = b.genome.key ∧ a.genome.description = b.genome.description := by
  obtain ⟨w1, w2, w3, w4, w5⟩ := walk_match a
  obtain ⟨p1, p2, p3, p4, p5⟩ := path_matchJson b
  unfold matchCarried at h
  rw [w1, w2, w3, p1, p2, p3] at h
  simp only [Bool.and_eq_true, leafEq_optStr] at h
  simp only [leafEq, beq_iff_eq] at h
  exact ⟨h.1.1.2, h.1.1.1.1, h.1.1.1.2⟩

private theorem optTaxonCarried_key (a b : Option JTaxon) (h : taxonCarried (some (optTaxon a)) (some (optTaxonJson b)) = true) :
    a.map (·.key) = b.map (·.key) := by
  cases a with
  | none =>
    cases b with
    | none => rfl
    | some b => simp [optTaxon, optTaxonJson, taxonJson_eq, taxonCarried] at h
  | some a =>
    cases b with
    | none => simp [optTaxon, optTaxonJson, JTaxon.toPVal_eq, taxonCarried] at h
    | some b =>
      simp [optTaxon, optTaxonJson, JTaxon.toPVal_eq, JTaxon.columns_eq, taxonJson_eq, taxonCarried, PVal.getattr?, Json.get?, lookup,
        leafEq] at h
      simp [h.1]

theorem itemCarried_report (a b : JItem) (h : itemCarried a.toPVal (itemJson b) = true) :
    a.report.map (·.key) = b.report.map (·.key) ∧ a.next.map (·.key) = b.next.map (·.key) ∧ a.closest.length = b.closest.length := by
  obtain ⟨w1, w2, w3, w4⟩ := walk_item a
  obtain ⟨p1, p2, p3, p4⟩ := json_projection b
  unfold itemCarried at h
  rw [w2, w3, w4, p2, p3, p4] at h
  simp only [Bool.and_eq_true] at h
  refine ⟨optTaxonCarried_key _ _ h.1.1.2, optTaxonCarried_key _ _ h.1.2, ?_⟩
  simpa using zipAll_length _ _ _ h.2

end GambitV.Json
