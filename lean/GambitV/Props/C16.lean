import GambitV.Model.Cli
namespace GambitV.C16
end GambitV.C16
