import GambitV.Lemmas.Csv
import GambitV.Lemmas.Bulk

/-!
# C16 — `gambit dist`: labels, the CSV distance matrix, 4-decimal cells, `--square`

* CSV (`Model/Csv.lean`, CPython `csv.writer` QUOTE_MINIMAL / `csv.reader`): a table read back is the
  table written (`csv_roundtrip`), for every field with the default `\r\n` terminator
  (`csv_roundtrip_crlf`); with terminator `\n` a bare `\r` in an otherwise unquoted field breaks the
  record (`bare_cr_counterexample`, finding C11-F1).
* labels (`Model/Cli.lean`, `get_file_id`): directory, one `.gz` and one FASTA extension are removed
  (`label_spec`, `label_no_dir`), anything else is kept (`label_plain`).
* `distCsv` (`dump_dmat_csv`): the file parses to header = corner + reference labels and one row per
  query: label, then the formatted cells in reference order (`distCsv_parse`).
* `F32.fmt4`: the rendered number is value·10⁴ rounded to nearest, ties to even (`fmt4_nearest`).
* `--square` equals queries-vs-themselves (`square_eq_self_matrix`).

Helper lemmas: `Lemmas/Csv.lean` (reader state machine; extension stripping; rounding),
`Lemmas/Bulk.lean` (`pairwiseSquare`).  Core Lean only.
-/
namespace GambitV.C16
open GambitV

/-! ### 1–3. CSV round trip -/

/-- 1. Fields with commas, quotes, LF, CRLF, any Unicode survive a write/read cycle; excluded are
only fields containing a newline character that the writer does not quote (`fieldOk`). -/
theorem csv_roundtrip (lt : List Char) (hlt : lt = ['\n'] ∨ lt = ['\r', '\n'])
    (rows : List (List (List Char))) (hne : ∀ row ∈ rows, row ≠ [])
    (hok : ∀ row ∈ rows, ∀ f ∈ row, fieldOk lt f = true) :
    parseCsv (writeCsv lt rows) = rows :=
  Csv.csv_roundtrip lt hlt rows hne hok

/-- with the default terminator every field satisfies the guard -/
theorem fieldOk_crlf (f : List Char) : fieldOk ['\r', '\n'] f = true := Csv.fieldOk_crlf f

/-- 2. Default dialect (`\r\n`): every table with non-empty rows survives. -/
theorem csv_roundtrip_crlf (rows : List (List (List Char))) (hne : ∀ row ∈ rows, row ≠ []) :
    parseCsv (writeCsv ['\r', '\n'] rows) = rows :=
  Csv.csv_roundtrip_crlf rows hne

/-- 3. Finding C11-F1 as a theorem about the model. -/
theorem bare_cr_counterexample :
    parseCsv (writeCsv ['\n'] [[['a', '\r', 'b'], ['c']]]) ≠ [[['a', '\r', 'b'], ['c']]] :=
  Csv.bare_cr_counterexample

/-! ### 4. Labels -/

/-- 4. `dir/stem.ext[.gz]` is labelled `stem`, for every FASTA extension `ext` of the tuple, with or
without `.gz`, whatever `stem` is (it may itself contain dots or end in another extension: only one
extension is removed; no FASTA extension is a suffix of another, so the order of the tuple does not
matter and no side condition on `stem` is needed). -/
theorem label_spec (dir stem : List Char) (ext : List Char) (hext : ext ∈ fastaExts) (gz : Bool)
    (hstem : '/' ∉ stem) :
    fileLabel (dir ++ ['/'] ++ stem ++ ext ++ (if gz then ".gz".toList else [])) = stem := by
  unfold fileLabel
  have e : dir ++ ['/'] ++ stem ++ ext ++ (if gz then ".gz".toList else []) =
      dir ++ ['/'] ++ (stem ++ ext ++ (if gz then ".gz".toList else [])) := by
    simp only [List.append_assoc]
  rw [e, Cli.basename_dir _ _ (Cli.name_no_slash stem ext hext gz hstem), Cli.stripSeqExt_spec stem ext hext gz]

/-- 4b. the same without a directory part -/
theorem label_no_dir (stem : List Char) (ext : List Char) (hext : ext ∈ fastaExts) (gz : Bool)
    (hstem : '/' ∉ stem) :
    fileLabel (stem ++ ext ++ (if gz then ".gz".toList else [])) = stem := by
  unfold fileLabel
  rw [Cli.basename_nodir _ (Cli.name_no_slash stem ext hext gz hstem), Cli.stripSeqExt_spec stem ext hext gz]

/-- 4c. a name without directory and without a known extension is its own label -/
theorem label_plain (name : List Char) (h : '/' ∉ name)
    (hno : ∀ e ∈ gzipExts ++ fastaExts, endsWith name e = false) : fileLabel name = name := by
  unfold fileLabel stripSeqExt
  rw [Cli.basename_nodir name h,
    Cli.stripExtensions_none name gzipExts (fun e he => hno e (List.mem_append_left _ he)),
    Cli.stripExtensions_none name fastaExts (fun e he => hno e (List.mem_append_right _ he))]

/-- 4d. only the basename matters -/
theorem label_basename (dir name : List Char) (h : '/' ∉ name) :
    fileLabel (dir ++ ['/'] ++ name) = fileLabel name := by
  unfold fileLabel
  rw [Cli.basename_dir dir name h, Cli.basename_nodir name h]

/-! ### 5. The distance CSV -/

/-- 5. `dump_dmat_csv` output parses to: header = empty corner + reference labels; row `i` = query
label, then one formatted cell per reference, in order.  Labels may contain commas, quotes, newlines. -/
theorem distCsv_parse (rowIds colIds : List (List Char)) (cells : List (List UInt32))
    (_hlen : rowIds.length = cells.length) :
    parseCsv (distCsv rowIds colIds cells) =
      ([] :: colIds) :: (rowIds.zip cells).map (fun rc => rc.1 :: rc.2.map (fun b => (F32.fmt4 b).toList)) := by
  unfold distCsv
  apply csv_roundtrip_crlf
  intro row hrow
  rcases List.mem_cons.1 hrow with h | h
  · rw [h]; exact List.cons_ne_nil _ _
  · obtain ⟨rc, _, h2⟩ := List.mem_map.1 h
    rw [← h2]; exact List.cons_ne_nil _ _

/-- 5b. number of records = 1 + number of query rows -/
theorem distCsv_rows (rowIds colIds : List (List Char)) (cells : List (List UInt32))
    (hlen : rowIds.length = cells.length) :
    (parseCsv (distCsv rowIds colIds cells)).length = rowIds.length + 1 := by
  rw [distCsv_parse rowIds colIds cells hlen]
  simp [hlen]

/-! ### 6. `format(d, '0.4f')` -/

open Fmt

/-- 6. For a pattern in the modelled range (`decode b = some (m, e)`, value `m·2^e`): `fmt4 b` is the
fixed-point rendering of the integer `fmt4Q b`; with `num/den = m·2^e·10^4` exactly, `fmt4Q b` is a
nearest integer to `num/den`, and on an exact tie it is even. -/
theorem fmt4_nearest (b : UInt32) (m : Nat) (e : Int) (h : F32.decode b = some (m, e)) :
    F32.fmt4 b = render4 (fmt4Q b) ∧
    2 * ((fmt4Q b : Int) * fmt4Den e - fmt4Num m e).natAbs ≤ fmt4Den e ∧
    (2 * ((fmt4Q b : Int) * fmt4Den e - fmt4Num m e).natAbs = fmt4Den e → fmt4Q b % 2 = 0) := by
  refine ⟨Fmt.fmt4_eq_render4 b m e h, ?_, ?_⟩
  · rw [Fmt.fmt4Q_eq b m e h]
    have := Fmt.roundHalfEven_bounds (fmt4Num m e) (fmt4Den e) (Fmt.fmt4Den_pos e)
    have hc : ((roundHalfEven (fmt4Num m e) (fmt4Den e) : Nat) : Int) * (fmt4Den e : Int) =
        ((roundHalfEven (fmt4Num m e) (fmt4Den e) * fmt4Den e : Nat) : Int) := by
      rw [Int.natCast_mul]
    rw [hc]
    omega
  · rw [Fmt.fmt4Q_eq b m e h]
    intro htie
    apply Fmt.roundHalfEven_tie (fmt4Num m e) (fmt4Den e) (Fmt.fmt4Den_pos e)
    have hc : ((roundHalfEven (fmt4Num m e) (fmt4Den e) : Nat) : Int) * (fmt4Den e : Int) =
        ((roundHalfEven (fmt4Num m e) (fmt4Den e) * fmt4Den e : Nat) : Int) := by
      rw [Int.natCast_mul]
    rw [hc] at htie
    omega

/-- the exact value: `num/den = m·2^e·10^4` (stated without division) -/
theorem fmt4_num_den (m : Nat) (e : Int) :
    (0 ≤ e → fmt4Den e = 1 ∧ fmt4Num m e = m * 2 ^ e.toNat * 10000) ∧
    (e < 0 → fmt4Den e = 2 ^ (-e).toNat ∧ fmt4Num m e = m * 10000) := by
  unfold Fmt.fmt4Den Fmt.fmt4Num
  constructor
  · intro h; rw [if_pos h, if_pos h]; exact ⟨rfl, rfl⟩
  · intro h
    have : ¬ e ≥ 0 := by omega
    rw [if_neg this, if_neg this]; exact ⟨rfl, rfl⟩

/-! ### 7. `--square` -/

theorem sqCell_eq_dist {α γ : Type} (dist : α → α → γ) (zero : γ)
    (hsymm : ∀ a b, dist a b = dist b a) (hdiag : ∀ a, dist a a = zero) (sigs : List α)
    (i j : Nat) (hi : i < sigs.length) (hj : j < sigs.length) :
    sqCell dist zero sigs i j = dist sigs[i] sigs[j] := by
  rcases Nat.lt_trichotomy i j with h | h | h
  · exact sqCell_lt dist zero sigs i j h hj
  · subst h; rw [sqCell_self, hdiag]
  · rw [sqCell_symm, sqCell_lt dist zero sigs j i h hi, hsymm]

/-- 7. For a symmetric distance with `dist a a = zero`, the square pairwise matrix (zero diagonal,
upper triangle computed, mirrored) is the full query × reference matrix of the signatures against
themselves. -/
theorem square_eq_self_matrix {α γ : Type} (dist : α → α → γ) (zero : γ)
    (hsymm : ∀ a b, dist a b = dist b a) (hdiag : ∀ a, dist a a = zero) (sigs : List α) :
    pairwiseSquare dist zero sigs = sigs.map (fun a => sigs.map (dist a)) := by
  rw [pairwiseSquare_eq]
  apply List.ext_getElem
  · simp
  · intro i h1 h2
    simp only [List.getElem_map, List.getElem_range]
    apply List.ext_getElem
    · simp
    · intro j h3 h4
      simp only [List.getElem_map, List.getElem_range]
      simp only [List.length_map, List.length_range] at h1 h3
      exact sqCell_eq_dist dist zero hsymm hdiag sigs i j h1 h3

/-! ### 8. Non-vacuity -/

example : fileLabel "data/x y.fasta.gz".toList = "x y".toList := by decide
example : fileLabel "a.fa.fasta".toList = "a.fa".toList := by decide
example : fileLabel "/d.fa/a.b.fna".toList = "a.b".toList := by decide
example : fileLabel "genome.gz".toList = "genome".toList := by decide
example : fileLabel "x.fasta.gz.gz".toList = "x.fasta.gz".toList := by decide
example : fileLabel "reads.fastq".toList = "reads.fastq".toList := by decide

example : F32.fmt4 0x3D000000 = "0.0312" := by decide   -- 1/32 = 0.03125 exactly: half-even
example : F32.fmt4 0x3F800000 = "1.0000" := by decide
example : F32.fmt4 0 = "0.0000" := by decide
example : F32.fmt4 0x3F000000 = "0.5000" := by decide
example : fmt4Q 0x3D000000 = 312 ∧ render4 312 = "0.0312" := by decide

example : distCsv ["q,1".toList, "q2".toList] ["r\"a".toList, "rb".toList]
    [[0, 0x3F800000], [0x3D000000, 0x3F000000]] =
    ",\"r\"\"a\",rb\r\n\"q,1\",0.0000,1.0000\r\nq2,0.0312,0.5000\r\n".toList := by decide

example : parseCsv ",\"r\"\"a\",rb\r\n\"q,1\",0.0000,1.0000\r\nq2,0.0312,0.5000\r\n".toList =
    [["".toList, "r\"a".toList, "rb".toList], ["q,1".toList, "0.0000".toList, "1.0000".toList],
     ["q2".toList, "0.0312".toList, "0.5000".toList]] := by decide

example : parseCsv (writeCsv ['\n'] [[[]], [['a', '\n', '"'], []], [[], [','], ['\r', '\n']]]) =
    [[[]], [['a', '\n', '"'], []], [[], [','], ['\r', '\n']]] := by decide

example : pairwiseSquare (fun a b : Nat => (a - b) + (b - a)) 0 [1, 5, 7] =
    [1, 5, 7].map (fun a => [1, 5, 7].map (fun b => (a - b) + (b - a))) := by decide

end GambitV.C16
