import GambitV.Lemmas.Content
import GambitV.Props.C01
import Batteries.Data.List.Basic

/-!
# C06 — a genome's signature depends only on its content

* the set of k-mers (`SpecMem`, and the computed `signature`) is unchanged when any contig is replaced
  by its reverse complement, when contigs are reordered / duplicated, and when letter case changes;
* no k-mer is formed across a contig boundary: the signature is the union of the per-contig signatures;
* the FASTA text is parsed to the same contigs whatever the line width, the line ending (LF / CRLF)
  and whether there is a final newline (`parse_render`);
* compression is recognised from the first two bytes of the content (`guess_iff`).

Helper lemmas: `Lemmas/Content.lean`.  Only `List.Forall₂` is taken from
`Batteries.Data.List.Basic`; everything else is core Lean.
-/
namespace GambitV.C06
open GambitV

/-! ### 1–4. Membership -/

/-- 1. Any contig may be replaced by its reverse complement. -/
theorem specMem_revcomp_any (k : Nat) (pre : List UInt8) (seqs seqs' : List (List UInt8))
    (h : List.Forall₂ (fun a b => b = a ∨ b = revcomp a) seqs seqs') (x : Nat) :
    SpecMem k pre seqs' x ↔ SpecMem k pre seqs x := by
  induction h with
  | nil => exact Iff.rfl
  | cons hab _ ih =>
    rw [specMem_cons, specMem_cons, ih]
    rcases hab with rfl | rfl
    · exact Iff.rfl
    · rw [pairMem_revcomp]

/-- 2. Only the set of contigs matters. -/
theorem specMem_congr (k : Nat) (pre : List UInt8) (seqs seqs' : List (List UInt8))
    (h : ∀ s, s ∈ seqs ↔ s ∈ seqs') (x : Nat) :
    SpecMem k pre seqs x ↔ SpecMem k pre seqs' x := by
  unfold SpecMem
  simp only [h]

/-- 2'. Contig order is irrelevant. -/
theorem specMem_perm (k : Nat) (pre : List UInt8) (seqs seqs' : List (List UInt8))
    (h : seqs.Perm seqs') (x : Nat) : SpecMem k pre seqs x ↔ SpecMem k pre seqs' x :=
  specMem_congr k pre seqs seqs' (fun _ => h.mem_iff) x

/-- 3. Letter case is irrelevant. -/
theorem specMem_case (k : Nat) (pre : List UInt8) (seqs seqs' : List (List UInt8))
    (h : List.Forall₂ (fun a b => upper a = upper b) seqs seqs') (x : Nat) :
    SpecMem k pre seqs x ↔ SpecMem k pre seqs' x := by
  induction h with
  | nil => exact Iff.rfl
  | cons hab _ ih => rw [specMem_cons, specMem_cons, ih, pairMem_case k pre _ _ x hab]

/-- 4. No k-mer is formed across a contig boundary: membership is membership for some single contig. -/
theorem specMem_union (k : Nat) (pre : List UInt8) (seqs : List (List UInt8)) (x : Nat) :
    SpecMem k pre seqs x ↔ ∃ s ∈ seqs, SpecMem k pre [s] x := by
  simp only [specMem_singleton]
  exact Iff.rfl

/-- 4'. Concatenating two genomes' contig lists gives the union. -/
theorem specMem_append (k : Nat) (pre : List UInt8) (seqs seqs' : List (List UInt8)) (x : Nat) :
    SpecMem k pre (seqs ++ seqs') x ↔ SpecMem k pre seqs x ∨ SpecMem k pre seqs' x := by
  induction seqs with
  | nil => simp [specMem_nil]
  | cons s seqs ih => rw [List.cons_append, specMem_cons, specMem_cons, ih, or_assoc]

/-! ### 5. The computed signature -/

/-- Signatures with the same specified members are equal as lists. -/
theorem signature_ext {k : Nat} {pre : List UInt8} (wf : C01.WF k pre) (seqs seqs' : List (List UInt8))
    (h : ∀ x, SpecMem k pre seqs x ↔ SpecMem k pre seqs' x) :
    signature k pre seqs = signature k pre seqs' :=
  sorted_ext _ _ (C01.signature_sorted k pre seqs) (C01.signature_sorted k pre seqs')
    (fun x => by rw [C01.mem_signature_iff wf, C01.mem_signature_iff wf, h])

theorem signature_revcomp_any {k : Nat} {pre : List UInt8} (wf : C01.WF k pre)
    (seqs seqs' : List (List UInt8))
    (h : List.Forall₂ (fun a b => b = a ∨ b = revcomp a) seqs seqs') :
    signature k pre seqs' = signature k pre seqs :=
  signature_ext wf _ _ (specMem_revcomp_any k pre seqs seqs' h)

theorem signature_congr {k : Nat} {pre : List UInt8} (wf : C01.WF k pre)
    (seqs seqs' : List (List UInt8)) (h : ∀ s, s ∈ seqs ↔ s ∈ seqs') :
    signature k pre seqs = signature k pre seqs' :=
  signature_ext wf _ _ (specMem_congr k pre seqs seqs' h)

theorem signature_perm {k : Nat} {pre : List UInt8} (wf : C01.WF k pre)
    (seqs seqs' : List (List UInt8)) (h : seqs.Perm seqs') :
    signature k pre seqs = signature k pre seqs' :=
  signature_ext wf _ _ (specMem_perm k pre seqs seqs' h)

theorem signature_case {k : Nat} {pre : List UInt8} (wf : C01.WF k pre)
    (seqs seqs' : List (List UInt8))
    (h : List.Forall₂ (fun a b => upper a = upper b) seqs seqs') :
    signature k pre seqs = signature k pre seqs' :=
  signature_ext wf _ _ (specMem_case k pre seqs seqs' h)

/-- The signature of a genome is the (sorted, duplicate-free) union of the signatures of its contigs
taken one at a time. -/
theorem signature_union {k : Nat} {pre : List UInt8} (wf : C01.WF k pre) (seqs : List (List UInt8)) :
    signature k pre seqs = setAccumulate (seqs.flatMap (fun s => signature k pre [s])) := by
  apply sorted_ext _ _ (C01.signature_sorted k pre seqs) (setAccumulate_sorted _)
  intro x
  rw [C01.mem_signature_iff wf, mem_setAccumulate, specMem_union]
  simp only [List.mem_flatMap, C01.mem_signature_iff wf]

/-- Two genomes: the signature of the concatenated contig list is the union. -/
theorem signature_append {k : Nat} {pre : List UInt8} (wf : C01.WF k pre)
    (seqs seqs' : List (List UInt8)) :
    signature k pre (seqs ++ seqs') = setAccumulate (signature k pre seqs ++ signature k pre seqs') := by
  apply sorted_ext _ _ (C01.signature_sorted k pre _) (setAccumulate_sorted _)
  intro x
  rw [C01.mem_signature_iff wf, mem_setAccumulate, specMem_append, List.mem_append,
    C01.mem_signature_iff wf, C01.mem_signature_iff wf]

/-! ### 6. Writer / reader -/

/-- 6. Whatever the wrapping width (including 1, and 0 = no wrapping), the line ending (LF or CRLF)
and the presence of a final newline, the rendered records parse back to the sequences.  No edge case
is excluded: empty `records`, records with an empty sequence (also last, without final newline) and
empty names are all covered. -/
theorem parse_render (width : Nat) (eol : List UInt8) (heol : eol = [10] ∨ eol = [13, 10])
    (finalNl : Bool) (records : List (List UInt8 × List UInt8))
    (hname : ∀ r ∈ records, ∀ c ∈ r.1, c ≠ 10 ∧ c ≠ 13)
    (hseq : ∀ r ∈ records, ∀ c ∈ r.2, c ≠ 10 ∧ c ≠ 13 ∧ c ≠ 32 ∧ c ≠ 62) :
    parseFasta (renderFasta width eol finalNl records) = records.map (·.2) := by
  cases hrec : records with
  | nil =>
    rcases heol with rfl | rfl <;> cases finalNl <;> rfl
  | cons r0 rs =>
    rw [← hrec]
    have hne : recordLines width records ≠ [] := by
      rw [hrec, recordLines_cons]; simp
    have h13 : ∀ l ∈ recordLines width records, ∀ c ∈ l, c ≠ 13 :=
      recordLines_clean width records (· ≠ 13) (by decide) (fun r hr c hc => (hname r hr c hc).2)
        (fun r hr c hc => (hseq r hr c hc).2.1)
    have h10 : ∀ l ∈ recordLines width records, ∀ c ∈ l, c ≠ 10 :=
      recordLines_clean width records (· ≠ 10) (by decide) (fun r hr c hc => (hname r hr c hc).1)
        (fun r hr c hc => (hseq r hr c hc).1)
    have htail : universalNewlines (if finalNl then eol else []) = if finalNl then [10] else [] := by
      cases finalNl
      · rfl
      · rcases heol with rfl | rfl <;> rfl
    unfold parseFasta
    rw [renderFasta_eq, universalNewlines_join eol heol _ h13, htail,
      splitLines_join _ h10 (recordLines_nonempty width records) hne, fastaRecords_eq,
      fasta_recordLines width records (fun r hr c hc => (hseq r hr c hc).2)]
    rfl

/-- The parsed contigs do not depend on width, line ending or final newline. -/
theorem parse_render_independent (width width' : Nat) (eol eol' : List UInt8)
    (heol : eol = [10] ∨ eol = [13, 10]) (heol' : eol' = [10] ∨ eol' = [13, 10])
    (finalNl finalNl' : Bool) (records : List (List UInt8 × List UInt8))
    (hname : ∀ r ∈ records, ∀ c ∈ r.1, c ≠ 10 ∧ c ≠ 13)
    (hseq : ∀ r ∈ records, ∀ c ∈ r.2, c ≠ 10 ∧ c ≠ 13 ∧ c ≠ 32 ∧ c ≠ 62) :
    parseFasta (renderFasta width eol finalNl records) =
      parseFasta (renderFasta width' eol' finalNl' records) := by
  rw [parse_render width eol heol finalNl records hname hseq,
    parse_render width' eol' heol' finalNl' records hname hseq]

/-- … and neither does the signature of the file's content. -/
theorem signature_render_independent (k : Nat) (pre : List UInt8) (width width' : Nat)
    (eol eol' : List UInt8) (heol : eol = [10] ∨ eol = [13, 10]) (heol' : eol' = [10] ∨ eol' = [13, 10])
    (finalNl finalNl' : Bool) (records : List (List UInt8 × List UInt8))
    (hname : ∀ r ∈ records, ∀ c ∈ r.1, c ≠ 10 ∧ c ≠ 13)
    (hseq : ∀ r ∈ records, ∀ c ∈ r.2, c ≠ 10 ∧ c ≠ 13 ∧ c ≠ 32 ∧ c ≠ 62) :
    signature k pre (parseFasta (renderFasta width eol finalNl records)) =
      signature k pre (parseFasta (renderFasta width' eol' finalNl' records)) := by
  rw [parse_render_independent width width' eol eol' heol heol' finalNl finalNl' records hname hseq]

/-! ### 7. Compression guess -/

/-- Compression is recognised from the content: gzip iff the first two bytes are `1f 8b`. -/
theorem guess_iff (content : List UInt8) :
    guessGzip content = true ↔ ∃ rest, content = 0x1f :: 0x8b :: rest := by
  unfold guessGzip
  split
  · rename_i a b rest
    simp only [Bool.and_eq_true, beq_iff_eq, List.cons.injEq]
    constructor
    · rintro ⟨rfl, rfl⟩; exact ⟨rest, rfl, rfl, rfl⟩
    · rintro ⟨_, rfl, rfl, _⟩; exact ⟨rfl, rfl⟩
  · rename_i hno
    constructor
    · intro h; cases h
    · rintro ⟨rest, rfl⟩; exact absurd rfl (hno _ _ _)

/-! ### 8. Non-vacuity -/

-- ">a\r\nACG\r\nT\r\n>b\r\nGG" : 2 contigs, width 3, CRLF, no final newline
example : renderFasta 3 [13, 10] false [([97], [65, 67, 71, 84]), ([98], [71, 71])] =
    [62, 97, 13, 10, 65, 67, 71, 13, 10, 84, 13, 10, 62, 98, 13, 10, 71, 71] := by decide

example : parseFasta (renderFasta 3 [13, 10] false [([97], [65, 67, 71, 84]), ([98], [71, 71])]) =
    [[65, 67, 71, 84], [71, 71]] := by decide

-- width 1, LF, final newline; no wrapping, CRLF, final newline; an empty sequence last, no final newline
example : parseFasta (renderFasta 1 [10] true [([97], [65, 67, 71, 84]), ([98], [71, 71])]) =
    [[65, 67, 71, 84], [71, 71]] := by decide
example : parseFasta (renderFasta 0 [13, 10] true [([97], [65, 67, 71, 84]), ([98], [71, 71])]) =
    [[65, 67, 71, 84], [71, 71]] := by decide
example : parseFasta (renderFasta 2 [10] false [([97], [65, 67, 71]), ([], [])]) = [[65, 67, 71], []] := by
  decide

-- prefix AT, k = 2.  Contigs "CA" and "TGG": no k-mer, although the concatenation "CATGG" contains
-- AT|GG (→ 10): the k-mer exists only across the contig boundary.
example : signature 2 [65, 84] [[67, 65], [84, 71, 71]] = [] := by decide
example : signature 2 [65, 84] [[67, 65, 84, 71, 71]] = [10] := by decide
example : signature 2 [65, 84] [[67, 65, 84, 71, 71]] ≠ [] := by decide
example : C01.WF 2 [65, 84] := ⟨by decide, by decide, by decide, by decide⟩

-- reverse-complementing one contig, swapping contigs, changing case: same signature
-- contigs ATCCG / CATGG; revcomp CATGG = CCATG
example : signature 2 [65, 84] [[65, 84, 67, 67, 71], [67, 65, 84, 71, 71]] = [5, 10] := by decide
example : signature 2 [65, 84] [[65, 84, 67, 67, 71], [67, 67, 65, 84, 71]] = [5, 10] := by decide
example : signature 2 [65, 84] [[99, 97, 116, 103, 103], [65, 84, 67, 67, 71]] = [5, 10] := by decide
example : revcomp [67, 65, 84, 71, 71] = [67, 67, 65, 84, 71] := by decide

example : guessGzip [0x1f, 0x8b, 8, 0] = true ∧ guessGzip [62, 97, 10] = false ∧ guessGzip [0x1f] = false := by
  decide

end GambitV.C06
