import GambitV.Model.Fasta
namespace GambitV.C06
end GambitV.C06
