import GambitV.Model.Jaccard
namespace GambitV.C02
end GambitV.C02
