import GambitV.Lemmas.Jaccard
import GambitV.Lemmas.F32

/-!
# C02 — `c_jaccarddist` computes the Jaccard distance of the two sorted coordinate arrays

Part A: exact (set-level) statements about the merge count and the shape of the float expression.
-/
namespace GambitV.C02
open GambitV

/-- A1. On strictly increasing arrays the merge loop's `u` is `|A ∪ B|`. -/
theorem unionCount_eq_card {a b : List Nat} (ha : a.Pairwise (· < ·)) (hb : b.Pairwise (· < ·)) :
    unionCount a b = (a.toFinset ∪ b.toFinset).card :=
  unionCount_eq_card' ha hb

/-- A2. The merge count is symmetric (for arbitrary, not necessarily sorted, inputs). -/
theorem unionCount_comm (a b : List Nat) : unionCount a b = unionCount b a :=
  unionCount_comm' a b

/-- A3 (general form, no sortedness needed). -/
theorem unionCount_bounds_general (a b : List Nat) :
    a.length ≤ unionCount a b ∧ b.length ≤ unionCount a b ∧
      unionCount a b ≤ a.length + b.length :=
  ⟨length_le_unionCount_left a b, length_le_unionCount_right a b, unionCount_le_add a b⟩

/-- A3. `max N M ≤ u ≤ N + M`. -/
theorem unionCount_bounds {a b : List Nat} (_ha : a.Pairwise (· < ·)) (_hb : b.Pairwise (· < ·)) :
    a.length ≤ unionCount a b ∧ b.length ≤ unionCount a b ∧
      unionCount a b ≤ a.length + b.length :=
  unionCount_bounds_general a b

/-- A4. The numerator `2u - N - M` is `|A ∆ B|` (the subtraction does not truncate, by A3). -/
theorem symmDiff_card {a b : List Nat} (ha : a.Pairwise (· < ·)) (hb : b.Pairwise (· < ·)) :
    2 * unionCount a b - a.length - b.length = (symmDiff a.toFinset b.toFinset).card := by
  have h := card_symmDiff_add a.toFinset b.toFinset
  rw [unionCount_eq_card ha hb, length_eq_card_of_sorted ha, length_eq_card_of_sorted hb]
  omega

/-- A5. Two empty signatures have distance `+0.0`. -/
theorem jaccard_empty : jaccardBits [] [] = 0 := by
  simp [jaccardBits, unionCount_nil_left, F32.zeroBits]

theorem jaccardBits_of_union_zero {a b : List Nat} (h : unionCount a b = 0) :
    jaccardBits a b = 0 := by
  simp [jaccardBits, h, F32.zeroBits]

theorem unionCount_eq_zero_iff (a b : List Nat) : unionCount a b = 0 ↔ a = [] ∧ b = [] := by
  constructor
  · intro h
    have h1 := length_le_unionCount_left a b
    have h2 := length_le_unionCount_right a b
    exact ⟨List.eq_nil_of_length_eq_zero (by omega), List.eq_nil_of_length_eq_zero (by omega)⟩
  · rintro ⟨rfl, rfl⟩; simp [unionCount_nil_left]

/-- A6. For a non-empty union the result is `(float)(2u-N-M) / (float)u`, both conversions being of
non-negative integers (no sortedness needed: A3 holds for arbitrary inputs). -/
theorem jaccardBits_unfold {a b : List Nat} (h : unionCount a b ≠ 0) :
    jaccardBits a b =
      F32.div (F32.ofNat (2 * unionCount a b - a.length - b.length)) (F32.ofNat (unionCount a b)) := by
  have h1 := length_le_unionCount_left a b
  have h2 := length_le_unionCount_right a b
  have hnn : ¬ ((2 * (unionCount a b : Int)) - a.length - b.length < 0) := by omega
  have hnn' : ¬ ((unionCount a b : Int) < 0) := by omega
  have ht : ((2 * (unionCount a b : Int)) - a.length - b.length).toNat
      = 2 * unionCount a b - a.length - b.length := by omega
  simp only [jaccardBits, if_neg h, F32.ofInt, if_neg hnn, if_neg hnn', ht, Int.toNat_natCast]

/-- A7. Bit-for-bit symmetry. -/
theorem jaccardBits_symm (a b : List Nat) : jaccardBits a b = jaccardBits b a := by
  unfold jaccardBits
  rw [unionCount_comm a b]
  have : (2 * (unionCount b a : Int)) - a.length - b.length
       = (2 * (unionCount b a : Int)) - b.length - a.length := by omega
  simp only [this]

/-- A8. `jaccard = 1 - jaccarddist` in single precision. -/
theorem index_eq_one_sub (a b : List Nat) :
    jaccardIndexBits a b = F32.sub F32.oneBits (jaccardBits a b) := rfl

/-- A9. `_cast_sigs_array` accepts exactly the native-byte-order integer dtypes of 2, 4 or 8 bytes, keeping the width. -/
theorem castDtype_spec (kind : Char) (size w : Nat) (native : Bool) :
    castDtype kind size native = some w ↔
      native = true ∧ (kind = 'u' ∨ kind = 'i') ∧ (size = 2 ∨ size = 4 ∨ size = 8) ∧ w = size := by
  unfold castDtype
  split
  · next h => simp only [Option.some.injEq]; constructor
              · intro e; exact ⟨h.1, h.2.1, h.2.2, e.symm⟩
              · intro e; exact e.2.2.2.symm
  · next h => simp only [reduceCtorEq, false_iff]; intro e; exact h ⟨e.1, e.2.1, e.2.2.1⟩

/-! ### Part B: the binary32 layer -/

/-- F1. `ratExp` is the floor of the binary logarithm of the ratio. -/
theorem ratExp_spec {num den : ℕ} (hn : 0 < num) (hd : 0 < den) :
    (den : ℚ) * 2 ^ (F32.ratExp num den) ≤ num ∧ (num : ℚ) < den * 2 ^ (F32.ratExp num den + 1) :=
  F32.ratExp_spec hn hd

theorem ratExp_unique {num den : ℕ} (hn : 0 < num) (hd : 0 < den) (e : ℤ)
    (h1 : (den : ℚ) * 2 ^ e ≤ num) (h2 : (num : ℚ) < den * 2 ^ (e + 1)) :
    F32.ratExp num den = e :=
  F32.ratExp_unique hn hd e h1 h2

/-- F2. The rounding function depends only on the ratio. -/
theorem roundRat_scale {c : ℕ} (hc : 0 < c) (num den : ℕ) :
    F32.roundRat (c * num) (c * den) = F32.roundRat num den :=
  F32.roundRat_scale hc num den

/-- F3. Integer-to-float conversion is exact below `2^24`. -/
theorem ofNat_exact {n : ℕ} (h0 : 0 < n) (h : n < 2 ^ 24) :
    ∃ m s : ℕ, F32.decode (F32.ofNat n) = some (m, -(s : ℤ)) ∧ m = n * 2 ^ s :=
  F32.ofNat_exact h0 h

/-- F4. Dividing two exactly converted integers rounds the exact quotient once. -/
theorem div_ofNat {n u : ℕ} (h0 : 0 < n) (hu : 0 < u) (hn : n < 2 ^ 24) (hu' : u < 2 ^ 24) :
    F32.div (F32.ofNat n) (F32.ofNat u) = F32.roundRat n u :=
  F32.div_ofNat h0 hu hn hu'

theorem div_ofNat_zero {u : ℕ} (hu : 0 < u) (hu' : u < 2 ^ 24) :
    F32.div (F32.ofNat 0) (F32.ofNat u) = 0 :=
  F32.div_ofNat_zero hu hu'

/-- F5. For sorted inputs whose union has fewer than `2^24` elements, the value returned by
`c_jaccarddist` is the correctly rounded (nearest, ties-to-even) binary32 value of the exact
Jaccard distance `|A ∆ B| / |A ∪ B|`. -/
theorem jaccard_correctly_rounded {a b : List Nat}
    (ha : a.Pairwise (· < ·)) (hb : b.Pairwise (· < ·)) (hu : unionCount a b < 2 ^ 24) :
    jaccardBits a b =
      jaccardSpecBits (symmDiff a.toFinset b.toFinset).card (a.toFinset ∪ b.toFinset).card := by
  rw [← symmDiff_card ha hb, ← unionCount_eq_card ha hb]
  unfold jaccardSpecBits
  by_cases h : unionCount a b = 0
  · rw [if_pos h, jaccardBits_of_union_zero h]; rfl
  · rw [if_neg h, jaccardBits_unfold h]
    have hupos : 0 < unionCount a b := Nat.pos_of_ne_zero h
    by_cases hn : 2 * unionCount a b - a.length - b.length = 0
    · rw [hn, F32.div_ofNat_zero hupos hu, F32.roundRat_zero_left]
    · have h1 := length_le_unionCount_left a b
      have h2 := length_le_unionCount_right a b
      have h3 := unionCount_le_add a b
      exact F32.div_ofNat (Nat.pos_of_ne_zero hn) hupos (by omega) hu

/-! ### Value-level facts (F6–F8), `F32.val b` = the exact rational value of a bit pattern -/

/-- F6. For `0 < n ≤ u < 2^24` the rounded ratio lies in `(0, 1]`. -/
theorem roundRat_val_mem_unit {n u : ℕ} (hn : 0 < n) (hle : n ≤ u) (hu : u < 2 ^ 24) :
    0 < F32.val (F32.roundRat n u) ∧ F32.val (F32.roundRat n u) ≤ 1 :=
  ⟨F32.val_roundRat_pos hn (by omega) (by omega) hu, F32.val_roundRat_le_one hn hle hu⟩

/-- F6. -/
theorem roundRat_eq_one_iff {n u : ℕ} (hn : 0 < n) (hle : n ≤ u) (hu : u < 2 ^ 24) :
    F32.roundRat n u = F32.oneBits ↔ n = u :=
  F32.roundRat_eq_one_iff hn hle hu

/-- F6. -/
theorem roundRat_eq_zero_iff {n u : ℕ} (hu : 0 < u) (hn' : n < 2 ^ 24) (hu' : u < 2 ^ 24) :
    F32.roundRat n u = 0 ↔ n = 0 :=
  F32.roundRat_eq_zero_iff hu hn' hu'

/-- F7. The rounded ratio is within `2^-25` of the exact one. -/
theorem roundRat_err_unit {n u : ℕ} (hn : 0 < n) (hle : n ≤ u) (hu : u < 2 ^ 24) :
    |F32.val (F32.roundRat n u) - (n : ℚ) / u| ≤ 1 / 2 ^ 25 :=
  F32.roundRat_err_unit hn hle hu

/-- F7 (general form): half an ulp of the binade of the exact ratio. -/
theorem roundRat_err {num den : ℕ} (hn : 0 < num) (hd : 0 < den)
    (he1 : -126 ≤ F32.ratExp num den) (he2 : F32.ratExp num den ≤ 126) :
    |F32.val (F32.roundRat num den) - (num : ℚ) / den| ≤ 2 ^ (F32.ratExp num den - 24) :=
  F32.roundRat_err hn hd he1 he2

/-- F8. Rounding is monotone (for the operand range of the distance kernel). -/
theorem roundRat_mono {n u n' u' : ℕ} (hn : 0 < n) (hu : 0 < u) (hn' : 0 < n') (hu' : 0 < u')
    (bn : n < 2 ^ 24) (bu : u < 2 ^ 24) (bn' : n' < 2 ^ 24) (bu' : u' < 2 ^ 24)
    (h : (n : ℚ) / u ≤ (n' : ℚ) / u') :
    F32.val (F32.roundRat n u) ≤ F32.val (F32.roundRat n' u') := by
  obtain ⟨e1, e2⟩ := F32.ratExp_range hn hu bn bu
  obtain ⟨e1', e2'⟩ := F32.ratExp_range hn' hu' bn' bu'
  exact F32.roundRat_mono hn hu hn' hu' (by omega) (by omega) (by omega) (by omega) h

/-- F8 (strict). -/
theorem roundRat_succ_den_lt {n u : ℕ} (hn : 0 < n) (hle : n ≤ u) (hu : u + 1 < 2 ^ 23) :
    F32.val (F32.roundRat n (u + 1)) < F32.val (F32.roundRat n u) :=
  F32.roundRat_succ_den_lt hn hle hu

/-! ### Non-vacuity -/

example : unionCount [1, 2, 3] [2, 3, 4] = 4 := by decide +kernel
example : jaccardBits [1, 2, 3] [2, 3, 4] = 0x3F000000 := by decide +kernel
example : jaccardIndexBits [1, 2, 3] [2, 3, 4] = 0x3F000000 := by decide +kernel
example : jaccardSpecBits 2 4 = 0x3F000000 := by decide +kernel
example : jaccardBits [1, 2] [1, 3, 4] = 0x3F400000 := by decide +kernel
example : jaccardBits [1, 2, 5] [1, 2, 4] = 0x3F000000 := by decide +kernel
-- 1/3 is not representable: the result is the nearest float 0x3EAAAAAB = 11184811 * 2^-25
example : jaccardBits [1, 2] [1, 2, 3] = 0x3EAAAAAB := by decide +kernel
example : jaccardSpecBits (symmDiff ([1, 2] : List Nat).toFinset [1, 2, 3].toFinset).card
    (([1, 2] : List Nat).toFinset ∪ [1, 2, 3].toFinset).card = 0x3EAAAAAB := by decide +kernel
example : castDtype 'u' 8 = some 8 ∧ castDtype 'f' 4 = none ∧ castDtype 'i' 1 = none ∧ castDtype 'i' 4 false = none := by decide

-- the hypotheses of F5 are satisfiable
example : jaccardBits [1, 2] [1, 2, 3] =
    jaccardSpecBits (symmDiff ([1, 2] : List Nat).toFinset [1, 2, 3].toFinset).card
      (([1, 2] : List Nat).toFinset ∪ [1, 2, 3].toFinset).card :=
  jaccard_correctly_rounded (by decide) (by decide) (by decide +kernel)

end GambitV.C02
