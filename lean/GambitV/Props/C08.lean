import GambitV.Model.Pipeline
import GambitV.Props.C05

/-!
# C08 — `gambit query`: one output row per input, in input order, each a function of its own input

The pipeline model (`Model/Pipeline.lean`) composes the stages as the code does: labels and
signatures in file order, the chunked distance matrix with reference selection (`matrixModel`,
`C05.matrix_cells`), classification of row `i`, export of item `i`, `zip` with the labels.  The
theorems say that this is a `map` over the inputs (`pipeline_eq_spec`): independent of the chunk
size, row `i` depends on input `i` and the database only, and the rows of a permuted batch are the
permuted rows.  Everything is parametric in the per-item functions.  Core Lean only.
-/
namespace GambitV.C08
open GambitV

section Pipeline

variable {σ β δ ρ ε : Type} [Inhabited β] (sigOf : List Char → σ) (dist : σ → β → δ)
  (classify : List δ → ρ) (exportRow : List Char → ρ → ε) (refs : List β)
  (refIdx : Option (List Nat))

/-- `zip` of two maps of the same list, mapped: a single map. -/
theorem map_zip_map {α γ₁ γ₂ ζ : Type} (f : α → γ₁) (g : α → γ₂) (h : γ₁ × γ₂ → ζ) (l : List α) :
    ((l.map f).zip (l.map g)).map h = l.map (fun a => h (f a, g a)) := by
  induction l with
  | nil => rfl
  | cons a l ih => simp only [List.map_cons, List.zip_cons_cons, ih]

/-- 2. The chunked, matrix-based pipeline is a `map` over the inputs; in particular it does not depend
on `chunk` (nor on the initial content of the output buffer). -/
theorem pipeline_eq_spec (chunk : Option Nat) (hchunk : ∀ c, chunk = some c → 0 < c)
    (files : List (List Char × List Char)) :
    queryPipeline sigOf dist classify exportRow refs refIdx chunk files =
      queryRowsSpec sigOf dist classify exportRow refs refIdx files := by
  unfold queryPipeline queryRowsSpec fileLabels
  simp only []
  rw [C05.matrix_cells dist _ refs refIdx chunk hchunk _ (by simp)
    (by intro row hrow
        simp only [List.map_map, List.mem_map] at hrow
        obtain ⟨_, _, rfl⟩ := hrow
        simp)]
  rw [List.map_map, map_zip_map]
  rfl

/-- 1. One output row per input file. -/
theorem rows_length (chunk : Option Nat) (hchunk : ∀ c, chunk = some c → 0 < c)
    (files : List (List Char × List Char)) :
    (queryPipeline sigOf dist classify exportRow refs refIdx chunk files).length = files.length := by
  rw [pipeline_eq_spec sigOf dist classify exportRow refs refIdx chunk hchunk]
  simp [queryRowsSpec]

/-- The row computed for one input: a function of that input and the database only. -/
def rowOf (f : List Char × List Char) : ε :=
  exportRow (fileLabel f.1)
    (classify ((refIdx.getD (List.range refs.length)).map (fun j => dist (sigOf f.2) (refs.getD j default))))

/-- 3. The `i`-th output is `exportRow (fileLabel files[i].1) (classify (… dist (sigOf files[i].2) …))`:
a function of input `i` and the database only. -/
theorem row_local (chunk : Option Nat) (hchunk : ∀ c, chunk = some c → 0 < c)
    (files : List (List Char × List Char)) (i : Nat) (hi : i < files.length) :
    (queryPipeline sigOf dist classify exportRow refs refIdx chunk files)[i]'(by
        rw [rows_length sigOf dist classify exportRow refs refIdx chunk hchunk]; exact hi) =
      exportRow (fileLabel files[i].1)
        (classify ((refIdx.getD (List.range refs.length)).map
          (fun j => dist (sigOf files[i].2) (refs.getD j default)))) := by
  simp only [pipeline_eq_spec sigOf dist classify exportRow refs refIdx chunk hchunk, queryRowsSpec,
    List.getElem_map]

/-- 3'. The same in `getElem?` form (no bound proof in the statement). -/
theorem row_local? (chunk : Option Nat) (hchunk : ∀ c, chunk = some c → 0 < c)
    (files : List (List Char × List Char)) (i : Nat) :
    (queryPipeline sigOf dist classify exportRow refs refIdx chunk files)[i]? =
      files[i]?.map (rowOf sigOf dist classify exportRow refs refIdx) := by
  rw [pipeline_eq_spec sigOf dist classify exportRow refs refIdx chunk hchunk]
  simp only [queryRowsSpec, List.getElem?_map]
  rfl

/-- 4. A file gets the same row alone or within any batch, in any position, with any chunking. -/
theorem batch_independent (chunk chunk' : Option Nat) (hchunk : ∀ c, chunk = some c → 0 < c)
    (hchunk' : ∀ c, chunk' = some c → 0 < c)
    (files files' : List (List Char × List Char)) (i j : Nat) (hi : i < files.length)
    (hj : j < files'.length) (h : files[i] = files'[j]) :
    (queryPipeline sigOf dist classify exportRow refs refIdx chunk files)[i]'(by
        rw [rows_length sigOf dist classify exportRow refs refIdx chunk hchunk]; exact hi) =
    (queryPipeline sigOf dist classify exportRow refs refIdx chunk' files')[j]'(by
        rw [rows_length sigOf dist classify exportRow refs refIdx chunk' hchunk']; exact hj) := by
  rw [row_local sigOf dist classify exportRow refs refIdx chunk hchunk files i hi,
    row_local sigOf dist classify exportRow refs refIdx chunk' hchunk' files' j hj, h]

/-- 4'. In particular: row `i` of a batch is the single row of the batch `[files[i]]`. -/
theorem batch_singleton (chunk : Option Nat) (hchunk : ∀ c, chunk = some c → 0 < c)
    (files : List (List Char × List Char)) (i : Nat) (hi : i < files.length) :
    queryPipeline sigOf dist classify exportRow refs refIdx chunk [files[i]] =
      [(queryPipeline sigOf dist classify exportRow refs refIdx chunk files)[i]'(by
        rw [rows_length sigOf dist classify exportRow refs refIdx chunk hchunk]; exact hi)] := by
  rw [row_local sigOf dist classify exportRow refs refIdx chunk hchunk files i hi,
    pipeline_eq_spec sigOf dist classify exportRow refs refIdx chunk hchunk]
  rfl

/-- 5. Permuting the inputs permutes the rows. -/
theorem rows_perm (chunk : Option Nat) (hchunk : ∀ c, chunk = some c → 0 < c)
    (files files' : List (List Char × List Char)) (h : files.Perm files') :
    (queryPipeline sigOf dist classify exportRow refs refIdx chunk files).Perm
      (queryPipeline sigOf dist classify exportRow refs refIdx chunk files') := by
  rw [pipeline_eq_spec sigOf dist classify exportRow refs refIdx chunk hchunk,
    pipeline_eq_spec sigOf dist classify exportRow refs refIdx chunk hchunk]
  exact h.map _

/-- Appending inputs appends rows (rows of the first part are unaffected by what follows). -/
theorem rows_append (chunk : Option Nat) (hchunk : ∀ c, chunk = some c → 0 < c)
    (files files' : List (List Char × List Char)) :
    queryPipeline sigOf dist classify exportRow refs refIdx chunk (files ++ files') =
      queryPipeline sigOf dist classify exportRow refs refIdx chunk files ++
      queryPipeline sigOf dist classify exportRow refs refIdx chunk files' := by
  simp only [pipeline_eq_spec sigOf dist classify exportRow refs refIdx chunk hchunk, queryRowsSpec,
    List.map_append]

end Pipeline

/-! ### 6. Which files are queried, and how they are labelled -/

/-- Positional paths win; each is opened and labelled as given. -/
theorem sequenceFiles_positional (positional : List (List Char)) (lines : Option (List (List Char)))
    (ldir : List Char) (h : positional ≠ []) :
    sequenceFiles positional lines ldir = some (positional.map (fun p => (p, p))) := by
  unfold sequenceFiles
  cases positional with
  | nil => exact absurd rfl h
  | cons p ps => rfl

/-- List file: blank lines skipped, order kept, opened relative to the base directory, labelled from
the line text. -/
theorem sequenceFiles_list (lines : List (List Char)) (ldir : List Char) :
    sequenceFiles [] (some lines) ldir =
      some ((lines.filter (· ≠ [])).map (fun l => (l, ldir ++ ['/'] ++ l))) := by
  unfold sequenceFiles
  have : (fun l : List Char => !l.isEmpty) = (fun l => decide (l ≠ [])) := by
    funext l; cases l <;> simp
  simp [this]

theorem sequenceFiles_none (ldir : List Char) : sequenceFiles [] none ldir = none := rfl

/-- In the list-file case the label of line `l` is `fileLabel l`: the base directory plays no role. -/
theorem fileLabels_list (lines : List (List Char)) (ldir : List Char)
    (files : List (List Char × List Char)) (h : sequenceFiles [] (some lines) ldir = some files) :
    fileLabels files = (lines.filter (· ≠ [])).map fileLabel := by
  rw [sequenceFiles_list] at h
  cases h
  simp [fileLabels, List.map_map, Function.comp_def]

/-- … so two base directories give the same labels. -/
theorem fileLabels_list_ldir (lines : List (List Char)) (ldir ldir' : List Char)
    (files files' : List (List Char × List Char))
    (h : sequenceFiles [] (some lines) ldir = some files)
    (h' : sequenceFiles [] (some lines) ldir' = some files') :
    fileLabels files = fileLabels files' := by
  rw [fileLabels_list lines ldir files h, fileLabels_list lines ldir' files' h']

theorem fileLabels_positional (positional : List (List Char)) (lines : Option (List (List Char)))
    (ldir : List Char) (files : List (List Char × List Char)) (hp : positional ≠ [])
    (h : sequenceFiles positional lines ldir = some files) :
    fileLabels files = positional.map fileLabel := by
  rw [sequenceFiles_positional positional lines ldir hp] at h
  cases h
  simp [fileLabels, List.map_map, Function.comp_def]

/-! ### 7. Non-vacuity -/

section Examples

private def files3 : List (List Char × List Char) :=
  [("d/a.fa".toList, "d/a.fa".toList), ("bb.fasta.gz".toList, "x/bb.fasta.gz".toList),
   ("c".toList, "c".toList)]

-- signature = length of the opened path, `dist a b = a + b`, references `[100, 200, 300]` selected
-- as `[2, 0]`, chunk size 1 (two chunks), `classify = sum`, export = (label length, result).
example :
    queryPipeline (σ := Nat) (β := Nat) List.length (fun a b => a + b) List.sum
      (fun l r => (l.length, r)) [100, 200, 300] (some [2, 0]) (some 1) files3 =
    [(1, 412), (2, 426), (1, 402)] := by decide

example :
    queryRowsSpec (σ := Nat) (β := Nat) List.length (fun a b => a + b) List.sum
      (fun l r => (l.length, r)) [100, 200, 300] (some [2, 0]) files3 =
    [(1, 412), (2, 426), (1, 402)] := by decide

-- the second file alone gives the second row
example :
    queryPipeline (σ := Nat) (β := Nat) List.length (fun a b => a + b) List.sum
      (fun l r => (l.length, r)) [100, 200, 300] (some [2, 0]) none
      [("bb.fasta.gz".toList, "x/bb.fasta.gz".toList)] = [(2, 426)] := by decide

example : sequenceFiles [] (some ["a.fa".toList, [], "b.fa".toList]) "dir".toList =
    some [("a.fa".toList, "dir/a.fa".toList), ("b.fa".toList, "dir/b.fa".toList)] := by decide

example : fileLabels [("a.fa".toList, "dir/a.fa".toList), ("sub/b.fna.gz".toList, "dir/sub/b.fna.gz".toList)] =
    ["a".toList, "b".toList] := by decide

end Examples

end GambitV.C08
