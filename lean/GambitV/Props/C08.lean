import GambitV.Model.Pipeline
namespace GambitV.C08
end GambitV.C08
