import GambitV.Lemmas.Bulk

/-!
# C05 — the bulk distance functions put `dist` of the right pair in every output cell

`jaccarddist_array`, `jaccarddist_matrix` (chunked, with index selection), `jaccarddist_pairwise`
(flat and square), `chunk_slices`, and the `prange` loop of `_jaccarddist_parallel`, all parametric
in the two-signature distance `dist`.  Helper lemmas live in `Lemmas/Bulk.lean`.
-/
namespace GambitV.C05
open GambitV

/-! ### 1. `chunk_slices` -/

/-- 1. The slices of `chunk_slices(n, size)`, clamped to `n` as NumPy slicing does, concatenate to
`0..n-1` in order: nothing skipped, nothing repeated. -/
theorem chunkSlices_partition (n size : Nat) (hs : 0 < size) :
    (chunkSlices n size).flatMap (fun ab => List.range' ab.1 (min ab.2 n - ab.1)) = List.range n := by
  unfold chunkSlices
  rw [chunkSlicesFrom_flatMap n size hs n 0 (by omega), Nat.sub_zero, List.range_eq_range']

/-- 1b. Every slice starts inside the range at a multiple of `size` and is `size` long before
clamping. -/
theorem chunkSlices_shape (n size : Nat) :
    ∀ ab ∈ chunkSlices n size, ab.1 < n ∧ ab.2 = ab.1 + size ∧ size ∣ ab.1 :=
  chunkSlicesFrom_shape n size n 0 (Nat.dvd_zero size)

/-! ### 2. `jaccarddist_array` -/

theorem arrayDists_length {α β γ : Type} (dist : α → β → γ) (q : α) (refs : List β) :
    (arrayDists dist q refs).length = refs.length := by
  simp [arrayDists]

/-- 2. Output `j` of `jaccarddist_array` is the distance from the query to reference `j`. -/
theorem arrayDists_get {α β γ : Type} (dist : α → β → γ) (q : α) (refs : List β) (j : Nat)
    (h : j < refs.length) :
    (arrayDists dist q refs)[j]'(by rw [arrayDists_length]; exact h) = dist q refs[j] := by
  simp [arrayDists]

/-! ### 3. `prange`: every schedule gives the same output -/

/-- 3. Every order of whole iterations (every OpenMP schedule `σ`, a permutation of
`0..|out|-1`) yields the same output, in which cell `i` holds `body i`. -/
theorem prange_schedule_independent {γ : Type} (body : Nat → γ) (out : List γ) (σ : List Nat)
    (hσ : σ.Perm (List.range out.length)) :
    prangeRun body σ out = (List.range out.length).map body := by
  apply List.ext_getElem?
  intro i
  rw [prangeRun_getElem?, List.getElem?_map]
  by_cases hi : i < out.length
  · have hmem : i ∈ σ := hσ.mem_iff.2 (List.mem_range.2 hi)
    rw [if_pos ⟨hmem, hi⟩, List.getElem?_range hi]
    rfl
  · have h1 : ¬ (i ∈ σ ∧ i < out.length) := fun h => hi h.2
    rw [if_neg h1, List.getElem?_eq_none (Nat.le_of_not_lt hi),
      List.getElem?_eq_none (by rw [List.length_range]; exact Nat.le_of_not_lt hi)]
    rfl

/-- 3b. No iteration writes another iteration's cell: after running any set of iterations `σ`
(distinct entries, as in a partially executed schedule), cells outside `σ` are unchanged, cells in
`σ` hold their `body` value, and the length is unchanged.  (`hσ` is not needed by the proof: the
statement also holds when an iteration is repeated.) -/
theorem prange_partial {γ : Type} (body : Nat → γ) (out : List γ) (σ : List Nat) (_hσ : σ.Nodup) :
    (prangeRun body σ out).length = out.length ∧
    (∀ i, i ∉ σ → (prangeRun body σ out)[i]? = out[i]?) ∧
    (∀ i, i ∈ σ → i < out.length → (prangeRun body σ out)[i]? = some (body i)) := by
  refine ⟨prangeRun_length body σ out, ?_, ?_⟩
  · intro i hi
    rw [prangeRun_getElem?, if_neg (fun h => hi h.1)]
  · intro i hi hlt
    rw [prangeRun_getElem?, if_pos ⟨hi, hlt⟩]

/-! ### 4. `jaccarddist_matrix` -/

/-- 4. Cell `(i, j)` of the output of `jaccarddist_matrix` is `dist q_i refs[idx_j]`: for every
chunk size (also larger than the number of references, and `None`), every index selection
(repeats, any order), and whatever the `out` buffer held before. -/
theorem matrix_cells {α β γ : Type} [Inhabited β] (dist : α → β → γ) (queries : List α)
    (refs : List β) (refIdx : Option (List Nat)) (chunk : Option Nat)
    (hchunk : ∀ c, chunk = some c → 0 < c) (out : List (List γ))
    (hlen : out.length = queries.length)
    (hrows : ∀ row ∈ out, row.length = (refIdx.getD (List.range refs.length)).length) :
    matrixModel dist queries refs refIdx chunk out =
      queries.map (fun q => (refIdx.getD (List.range refs.length)).map
        (fun j => dist q (refs.getD j default))) := by
  unfold matrixModel
  simp only []
  generalize refIdx.getD (List.range refs.length) = idxs at hrows ⊢
  rw [foldl_zipWith_rows queries
    (fun (ab : Nat × Nat) q row => writeSlice row ab.1
      (arrayDists dist q ((slc idxs ab.1 ab.2).map (fun j => refs.getD j default))))
    _ (fun o ab ho => matrixChunk_eq_zipWith dist queries _ ab.1 o ho) _ out hlen]
  apply List.ext_getElem?
  intro i
  rw [List.getElem?_zipWith, List.getElem?_map]
  by_cases hi : i < queries.length
  · have hi' : i < out.length := by omega
    rw [List.getElem?_eq_getElem hi, List.getElem?_eq_getElem hi']
    simp only [Option.map_some]
    congr 1
    have hrow : out[i].length = idxs.length := hrows _ (List.getElem_mem hi')
    simp only [arrayDists_slc]
    generalize hv : idxs.map (fun j => dist queries[i] (refs.getD j default)) = vals
    have hvl : vals.length = idxs.length := by rw [← hv, List.length_map]
    rw [← hvl] at hrow ⊢
    cases chunk with
    | none =>
      simp only [List.foldl_cons, List.foldl_nil]
      exact writeSlice_all _ _ hrow
    | some c =>
      exact rowFold_chunks vals c (hchunk c rfl) vals.length 0 _ hrow rfl (by omega)
  · rw [List.getElem?_eq_none (Nat.le_of_not_lt hi)]
    rfl

/-! ### 5. `jaccarddist_pairwise(flat=False)`

`entry m i j = m[i]?.bind (·[j]?)` is entry `(i, j)` of a list-of-rows matrix. -/

/-- 5a. Zero diagonal. -/
theorem pairwiseSquare_diag {α γ : Type} (dist : α → α → γ) (zero : γ) (sigs : List α) (i : Nat)
    (hi : i < sigs.length) : entry (pairwiseSquare dist zero sigs) i i = some zero := by
  rw [pairwiseSquare_entry, if_pos ⟨hi, hi⟩, sqCell_self]

/-- 5b. Symmetric, unconditionally (also outside the matrix, where both sides are `none`). -/
theorem pairwiseSquare_symm {α γ : Type} (dist : α → α → γ) (zero : γ) (sigs : List α) (i j : Nat) :
    entry (pairwiseSquare dist zero sigs) i j = entry (pairwiseSquare dist zero sigs) j i := by
  rw [pairwiseSquare_entry, pairwiseSquare_entry, sqCell_symm]
  by_cases h : i < sigs.length ∧ j < sigs.length
  · rw [if_pos h, if_pos ⟨h.2, h.1⟩]
  · rw [if_neg h, if_neg (fun h' => h ⟨h'.2, h'.1⟩)]

/-- 5c. Off the diagonal, entries `(i, j)` and `(j, i)` are both `dist sigs[i] sigs[j]`, `i < j`. -/
theorem pairwiseSquare_cell {α γ : Type} (dist : α → α → γ) (zero : γ) (sigs : List α) (i j : Nat)
    (hij : i < j) (hj : j < sigs.length) :
    entry (pairwiseSquare dist zero sigs) i j = some (dist (sigs[i]'(Nat.lt_trans hij hj)) sigs[j]) ∧
    entry (pairwiseSquare dist zero sigs) j i = some (dist (sigs[i]'(Nat.lt_trans hij hj)) sigs[j]) := by
  have h : entry (pairwiseSquare dist zero sigs) i j =
      some (dist (sigs[i]'(Nat.lt_trans hij hj)) sigs[j]) := by
    rw [pairwiseSquare_entry, if_pos ⟨Nat.lt_trans hij hj, hj⟩, sqCell_lt dist zero sigs i j hij hj]
  exact ⟨h, by rw [pairwiseSquare_symm]; exact h⟩

/-- 5d. The loop of the code — zero the diagonal, then for each `i` write row `i` right of the
diagonal and mirror it into column `i` — produces the closed form, whatever the `n × n` buffer
held before. -/
theorem pairwiseSquareLoop_eq {α γ : Type} (dist : α → α → γ) (zero : γ) (sigs : List α)
    (out : List (List γ)) (hlen : out.length = sigs.length)
    (hrows : ∀ row ∈ out, row.length = sigs.length) :
    pairwiseSquareLoop dist zero sigs out = pairwiseSquare dist zero sigs :=
  pairwiseSquareLoop_eq' dist zero sigs out hlen hrows

/-! ### 6. `jaccarddist_pairwise(flat=True)` -/

theorem pairwiseFlat_length {α γ : Type} (dist : α → α → γ) (sigs : List α) :
    (pairwiseFlat dist sigs).length = sigs.length * (sigs.length - 1) / 2 := by
  rw [pairwiseFlat_eq]
  have h1 := flatPrefix_length2 dist sigs (sigs.length - 1) (by omega)
  by_cases h0 : sigs.length = 0
  · simp [h0]
  · have e : sigs.length - 1 + 1 = sigs.length := by omega
    rw [e, Nat.mul_comm (sigs.length - 1) sigs.length] at h1
    omega

/-- 6. The distance of the pair `i < j` sits at its SciPy condensed (`squareform`) offset. -/
theorem pairwiseFlat_get {α γ : Type} (dist : α → α → γ) (sigs : List α) (i j : Nat) (hij : i < j)
    (hj : j < sigs.length) :
    (pairwiseFlat dist sigs)[condensedIndex sigs.length i j]? =
      some (dist (sigs[i]'(Nat.lt_trans hij hj)) sigs[j]) := by
  rw [pairwiseFlat_eq, ← flatRow_get dist sigs i j hij hj]
  unfold condensedIndex
  rw [← flatPrefix_length dist sigs i (by omega)]
  exact flatMap_range_get _ _ i _ (by omega) (by rw [flatRow_length]; omega)

/-! ### 7. Non-vacuity -/

section Examples

/-- A distance from which both arguments can be read off. -/
private def d (a b : Nat) : Nat := 10 * a + b

-- 2 queries × 5 references, `ref_indices = [4, 0, 0, 2]` (repeat, out of order), `chunksize = 3`
-- (so chunks `0:3` and `3:6`, the last one clamped), junk in `out`.
example : matrixModel d [1, 2] [0, 1, 2, 3, 4] (some [4, 0, 0, 2]) (some 3)
    [[77, 77, 77, 77], [88, 88, 88, 88]] = [[14, 10, 10, 12], [24, 20, 20, 22]] := by decide

-- the same through `matrix_cells`' right-hand side
example : [1, 2].map (fun q => [4, 0, 0, 2].map (fun j => d q ([0, 1, 2, 3, 4].getD j default))) =
    [[14, 10, 10, 12], [24, 20, 20, 22]] := by decide

-- chunk size larger than the number of references, and no chunking
example : matrixModel d [1, 2] [0, 1, 2] none (some 7) [[9, 9, 9], [9, 9, 9]] =
    [[10, 11, 12], [20, 21, 22]] := by decide
example : matrixModel d [1, 2] [0, 1, 2] none none [[9, 9, 9], [9, 9, 9]] =
    [[10, 11, 12], [20, 21, 22]] := by decide

example : chunkSlices 7 3 = [(0, 3), (3, 6), (6, 9)] := by decide
example : chunkSlices 6 3 = [(0, 3), (3, 6)] := by decide

-- two different schedules, same result
example : prangeRun (fun i => d 7 i) [2, 0, 3, 1] [0, 0, 0, 0] = [70, 71, 72, 73] := by decide
example : prangeRun (fun i => d 7 i) [1, 3, 0, 2] [5, 6, 7, 8] = [70, 71, 72, 73] := by decide
example : [2, 0, 3, 1].Perm (List.range 4) := by decide
-- a partial schedule leaves the other cells alone
example : prangeRun (fun i => d 7 i) [3, 1] [5, 6, 7, 8] = [5, 71, 7, 73] := by decide

-- pairwise, 4 items, junk buffer
example : pairwiseSquareLoop d 0 [1, 2, 3, 4]
    [[9, 9, 9, 9], [9, 9, 9, 9], [9, 9, 9, 9], [9, 9, 9, 9]] =
    [[0, 12, 13, 14], [12, 0, 23, 24], [13, 23, 0, 34], [14, 24, 34, 0]] := by decide
example : pairwiseSquare d 0 [1, 2, 3, 4] =
    [[0, 12, 13, 14], [12, 0, 23, 24], [13, 23, 0, 34], [14, 24, 34, 0]] := by decide

example : pairwiseFlat d [1, 2, 3, 4] = [12, 13, 14, 23, 24, 34] := by decide
example : condensedIndex 4 1 3 = 4 := by decide
example : (pairwiseFlat d [1, 2, 3, 4])[condensedIndex 4 1 3]? = some 24 := by decide

end Examples

end GambitV.C05
