import GambitV.Model.Bulk
namespace GambitV.C05
end GambitV.C05
