import GambitV.Lemmas.Taxonomy

/-!
# C09 — the closest-genomes list is the unique (distance, reference order)-sorted prefix

Statements only (helper lemmas live in `Lemmas/Taxonomy.lean`).  All theorems quantify over
arbitrary distance lists and arbitrary `N`.
-/
namespace GambitV.C09
open GambitV

/-- 1. The stable argsort is a permutation of all reference indices. -/
theorem stableArgsort_perm (ds : List Nat) : (stableArgsort ds).Perm (List.range ds.length) :=
  foldr_insert_perm ds _

/-- 2. It is strictly increasing in (distance, index). -/
theorem stableArgsort_sorted (ds : List Nat) :
    (stableArgsort ds).Pairwise (fun i j => keyLt ds i j = true) :=
  foldr_insert_sorted ds _ List.pairwise_lt_range

/-- 3. The list has `min N n` entries. -/
theorem closestList_length (ds : List Nat) (N : Nat) : (closestList ds N).length = min N ds.length := by
  unfold closestList
  rw [List.length_take, (stableArgsort_perm ds).length_eq, List.length_range]

/-- 4. The list produced meets the specification. -/
theorem closestList_ok (ds : List Nat) (N : Nat) : closestOk ds N (closestList ds N) = true := by
  rw [closestOk_iff]
  have hperm := stableArgsort_perm ds
  have hsort := stableArgsort_sorted ds
  refine ⟨closestList_length ds N, ?_, ?_, ?_⟩
  · intro i hi
    have : i ∈ stableArgsort ds := List.mem_of_mem_take hi
    simpa using hperm.mem_iff.mp this
  · exact List.Pairwise.sublist (List.take_sublist N _) hsort
  · intro j hj
    have hmem : j ∈ stableArgsort ds := hperm.mem_iff.mpr (by simpa using hj)
    rw [← List.take_append_drop N (stableArgsort ds)] at hmem hsort
    rcases List.mem_append.mp hmem with h | h
    · exact Or.inl h
    · right
      intro i hi
      exact (List.pairwise_append.mp hsort).2.2 i hi j h

/-- 5. The specification determines the list: any correct stable sort, on any CPU, with any thread
count or chunk size, yields exactly this list. -/
theorem closestOk_unique (ds : List Nat) (N : Nat) (L : List Nat) (h : closestOk ds N L = true) :
    L = closestList ds N := by
  obtain ⟨h1, h2, h3, h4⟩ := (closestOk_iff ds N L).mp h
  obtain ⟨g1, g2, g3, g4⟩ := (closestOk_iff ds N _).mp (closestList_ok ds N)
  exact sorted_closed_unique ds L (closestList ds N) (fun j => j < ds.length) (h1.trans g1.symm)
    h2 g2 h3 g3 h4 g4

/-- 6. The first entry of the list is the closest genome of `classify` (`np.argmin`). -/
theorem closest_head_eq_argmin (ds : List Nat) (N : Nat) (h : ds ≠ []) (hN : 0 < N) :
    (closestList ds N).head? = some (argminFirst ds) := by
  obtain ⟨hc, hmin, hfirst⟩ := argminFirst_getD_spec ds h
  have hperm := stableArgsort_perm ds
  have hsort := stableArgsort_sorted ds
  have hcmem : argminFirst ds ∈ stableArgsort ds := hperm.mem_iff.mpr (by simpa using hc)
  unfold closestList
  cases hS : stableArgsort ds with
  | nil => simp [hS] at hcmem
  | cons a rest =>
    cases N with
    | zero => omega
    | succ N =>
      simp only [List.take_succ_cons, List.head?_cons, Option.some.injEq]
      rw [hS] at hcmem hsort hperm
      have ha : a < ds.length := by simpa using hperm.mem_iff.mp List.mem_cons_self
      apply Classical.byContradiction
      intro hne
      rcases List.mem_cons.mp hcmem with heq | hrest
      · exact hne heq.symm
      · have hk1 : keyLt ds a (argminFirst ds) = true := (List.pairwise_cons.mp hsort).1 _ hrest
        have hge : ds.getD (argminFirst ds) 0 ≤ ds.getD a 0 := by
          have : ds.getD a 0 ∈ ds := by
            simp [List.getD_eq_getElem?_getD, ha]
          exact hmin _ this
        have hk2 : keyLt ds (argminFirst ds) a = true := by
          rcases Nat.lt_or_ge a (argminFirst ds) with hlt | hge'
          · exact keyLt_of_lt (hfirst a hlt)
          · exact keyLt_of_le_of_lt hge (by omega)
        have := keyLt_asymm hk1
        simp [hk2] at this

/-! ### 7. Non-vacuity -/

example : closestList [2, 1, 0, 0, 4] 3 = [2, 3, 1] := by decide
example : closestOk [2, 1, 0, 0, 4] 3 (closestList [2, 1, 0, 0, 4] 3) = true := by decide
example : stableArgsort [2, 1, 0, 0, 4] = [2, 3, 1, 0, 4] := by decide
/-- the specification rejects the unstable order of the tie and a wrong selection -/
example : closestOk [2, 1, 0, 0, 4] 3 [3, 2, 1] = false := by decide
example : closestOk [2, 1, 0, 0, 4] 3 [2, 3, 0] = false := by decide
/-- `N` larger than the number of references: the whole sorted list -/
example : closestList [5, 5, 1] 10 = [2, 0, 1] := by decide
example : (closestList [2, 1, 0, 0, 4] 3).head? = some (argminFirst [2, 1, 0, 0, 4]) := by decide

end GambitV.C09
