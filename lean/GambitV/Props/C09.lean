import GambitV.Spec.Taxonomy
namespace GambitV.C09
end GambitV.C09
