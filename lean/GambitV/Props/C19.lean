import GambitV.Lemmas.SigFile
import GambitV.Props.C12

/-!
# C19 — an interrupted write never leaves a loadable signature file

`writerTrace` is the sequence of storage-library calls made by `dump_signatures_hdf5`
(`h5.File(path, 'w')`, the attributes, the datasets, the chunk writes, and the `close` at the end of
the `with` block); `crashImage` is the file found on disk if the process dies after exactly `n` of
those calls, under snapshot semantics (the on-disk image becomes a valid HDF5 file holding its
objects only at `flush`/`close`).  The writer never flushes, so the only point at which the file
becomes loadable is the final `close` — and then it loads as exactly the collection written.

Helper lemmas live in `Lemmas/SigFile.lean`; the round trip is C12's `read_write`.  Core Lean only.
-/
namespace GambitV.C19
open GambitV

/-! ### 1–2. Shape of the writer's trace -/

/-- 1. The writer never calls `flush`. -/
theorem writerTrace_no_flush (fast : Bool) (nsigs : Nat) : WOp.flush ∉ writerTrace fast nsigs := by
  rw [writerTrace_eq, List.mem_append]
  rintro (h | h)
  · exact flush_not_mem_writerBody fast nsigs h
  · simp at h

/-- 2. `close` is the last call, and no earlier call is a `close`: it occurs exactly once. -/
theorem writerTrace_close_last (fast : Bool) (nsigs : Nat) :
    (writerTrace fast nsigs).getLast? = some .close ∧
      (∀ n, n < (writerTrace fast nsigs).length - 1 → (writerTrace fast nsigs)[n]? ≠ some .close) := by
  refine ⟨by rw [writerTrace_eq]; simp, ?_⟩
  intro n hn
  rw [writerTrace_length] at hn
  have hn' : n < (writerBody fast nsigs).length := by omega
  rw [writerTrace_eq, List.getElem?_append_left hn', List.getElem?_eq_getElem hn']
  intro h
  injection h with h
  exact close_not_mem_writerBody fast nsigs (h ▸ List.getElem_mem hn')

/-- 2b. Counted: exactly one `close`. -/
theorem writerTrace_count_close (fast : Bool) (nsigs : Nat) :
    (writerTrace fast nsigs).count .close = 1 := by
  rw [writerTrace_eq, List.count_append, List.count_eq_zero.2 (close_not_mem_writerBody fast nsigs)]
  rfl

/-- 2c. The first call creates (truncates) the file. -/
theorem writerTrace_head (fast : Bool) (nsigs : Nat) :
    (writerTrace fast nsigs).head? = some .createFile := rfl

/-- number of storage-library calls of a write -/
theorem writerTrace_length_eq (fast : Bool) (nsigs : Nat) :
    (writerTrace fast nsigs).length = if fast then 14 else 16 + nsigs := by
  cases fast <;> simp [writerTrace, attrNames] <;> omega

/-! ### 3. A crash before the last call completes -/

/-- What is on disk after a crash before `close` completes: nothing if not even the file was
created, otherwise a file that the library cannot open. -/
theorem crashImage_before_close (fast : Bool) (nsigs : Nat) (full : SigStore) (n : Nat)
    (hn : n < (writerTrace fast nsigs).length) :
    crashImage (writerTrace fast nsigs) full n = if n = 0 then .notHdf5 else .unopenable := by
  have hc : ((writerTrace fast nsigs).take n).contains WOp.close = false := by
    rw [List.contains_eq_mem]
    exact decide_eq_false (close_not_mem_take fast nsigs n hn)
  have hf : ((writerTrace fast nsigs).take n).contains WOp.flush = false := by
    rw [List.contains_eq_mem]
    exact decide_eq_false (flush_not_mem_take fast nsigs n hn)
  unfold crashImage
  simp only [hc, hf, Bool.false_eq_true, if_false]
  cases n with
  | zero => simp
  | succ n =>
    have htr : writerTrace fast nsigs = .createFile :: (writerTrace fast nsigs).tail := rfl
    have : ((writerTrace fast nsigs).take (n + 1)).contains WOp.createFile = true := by
      rw [List.contains_eq_mem, htr, List.take_succ_cons]
      exact decide_eq_true (List.mem_cons_self ..)
    rw [if_pos this, if_neg (Nat.succ_ne_zero n)]

/-- 3. A writer killed before its last call completes never leaves a loadable file. -/
theorem crash_never_loads (fast : Bool) (nsigs : Nat) (full : SigStore) (n : Nat)
    (hn : n < (writerTrace fast nsigs).length) (c : SigCollection) :
    loadFile (crashImage (writerTrace fast nsigs) full n) ≠ .loaded c := by
  rw [crashImage_before_close fast nsigs full n hn]
  by_cases h0 : n = 0
  · rw [if_pos h0]; intro h; cases h
  · rw [if_neg h0]; intro h; cases h

/-- 3b. More precisely: the loader raises — the dedicated error if the file was never created,
another exception (the library cannot open the file) otherwise. -/
theorem crash_outcome (fast : Bool) (nsigs : Nat) (full : SigStore) (n : Nat)
    (hn : n < (writerTrace fast nsigs).length) :
    loadFile (crashImage (writerTrace fast nsigs) full n) =
      if n = 0 then .sigFileError else .otherError := by
  rw [crashImage_before_close fast nsigs full n hn]
  by_cases h0 : n = 0
  · rw [if_pos h0, if_pos h0]; rfl
  · rw [if_neg h0, if_neg h0]; rfl

/-! ### 4–5. A completed write -/

theorem crashImage_complete (fast : Bool) (nsigs : Nat) (full : SigStore) (n : Nat)
    (hn : (writerTrace fast nsigs).length ≤ n) :
    crashImage (writerTrace fast nsigs) full n = .hdf5 full := by
  unfold crashImage
  have : ((writerTrace fast nsigs).take n).contains WOp.close = true := by
    rw [List.take_of_length_le hn, writerTrace_eq]
    simp
  simp only [this, if_true]

/-- 4. Once every call has completed, the file loads as exactly the collection written. -/
theorem complete_loads_exact (fast : Bool) (c : SigCollection) (n : Nat)
    (hn : (writerTrace fast c.sigs.length).length ≤ n) :
    loadFile (crashImage (writerTrace fast c.sigs.length) (writeSigs fast c) n) = .loaded c := by
  rw [crashImage_complete fast c.sigs.length _ n hn]
  exact C12.read_write fast c

/-- 5. If the file loads, the write ran to completion. -/
theorem loads_implies_complete (fast : Bool) (nsigs : Nat) (full : SigStore) (n : Nat)
    (c : SigCollection)
    (h : loadFile (crashImage (writerTrace fast nsigs) full n) = .loaded c) :
    (writerTrace fast nsigs).length ≤ n := by
  apply Nat.le_of_not_lt
  intro hn
  exact crash_never_loads fast nsigs full n hn c h

/-- 4 + 5: a file that loads after a write of `c` holds `c` — never something else. -/
theorem loads_only_exact (fast : Bool) (c c' : SigCollection) (n : Nat)
    (h : loadFile (crashImage (writerTrace fast c.sigs.length) (writeSigs fast c) n) = .loaded c') :
    c' = c := by
  have hn := loads_implies_complete fast c.sigs.length _ n c' h
  rw [complete_loads_exact fast c n hn] at h
  injection h with h
  exact h.symm

/-! ### 5b. Death by an exception that unwinds the writer (Ctrl-C, SIGTERM handler, failing source)

The `with` block closes the file on the way out, so — unlike a kill — the calls made so far *are*
finalised.  Since the repair of finding C19-F1 `dump_signatures_hdf5` removes that file before
re-raising (`unwindImage`); the statements are then the same as for a kill. -/

/-- An interrupt before the last call completed leaves nothing that loads. -/
theorem unwind_never_loads (fast : Bool) (nsigs : Nat) (full : SigStore) (n : Nat)
    (hn : n < (writerTrace fast nsigs).length) (c : SigCollection) :
    loadFile (unwindImage (writerTrace fast nsigs) full n) ≠ .loaded c := by
  unfold unwindImage
  rw [if_neg (by omega)]
  simp [loadFile]

/-- … and what it leaves is refused with the dedicated error (there is no file). -/
theorem unwind_outcome (fast : Bool) (nsigs : Nat) (full : SigStore) (n : Nat)
    (hn : n < (writerTrace fast nsigs).length) :
    loadFile (unwindImage (writerTrace fast nsigs) full n) = .sigFileError := by
  unfold unwindImage
  rw [if_neg (by omega)]
  rfl

/-- A file that loads after an interrupted write of `c` holds `c` — never something else. -/
theorem unwind_loads_only_exact (fast : Bool) (c c' : SigCollection) (n : Nat)
    (h : loadFile (unwindImage (writerTrace fast c.sigs.length) (writeSigs fast c) n) = .loaded c') :
    c' = c := by
  unfold unwindImage at h
  split at h
  · have : loadFile (.hdf5 (writeSigs fast c)) = .loaded c := C12.read_write fast c
    rw [this] at h
    injection h with h
    exact h.symm
  · simp [loadFile] at h

/-- Kill and interrupt give the same verdict at every point. -/
theorem unwind_eq_crash_verdict (fast : Bool) (c : SigCollection) (n : Nat) (c' : SigCollection) :
    loadFile (unwindImage (writerTrace fast c.sigs.length) (writeSigs fast c) n) = .loaded c' ↔
    loadFile (crashImage (writerTrace fast c.sigs.length) (writeSigs fast c) n) = .loaded c' := by
  by_cases hn : (writerTrace fast c.sigs.length).length ≤ n
  · rw [crashImage_complete fast _ _ n hn]
    unfold unwindImage
    rw [if_pos hn]
  · have hlt : n < (writerTrace fast c.sigs.length).length := by omega
    constructor
    · intro h; exact absurd h (unwind_never_loads fast _ _ n hlt c')
    · intro h; exact absurd h (crash_never_loads fast _ _ n hlt c')

/-! ### 6. Contrast: a hypothetical writer that flushes early

In this conservative model a trace with an early `flush` still maps to `.unopenable` until `close`:
the model cannot exhibit a "flushed partial file" (a valid HDF5 file holding only some of the
attributes/datasets).  That behaviour is outside what is proved here; it is what the correspondence
run samples (killing a real writer).  `writerTrace_no_flush` is the reason it does not arise for
the writer as written. -/

section Examples

private def flushy : List WOp :=
  [.createFile, .setAttr "x", .flush, .createDataset "ids", .close]

private def c2 : SigCollection :=
  { k := 11, pre := [0, 3, 2], metaAttrs := [some "id", none, none, none, none, none],
    ids := ["a", "b"], sigs := [[3, 9, 20], []], dtypeBytes := 8 }

example : crashImage flushy (writeSigs true c2) 4 = .unopenable := by decide
example : crashImage flushy (writeSigs true c2) 2 = .unopenable := by decide
example : crashImage flushy (writeSigs true c2) 0 = .notHdf5 := by decide
example : crashImage flushy (writeSigs true c2) 5 = .hdf5 (writeSigs true c2) := by decide

/-! ### 7. Non-vacuity -/

example : writerTrace true 2 =
    [.createFile, .setAttr "gambit_signatures_version", .setAttr "kmerspec_k", .setAttr "kmerspec_prefix",
     .setAttr "id", .setAttr "name", .setAttr "id_attr", .setAttr "version", .setAttr "description",
     .setAttr "extra", .createDataset "ids", .createDataset "values", .createDataset "bounds", .close] := by
  decide

example : writerTrace false 2 =
    [.createFile, .setAttr "gambit_signatures_version", .setAttr "kmerspec_k", .setAttr "kmerspec_prefix",
     .setAttr "id", .setAttr "name", .setAttr "id_attr", .setAttr "version", .setAttr "description",
     .setAttr "extra", .createDataset "ids", .createDataset "bounds", .writeChunk 0, .writeChunk 1,
     .createDataset "values", .writeChunk 2, .writeChunk 3, .close] := by
  decide

example : (writerTrace true 2).length = 14 ∧ (writerTrace false 2).length = 18 := by decide

-- crash after 5 calls: not loaded (the library cannot open the file)
example : loadFile (crashImage (writerTrace true 2) (writeSigs true c2) 5) = .otherError := by decide
example : loadFile (crashImage (writerTrace false 2) (writeSigs false c2) 5) = .otherError := by decide
-- crash during the very last call (`close` not completed)
example : loadFile (crashImage (writerTrace true 2) (writeSigs true c2) 13) = .otherError := by decide
example : loadFile (crashImage (writerTrace false 2) (writeSigs false c2) 17) = .otherError := by decide
-- crash before the file is created
example : loadFile (crashImage (writerTrace true 2) (writeSigs true c2) 0) = .sigFileError := by decide
-- completed writes
example : loadFile (crashImage (writerTrace true 2) (writeSigs true c2) 14) = .loaded c2 := by decide
example : loadFile (crashImage (writerTrace false 2) (writeSigs false c2) 18) = .loaded c2 := by decide

-- interrupted (exception) writes, after the repair: nothing loads until the last call is done
example : loadFile (unwindImage (writerTrace false 2) (writeSigs false c2) 16) = .sigFileError := by decide
example : loadFile (unwindImage (writerTrace false 2) (writeSigs false c2) 18) = .loaded c2 := by decide

/-- Finding C19-F1 (pre-repair behaviour, replayed on the real code by the correspondence run before the
repair): the file that `close` finalised when the per-signature writer was interrupted after one of
two signatures loads — as a collection that is not the one being written (zero-filled tail). -/
private def c3 : SigCollection :=
  { k := 11, pre := [0, 3, 2], metaAttrs := [some "id", none, none, none, none, none],
    ids := ["a", "b"], sigs := [[3, 9, 20], [5, 7]], dtypeBytes := 8 }

example : ∃ c', loadFile (.hdf5 (interruptedStoreSlow c3 1)) = .loaded c' ∧ c' ≠ c3 ∧
    c'.sigs = [[3, 9, 20], [0, 0]] := by
  refine ⟨{ c3 with sigs := [[3, 9, 20], [0, 0]] }, ?_, ?_, ?_⟩ <;> decide

end Examples

end GambitV.C19
