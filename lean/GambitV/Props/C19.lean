import GambitV.Model.SigFile
namespace GambitV.C19
end GambitV.C19
