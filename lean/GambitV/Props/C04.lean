import GambitV.Model.RefDb
import GambitV.Props.C05

/-!
# C04 — each reference genome is paired with the signature stored under its own ID

`G` = ID of every genome of the genome set (in genome-set order), `S` = IDs stored in the signature
file (in file order).  `matchIds G S` is what `genomes_by_id_subset` returns: pairs
(genome index, signature position).
-/
namespace GambitV.C04
open GambitV

theorem mem_matchIds {G S : List Nat} {g p : Nat} :
    (g, p) ∈ matchIds G S ↔ p < S.length ∧ ∃ id, S[p]? = some id ∧ G.idxOf? id = some g := by
  unfold matchIds
  simp only [List.mem_filterMap, List.mem_range]
  constructor
  · rintro ⟨q, hq, h⟩
    split at h
    · rename_i id hs
      simp only [Option.map_eq_some_iff, Prod.mk.injEq] at h
      obtain ⟨g', hg', rfl, rfl⟩ := h
      exact ⟨hq, id, hs, hg'⟩
    · cases h
  · rintro ⟨hp, id, hs, hg⟩
    exact ⟨p, hp, by simp [hs, hg]⟩

/-- Pairing: the signature at the recorded position is stored under exactly the genome's ID. -/
theorem pairing {G S : List Nat} {g p : Nat} (h : (g, p) ∈ matchIds G S) :
    ∃ id, S[p]? = some id ∧ G[g]? = some id := by
  obtain ⟨_, id, hs, hg⟩ := mem_matchIds.1 h
  refine ⟨id, hs, ?_⟩
  rw [List.idxOf?_eq_some_iff] at hg
  obtain ⟨hlt, hget, _⟩ := hg
  rw [List.getElem?_eq_getElem hlt, hget]

/-- Signature positions come out strictly increasing (the documented "sorted order"), so in
particular no position is used twice. -/
theorem positions_increasing (G S : List Nat) :
    ((matchIds G S).map (·.2)).Pairwise (· < ·) := by
  unfold matchIds
  have hr : (List.range S.length).Pairwise (· < ·) := List.pairwise_lt_range
  generalize List.range S.length = l at hr
  induction l with
  | nil => simp
  | cons q l ih =>
    rw [List.pairwise_cons] at hr
    simp only [List.filterMap_cons]
    cases hs : S[q]? with
    | none => simpa [hs] using ih hr.2
    | some id =>
      cases hg : G.idxOf? id with
      | none => simpa [hs, hg] using ih hr.2
      | some g =>
        simp only [hs, hg, Option.map_some, List.map_cons, List.pairwise_cons]
        refine ⟨?_, ih hr.2⟩
        intro p' hp'
        simp only [List.mem_map, List.mem_filterMap] at hp'
        obtain ⟨⟨g', p''⟩, ⟨q', hq', hq''⟩, rfl⟩ := hp'
        split at hq''
        · simp only [Option.map_eq_some_iff, Prod.mk.injEq] at hq''
          obtain ⟨_, _, _, rfl⟩ := hq''
          exact hr.1 _ hq'
        · cases hq''

/-- Every ID of the file that belongs to a genome is used: unrelated (padding) signatures are
skipped and nothing else is. -/
theorem uses_exactly_matching (G S : List Nat) (p : Nat) :
    (∃ g, (g, p) ∈ matchIds G S) ↔ ∃ id, S[p]? = some id ∧ id ∈ G := by
  constructor
  · rintro ⟨g, h⟩
    obtain ⟨_, id, hs, hg⟩ := mem_matchIds.1 h
    refine ⟨id, hs, ?_⟩
    rw [List.idxOf?_eq_some_iff] at hg
    obtain ⟨hlt, hget, _⟩ := hg
    exact hget ▸ List.getElem_mem hlt
  · rintro ⟨id, hs, hmem⟩
    have hp : p < S.length := by
      rcases Nat.lt_or_ge p S.length with h | h
      · exact h
      · simp [List.getElem?_eq_none h] at hs
    obtain ⟨g, hg⟩ : ∃ g, G.idxOf? id = some g := by
      cases h : G.idxOf? id with
      | some g => exact ⟨g, rfl⟩
      | none => rw [List.idxOf?_eq_none_iff] at h; exact absurd hmem h
    exact ⟨g, mem_matchIds.2 ⟨hp, id, hs, hg⟩⟩

/-- With unique IDs on both sides: a genome is matched iff its ID occurs in the file, and then to
the unique position holding that ID — whatever the order of the file and however much padding. -/
theorem genome_matched_iff {G S : List Nat} (hG : G.Nodup) (g : Nat) (hg : g < G.length) :
    (∃ p, (g, p) ∈ matchIds G S) ↔ G[g] ∈ S := by
  constructor
  · rintro ⟨p, h⟩
    obtain ⟨id, hs, hgid⟩ := pairing h
    have : G[g] = id := by simpa [List.getElem?_eq_getElem hg] using hgid
    rw [this]
    exact List.mem_of_getElem? hs
  · intro hmem
    obtain ⟨p, hp, hpe⟩ := List.getElem_of_mem hmem
    refine ⟨p, mem_matchIds.2 ⟨hp, G[g], by simp [hp, hpe], ?_⟩⟩
    rw [List.idxOf?_eq_some_iff]
    refine ⟨hg, rfl, ?_⟩
    intro j hj heq
    have := (List.pairwise_iff_getElem.1 hG) j g (by omega) hg hj
    exact this (by simpa using heq)

/-- Order / padding irrelevance: in two files that both contain the genome's ID, the genome is
paired with signatures stored under the same ID (its own). -/
theorem order_padding_irrelevant {G S S' : List Nat} {g p p' : Nat}
    (h : (g, p) ∈ matchIds G S) (h' : (g, p') ∈ matchIds G S') :
    ∃ id, S[p]? = some id ∧ S'[p']? = some id ∧ G[g]? = some id := by
  obtain ⟨id, hs, hg⟩ := pairing h
  obtain ⟨id', hs', hg'⟩ := pairing h'
  have : id = id' := by rw [hg] at hg'; exact Option.some.inj hg'
  subst this
  exact ⟨id, hs, hs', hg⟩

/-! ### Loading succeeds only when complete -/

theorem load_no_attr (G : List (Option Nat)) (S : List Nat) : loadDb none G S = .error .typeError := rfl

theorem load_bad_attr (G : List (Option Nat)) (S : List Nat) : loadDb (some false) G S = .error .valueError := rfl

theorem load_missing_id (G : List (Option Nat)) (S : List Nat) (h : none ∈ G) :
    loadDb (some true) G S = .error .runtimeError := by
  unfold loadDb
  have : G.any (·.isNone) = true := by
    rw [List.any_eq_true]; exact ⟨none, h, rfl⟩
  simp [this]

/-- A database object is produced only if every genome has been matched (count check), and then
the pairs are exactly `matchIds`. -/
theorem load_ok_iff (G : List (Option Nat)) (S : List Nat) (m : List (Nat × Nat)) :
    loadDb (some true) G S = .ok m ↔
      (∀ x ∈ G, x ≠ none) ∧ m = matchIds (G.filterMap id) S ∧ m.length = G.length := by
  unfold loadDb
  by_cases hany : G.any (·.isNone) = true
  · simp only [hany, if_true]
    constructor
    · intro h; cases h
    · rintro ⟨hne, _, _⟩
      rw [List.any_eq_true] at hany
      obtain ⟨x, hx, hxn⟩ := hany
      cases x with
      | none => exact absurd rfl (hne none hx)
      | some _ => simp at hxn
  · simp only [hany]
    have hne : ∀ x ∈ G, x ≠ none := by
      intro x hx hxn
      apply hany
      rw [List.any_eq_true]; exact ⟨x, hx, by simp [hxn]⟩
    by_cases hlen : (matchIds (G.filterMap id) S).length ≠ G.length
    · rw [if_pos hlen]
      constructor
      · intro h; cases h
      · rintro ⟨_, rfl, h⟩; exact absurd h hlen
    · rw [if_neg hlen]
      constructor
      · intro h; cases h; exact ⟨hne, rfl, by omega⟩
      · rintro ⟨_, rfl, _⟩; rfl

/-! ### Directory contents -/

theorem locate_ok_iff (names : List (List Char)) (g s : List Char) :
    locateFiles names = some (g, s) ↔
      names.filter isGenomesFile = [g] ∧ names.filter isSignaturesFile = [s] := by
  unfold locateFiles
  constructor
  · intro h
    split at h
    · rename_i hg hs
      simp only [Option.some.injEq, Prod.mk.injEq] at h
      obtain ⟨rfl, rfl⟩ := h
      exact ⟨hg, hs⟩
    · cases h
  · rintro ⟨hg, hs⟩
    simp [hg, hs]

/-! ### Every reported distance is computed from the genome's own signature -/

/-- `query()` computes `jaccarddist_matrix(queries, signatures, ref_indices = sig_indices, chunksize)`.  With the pairing returned
by `loadDb`, column `j` of every row is the distance to the signature stored under genome `m[j].1`'s ID — for every chunk size and
whatever the output buffer held. (`sigs[p]` = signature at file position `p`, `S[p]` = its stored ID, `G[g]` = ID of genome `g`.) -/
theorem distances_use_paired {α β γ : Type} [Inhabited β] (dist : α → β → γ) (queries : List α) (sigs : List β)
    (G S : List Nat) (chunk : Option Nat) (hchunk : ∀ c, chunk = some c → 0 < c)
    (out : List (List γ)) (hlen : out.length = queries.length)
    (hrows : ∀ row ∈ out, row.length = (matchIds G S).length) :
    matrixModel dist queries sigs (some ((matchIds G S).map (·.2))) chunk out =
      queries.map (fun q => (matchIds G S).map (fun gp => dist q (sigs.getD gp.2 default))) ∧
    ∀ gp ∈ matchIds G S, ∃ id, S[gp.2]? = some id ∧ G[gp.1]? = some id := by
  constructor
  · have h := C05.matrix_cells dist queries sigs (some ((matchIds G S).map (·.2))) chunk hchunk out hlen
      (by intro row hr; simpa using hrows row hr)
    rw [h]
    simp [List.map_map, Function.comp_def]
  · intro gp hgp
    exact pairing (g := gp.1) (p := gp.2) hgp

/-! ### Non-vacuity -/

-- file order [c, x, a, b] with padding `x`; genome IDs [a, b, c] = [10, 20, 30]
example : matchIds [10, 20, 30] [30, 99, 10, 20] = [(2, 0), (0, 2), (1, 3)] := by decide
example : loadDb (some true) [some 10, some 20, some 30] [30, 99, 10, 20] = .ok [(2, 0), (0, 2), (1, 3)] := by rfl
example : loadDb (some true) [some 10, some 20, some 30] [30, 99, 10] = .error .valueError := by rfl
example : locateFiles ["a.gdb".toList, "b.gs".toList, "readme.txt".toList] = some ("a.gdb".toList, "b.gs".toList) := by decide
example : locateFiles ["a.gdb".toList, "c.db".toList, "b.gs".toList] = none := by decide
example : locateFiles [".gdb".toList, "b.gs".toList] = none := by decide

end GambitV.C04
