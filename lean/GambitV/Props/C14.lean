import GambitV.Model.Params

/-!
# C14 — signatures built with different k-mer parameters are never compared silently

Decision logic stated outright: whenever a command proceeds (`.run u`), every pre-computed source and
the explicit options carry exactly the parameters `u` that are used for everything that is computed;
any disagreement is `.error` (non-zero exit status, nothing written).
-/
namespace GambitV.C14
open GambitV

/-- If `gambit dist` proceeds with parameters `u`, then the query signatures, the reference
signatures (file or database) and the explicit `-k`/`-p` options — whichever are present — all
carry `u`. -/
theorem run_implies_same_params (explicit qsig rsig : Option KSpec) (dflt u : KSpec)
    (h : distDecision explicit qsig rsig dflt = .run u) :
    (∀ q, qsig = some q → q = u) ∧ (∀ r, rsig = some r → r = u) ∧ (∀ e, explicit = some e → e = u) := by
  unfold distDecision at h
  cases explicit with
  | none =>
    cases qsig with
    | none =>
      cases rsig with
      | none => simp at h; subst h; simp
      | some r => simp at h; subst h; simp
    | some q =>
      cases rsig with
      | none => simp at h; subst h; simp
      | some r =>
        simp only at h
        split at h
        · rename_i hqr; cases h; subst hqr; simp
        · cases h
  | some e =>
    cases qsig with
    | none =>
      cases rsig with
      | none => simp at h; subst h; simp
      | some r =>
        by_cases hr : r = e
        · subst hr; simp at h; subst h; simp
        · simp [hr] at h
    | some q =>
      by_cases hq : q = e
      · subst hq
        cases rsig with
        | none => simp at h; subst h; simp
        | some r =>
          by_cases hr : r = q
          · subst hr; simp at h; subst h; simp
          · simp [hr] at h
      · simp [hq] at h

/-- Two pre-computed sides with different parameters: error, whatever else is given. -/
theorem mismatch_is_error (explicit : Option KSpec) (q r dflt : KSpec) (h : q ≠ r) :
    distDecision explicit (some q) (some r) dflt = .error := by
  unfold distDecision
  cases explicit with
  | none => simp [h]
  | some e =>
    by_cases hq : q = e
    · subst hq
      have : r ≠ q := fun h' => h h'.symm
      simp [this]
    · simp [hq]

/-- Explicit options that disagree with pre-computed query signatures: error. -/
theorem explicit_vs_query_is_error (e q : KSpec) (rsig : Option KSpec) (dflt : KSpec) (h : q ≠ e) :
    distDecision (some e) (some q) rsig dflt = .error := by
  unfold distDecision; simp [h]

/-- Explicit options that disagree with pre-computed reference signatures: error. -/
theorem explicit_vs_ref_is_error (e r : KSpec) (qsig : Option KSpec) (dflt : KSpec) (h : r ≠ e) :
    distDecision (some e) qsig (some r) dflt = .error := by
  unfold distDecision
  cases qsig with
  | none => simp [h]
  | some q => by_cases hq : q = e <;> simp [hq, h]

/-- When the parameters are not given explicitly they are taken from the pre-computed signatures
(query side first), else the default. -/
theorem defaults_source (qsig rsig : Option KSpec) (dflt u : KSpec)
    (h : distDecision none qsig rsig dflt = .run u) :
    u = (qsig.orElse (fun _ => rsig)).getD dflt := by
  unfold distDecision at h
  cases qsig with
  | none =>
    cases rsig with
    | none => simp at h; simp [h]
    | some r => simp at h; simp [h]
  | some q =>
    cases rsig with
    | none => simp at h; simp [h]
    | some r =>
      by_cases hqr : q = r
      · subst hqr; simp at h; simp [h]
      · simp [hqr] at h

/-- The decision is an error only for a genuine disagreement: consistent inputs always run. -/
theorem consistent_runs (u dflt : KSpec) (explicit qsig rsig : Option KSpec)
    (he : ∀ e, explicit = some e → e = u) (hq : ∀ q, qsig = some q → q = u) (hr : ∀ r, rsig = some r → r = u)
    (hsome : explicit.isSome ∨ qsig.isSome ∨ rsig.isSome) :
    distDecision explicit qsig rsig dflt = .run u := by
  unfold distDecision
  cases explicit with
  | some e =>
    have := he e rfl; subst this
    cases qsig with
    | none => cases rsig with
      | none => simp
      | some r => have := hr r rfl; subst this; simp
    | some q =>
      have := hq q rfl; subst this
      cases rsig with
      | none => simp
      | some r => have := hr r rfl; subst this; simp
  | none =>
    cases qsig with
    | some q =>
      have := hq q rfl; subst this
      cases rsig with
      | none => simp
      | some r => have := hr r rfl; subst this; simp
    | none =>
      cases rsig with
      | some r => have := hr r rfl; subst this; simp
      | none => simp at hsome

/-- `gambit query -s SIGFILE`: runs iff the file's parameters are the database's. -/
theorem querySig_run_iff (sig db u : KSpec) : querySigDecision sig db = .run u ↔ sig = db ∧ u = db := by
  unfold querySigDecision
  by_cases h : sig = db
  · simp [h]; exact eq_comm
  · simp [h]

theorem querySig_mismatch_is_error (sig db : KSpec) (h : sig ≠ db) : querySigDecision sig db = .error := by
  unfold querySigDecision; simp [h]

/-- `gambit signatures create`: `--db-params` together with explicit options is an error; otherwise the
parameters come from the database, the options, or the default — never a mixture. -/
theorem create_exclusive (e : KSpec) (db : Option KSpec) (dflt : KSpec) :
    createDecision (some e) true db dflt = .error := by
  unfold createDecision; simp

theorem create_sources (explicit : Option KSpec) (dbParams : Bool) (db : Option KSpec) (dflt u : KSpec)
    (h : createDecision explicit dbParams db dflt = .run u) :
    (dbParams = true → explicit = none ∧ db = some u) ∧
    (dbParams = false → u = explicit.getD dflt) := by
  unfold createDecision at h
  cases dbParams with
  | true =>
    cases explicit <;> cases db <;> simp at h
    · subst h; simp
  | false =>
    cases explicit <;> simp at h <;> subst h <;> simp

/-- option validation: both or neither; k ≥ 5; |prefix| ≥ 2; prefix over ACGT, upper-cased -/
theorem explicit_both_or_neither (k : Option Nat) (p : Option (List UInt8)) (s : KSpec)
    (h : explicitSpec k p = some (some s)) : k = some s.k ∧ 5 ≤ s.k ∧ 2 ≤ s.pre.length ∧
      ∀ b ∈ s.pre, b ∈ [65, 67, 71, 84] := by
  unfold explicitSpec at h
  cases k <;> cases p <;> simp at h
  rename_i kk pp
  obtain ⟨h1, h2, h3, h4⟩ := h
  subst h4
  refine ⟨rfl, by omega, by simpa using (by omega : 2 ≤ pp.length), ?_⟩
  intro b hb
  simp only [List.mem_map] at hb
  obtain ⟨b0, hb0, rfl⟩ := hb
  have := h3 b0 hb0
  simp only [List.mem_cons, List.mem_nil_iff, or_false]
  simpa [Bool.or_eq_true, beq_iff_eq, or_assoc] using this

/-! ### Non-vacuity -/

def s6AT : KSpec := { k := 6, pre := [65, 84] }
def s7AT : KSpec := { k := 7, pre := [65, 84] }
def dflt : KSpec := { k := 11, pre := [65, 84, 71, 65, 67] }

example : distDecision none (some s6AT) (some s7AT) dflt = .error := by decide
example : distDecision none (some s6AT) (some s6AT) dflt = .run s6AT := by decide
example : distDecision (some s7AT) (some s6AT) none dflt = .error := by decide
example : distDecision (some s7AT) none none dflt = .run s7AT := by decide
example : distDecision none none none dflt = .run dflt := by decide
example : querySigDecision s6AT s7AT = .error := by decide
example : createDecision (some s6AT) true (some s7AT) dflt = .error := by decide
example : explicitSpec (some 6) (some [97, 116]) = some (some s6AT) := by decide
example : explicitSpec (some 4) (some [65, 84]) = none ∧ explicitSpec (some 6) none = none := by decide

end GambitV.C14
