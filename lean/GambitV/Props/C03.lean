import GambitV.Spec.Taxonomy
namespace GambitV.C03
end GambitV.C03
