import GambitV.Lemmas.Taxonomy

/-!
# C03 — default-mode classification: prediction, next taxon, monotonicity in the distance

Statements only (helper lemmas live in `Lemmas/Taxonomy.lean`).  All theorems quantify over
arbitrary forests (parent pointers need not even be acyclic), taxa, distances and distance lists.
-/
namespace GambitV.C03
open GambitV

/-- 1. `matching_taxon` returns the most specific threshold-bearing taxon of the lineage whose
threshold is not smaller than the distance. -/
theorem matchingTaxon_eq_spec (F : Forest) (t d : Nat) : matchingTaxon F t d = predictedSpec F t d := by
  unfold matchingTaxon predictedSpec thrLineage
  exact (find?_filter_of_imp _ _ (fun a h => covers_thr_isSome h) _).symm

/-- 2. `np.argmin`: a genome at the minimum distance, and the first such. -/
theorem argminFirst_spec (ds : List Nat) (h : ds ≠ []) :
    argminFirst ds < ds.length ∧ (∀ x ∈ ds, ds.getD (argminFirst ds) 0 ≤ x) ∧
      (∀ j, j < argminFirst ds → ds.getD (argminFirst ds) 0 < ds.getD j 0) :=
  argminFirst_getD_spec ds h

/-- 3. `GenomeMatch.next_taxon` (the loop) computes the stated next taxon. -/
theorem next_eq_spec (F : Forest) (t d : Nat) : nextTaxon F t d = nextSpec F t d := by
  unfold nextTaxon nextSpec
  rw [nextWalk_eq]
  simp only [thrLineage, Option.or_none]
  generalize List.findIdx? _ _ = o
  rcases o with _ | _ | k <;> rfl

/-- 4a. No next taxon when the prediction is the genome's own (first threshold-bearing) taxon. -/
theorem next_none_of_own (F : Forest) (t d p : Nat) (hh : (thrLineage F t).head? = some p)
    (hp : predictedSpec F t d = some p) : nextSpec F t d = none := by
  unfold predictedSpec at hp
  unfold nextSpec
  have hc := List.find?_some hp
  cases hT : thrLineage F t with
  | nil => simp [hT] at hh
  | cons a rest =>
    simp only [hT, List.head?_cons, Option.some.injEq] at hh
    subst hh
    simp [List.findIdx?_cons, hc]

/-- 4b. With no prediction, the next taxon is the topmost threshold-bearing one. -/
theorem next_top_of_none (F : Forest) (t d : Nat) (hp : predictedSpec F t d = none) :
    nextSpec F t d = (thrLineage F t).getLast? := by
  unfold predictedSpec at hp
  unfold nextSpec
  have : (thrLineage F t).findIdx? (fun a => F.covers a d) = none := by
    rw [List.findIdx?_eq_none_iff]
    intro x hx
    have := (List.find?_eq_none.mp hp) x hx
    simpa using this
  simp only [this]

/-- 4c. The next taxon is threshold-bearing, in the lineage, does not cover the distance, and sits
immediately below the prediction among the threshold-bearing taxa of the lineage. -/
theorem next_props (F : Forest) (t d x : Nat) (hx : nextSpec F t d = some x) :
    x ∈ thrLineage F t ∧ F.covers x d = false ∧
      (∀ p, predictedSpec F t d = some p →
        ∃ i, (thrLineage F t)[i]? = some x ∧ (thrLineage F t)[i + 1]? = some p) := by
  unfold nextSpec at hx
  unfold predictedSpec
  generalize thrLineage F t = T at hx ⊢
  cases hf : T.findIdx? (fun a => F.covers a d) with
  | none =>
    simp only [hf] at hx
    have hall := List.findIdx?_eq_none_iff.mp hf
    have hmem := List.mem_of_getLast? hx
    refine ⟨hmem, hall x hmem, ?_⟩
    intro p hp
    have := hall p (List.mem_of_find?_eq_some hp)
    simp [List.find?_some hp] at this
  | some k =>
    obtain ⟨hk, hck, hlt⟩ := List.findIdx?_eq_some_iff_getElem.mp hf
    cases k with
    | zero => simp [hf] at hx
    | succ i =>
      simp only [hf] at hx
      obtain ⟨hi, hxi⟩ := List.getElem?_eq_some_iff.mp hx
      refine ⟨List.mem_of_getElem? hx, ?_, ?_⟩
      · have := hlt i (by omega)
        rw [hxi] at this
        simpa using this
      · intro p hp
        refine ⟨i, hx, ?_⟩
        obtain ⟨_, j, hj, hjp, hjlt⟩ := List.find?_eq_some_iff_getElem.mp hp
        have hji : j = i + 1 := by
          rcases Nat.lt_trichotomy j (i + 1) with h | h | h
          · have := hlt j h
            rw [hjp] at this
            exact absurd (List.find?_some hp) this
          · exact h
          · have := hjlt (i + 1) h
            simp [hck] at this
        subst hji
        rw [List.getElem?_eq_getElem hj, hjp]

/-- 5. A distance exactly equal to the threshold matches. -/
theorem threshold_equality_matches (F : Forest) (a th : Nat) (h : F.thrOf a = some th) :
    F.covers a th = true := by
  simp [Forest.covers, h]

/-- 6. Increasing the distance can only keep or coarsen a prediction, never make it more specific;
in particular a prediction at `d'` implies one at every `d ≤ d'`. -/
theorem coarsen_mono (F : Forest) (t : Nat) (d d' : Nat) (h : d ≤ d') (p' : Nat)
    (hp' : predictedSpec F t d' = some p') :
    ∃ (p i j : Nat), predictedSpec F t d = some p ∧ i ≤ j ∧ (F.lineage t)[i]? = some p ∧
      (F.lineage t)[j]? = some p' := by
  rw [← matchingTaxon_eq_spec] at hp' ⊢
  unfold matchingTaxon at hp' ⊢
  exact find?_weaken (fun a => F.covers a d) (fun a => F.covers a d')
    (fun a ha => covers_mono h ha) _ p' hp'

/-- 7. The primary match is the closest genome exactly when something is predicted. -/
theorem primary_iff (F : Forest) (gtax ds : List Nat) :
    (classifyDefault F gtax ds).primary =
      (if (classifyDefault F gtax ds).predicted.isSome then some (classifyDefault F gtax ds).closest
       else none) := rfl

theorem reportable_eq_spec (F : Forest) (p : Option Nat) : reportable F p = reportSpec F p := by
  cases p <;> rfl

/-- 8. The default-mode result satisfies the whole statement. -/
theorem classifyDefault_ok (F : Forest) (gtax ds : List Nat) (h : ds ≠ []) :
    let r := classifyDefault F gtax ds
    defaultOk F gtax ds r.closest r.predicted r.primary r.next (reportable F r.predicted) = true := by
  intro r
  obtain ⟨h1, h2, _⟩ := argminFirst_spec ds h
  have hc : r.closest = argminFirst ds := rfl
  have hp : r.predicted = predictedSpec F (gtax.getD (argminFirst ds) 0) (ds.getD (argminFirst ds) 0) :=
    matchingTaxon_eq_spec _ _ _
  have hn : r.next = nextSpec F (gtax.getD (argminFirst ds) 0) (ds.getD (argminFirst ds) 0) :=
    next_eq_spec _ _ _
  have hpr : r.primary = (if r.predicted.isSome then some r.closest else none) := rfl
  unfold defaultOk
  simp only [Bool.and_eq_true, decide_eq_true_eq, List.all_eq_true, beq_iff_eq]
  rw [hc]
  refine ⟨⟨⟨⟨⟨h1, h2⟩, hp⟩, ?_⟩, hn⟩, reportable_eq_spec _ _⟩
  rw [hpr, hc]

/-! ### 9. Non-vacuity: lineage `U(0, no thr) → S1(1, thr 3) → G(2, thr 5)`, genome on `U` -/

def exF : Forest :=
  { parent := [some 1, some 2, none], thr := [none, some 3, some 5], report := [true, true, true] }

example : exF.lineage 0 = [0, 1, 2] := by decide
example : predictedSpec exF 0 2 = some 1 ∧ nextSpec exF 0 2 = none := by decide
example : predictedSpec exF 0 4 = some 2 ∧ nextSpec exF 0 4 = some 1 := by decide
example : predictedSpec exF 0 6 = none ∧ nextSpec exF 0 6 = some 2 := by decide
example : matchingTaxon exF 0 2 = some 1 ∧ nextTaxon exF 0 2 = none := by decide
example : matchingTaxon exF 0 4 = some 2 ∧ nextTaxon exF 0 4 = some 1 := by decide
example : matchingTaxon exF 0 6 = none ∧ nextTaxon exF 0 6 = some 2 := by decide
/-- threshold equality matches: d = 3 still predicts `S1` -/
example : predictedSpec exF 0 3 = some 1 := by decide
/-- the hypotheses of `coarsen_mono` are satisfiable, with a strict coarsening -/
example : predictedSpec exF 0 4 = some 2 ∧ predictedSpec exF 0 2 = some 1 ∧
    (exF.lineage 0)[1]? = some 1 ∧ (exF.lineage 0)[2]? = some 2 := by decide
example : (classifyDefault exF [2, 0, 1] [9, 2, 2]).closest = 1 ∧
    (classifyDefault exF [2, 0, 1] [9, 2, 2]).predicted = some 1 ∧
    (classifyDefault exF [2, 0, 1] [9, 2, 2]).primary = some 1 ∧
    (classifyDefault exF [2, 0, 1] [9, 2, 2]).next = none := by decide
example : argminFirst [4, 1, 3, 1] = 1 := by decide

end GambitV.C03
