import GambitV.Model.Session
namespace GambitV.C18
end GambitV.C18
