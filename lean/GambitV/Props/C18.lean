import GambitV.Model.Session

/-!
# C18 — the read-only session never changes the stored data

`ReadOnlySession` (`stepRO`): `flush` is a no-op, `commit` raises.  Over any finite history of
operations the durable rows are unchanged, nothing is ever flushed into a transaction, and every
query sees exactly the durable rows.  For contrast the ordinary session (`stepRW`) does change the
durable rows on an explicit history.  The read-side commands never open a database file for writing.
Core Lean only.
-/
namespace GambitV.C18
open GambitV

/-! ### Generic facts about `runOps` -/

theorem runOps_nil (step : Sess → SOp → Sess × SOut) (s : Sess) : runOps step s [] = (s, []) := rfl

/-- Running a history from an accumulated output list. -/
private theorem foldl_acc (step : Sess → SOp → Sess × SOut) (ops : List SOp) (s : Sess) (outs : List SOut) :
    ops.foldl (fun (acc : Sess × List SOut) op => let r := step acc.1 op; (r.1, acc.2 ++ [r.2])) (s, outs) =
      ((runOps step s ops).1, outs ++ (runOps step s ops).2) := by
  unfold runOps
  induction ops generalizing s outs with
  | nil => simp
  | cons op ops ih =>
    simp only [List.foldl_cons]
    rw [ih (step s op).1 (outs ++ [(step s op).2]), ih (step s op).1 ([] ++ [(step s op).2])]
    simp

/-- One step of a history, then the rest. -/
theorem runOps_cons (step : Sess → SOp → Sess × SOut) (s : Sess) (op : SOp) (ops : List SOp) :
    runOps step s (op :: ops) =
      ((runOps step (step s op).1 ops).1, (step s op).2 :: (runOps step (step s op).1 ops).2) := by
  have := foldl_acc step ops (step s op).1 ([] ++ [(step s op).2])
  simpa [runOps] using this

/-- 5. One output per operation. -/
theorem outputs_length (step : Sess → SOp → Sess × SOut) (s : Sess) (ops : List SOp) :
    (runOps step s ops).2.length = ops.length := by
  induction ops generalizing s with
  | nil => rfl
  | cons op ops ih => rw [runOps_cons]; simp [ih]

/-! ### One step of the read-only session -/

theorem stepRO_durable (s : Sess) (op : SOp) : (stepRO s op).1.durable = s.durable := by
  cases op <;> rfl

/-- raw SQL statements are the only way anything enters the connection's transaction -/
def isRawSql : SOp → Bool
  | .rawSql _ => true
  | _ => false

theorem stepRO_txn (s : Sess) (op : SOp) (hop : isRawSql op = false) (h : s.txn = []) : (stepRO s op).1.txn = [] := by
  cases op <;> simp [stepRO, h, isRawSql] at hop ⊢

/-- 3a. `commit` raises and changes nothing. -/
theorem commit_raises (s : Sess) : stepRO s .commit = (s, .raised) := rfl

/-- 3b. `flush` is a no-op: pending changes stay pending. -/
theorem flush_noop (s : Sess) : stepRO s .flush = (s, .ok) := rfl

/-! ### Histories -/

/-- 1. No finite history of operations on the read-only session changes the stored data. -/
theorem durable_invariant (ops : List SOp) (s : Sess) : (runOps stepRO s ops).1.durable = s.durable := by
  induction ops generalizing s with
  | nil => rfl
  | cons op ops ih => rw [runOps_cons]; simp only []; rw [ih, stepRO_durable]

/-- 2. Nothing is ever flushed into a transaction (the unit of work never reaches the connection). -/
theorem txn_stays_empty (ops : List SOp) (s : Sess) (hraw : ∀ op ∈ ops, isRawSql op = false) (h : s.txn = []) :
    (runOps stepRO s ops).1.txn = [] := by
  induction ops generalizing s with
  | nil => exact h
  | cons op ops ih =>
    rw [runOps_cons]
    exact ih _ (fun o ho => hraw o (List.mem_cons_of_mem _ ho)) (stepRO_txn s op (hraw op (List.mem_cons_self ..)) h)

/-- 2b. Even statements executed directly on the connection (`rawSql`) are never made durable: they sit in the open
transaction, `commit` refuses, and `rollback` / `close` discard them.  (`durable_invariant` above holds for *every* history,
raw SQL included.) -/
theorem raw_sql_discarded (s : Sess) (c : Change) :
    (runOps stepRO s [.rawSql c, .commit, .close]).1 = { durable := s.durable, txn := [], pending := [] } ∧
    (runOps stepRO s [.rawSql c, .commit, .close]).2 = [.ok, .raised, .ok] := by
  simp [runOps, stepRO]

/-- 4a. A query sees exactly the durable rows (pending changes are not visible: autoflush is a no-op). -/
theorem query_sees_durable (s : Sess) (h : s.txn = []) : (stepRO s .query).2 = .rows s.durable.length := by
  simp [stepRO, h, applyChanges]

/-- One step from an empty-transaction state can only report the durable row count. -/
theorem stepRO_rows (s : Sess) (op : SOp) (h : s.txn = []) (n : Nat) (hn : (stepRO s op).2 = .rows n) :
    n = s.durable.length := by
  cases op <;> simp [stepRO, h, applyChanges] at hn
  exact hn.symm

/-- 4b. Along any history from a state with an empty transaction, every `.rows n` output has
`n = s.durable.length`. -/
theorem history_rows (ops : List SOp) (s : Sess) (hraw : ∀ op ∈ ops, isRawSql op = false) (h : s.txn = []) :
    ∀ n, SOut.rows n ∈ (runOps stepRO s ops).2 → n = s.durable.length := by
  induction ops generalizing s with
  | nil => intro n hn; simp [runOps_nil] at hn
  | cons op ops ih =>
    intro n hn
    rw [runOps_cons] at hn
    rcases List.mem_cons.1 hn with e | hn
    · exact stepRO_rows s op h n e.symm
    · have := ih _ (fun o ho => hraw o (List.mem_cons_of_mem _ ho)) (stepRO_txn s op (hraw op (List.mem_cons_self ..)) h) n hn
      rwa [stepRO_durable] at this

/-- The pending changes are exactly the `change` operations since the last rollback/close/refused transaction commit — in
particular after a history with neither, all changes are still pending (none was applied). -/
theorem pending_accumulates (ops : List SOp) (s : Sess)
    (hno : ∀ op ∈ ops, op ≠ .rollback ∧ op ≠ .close ∧ op ≠ .beginBlock) :
    (runOps stepRO s ops).1.pending =
      s.pending ++ ops.filterMap (fun op => match op with | .change c => some c | _ => none) := by
  induction ops generalizing s with
  | nil => simp [runOps_nil]
  | cons op ops ih =>
    rw [runOps_cons]
    simp only []
    rw [ih _ (fun o ho => hno o (List.mem_cons_of_mem _ ho))]
    have := hno op (List.mem_cons_self ..)
    cases op <;> simp [stepRO] at this ⊢

/-- A commit through the transaction object (`get_transaction().commit()`) is refused like `commit()`:
nothing is stored and the session is left as it was. -/
theorem txn_commit_raises (s : Sess) : stepRO s .txnCommit = (s, .raised) := rfl

/-- Leaving a `with session.begin():` block is refused too and leaves nothing behind: stored rows
unchanged, the block's transaction and the pending changes discarded. -/
theorem begin_block_raises (s : Sess) :
    (stepRO s .beginBlock).2 = .raised ∧ (stepRO s .beginBlock).1.durable = s.durable ∧
    (stepRO s .beginBlock).1.txn = [] ∧ (stepRO s .beginBlock).1.pending = [] := by
  simp [stepRO]

/-- … in contrast to the ordinary session, where it stores the pending and flushed changes. -/
theorem rw_txn_commit_stores :
    (stepRW { durable := [1, 2], txn := [.add 8], pending := [.add 7] } .txnCommit).1.durable = [1, 2, 8, 7] := by
  decide

/-! ### 6. Contrast: the ordinary session does change the stored data -/

/-- On the history `add 7; flush; commit` the ordinary session stores the row; the read-only session
does not (its `commit` raises). -/
theorem rw_changes_durable :
    let s : Sess := { durable := [1, 2], txn := [], pending := [] }
    let ops : List SOp := [.change (.add 7), .flush, .commit, .query]
    (runOps stepRW s ops).1.durable = [1, 2, 7] ∧
    (runOps stepRW s ops).2 = [.ok, .ok, .ok, .rows 3] ∧
    (runOps stepRO s ops).1.durable = [1, 2] ∧
    (runOps stepRO s ops).2 = [.ok, .ok, .raised, .rows 2] := by
  decide

/-! ### 7. File-open modes -/

/-- No read-side command opens either database file for writing. -/
theorem dbOpens_never_write (c : Cmd) : (dbOpens c).1 ≠ some .write ∧ (dbOpens c).2 ≠ some .write := by
  cases c <;> decide

/-! ### Non-vacuity -/

-- a history with a delete, a flush, a commit attempt, a query and a close: durable rows untouched,
-- the query still sees both rows, the pending changes are discarded by `close`.
example : runOps stepRO { durable := [4, 5], txn := [], pending := [] }
    [.change (.del 4), .flush, .commit, .query, .close] =
    ({ durable := [4, 5], txn := [], pending := [] }, [.ok, .ok, .raised, .rows 2, .ok]) := by decide

-- the same history on the ordinary session deletes the row
example : (runOps stepRW { durable := [4, 5], txn := [], pending := [] }
    [.change (.del 4), .flush, .commit, .query, .close]).1.durable = [5] := by decide

example : dbOpens .query = (some .read, some .read) := rfl

end GambitV.C18
