import GambitV.Model.Cluster
namespace GambitV.C17
end GambitV.C17
