import GambitV.Lemmas.Cluster

/-!
# C17 — the tree built from a linkage matrix: leaves, branch lengths, ultrametricity

`Model/Cluster.lean` follows `gambit.cluster.linkage_to_bio_tree`: the clade list starts with one
leaf per label; every linkage row sets the branch lengths of its two children to
`row height − child height` and appends the new clade; the tree is the last clade.

For a well-formed linkage (`ValidLinkage`, `Lemmas/Cluster.lean`: what SciPy guarantees — `n − 1`
rows, row `r` merges two distinct existing clusters `< n + r`, every cluster but the last is merged
exactly once, heights non-negative and monotone) the tree

* is the unfolding of the linkage (`tree_from_linkage`),
* has exactly the labels `0 … n−1` as leaves, each once (`leaves_perm`),
* has no negative branch length (`branch_nonneg`),
* is ultrametric: every leaf is at distance = root height from the root (`ultrametric`), and at every
  internal node every leaf below is at distance = the height of the linkage row that created the
  node, so the path between leaves of its two children is twice that height
  (`path_eq_twice_merge_height`).

Helper lemmas (the loop invariant) live in `Lemmas/Cluster.lean`.  Core Lean only.
-/
namespace GambitV.C17
open GambitV

/-- The tree exists and is the clade of the last cluster; the loop invariant holds for the final list. -/
theorem tree_exists {n : Nat} {link : List LinkRow} (h : ValidLinkage n link = true) :
    linkageToTree n link = some ((buildClades n link).getD (n + link.length - 1) (.leaf 0 0)) ∧
      BuildInv n link link.length (buildClades n link) := by
  obtain ⟨hn, _, hrows, _⟩ := ValidLinkage.spec h
  have inv := buildInv_final n link hrows
  exact ⟨linkageToTree_eq n link hn inv.length_eq, inv⟩

/-- 0. The tree is the unfolding of the linkage from its last cluster (index `2n − 2`). -/
theorem tree_from_linkage {n : Nat} {link : List LinkRow} (h : ValidLinkage n link = true) :
    ∃ t, linkageToTree n link = some t ∧ t.FromLink n link (n + link.length - 1) := by
  obtain ⟨hn, _, _, _⟩ := ValidLinkage.spec h
  obtain ⟨ht, inv⟩ := tree_exists h
  exact ⟨_, ht, inv.fromLink _ (by omega)⟩

/-- 9. The leaves of the tree are exactly the labels `0 … n−1`, each once. -/
theorem leaves_perm {n : Nat} {link : List LinkRow} (h : ValidLinkage n link = true) :
    ∃ t, linkageToTree n link = some t ∧ t.leaves.Perm (List.range n) := by
  obtain ⟨hn, _, _, hperm⟩ := ValidLinkage.spec h
  obtain ⟨ht, inv⟩ := tree_exists h
  exact ⟨_, ht, root_leaves_perm n link hn inv hperm⟩

/-- 10. No branch below the root has negative length. -/
theorem branch_nonneg {n : Nat} {link : List LinkRow} (h : ValidLinkage n link = true) :
    ∃ t, linkageToTree n link = some t ∧ t.nonneg = true := by
  obtain ⟨hn, _, _, _⟩ := ValidLinkage.spec h
  obtain ⟨ht, inv⟩ := tree_exists h
  exact ⟨_, ht, inv.nonneg _ (by omega)⟩

/-- 9b/10b. The same with the tree given. -/
theorem leaves_perm' {n : Nat} {link : List LinkRow} (h : ValidLinkage n link = true) (t : Clade)
    (ht : linkageToTree n link = some t) : t.leaves.Perm (List.range n) := by
  obtain ⟨t', ht', hp⟩ := leaves_perm h
  rw [ht] at ht'
  cases ht'
  exact hp

theorem branch_nonneg' {n : Nat} {link : List LinkRow} (h : ValidLinkage n link = true) (t : Clade)
    (ht : linkageToTree n link = some t) : t.nonneg = true := by
  obtain ⟨t', ht', hp⟩ := branch_nonneg h
  rw [ht] at ht'
  cases ht'
  exact hp

/-- The tree is ultrametric at every node, with the root at the height of the last linkage row. -/
theorem tree_ultra {n : Nat} {link : List LinkRow} (h : ValidLinkage n link = true) :
    ∃ t, linkageToTree n link = some t ∧ t.Ultra ((link.getLast?.map (·.height)).getD 0) := by
  obtain ⟨hn, _, _, _⟩ := ValidLinkage.spec h
  obtain ⟨t, ht, hf⟩ := tree_from_linkage h
  refine ⟨t, ht, ?_⟩
  have := hf.ultra
  rw [nodeHeight_root n link hn] at this
  exact this

/-- 11. All leaves are equidistant from the root: at the height of the last linkage row. -/
theorem ultrametric {n : Nat} {link : List LinkRow} (h : ValidLinkage n link = true) :
    ∃ t, linkageToTree n link = some t ∧
      ∀ p ∈ t.depths, p.2 = (link.getLast?.map (·.height)).getD 0 := by
  obtain ⟨t, ht, hu⟩ := tree_ultra h
  exact ⟨t, ht, hu.depths⟩

/-- 11b. The same with the tree given. -/
theorem ultrametric' {n : Nat} {link : List LinkRow} (h : ValidLinkage n link = true) (t : Clade)
    (ht : linkageToTree n link = some t) :
    ∀ p ∈ t.depths, p.2 = (link.getLast?.map (·.height)).getD 0 := by
  obtain ⟨t', ht', hu⟩ := ultrametric h
  rw [ht] at ht'
  cases ht'
  exact hu

/-- 12. For every internal node `node a b _` of the tree there is a linkage row (the one that created
it: `a`, `b` are the unfoldings of its two clusters) such that every leaf of `a` and every leaf of
`b` is at distance exactly that row's height from the node; hence the path between a leaf of `a`
and a leaf of `b` has length twice the merge height. -/
theorem path_eq_twice_merge_height {n : Nat} {link : List LinkRow} (h : ValidLinkage n link = true) :
    ∃ t, linkageToTree n link = some t ∧
      ∀ a b x, Clade.node a b x ∈ t.subs →
        ∃ (r : Nat) (row : LinkRow), link[r]? = some row ∧
          a.FromLink n link row.left ∧ b.FromLink n link row.right ∧
          (∀ p ∈ a.depths, p.2 + a.len = row.height) ∧
          (∀ q ∈ b.depths, q.2 + b.len = row.height) ∧
          (∀ p ∈ a.depths, ∀ q ∈ b.depths, (p.2 + a.len) + (q.2 + b.len) = 2 * row.height) := by
  obtain ⟨t, ht, hf⟩ := tree_from_linkage h
  refine ⟨t, ht, ?_⟩
  intro a b x hs
  obtain ⟨j, hj⟩ := hf.subs _ hs
  have hu := hj.ultra
  obtain ⟨h1, h2, h3, h4, _, _⟩ := hj
  rw [nodeHeight_ge link h1] at hu
  have hlt : j - n < link.length := by omega
  have hget : link.getD (j - n) ⟨0, 0, 0⟩ = link[j - n] := by
    rw [List.getD_eq_getElem?_getD, List.getElem?_eq_getElem hlt]; rfl
  rw [hget] at hu h3 h4
  obtain ⟨ha, hb⟩ := hu.node_depths
  refine ⟨j - n, link[j - n], List.getElem?_eq_getElem hlt, h3, h4, ha, hb, ?_⟩
  intro p hp q hq
  have := ha p hp
  have := hb q hq
  omega

/-- every sub-clade is ultrametric (a recursive reading of `Clade.Ultra`) -/
theorem subs_ultra {n : Nat} {link : List LinkRow} (h : ValidLinkage n link = true) :
    ∃ t, linkageToTree n link = some t ∧ ∀ s ∈ t.subs, ∃ j, s.Ultra (nodeHeight n link j) := by
  obtain ⟨t, ht, hf⟩ := tree_from_linkage h
  refine ⟨t, ht, ?_⟩
  intro s hs
  obtain ⟨j, hj⟩ := hf.subs s hs
  exact ⟨j, hj.ultra⟩

/-! ### 13. Non-vacuity -/

def exLink : List LinkRow := [⟨2, 3, 25⟩, ⟨0, 1, 50⟩, ⟨4, 5, 75⟩]

example : ValidLinkage 4 exLink = true := by decide

example : linkageToTree 4 exLink =
    some (.node (.node (.leaf 2 25) (.leaf 3 25) 50) (.node (.leaf 0 50) (.leaf 1 50) 25) 0) := by decide

example : (linkageToTree 4 exLink).map Clade.depths = some [(2, 75), (3, 75), (0, 75), (1, 75)] := by decide

example : (linkageToTree 4 exLink).map Clade.leaves = some [2, 3, 0, 1] := by decide

example : (linkageToTree 4 exLink).map Clade.nonneg = some true := by decide

/-- a single observation: no rows, the tree is the leaf -/
example : ValidLinkage 1 [] = true ∧ linkageToTree 1 [] = some (.leaf 0 0) := by decide

/-- rejected: a cluster merged twice; a child that does not exist yet; a height inversion -/
example : ValidLinkage 3 [⟨0, 1, 10⟩, ⟨0, 2, 20⟩] = false := by decide
example : ValidLinkage 3 [⟨0, 3, 10⟩, ⟨1, 2, 20⟩] = false := by decide
example : ValidLinkage 3 [⟨0, 1, 20⟩, ⟨3, 2, 10⟩] = false := by decide

/-- without monotone heights the conversion does produce a negative branch -/
example : (linkageToTree 3 [⟨0, 1, 20⟩, ⟨3, 2, 10⟩]).map Clade.nonneg = some false := by decide

end GambitV.C17
