import GambitV.Lemmas.Cluster
import GambitV.Lemmas.Upgma

/-!
# C17 — the tree built from a linkage matrix: leaves, branch lengths, ultrametricity

`Model/Cluster.lean` follows `gambit.cluster.linkage_to_bio_tree`: the clade list starts with one
leaf per label; every linkage row sets the branch lengths of its two children to
`row height − child height` and appends the new clade; the tree is the last clade.

For a well-formed linkage (`ValidLinkage`, `Lemmas/Cluster.lean`: what SciPy guarantees — `n − 1`
rows, row `r` merges two distinct existing clusters `< n + r`, every cluster but the last is merged
exactly once, heights non-negative and monotone) the tree

* is the unfolding of the linkage (`tree_from_linkage`),
* has exactly the labels `0 … n−1` as leaves, each once (`leaves_perm`),
* has no negative branch length (`branch_nonneg`),
* is ultrametric: every leaf is at distance = root height from the root (`ultrametric`), and at every
  internal node every leaf below is at distance = the height of the linkage row that created the
  node, so the path between leaves of its two children is twice that height
  (`path_eq_twice_merge_height`).

Helper lemmas (the loop invariant) live in `Lemmas/Cluster.lean`.  Core Lean only.
-/
namespace GambitV.C17
open GambitV

/-- The tree exists and is the clade of the last cluster; the loop invariant holds for the final list. -/
theorem tree_exists {n : Nat} {link : List LinkRow} (h : ValidLinkage n link = true) :
    linkageToTree n link = some ((buildClades n link).getD (n + link.length - 1) (.leaf 0 0)) ∧
      BuildInv n link link.length (buildClades n link) := by
  obtain ⟨hn, _, hrows, _⟩ := ValidLinkage.spec h
  have inv := buildInv_final n link hrows
  exact ⟨linkageToTree_eq n link hn inv.length_eq, inv⟩

/-- 0. The tree is the unfolding of the linkage from its last cluster (index `2n − 2`). -/
theorem tree_from_linkage {n : Nat} {link : List LinkRow} (h : ValidLinkage n link = true) :
    ∃ t, linkageToTree n link = some t ∧ t.FromLink n link (n + link.length - 1) := by
  obtain ⟨hn, _, _, _⟩ := ValidLinkage.spec h
  obtain ⟨ht, inv⟩ := tree_exists h
  exact ⟨_, ht, inv.fromLink _ (by omega)⟩

/-- 9. The leaves of the tree are exactly the labels `0 … n−1`, each once. -/
theorem leaves_perm {n : Nat} {link : List LinkRow} (h : ValidLinkage n link = true) :
    ∃ t, linkageToTree n link = some t ∧ t.leaves.Perm (List.range n) := by
  obtain ⟨hn, _, _, hperm⟩ := ValidLinkage.spec h
  obtain ⟨ht, inv⟩ := tree_exists h
  exact ⟨_, ht, root_leaves_perm n link hn inv hperm⟩

/-- 10. No branch below the root has negative length. -/
theorem branch_nonneg {n : Nat} {link : List LinkRow} (h : ValidLinkage n link = true) :
    ∃ t, linkageToTree n link = some t ∧ t.nonneg = true := by
  obtain ⟨hn, _, _, _⟩ := ValidLinkage.spec h
  obtain ⟨ht, inv⟩ := tree_exists h
  exact ⟨_, ht, inv.nonneg _ (by omega)⟩

/-- 9b/10b. The same with the tree given. -/
theorem leaves_perm' {n : Nat} {link : List LinkRow} (h : ValidLinkage n link = true) (t : Clade)
    (ht : linkageToTree n link = some t) : t.leaves.Perm (List.range n) := by
  obtain ⟨t', ht', hp⟩ := leaves_perm h
  rw [ht] at ht'
  cases ht'
  exact hp

theorem branch_nonneg' {n : Nat} {link : List LinkRow} (h : ValidLinkage n link = true) (t : Clade)
    (ht : linkageToTree n link = some t) : t.nonneg = true := by
  obtain ⟨t', ht', hp⟩ := branch_nonneg h
  rw [ht] at ht'
  cases ht'
  exact hp

/-- The tree is ultrametric at every node, with the root at the height of the last linkage row. -/
theorem tree_ultra {n : Nat} {link : List LinkRow} (h : ValidLinkage n link = true) :
    ∃ t, linkageToTree n link = some t ∧ t.Ultra ((link.getLast?.map (·.height)).getD 0) := by
  obtain ⟨hn, _, _, _⟩ := ValidLinkage.spec h
  obtain ⟨t, ht, hf⟩ := tree_from_linkage h
  refine ⟨t, ht, ?_⟩
  have := hf.ultra
  rw [nodeHeight_root n link hn] at this
  exact this

/-- 11. All leaves are equidistant from the root: at the height of the last linkage row. -/
theorem ultrametric {n : Nat} {link : List LinkRow} (h : ValidLinkage n link = true) :
    ∃ t, linkageToTree n link = some t ∧
      ∀ p ∈ t.depths, p.2 = (link.getLast?.map (·.height)).getD 0 := by
  obtain ⟨t, ht, hu⟩ := tree_ultra h
  exact ⟨t, ht, hu.depths⟩

/-- 11b. The same with the tree given. -/
theorem ultrametric' {n : Nat} {link : List LinkRow} (h : ValidLinkage n link = true) (t : Clade)
    (ht : linkageToTree n link = some t) :
    ∀ p ∈ t.depths, p.2 = (link.getLast?.map (·.height)).getD 0 := by
  obtain ⟨t', ht', hu⟩ := ultrametric h
  rw [ht] at ht'
  cases ht'
  exact hu

/-- 12. For every internal node `node a b _` of the tree there is a linkage row (the one that created
it: `a`, `b` are the unfoldings of its two clusters) such that every leaf of `a` and every leaf of
`b` is at distance exactly that row's height from the node; hence the path between a leaf of `a`
and a leaf of `b` has length twice the merge height. -/
theorem path_eq_twice_merge_height {n : Nat} {link : List LinkRow} (h : ValidLinkage n link = true) :
    ∃ t, linkageToTree n link = some t ∧
      ∀ a b x, Clade.node a b x ∈ t.subs →
        ∃ (r : Nat) (row : LinkRow), link[r]? = some row ∧
          a.FromLink n link row.left ∧ b.FromLink n link row.right ∧
          (∀ p ∈ a.depths, p.2 + a.len = row.height) ∧
          (∀ q ∈ b.depths, q.2 + b.len = row.height) ∧
          (∀ p ∈ a.depths, ∀ q ∈ b.depths, (p.2 + a.len) + (q.2 + b.len) = 2 * row.height) := by
  obtain ⟨t, ht, hf⟩ := tree_from_linkage h
  refine ⟨t, ht, ?_⟩
  intro a b x hs
  obtain ⟨j, hj⟩ := hf.subs _ hs
  have hu := hj.ultra
  obtain ⟨h1, h2, h3, h4, _, _⟩ := hj
  rw [nodeHeight_ge link h1] at hu
  have hlt : j - n < link.length := by omega
  have hget : link.getD (j - n) ⟨0, 0, 0⟩ = link[j - n] := by
    rw [List.getD_eq_getElem?_getD, List.getElem?_eq_getElem hlt]; rfl
  rw [hget] at hu h3 h4
  obtain ⟨ha, hb⟩ := hu.node_depths
  refine ⟨j - n, link[j - n], List.getElem?_eq_getElem hlt, h3, h4, ha, hb, ?_⟩
  intro p hp q hq
  have := ha p hp
  have := hb q hq
  omega

/-- every sub-clade is ultrametric (a recursive reading of `Clade.Ultra`) -/
theorem subs_ultra {n : Nat} {link : List LinkRow} (h : ValidLinkage n link = true) :
    ∃ t, linkageToTree n link = some t ∧ ∀ s ∈ t.subs, ∃ j, s.Ultra (nodeHeight n link j) := by
  obtain ⟨t, ht, hf⟩ := tree_from_linkage h
  refine ⟨t, ht, ?_⟩
  intro s hs
  obtain ⟨j, hj⟩ := hf.subs s hs
  exact ⟨j, hj.ultra⟩

/-! ### 13. Non-vacuity -/

def exLink : List LinkRow := [⟨2, 3, 25⟩, ⟨0, 1, 50⟩, ⟨4, 5, 75⟩]

example : ValidLinkage 4 exLink = true := by decide

example : linkageToTree 4 exLink =
    some (.node (.node (.leaf 2 25) (.leaf 3 25) 50) (.node (.leaf 0 50) (.leaf 1 50) 25) 0) := by decide

example : (linkageToTree 4 exLink).map Clade.depths = some [(2, 75), (3, 75), (0, 75), (1, 75)] := by decide

example : (linkageToTree 4 exLink).map Clade.leaves = some [2, 3, 0, 1] := by decide

example : (linkageToTree 4 exLink).map Clade.nonneg = some true := by decide

/-- a single observation: no rows, the tree is the leaf -/
example : ValidLinkage 1 [] = true ∧ linkageToTree 1 [] = some (.leaf 0 0) := by decide

/-- rejected: a cluster merged twice; a child that does not exist yet; a height inversion -/
example : ValidLinkage 3 [⟨0, 1, 10⟩, ⟨0, 2, 20⟩] = false := by decide
example : ValidLinkage 3 [⟨0, 3, 10⟩, ⟨1, 2, 20⟩] = false := by decide
example : ValidLinkage 3 [⟨0, 1, 20⟩, ⟨3, 2, 10⟩] = false := by decide

/-- without monotone heights the conversion does produce a negative branch -/
example : (linkageToTree 3 [⟨0, 1, 20⟩, ⟨3, 2, 10⟩]).map Clade.nonneg = some false := by decide

/-! ## The executable UPGMA model (`Model/Upgma.lean`) produces a valid linkage

`upgma D n` agglomerates `n` observations by average linkage in exact arithmetic.  The theorems below
say: it emits `n − 1` rows (U1) whose children are a permutation of `0 … 2n−3` (U2) with positive
denominators (U3); the height of a row is exactly the average of `D` over the observations below its
two children (U4); each step merges a pair of minimal average distance (U5); for a symmetric matrix the
heights never decrease (U6); so for a symmetric non-negative matrix the common-denominator linkage
`toLink (upgma D n)` satisfies `ValidLinkage` (U7) and all tree theorems above apply (U8).
Helper lemmas and the loop invariant `UInv` live in `Lemmas/Upgma.lean`. -/

/-- U1. `n − 1` rows. -/
theorem upgma_length {D : List (List Int)} {n : Nat} (_hn : 1 ≤ n) : (upgma D n).length = n - 1 :=
  upgma_length_eq D n

/-- U2a. The children of row `t` exist already (`< n + t`) and are distinct. -/
theorem upgma_children_lt {D : List (List Int)} {n t : Nat} {r : QRow} (h : (upgma D n)[t]? = some r) :
    r.left < n + t ∧ r.right < n + t ∧ r.left ≠ r.right := by
  by_cases hn : 1 ≤ n
  · exact (uinv_final D hn).rows_ok t r h
  · have : n = 0 := by omega
    subst this
    simp [upgma_zero] at h

/-- U2. Every cluster except the last is merged exactly once. -/
theorem upgma_children_perm {D : List (List Int)} {n : Nat} (hn : 1 ≤ n) :
    (linkChildren (toLink (upgma D n))).Perm (List.range (n + (n - 1) - 1)) := by
  have inv := uinv_final D hn
  rw [linkChildren_toLink]
  have hp := inv.perm
  have hlast := inv.last
  have hlen := inv.act_len
  generalize (upgmaRun D (n - 1) (upgmaInit n)).act = act at hp hlast hlen
  match act, hlen with
  | [c], _ =>
    simp only [List.getLast?_singleton, Option.map_some, Option.some.injEq] at hlast
    simp only [List.map_cons, List.map_nil, hlast] at hp
    rw [show n + (n - 1) = (n + (n - 1) - 1) + 1 by omega, List.range_succ] at hp
    rw [show n + (n - 1) - 1 + 1 - 1 = n + (n - 1) - 1 by omega] at hp
    exact (List.perm_append_right_iff _).1 hp
  | [], h => simp at h; omega
  | _ :: _ :: _, h => simp at h; omega

/-- U3. Denominators are positive. -/
theorem upgma_den_pos {D : List (List Int)} {n : Nat} : ∀ r ∈ upgma D n, 0 < r.den := by
  intro r hr
  by_cases hn : 1 ≤ n
  · obtain ⟨t, ht⟩ := List.getElem?_of_mem hr
    exact ((uinv_final D hn).rows_avg t r ht).1
  · have : n = 0 := by omega
    subst this
    simp [upgma_zero] at hr

/-- U4 (general fuel). The height `num / den` of row `t` is exactly the average of `D` over
(observations below the left child) × (observations below the right child), for any fuels `f1`, `f2`
with `1 ≤ f` and `child + 2 ≤ f + n` (`FuelOk`); both observation lists are non-empty. -/
theorem upgma_height_is_average_fuel {D : List (List Int)} {n t : Nat} {r : QRow} (hn : 1 ≤ n)
    (h : (upgma D n)[t]? = some r) (f1 f2 : Nat) (h1 : FuelOk n f1 r.left) (h2 : FuelOk n f2 r.right) :
    rowLeaves n (upgma D n) f1 r.left ≠ [] ∧ rowLeaves n (upgma D n) f2 r.right ≠ [] ∧
    r.num = sumD D (rowLeaves n (upgma D n) f1 r.left) (rowLeaves n (upgma D n) f2 r.right) ∧
    r.den = (rowLeaves n (upgma D n) f1 r.left).length * (rowLeaves n (upgma D n) f2 r.right).length :=
  ((uinv_final D hn).rows_avg t r h).2 f1 f2 h1 h2

/-- U4. The same with the fuel `n + t` (which is sufficient: the children of row `t` are `< n + t`). -/
theorem upgma_height_is_average {D : List (List Int)} {n t : Nat} {r : QRow} (hn : 1 ≤ n)
    (h : (upgma D n)[t]? = some r) :
    r.num = sumD D (rowLeaves n (upgma D n) (n + t) r.left) (rowLeaves n (upgma D n) (n + t) r.right) ∧
    r.den = (rowLeaves n (upgma D n) (n + t) r.left).length * (rowLeaves n (upgma D n) (n + t) r.right).length := by
  obtain ⟨hl, hr, _⟩ := upgma_children_lt h
  exact (upgma_height_is_average_fuel hn h (n + t) (n + t) ⟨by omega, by omega⟩ ⟨by omega, by omega⟩).2.2

/-- U4b. The observations below the last cluster (number `2n − 2`) are a permutation of `0 … n−1`
(for any fuel `f ≥ n`; `n = (upgma D n).length + 1`). -/
theorem upgma_leaves_partition {D : List (List Int)} {n : Nat} (hn : 1 ≤ n) (f : Nat) (hf : n ≤ f) :
    (rowLeaves n (upgma D n) f (n + (n - 1) - 1)).Perm (List.range n) := by
  have inv := uinv_final D hn
  have hleaves := inv.leaves
  have hlast := inv.last
  have hlen := inv.act_len
  have hal := inv.act_leaves
  show (rowLeaves n (upgmaRun D (n - 1) (upgmaInit n)).rows f (n + (n - 1) - 1)).Perm _
  generalize (upgmaRun D (n - 1) (upgmaInit n)).rows = rows at hal
  generalize (upgmaRun D (n - 1) (upgmaInit n)).act = act at hleaves hlast hlen hal
  match act, hlen with
  | [c], _ =>
    simp only [List.getLast?_singleton, Option.map_some, Option.some.injEq] at hlast
    have := hal c (List.mem_singleton.2 rfl) f ⟨by omega, by omega⟩
    rw [hlast] at this
    rw [this]
    simpa using hleaves
  | [], h => simp at h; omega
  | _ :: _ :: _, h => simp at h; omega

/-- U5. Every step merges a pair of minimal average distance among all active clusters. -/
theorem upgma_step_minimal {D : List (List Int)} {n k : Nat} (hk : k < n - 1) :
    ∃ i j, argminPair D (upgmaRun D k (upgmaInit n)).act = some (i, j) ∧ i < j ∧
      j < (upgmaRun D k (upgmaInit n)).act.length ∧
      ∀ p q, p < q → q < (upgmaRun D k (upgmaInit n)).act.length →
        avgLt D (memAt (upgmaRun D k (upgmaInit n)).act p) (memAt (upgmaRun D k (upgmaInit n)).act q)
          (memAt (upgmaRun D k (upgmaInit n)).act i) (memAt (upgmaRun D k (upgmaInit n)).act j) = false := by
  obtain ⟨i, j, h1, h2, h3, h4, _, _⟩ := (uinv_run D n k (by omega)).step_spec (by omega)
  exact ⟨i, j, h1, h2, h3, h4⟩

/-- U5b. …and the row emitted by that step is the row `k` of the result: children = the numbers of the two
clusters, height = their average distance. -/
theorem upgma_step_row {D : List (List Int)} {n k : Nat} (hk : k < n - 1) :
    ∃ i j, argminPair D (upgmaRun D k (upgmaInit n)).act = some (i, j) ∧
      (upgma D n)[k]? = some (mergeRow D (upgmaRun D k (upgmaInit n)).act i j) := by
  have inv := uinv_run D n k (by omega)
  obtain ⟨i, j, h1, _, _, _, h5, _⟩ := inv.step_spec (by omega)
  refine ⟨i, j, h1, ?_⟩
  rw [upgma_getElem?_run D (show k < k + 1 by omega) (show k + 1 < n by omega), upgmaRun_succ, h5]
  show ((upgmaRun D k (upgmaInit n)).rows ++ [mergeRow D (upgmaRun D k (upgmaInit n)).act i j])[k]? = _
  have hl := inv.rows_len
  generalize (upgmaRun D k (upgmaInit n)).rows = R at hl
  rw [← hl]
  exact List.getElem?_concat_length

/-- U6. For a symmetric matrix the heights never decrease (reducibility of average linkage). -/
theorem upgma_monotone {D : List (List Int)} {n t : Nat} {r1 r2 : QRow} (hs : SymmD D)
    (h1 : (upgma D n)[t]? = some r1) (h2 : (upgma D n)[t + 1]? = some r2) :
    r1.num * (r2.den : Int) ≤ r2.num * (r1.den : Int) := by
  have hlt : t + 1 < (upgma D n).length := (List.getElem?_eq_some_iff.1 h2).1
  rw [upgma_length_eq] at hlt
  have hk : t + 2 < n := by omega
  have inv := uinv_run D n t (by omega)
  obtain ⟨a, b, hrows, hle⟩ := monotone_step hs inv hk
  rw [← upgmaRun_succ, ← upgmaRun_succ] at hrows
  rw [upgma_getElem?_run D (show t < t + 1 + 1 by omega) hk, hrows] at h1
  rw [upgma_getElem?_run D (show t + 1 < t + 1 + 1 by omega) hk, hrows] at h2
  have hl := inv.rows_len
  rw [List.getElem?_append_right (by omega)] at h1 h2
  rw [hl] at h1 h2
  rw [show t - t = 0 by omega] at h1
  rw [show t + 1 - t = 1 by omega] at h2
  simp only [List.getElem?_cons_zero, List.getElem?_cons_succ, Option.some.injEq] at h1 h2
  subst h1 h2
  exact hle

/-- U6b. The same for any two rows `t ≤ t'`. -/
theorem upgma_monotone_all {D : List (List Int)} {n t t' : Nat} {r1 r2 : QRow} (hs : SymmD D) (htt : t ≤ t')
    (h1 : (upgma D n)[t]? = some r1) (h2 : (upgma D n)[t']? = some r2) :
    r1.num * (r2.den : Int) ≤ r2.num * (r1.den : Int) := by
  induction t' generalizing r2 with
  | zero =>
    have : t = 0 := by omega
    subst this
    rw [h1] at h2
    cases h2
    exact Int.le_refl _
  | succ m ih =>
    by_cases htm : t = m + 1
    · subst htm
      rw [h1] at h2
      cases h2
      exact Int.le_refl _
    · have hlt : m + 1 < (upgma D n).length := (List.getElem?_eq_some_iff.1 h2).1
      have hm : m < (upgma D n).length := by omega
      have hmid : (upgma D n)[m]? = some (upgma D n)[m] := List.getElem?_eq_getElem hm
      have h3 := ih (by omega) hmid
      have h4 := upgma_monotone hs hmid h2
      have p1 : (0 : Int) < r1.den := by
        have := upgma_den_pos r1 (List.mem_of_getElem? h1); omega
      have p2 : (0 : Int) < (upgma D n)[m].den := by
        have := upgma_den_pos _ (List.getElem_mem hm); omega
      have p3 : (0 : Int) < r2.den := by
        have := upgma_den_pos r2 (List.mem_of_getElem? h2); omega
      exact frac_le_trans p1 p2 p3 h3 h4

/-- U7. For a symmetric matrix without negative entries, the linkage (heights brought to the common
denominator `commonDen`) is well-formed in the sense of `ValidLinkage`. -/
theorem upgma_valid {D : List (List Int)} {n : Nat} (hs : SymmD D) (hp : NonnegD D) (hn : 1 ≤ n) :
    ValidLinkage n (toLink (upgma D n)) = true := by
  have hlen : (toLink (upgma D n)).length = n - 1 := by
    unfold toLink
    rw [List.length_map, upgma_length_eq]
  -- the height of the link row made from `r`
  have hnum : ∀ (t : Nat) (r : QRow), (upgma D n)[t]? = some r → 0 ≤ r.num := by
    intro t r h
    rw [(upgma_height_is_average hn h).1]
    exact sumD_nonneg hp _ _
  have hrow : ∀ t row, (toLink (upgma D n))[t]? = some row →
      RowOk n (toLink (upgma D n)) (n + t) row := by
    intro t row h
    rw [toLink_getElem?] at h
    cases hr : (upgma D n)[t]? with
    | none => rw [hr] at h; simp at h
    | some r =>
      rw [hr] at h
      simp only [Option.map_some, Option.some.injEq] at h
      subst h
      obtain ⟨hl, hrt, hne⟩ := upgma_children_lt hr
      have hnn : (0 : Int) ≤ r.num * ((commonDen (upgma D n) / r.den : Nat) : Int) :=
        Int.mul_nonneg (hnum t r hr) (Int.natCast_nonneg _)
      -- height of a child `c < n + t`
      have hchild : ∀ c, c < n + t →
          nodeHeight n (toLink (upgma D n)) c ≤ r.num * ((commonDen (upgma D n) / r.den : Nat) : Int) := by
        intro c hc
        by_cases hcn : c < n
        · rw [nodeHeight_lt _ hcn]; exact hnn
        · rw [nodeHeight_ge _ (by omega)]
          have hlt : t < (upgma D n).length := (List.getElem?_eq_some_iff.1 hr).1
          have hc' : c - n < (upgma D n).length := by omega
          have hr' : (upgma D n)[c - n]? = some (upgma D n)[c - n] := List.getElem?_eq_getElem hc'
          rw [List.getD_eq_getElem?_getD, toLink_getElem?, hr']
          simp only [Option.map_some, Option.getD_some]
          have hmono := upgma_monotone_all hs (show c - n ≤ t by omega) hr' hr
          have d1 := upgma_den_pos _ (List.getElem_mem hc')
          have d2 := upgma_den_pos r (List.mem_of_getElem? hr)
          have v1 := Nat.mul_div_cancel' (den_dvd_commonDen (List.getElem_mem hc'))
          have v2 := Nat.mul_div_cancel' (den_dvd_commonDen (List.mem_of_getElem? hr))
          refine scale_le (L := ((commonDen (upgma D n) : Nat) : Int)) (b := ((upgma D n)[c - n].den : Int))
            (d := (r.den : Int)) (by omega) (by omega) (Int.natCast_nonneg _) ?_ ?_ hmono
          · rw [← Int.natCast_mul, v1]
          · rw [← Int.natCast_mul, v2]
      exact ⟨hl, hrt, hne, hnn, hchild _ hl, hchild _ hrt⟩
  unfold ValidLinkage
  simp only [Bool.and_eq_true, decide_eq_true_eq]
  refine ⟨⟨⟨hn, hlen⟩, rowsOk_of_spec n _ n _ hrow⟩, ?_⟩
  rw [List.isPerm_iff, hlen]
  exact upgma_children_perm hn

/-- U8. Hence the tree built from the UPGMA linkage exists, has exactly the labels `0 … n−1` as leaves,
no negative branch, and all leaves are equidistant from the root (at the height of the last row). -/
theorem upgma_tree_ok {D : List (List Int)} {n : Nat} (hs : SymmD D) (hp : NonnegD D) (hn : 1 ≤ n) :
    ∃ t, linkageToTree n (toLink (upgma D n)) = some t ∧ t.leaves.Perm (List.range n) ∧ t.nonneg = true ∧
      t.FromLink n (toLink (upgma D n)) (n + (toLink (upgma D n)).length - 1) ∧
      t.Ultra (((toLink (upgma D n)).getLast?.map (·.height)).getD 0) ∧
      ∀ p ∈ t.depths, p.2 = ((toLink (upgma D n)).getLast?.map (·.height)).getD 0 := by
  have hv := upgma_valid hs hp hn
  obtain ⟨t, ht, hf⟩ := tree_from_linkage hv
  obtain ⟨t', ht', hu⟩ := tree_ultra hv
  rw [ht] at ht'
  cases ht'
  exact ⟨t, ht, leaves_perm' hv t ht, branch_nonneg' hv t ht, hf, hu, ultrametric' hv t ht⟩

/-- U9. A replayed merge (somebody else's choice, e.g. SciPy's) that `replayStep` accepts is a merge of two
distinct active clusters of minimal average distance. -/
theorem replay_minimal {D : List (List Int)} {s s' : UState} {l r : Nat} (h : replayStep D s l r = some s') :
    ∃ i j, findPos s.act l = some i ∧ findPos s.act r = some j ∧ i ≠ j ∧
      ∀ p q, p < q → q < s.act.length →
        avgLt D (memAt s.act p) (memAt s.act q) (memAt s.act i) (memAt s.act j) = false := by
  obtain ⟨i, j, hi, hj, hne, hmin, _⟩ := replayStep_eq_some h
  exact ⟨i, j, hi, hj, hne, fun p q hpq hq => hmin (p, q) (mem_idxPairs.2 ⟨hpq, hq⟩)⟩

/-- U9b. …and the state it produces: the row names the two clusters, its height is their average distance. -/
theorem replay_row {D : List (List Int)} {s s' : UState} {l r : Nat} (h : replayStep D s l r = some s') :
    ∃ i j, findPos s.act l = some i ∧ findPos s.act r = some j ∧
      s'.rows = s.rows ++ [⟨l, r, sumD D (memAt s.act i) (memAt s.act j),
        (memAt s.act i).length * (memAt s.act j).length⟩] ∧ s'.next = s.next + 1 := by
  obtain ⟨i, j, hi, hj, _, _, rfl⟩ := replayStep_eq_some h
  exact ⟨i, j, hi, hj, rfl, rfl⟩

/-- U9c (stretch 2). If the model meets no tie on `D` (`upgmaTieFree`), then every merge sequence that
`replayRun` accepts — each merge a minimal pair, e.g. SciPy's — yields the model's rows, up to the order
in which a row names its two children.  `SymmD D` is needed (and therefore added as a hypothesis): the
replay may name the pair in the other order and then reads `sumD D B A` instead of `sumD D A B`; see the
counterexample `Dasym2` below. -/
theorem replay_eq_of_tieFree {D : List (List Int)} {n : Nat} {ms : List (Nat × Nat)} {s : UState}
    (hs : SymmD D) (htf : upgmaTieFree D n = true) (hn : 1 ≤ n) (hlen : ms.length = n - 1)
    (h : replayRun D ms (upgmaInit n) = some s) :
    s.rows.map (fun m => (min m.left m.right, max m.left m.right, m.num, m.den)) =
      (upgma D n).map (fun m => (min m.left m.right, max m.left m.right, m.num, m.den)) := by
  have rel := replay_run_rel hs ms 0 (upgmaInit n) (upgmaInit n) s (uinv_init D n hn) (RelS.refl _)
    (by omega) (by rw [hlen]; exact htf) h
  rw [hlen] at rel
  exact rel.rows

/-! ### Non-vacuity of the UPGMA theorems -/

def D4 : List (List Int) := [[0, 2, 6, 10], [2, 0, 5, 9], [6, 5, 0, 4], [10, 9, 4, 0]]

example : upgma D4 4 = [⟨0, 1, 2, 1⟩, ⟨2, 3, 4, 1⟩, ⟨4, 5, 30, 4⟩] := by decide
example : ValidLinkage 4 (toLink (upgma D4 4)) = true := by decide
example : upgmaTieFree D4 4 = true := by decide

theorem D4_symm : SymmD D4 := symmD_of_check (m := 4) (by decide)
theorem D4_nonneg : NonnegD D4 := nonnegD_of_check (m := 4) (by decide)

/-- the hypotheses of U7/U8 are satisfiable: the general theorem applies to `D4` -/
example : ValidLinkage 4 (toLink (upgma D4 4)) = true := upgma_valid D4_symm D4_nonneg (by decide)

example : linkageToTree 4 (toLink (upgma D4 4)) =
    some (.node (.node (.leaf 0 8) (.leaf 1 8) 22) (.node (.leaf 2 16) (.leaf 3 16) 14) 0) := by decide

/-- a replay of the same merges in the other order of naming is accepted, a non-minimal merge is not -/
example : (replayRun D4 [(1, 0), (3, 2), (5, 4)] (upgmaInit 4)).isSome = true := by decide
example : (replayRun D4 [(2, 3)] (upgmaInit 4)).isSome = false := by decide

/-- `SymmD` is needed for U6: an asymmetric matrix whose second merge is lower than its first
(the first step reads `D[0][1] = 5`, the second reads `D[2][0] + D[2][1] = 0`). -/
def Dasym : List (List Int) := [[0, 5, 10], [0, 0, 10], [0, 0, 0]]

example : upgma Dasym 3 = [⟨0, 1, 5, 1⟩, ⟨2, 3, 0, 2⟩] := by decide
example : ¬ ((5 : Int) * ((2 : Nat) : Int) ≤ 0 * ((1 : Nat) : Int)) := by decide
example : ¬ SymmD Dasym := fun h => absurd (h 0 1) (by decide)
example : ValidLinkage 3 (toLink (upgma Dasym 3)) = false := by decide

/-- `SymmD` is needed for `replay_eq_of_tieFree`: on this asymmetric tie-free matrix the replay that names
the only pair as `(1, 0)` is accepted but reads the height `D[1][0] = 1`, the model reads `D[0][1] = 5`. -/
def Dasym2 : List (List Int) := [[0, 5], [1, 0]]

example : upgmaTieFree Dasym2 2 = true ∧ upgma Dasym2 2 = [⟨0, 1, 5, 1⟩] ∧
    (replayRun Dasym2 [(1, 0)] (upgmaInit 2)).map (·.rows) = some [⟨1, 0, 1, 1⟩] := by decide

/-- the replay theorem applies to `D4`: the replay naming every pair in the other order gives the model's rows -/
example : ((replayRun D4 [(1, 0), (3, 2), (5, 4)] (upgmaInit 4)).map
    (fun s => s.rows.map (fun m => (min m.left m.right, max m.left m.right, m.num, m.den)))) =
    some ((upgma D4 4).map (fun m => (min m.left m.right, max m.left m.right, m.num, m.den))) := by decide

end GambitV.C17
