import GambitV.Lemmas.SigFile
import GambitV.Lemmas.Window
import GambitV.Props.C20

/-!
# C12 — a signature file reads back as exactly what was written; foreign files are refused

`Model/SigFile.lean` follows `gambit/sigs/hdf5.py`.  `HDF5Signatures.create` stores the k-mer
parameters, the metadata attributes (`h5py.Empty` for `None`), the ids, and the signatures as one
concatenated `values` dataset with cumulative `bounds` — either by storing a `SignatureArray`'s
arrays as they are (`fast = true`) or by writing each signature into its slice of a zero-filled
dataset.  `HDF5Signatures.__init__` reads them back; `load_signatures_hdf5` refuses anything that
is not an HDF5 file carrying the format marker.

Helper lemmas live in `Lemmas/SigFile.lean`; the decoding of the concatenated representation is
C20's (`ofList_toList`).  Core Lean only.
-/
namespace GambitV.C12
open GambitV

/-! ### 1–2. What the two write paths store -/

/-- 1. `np.cumsum` bounds are the bounds of the concatenated representation. -/
theorem cumBounds_eq (sigs : List (List Nat)) : cumBounds sigs = (Concat.ofList sigs).bounds :=
  cumBounds_eq_ofList sigs

/-- 1b. Closed form: bound `i` is the total length of the first `i` signatures. -/
theorem cumBounds_getD (sigs : List (List Nat)) (i : Nat) (h : i ≤ sigs.length) :
    (cumBounds sigs).getD i 0 = (sigs.take i).flatten.length :=
  GambitV.cumBounds_getD sigs i h

/-- 2. Writing each signature into its slice of the zero-filled dataset yields the concatenation
(empty signatures included: they write an empty slice). -/
theorem writeSlices_eq (sigs : List (List Nat)) : writeSlices sigs = sigs.flatten := by
  rw [writeSlices_eq_foldl, writeSlices_prefix sigs _ sigs.length (Nat.le_refl _),
    List.take_length, cumBounds_getLastD, Nat.sub_self]
  simp

/-! ### 3. The two write paths agree -/

/-- 3. The whole-array path and the per-signature path store the same file contents. -/
theorem write_paths_agree (c : SigCollection) : writeSigs true c = writeSigs false c := by
  unfold writeSigs
  simp only [if_true, Bool.false_eq_true, if_false, writeSlices_eq, cumBounds_eq]
  rfl

/-! ### 4. Round trip -/

/-- 5. Splitting the concatenation at the cumulative bounds recovers the signatures. -/
theorem split_concat (sigs : List (List Nat)) :
    ({ values := sigs.flatten, bounds := cumBounds sigs } : Concat).toList = sigs := by
  rw [cumBounds_eq]
  exact C20.ofList_toList sigs

/-- 4. Reading back what `create` wrote gives the collection that was written: `k`, prefix, ids,
every metadata field (absent ones stay absent), the dtype, and every signature — through either
write path. -/
theorem read_write (fast : Bool) (c : SigCollection) : readSigs (writeSigs fast c) = .loaded c := by
  have h : readSigs (writeSigs true c) = .loaded c := by
    unfold readSigs writeSigs
    simp only [if_true, ne_eq, not_true_eq_false, if_false]
    have : ({ values := (Concat.ofList c.sigs).values, bounds := (Concat.ofList c.sigs).bounds } : Concat).toList
        = c.sigs := C20.ofList_toList c.sigs
    rw [this]
  cases fast
  · rw [← write_paths_agree]; exact h
  · exact h

/-- 4a′. A `SignatureArray` that is a window of a larger values array (`from_arrays`; bounds neither start at 0 nor end at the end of
`values`) is stored as it is — padding and shifted bounds included — and still reads back as exactly the collection written. -/
theorem read_window (c : SigCollection) (padL padR : List Nat) :
    readSigs { writeSigs true c with values := (Concat.window padL padR c.sigs).values,
                                      bounds := (Concat.window padL padR c.sigs).bounds } = .loaded c := by
  unfold readSigs writeSigs
  simp only [ne_eq, not_true_eq_false, if_false]
  have : ({ values := (Concat.window padL padR c.sigs).values, bounds := (Concat.window padL padR c.sigs).bounds } : Concat).toList
      = c.sigs := window_toList padL padR c.sigs
  rw [this]

/-- 4b. Field by field: what is stored. -/
theorem writeSigs_fields (fast : Bool) (c : SigCollection) :
    (writeSigs fast c).marker = some 1 ∧ (writeSigs fast c).k = c.k ∧ (writeSigs fast c).pre = c.pre ∧
      (writeSigs fast c).metaAttrs = c.metaAttrs ∧ (writeSigs fast c).ids = c.ids ∧
      (writeSigs fast c).values = c.sigs.flatten ∧ (writeSigs fast c).bounds = cumBounds c.sigs ∧
      (writeSigs fast c).dtypeBytes = c.dtypeBytes := by
  cases fast
  · exact ⟨rfl, rfl, rfl, rfl, rfl, writeSlices_eq c.sigs, rfl, rfl⟩
  · exact ⟨rfl, rfl, rfl, rfl, rfl, rfl, rfl, rfl⟩

/-- 4c. Signature `i` read from the stored datasets is signature `i` of the collection. -/
theorem stored_get (fast : Bool) (c : SigCollection) (i : Nat) (h : i < c.sigs.length) :
    ({ values := (writeSigs fast c).values, bounds := (writeSigs fast c).bounds } : Concat).get i =
      c.sigs[i] := by
  obtain ⟨_, _, _, _, _, hv, hb, _⟩ := writeSigs_fields fast c
  rw [hv, hb, cumBounds_eq]
  exact C20.ofList_get c.sigs i h

/-- 4d. Writing is injective: different collections give different files. -/
theorem writeSigs_injective (fast : Bool) (c₁ c₂ : SigCollection)
    (h : writeSigs fast c₁ = writeSigs fast c₂) : c₁ = c₂ := by
  have h1 := read_write fast c₁
  rw [h, read_write fast c₂] at h1
  injection h1 with h1
  exact h1.symm

/-! ### 6. Foreign files -/

/-- 6a. A file without the HDF5 magic number is refused with the dedicated error. -/
theorem foreign_refused_notHdf5 : loadFile .notHdf5 = .sigFileError := rfl

/-- 6b. An HDF5 file without the format marker is refused with the dedicated error. -/
theorem foreign_refused_unmarked (root : SigStore) (h : root.marker = none) :
    loadFile (.hdf5 root) = .sigFileError := by
  simp only [loadFile, readSigs, h]

/-- 6. Both together. -/
theorem foreign_refused :
    loadFile .notHdf5 = .sigFileError ∧
      ∀ root : SigStore, root.marker = none → loadFile (.hdf5 root) = .sigFileError :=
  ⟨foreign_refused_notHdf5, foreign_refused_unmarked⟩

/-- 6c. Only an HDF5 file carrying format marker 1 loads. -/
theorem load_only_marked (img : FileImage) (c : SigCollection) (h : loadFile img = .loaded c) :
    ∃ root, img = .hdf5 root ∧ root.marker = some 1 := by
  cases img with
  | notHdf5 => cases h
  | unopenable => cases h
  | hdf5 root =>
    refine ⟨root, rfl, ?_⟩
    simp only [loadFile, readSigs] at h
    cases hm : root.marker with
    | none => rw [hm] at h; cases h
    | some v =>
      rw [hm] at h
      by_cases hv : v = 1
      · rw [hv]
      · simp only [ne_eq, hv, not_false_eq_true, if_true] at h
        cases h

/-- 6d. What loads is determined by the stored datasets. -/
theorem loaded_eq (root : SigStore) (c : SigCollection) (h : loadFile (.hdf5 root) = .loaded c) :
    c.k = root.k ∧ c.pre = root.pre ∧ c.metaAttrs = root.metaAttrs ∧ c.ids = root.ids ∧
      c.dtypeBytes = root.dtypeBytes ∧
      c.sigs = ({ values := root.values, bounds := root.bounds } : Concat).toList := by
  obtain ⟨r, hr, hm⟩ := load_only_marked _ c h
  injection hr with hr
  subst hr
  simp only [loadFile, readSigs, hm, ne_eq, not_true_eq_false, if_false] at h
  injection h with h
  subst h
  exact ⟨rfl, rfl, rfl, rfl, rfl, rfl⟩

/-- 6e. An unknown format version is an error, but not the dedicated one. -/
theorem unknown_version (root : SigStore) (v : Nat) (hm : root.marker = some v) (hv : v ≠ 1) :
    loadFile (.hdf5 root) = .otherError := by
  simp only [loadFile, readSigs, hm, ne_eq, hv, not_false_eq_true, if_true]

/-! ### 7. Non-vacuity -/

section Examples

/-- three signatures, the middle one empty; `name`, `version`, `description` absent -/
private def c3 : SigCollection :=
  { k := 11, pre := [0, 3, 2], metaAttrs := [some "id", none, some "key", none, none, some "{}"],
    ids := ["a", "b", "c"], sigs := [[3, 9, 20], [], [7, 8]], dtypeBytes := 8 }

example : cumBounds c3.sigs = [0, 3, 3, 5] := by decide
example : writeSlices c3.sigs = [3, 9, 20, 7, 8] := by decide
example : (writeSigs true c3).values = [3, 9, 20, 7, 8] ∧ (writeSigs true c3).bounds = [0, 3, 3, 5] := by
  decide
example : (writeSigs false c3).values = [3, 9, 20, 7, 8] ∧ (writeSigs false c3).bounds = [0, 3, 3, 5] := by
  decide
example : readSigs (writeSigs true c3) = .loaded c3 := by decide
example : readSigs (writeSigs false c3) = .loaded c3 := by decide
example : loadFile (.hdf5 (writeSigs false c3)) = .loaded c3 := by decide
-- leading and trailing empty signatures, and no signatures at all
example : writeSlices [[], [4], []] = [4] ∧ cumBounds [[], [4], []] = [0, 0, 1, 1] := by decide
example : ({ values := [4], bounds := [0, 0, 1, 1] } : Concat).toList = [[], [4], []] := by decide
example : writeSlices [] = [] ∧ cumBounds [] = [0] := by decide
-- a marked file of another version, an unmarked HDF5 file, a non-HDF5 file
example : loadFile (.hdf5 { writeSigs true c3 with marker := some 2 }) = .otherError := by decide
example : loadFile (.hdf5 { writeSigs true c3 with marker := none }) = .sigFileError := by decide
example : loadFile .notHdf5 = .sigFileError := by decide

end Examples

end GambitV.C12
