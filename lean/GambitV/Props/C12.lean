import GambitV.Model.SigFile
namespace GambitV.C12
end GambitV.C12
