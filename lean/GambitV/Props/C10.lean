import GambitV.Lemmas.Consensus

/-!
# C10 — strict mode: the consensus of the matched taxa

`consensus_taxon` (after the repair) on root-first paths: the fold over the matched taxa in the order
the code meets them computes the order-free specification `consensusSpec` ("the most specific one if
they lie on a single lineage, otherwise the lowest common ancestor of the most specific ones, and no
taxon if they share no ancestor").  Helper lemmas (the fold invariant) live in `Lemmas/Consensus.lean`.
All theorems quantify over arbitrary lists of non-empty paths; duplicates in `T` are allowed.
-/
namespace GambitV.C10
open GambitV

/-! ### 1. The fold meets the specification -/

/-- 1. The consensus computed by the merge loop is the specified one, whatever the order. -/
theorem consensus_eq_spec (T : List (List Nat)) (hne : ∀ t ∈ T, t ≠ []) :
    (consensusPaths T).1 = consensusSpec T := by
  cases h : (consensusPaths T).1 with
  | some c =>
    obtain ⟨split, hi⟩ := consensusPaths_inv T hne c h
    exact (consensusSpec_of_inv hi).symm
  | none =>
    by_cases hT : T = []
    · subst hT; rfl
    · obtain ⟨a, ha, b, hb, hab⟩ := consensusPaths_none T hne hT h
      exact (consensusSpec_none_of_heads ha hb (hne a ha) (hne b hb) hab).symm

/-! ### 2. Order independence -/

/-- 2. The predicted taxon never depends on the order of the reference genomes. -/
theorem consensus_perm (T₁ T₂ : List (List Nat)) (hne : ∀ t ∈ T₁, t ≠ []) (h : T₁.Perm T₂) :
    (consensusPaths T₁).1 = (consensusPaths T₂).1 := by
  rw [consensus_eq_spec T₁ hne, consensus_eq_spec T₂ (fun t ht => hne t (h.mem_iff.2 ht))]
  exact consensusSpec_congr (fun x => h.mem_iff)

/-- 2'. Stronger: only the *set* of matched taxa matters (multiplicities are irrelevant too). -/
theorem consensus_set (T₁ T₂ : List (List Nat)) (hne : ∀ t ∈ T₁, t ≠ [])
    (h : ∀ x, x ∈ T₁ ↔ x ∈ T₂) : (consensusPaths T₁).1 = (consensusPaths T₂).1 := by
  rw [consensus_eq_spec T₁ hne, consensus_eq_spec T₂ (fun t ht => hne t ((h t).2 ht))]
  exact consensusSpec_congr h

/-- 2b. The taxa named in the warning do not depend on the order either. -/
theorem others_perm (T₁ T₂ : List (List Nat)) (hne : ∀ t ∈ T₁, t ≠ []) (h : T₁.Perm T₂) :
    ∀ x, x ∈ (consensusPaths T₁).2 ↔ x ∈ (consensusPaths T₂).2 := by
  intro x
  rw [consensusPaths_snd T₁, consensusPaths_snd T₂, ← consensus_perm T₁ T₂ hne h]
  cases (consensusPaths T₁).1 with
  | none => exact h.mem_iff
  | some c => simp only [List.mem_filter, h.mem_iff]

/-! ### 4. The prediction is on the lineage of, or above, every matched taxon -/

/-- 4. The predicted taxon is equal to, an ancestor of, or a descendant of every matched taxon. -/
theorem consensus_comparable (T : List (List Nat)) (hne : ∀ t ∈ T, t ≠ []) (c : List Nat) :
    (consensusPaths T).1 = some c → ∀ t ∈ T, isPrefix t c = true ∨ isPrefix c t = true := by
  intro h t ht
  obtain ⟨split, hi⟩ := consensusPaths_inv T hne c h
  rw [isPrefix_iff, isPrefix_iff]
  exact hi.comp t ht

/-- 4b. The prediction is never empty and is an ancestor-or-self of some matched taxon. -/
theorem consensus_above_some (T : List (List Nat)) (hne : ∀ t ∈ T, t ≠ []) (c : List Nat) :
    (consensusPaths T).1 = some c → c ≠ [] ∧ ∃ t ∈ T, isPrefix c t = true := by
  intro h
  obtain ⟨split, hi⟩ := consensusPaths_inv T hne c h
  obtain ⟨t, ht, hct⟩ := hi.below
  exact ⟨hi.ne, t, ht, (isPrefix_iff _ _).2 hct⟩

/-- a matched taxon is not at-or-above the prediction iff it lies strictly below it -/
theorem not_above_iff_below (T : List (List Nat)) (hne : ∀ t ∈ T, t ≠ []) (c : List Nat)
    (h : (consensusPaths T).1 = some c) (t : List Nat) (ht : t ∈ T) :
    (!isPrefix t c) = true ↔ properPrefix c t = true := by
  rw [Bool.not_eq_true', isPrefix_false_iff, properPrefix_iff]
  constructor
  · intro hn
    rcases consensus_comparable T hne c h t ht with h1 | h1
    · exact absurd ((isPrefix_iff _ _).1 h1) hn
    · rw [isPrefix_iff] at h1
      refine ⟨h1, Nat.lt_of_le_of_ne h1.length_le (fun hl => hn ?_)⟩
      rw [h1.eq_of_length hl]
      exact List.prefix_rfl
  · rintro ⟨_, hl⟩ htc
    have := htc.length_le
    omega

/-! ### 5. Failure -/

/-- 5. "Matched taxa have no common ancestor" is raised exactly when two matched taxa lie in
different trees (an empty input never reaches `consensus_taxon`). -/
theorem fail_iff (T : List (List Nat)) (hne : ∀ t ∈ T, t ≠ []) :
    (consensusPaths T).1 = none ↔ T = [] ∨ ∃ s ∈ T, ∃ t ∈ T, s.head? ≠ t.head? := by
  constructor
  · intro h
    by_cases hT : T = []
    · exact Or.inl hT
    · exact Or.inr (consensusPaths_none T hne hT h)
  · rintro (rfl | ⟨s, hs, t, ht, hst⟩)
    · rfl
    · rw [consensus_eq_spec T hne]
      exact consensusSpec_none_of_heads hs ht (hne s hs) (hne t ht) hst

/-! ### 3. The warning list -/

/-- 3. The taxa named in the inconsistency warning are the specified ones. -/
theorem others_eq_spec (T : List (List Nat)) (hne : ∀ t ∈ T, t ≠ []) :
    ∀ x, x ∈ (consensusPaths T).2 ↔ x ∈ othersSpec T := by
  intro x
  unfold othersSpec
  rw [consensusPaths_snd T, ← consensus_eq_spec T hne]
  cases h : (consensusPaths T).1 with
  | none => exact Iff.rfl
  | some c =>
    simp only [List.mem_filter]
    constructor
    · rintro ⟨hx, hp⟩
      exact ⟨hx, (not_above_iff_below T hne c h x hx).1 hp⟩
    · rintro ⟨hx, hp⟩
      exact ⟨hx, (not_above_iff_below T hne c h x hx).2 hp⟩

/-! ### 6. A single lineage -/

/-- 6. All matched taxa on one lineage: the most specific one is predicted, without a warning. -/
theorem chain_case (T : List (List Nat)) (hne : ∀ t ∈ T, t ≠ []) (hT : T ≠ [])
    (hchain : ∀ s ∈ T, ∀ t ∈ T, isPrefix s t = true ∨ isPrefix t s = true) :
    ∃ m ∈ T, (consensusPaths T).1 = some m ∧ (∀ s ∈ T, isPrefix s m = true) ∧
      (consensusPaths T).2 = [] := by
  cases h : (consensusPaths T).1 with
  | none =>
    exfalso
    rcases (fail_iff T hne).1 h with h0 | ⟨s, hs, t, ht, hst⟩
    · exact hT h0
    · apply hst
      rcases hchain s hs t ht with h1 | h1
      · exact (head?_eq_of_prefix ((isPrefix_iff _ _).1 h1) (hne s hs)).symm
      · exact head?_eq_of_prefix ((isPrefix_iff _ _).1 h1) (hne t ht)
  | some c =>
    obtain ⟨split, hi⟩ := consensusPaths_inv T hne c h
    cases hsp : split with
    | true =>
      exfalso
      obtain ⟨s₁, h₁, s₂, h₂, x₁, x₂, hx, ha, hb⟩ := hi.fork hsp
      rcases hchain s₁ h₁ s₂ h₂ with h12 | h12
      · exact fork_absurd hx (ha.trans ((isPrefix_iff _ _).1 h12)) hb
      · exact fork_absurd hx ha (hb.trans ((isPrefix_iff _ _).1 h12))
    | false =>
      obtain ⟨hc, hall⟩ := hi.nosplit hsp
      refine ⟨c, hc, rfl, fun s hs => (isPrefix_iff _ _).2 (hall s hs), ?_⟩
      rw [consensusPaths_snd T, h]
      simp only [List.filter_eq_nil_iff, Bool.not_eq_true', Bool.not_eq_false]
      exact fun s hs => (isPrefix_iff _ _).2 (hall s hs)

/-! ### 7. When the warning is raised -/

/-- 7. With a prediction `c`, the inconsistency warning is raised exactly when some matched taxon
lies strictly below `c`. -/
theorem warning_iff (T : List (List Nat)) (hne : ∀ t ∈ T, t ≠ []) (c : List Nat)
    (h : (consensusPaths T).1 = some c) :
    (consensusPaths T).2 ≠ [] ↔ ∃ t ∈ T, properPrefix c t = true := by
  rw [Ne, consensusPaths_snd T, h]
  simp only [List.filter_eq_nil_iff, Classical.not_forall]
  constructor
  · rintro ⟨t, ht, hp⟩
    exact ⟨t, ht, (not_above_iff_below T hne c h t ht).1 (by simpa using hp)⟩
  · rintro ⟨t, ht, hp⟩
    exact ⟨t, ht, by simpa using (not_above_iff_below T hne c h t ht).2 hp⟩

/-- 7b. Without a prediction every matched taxon is named. -/
theorem others_of_fail (T : List (List Nat)) (h : (consensusPaths T).1 = none) :
    (consensusPaths T).2 = T := by
  rw [consensusPaths_snd T, h]

/-! ### 8. Why the repair was needed -/

/-- 8. The unrepaired loop depends on the order: on three sibling taxa under `0` it predicts
whichever sibling comes last (and never their parent). -/
theorem consensusOld_order_dependent :
    consensusOld [[0, 1], [0, 2], [0, 3]] = some [0, 3] ∧
    consensusOld [[0, 1], [0, 3], [0, 2]] = some [0, 2] ∧
    consensusOld [[0, 2], [0, 3], [0, 1]] = some [0, 1] ∧
    consensusOld [[0, 1], [0, 2], [0, 3]] ≠ consensusOld [[0, 1], [0, 3], [0, 2]] := by
  decide

/-- 8b. The repaired loop gives the parent on all six orders of three siblings. -/
theorem consensusPaths_siblings :
    (consensusPaths [[0, 1], [0, 2], [0, 3]]).1 = some [0] ∧
    (consensusPaths [[0, 1], [0, 3], [0, 2]]).1 = some [0] ∧
    (consensusPaths [[0, 2], [0, 1], [0, 3]]).1 = some [0] ∧
    (consensusPaths [[0, 2], [0, 3], [0, 1]]).1 = some [0] ∧
    (consensusPaths [[0, 3], [0, 1], [0, 2]]).1 = some [0] ∧
    (consensusPaths [[0, 3], [0, 2], [0, 1]]).1 = some [0] := by
  decide

/-! ### 9. The whole strict-mode statement -/

/-- 3'. Stronger form of 3: the two lists are equal (same taxa, same order, same multiplicities). -/
theorem others_eq_spec_list (T : List (List Nat)) (hne : ∀ t ∈ T, t ≠ []) :
    (consensusPaths T).2 = othersSpec T := by
  unfold othersSpec
  rw [consensusPaths_snd T, ← consensus_eq_spec T hne]
  cases h : (consensusPaths T).1 with
  | none => rfl
  | some c =>
    apply List.filter_congr
    intro x hx
    rw [Bool.eq_iff_iff]
    exact not_above_iff_below T hne c h x hx

/-- 9. `classify(…, strict=True)` meets the strict-mode statement `strictOk` on every forest (no
well-formedness assumption on `F` is needed: parent pointers may even be cyclic), every assignment
of genomes to taxa and every non-empty distance list.  (`_hlen` is not used by the proof.) -/
theorem classifyStrict_ok (F : Forest) (gtax ds : List Nat) (h : ds ≠ [])
    (_hlen : gtax.length = ds.length) :
    let r := classifyStrict F gtax ds
    strictOk F gtax ds r.success r.predicted r.primary r.closest r.warnInconsistent r.failed = true := by
  intro r
  obtain ⟨ha1, ha2, _⟩ := argminFirst_getD_spec ds h
  cases hE : (findMatches F gtax ds).isEmpty with
  | true =>
    have hr : r = _ := classifyStrict_empty F gtax ds hE
    have hnil : findMatches F gtax ds = [] := List.isEmpty_iff.1 hE
    have htaxa : [] = dedup ((matchedSpec F gtax ds).filterMap id) := by
      rw [← findMatches_fst, hnil]; rfl
    rw [hr]
    exact strictOk_intro F gtax ds _ _ _ _ _ _ ha1 ha2 [] htaxa none rfl rfl rfl rfl (Or.inr rfl) rfl
  | false =>
    have hr : r = _ := classifyStrict_nonempty F gtax ds hE
    rw [hr]
    have htaxa := findMatches_fst F gtax ds
    have hne := findMatches_path_ne_nil F gtax ds
    have hspec := consensus_eq_spec _ hne
    have hoth := others_eq_spec_list _ hne
    have hnonempty : ((findMatches F gtax ds).map (·.1)).isEmpty = false := by
      cases hm : findMatches F gtax ds with
      | nil => rw [hm] at hE; cases hE
      | cons e l => rfl
    dsimp only
    cases hc : (consensusPaths (((findMatches F gtax ds).map (·.1)).map F.path)).1 with
    | none =>
      refine strictOk_intro F gtax ds _ _ _ _ _ _ ha1 ha2 _ htaxa none (hc ▸ hspec) rfl ?_ rfl
        (Or.inl rfl) rfl
      rw [hnonempty]; rfl
    | some cp =>
      obtain ⟨split, hi⟩ := consensusPaths_inv _ hne cp hc
      obtain ⟨p, hp, hpick, hmin⟩ := pick_spec ds _ (cands_ne_nil F gtax ds cp hi.below)
      obtain ⟨hp1, hp2⟩ := (mem_cands F gtax ds cp p).1 hp
      refine strictOk_intro F gtax ds _ _ _ _ _ _ ha1 ha2 _ htaxa (some cp) (hc ▸ hspec) rfl ?_ rfl
        (Or.inr ?_) ⟨p, hpick, hp1, hp2, ?_⟩
      · simp
      · rw [hoth]
      · intro i hi1 t ht hpre
        exact hmin i ((mem_cands F gtax ds cp i).2 ⟨hi1, t, ht, hpre⟩)

/-! ### Non-vacuity: the hypotheses are satisfiable and every branch of the loop is exercised -/
section Examples

-- the standing hypothesis holds on the examples below
example : ∀ t ∈ [[0, 1], [0, 1, 2], [0]], t ≠ [] := by decide

-- a single lineage (hypotheses of `chain_case`), given out of order: most specific one, no warning
example : ∀ s ∈ [[0, 1], [0, 1, 2], [0]], ∀ t ∈ [[0, 1], [0, 1, 2], [0]],
    isPrefix s t = true ∨ isPrefix t s = true := by decide
example : consensusPaths [[0, 1], [0, 1, 2], [0]] = (some [0, 1, 2], []) := by decide
example : consensusSpec [[0, 1], [0, 1, 2], [0]] = some [0, 1, 2] := by decide

-- a fork below the root, then a descendant of one branch and an ancestor of the fork:
-- every succeeding branch of `consensusStep` is taken; the warning names the taxa below the fork
example : consensusPaths [[0, 1, 2], [0, 1, 3], [0, 1, 3, 4], [0]] =
    (some [0, 1], [[0, 1, 2], [0, 1, 3], [0, 1, 3, 4]]) := by decide
example : consensusSpec [[0, 1, 2], [0, 1, 3], [0, 1, 3, 4], [0]] = some [0, 1] := by decide
example : othersSpec [[0, 1, 2], [0, 1, 3], [0, 1, 3, 4], [0]] =
    [[0, 1, 2], [0, 1, 3], [0, 1, 3, 4]] := by decide
example : maximalPaths [[0, 1, 2], [0, 1, 3], [0, 1, 3, 4], [0]] = [[0, 1, 2], [0, 1, 3, 4]] := by decide
-- the same set in another order (hypothesis of `consensus_perm`), with a duplicate for `consensus_set`
example : [[0, 1, 2], [0, 1, 3], [0, 1, 3, 4], [0]].Perm [[0], [0, 1, 3, 4], [0, 1, 2], [0, 1, 3]] := by
  decide
example : (consensusPaths [[0], [0, 1, 3, 4], [0, 1, 2], [0, 1, 3]]).1 = some [0, 1] := by decide
example : (consensusPaths [[0], [0, 1, 3, 4], [0], [0, 1, 2], [0, 1, 3], [0, 1, 2]]).1 = some [0, 1] := by
  decide
-- `warning_iff`: both sides hold here, and both fail on the single lineage above
example : ∃ t ∈ [[0, 1, 2], [0, 1, 3], [0, 1, 3, 4], [0]], properPrefix [0, 1] t = true := by decide
example : ¬ ∃ t ∈ [[0, 1], [0, 1, 2], [0]], properPrefix [0, 1, 2] t = true := by decide

-- failure: taxa in two trees (right-hand side of `fail_iff`), everything is named
example : ∃ s ∈ [[0, 1], [0, 2], [5, 6]], ∃ t ∈ [[0, 1], [0, 2], [5, 6]], s.head? ≠ t.head? := by decide
example : consensusPaths [[0, 1], [0, 2], [5, 6]] = (none, [[0, 1], [0, 2], [5, 6]]) := by decide
example : consensusSpec [[0, 1], [0, 2], [5, 6]] = none := by decide
-- success: all roots agree
example : ¬ ∃ s ∈ [[0, 1], [0, 2]], ∃ t ∈ [[0, 1], [0, 2]], s.head? ≠ t.head? := by decide

-- the hypothesis `hne` is needed: with an empty path the loop and the specification part ways
example : (consensusPaths [[], [0]]).1 = none ∧ consensusSpec [[], [0]] = some [0] := by decide

-- strict mode end to end: trees `0 → 1 → {2, 3}` and `4`; genomes of taxa 2, 3, 4 at distances
-- 5, 7, 200: the first two match their own species, the third matches nothing; prediction = node 1,
-- warning names 2 and 3, primary match = genome 0 (hypotheses of `classifyStrict_ok` hold)
def exF : Forest :=
  { parent := [none, some 0, some 1, some 1, none],
    thr := [some 100, some 50, some 10, some 10, some 10],
    report := [true, true, true, true, true] }
example : [5, 7, 200] ≠ [] ∧ [2, 3, 4].length = [5, 7, 200].length := by decide
example : findMatches exF [2, 3, 4] [5, 7, 200] = [(2, [0]), (3, [1])] := by decide
example : classifyStrict exF [2, 3, 4] [5, 7, 200] =
    { success := true, predicted := some 1, primary := some 0, closest := 0, next := none,
      warnInconsistent := [2, 3], warnNotClosest := false, failed := false } := by decide
example : strictOk exF [2, 3, 4] [5, 7, 200] true (some 1) (some 0) 0 [2, 3] false = true := by decide
-- `strictOk` is not trivially true: a wrong prediction or a wrong primary match is rejected
example : strictOk exF [2, 3, 4] [5, 7, 200] true (some 2) (some 0) 0 [2, 3] false = false := by decide
example : strictOk exF [2, 3, 4] [5, 7, 200] true (some 1) (some 1) 0 [2, 3] false = false := by decide
-- two trees matched: failure
example : classifyStrict exF [2, 4] [5, 7] =
    { success := false, predicted := none, primary := none, closest := 0, next := none,
      warnInconsistent := [2, 4], warnNotClosest := false, failed := true } := by decide
-- nothing matched
example : (classifyStrict exF [2, 4] [500, 700]).predicted = none ∧
    (classifyStrict exF [2, 4] [500, 700]).success = true := by decide

end Examples

end GambitV.C10
