import GambitV.Spec.Taxonomy
namespace GambitV.C10
end GambitV.C10
