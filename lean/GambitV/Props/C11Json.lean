import GambitV.Model.JsonResults
import GambitV.Lemmas.JsonEnc

/-!
C11, JSON side: the encoder of `Model/Json.lean`, run with the conversion rules of the two exporters of `results.py`, writes exactly the
documented JSON of `Model/JsonResults.lean` for the result objects; the documented JSON is a faithful image of what the statement asks
of it; the archive format keeps the keys of the database objects and nothing else of them.  Helper lemmas: `Lemmas/JsonEnc.lean`.
-/
namespace GambitV.Json

/-! ### `JSONResultsExporter`: the encoder run with the exporter's rules writes the documented JSON -/

theorem encode_json_taxon (n : Nat) (t : JTaxon) : encode jsonExporter (n + 1) t.toPVal = some (taxonJson t) := by
  rw [JTaxon.toPVal_eq, encode_inst, ← JTaxon.toPVal_eq, toJson_json_taxon]
  simp [JTaxon.columns_eq, taxonJson_eq, encode, encodeFields, encode_optInt, encode_optStr, encode_optFloat]

theorem encode_json_optTaxon (n : Nat) (t : Option JTaxon) : encode jsonExporter (n + 1) (optTaxon t) = some (optTaxonJson t) := by
  cases t with
  | none => simp [optTaxon, optTaxonJson, encode]
  | some t => simp [optTaxon, optTaxonJson, encode_json_taxon]

theorem encode_json_genome (n : Nat) (g : JGenome) : encode jsonExporter (n + 2) g.toPVal = some (genomeJson g) := by
  rw [JGenome.toPVal_eq, encode_inst, ← JGenome.toPVal_eq, toJson_json_genome]
  simp [genomeJson_eq, encode, encodeFields, encode_optInt, encode_optStr,
    encodeList_map jsonExporter (n + 1) JTaxon.toPVal taxonJson (encode_json_taxon n)]

theorem encode_json_match (n : Nat) (m : JMatch) : encode jsonExporter (n + 3) m.toPVal = some (matchJson m) := by
  rw [JMatch.toPVal_eq, encode_inst, ← JMatch.toPVal_eq, toJson_json_match]
  simp [JMatch.unst, matchJson_eq, encode, encodeFields, encode_json_genome n m.genome, encode_json_optTaxon (n + 1) m.matched]

private theorem encode_json_input (n : Nat) (it : JItem) : encode jsonExporter (n + 2) it.inputPVal = some (inputJson it) := by
  rw [JItem.inputPVal_eq, encode_inst, ← JItem.inputPVal_eq, toJson_json_input]
  cases h : it.file with
  | none => simp [inputJson_eq, h, encode, encodeFields]
  | some f => simp [inputJson_eq, h, encode, encodeFields, encode_hooked]

/-- one query's element: label / path / format of the input, reported taxon, next taxon, closest genomes in order -/
theorem json_item (n : Nat) (it : JItem) : encode jsonExporter (n + 4) it.toPVal = some (itemJson it) := by
  rw [JItem.toPVal_eq, encode_inst, ← JItem.toPVal_eq, toJson_json_item]
  simp [itemJson_eq, encode, encodeFields, encode_json_input (n + 1) it, encode_json_optTaxon (n + 2),
    encodeList_map jsonExporter (n + 3) JMatch.toPVal matchJson (encode_json_match n)]

theorem json_item_default (it : JItem) : encode jsonExporter defaultFuel it.toPVal = some (itemJson it) :=
  json_item 20 it

/-- the whole export: `items` has one element per query, in order, each the documented image; `params` is omitted; the other
attributes of the results object are written under their own names -/
theorem json_results (n : Nat) (items : List JItem) (p : PVal) (rest : List (List Char × PVal)) (restJ : List (List Char × Json))
    (hrest : ∀ kv ∈ rest, kv.1 ≠ "params".toList)
    (henc : encodeFields jsonExporter (n + 5) rest = some restJ) :
    encode jsonExporter (n + 6) (.inst "QueryResults".toList true (("items".toList, .list (items.map JItem.toPVal)) :: ("params".toList, p) :: rest))
      = some (.obj (("items".toList, .arr (items.map itemJson)) :: restJ)) := by
  have hf : rest.filter (fun kv => !(["params".toList].contains kv.1)) = rest := by
    rw [List.filter_eq_self]
    intro kv hkv
    have := hrest kv hkv
    simpa using this
  have ht : toJson jsonExporter (.inst "QueryResults".toList true
        (("items".toList, .list (items.map JItem.toPVal)) :: ("params".toList, p) :: rest))
      = some (.dict (("items".toList, .list (items.map JItem.toPVal)) :: rest)) := by
    have h1 : lookup "QueryResults".toList jsonExporter = some (.asdictExcept ["params".toList]) := by
      simp [jsonExporter_eq, lookup]
    have h2 : (["params".toList].contains "items".toList) = false := by simp
    have h3 : (["params".toList].contains "params".toList) = true := by simp
    simp only [toJson, h1, if_true, List.filter_cons, h2, h3, hf, Bool.not_false, Bool.not_true, Bool.false_eq_true, if_false]
  rw [encode_inst, ht]
  simp [encode, encodeFields, henc, encodeList_map jsonExporter (n + 5) JItem.toPVal itemJson (json_item (n + 1))]

/-- what the statement asks of the JSON export: label, reported taxon, next taxon and closest-genome data can be read off it -/
theorem json_projection (it : JItem) :
    (itemJson it).path? ["query".toList, "name".toList] = some (.str it.label)
    ∧ (itemJson it).get? "predicted_taxon".toList = some (optTaxonJson it.report)
    ∧ (itemJson it).get? "next_taxon".toList = some (optTaxonJson it.next)
    ∧ (itemJson it).get? "closest_genomes".toList = some (.arr (it.closest.map matchJson)) := by
  simp [itemJson_eq, inputJson_eq, Json.path?, Json.get?, lookup]

theorem taxonJson_injective : Function.Injective taxonJson := fun _ _ h => taxonJson_inj.mp h

theorem optTaxonJson_injective : Function.Injective optTaxonJson := fun _ _ h => optTaxonJson_inj.mp h

/-- a closest-genome entry determines the genome's identifiers and description, its lineage, the distance (to the last bit) and the matched taxon -/
theorem matchJson_faithful (a b : JMatch) (h : matchJson a = matchJson b) :
    a.genome.key = b.genome.key ∧ a.genome.description = b.genome.description ∧ a.genome.genomeId = b.genome.genomeId
    ∧ a.genome.taxonomy = b.genome.taxonomy ∧ a.distance = b.distance ∧ a.matched = b.matched := by
  simp only [matchJson_eq, genomeJson_eq, Json.obj.injEq, Json.arr.injEq, List.cons.injEq, Prod.mk.injEq, Json.str.injEq, Json.int.injEq,
    Json.float.injEq, jStr_inj, jInt_inj, optTaxonJson_inj, List.map_inj_right (fun x y (h : taxonJson x = taxonJson y) => taxonJson_inj.mp h),
    true_and, and_true] at h
  simp [h]

/-- faithful image: two items with the same JSON agree on label, reported taxon, next taxon and the closest-genome entries -/
theorem itemJson_faithful (a b : JItem) (h : itemJson a = itemJson b) :
    a.label = b.label ∧ a.report = b.report ∧ a.next = b.next ∧ a.closest.map matchJson = b.closest.map matchJson := by
  simp only [itemJson_eq, inputJson_eq, Json.obj.injEq, Json.arr.injEq, List.cons.injEq, Prod.mk.injEq, Json.str.injEq, optTaxonJson_inj,
    true_and, and_true] at h
  simp [h]

/-- an object of a class the exporter has no rule for, and that is not an `attrs` class, is never written silently: the dump raises -/
theorem encode_unknown_raises (ex : Exporter) (n : Nat) (cls : List Char) (attrs : List (List Char × PVal)) (h : lookup cls ex = none) :
    encode ex n (.inst cls false attrs) = none := by
  cases n with
  | zero => simp [encode]
  | succ n => simp [encode_inst, toJson, h]

/-! ### `ResultsArchiveWriter`: keys only -/

theorem archive_match (n : Nat) (m : JMatch) : encode archiveExporter (n + 2) m.toPVal = some (archiveMatchJson m) := by
  have ht : toJson archiveExporter m.toPVal = some m.unst := by
    rw [← unstructure_match]
    simp [JMatch.toPVal_eq, toJson, archiveExporter_eq, lookup]
  rw [JMatch.toPVal_eq, encode_inst, ← JMatch.toPVal_eq, ht]
  exact encode_archive_match_unst n m

theorem archive_item (n : Nat) (it : JItem) : encode archiveExporter (n + 4) it.toPVal = some (archiveItemJson it) := by
  rw [JItem.toPVal_eq, encode_inst, ← JItem.toPVal_eq, toJson_archive_item]
  simp [JItem.unst, archiveItemJson_eq, encode, encodeFields, encode_archive_optFile_unst, encode_archive_optTaxon (n + 2),
    encode_archive_optMatch_unst (n + 2), encode_archive_match_unst (n + 2), encode_optStr,
    encodeList_map archiveExporter (n + 3) JMatch.unst archiveMatchJson (encode_archive_match_unst (n + 2)),
    encodeList_map archiveExporter (n + 3) PVal.str Json.str (fun s => by simp [encode])]

theorem archive_item_default (it : JItem) : encode archiveExporter defaultFuel it.toPVal = some (archiveItemJson it) :=
  archive_item 20 it

/-- the archive keeps of the database objects their keys and nothing else … -/
theorem archive_keys_only (a b : JItem) (h : a.keys = b.keys) : archiveItemJson a = archiveItemJson b := by
  rw [archiveItemJson_keys, archiveItemJson_keys, h]

/-- … and loses nothing of the keys, distances (bit patterns), warnings, error, success flag, label and file -/
theorem archive_faithful (a b : JItem) (h : archiveItemJson a = archiveItemJson b) : a.keys = b.keys := by
  rw [archiveItemJson_keys, archiveItemJson_keys] at h
  exact itemKeysJson_inj.mp h

end GambitV.Json
