import GambitV.Model.Jaccard
namespace GambitV.C15
end GambitV.C15
