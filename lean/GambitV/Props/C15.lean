import GambitV.Lemmas.Jaccard
import GambitV.Lemmas.F32
import GambitV.Props.C02
import Mathlib.Data.List.Sort
import Mathlib.Algebra.Order.Field.Rat
import Mathlib.Algebra.Order.Field.Basic
import Mathlib.Data.Nat.Cast.Order.Ring
import Mathlib.Tactic.Linarith
import Mathlib.Tactic.Positivity
import Mathlib.Tactic.Ring

/-!
# C15 — the Jaccard distance is a metric on finite sets, and adding a common element shrinks it

Part A: the exact distance `|A ∆ B| / |A ∪ B|` (with `0/0 := 0`) on `Finset ℕ`, in `ℚ`.
-/
namespace GambitV.C15
open GambitV

/-- Exact Jaccard distance. -/
def dist (A B : Finset ℕ) : ℚ :=
  if (A ∪ B).card = 0 then 0 else ((symmDiff A B).card : ℚ) / ((A ∪ B).card : ℚ)

theorem symmDiff_subset_union (A B : Finset ℕ) : symmDiff A B ⊆ A ∪ B := by
  intro x hx
  simp only [Finset.mem_symmDiff, Finset.mem_union] at hx ⊢
  tauto

theorem card_symmDiff_le (A B : Finset ℕ) : (symmDiff A B).card ≤ (A ∪ B).card :=
  Finset.card_le_card (symmDiff_subset_union A B)

theorem card_symmDiff_add_inter (A B : Finset ℕ) :
    (symmDiff A B).card + (A ∩ B).card = (A ∪ B).card := by
  have h1 := card_symmDiff_add A B
  have h2 := Finset.card_union_add_card_inter A B
  omega

theorem dist_of_pos {A B : Finset ℕ} (h : (A ∪ B).card ≠ 0) :
    dist A B = ((symmDiff A B).card : ℚ) / ((A ∪ B).card : ℚ) := by
  simp [dist, h]

theorem dist_of_zero {A B : Finset ℕ} (h : (A ∪ B).card = 0) : dist A B = 0 := by
  simp [dist, h]

/-- B1. -/
theorem dist_mem_unit (A B : Finset ℕ) : 0 ≤ dist A B ∧ dist A B ≤ 1 := by
  by_cases h : (A ∪ B).card = 0
  · rw [dist_of_zero h]; exact ⟨le_refl _, zero_le_one⟩
  · rw [dist_of_pos h]
    have hpos : (0 : ℚ) < ((A ∪ B).card : ℚ) := by exact_mod_cast Nat.pos_of_ne_zero h
    refine ⟨div_nonneg (Nat.cast_nonneg _) (le_of_lt hpos), ?_⟩
    rw [div_le_one hpos]
    exact_mod_cast card_symmDiff_le A B

/-- B2. -/
theorem dist_eq_zero_iff (A B : Finset ℕ) : dist A B = 0 ↔ A = B := by
  by_cases h : (A ∪ B).card = 0
  · rw [dist_of_zero h]
    have hu : A ∪ B = ∅ := Finset.card_eq_zero.mp h
    have hA : A = ∅ := (Finset.union_eq_empty.mp hu).1
    have hB : B = ∅ := (Finset.union_eq_empty.mp hu).2
    simp [hA, hB]
  · rw [dist_of_pos h]
    have hpos : ((A ∪ B).card : ℚ) ≠ 0 := by exact_mod_cast h
    rw [div_eq_zero_iff]
    constructor
    · rintro (h0 | h0)
      · have : (symmDiff A B).card = 0 := by exact_mod_cast h0
        exact symmDiff_eq_bot.mp (Finset.card_eq_zero.mp this)
      · exact absurd h0 hpos
    · rintro rfl
      left; simp

/-- B3. -/
theorem dist_eq_one_iff (A B : Finset ℕ) :
    dist A B = 1 ↔ (Disjoint A B ∧ (A ∪ B).Nonempty) := by
  by_cases h : (A ∪ B).card = 0
  · rw [dist_of_zero h]
    have hu : A ∪ B = ∅ := Finset.card_eq_zero.mp h
    constructor
    · intro h01; exact absurd h01 zero_ne_one
    · rintro ⟨_, hne⟩; rw [hu] at hne; exact absurd hne Finset.not_nonempty_empty
  · rw [dist_of_pos h]
    have hpos : ((A ∪ B).card : ℚ) ≠ 0 := by exact_mod_cast h
    have hne : (A ∪ B).Nonempty := Finset.card_pos.mp (Nat.pos_of_ne_zero h)
    rw [div_eq_one_iff_eq hpos]
    have hk := card_symmDiff_add_inter A B
    constructor
    · intro he
      have he' : (symmDiff A B).card = (A ∪ B).card := by exact_mod_cast he
      have hi : (A ∩ B).card = 0 := by omega
      exact ⟨Finset.disjoint_iff_inter_eq_empty.mpr (Finset.card_eq_zero.mp hi), hne⟩
    · rintro ⟨hd, _⟩
      have hi : (A ∩ B).card = 0 :=
        Finset.card_eq_zero.mpr (Finset.disjoint_iff_inter_eq_empty.mp hd)
      have : (symmDiff A B).card = (A ∪ B).card := by omega
      exact_mod_cast this

/-- B4. -/
theorem dist_symm (A B : Finset ℕ) : dist A B = dist B A := by
  unfold dist
  rw [symmDiff_comm A B, Finset.union_comm A B]

/-! ### Triangle inequality -/

/-- Key counting fact: `|A ∆ C| + |B \ (A ∪ C)| ≤ |A ∆ B| + |B ∆ C|`. -/
theorem card_symmDiff_add_sdiff_le (A B C : Finset ℕ) :
    (symmDiff A C).card + (B \ (A ∪ C)).card ≤ (symmDiff A B).card + (symmDiff B C).card := by
  have hdisj : Disjoint (symmDiff A C) (B \ (A ∪ C)) := by
    rw [Finset.disjoint_left]
    intro x hx hx'
    simp only [Finset.mem_symmDiff, Finset.mem_sdiff, Finset.mem_union] at hx hx'
    tauto
  rw [← Finset.card_union_of_disjoint hdisj]
  refine le_trans (Finset.card_le_card ?_) (Finset.card_union_le _ _)
  intro x hx
  simp only [Finset.mem_symmDiff, Finset.mem_sdiff, Finset.mem_union] at hx ⊢
  tauto

theorem card_union_add_sdiff (A B C : Finset ℕ) :
    (A ∪ C).card + (B \ (A ∪ C)).card = (A ∪ B ∪ C).card := by
  have hdisj : Disjoint (A ∪ C) (B \ (A ∪ C)) := Finset.disjoint_sdiff
  rw [← Finset.card_union_of_disjoint hdisj]
  congr 1
  ext x
  simp only [Finset.mem_sdiff, Finset.mem_union]
  tauto

/-- Pure arithmetic core of the triangle inequality. -/
theorem triangle_arith {x y r p q u v : ℚ} (_hx : 0 ≤ x) (hxy : x ≤ y) (hy : 0 < y) (hr : 0 ≤ r)
    (hp : 0 ≤ p) (hq : 0 ≤ q) (hu : 0 < u) (hv : 0 < v)
    (huU : u ≤ y + r) (hvU : v ≤ y + r) (hsum : x + r ≤ p + q) :
    x / y ≤ p / u + q / v := by
  have hU : 0 < y + r := by linarith
  have h1 : x / y ≤ (x + r) / (y + r) := by
    rw [div_le_div_iff₀ hy hU]
    nlinarith
  have h2 : (x + r) / (y + r) ≤ (p + q) / (y + r) := by
    exact div_le_div_of_nonneg_right hsum (le_of_lt hU)
  have h3 : p / (y + r) ≤ p / u := div_le_div_of_nonneg_left hp hu huU
  have h4 : q / (y + r) ≤ q / v := div_le_div_of_nonneg_left hq hv hvU
  have h5 : (p + q) / (y + r) = p / (y + r) + q / (y + r) := add_div _ _ _
  linarith

/-- B5. The Jaccard distance satisfies the triangle inequality. -/
theorem dist_triangle (A B C : Finset ℕ) : dist A C ≤ dist A B + dist B C := by
  by_cases hAC : (A ∪ C).card = 0
  · rw [dist_of_zero hAC]
    exact add_nonneg (dist_mem_unit A B).1 (dist_mem_unit B C).1
  by_cases hAB : (A ∪ B).card = 0
  · have hu : A ∪ B = ∅ := Finset.card_eq_zero.mp hAB
    have hA : A = ∅ := (Finset.union_eq_empty.mp hu).1
    have hB : B = ∅ := (Finset.union_eq_empty.mp hu).2
    subst hA; subst hB
    have := (dist_mem_unit ∅ ∅).1
    linarith
  by_cases hBC : (B ∪ C).card = 0
  · have hu : B ∪ C = ∅ := Finset.card_eq_zero.mp hBC
    have hB : B = ∅ := (Finset.union_eq_empty.mp hu).1
    have hC : C = ∅ := (Finset.union_eq_empty.mp hu).2
    subst hB; subst hC
    have := (dist_mem_unit ∅ ∅).1
    linarith
  rw [dist_of_pos hAC, dist_of_pos hAB, dist_of_pos hBC]
  have k1 := card_symmDiff_add_sdiff_le A B C
  have k2 := card_union_add_sdiff A B C
  have k3 : (A ∪ B).card ≤ (A ∪ B ∪ C).card :=
    Finset.card_le_card Finset.subset_union_left
  have k4 : (B ∪ C).card ≤ (A ∪ B ∪ C).card := by
    apply Finset.card_le_card
    intro x hx
    simp only [Finset.mem_union] at hx ⊢
    tauto
  have k5 := card_symmDiff_le A C
  apply triangle_arith (r := ((B \ (A ∪ C)).card : ℚ))
  · exact Nat.cast_nonneg _
  · exact_mod_cast k5
  · exact_mod_cast Nat.pos_of_ne_zero hAC
  · exact Nat.cast_nonneg _
  · exact Nat.cast_nonneg _
  · exact Nat.cast_nonneg _
  · exact_mod_cast Nat.pos_of_ne_zero hAB
  · exact_mod_cast Nat.pos_of_ne_zero hBC
  · have : (A ∪ B).card ≤ (A ∪ C).card + (B \ (A ∪ C)).card := by omega
    exact_mod_cast this
  · have : (B ∪ C).card ≤ (A ∪ C).card + (B \ (A ∪ C)).card := by omega
    exact_mod_cast this
  · exact_mod_cast k1

/-! ### Adding a common element -/

theorem symmDiff_insert_insert {x : ℕ} {A B : Finset ℕ} (hxA : x ∉ A) (hxB : x ∉ B) :
    symmDiff (insert x A) (insert x B) = symmDiff A B := by
  ext y
  simp only [Finset.mem_symmDiff, Finset.mem_insert]
  by_cases hy : y = x
  · subst hy; tauto
  · tauto

theorem union_insert_insert (x : ℕ) (A B : Finset ℕ) :
    insert x A ∪ insert x B = insert x (A ∪ B) := by
  ext y
  simp only [Finset.mem_union, Finset.mem_insert]
  tauto

/-- B6. Adding a common new element strictly decreases the distance of two different sets. -/
theorem dist_add_common_lt {x : ℕ} {A B : Finset ℕ} (hxA : x ∉ A) (hxB : x ∉ B) (hne : A ≠ B) :
    dist (insert x A) (insert x B) < dist A B := by
  have hu : (A ∪ B).card ≠ 0 := by
    intro h
    have hu : A ∪ B = ∅ := Finset.card_eq_zero.mp h
    exact hne (((Finset.union_eq_empty.mp hu).1).trans ((Finset.union_eq_empty.mp hu).2).symm)
  have hxU : x ∉ A ∪ B := by simp [hxA, hxB]
  have hcard : (insert x A ∪ insert x B).card = (A ∪ B).card + 1 := by
    rw [union_insert_insert, Finset.card_insert_of_notMem hxU]
  have hu' : (insert x A ∪ insert x B).card ≠ 0 := by omega
  rw [dist_of_pos hu, dist_of_pos hu', symmDiff_insert_insert hxA hxB, hcard]
  have hs : 0 < (symmDiff A B).card := by
    apply Nat.pos_of_ne_zero
    intro h0
    exact hne (symmDiff_eq_bot.mp (Finset.card_eq_zero.mp h0))
  have hsq : (0 : ℚ) < ((symmDiff A B).card : ℚ) := by exact_mod_cast hs
  have huq : (0 : ℚ) < ((A ∪ B).card : ℚ) := by exact_mod_cast Nat.pos_of_ne_zero hu
  push_cast
  exact div_lt_div_of_pos_left hsq huq (by linarith)

theorem dist_add_common_eq (x : ℕ) (A : Finset ℕ) : dist (insert x A) (insert x A) = 0 :=
  (dist_eq_zero_iff _ _).mpr rfl

/-! ## Part B: the same facts for the binary32 value actually returned -/

/-- Specification bits for two finite sets. -/
def specBits (A B : Finset ℕ) : UInt32 :=
  jaccardSpecBits (symmDiff A B).card (A ∪ B).card

/-- F5 restated: the kernel returns `specBits` of the two coordinate sets. -/
theorem jaccardBits_eq_specBits {a b : List ℕ} (ha : a.Pairwise (· < ·)) (hb : b.Pairwise (· < ·))
    (hu : unionCount a b < 2 ^ 24) : jaccardBits a b = specBits a.toFinset b.toFinset :=
  C02.jaccard_correctly_rounded ha hb hu

theorem specBits_of_zero {A B : Finset ℕ} (h : (A ∪ B).card = 0) : specBits A B = 0 := by
  simp [specBits, jaccardSpecBits, h, F32.zeroBits]

theorem specBits_of_pos {A B : Finset ℕ} (h : (A ∪ B).card ≠ 0) :
    specBits A B = F32.roundRat (symmDiff A B).card (A ∪ B).card := by
  simp [specBits, jaccardSpecBits, h]

/-- F6. The returned bits are `+0.0` exactly for equal sets. -/
theorem specBits_zero_iff (A B : Finset ℕ) (hu : (A ∪ B).card < 2 ^ 24) :
    specBits A B = 0 ↔ A = B := by
  by_cases h : (A ∪ B).card = 0
  · rw [specBits_of_zero h]
    have hu : A ∪ B = ∅ := Finset.card_eq_zero.mp h
    have hA : A = ∅ := (Finset.union_eq_empty.mp hu).1
    have hB : B = ∅ := (Finset.union_eq_empty.mp hu).2
    simp [hA, hB]
  · have hle := card_symmDiff_le A B
    rw [specBits_of_pos h, F32.roundRat_eq_zero_iff (Nat.pos_of_ne_zero h) (by omega) hu,
      Finset.card_eq_zero]
    exact symmDiff_eq_bot

/-- F6. The returned bits are `1.0` exactly for disjoint sets that are not both empty. -/
theorem specBits_one_iff (A B : Finset ℕ) (hu : (A ∪ B).card < 2 ^ 24) :
    specBits A B = F32.oneBits ↔ (Disjoint A B ∧ (A ∪ B).Nonempty) := by
  have hk := card_symmDiff_add_inter A B
  have hdisj : Disjoint A B ↔ (A ∩ B).card = 0 := by
    rw [Finset.card_eq_zero]; exact Finset.disjoint_iff_inter_eq_empty
  by_cases h : (A ∪ B).card = 0
  · rw [specBits_of_zero h]
    have hu : A ∪ B = ∅ := Finset.card_eq_zero.mp h
    constructor
    · intro h01; exact absurd h01 (by decide)
    · rintro ⟨_, hne⟩; rw [hu] at hne; exact absurd hne Finset.not_nonempty_empty
  · have hne : (A ∪ B).Nonempty := Finset.card_pos.mp (Nat.pos_of_ne_zero h)
    rw [specBits_of_pos h, hdisj]
    by_cases h0 : (symmDiff A B).card = 0
    · rw [h0, F32.roundRat_zero_left]
      constructor
      · intro h01; exact absurd h01 (by decide)
      · rintro ⟨hi, _⟩; omega
    · rw [F32.roundRat_eq_one_iff (Nat.pos_of_ne_zero h0) (card_symmDiff_le A B) hu]
      constructor
      · intro he; exact ⟨by omega, hne⟩
      · rintro ⟨hi, _⟩; omega

/-- F7. The returned value is within `2^-25` of the exact distance. -/
theorem specBits_err (A B : Finset ℕ) (hu : (A ∪ B).card < 2 ^ 24) :
    |F32.val (specBits A B) - dist A B| ≤ 1 / 2 ^ 25 := by
  by_cases h : (A ∪ B).card = 0
  · rw [specBits_of_zero h, dist_of_zero h, F32.val_zero, sub_self, abs_zero]; positivity
  · rw [specBits_of_pos h, dist_of_pos h]
    by_cases h0 : (symmDiff A B).card = 0
    · rw [h0, F32.roundRat_zero_left, F32.val_zero]
      simp
    · exact F32.roundRat_err_unit (Nat.pos_of_ne_zero h0) (card_symmDiff_le A B) hu

/-- The returned value lies in `[0, 1]`. -/
theorem specBits_val_mem_unit (A B : Finset ℕ) (hu : (A ∪ B).card < 2 ^ 24) :
    0 ≤ F32.val (specBits A B) ∧ F32.val (specBits A B) ≤ 1 := by
  by_cases h : (A ∪ B).card = 0
  · rw [specBits_of_zero h, F32.val_zero]; exact ⟨le_refl _, zero_le_one⟩
  · rw [specBits_of_pos h]
    by_cases h0 : (symmDiff A B).card = 0
    · rw [h0, F32.roundRat_zero_left, F32.val_zero]; exact ⟨le_refl _, zero_le_one⟩
    · have hle := card_symmDiff_le A B
      exact ⟨le_of_lt (F32.val_roundRat_pos (Nat.pos_of_ne_zero h0) (Nat.pos_of_ne_zero h)
        (by omega) hu), F32.val_roundRat_le_one (Nat.pos_of_ne_zero h0) hle hu⟩

/-- F7 (sets). Triangle inequality for the rounded values, up to three rounding errors. -/
theorem specBits_triangle (A B C : Finset ℕ) (hAC : (A ∪ C).card < 2 ^ 24)
    (hAB : (A ∪ B).card < 2 ^ 24) (hBC : (B ∪ C).card < 2 ^ 24) :
    F32.val (specBits A C) ≤ F32.val (specBits A B) + F32.val (specBits B C) + 3 / 2 ^ 25 := by
  have e1 := abs_le.mp (specBits_err A C hAC)
  have e2 := abs_le.mp (specBits_err A B hAB)
  have e3 := abs_le.mp (specBits_err B C hBC)
  have ht := dist_triangle A B C
  linarith [e1.1, e1.2, e2.1, e2.2, e3.1, e3.2]

/-- F8 (sets). Adding a common new element strictly decreases the returned value. -/
theorem specBits_add_common_lt {x : ℕ} {A B : Finset ℕ} (hxA : x ∉ A) (hxB : x ∉ B)
    (hne : A ≠ B) (hu : (A ∪ B).card + 1 < 2 ^ 23) :
    F32.val (specBits (insert x A) (insert x B)) < F32.val (specBits A B) := by
  have h : (A ∪ B).card ≠ 0 := by
    intro h
    have hu : A ∪ B = ∅ := Finset.card_eq_zero.mp h
    exact hne (((Finset.union_eq_empty.mp hu).1).trans ((Finset.union_eq_empty.mp hu).2).symm)
  have hxU : x ∉ A ∪ B := by simp [hxA, hxB]
  have hcard : (insert x A ∪ insert x B).card = (A ∪ B).card + 1 := by
    rw [union_insert_insert, Finset.card_insert_of_notMem hxU]
  have hs : 0 < (symmDiff A B).card := by
    apply Nat.pos_of_ne_zero
    intro h0
    exact hne (symmDiff_eq_bot.mp (Finset.card_eq_zero.mp h0))
  rw [specBits_of_pos h, specBits_of_pos (by omega), symmDiff_insert_insert hxA hxB, hcard]
  exact F32.roundRat_succ_den_lt hs (card_symmDiff_le A B) hu

/-! ### The same statements for the kernel model on sorted coordinate lists -/

theorem toFinset_eq_iff_of_sorted {a b : List ℕ} (ha : a.Pairwise (· < ·))
    (hb : b.Pairwise (· < ·)) : a.toFinset = b.toFinset ↔ a = b := by
  constructor
  · intro h
    apply List.Pairwise.eq_of_mem_iff ha hb
    intro x
    rw [← List.mem_toFinset, ← List.mem_toFinset, h]
  · intro h; rw [h]

/-- F6. `c_jaccarddist` returns `+0.0` exactly when the two signatures are equal. -/
theorem bits_zero_iff {a b : List ℕ} (ha : a.Pairwise (· < ·)) (hb : b.Pairwise (· < ·))
    (hu : unionCount a b < 2 ^ 24) : jaccardBits a b = 0 ↔ a = b := by
  rw [jaccardBits_eq_specBits ha hb hu,
    specBits_zero_iff _ _ (by rw [← C02.unionCount_eq_card ha hb]; exact hu),
    toFinset_eq_iff_of_sorted ha hb]

/-- F6. `c_jaccarddist` returns `1.0` exactly when the signatures share no element and are not
both empty. -/
theorem bits_one_iff {a b : List ℕ} (ha : a.Pairwise (· < ·)) (hb : b.Pairwise (· < ·))
    (hu : unionCount a b < 2 ^ 24) :
    jaccardBits a b = F32.oneBits ↔ ((∀ x, x ∈ a → x ∉ b) ∧ (a ≠ [] ∨ b ≠ [])) := by
  rw [jaccardBits_eq_specBits ha hb hu,
    specBits_one_iff _ _ (by rw [← C02.unionCount_eq_card ha hb]; exact hu)]
  have h1 : Disjoint a.toFinset b.toFinset ↔ ∀ x, x ∈ a → x ∉ b := by
    rw [Finset.disjoint_left]; simp only [List.mem_toFinset]
  have h2 : (a.toFinset ∪ b.toFinset).Nonempty ↔ (a ≠ [] ∨ b ≠ []) := by
    rw [Finset.nonempty_iff_ne_empty, Ne, Finset.union_eq_empty, List.toFinset_eq_empty_iff,
      List.toFinset_eq_empty_iff]
    tauto
  rw [h1, h2]

/-- F7. The value returned by the kernel is within `2^-25` of the exact Jaccard distance. -/
theorem bits_err {a b : List ℕ} (ha : a.Pairwise (· < ·)) (hb : b.Pairwise (· < ·))
    (hu : unionCount a b < 2 ^ 24) :
    |F32.val (jaccardBits a b) - dist a.toFinset b.toFinset| ≤ 1 / 2 ^ 25 := by
  rw [jaccardBits_eq_specBits ha hb hu]
  exact specBits_err _ _ (by rw [← C02.unionCount_eq_card ha hb]; exact hu)

/-- F7 (sharp form): the triangle inequality holds up to three rounding errors. -/
theorem triangle_f32_sharp {a b c : List ℕ} (ha : a.Pairwise (· < ·)) (hb : b.Pairwise (· < ·))
    (hc : c.Pairwise (· < ·)) (hac : unionCount a c < 2 ^ 24) (hab : unionCount a b < 2 ^ 24)
    (hbc : unionCount b c < 2 ^ 24) :
    F32.val (jaccardBits a c) ≤ F32.val (jaccardBits a b) + F32.val (jaccardBits b c) + 3 / 2 ^ 25 := by
  rw [jaccardBits_eq_specBits ha hc hac, jaccardBits_eq_specBits ha hb hab,
    jaccardBits_eq_specBits hb hc hbc]
  exact specBits_triangle _ _ _
    (by rw [← C02.unionCount_eq_card ha hc]; exact hac)
    (by rw [← C02.unionCount_eq_card ha hb]; exact hab)
    (by rw [← C02.unionCount_eq_card hb hc]; exact hbc)

/-- F7. Triangle inequality of the single-precision distances up to `2^-22`. -/
theorem triangle_f32 {a b c : List ℕ} (ha : a.Pairwise (· < ·)) (hb : b.Pairwise (· < ·))
    (hc : c.Pairwise (· < ·)) (hac : unionCount a c < 2 ^ 24) (hab : unionCount a b < 2 ^ 24)
    (hbc : unionCount b c < 2 ^ 24) :
    F32.val (jaccardBits a c) ≤ F32.val (jaccardBits a b) + F32.val (jaccardBits b c) + 1 / 2 ^ 22 := by
  have h := triangle_f32_sharp ha hb hc hac hab hbc
  have : (3 : ℚ) / 2 ^ 25 ≤ 1 / 2 ^ 22 := by norm_num
  linarith

/-- F8. Adding one common new coordinate to both signatures strictly decreases the returned
single-precision distance (unions below `2^23`). `a'`, `b'` are the sorted arrays of
`insert x A`, `insert x B`. -/
theorem add_common_strict_f32 {x : ℕ} {a b a' b' : List ℕ}
    (ha : a.Pairwise (· < ·)) (hb : b.Pairwise (· < ·))
    (ha' : a'.Pairwise (· < ·)) (hb' : b'.Pairwise (· < ·))
    (hxa : x ∉ a) (hxb : x ∉ b) (hne : a ≠ b)
    (hA : a'.toFinset = insert x a.toFinset) (hB : b'.toFinset = insert x b.toFinset)
    (hu : unionCount a b + 1 < 2 ^ 23) :
    F32.val (jaccardBits a' b') < F32.val (jaccardBits a b) := by
  have hxA : x ∉ a.toFinset := by simpa using hxa
  have hxB : x ∉ b.toFinset := by simpa using hxb
  have hcard := C02.unionCount_eq_card ha hb
  have hcard' : unionCount a' b' = unionCount a b + 1 := by
    rw [C02.unionCount_eq_card ha' hb', hA, hB, union_insert_insert,
      Finset.card_insert_of_notMem (by simp [hxA, hxB]), hcard]
  rw [jaccardBits_eq_specBits ha hb (by omega), jaccardBits_eq_specBits ha' hb' (by omega), hA, hB]
  exact specBits_add_common_lt hxA hxB
    (fun h => hne ((toFinset_eq_iff_of_sorted ha hb).mp h)) (by rw [← hcard]; exact hu)

/-! ### Non-vacuity -/

example : F32.val (jaccardBits [1, 2, 3] [2, 3, 4]) = 1 / 2 := by
  have h : jaccardBits [1, 2, 3] [2, 3, 4] = 0x3F000000 := by decide +kernel
  have hd : F32.decode 0x3F000000 = some (2 ^ 23, -24) := by decide
  rw [h, F32.val_of_decode hd]; norm_num

example : jaccardBits [1, 2] [3] = F32.oneBits := by decide +kernel
example : jaccardBits [1, 2] [1, 2] = 0 := by decide +kernel
-- [1,2] vs [1,3]: 2/3;  with the common element 5 added: 2/4
example : jaccardBits [1, 2] [1, 3] = 0x3F2AAAAB ∧ jaccardBits [1, 2, 5] [1, 3, 5] = 0x3F000000 := by
  constructor <;> decide +kernel


example : dist {1, 2, 3} {2, 3, 4} = 1 / 2 := by
  have h1 : (({1, 2, 3} : Finset ℕ) ∪ {2, 3, 4}).card = 4 := by decide
  have h2 : (symmDiff ({1, 2, 3} : Finset ℕ) {2, 3, 4}).card = 2 := by decide
  rw [dist_of_pos (by omega), h1, h2]; norm_num

example : dist {1} {2} = 1 := (dist_eq_one_iff _ _).mpr ⟨by decide, by decide⟩

-- the hypotheses of the list-level theorems are jointly satisfiable
example : F32.val (jaccardBits [1, 2, 5] [1, 3, 5]) < F32.val (jaccardBits [1, 2] [1, 3]) :=
  add_common_strict_f32 (x := 5) (by decide) (by decide) (by decide) (by decide) (by decide)
    (by decide) (by decide) (by decide) (by decide) (by decide +kernel)

example : F32.val (jaccardBits [1, 2] [3, 4]) ≤
    F32.val (jaccardBits [1, 2] [2, 3]) + F32.val (jaccardBits [2, 3] [3, 4]) + 1 / 2 ^ 22 :=
  triangle_f32 (by decide) (by decide) (by decide) (by decide +kernel) (by decide +kernel)
    (by decide +kernel)

end GambitV.C15
