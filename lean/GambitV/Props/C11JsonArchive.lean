import GambitV.Model.JsonArchiveRead
import GambitV.Props.C11Json
import GambitV.Tie.PyJsonProps

/-!
C11, archive format at the level of the JSON document: what the writer writes for an item, read back by key within the genome set,
is the item — every distance to the last bit, warnings, error, success flag, label and file included.
-/
namespace GambitV.Json

private theorem mapM_map_some {α β : Type} (f : β → Option α) (g : α → β) :
    ∀ (l : List α), (∀ a ∈ l, f (g a) = some a) → (l.map g).mapM f = some l
  | [], _ => by simp
  | a :: l, h => by
    have ih := mapM_map_some f g l (fun x hx => h x (List.mem_cons_of_mem _ hx))
    simp [List.mapM_cons, h a (by simp), ih]

private theorem readKey_keyJson (k : List Char) : readKey (keyJson k) = some k := by
  simp [keyJson_eq, readKey, lookup]

private theorem readOptStr_jStr (o : Option (List Char)) : readOptStr (jStr o) = some o := by
  cases o <;> rfl

private theorem readFile_write (f : Option JFile) : readFile (archiveFileJson f) = some f := by
  cases f with
  | none => rfl
  | some f =>
    simp [archiveFileJson_some, readFile, Json.get?, lookup, readStr, readOptStr_jStr]

theorem readOptTaxon_write (db : JDb) (t : Option JTaxon) (h : ∀ x, t = some x → db.taxon x.key = some x) :
    readOptTaxon db (optKeyJson t) = some t := by
  cases t with
  | none => rfl
  | some x =>
    have hk := readKey_keyJson x.key
    simp only [optKeyJson]
    rw [keyJson_eq] at hk ⊢
    simp only [readOptTaxon, hk, Option.bind_some, h x rfl, Option.map_some]

theorem readMatch_write (db : JDb) (m : JMatch) (h : MatchIn db m) : readMatch db (archiveMatchJson m) = some m := by
  obtain ⟨hg, ht⟩ := h
  have h1 : (archiveMatchJson m).get? "genome".toList = some (keyJson m.genome.key) := by
    simp [archiveMatchJson_eq, Json.get?, lookup]
  have h2 : (archiveMatchJson m).get? "distance".toList = some (.float m.distance) := by
    simp [archiveMatchJson_eq, Json.get?, lookup]
  have h3 : (archiveMatchJson m).get? "matched_taxon".toList = some (optKeyJson m.matched) := by
    simp [archiveMatchJson_eq, Json.get?, lookup]
  unfold readMatch
  rw [h1, h2, h3]
  simp [readKey_keyJson, hg, readFloat, readOptTaxon_write db m.matched ht]

/-- **round trip of the archive document**: an item whose database objects are in the genome set is read back as it was -/
theorem archive_read_write (db : JDb) (it : JItem) (h : ItemIn db it) : readItem db (archiveItemJson it) = some it := by
  obtain ⟨hp, hn, hr, hpm, hcm, hcl⟩ := h
  have hprim : readOptMatch db (optArchiveMatchJson it.primary) = some it.primary := by
    cases hpr : it.primary with
    | none => rfl
    | some m =>
      have hm := readMatch_write db m (hpm m hpr)
      rw [archiveMatchJson_eq] at hm
      simp only [optArchiveMatchJson, archiveMatchJson_eq, readOptMatch, hm, Option.map_some]
  have hw : readList readStr (.arr (it.warnings.map .str)) = some it.warnings := by
    simp only [readList]
    exact mapM_map_some readStr Json.str it.warnings (fun _ _ => rfl)
  have hc : readList (readMatch db) (.arr (it.closest.map archiveMatchJson)) = some it.closest := by
    simp only [readList]
    exact mapM_map_some (readMatch db) archiveMatchJson it.closest (fun m hm => readMatch_write db m (hcl m hm))
  have e1 : (archiveItemJson it).get? "input".toList
      = some (.obj [("label".toList, .str it.label), ("file".toList, archiveFileJson it.file)]) := by
    simp [archiveItemJson_eq, Json.get?, lookup]
  have e2 : (archiveItemJson it).get? "classifier_result".toList
      = some (.obj [("success".toList, .bool it.success), ("predicted_taxon".toList, optKeyJson it.predicted),
                ("primary_match".toList, optArchiveMatchJson it.primary),
                ("closest_match".toList, archiveMatchJson it.closestMatch), ("next_taxon".toList, optKeyJson it.next),
                ("warnings".toList, .arr (it.warnings.map .str)), ("error".toList, jStr it.error)]) := by
    simp [archiveItemJson_eq, Json.get?, lookup]
  have e3 : (archiveItemJson it).get? "report_taxon".toList = some (optKeyJson it.report) := by
    simp [archiveItemJson_eq, Json.get?, lookup]
  have e4 : (archiveItemJson it).get? "closest_genomes".toList = some (.arr (it.closest.map archiveMatchJson)) := by
    simp [archiveItemJson_eq, Json.get?, lookup]
  unfold readItem
  rw [e1, e2, e3, e4]
  simp [Json.get?, lookup, readStr, readBool, readFile_write, readOptTaxon_write db _ hp, readOptTaxon_write db _ hn,
    readOptTaxon_write db _ hr, hprim, readMatch_write db _ hcm, hw, hc, readOptStr_jStr]

/-- … through the writer rules of the current source and the model's encoder -/
theorem py_archive_read_write (n : Nat) (db : JDb) (it : JItem) (h : ItemIn db it) :
    (encode Gen.pyArchiveExporter (n + 4) it.toPVal).bind (readItem db) = some it := by
  rw [GambitV.Tie.Py.py_archive_item, Option.bind_some]
  exact archive_read_write db it h

/-- without the hypothesis the statement fails: a key that the genome set resolves to another object gives another item back
(the reason the reader must look keys up *within the genome set of the archive*) -/
theorem archive_read_needs_closed :
    ∃ (db : JDb) (it it' : JItem), it ≠ it' ∧ readItem db (archiveItemJson it) = some it' := by
  -- the genome set holds, under the default key, a taxon with another name than the one the item reports
  let t : JTaxon := { (default : JTaxon) with name := ['a'] }
  let db : JDb := { taxa := [default], genomes := [default] }
  let it : JItem := { (default : JItem) with report := some t }
  let it' : JItem := { (default : JItem) with report := some default }
  have hne : it ≠ it' := by decide
  have hkeys : it.keys = it'.keys := by decide
  have hin : ItemIn db it' := by
    refine ⟨?_, ?_, ?_, ?_, ?_, ?_⟩
    · intro t ht; exact absurd (show (none : Option JTaxon) = some t from ht) (by simp)
    · intro t ht; exact absurd (show (none : Option JTaxon) = some t from ht) (by simp)
    · intro t ht
      obtain rfl : (default : JTaxon) = t := Option.some.inj ht
      decide
    · intro m hm; exact absurd (show (none : Option JMatch) = some m from hm) (by simp)
    · exact ⟨by decide, fun t ht => absurd (show (none : Option JTaxon) = some t from ht) (by simp)⟩
    · intro m hm; exact absurd (show m ∈ ([] : List JMatch) from hm) (by simp)
  refine ⟨db, it, it', hne, ?_⟩
  rw [archive_keys_only it it' hkeys]
  exact archive_read_write db it' hin

end GambitV.Json
