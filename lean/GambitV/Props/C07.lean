import GambitV.Lemmas.Kmers

/-!
# C07 — K-mer/index conversion is the base-4 bijection, consistent with reverse complement

Statements only (helper lemmas live in `Lemmas/Kmers.lean`). All theorems quantify over arbitrary
byte strings / all `k`; nothing is bounded.
-/
namespace GambitV.C07
open GambitV

/-- A=0, C=1, G=2, T=3, in either case. -/
theorem digit_table :
    nucCode 65 = some 0 ∧ nucCode 67 = some 1 ∧ nucCode 71 = some 2 ∧ nucCode 84 = some 3 ∧
    nucCode 97 = some 0 ∧ nucCode 99 = some 1 ∧ nucCode 103 = some 2 ∧ nucCode 116 = some 3 := by
  decide

/-- Positional code: the first nucleotide is the most significant base-4 digit. -/
theorem encode_cons (b : UInt8) (s : List UInt8) :
    encode (b :: s) = (nucCode b).bind (fun d => (encode s).map (d * 4 ^ s.length + ·)) := by
  unfold encode
  simp only [encodeFrom]
  cases nucCode b with
  | none => rfl
  | some d => simp only [Option.bind_some]; rw [encodeFrom_eq]; simp

theorem encode_nil : encode [] = some 0 := rfl

/-- Every index produced is below `4^k`. -/
theorem encode_lt (s : List UInt8) (i : Nat) (h : encode s = some i) : i < 4 ^ s.length := by
  have := encodeFrom_lt 0 0 s (by decide) i h
  simpa using this

/-- `index_to_kmer` followed by `kmer_to_index` is the identity on `0 .. 4^k-1`. -/
theorem encode_decode (k i : Nat) (h : i < 4 ^ k) : encode (decode i k) = some i := by
  induction k generalizing i with
  | zero => simp at h; subst h; rfl
  | succ k ih =>
    simp only [decode]
    rw [encode_snoc, ih (i / 4) (by rw [Nat.pow_succ] at h; omega)]
    simp only [Option.bind_some]
    rw [nucCode_nucLetter _ (by omega)]
    simp only [Option.map_some, Option.some.injEq]
    omega

/-- `kmer_to_index` followed by `index_to_kmer` gives back the k-mer, upper-cased. -/
theorem decode_encode (s : List UInt8) (i : Nat) (h : encode s = some i) :
    decode i s.length = upper s := by
  induction s using list_snoc_induction generalizing i with
  | nil => rfl
  | snoc s b ih =>
    rw [encode_snoc] at h
    cases hs : encode s with
    | none => simp [hs] at h
    | some a =>
      cases hb : nucCode b with
      | none => simp [hs, hb] at h
      | some d =>
        simp only [hs, hb, Option.bind_some, Option.map_some, Option.some.injEq] at h
        have hd := nucCode_lt b d hb
        subst h
        simp only [List.length_append, List.length_cons, List.length_nil, Nat.zero_add, decode]
        have h1 : (a * 4 + d) / 4 = a := by omega
        have h2 : (a * 4 + d) % 4 = d := by omega
        rw [h1, h2, ih a hs, nucLetter_nucCode b d hb]
        simp [upper]

/-- The decoder always yields a string of length `k` over upper-case `ACGT`. -/
theorem decode_wf (i k : Nat) : (decode i k).length = k ∧ ∀ b ∈ decode i k, b ∈ [65, 67, 71, 84] := by
  refine ⟨decode_length i k, ?_⟩
  induction k generalizing i with
  | zero => simp [decode]
  | succ k ih =>
    intro b hb
    simp only [decode, List.mem_append, List.mem_singleton] at hb
    rcases hb with hb | hb
    · exact ih _ b hb
    · subst hb
      unfold nucLetter
      split
      · simp
      · split
        · simp
        · split <;> simp

/-- Input case is ignored. -/
theorem encode_upper (s : List UInt8) : encode (upper s) = encode s :=
  encodeFrom_map_upper 0 s

/-- A k-mer is rejected exactly when it contains a byte other than `ACGTacgt`. -/
theorem encode_none_iff (s : List UInt8) :
    encode s = none ↔ ∃ b ∈ s, b ∉ [65, 67, 71, 84, 97, 99, 103, 116] := by
  unfold encode
  rw [encodeFrom_none_iff]
  constructor
  · rintro ⟨b, hb, hn⟩
    refine ⟨b, hb, ?_⟩
    intro hmem
    have := (nucCode_isSome_iff b).2 hmem
    simp [hn] at this
  · rintro ⟨b, hb, hn⟩
    refine ⟨b, hb, ?_⟩
    cases h : nucCode b with
    | none => rfl
    | some d =>
      exfalso; apply hn
      exact (nucCode_isSome_iff b).1 (by simp [h])

/-- Injectivity up to case: two k-mers of the same length with the same index are equal
after upper-casing.  Together with `encode_decode`/`encode_lt` this makes `encode` a bijection
between upper-case `ACGT` strings of length `k` and `0 .. 4^k-1`. -/
theorem encode_inj (s t : List UInt8) (i : Nat) (hl : s.length = t.length)
    (hs : encode s = some i) (ht : encode t = some i) : upper s = upper t := by
  rw [← decode_encode s i hs, ← decode_encode t i ht, hl]

theorem encode_surj (k i : Nat) (h : i < 4 ^ k) :
    ∃ s : List UInt8, s.length = k ∧ (∀ b ∈ s, b ∈ [65, 67, 71, 84]) ∧ encode s = some i :=
  ⟨decode i k, (decode_wf i k).1, (decode_wf i k).2, encode_decode k i h⟩

/-- Wrapper guard: anything longer than 32 is rejected, never encoded. -/
theorem too_long_rejected (s : List UInt8) (h : s.length > 32) :
    kmerToIndex s = .error .tooLong ∧ kmerToIndexRc s = .error .tooLong := by
  simp [kmerToIndex, kmerToIndexRc, h]

theorem wrapper_ok_iff (s : List UInt8) (i : Nat) :
    kmerToIndex s = .ok i ↔ s.length ≤ 32 ∧ encode s = some i := by
  unfold kmerToIndex
  split
  · constructor
    · intro h; cases h
    · intro h; omega
  · cases encode s with
    | none => simp
    | some j => simp; omega

/-! ### 64-bit accumulator: no wrap-around under the guard -/

theorem encodeU64From_eq (acc : UInt64) (j : Nat) (s : List UInt8)
    (hacc : acc.toNat < 4 ^ j) (hlen : j + s.length ≤ 32) :
    (encodeU64From acc s).map UInt64.toNat = encodeFrom acc.toNat s := by
  induction s generalizing acc j with
  | nil => simp [encodeU64From, encodeFrom]
  | cons b s ih =>
    simp only [encodeU64From, encodeFrom]
    cases hb : nucCode b with
    | none => rfl
    | some d =>
      simp only []
      have hd := nucCode_lt b d hb
      simp only [List.length_cons] at hlen
      have hj : j + 1 ≤ 32 := by omega
      have hpow : (4:Nat) ^ (j + 1) ≤ 4 ^ 32 := Nat.pow_le_pow_right (by decide) hj
      have hlt : acc.toNat * 4 + d < 4 ^ (j + 1) := by rw [Nat.pow_succ]; omega
      have h64 : acc.toNat * 4 + d < 2 ^ 64 := by
        have : (4:Nat) ^ 32 = 2 ^ 64 := by decide
        omega
      have hval : ((acc <<< 2) + UInt64.ofNat d).toNat = acc.toNat * 4 + d := by
        rw [UInt64.toNat_add, UInt64.toNat_shiftLeft]
        have h2 : (2 : UInt64).toNat % 64 = 2 := by decide
        rw [h2, Nat.shiftLeft_eq]
        have hd' : (UInt64.ofNat d).toNat = d := by
          rw [UInt64.toNat_ofNat']; omega
        rw [hd']
        have : (2:Nat)^2 = 4 := by decide
        rw [this]
        omega
      rw [ih _ (j + 1) (by rw [hval]; exact hlt) (by omega), hval]

/-- The shift-and-add loop on a 64-bit accumulator computes the mathematical index for every
k-mer the wrapper lets through (`k ≤ 32`). -/
theorem u64_no_wrap (s : List UInt8) (h : s.length ≤ 32) :
    (encodeU64 s).map UInt64.toNat = encode s := by
  have := encodeU64From_eq 0 0 s (by decide) (by omega)
  simpa [encodeU64, encode] using this

/-! ### Reverse complement -/

theorem revcomp_length (s : List UInt8) : (revcomp s).length = s.length := by
  simp [revcomp]

theorem revcomp_involutive (s : List UInt8) : revcomp (revcomp s) = s := by
  simp only [revcomp, List.map_reverse, List.reverse_reverse, List.map_map]
  have : comp ∘ comp = id := by funext b; exact comp_comp b
  simp [this]

/-- Byte `i` of the reverse complement is the complement of the byte in the mirrored position. -/
theorem revcomp_get (s : List UInt8) (i : Nat) (h : i < s.length) :
    (revcomp s)[i]'(by rw [revcomp_length]; exact h) = comp (s[s.length - 1 - i]'(by omega)) := by
  simp [revcomp, List.getElem_reverse]

/-- Complement table: swaps A/T and C/G preserving case; fixes every other byte. -/
theorem comp_table (b : UInt8) :
    (b = 65 → comp b = 84) ∧ (b = 84 → comp b = 65) ∧ (b = 67 → comp b = 71) ∧ (b = 71 → comp b = 67) ∧
    (b = 97 → comp b = 116) ∧ (b = 116 → comp b = 97) ∧ (b = 99 → comp b = 103) ∧ (b = 103 → comp b = 99) ∧
    (b ∉ [65, 67, 71, 84, 97, 99, 103, 116] → comp b = b) := comp_spec b

/-- The index computed by the reverse-complement encoder is the index of the reverse complement. -/
theorem encodeRc_eq (s : List UInt8) : encodeRc s = encode (revcomp s) := by
  unfold encodeRc encode revcomp
  rw [← List.map_reverse, encodeFrom_map_comp]

/-! ### Index dtype -/

/-- `index_dtype(k)` is the smallest of the 1/2/4/8-byte unsigned types holding `4^k - 1`. -/
theorem indexDtype_minimal (k w : Nat) (h : indexDtypeBytes k = some w) :
    4 ^ k ≤ 2 ^ (8 * w) ∧ ∀ w' ∈ [1, 2, 4, 8], w' < w → 2 ^ (8 * w') < 4 ^ k := by
  have h4 : ∀ n, (4:Nat) ^ n = 2 ^ (2 * n) := by intro n; rw [Nat.pow_mul]
  unfold indexDtypeBytes at h
  split at h
  · cases h; refine ⟨?_, ?_⟩
    · rw [h4]; exact Nat.pow_le_pow_right (by decide) (by omega)
    · intro w' hw' hlt; simp at hw'; omega
  · split at h
    · cases h; refine ⟨?_, ?_⟩
      · rw [h4]; exact Nat.pow_le_pow_right (by decide) (by omega)
      · intro w' hw' hlt; simp at hw'
        have : w' = 1 := by omega
        subst this; rw [h4]; exact Nat.pow_lt_pow_right (by decide) (by omega)
    · split at h
      · cases h; refine ⟨?_, ?_⟩
        · rw [h4]; exact Nat.pow_le_pow_right (by decide) (by omega)
        · intro w' hw' hlt; simp at hw'
          rw [h4]; apply Nat.pow_lt_pow_right (by decide); omega
      · split at h
        · cases h; refine ⟨?_, ?_⟩
          · rw [h4]; exact Nat.pow_le_pow_right (by decide) (by omega)
          · intro w' hw' hlt; simp at hw'
            rw [h4]; apply Nat.pow_lt_pow_right (by decide); omega
        · cases h

theorem indexDtype_none_iff (k : Nat) : indexDtypeBytes k = none ↔ k > 32 := by
  unfold indexDtypeBytes
  repeat' split
  all_goals simp
  all_goals omega

/-! ### Non-vacuity: concrete instances of the hypotheses -/

-- "ACGT" ↦ 0*64 + 1*16 + 2*4 + 3 = 27, and back.
example : encode [65, 67, 71, 84] = some 27 := by decide
example : decode 27 4 = [65, 67, 71, 84] := by decide
-- lower case accepted, 'N' rejected
example : encode [97, 99, 103, 116] = some 27 ∧ encode [65, 78] = none := by decide
-- reverse complement of "AACG" is "CGTT"; mixed case / N kept in mirrored position
example : revcomp [65, 65, 67, 71] = [67, 71, 84, 84] ∧ revcomp [97, 78, 67] = [71, 78, 116] := by decide
example : encodeRc [65, 65, 67, 71] = encode [67, 71, 84, 84] := by decide

end GambitV.C07
