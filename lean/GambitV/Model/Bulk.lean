/-!
Model of the bulk distance functions of `gambit/metric.py` — `jaccarddist_array`,
`jaccarddist_matrix`, `jaccarddist_pairwise` — of `gambit.util.misc.chunk_slices`, and of the
`prange` loop of `_jaccarddist_parallel` as "one write per iteration, in schedule order".
Everything is parametric in the two-signature distance `dist`, so that the theorems say: each
output cell is `dist` of the right pair, whatever `dist` is.  Core Lean only.
-/
namespace GambitV

/-- `chunk_slices(n, size)`: un-clamped `(start, stop)` pairs; `size ≥ 1`. -/
def chunkSlicesFrom (n size : Nat) : (fuel : Nat) → (start : Nat) → List (Nat × Nat)
  | 0, _ => []
  | fuel + 1, start => if start < n then (start, start + size) :: chunkSlicesFrom n size fuel (start + size) else []

def chunkSlices (n size : Nat) : List (Nat × Nat) := chunkSlicesFrom n size n 0

/-- Python slice `l[a:b]` for `0 ≤ a`, `0 ≤ b` (clamped). -/
def slc {α : Type} (l : List α) (a b : Nat) : List α := (l.drop a).take (b - a)

/-- `out[a:b] = vals` on a NumPy row, `|vals| = min b |row| - a`. -/
def writeSlice {γ : Type} (row : List γ) (a : Nat) (vals : List γ) : List γ :=
  row.take a ++ vals ++ row.drop (a + vals.length)

/-- `jaccarddist_array(query, refs)`: one distance per reference, in order (both the fused
`_jaccarddist_parallel` path and the per-item loop produce this list). -/
def arrayDists {α β γ : Type} (dist : α → β → γ) (q : α) (refs : List β) : List γ := refs.map (dist q)

/-- The schedule-explicit form of the `prange` loop: iteration `i` writes `out[i] = body i`;
`sched` is the order in which the iterations happen to run. -/
def prangeRun {γ : Type} (body : Nat → γ) (sched : List Nat) (out : List γ) : List γ :=
  sched.foldl (fun o i => o.set i (body i)) out

/-- One chunk of `jaccarddist_matrix`: for every query `i`, `out[i, a:b] = dists(q_i, chunk)`. -/
def matrixChunk {α β γ : Type} (dist : α → β → γ) (queries : List α) (chunk : List β) (a : Nat)
    (out : List (List γ)) : List (List γ) :=
  (List.range queries.length).foldl
    (fun o i => match queries[i]?, o[i]? with
      | some q, some row => o.set i (writeSlice row a (arrayDists dist q chunk))
      | _, _ => o) out

/-- `jaccarddist_matrix(queries, refs, ref_indices, out, chunksize)`.
`refIdx = none` means all references in order; `chunk = none` means a single slice `0:nrefs`. -/
def matrixModel {α β γ : Type} [Inhabited β] (dist : α → β → γ) (queries : List α) (refs : List β)
    (refIdx : Option (List Nat)) (chunk : Option Nat) (out : List (List γ)) : List (List γ) :=
  let idxs := refIdx.getD (List.range refs.length)
  let nrefs := idxs.length
  let slices := match chunk with
    | none => [(0, nrefs)]
    | some c => chunkSlices nrefs c
  slices.foldl (fun o (ab : Nat × Nat) =>
    let sel := (slc idxs ab.1 ab.2).map (fun j => refs.getD j default)
    matrixChunk dist queries sel ab.1 o) out

/-- Condensed (squareform) offset of the pair `i < j` among `n` items. -/
def condensedIndex (n i j : Nat) : Nat := i * n - i * (i + 1) / 2 + (j - i - 1)

/-- `jaccarddist_pairwise(..., flat=True)`: rows `i = 0..n-2`, each the distances of item `i`
to items `i+1..n-1`, written consecutively. -/
def pairwiseFlat {α γ : Type} (dist : α → α → γ) (sigs : List α) : List γ :=
  (List.range (sigs.length - 1)).flatMap (fun i =>
    match sigs[i]? with
    | some s => arrayDists dist s (sigs.drop (i + 1))
    | none => [])

/-- `jaccarddist_pairwise(..., flat=False)`: zero diagonal, upper-triangle rows computed, mirrored
to the lower triangle. -/
def pairwiseSquare {α γ : Type} (dist : α → α → γ) (zero : γ) (sigs : List α) : List (List γ) :=
  (List.range sigs.length).map (fun i => (List.range sigs.length).map (fun j =>
    if i = j then zero
    else match sigs[min i j]?, sigs[max i j]? with
      | some a, some b => dist a b
      | _, _ => zero))

/-- The same matrix built the way the code does it: start from `out` with the diagonal zeroed, and
for each `i` write row `i` right of the diagonal and copy it into column `i` below the diagonal. -/
def pairwiseSquareLoop {α γ : Type} (dist : α → α → γ) (zero : γ) (sigs : List α) (out : List (List γ)) :
    List (List γ) :=
  let n := sigs.length
  let out0 := (List.range n).map (fun i => ((out.getD i []).set i zero))
  (List.range (n - 1)).foldl (fun o i =>
    match sigs[i]? with
    | none => o
    | some s =>
      let row := arrayDists dist s (sigs.drop (i + 1))
      -- out[i, i+1:n] = row
      let o1 := o.set i (writeSlice (o.getD i []) (i + 1) row)
      -- out[i+1:n, i] = out[i, i+1:n]
      (List.range (n - i - 1)).foldl (fun o2 t =>
        match row[t]? with
        | some v => o2.set (i + 1 + t) ((o2.getD (i + 1 + t) []).set i v)
        | none => o2) o1) out0

end GambitV
