/-!
Model of the database session life-cycle relevant to C18: `gambit.db.sqla.ReadOnlySession`
(`flush` is a no-op, `commit` raises, and so does a commit through the transaction object — the `before_commit` hook added by the repair of finding C18-F1) next to the ordinary SQLAlchemy session, as a state machine over
(durable rows, rows flushed into the open transaction, pending changes); and the table of file-open
modes of the read-side commands.  Core Lean only.  SQLite / the filesystem are assumed (DESIGN §3).
-/
namespace GambitV

inductive Change where
  | add (row : Nat)
  | del (row : Nat)
  deriving DecidableEq, Repr

structure Sess where
  durable : List Nat        -- what is in the file
  txn : List Change         -- flushed into the open transaction, not yet committed
  pending : List Change     -- in the session's unit of work
  deriving DecidableEq, Repr

inductive SOp where
  | change (c : Change)     -- session.add / session.delete / attribute assignment
  | flush
  | commit
  | txnCommit               -- `session.get_transaction().commit()`: committing through the transaction object
  | beginBlock              -- `with session.begin(): pass` entered while no transaction is open: leaving the block commits
  | rawSql (c : Change)     -- `session.execute(text("UPDATE …"))`: goes straight into the connection's open transaction
  | savepoint               -- `session.begin_nested()`: a SAVEPOINT inside the open transaction (flushes first); left open
  | query                   -- any query (autoflush first)
  | rollback
  | close
  deriving DecidableEq, Repr

inductive SOut where
  | ok
  | raised                  -- TypeError('Session is read-only')
  | rows (n : Nat)          -- what a query sees
  deriving DecidableEq, Repr

def applyChanges (rows : List Nat) (cs : List Change) : List Nat :=
  cs.foldl (fun r c => match c with
    | .add x => r ++ [x]
    | .del x => r.filter (· != x)) rows

/-- `ReadOnlySession` -/
def stepRO (s : Sess) : SOp → Sess × SOut
  | .change c => ({ s with pending := s.pending ++ [c] }, .ok)
  | .flush => (s, .ok)                                       -- no-op: pending stays pending
  | .rawSql c => ({ s with txn := s.txn ++ [c] }, .ok)       -- visible to this session only; never committed
  | .savepoint => (s, .ok)                                   -- flush is a no-op; an open savepoint changes nothing a commit attempt sees
  | .commit => (s, .raised)
  | .txnCommit => (s, .raised)                                  -- `before_commit` raises before anything is done; the transaction stays open
  | .beginBlock => ({ s with txn := [], pending := [] }, .raised)   -- `before_commit` raises; the block's exit rolls back
  | .query => (s, .rows (applyChanges s.durable s.txn).length)   -- autoflush = no-op flush
  | .rollback => ({ s with txn := [], pending := [] }, .ok)
  | .close => ({ s with txn := [], pending := [] }, .ok)

/-- ordinary `Session` (for contrast) -/
def stepRW (s : Sess) : SOp → Sess × SOut
  | .change c => ({ s with pending := s.pending ++ [c] }, .ok)
  | .flush => ({ s with txn := s.txn ++ s.pending, pending := [] }, .ok)
  | .rawSql c => ({ s with txn := s.txn ++ [c] }, .ok)
  | .savepoint => ({ s with txn := s.txn ++ s.pending, pending := [] }, .ok)
  | .commit => ({ durable := applyChanges s.durable (s.txn ++ s.pending), txn := [], pending := [] }, .ok)
  | .txnCommit => ({ durable := applyChanges s.durable (s.txn ++ s.pending), txn := [], pending := [] }, .ok)
  | .beginBlock => ({ durable := applyChanges s.durable (s.txn ++ s.pending), txn := [], pending := [] }, .ok)
  | .query => ({ s with txn := s.txn ++ s.pending, pending := [] }, .rows (applyChanges s.durable (s.txn ++ s.pending)).length)
  | .rollback => ({ s with txn := [], pending := [] }, .ok)
  | .close => ({ s with txn := [], pending := [] }, .ok)

def runOps (step : Sess → SOp → Sess × SOut) (s : Sess) (ops : List SOp) : Sess × List SOut :=
  ops.foldl (fun (acc : Sess × List SOut) op => let r := step acc.1 op; (r.1, acc.2 ++ [r.2])) (s, [])

/-! ### File-open modes of the read-side commands -/

inductive Cmd where
  | query | dist | tree | sigInfo | sigCreate | libLoad | libQuery
  deriving DecidableEq, Repr

inductive FMode where
  | read | write
  deriving DecidableEq, Repr

/-- how each command opens the *database's* two files (genome file, signature file); `none` = not opened.
Output files of a command are not database files. -/
def dbOpens : Cmd → Option FMode × Option FMode
  | .query => (some .read, some .read)
  | .dist => (none, some .read)            -- `--use-db`
  | .tree => (none, none)
  | .sigInfo => (none, some .read)         -- `signatures info -d`
  | .sigCreate => (none, some .read)       -- `--db-params`
  | .libLoad => (some .read, some .read)
  | .libQuery => (some .read, some .read)

end GambitV
