import GambitV.Model.Cli
import GambitV.Model.Bulk

/-!
Model of the query pipeline of `gambit query` (`cli/query.py`, `cli/common.py:get_sequence_files`,
`query.py:query_parse/query/get_result_item`, exporters) at the level C08 talks about: which rows
come out, in which order, with which labels, and what each row may depend on.  Every stage is
parametric in its per-item function.  Core Lean only.
-/
namespace GambitV

/-- `get_sequence_files`: positional paths win; else the non-empty lines of the list file, joined to
the base directory for opening but labelled from the line text itself. Returns (label source, path to open). -/
def sequenceFiles (positional : List (List Char)) (listLines : Option (List (List Char))) (ldir : List Char) :
    Option (List (List Char × List Char)) :=
  if !positional.isEmpty then some (positional.map (fun p => (p, p)))
  else match listLines with
    | some lines => some ((lines.filter (fun l => !l.isEmpty)).map (fun l => (l, ldir ++ ['/'] ++ l)))
    | none => none

/-- labels of file inputs -/
def fileLabels (files : List (List Char × List Char)) : List (List Char) := files.map (fun f => fileLabel f.1)

/-- The pipeline as the code composes it: signatures in file order (`sigOf`), one distance row per
query through the chunked matrix (`matrixModel`), classification of row `i` (`classify`), exportRow of
item `i` (`exportRow`), zipped with the labels. -/
def queryPipeline {σ β δ ρ ε : Type} [Inhabited β] (sigOf : List Char → σ) (dist : σ → β → δ) (classify : List δ → ρ)
    (exportRow : List Char → ρ → ε) (refs : List β) (refIdx : Option (List Nat)) (chunk : Option Nat)
    (files : List (List Char × List Char)) : List ε :=
  let labels := fileLabels files
  let sigs := files.map (fun f => sigOf f.2)
  let nrefs := (refIdx.getD (List.range refs.length)).length
  let dmat := matrixModel dist sigs refs refIdx chunk (sigs.map (fun _ => List.replicate nrefs (dist (sigOf []) default)))
  (labels.zip dmat).map (fun lr => exportRow lr.1 (classify lr.2))

/-- what the statement says: a map over the inputs -/
def queryRowsSpec {σ β δ ρ ε : Type} [Inhabited β] (sigOf : List Char → σ) (dist : σ → β → δ) (classify : List δ → ρ)
    (exportRow : List Char → ρ → ε) (refs : List β) (refIdx : Option (List Nat))
    (files : List (List Char × List Char)) : List ε :=
  files.map (fun f => exportRow (fileLabel f.1)
    (classify ((refIdx.getD (List.range refs.length)).map (fun j => dist (sigOf f.2) (refs.getD j default)))))

end GambitV
