/-!
Model of how the CLI reconciles k-mer parameters when two signature sources meet
(`cli/dist.py:99-127`, `cli/query.py:79-83` after the repair, `cli/signatures.py:178-191`,
`cli/common.py:228-260`).  Core Lean only.
-/
namespace GambitV

structure KSpec where
  k : Nat
  pre : List UInt8
  deriving DecidableEq, Repr

inductive Decision where
  | error                 -- ClickException: non-zero exit status, nothing written
  | run (used : KSpec)    -- proceeds; every signature is computed / interpreted with `used`
  deriving DecidableEq, Repr

/-- `kspec_from_params(k, prefix)`: both or neither; `k ≥ 5`; `|prefix| ≥ 2`; prefix over ACGT
(case-insensitive, upper-cased).  `none` = invalid (error), `some none` = not given. -/
def explicitSpec (k : Option Nat) (pre : Option (List UInt8)) : Option (Option KSpec) :=
  match k, pre with
  | none, none => some none
  | some k, some p =>
    let up := p.map (fun b => if 97 ≤ b ∧ b ≤ 122 then b - 32 else b)
    if k < 5 then none
    else if p.length < 2 then none
    else if up.all (fun b => b == 65 || b == 67 || b == 71 || b == 84) then some (some { k := k, pre := up })
    else none
  | _, _ => none

/-- `gambit dist`: `explicit` = `-k, -p`; `qsig` / `rsig` = parameters stored in the query / reference
signature source when that side is pre-computed (signature file or database). -/
def distDecision (explicit : Option KSpec) (qsig rsig : Option KSpec) (dflt : KSpec) : Decision :=
  match explicit with
  | none =>
    match qsig, rsig with
    | some q, some r => if q = r then .run q else .error
    | some q, none => .run q
    | none, some r => .run r
    | none, none => .run dflt
  | some e =>
    if (match qsig with | some q => decide (q ≠ e) | none => false) then .error
    else if (match rsig with | some r => decide (r ≠ e) | none => false) then .error
    else .run e

/-- `gambit query -s SIGFILE` (after the repair): the file's parameters must be the database's. -/
def querySigDecision (sig db : KSpec) : Decision := if sig = db then .run db else .error

/-- `gambit query GENOMES…`: signatures are computed with the database's parameters. -/
def queryFilesDecision (db : KSpec) : Decision := .run db

/-- `gambit signatures create`: `--db-params` and `-k, -p` are mutually exclusive. -/
def createDecision (explicit : Option KSpec) (dbParams : Bool) (db : Option KSpec) (dflt : KSpec) : Decision :=
  if dbParams then
    match explicit, db with
    | none, some d => .run d
    | none, none => .error            -- no database given
    | some _, _ => .error
  else match explicit with
    | some e => .run e
    | none => .run dflt

end GambitV
