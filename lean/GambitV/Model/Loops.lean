/-
Loop combinators used by the generated (`GambitV.Gen.*`) definitions and by hand-written models.
Core Lean only.

* `forRange n body s`   : `for i in range(n): s = body i s`, with early `return` modelled as
                          `Except.error` (the loop stops at the first `error`).
* `whileFuel fuel c b s`: `while c s: s = b s`; `none` means the fuel ran out (a distinct outcome
                          that the tie theorems prove unreachable for the fuel the translator emits).
-/
namespace GambitV

/-- `for i in range(lo, lo+n)` with loop-carried state `σ` and early exit value `ε`. -/
def forRangeFrom {σ ε : Type} (lo : Nat) : (n : Nat) → (body : Nat → σ → Except ε σ) → σ → Except ε σ
  | 0, _, s => .ok s
  | n + 1, body, s =>
    match body lo s with
    | .ok s' => forRangeFrom (lo + 1) n body s'
    | .error e => .error e

def forRange {σ ε : Type} (n : Nat) (body : Nat → σ → Except ε σ) (s : σ) : Except ε σ :=
  forRangeFrom 0 n body s

def whileFuel {σ : Type} : (fuel : Nat) → (cond : σ → Bool) → (body : σ → σ) → σ → Option σ
  | 0, cond, _, s => if cond s then none else some s
  | fuel + 1, cond, body, s => if cond s then whileFuel fuel cond body (body s) else some s

/-- `while cond: body` where the body may `return` (= `Except.error`); `ok none` = fuel exhausted. -/
def whileFuelE {σ ε : Type} : (fuel : Nat) → (cond : σ → Bool) → (body : σ → Except ε σ) → σ → Except ε (Option σ)
  | 0, cond, _, s => if cond s then .ok none else .ok (some s)
  | fuel + 1, cond, body, s =>
    if cond s then
      match body s with
      | .ok s' => whileFuelE fuel cond body s'
      | .error e => .error e
    else .ok (some s)

theorem forRangeFrom_zero {σ ε : Type} (lo : Nat) (body : Nat → σ → Except ε σ) (s : σ) :
    forRangeFrom lo 0 body s = .ok s := rfl

theorem forRangeFrom_succ {σ ε : Type} (lo n : Nat) (body : Nat → σ → Except ε σ) (s : σ) :
    forRangeFrom lo (n + 1) body s =
      (match body lo s with
       | .ok s' => forRangeFrom (lo + 1) n body s'
       | .error e => .error e) := rfl

/-- Splitting a `for` loop at the end: run `n` iterations, then iteration `lo+n`. -/
theorem forRangeFrom_succ_last {σ ε : Type} (lo n : Nat) (body : Nat → σ → Except ε σ) (s : σ) :
    forRangeFrom lo (n + 1) body s =
      (match forRangeFrom lo n body s with
       | .ok s' => body (lo + n) s'
       | .error e => .error e) := by
  induction n generalizing lo s with
  | zero =>
    simp only [forRangeFrom_succ, forRangeFrom_zero, Nat.add_zero]
    cases body lo s <;> rfl
  | succ n ih =>
    rw [forRangeFrom_succ]
    cases h : body lo s with
    | error e => simp [forRangeFrom_succ, h]
    | ok s' =>
      simp only []
      rw [ih (lo + 1) s']
      conv => rhs; rw [forRangeFrom_succ]
      simp only [h]
      have : lo + 1 + n = lo + (n + 1) := by omega
      rw [this]

/-- Generic invariant rule for a `for` loop whose body never exits early on the states considered. -/
theorem forRangeFrom_inv {σ ε : Type} (body : Nat → σ → Except ε σ) (P : Nat → σ → Prop)
    (lo n : Nat) (s : σ) (h0 : P lo s)
    (hstep : ∀ i s, lo ≤ i → i < lo + n → P i s → ∃ s', body i s = .ok s' ∧ P (i + 1) s') :
    ∃ s', forRangeFrom lo n body s = .ok s' ∧ P (lo + n) s' := by
  induction n generalizing lo s with
  | zero => exact ⟨s, rfl, by simpa using h0⟩
  | succ n ih =>
    obtain ⟨s1, hb, hp⟩ := hstep lo s (Nat.le_refl _) (by omega) h0
    have := ih (lo + 1) s1 hp (fun i s hi hlt hP => hstep i s (by omega) (by omega) hP)
    obtain ⟨s2, h2, hp2⟩ := this
    refine ⟨s2, ?_, ?_⟩
    · rw [forRangeFrom_succ, hb]; exact h2
    · have : lo + 1 + n = lo + (n + 1) := by omega
      rw [← this]; exact hp2

theorem whileFuel_inv {σ : Type} (cond : σ → Bool) (body : σ → σ) (P : σ → Prop) (μ : σ → Nat)
    (hstep : ∀ s, P s → cond s = true → P (body s) ∧ μ (body s) < μ s) :
    ∀ (fuel : Nat) (s : σ), P s → μ s ≤ fuel →
      ∃ s', whileFuel fuel cond body s = some s' ∧ P s' ∧ cond s' = false := by
  intro fuel
  induction fuel with
  | zero =>
    intro s hP hμ
    cases hc : cond s with
    | false => exact ⟨s, by simp [whileFuel, hc], hP, hc⟩
    | true =>
      have := (hstep s hP hc).2
      omega
  | succ fuel ih =>
    intro s hP hμ
    cases hc : cond s with
    | false => exact ⟨s, by simp [whileFuel, hc], hP, hc⟩
    | true =>
      obtain ⟨hP', hlt⟩ := hstep s hP hc
      obtain ⟨s', h1, h2, h3⟩ := ih (body s) hP' (by omega)
      exact ⟨s', by simp [whileFuel, hc, h1], h2, h3⟩

end GambitV
