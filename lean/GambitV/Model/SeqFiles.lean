import GambitV.Model.PyRt
import GambitV.Model.Cli

/-!
Model of `gambit.util.io.read_lines` and `gambit.cli.common.get_sequence_files` with pathlib's normal form made explicit (the coarser
`sequenceFiles` of `Model/Pipeline.lean`, which C08's theorems are about, keeps path text as it is; `Tie/PySeqFiles.lean` relates the two
on paths that are their own normal form).  Core Lean only.
-/
namespace GambitV

/-- `read_lines(file, strip, skip_empty)` over the lines the opened file yields -/
def readLines (lines : List (List Char)) (strip skipEmpty : Bool) : List (List Char) :=
  (lines.map (fun l => if strip then Py.strStrip l else Py.strRstripChar '\n' l)).filter (fun l => !(skipEmpty && l.isEmpty))

/-- `get_file_id(path, strip_dir, strip_ext)` -/
def fileId (stripDir stripExt : Bool) (p : List Char) : List Char :=
  if stripDir then (if stripExt then stripSeqExt (basename p) else basename p) else p

/-- `get_sequence_files`: `(ids, paths to open)`; `none` = neither positional files nor a list file.  Positional paths are labelled from
their pathlib normal form, list-file lines from the (stripped, non-empty) line itself and opened relative to `listfile_dir`. -/
def sequenceFilesP (fileLines : List (List Char)) (explicit : Option (List (List Char))) (hasList : Bool) (ldir : Option (List Char))
    (stripDir stripExt : Bool) : Except Unit (Option (List (List Char) × List (List Char))) :=
  if !(explicit.getD []).isEmpty then
    let ps := (explicit.getD []).map Py.pathStr
    .ok (some (ps.map (fileId stripDir stripExt), ps))
  else if hasList then
    let lines := readLines fileLines true true
    match ldir with
    | some d => .ok (some (lines.map (fileId stripDir stripExt), lines.map (fun l => Py.pathJoin (Py.pathStr d) l)))
    | none => if lines.isEmpty then .ok (some ([], [])) else .error ()      -- `Path(None)`: TypeError
  else .ok none

end GambitV
