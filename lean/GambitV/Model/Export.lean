import GambitV.Model.Csv

/-!
Model of `gambit/results.py`: the CSV column table, and the archive format (database objects are
written as keys only and looked up again by key *within the genome set* when read).  Core Lean only.
-/
namespace GambitV

/-- database objects as far as the exporters see them -/
structure TaxonRec where
  key : List Char
  name : List Char
  rank : Option (List Char)
  ncbiId : Option (List Char)
  threshold : Option (List Char)     -- already rendered (`str(float)`)
  deriving DecidableEq, Repr

structure GenomeRec where
  key : List Char
  description : List Char
  deriving DecidableEq, Repr

structure MatchRec where
  genome : GenomeRec
  distanceBits : Nat                  -- binary32 bit pattern
  distanceText : List Char            -- `str(np.float32)`
  matched : Option TaxonRec
  deriving DecidableEq, Repr

structure ItemRec where
  label : List Char
  report : Option TaxonRec
  next : Option TaxonRec
  closestMatch : MatchRec
  primary : Option MatchRec
  predicted : Option TaxonRec
  closestGenomes : List MatchRec
  success : Bool
  warnings : List (List Char)
  error : Option (List Char)
  deriving DecidableEq, Repr

def optCell (o : Option (List Char)) : List Char := o.getD []

def csvHeader : List (List Char) :=
  ["query", "predicted.name", "predicted.rank", "predicted.ncbi_id", "predicted.threshold", "closest.distance", "closest.description",
   "next.name", "next.rank", "next.ncbi_id", "next.threshold"].map String.toList

/-- `CSVResultsExporter.get_row`: documented columns; `None` anywhere along an attribute path ↦ empty cell -/
def csvRow (it : ItemRec) : List (List Char) :=
  [it.label,
   optCell (it.report.map (·.name)), optCell (it.report.bind (·.rank)), optCell (it.report.bind (·.ncbiId)), optCell (it.report.bind (·.threshold)),
   it.closestMatch.distanceText, it.closestMatch.genome.description,
   optCell (it.next.map (·.name)), optCell (it.next.bind (·.rank)), optCell (it.next.bind (·.ncbiId)), optCell (it.next.bind (·.threshold))]

def queryCsv (items : List ItemRec) : List Char := writeCsv ['\n'] (csvHeader :: items.map csvRow)

/-! ### Archive: keys only -/

structure MatchKeys where
  genome : List Char
  distanceBits : Nat
  matched : Option (List Char)
  deriving DecidableEq, Repr

structure ItemKeys where
  label : List Char
  report : Option (List Char)
  next : Option (List Char)
  closestMatch : MatchKeys
  primary : Option MatchKeys
  predicted : Option (List Char)
  closestGenomes : List MatchKeys
  success : Bool
  warnings : List (List Char)
  error : Option (List Char)
  deriving DecidableEq, Repr

def MatchRec.toKeys (m : MatchRec) : MatchKeys :=
  { genome := m.genome.key, distanceBits := m.distanceBits, matched := m.matched.map (·.key) }

def ItemRec.toKeys (it : ItemRec) : ItemKeys :=
  { label := it.label, report := it.report.map (·.key), next := it.next.map (·.key), closestMatch := it.closestMatch.toKeys,
    primary := it.primary.map MatchRec.toKeys, predicted := it.predicted.map (·.key), closestGenomes := it.closestGenomes.map MatchRec.toKeys,
    success := it.success, warnings := it.warnings, error := it.error }

structure Db where
  taxa : List TaxonRec
  genomes : List GenomeRec

def Db.taxon (db : Db) (k : List Char) : Option TaxonRec := db.taxa.find? (·.key == k)
def Db.genome (db : Db) (k : List Char) : Option GenomeRec := db.genomes.find? (·.key == k)

/-- distance text is a function of the bit pattern (`str(np.float32(bits))`); passed as a parameter -/
def readMatch (db : Db) (render : Nat → List Char) (m : MatchKeys) : Option MatchRec := do
  let g ← db.genome m.genome
  let t ← match m.matched with
    | none => some none
    | some k => (db.taxon k).map some
  pure { genome := g, distanceBits := m.distanceBits, distanceText := render m.distanceBits, matched := t }

def readOptTaxon (db : Db) : Option (List Char) → Option (Option TaxonRec)
  | none => some none
  | some k => (db.taxon k).map some

def readItem (db : Db) (render : Nat → List Char) (it : ItemKeys) : Option ItemRec := do
  let report ← readOptTaxon db it.report
  let next ← readOptTaxon db it.next
  let predicted ← readOptTaxon db it.predicted
  let cm ← readMatch db render it.closestMatch
  let primary ← match it.primary with
    | none => some none
    | some m => (readMatch db render m).map some
  let cg ← it.closestGenomes.mapM (readMatch db render)
  pure { label := it.label, report := report, next := next, closestMatch := cm, primary := primary, predicted := predicted,
         closestGenomes := cg, success := it.success, warnings := it.warnings, error := it.error }

end GambitV
