/-!
Model of `gambit.cluster.linkage_to_bio_tree` (SciPy linkage matrix → rooted binary tree with
branch length = parent height − child height) and an executable *checker* for the printed tree:
structure, ultrametricity and UPGMA validity against the pairwise distance matrix.  The checker is
applied to SciPy's / Biopython's actual output on every run, so neither is trusted; ties between
equal average distances need no replication because any valid merge order passes.
Core Lean only; all quantities are integers (the harness scales every number of a case by a common
factor, exactly).
-/
namespace GambitV

/-! ### The conversion, as the code performs it -/

inductive Clade where
  | leaf (label : Nat) (len : Int)
  | node (left right : Clade) (len : Int)
  deriving Repr, DecidableEq

def Clade.setLen : Clade → Int → Clade
  | .leaf l _, x => .leaf l x
  | .node a b _, x => .node a b x

/-- linkage row: indices of the two clusters merged (leaves `0..n-1`, then rows in order) and the height -/
structure LinkRow where
  left : Nat
  right : Nat
  height : Int
  deriving Repr, DecidableEq

/-- height of cluster `i` (0 for leaves, else the height of its linkage row) -/
def nodeHeight (n : Nat) (link : List LinkRow) (i : Nat) : Int :=
  if i < n then 0 else (link.getD (i - n) ⟨0, 0, 0⟩).height

/-- `linkage_to_bio_tree`: clades = leaves; for each row: set the children's branch lengths to
`height − child height`, append the new clade. Returns all clades; the root is the last one. -/
def buildClades (n : Nat) (link : List LinkRow) : List Clade :=
  link.foldl (fun clades row =>
    let l := (clades.getD row.left (.leaf 0 0)).setLen (row.height - nodeHeight n link row.left)
    let r := (clades.getD row.right (.leaf 0 0)).setLen (row.height - nodeHeight n link row.right)
    clades ++ [Clade.node l r 0]) ((List.range n).map (fun i => Clade.leaf i 0))

def linkageToTree (n : Nat) (link : List LinkRow) : Option Clade := (buildClades n link).getLast?

def Clade.leaves : Clade → List Nat
  | .leaf l _ => [l]
  | .node a b _ => a.leaves ++ b.leaves

def Clade.len : Clade → Int
  | .leaf _ x => x
  | .node _ _ x => x

/-- distance from this clade's node down to each leaf (excluding the clade's own branch) -/
def Clade.depths : Clade → List (Nat × Int)
  | .leaf l _ => [(l, 0)]
  | .node a b _ => (a.depths.map fun p => (p.1, p.2 + a.len)) ++ (b.depths.map fun p => (p.1, p.2 + b.len))

/-- all branch lengths (except the root's own) are non-negative -/
def Clade.nonneg : Clade → Bool
  | .leaf _ _ => true
  | .node a b _ => decide (0 ≤ a.len) && decide (0 ≤ b.len) && a.nonneg && b.nonneg

/-- height of a clade in an ultrametric tree = depth of its first leaf -/
def Clade.height (c : Clade) : Int := (c.depths.head?.map (·.2)).getD 0

/-! ### Checker for a printed tree (general, possibly non-binary, flat encoding) -/

/-- flat node: parent index (none = root), branch length, leaf label index (none = internal) -/
structure FNode where
  parent : Option Nat
  len : Int
  label : Option Nat
  deriving Repr, DecidableEq

def children (t : List FNode) (i : Nat) : List Nat :=
  (List.range t.length).filter (fun j => (t.getD j ⟨none, 0, none⟩).parent == some i)

/-- leaves below node `i` with their distance to `i` (fuel = number of nodes) -/
def below (t : List FNode) : (fuel : Nat) → (i : Nat) → List (Nat × Int)
  | 0, _ => []
  | fuel + 1, i =>
    match (t.getD i ⟨none, 0, none⟩).label with
    | some l => [(l, 0)]
    | none => (children t i).flatMap (fun c => (below t fuel c).map (fun p => (p.1, p.2 + (t.getD c ⟨none, 0, none⟩).len)))

def absInt (x : Int) : Int := if x < 0 then -x else x

/-- sum of D over A × B, and the pair count (average = sum / count) -/
def sumD (D : List (List Int)) (A B : List Nat) : Int :=
  A.foldl (fun acc a => B.foldl (fun acc2 b => acc2 + (D.getD a []).getD b 0) acc) 0

structure TreeVerdict where
  ok : Bool
  why : String

/-- The whole C17 statement as a checker.  `D` = pairwise distances (scaled integers), `nlabels` =
number of input labels (leaf `i` must carry label index `i` exactly once), `tol` = tolerance per
branch on a path (printed precision), in the same scale. -/
def checkTree (t : List FNode) (D : List (List Int)) (nlabels : Nat) (tol : Int) : TreeVerdict :=
  let n := t.length
  let roots := (List.range n).filter (fun i => (t.getD i ⟨none, 0, none⟩).parent.isNone)
  if roots.length ≠ 1 then ⟨false, "not exactly one root"⟩ else
  let root := roots.getD 0 0
  let leafLabels := (List.range n).filterMap (fun i => (t.getD i ⟨none, 0, none⟩).label)
  if leafLabels.length ≠ nlabels ∨ !((List.range nlabels).all (fun l => leafLabels.count l == 1)) then
    ⟨false, "leaves are not exactly the input labels, each once"⟩ else
  let internals := (List.range n).filter (fun i => (t.getD i ⟨none, 0, none⟩).label.isNone)
  if !(internals.all (fun i => (children t i).length == 2)) then ⟨false, "an internal node does not have exactly two children"⟩ else
  if !((List.range n).all (fun i => i == root || decide (0 ≤ (t.getD i ⟨none, 0, none⟩).len))) then ⟨false, "negative branch length"⟩ else
  let depthTol := tol * (n : Int)
  -- heights: every leaf below a node is at (almost) the same distance
  let hts := (List.range n).map (fun i =>
    let b := below t n i
    ((b.head?.map (·.2)).getD 0, b.all (fun p => decide (absInt (p.2 - (b.head?.map (·.2)).getD 0) ≤ depthTol))))
  if !(hts.all (·.2)) then ⟨false, "leaves are not equidistant from some internal node (not ultrametric)"⟩ else
  let h := fun i => (hts.getD i (0, true)).1
  -- UPGMA validity of every merge
  let clusterOf := fun i => (below t n i).map (·.1)
  let bad := internals.filter (fun x =>
    let cs := children t x
    let A := clusterOf (cs.getD 0 0)
    let B := clusterOf (cs.getD 1 0)
    let cnt : Int := (A.length * B.length : Nat)
    -- (a) the merge height is the average distance between the two clusters
    let okAvg := decide (absInt (h x * cnt - sumD D A B) ≤ depthTol * cnt)
    -- (b) minimality: every pair of clusters alive at that moment is at least as far apart.
    --     alive = a node whose own height is ≤ h x and whose parent's height is ≥ h x (up to tolerance)
    let alive := (List.range n).filter (fun i =>
      decide (h i ≤ h x + depthTol) &&
      (match (t.getD i ⟨none, 0, none⟩).parent with
        | some p => decide (h x ≤ h p + depthTol) && p != i
        | none => false))
    let okMin := alive.all (fun p => alive.all (fun q =>
      if p == q then true else
      let P := clusterOf p
      let Q := clusterOf q
      if P.any (fun a => Q.contains a) then true else      -- nested clusters (tolerance overlap): not a pair
      let c : Int := (P.length * Q.length : Nat)
      decide (h x * c ≤ sumD D P Q + 2 * depthTol * c)))
    !(okAvg && okMin))
  if !bad.isEmpty then ⟨false, s!"merge at node(s) {bad} is not a valid average-linkage step"⟩ else
  ⟨true, ""⟩

end GambitV
