import GambitV.Model.Find

/-!
Model of how a genome file's bytes become the list of contig sequences that `calc_file_signature`
searches: compression guess (`util/io.py:guess_compression`), text decoding with universal newlines
(`TextIOWrapper(newline=None)`: `\r\n` and lone `\r` become `\n`), and FASTA record parsing as
Biopython's `FastaIterator` does for the shapes generated (title lines start with `>`, all other
lines are sequence lines whose content is concatenated).  Core Lean only.
-/
namespace GambitV

/-- `guess_compression`: gzip iff the first two bytes are `1f 8b`. The file name plays no role. -/
def guessGzip (content : List UInt8) : Bool :=
  match content with
  | a :: b :: _ => a == 0x1f && b == 0x8b
  | _ => false

/-- universal-newline translation of the decoded text -/
def universalNewlines : List UInt8 → List UInt8
  | [] => []
  | 13 :: 10 :: rest => 10 :: universalNewlines rest
  | 13 :: rest => 10 :: universalNewlines rest
  | c :: rest => c :: universalNewlines rest

/-- split at `\n`; a trailing `\n` does not produce an extra empty line -/
def splitLines (s : List UInt8) : List (List UInt8) :=
  let go := s.foldl (fun (acc : List (List UInt8) × List UInt8) c =>
    if c == 10 then (acc.2.reverse :: acc.1, []) else (acc.1, c :: acc.2)) ([], [])
  (if go.2.isEmpty then go.1 else go.2.reverse :: go.1).reverse

/-- FASTA records (sequence bytes only) of already newline-normalised text.  Lines before the first
title line are ignored (Biopython skips / rejects them; the generator never produces them). -/
def fastaRecords (lines : List (List UInt8)) : List (List UInt8) :=
  let go := lines.foldl (fun (acc : List (List UInt8) × Option (List UInt8)) line =>
    if line.head? == some (62 : UInt8) then           -- title line (starts with >)
      (match acc.2 with | some cur => cur :: acc.1 | none => acc.1, some [])
    else match acc.2 with
      | some cur => (acc.1, some (cur ++ line.filter (fun c => c != 32 && c != 13)))
      | none => acc) ([], none)
  (match go.2 with | some cur => cur :: go.1 | none => go.1).reverse

def parseFasta (content : List UInt8) : List (List UInt8) :=
  fastaRecords (splitLines (universalNewlines content))

/-- the writer used by the generator: title line, sequence wrapped at `width` (0 = one line), line ending `eol`, optional final newline -/
def chunks (width : Nat) (s : List UInt8) : (fuel : Nat) → List (List UInt8)
  | 0 => []
  | fuel + 1 => if s.isEmpty then [] else if width = 0 then [s] else s.take width :: chunks width (s.drop width) fuel

def renderFasta (width : Nat) (eol : List UInt8) (finalNl : Bool) (records : List (List UInt8 × List UInt8)) : List UInt8 :=
  let lines := records.flatMap (fun r => (62 :: r.1) :: chunks width r.2 (r.2.length + 1))
  let body := (lines.intersperse eol).flatten
  if finalNl then body ++ eol else body

end GambitV
