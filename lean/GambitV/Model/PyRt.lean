import GambitV.Model.Kmers
import GambitV.Model.Find
import GambitV.Model.Taxonomy
import GambitV.Model.Cli
import GambitV.Model.Jaccard
import GambitV.Model.Indexing

/-!
Run-time library of the Python → Lean translator (`harness/py2lean.py`).  Core Lean only.

A translated function is a state-passing body `run : St → M St ρ St` over a record `St` holding the
parameters and locals; non-local control (`return`, `break`, `continue`, a raised exception, fuel
exhausted in a `while`) travels in the error channel of `Except`.  The outcome of a function is a
`Res ρ`.  Every CPython/NumPy built-in the translated sources use is a small total function here,
each validated against the real built-in by the `pyrt.*` correspondence stream (harness/props/pyrt.py).
-/
namespace GambitV.Py

/-- exception classes the translated sources can raise or catch -/
inductive Exc
  | ValueError | TypeError | IndexError | KeyError | AttributeError | AssertionError | RuntimeError | Other
  deriving DecidableEq, Repr, Inhabited

def Exc.name : Exc → String
  | .ValueError => "ValueError" | .TypeError => "TypeError" | .IndexError => "IndexError"
  | .KeyError => "KeyError" | .AttributeError => "AttributeError" | .AssertionError => "AssertionError"
  | .RuntimeError => "RuntimeError"
  | .Other => "Exception"

/-- outcome of a translated function -/
inductive Res (α : Type)
  | ok (a : α)
  | raised (e : Exc)
  | fuelOut
  deriving DecidableEq, Repr

/-- non-local control inside a translated body -/
inductive Ctl (σ ρ : Type)
  | ret (r : ρ)
  | brk (s : σ)
  | cont (s : σ)
  | exc (e : Exc)
  | fuel

abbrev M (σ ρ : Type) := Except (Ctl σ ρ)

/-- `if c: raise E` in front of a statement whose evaluation raises under `c` -/
def guard {σ ρ : Type} (c : Bool) (e : Exc) : M σ ρ Unit :=
  if c then .error (.exc e) else .ok ()

/-- use the outcome of a call to another translated function -/
def call {σ ρ α : Type} : Res α → M σ ρ α
  | .ok a => .ok a
  | .raised e => .error (.exc e)
  | .fuelOut => .error .fuel

/-- `for x in xs: body` — the flag is `true` when the loop ran to completion (the `else:` clause runs) -/
def forEach {α σ ρ : Type} : List α → (α → σ → M σ ρ σ) → σ → M σ ρ (σ × Bool)
  | [], _, s => .ok (s, true)
  | x :: xs, body, s =>
    match body x s with
    | .ok s' => forEach xs body s'
    | .error (.cont s') => forEach xs body s'
    | .error (.brk s') => .ok (s', false)
    | .error (.ret r) => .error (.ret r)
    | .error (.exc e) => .error (.exc e)
    | .error .fuel => .error .fuel

/-- `while cond: body`; running out of fuel is a distinct outcome that the tie theorems exclude -/
def whileLoop {σ ρ : Type} : Nat → (σ → M σ ρ Bool) → (σ → M σ ρ σ) → σ → M σ ρ σ
  | 0, _, _, _ => .error .fuel
  | fuel + 1, cond, body, s =>
    match cond s with
    | .error e => .error e
    | .ok false => .ok s
    | .ok true =>
      match body s with
      | .ok s' => whileLoop fuel cond body s'
      | .error (.cont s') => whileLoop fuel cond body s'
      | .error (.brk s') => .ok s'
      | .error (.ret r) => .error (.ret r)
      | .error (.exc e) => .error (.exc e)
      | .error .fuel => .error .fuel

/-- `except E:` — Python's class hierarchy restricted to `Exc` (`Other` stands for `except Exception`) -/
def Exc.catches (handler raised : Exc) : Bool := handler == raised || handler == .Other

/-- `try: m  except E: h` where `m` is a single simple statement (so the state at the raise is the state at entry) -/
def tryExcept {σ ρ α : Type} (m : M σ ρ α) (e : Exc) (h : M σ ρ α) : M σ ρ α :=
  match m with
  | .error (.exc e') => if e.catches e' then h else .error (.exc e')
  | r => r

/-- result of a whole function body: falling off the end yields `dflt` (`None`) -/
def finish {σ ρ : Type} (dflt : σ → Res ρ) : M σ ρ σ → Res ρ
  | .ok s => dflt s
  | .error (.ret r) => .ok r
  | .error (.exc e) => .raised e
  | .error .fuel => .fuelOut
  | .error (.brk _) => .raised .Other
  | .error (.cont _) => .raised .Other

/-! ### built-ins -/

/-- `xs[i]` with a (possibly negative) integer index; `none` = `IndexError` -/
def getItem? {α : Type} (xs : List α) (i : Int) : Option α :=
  let j := if i < 0 then i + xs.length else i
  if j < 0 then none else xs[j.toNat]?

/-- one bound of `xs[a:b]` (step 1): CPython's `PySlice_AdjustIndices` -/
def clampBound (n : Nat) (dflt : Nat) : Option Int → Nat
  | none => dflt
  | some b => if b < 0 then (b + n).toNat else min b.toNat n

/-- `xs[lo:hi]` -/
def slice {α : Type} (xs : List α) (lo hi : Option Int) : List α :=
  let a := clampBound xs.length 0 lo
  let b := clampBound xs.length xs.length hi
  (xs.drop a).take (b - a)

/-- `xs.index(a)`; `none` = `ValueError` -/
def index? {α : Type} [BEq α] : List α → α → Option Nat
  | [], _ => none
  | x :: xs, a => if x == a then some 0 else (index? xs a).map (· + 1)

/-- `enumerate(xs)` -/
def enumerateFrom {α : Type} (i : Nat) : List α → List (Int × α)
  | [] => []
  | x :: xs => ((i : Int), x) :: enumerateFrom (i + 1) xs

def enumerate {α : Type} (xs : List α) : List (Int × α) := enumerateFrom 0 xs

/-- `d.setdefault(k, []).append(v)` on an insertion-ordered dict -/
def dictAppend {κ ν : Type} [BEq κ] : List (κ × List ν) → κ → ν → List (κ × List ν)
  | [], k, v => [(k, [v])]
  | (k', vs) :: rest, k, v => if k' == k then (k', vs ++ [v]) :: rest else (k', vs) :: dictAppend rest k v

/-- `xs[i] = v` for an in-range (possibly negative) index; out of range leaves the list alone (the translation guards it with `IndexError`) -/
def listSet {α : Type} (xs : List α) (i : Int) (v : α) : List α :=
  let j := if i < 0 then i + xs.length else i
  if j < 0 then xs else xs.set j.toNat v

/-- `del xs[i]` for an in-range (possibly negative) index -/
def listDel {α : Type} (xs : List α) (i : Int) : List α :=
  let j := if i < 0 then i + xs.length else i
  if j < 0 then xs else xs.eraseIdx j.toNat

/-- `xs.insert(i, v)`: the position is clamped to `0 … len` (negative positions count from the end) -/
def listInsert {α : Type} (xs : List α) (i : Int) (v : α) : List α :=
  let p := GambitV.pyInsertPos xs.length i
  xs.take p ++ [v] ++ xs.drop p

/-- `d[k]` / `d.get(k)` -/
def dictGet? {κ ν : Type} [BEq κ] : List (κ × ν) → κ → Option ν
  | [], _ => none
  | (k', v) :: rest, k => if k' == k then some v else dictGet? rest k

/-- `d[k] = v` on an insertion-ordered dict: an existing key keeps its position and takes the new value -/
def dictSet {κ ν : Type} [BEq κ] : List (κ × ν) → κ → ν → List (κ × ν)
  | [], k, v => [(k, v)]
  | (k', v') :: rest, k, v => if k' == k then (k', v) :: rest else (k', v') :: dictSet rest k v

/-- `{b: a for a, b in pairs}`-style comprehension: later pairs overwrite earlier ones with the same key -/
def dictFromPairs {κ ν : Type} [BEq κ] (ps : List (κ × ν)) : List (κ × ν) :=
  ps.foldl (fun d p => dictSet d p.1 p.2) []

/-- CPython `bytes.find(pat, start, end)`, bounds adjusted as `ADJUST_INDICES` does; `-1` = not found -/
def bytesFind (hay pat : List UInt8) (start : Int) (stop : Option Int) : Int :=
  let n := hay.length
  let e : Nat := match stop with
    | none => n
    | some e => if e < 0 then (e + n).toNat else min e.toNat n
  let s : Nat := if start < 0 then (start + n).toNat else start.toNat
  match GambitV.bytesFind hay pat s e with
  | some i => (i : Int)
  | none => -1

/-- `bytes.lower()` (ASCII) -/
def lowerByte (b : UInt8) : UInt8 := if 65 ≤ b ∧ b ≤ 90 then b + 32 else b
def lower (s : List UInt8) : List UInt8 := s.map lowerByte

/-- `gambit.seq.NUCLEOTIDES` -/
def NUCLEOTIDES : List UInt8 := [65, 67, 71, 84]

/-- parameters of a `KmerSpec` (`prefix_len`, `total_len` are derived in `KmerSpec.__init__`) -/
structure KSpec where
  k : Int
  pre : List UInt8
  deriving Repr, DecidableEq, Inhabited

/-- a NumPy integer type: kind `'u'` / `'i'` (anything else = not an integer type), item size in bytes, native byte order -/
structure DType where
  kind : Char
  size : Nat
  native : Bool
  deriving Repr, DecidableEq, Inhabited

/-- the types the compiled kernels are instantiated for -/
def DType.kernelOk (d : DType) : Bool := d.kind == 'u' && d.native && (d.size == 2 || d.size == 4 || d.size == 8)

/-- a one-dimensional integer array: its type and its values (as Python integers) -/
structure Arr where
  dtype : DType
  vals : List Int
  deriving Repr, DecidableEq, Inhabited

/-- the values as the kernels read them (non-negative once the array has an unsigned type) -/
def Arr.natVals (a : Arr) : List Nat := a.vals.map Int.toNat

/-- `arr.view(dt)` for a type of the same item size: the same bytes read as the other type (two's complement) -/
def Arr.view (a : Arr) (dt : DType) : Arr :=
  { dtype := dt,
    vals := if dt.kind == 'u' then a.vals.map (fun v => (GambitV.asUnsigned a.dtype.size v : Int)) else a.vals }

/-- a collection of signatures as the distance functions see it: `kind` 0 = a plain Python sequence, 1 = a `SignatureList` or another
`AbstractSignatureArray`, 2 = a `SignatureArray` (one packed values array + bounds) -/
structure Sigs where
  kind : Nat
  dtype : DType
  items : List (List Int)
  deriving Repr, DecidableEq, Inhabited

/-- the signatures as arrays (each in the collection's integer type) -/
def Sigs.arrs (c : Sigs) : List Arr := c.items.map (fun v => { dtype := c.dtype, vals := v })

/-- `SignatureArray.values`: the signatures concatenated -/
def Sigs.values (c : Sigs) : Arr := { dtype := c.dtype, vals := c.items.flatten }

/-- `SignatureArray.bounds`: cumulative lengths, starting at 0 -/
def Sigs.boundsFrom (acc : Int) : List (List Int) → List Int
  | [] => [acc]
  | x :: xs => acc :: Sigs.boundsFrom (acc + x.length) xs
def Sigs.bounds (c : Sigs) : List Int := Sigs.boundsFrom 0 c.items

/-- `c[a:b]` / `c[[i, j, …]]`: the selected signatures as a collection of the same kind (a plain sequence cannot be indexed with a list:
the distance functions wrap it in a `SignatureList` first); `none` = an index is out of range -/
def Sigs.getSlice (c : Sigs) (a b : Int) : Sigs := { c with items := slice c.items (some a) (some b) }
def Sigs.getIdx? (c : Sigs) (idx : List Int) : Option Sigs :=
  (idx.mapM (fun i => getItem? c.items i)).map (fun it => { c with items := it })

/-- an index into a collection: a slice object or a sequence of integers -/
inductive Index
  | slice (a b : Int)
  | ints (l : List Int)
  deriving Repr, DecidableEq, Inhabited

def Sigs.get? (c : Sigs) : Index → Option Sigs
  | .slice a b => some (c.getSlice a b)
  | .ints l => c.getIdx? l

/-- a NumPy array of distances, one- or two-dimensional (`shape = [n]`: `rows = [the n values]`; `shape = [r, c]`: `r` rows of `c` values);
`okDtype` = its type is float32 -/
structure ND where
  okDtype : Bool
  shape : List Nat
  rows : List (List UInt32)
  deriving Repr, DecidableEq, Inhabited

/-- `np.empty(shape, SCORE_DTYPE)` (contents unspecified: zeros here; every cell is written before the array is returned) -/
def ND.empty (shape : List Int) : ND :=
  match shape with
  | [n] => { okDtype := true, shape := [n.toNat], rows := [List.replicate n.toNat 0] }
  | [r, c] => { okDtype := true, shape := [r.toNat, c.toNat], rows := List.replicate r.toNat (List.replicate c.toNat 0) }
  | _ => { okDtype := true, shape := shape.map Int.toNat, rows := [] }

/-- `out.shape != shape` -/
def ND.shapeNe (a : ND) (shape : List Int) : Bool := a.shape.map (fun (n : Nat) => (n : Int)) != shape

/-- the values of a one-dimensional array -/
def ND.vals1 (a : ND) : List UInt32 := a.rows.headD []

/-- `a[i] = v` on a one-dimensional array -/
def ND.set1 (a : ND) (i : Int) (v : UInt32) : ND := { a with rows := [listSet a.vals1 i v] }

/-- `xs[lo:hi] = vals` on a list (NumPy slice assignment of equally many values) -/
def putSlice {α : Type} (xs : List α) (lo hi : Int) (vals : List α) : List α :=
  let a := clampBound xs.length 0 (some lo)
  xs.take a ++ vals ++ xs.drop (a + vals.length)

/-- `a[lo:hi]` as a one-dimensional array (a view in NumPy: what is written into it is written back with `put1`) -/
def ND.view1 (a : ND) (lo hi : Int) : ND :=
  let v := slice a.vals1 (some lo) (some hi)
  { okDtype := a.okDtype, shape := [v.length], rows := [v] }
def ND.put1 (a : ND) (lo hi : Int) (src : ND) : ND := { a with rows := [putSlice a.vals1 lo hi src.vals1] }

/-- `a[i, lo:hi]` of a two-dimensional array as a one-dimensional array, and writing it back -/
def ND.rowView (a : ND) (i lo hi : Int) : ND :=
  let v := slice ((getItem? a.rows i).getD []) (some lo) (some hi)
  { okDtype := a.okDtype, shape := [v.length], rows := [v] }
def ND.putRow (a : ND) (i lo hi : Int) (src : ND) : ND :=
  { a with rows := listSet a.rows i (putSlice ((getItem? a.rows i).getD []) lo hi src.vals1) }

/-- `a[lo:hi, i] = src` (a column segment) -/
def ND.putCol (a : ND) (lo hi i : Int) (src : ND) : ND :=
  let s := clampBound a.rows.length 0 (some lo)
  { a with rows := a.rows.zipIdx.map (fun (ri : List UInt32 × Nat) =>
      if s ≤ ri.2 ∧ ri.2 < s + src.vals1.length then listSet ri.1 i (src.vals1.getD (ri.2 - s) 0) else ri.1) }

/-- `np.fill_diagonal(a, v)` on a two-dimensional array -/
def ND.fillDiagonal (a : ND) (v : UInt32) : ND :=
  { a with rows := a.rows.zipIdx.map (fun (ri : List UInt32 × Nat) => ri.1.set ri.2 v) }

/-- `_jaccarddist_parallel(query, values, bounds, out)`: `out[i] = jaccarddist(query, values[bounds[i]:bounds[i+1]])` for every `i`
(the `prange` loop of metric.pyx, tied by `Tie.Metric.structural_facts`: each iteration writes only its own cell) -/
def parallelDists (query values : Arr) (bounds : List Int) (out : ND) : ND :=
  let n := bounds.length - 1
  { out with rows := [(List.range n).foldl (fun (o : List UInt32) i =>
      o.set i (GambitV.jaccardBits query.natVals ((slice values.vals (some (bounds.getD i 0)) (some (bounds.getD (i + 1) 0))).map Int.toNat))) out.vals1] }

/-- a packed signature collection: the concatenated values and the bounds (`bounds[i] … bounds[i+1]` delimit signature `i`) -/
structure CArr where
  values : List Int
  bounds : List Int
  deriving Repr, DecidableEq, Inhabited

/-- `SignatureArray.uninitialized(lengths, …)`: bounds are the cumulative lengths, the values are not yet written (zeros here) -/
def CArr.boundsOf (acc : Int) : List Int → List Int
  | [] => [acc]
  | l :: ls => acc :: CArr.boundsOf (acc + l) ls
def CArr.uninitialized (lengths : List Int) : CArr :=
  let b := CArr.boundsOf 0 lengths
  { values := List.replicate (b.getLastD 0).toNat 0, bounds := b }

/-- `np.copyto(out[i], x, casting='unsafe')` where `out[i]` is the view `values[bounds[i]:bounds[i+1]]`: the lengths must agree -/
def CArr.putItemBad (c : CArr) (i : Int) (x : List Int) : Bool :=
  match getItem? c.bounds i, getItem? c.bounds (i + 1) with
  | some a, some b => decide ((slice c.values (some a) (some b)).length ≠ x.length)
  | _, _ => true
def CArr.putItem (c : CArr) (i : Int) (x : List Int) : CArr :=
  match getItem? c.bounds i, getItem? c.bounds (i + 1) with
  | some a, some b => { c with values := putSlice c.values a b x }
  | _, _ => c

/-- a k-mer accumulator (`ArrayAccumulator`: a Boolean array of size 4^k; `SetAccumulator`: a Python set): the indices added so far -/
structure Acc where
  isArray : Bool
  k : Nat
  elems : List Nat
  deriving Repr, DecidableEq, Inhabited

def Acc.new (isArray : Bool) (k : Int) : Acc := { isArray := isArray, k := k.toNat, elems := [] }
/-- `accumulator.add(i)`; for the array flavour an index outside the array raises -/
def Acc.addBad (a : Acc) (i : Int) : Bool := decide (i < 0) || (a.isArray && decide ((4 : Int) ^ a.k ≤ i))
def Acc.add (a : Acc) (i : Int) : Acc := { a with elems := a.elems ++ [i.toNat] }
/-- `accumulator.signature()`: the sorted duplicate-free indices (`np.flatnonzero` of the array / the sorted set; the two agree by `C01.accumulators_agree`) -/
def Acc.signature (a : Acc) : List Int := (GambitV.setAccumulate a.elems).map (fun (x : Nat) => (x : Int))

/-- `Bio.Phylo.BaseTree.Clade` as `linkage_to_bio_tree` uses it (a rooted tree is its root clade) -/
structure Clade where
  name : Option Nat
  branch_length : Option Int
  clades : List Clade
  deriving Repr, Inhabited

/-- `gambit.classify.GenomeMatch` (reference genomes are indices into the list of genome taxa) -/
structure GenomeMatch where
  genome : Nat
  distance : Nat
  matched_taxon : Option Nat
  deriving Repr, DecidableEq, Inhabited

/-- `gambit.classify.ClassifierResult` without `next_taxon` (an attrs default computed by `GenomeMatch.next_taxon`, tied separately);
messages are identified by their first literal piece -/
structure ClassifierResult where
  success : Bool
  predicted_taxon : Option Nat
  primary_match : Option GenomeMatch
  closest_match : GenomeMatch
  warnings : List String
  error : Option String
  deriving Repr, DecidableEq, Inhabited

/-- `gambit.query.QueryParams` -/
structure QueryParams where
  classify_strict : Bool
  chunksize : Option Int
  report_closest : Int
  deriving Repr, DecidableEq, Inhabited

/-- `gambit.query.QueryResultItem` (`input` is an opaque label) -/
structure QueryResultItem where
  input : Int
  classifier_result : ClassifierResult
  report_taxon : Option Nat
  closest_genomes : List GenomeMatch
  deriving Repr, DecidableEq, Inhabited

/-- `validate_dna_seq_bytes`: only the four upper-case nucleotide codes -/
def validDna (b : List UInt8) : Bool := b.all (fun c => c == 65 || c == 67 || c == 71 || c == 84)
/-- `str.upper()` / `str.encode('ascii')` on text (ASCII letters; `encode` raises on a non-ASCII character) -/
def strUpper (s : List Char) : List Char := s.map Char.toUpper
def isAscii (s : List Char) : Bool := s.all (fun c => c.toNat < 128)
def encodeAscii (s : List Char) : List UInt8 := s.map (fun c => UInt8.ofNat c.toNat)

/-- `a // b` (floor division) and `a % b` of Python for `b ≠ 0` -/
def floorDiv (a b : Int) : Int := Int.fdiv a b
def pyMod (a b : Int) : Int := Int.fmod a b


/-! ### A dynamically typed index expression, as `AdvancedIndexingMixin.__getitem__` sees it

The harness describes the object it passes by what Python and NumPy themselves say about it (`isinstance`, `len`, `np.asarray`), not by
how it was generated: the classification is then done by the translated source. -/

/-- what the code reads of an `np.ndarray` index: `ndim`, `dtype.kind`, `len` and, for a one-dimensional integer / Boolean array, the entries -/
structure NdArr where
  ndim : Nat
  kind : Char
  len0 : Nat
  ints : List Int
  bools : List Bool
  deriving Repr, DecidableEq, Inhabited

inductive IdxVal
  | int (i : Int)                                   -- `int` / `np.integer`
  | slice (a b c : Option (Option Int))             -- per field: `none` = None, `some none` = an object that is not an integer, `some (some i)`
  | nd (a : NdArr)                                  -- an `np.ndarray`
  | sized (len : Nat) (special : Bool) (asarr : Option NdArr)   -- any other object with a `len`; `special` = str / bytes / Mapping / Set;
                                                    -- `asarr` = what `np.asarray` makes of it (`none`: it raises)
  | unsized                                         -- `len()` raises `TypeError` (float, None, …)
  deriving Repr, DecidableEq, Inhabited

namespace IdxVal
def isInt : IdxVal → Bool | .int _ => true | _ => false
def isSlice : IdxVal → Bool | .slice .. => true | _ => false
def isNd : IdxVal → Bool | .nd _ => true | _ => false
def isSpecial : IdxVal → Bool | .sized _ sp _ => sp | _ => false
def getInt : IdxVal → Int | .int i => i | _ => 0
/-- `len(index)`: `none` = `TypeError` -/
def len? : IdxVal → Option Nat
  | .nd a => if a.ndim = 0 then none else some a.len0
  | .sized n _ _ => some n
  | _ => none
def sliceFields : IdxVal → List (Option (Option Int))
  | .slice a b c => [a, b, c]
  | _ => []
def fieldIsInt (f : Option (Option Int)) : Bool := match f with | some (some _) => true | _ => false
def fieldInt? (f : Option (Option Int)) : Option Int := match f with | some (some i) => some i | _ => none
def sliceHasOther : IdxVal → Bool
  | .slice a b c => (a == some none) || (b == some none) || (c == some none)
  | _ => true
def sliceTuple : IdxVal → Option Int × Option Int × Option Int
  | .slice a b c => (fieldInt? a, fieldInt? b, fieldInt? c)
  | _ => (none, none, none)
/-- `index.step == 0` (a non-integer step is not equal to 0; only exact numeric zero would be, which the harness never builds) -/
def stepIsZero : IdxVal → Bool
  | .slice _ _ c => c == some (some 0)
  | _ => false
def emptyInt : IdxVal := .nd { ndim := 1, kind := 'i', len0 := 0, ints := [], bools := [] }
def asarrayFails : IdxVal → Bool
  | .sized _ _ none => true
  | .unsized => false      -- a scalar / None becomes a 0-d array
  | _ => false
def asarray : IdxVal → IdxVal
  | .sized _ _ (some a) => .nd a
  | .nd a => .nd a
  | .int i => .nd { ndim := 0, kind := 'i', len0 := 0, ints := [i], bools := [] }
  | _ => .nd { ndim := 0, kind := 'O', len0 := 0, ints := [], bools := [] }
def arr : IdxVal → NdArr | .nd a => a | _ => default
def ndim (v : IdxVal) : Int := (v.arr.ndim : Int)
def kind (v : IdxVal) : Char := v.arr.kind
def ints (v : IdxVal) : List Int := v.arr.ints
def bools (v : IdxVal) : List Bool := v.arr.bools
/-- `index.astype(np.intp)`: a signed 64-bit copy (values ≥ 2^63 of an unsigned array wrap) -/
def astypeIntp : IdxVal → IdxVal
  | .nd a => .nd { a with kind := 'i', ints := a.ints.map (fun v => if v ≥ 9223372036854775808 then v - 18446744073709551616 else v) }
  | v => v
def ltZero (v : IdxVal) : List Bool := v.ints.map (fun x => decide (x < 0))
/-- `np.add(index, n, out=index, where=mask)` -/
def addWhere (v : IdxVal) (n : Int) (mask : List Bool) : IdxVal :=
  match v with
  | .nd a => .nd { a with ints := List.zipWith (fun x (m : Bool) => if m then x + n else x) a.ints mask }
  | v => v
end IdxVal

/-- the result of `__getitem__` on a packed collection: one signature or a new collection -/
inductive CSel
  | one (x : List Int)
  | many (c : CArr)
  deriving Repr, DecidableEq, Inhabited


/-- the result of `__getitem__` on a list-backed collection: one signature or a new list -/
inductive LSel
  | one (x : List Int)
  | many (xs : List (List Int))
  deriving Repr, DecidableEq, Inhabited


/-! ### Attribute walks over an object graph (`getattr_nested`) -/

/-- an object as `getattr` sees it: `None`, a value without further attributes (shown as its text), or a record of named attributes -/
inductive Obj
  | none
  | text (t : List Char)
  | record (fields : List (List Char × Obj))
  deriving Repr, Inhabited

def Obj.isNone : Obj → Bool | .none => true | _ => false
/-- `getattr(obj, name)`: `none` = `AttributeError` -/
def Obj.getattr? : Obj → List Char → Option Obj
  | .record fs, a => (fs.find? (fun f => f.1 == a)).map (·.2)
  | _, _ => Option.none

/-- `s.split(sep)` for a one-character separator: the pieces between separators (always at least one piece) -/
def splitOnChar (sep : Char) : List Char → List (List Char)
  | [] => [[]]
  | c :: cs =>
    match splitOnChar sep cs with
    | [] => [[]]      -- unreachable
    | p :: ps => if c == sep then [] :: p :: ps else (c :: p) :: ps

/-- `pathlib.PurePath.suffix` of a file name without directory separators: from the last dot on, unless that dot is the first or the last character -/
def pathSuffix (name : List Char) : List Char :=
  let n := name.length
  match (List.range n).reverse.find? (fun i => name.getD i ' ' == '.') with
  | some i => if 0 < i ∧ i < n - 1 then name.drop i else []
  | none => []

/-! ### Text and paths (`read_lines`, `get_sequence_files`) -/

/-- `str.isspace()` of one character (CPython 3.12: the 29 code points with the Unicode white-space property or bidirectional type WS/B/S) -/
def isSpace (c : Char) : Bool :=
  let n := c.toNat
  (9 ≤ n && n ≤ 13) || (28 ≤ n && n ≤ 32) || n == 133 || n == 160 || n == 5760 || (8192 ≤ n && n ≤ 8202)
    || n == 8232 || n == 8233 || n == 8239 || n == 8287 || n == 12288

/-- `s.strip()` -/
def strStrip (s : List Char) : List Char := ((s.dropWhile isSpace).reverse.dropWhile isSpace).reverse

/-- `s.rstrip(c)` for a one-character argument -/
def strRstripChar (c : Char) (s : List Char) : List Char := (s.reverse.dropWhile (· == c)).reverse

/-- `str(pathlib.PurePosixPath(s))`: the root is `//` for exactly two leading slashes, `/` for any other positive number; empty and `.`
components go; no trailing slash; the empty path is `.` -/
def pathStr (s : List Char) : List Char :=
  let lead := (s.takeWhile (· == '/')).length
  let root : List Char := if lead == 2 then ['/', '/'] else if lead ≥ 1 then ['/'] else []
  let parts := (splitOnChar '/' s).filter (fun p => !p.isEmpty && p != ['.'])
  let body := ['/'].intercalate parts
  if root.isEmpty && parts.isEmpty then ['.'] else root ++ body

/-- `str(Path(a) / b)` for `a` already in normal form: an absolute `b` replaces `a` -/
def pathJoin (a b : List Char) : List Char :=
  if b.head? == some '/' then pathStr b
  else if a.getLast? == some '/' then pathStr (a ++ b) else pathStr (a ++ ['/'] ++ b)

/-- `format(d, fmt)` of a binary32 distance: only the format the distance matrix is written with is modelled -/
def formatKnown (fmt : List Char) : Bool := fmt == "0.4f".toList
def formatScore (_fmt : List Char) (b : UInt32) : List Char := (GambitV.F32.fmt4 b).toList

end GambitV.Py
