import GambitV.Model.Kmers

/-!
Model of `gambit.kmers.find_kmers`, `KmerMatch.kmer_indices/kmer_index`, and of
`gambit.sigs.calc.accumulate_kmers / calc_signature` with both accumulators.  Core Lean only.

The search loops are modelled as they are written: repeated `bytes.find` from `start = loc + 1`,
with the end bound `-k` (forward) and the start bound `k` (reverse).
-/
namespace GambitV

/-- `hay[i : i+|pat|] == pat` (false when the window runs past the end, for non-empty `pat`). -/
def matchAt (hay pat : List UInt8) (i : Nat) : Bool :=
  (hay.drop i).take pat.length == pat

/-- CPython `bytes.find(pat, start, stop)` for non-empty `pat` and already-normalised bounds
`0 ≤ start`, `0 ≤ stop ≤ len`: the lowest `i ≥ start` with `i + |pat| ≤ stop` and a match at `i`. -/
def bytesFind (hay pat : List UInt8) (start stop : Nat) : Option Nat :=
  (List.range' start (stop + 1 - pat.length - start)).find? (matchAt hay pat)

/-- CPython's normalisation of a negative `end` argument `-k` (k ≥ 0): `max 0 (len - k)`. -/
def pyEndNeg (len k : Nat) : Nat := len - k

/-- "Convert to uppercase only if needed": upper-case the whole haystack iff it contains one of
`acgt` (kmers.py:202-207). -/
def haystack (s : List UInt8) : List UInt8 :=
  if s.any (fun c => c == 97 || c == 99 || c == 103 || c == 116) then upper s else s

/-- The generic "find, record, restart one past the hit" loop. -/
def findLoop (hay pat : List UInt8) (stop : Nat) : (fuel : Nat) → (start : Nat) → List Nat
  | 0, _ => []
  | fuel + 1, start =>
    match bytesFind hay pat start stop with
    | none => []
    | some loc => loc :: findLoop hay pat stop fuel (loc + 1)

/-- Forward matches: positions of the prefix (kmers.py:209-219). -/
def fwdMatches (k : Nat) (pre hay : List UInt8) : List Nat :=
  findLoop hay pre (pyEndNeg hay.length k) (hay.length + 1) 0

/-- Reverse matches: positions `loc` of `revcomp prefix`, searched from offset `k` to the end
(kmers.py:221-232).  (`KmerMatch.pos` is `loc + |pre| - 1`; the slice arithmetic below is in terms of `loc`.) -/
def revMatches (k : Nat) (pre hay : List UInt8) : List Nat :=
  findLoop hay (revcomp pre) hay.length (hay.length + 1) k

/-- `seq[a : b]` for `0 ≤ a ≤ b`. -/
def pySlice (s : List UInt8) (a b : Nat) : List UInt8 := (s.drop a).take (b - a)

/-- Forward `KmerMatch.kmer_indices`: `slice(pos + prefix_len, pos + total_len)`. -/
def fwdKmer (k p : Nat) (s : List UInt8) (pos : Nat) : List UInt8 := pySlice s (pos + p) (pos + p + k)

/-- Reverse `KmerMatch.kmer_indices` with `pos = loc + p - 1`:
`slice(pos - total_len + 1, pos - prefix_len + 1) = slice(loc - k, loc)`. -/
def revKmer (k : Nat) (s : List UInt8) (loc : Nat) : List UInt8 := pySlice s (loc - k) loc

/-- Indices contributed by one sequence, in the order the code adds them.  A `ValueError` from the
encoder (invalid byte, or more than 32 bytes) makes `accumulate_kmers` skip the match. -/
def seqIndices (k : Nat) (pre s : List UInt8) : List Nat :=
  let hay := haystack s
  (fwdMatches k pre hay).filterMap (fun loc => (kmerToIndex (fwdKmer k pre.length s loc)).toOption) ++
  (revMatches k pre hay).filterMap (fun loc => (kmerToIndexRc (revKmer k s loc)).toOption)

/-- All indices added to the (shared) accumulator. -/
def allIndices (k : Nat) (pre : List UInt8) (seqs : List (List UInt8)) : List Nat :=
  seqs.flatMap (seqIndices k pre)

/-! ### Accumulators -/

def insertSorted (x : Nat) : List Nat → List Nat
  | [] => [x]
  | y :: ys => if x < y then x :: y :: ys else if x = y then y :: ys else y :: insertSorted x ys

/-- `SetAccumulator`: a set, then `np.fromiter` + in-place `sort` — sorted, duplicate-free. -/
def setAccumulate (l : List Nat) : List Nat := l.foldr insertSorted []

/-- `ArrayAccumulator`: a dense bitmap of size `4^k`, then `np.flatnonzero`. -/
def arrayAccumulate (k : Nat) (l : List Nat) : List Nat :=
  (List.range (4 ^ k)).filter (fun x => l.contains x)

def signature (k : Nat) (pre : List UInt8) (seqs : List (List UInt8)) : List Nat :=
  setAccumulate (allIndices k pre seqs)

def signatureArrayAcc (k : Nat) (pre : List UInt8) (seqs : List (List UInt8)) : List Nat :=
  arrayAccumulate k (allIndices k pre seqs)

end GambitV
