/-!
Model of `gambit/db/refdb.py`: `genomes_by_id_subset`, `ReferenceDatabase.__init__`,
`ReferenceDatabase.locate_files`.  Core Lean only.

IDs (strings or integers in the real code) are abstracted to naturals by the harness (equal values ↔
equal codes).
-/
namespace GambitV

inductive LoadErr where
  | typeError      -- id_attr is None
  | valueError     -- id_attr not one of Genome.ID_ATTRS, or genomes left unmatched
  | runtimeError   -- a genome has no value for the ID attribute
  deriving DecidableEq, Repr

/-- `genomes_by_id_subset`: for each position `p` of the signature file whose ID is the ID of a
genome, the pair (genome index, `p`), in file order. -/
def matchIds (genomeIds sigIds : List Nat) : List (Nat × Nat) :=
  (List.range sigIds.length).filterMap fun p =>
    match sigIds[p]? with
    | some id => (genomeIds.idxOf? id).map (fun g => (g, p))
    | none => none

/-- `ReferenceDatabase.__init__`.  `idAttr`: `none` = metadata names no attribute; `some false` = a
name that is not a `Genome` ID attribute; `some true` = valid.  `genomeIds[g] = none` = genome `g`
has no value for the attribute. -/
def loadDb (idAttr : Option Bool) (genomeIds : List (Option Nat)) (sigIds : List Nat) :
    Except LoadErr (List (Nat × Nat)) :=
  match idAttr with
  | none => .error .typeError
  | some false => .error .valueError
  | some true =>
    if genomeIds.any (·.isNone) then .error .runtimeError
    else
      let G := genomeIds.filterMap id
      let m := matchIds G sigIds
      if m.length ≠ genomeIds.length then .error .valueError else .ok m

/-- `pathlib.PurePath.suffix` of a file name (no directory separators). -/
def pathSuffix (name : List Char) : List Char :=
  let n := name.length
  match (List.range n).reverse.find? (fun i => name.getD i ' ' == '.') with
  | some i => if 0 < i ∧ i < n - 1 then name.drop i else []
  | none => []

def isGenomesFile (name : List Char) : Bool :=
  pathSuffix name == ".gdb".toList || pathSuffix name == ".db".toList

def isSignaturesFile (name : List Char) : Bool :=
  pathSuffix name == ".gs".toList || pathSuffix name == ".h5".toList

/-- `locate_files`: exactly one genome file and exactly one signature file, else `DatabaseLoadError`. -/
def locateFiles (names : List (List Char)) : Option (List Char × List Char) :=
  match names.filter isGenomesFile, names.filter isSignaturesFile with
  | [g], [s] => some (g, s)
  | _, _ => none

end GambitV
