/-!
Model of the JSON side of `gambit/results.py` (C11): what `json.dump(results, f, default=exporter.to_json)` writes for the two JSON
exporters.  Core Lean only.

* `PVal` — a Python value as the encoder sees it: JSON-native values, containers, *hooked* objects (datetime, `Path`: the converter's
  registered hook turns them into a string) and instances of classes (`attrs` classes carry their fields in declaration order, other
  classes — the ORM models — the attributes the exporters may read).
* `Json` — what `json.loads` gives back (floats as binary64 bit patterns, integers exact).
* `ToJson` / `JExpr` — the conversion rule an exporter registers for a class (`singledispatchmethod`): a dict of named expressions over
  the object, or `attr.asdict(obj, recurse=False)` minus some keys.  A class without a rule goes to `gambit.util.json.to_json`
  = `cattr.Converter.unstructure`: an `attrs` instance becomes the dict of its fields, *recursively* (nested `attrs` instances do not
  come back to the dispatcher), any other instance passes through unchanged.
* `encode` — `json`'s own recursion: native values as they are, containers element-wise, anything else through `default` and then again.
-/
namespace GambitV.Json

inductive PVal
  | none
  | bool (b : Bool)
  | int (i : Int)
  | float (bits : Nat)                 -- binary64 bit pattern of `float(x)`
  | str (s : List Char)
  | hooked (s : List Char)             -- an object for which the converter has an unstructure hook yielding this string
  | list (xs : List PVal)
  | dict (kvs : List (List Char × PVal))
  | inst (cls : List Char) (isAttrs : Bool) (attrs : List (List Char × PVal))
  deriving Repr, Inhabited

inductive Json
  | null
  | bool (b : Bool)
  | int (i : Int)
  | float (bits : Nat)
  | str (s : List Char)
  | arr (xs : List Json)
  | obj (kvs : List (List Char × Json))
  deriving Repr, Inhabited

/-- expressions the conversion rules are made of (all relative to the object being converted) -/
inductive JExpr
  | attr (path : List (List Char))                               -- `obj.a.b.c`
  | noneIfNone (test : List (List Char)) (e : JExpr)             -- `None if obj.<test> is None else <e>`
  deriving Repr, DecidableEq, Inhabited

inductive ToJson
  | fields (kvs : List (List Char × JExpr))                      -- `dict(k=…, …)`, `_todict(obj, [names])` (+ `data[k] = …`)
  | asdictExcept (drop : List (List Char))                       -- `asdict(obj, recurse=False)` followed by `del data[k]`
  deriving Repr, DecidableEq, Inhabited

abbrev Exporter := List (List Char × ToJson)

def lookup {α : Type} (k : List Char) : List (List Char × α) → Option α
  | [] => Option.none
  | (k', v) :: rest => if k' == k then some v else lookup k rest

/-- `getattr(obj, name)`; `none` = `AttributeError` -/
def PVal.getattr? : PVal → List Char → Option PVal
  | .inst _ _ attrs, a => lookup a attrs
  | _, _ => Option.none

def walk : PVal → List (List Char) → Option PVal
  | v, [] => some v
  | v, a :: rest => (v.getattr? a).bind (fun w => walk w rest)

def JExpr.eval (v : PVal) : JExpr → Option PVal
  | .attr p => walk v p
  | .noneIfNone t e =>
    match walk v t with
    | Option.none => Option.none
    | some .none => some .none
    | some _ => e.eval v

def evalFields (v : PVal) : List (List Char × JExpr) → Option (List (List Char × PVal))
  | [] => some []
  | (k, e) :: rest =>
    match e.eval v, evalFields v rest with
    | some x, some xs => some ((k, x) :: xs)
    | _, _ => Option.none

mutual
/-- `cattr.Converter.unstructure` with the hooks of `gambit.util.json` -/
def unstructure : PVal → PVal
  | .inst _ true attrs => .dict (unstructureFields attrs)
  | .hooked s => .str s
  | .list xs => .list (unstructureList xs)
  | .dict kvs => .dict (unstructureFields kvs)
  | v => v
def unstructureList : List PVal → List PVal
  | [] => []
  | x :: xs => unstructure x :: unstructureList xs
def unstructureFields : List (List Char × PVal) → List (List Char × PVal)
  | [] => []
  | (k, v) :: rest => (k, unstructure v) :: unstructureFields rest
end

/-- `exporter.to_json(obj)` for an object `json` cannot write itself; `none` = the call raises -/
def toJson (ex : Exporter) (v : PVal) : Option PVal :=
  match v with
  | .inst cls isAttrs attrs =>
    match lookup cls ex with
    | some (.fields kvs) => (evalFields v kvs).map .dict
    | some (.asdictExcept drop) => if isAttrs then some (.dict (attrs.filter (fun kv => !drop.contains kv.1))) else Option.none
    | Option.none => if isAttrs then some (unstructure v) else Option.none      -- json: "Circular reference detected" / not serialisable
  | .hooked s => some (.str s)
  | _ => Option.none

mutual
/-- what `json.dump(v, f, default=exporter.to_json)` writes, as `json.loads` reads it back; `none` = the dump raises -/
def encode (ex : Exporter) : Nat → PVal → Option Json
  | _, .none => some .null
  | _, .bool b => some (.bool b)
  | _, .int i => some (.int i)
  | _, .float b => some (.float b)
  | _, .str s => some (.str s)
  | fuel, .list xs => (encodeList ex fuel xs).map .arr
  | fuel, .dict kvs => (encodeFields ex fuel kvs).map .obj
  | 0, _ => Option.none
  | fuel + 1, v => (toJson ex v).bind (encode ex fuel)
def encodeList (ex : Exporter) : Nat → List PVal → Option (List Json)
  | _, [] => some []
  | fuel, x :: xs =>
    match encode ex fuel x, encodeList ex fuel xs with
    | some y, some ys => some (y :: ys)
    | _, _ => Option.none
def encodeFields (ex : Exporter) : Nat → List (List Char × PVal) → Option (List (List Char × Json))
  | _, [] => some []
  | fuel, (k, v) :: rest =>
    match encode ex fuel v, encodeFields ex fuel rest with
    | some y, some ys => some ((k, y) :: ys)
    | _, _ => Option.none
end

/-- nesting of instances below a value never exceeds this in the result objects; the driver uses it as fuel -/
def defaultFuel : Nat := 24

/-! ### the two exporters of `results.py` as the model states them -/

private def c (s : String) : List Char := s.toList
private def a (p : List String) : JExpr := .attr (p.map String.toList)
private def todict (names : List String) : List (List Char × JExpr) := names.map (fun n => (n.toList, a [n]))

/-- `JSONResultsExporter` -/
def jsonExporter : Exporter :=
  [(c "QueryResults", .asdictExcept [c "params"]),
   (c "QueryResultItem", .fields [(c "query", a ["input"]), (c "predicted_taxon", a ["report_taxon"]),
                                  (c "next_taxon", a ["classifier_result", "next_taxon"]), (c "closest_genomes", a ["closest_genomes"])]),
   (c "QueryInput", .fields [(c "name", a ["label"]), (c "path", .noneIfNone [c "file"] (a ["file", "path"])),
                             (c "format", .noneIfNone [c "file"] (a ["file", "format"]))]),
   (c "ReferenceGenomeSet", .fields (todict ["id", "key", "version", "name", "description"])),
   (c "Taxon", .fields (todict ["id", "key", "name", "ncbi_id", "rank", "distance_threshold"])),
   (c "AnnotatedGenome", .fields (todict ["key", "description", "organism", "ncbi_db", "ncbi_id", "genbank_acc", "refseq_acc"]
                                   ++ [(c "id", a ["genome_id"]), (c "taxonomy", a ["taxon", "ancestors(incself=True)"])]))]

/-- `ResultsArchiveWriter`: database objects as keys only, everything else through the converter -/
def archiveExporter : Exporter :=
  [(c "ReferenceGenomeSet", .fields (todict ["key", "version"])),
   (c "Taxon", .fields (todict ["key"])),
   (c "AnnotatedGenome", .fields (todict ["key"]))]

/-! ### reading a JSON value -/

def Json.get? : Json → List Char → Option Json
  | .obj kvs, k => lookup k kvs
  | _, _ => Option.none

def Json.path? : Json → List (List Char) → Option Json
  | j, [] => some j
  | j, k :: rest => (j.get? k).bind (fun x => x.path? rest)

mutual
/-- equality of JSON values up to the order of object members (keys are unique in everything the exporters write) -/
def Json.eqv : Json → Json → Bool
  | .null, .null => true
  | .bool x, .bool y => x == y
  | .int x, .int y => x == y
  | .float x, .float y => x == y
  | .str x, .str y => x == y
  | .arr xs, .arr ys => eqvList xs ys
  | .obj xs, .obj ys => xs.length == ys.length && subFields xs ys
  | _, _ => false
def eqvList : List Json → List Json → Bool
  | [], [] => true
  | x :: xs, y :: ys => x.eqv y && eqvList xs ys
  | _, _ => false
/-- every member of the first object is a member of the second, with an equivalent value -/
def subFields : List (List Char × Json) → List (List Char × Json) → Bool
  | [], _ => true
  | (k, v) :: rest, ys =>
    (match lookup k ys with
     | some w => v.eqv w
     | Option.none => false) && subFields rest ys
end

end GambitV.Json
