import GambitV.Model.JsonResults

/-!
The reading side of the archive format at the level of the JSON document (`ResultsArchiveReader`: the converter structures every
`attrs` class field by field, by name; the three database classes are looked up by key within the genome set of the archive —
`_structure_taxon`, `_structure_genome`; `Tie/PyArchiveReader.lean` pins these methods).  Core Lean only.
-/
namespace GambitV.Json

private def c (s : String) : List Char := s.toList

/-- the genome set the archive names, as far as an item needs it: its taxa and annotated genomes -/
structure JDb where
  taxa : List JTaxon
  genomes : List JGenome
  deriving Repr

/-- `session.query(Taxon).filter_by(genome_set_id=…, key=key).one()` (keys are unique within a genome set) -/
def JDb.taxon (db : JDb) (k : List Char) : Option JTaxon := db.taxa.find? (fun t => t.key == k)
def JDb.genome (db : JDb) (k : List Char) : Option JGenome := db.genomes.find? (fun g => g.key == k)

/-- `data['key']` of an archived database object -/
def readKey : Json → Option (List Char)
  | .obj kvs => match lookup "key".toList kvs with
    | some (.str k) => some k
    | _ => Option.none
  | _ => Option.none

def readOptTaxon (db : JDb) : Json → Option (Option JTaxon)
  | .null => some Option.none
  | j => ((readKey j).bind db.taxon).map some

def readStr : Json → Option (List Char)
  | .str s => some s
  | _ => Option.none
def readOptStr : Json → Option (Option (List Char))
  | .null => some Option.none
  | .str s => some (some s)
  | _ => Option.none
def readFloat : Json → Option Nat
  | .float b => some b
  | _ => Option.none
def readBool : Json → Option Bool
  | .bool b => some b
  | _ => Option.none

def readMatch (db : JDb) (j : Json) : Option JMatch := do
  let g ← ((j.get? "genome".toList).bind readKey).bind db.genome
  let d ← (j.get? "distance".toList).bind readFloat
  let m ← (j.get? "matched_taxon".toList).bind (readOptTaxon db)
  pure { genome := g, distance := d, matched := m }

def readOptMatch (db : JDb) : Json → Option (Option JMatch)
  | .null => some Option.none
  | j => (readMatch db j).map some

def readFile : Json → Option (Option JFile)
  | .null => some Option.none
  | j => do
    let p ← (j.get? "path".toList).bind readStr
    let f ← (j.get? "format".toList).bind readStr
    let cpr ← (j.get? "compression".toList).bind readOptStr
    pure (some { path := p, format := f, compression := cpr })

def readList {α : Type} (f : Json → Option α) : Json → Option (List α)
  | .arr xs => xs.mapM f
  | _ => Option.none

/-- one archived item, structured field by field and resolved against the genome set -/
def readItem (db : JDb) (j : Json) : Option JItem := do
  let inp ← j.get? "input".toList
  let label ← (inp.get? "label".toList).bind readStr
  let file ← (inp.get? "file".toList).bind readFile
  let cr ← j.get? "classifier_result".toList
  let success ← (cr.get? "success".toList).bind readBool
  let predicted ← (cr.get? "predicted_taxon".toList).bind (readOptTaxon db)
  let primary ← (cr.get? "primary_match".toList).bind (readOptMatch db)
  let closestMatch ← (cr.get? "closest_match".toList).bind (readMatch db)
  let next ← (cr.get? "next_taxon".toList).bind (readOptTaxon db)
  let warnings ← (cr.get? "warnings".toList).bind (readList readStr)
  let error ← (cr.get? "error".toList).bind readOptStr
  let report ← (j.get? "report_taxon".toList).bind (readOptTaxon db)
  let closest ← (j.get? "closest_genomes".toList).bind (readList (readMatch db))
  pure { label := label, file := file, success := success, predicted := predicted, primary := primary, closestMatch := closestMatch,
         next := next, warnings := warnings, error := error, report := report, closest := closest }

/-- every database object an item mentions is what the genome set holds under its key -/
def MatchIn (db : JDb) (m : JMatch) : Prop := db.genome m.genome.key = some m.genome ∧ ∀ t, m.matched = some t → db.taxon t.key = some t

def ItemIn (db : JDb) (it : JItem) : Prop :=
  (∀ t, it.predicted = some t → db.taxon t.key = some t) ∧ (∀ t, it.next = some t → db.taxon t.key = some t)
  ∧ (∀ t, it.report = some t → db.taxon t.key = some t) ∧ (∀ m, it.primary = some m → MatchIn db m) ∧ MatchIn db it.closestMatch
  ∧ ∀ m ∈ it.closest, MatchIn db m

end GambitV.Json
