/-
Model of `src/gambit/_cython/kmers.pyx` (k-mer <-> index conversion, reverse complement) and of the
Python wrappers in `src/gambit/kmers.py` (`kmer_to_index`, `kmer_to_index_rc`, `index_to_kmer`,
`index_dtype`).  Core Lean only.

Byte strings are `List UInt8`.  Indices are `Nat` in the mathematical model and `UInt64` in the
machine-level mirror of the shift-and-add loop (`encodeU64`); `Props/C07` proves they agree for
`|s| ≤ 32`, which is the guard the wrapper enforces.
-/
namespace GambitV

/-- Digit of a nucleotide byte after the case fold `& 0b11011111` (kmers.pyx:42-53). -/
def nucCode (b : UInt8) : Option Nat :=
  let u := b &&& 0xDF
  if u = 65 then some 0        -- 'A'
  else if u = 67 then some 1   -- 'C'
  else if u = 71 then some 2   -- 'G'
  else if u = 84 then some 3   -- 'T'
  else none

/-- Upper-case nucleotide letter of a digit (kmers.pyx:124-131; anything ≥ 3 is 'T'). -/
def nucLetter (d : Nat) : UInt8 :=
  if d = 0 then 65 else if d = 1 then 67 else if d = 2 then 71 else 84

/-- Shift-and-add encoder, first base most significant. `none` = invalid byte. -/
def encodeFrom (acc : Nat) : List UInt8 → Option Nat
  | [] => some acc
  | b :: bs =>
    match nucCode b with
    | some d => encodeFrom (acc * 4 + d) bs
    | none => none

def encode (s : List UInt8) : Option Nat := encodeFrom 0 s

/-- Same loop with the complemented digit (`A→3, C→2, G→1, T→0`). -/
def encodeCompFrom (acc : Nat) : List UInt8 → Option Nat
  | [] => some acc
  | b :: bs =>
    match nucCode b with
    | some d => encodeCompFrom (acc * 4 + (3 - d)) bs
    | none => none

/-- `c_kmer_to_index_rc`: reads the k-mer from the end (`kmer[k-i-1]`) with complemented digits. -/
def encodeRc (s : List UInt8) : Option Nat := encodeCompFrom 0 s.reverse

/-- `c_index_to_kmer`: `k` digits, least significant written last. -/
def decode (idx : Nat) : (k : Nat) → List UInt8
  | 0 => []
  | k + 1 => decode (idx / 4) k ++ [nucLetter (idx % 4)]

/-- Complement of one byte, case preserved, other bytes fixed (kmers.pyx:176-195). -/
def comp (b : UInt8) : UInt8 :=
  if b = 65 then 84 else if b = 97 then 116
  else if b = 84 then 65 else if b = 116 then 97
  else if b = 71 then 67 else if b = 103 then 99
  else if b = 67 then 71 else if b = 99 then 103
  else b

def revcomp (s : List UInt8) : List UInt8 := (s.map comp).reverse

/-- Python `bytes.upper()` restricted to one byte (ASCII only). -/
def upperByte (b : UInt8) : UInt8 := if 97 ≤ b ∧ b ≤ 122 then b - 32 else b

def upper (s : List UInt8) : List UInt8 := s.map upperByte

/-! ### Machine-level mirror (64-bit accumulator) -/

def encodeU64From (acc : UInt64) : List UInt8 → Option UInt64
  | [] => some acc
  | b :: bs =>
    match nucCode b with
    | some d => encodeU64From ((acc <<< 2) + UInt64.ofNat d) bs
    | none => none

def encodeU64 (s : List UInt8) : Option UInt64 := encodeU64From 0 s

/-! ### Python wrappers -/

inductive KmerErr where
  | tooLong      -- ValueError('k must be <= 32')
  | invalidChar  -- ValueError('Invalid character in k-mer')
  deriving DecidableEq, Repr

def kmerToIndex (s : List UInt8) : Except KmerErr Nat :=
  if s.length > 32 then .error .tooLong
  else match encode s with
    | some i => .ok i
    | none => .error .invalidChar

def kmerToIndexRc (s : List UInt8) : Except KmerErr Nat :=
  if s.length > 32 then .error .tooLong
  else match encodeRc s with
    | some i => .ok i
    | none => .error .invalidChar

/-- `index_dtype(k)`: item size in bytes of the smallest unsigned type holding `4^k - 1`
(`none` for k > 32). -/
def indexDtypeBytes (k : Nat) : Option Nat :=
  if k ≤ 4 then some 1 else if k ≤ 8 then some 2 else if k ≤ 16 then some 4
  else if k ≤ 32 then some 8 else none

end GambitV
