/-!
Model of `gambit.util.indexing.AdvancedIndexingMixin.__getitem__` and of the two storage
representations in `gambit.sigs.base` (list-backed, concatenated `values` + `bounds`).
Core Lean only.

Python / NumPy behaviour relied on (modelled here, validated against the real functions by the
correspondence run): `slice.indices(n)` (CPython's `PySlice_AdjustIndices`), `numpy.arange` on
integers, `numpy.flatnonzero`, negative-index wrap-around.
-/
namespace GambitV

/-- The forms an index expression can take after `__getitem__`'s classification. -/
inductive Index where
  | int (i : Int)                                   -- `int` / `np.integer`
  | slice (start stop step : Option Int)            -- slice with integer-or-None fields
  | sliceBadType                                    -- slice with a non-integer field
  | ints (l : List Int)                             -- 1-d integer array / sequence (possibly empty)
  | mask (l : List Bool)                            -- 1-d boolean array / non-empty bool sequence
  | badArray                                        -- wrong ndim / dtype, or `np.asarray` failed
  | unsized                                         -- `len(index)` raises (float, None, …)
  deriving Repr, DecidableEq

inductive IdxErr where
  | indexError | typeError | valueError
  deriving Repr, DecidableEq

/-- `_check_index`: wrap a negative index once, then bounds-check. -/
def checkIndex (n : Nat) (i : Int) : Except IdxErr Nat :=
  let i2 := if i < 0 then i + n else i
  if 0 ≤ i2 ∧ i2 < n then .ok i2.toNat else .error .indexError

/-- CPython `PySlice_AdjustIndices` for one bound. -/
def adjustBound (n : Nat) (step : Int) (b : Int) : Int :=
  if b < 0 then
    let b' := b + n
    if b' < 0 then (if step < 0 then -1 else 0) else b'
  else if b ≥ n then (if step < 0 then (n : Int) - 1 else n)
  else b

/-- `slice(start, stop, step).indices(n)` for `step ≠ 0` (`None` step = 1). -/
def sliceIndices (n : Nat) (start stop step : Option Int) : Int × Int × Int :=
  let st := step.getD 1
  let s := match start with
    | some b => adjustBound n st b
    | none => if st < 0 then (n : Int) - 1 else 0
  let e := match stop with
    | some b => adjustBound n st b
    | none => if st < 0 then -1 else n
  (s, e, st)

/-- number of elements of `range(start, stop, step)` -/
def rangeLen (start stop step : Int) : Nat :=
  if step > 0 then (if start < stop then ((stop - start - 1) / step + 1).toNat else 0)
  else if step < 0 then (if stop < start then ((start - stop - 1) / (-step) + 1).toNat else 0)
  else 0

/-- `numpy.arange(start, stop, step)` on integers. -/
def arange (start stop step : Int) : List Int :=
  (List.range (rangeLen start stop step)).map (fun (t : Nat) => start + (t : Int) * step)

/-- positions of `True` (`numpy.flatnonzero`) -/
def flatnonzero (m : List Bool) : List Nat :=
  (List.range m.length).filter (fun i => m.getD i false)

inductive Sel (α : Type) where
  | one (x : α)
  | many (xs : List α)
  deriving Repr, DecidableEq

/-- Integer-array path: every entry is bounds-checked (first failure raises), negatives wrapped. -/
def normIndices (n : Nat) (l : List Int) : Except IdxErr (List Nat) := l.mapM (checkIndex n)

/-- `__getitem__` on a list-backed collection (`SignatureList`), which is also the reference
semantics ("what a plain list would select"). -/
def getItemList {α : Type} [Inhabited α] (xs : List α) : Index → Except IdxErr (Sel α)
  | .int i => do
    let j ← checkIndex xs.length i
    pure (.one (xs.getD j default))
  | .sliceBadType => .error .typeError
  | .slice start stop step =>
    if step = some 0 then .error .valueError else
    let (s, e, st) := sliceIndices xs.length start stop step
    do
      let js ← normIndices xs.length (arange s e st)
      pure (.many (js.map (fun j => xs.getD j default)))
  | .ints l => do
    let js ← normIndices xs.length l
    pure (.many (js.map (fun j => xs.getD j default)))
  | .mask m =>
    if m.length ≠ xs.length then .error .indexError
    else .ok (.many ((flatnonzero m).map (fun j => xs.getD j default)))
  | .badArray => .error .indexError
  | .unsized => .error .typeError

/-! ### Concatenated representation (`SignatureArray`, `HDF5Signatures`) -/

structure Concat where
  values : List Nat
  bounds : List Nat        -- length = number of signatures + 1
  deriving Repr, DecidableEq

def Concat.len (c : Concat) : Nat := c.bounds.length - 1

/-- `_getitem_int`: `values[bounds[i] : bounds[i+1]]` -/
def Concat.get (c : Concat) (i : Nat) : List Nat :=
  (c.values.drop (c.bounds.getD i 0)).take (c.bounds.getD (i + 1) 0 - c.bounds.getD i 0)

def Concat.toList (c : Concat) : List (List Nat) := (List.range c.len).map c.get

/-- Construction from a sequence of signatures via cumulative bounds (`_uninit_arrays` + copy). -/
def Concat.ofList (sigs : List (List Nat)) : Concat :=
  { values := sigs.flatten
    bounds := sigs.foldl (fun acc s => acc ++ [acc.getLastD 0 + s.length]) [0] }

/-- Fast path of `ConcatenatedSignatureArray._getitem_slice` (`step = 1`, `start < stop`):
a view `values[bounds[start] : bounds[stop]]` with re-based bounds. -/
def Concat.sliceView (c : Concat) (start stop : Nat) : Concat :=
  let b0 := c.bounds.getD start 0
  { values := (c.values.drop b0).take (c.bounds.getD stop 0 - b0)
    bounds := ((c.bounds.drop start).take (stop + 1 - start)).map (· - b0) }

/-- `_getitem_int_array`: gather into a fresh concatenated array. -/
def Concat.gather (c : Concat) (js : List Nat) : Concat := Concat.ofList (js.map c.get)

inductive CSel where
  | one (x : List Nat)
  | many (c : Concat)
  deriving Repr, DecidableEq

def getItemConcat (c : Concat) : Index → Except IdxErr CSel
  | .int i => do
    let j ← checkIndex c.len i
    pure (.one (c.get j))
  | .sliceBadType => .error .typeError
  | .slice start stop step =>
    if step = some 0 then .error .valueError else
    let (s, e, st) := sliceIndices c.len start stop step
    if st ≠ 1 ∨ e ≤ s then do
      let js ← normIndices c.len (arange s e st)
      pure (.many (c.gather js))
    else .ok (.many (c.sliceView s.toNat e.toNat))
  | .ints l => do
    let js ← normIndices c.len l
    pure (.many (c.gather js))
  | .mask m =>
    if m.length ≠ c.len then .error .indexError
    else .ok (.many (c.gather (flatnonzero m)))
  | .badArray => .error .indexError
  | .unsized => .error .typeError

def CSel.toSel : CSel → Sel (List Nat)
  | .one x => .one x
  | .many c => .many c.toList

/-! ### `SignatureList` mutation (delegates to a Python `list`) -/

inductive Mut where
  | set (i : Int) (x : List Nat)
  | insert (i : Int) (x : List Nat)
  | del (i : Int)
  deriving Repr

/-- Python `list.insert` clamps the position. -/
def pyInsertPos (n : Nat) (i : Int) : Nat :=
  if i < 0 then (if i + n < 0 then 0 else (i + n).toNat) else (if i > n then n else i.toNat)

def applyMut (xs : List (List Nat)) : Mut → Except IdxErr (List (List Nat))
  | .set i x => do let j ← checkIndex xs.length i; pure (xs.set j x)
  | .insert i x => .ok ((xs.take (pyInsertPos xs.length i)) ++ [x] ++ (xs.drop (pyInsertPos xs.length i)))
  | .del i => do let j ← checkIndex xs.length i; pure (xs.eraseIdx j)

/-- `AbstractSignatureArray.__eq__`: same k-mer parameters and element-wise equal signatures. -/
def sigEq (k1 : Nat) (p1 : List UInt8) (a : List (List Nat)) (k2 : Nat) (p2 : List UInt8) (b : List (List Nat)) : Bool :=
  k1 == k2 && p1 == p2 && a == b

end GambitV
