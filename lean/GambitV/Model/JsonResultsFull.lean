import GambitV.Model.JsonResults

/-!
The whole results object of a query (`gambit.query.QueryResults`) as the JSON exporter sees it, and the whole document it writes:
`items` (`Model/JsonResults.lean`), the genome set, the signatures' metadata, the version string, the time stamp (a `datetime`: hooked)
and the caller's extra metadata (any JSON-native value).  Core Lean only.
-/
namespace GambitV.Json

/-- values `json` writes by itself: no instance of a class anywhere inside (hooked objects allowed: the converter turns them into strings) -/
inductive Plain : PVal → Prop
  | none : Plain .none
  | bool (b : Bool) : Plain (.bool b)
  | int (i : Int) : Plain (.int i)
  | float (b : Nat) : Plain (.float b)
  | str (s : List Char) : Plain (.str s)
  | hooked (s : List Char) : Plain (.hooked s)
  | list (xs : List PVal) : (∀ x ∈ xs, Plain x) → Plain (.list xs)
  | dict (kvs : List (List Char × PVal)) : (∀ kv ∈ kvs, Plain kv.2) → Plain (.dict kvs)

mutual
/-- what is written for a plain value -/
def plainJson : PVal → Json
  | .none => .null
  | .bool b => .bool b
  | .int i => .int i
  | .float b => .float b
  | .str s => .str s
  | .hooked s => .str s
  | .list xs => .arr (plainJsonList xs)
  | .dict kvs => .obj (plainJsonFields kvs)
  | .inst _ _ _ => .null                      -- not plain: never used
def plainJsonList : List PVal → List Json
  | [] => []
  | x :: xs => plainJson x :: plainJsonList xs
def plainJsonFields : List (List Char × PVal) → List (List Char × Json)
  | [] => []
  | (k, v) :: rest => (k, plainJson v) :: plainJsonFields rest
end

structure JGenomeSet where
  id : Int
  key : List Char
  version : Option (List Char)
  name : Option (List Char)
  description : Option (List Char)
  deriving Repr, DecidableEq, Inhabited

structure JSigMeta where
  id : Option (List Char)
  name : Option (List Char)
  version : Option (List Char)
  idAttr : Option (List Char)
  description : Option (List Char)
  extra : List (List Char × PVal)               -- a plain dict
  deriving Repr, Inhabited

structure JResults where
  items : List JItem
  params : PVal                                  -- whatever the parameters are: the JSON exporter leaves them out
  genomeset : JGenomeSet
  sigmeta : JSigMeta
  gambitVersion : List Char
  timestamp : List Char                          -- `datetime.isoformat()`
  extra : List (List Char × PVal)               -- a plain dict
  deriving Repr, Inhabited

def JGenomeSet.toPVal (g : JGenomeSet) : PVal :=
  .inst "ReferenceGenomeSet".toList false
    [("id".toList, .int g.id), ("key".toList, .str g.key), ("version".toList, optStr g.version), ("name".toList, optStr g.name),
     ("description".toList, optStr g.description)]

def JSigMeta.toPVal (m : JSigMeta) : PVal :=
  .inst "SignaturesMeta".toList true
    [("id".toList, optStr m.id), ("name".toList, optStr m.name), ("version".toList, optStr m.version), ("id_attr".toList, optStr m.idAttr),
     ("description".toList, optStr m.description), ("extra".toList, .dict m.extra)]

def JResults.toPVal (r : JResults) : PVal :=
  .inst "QueryResults".toList true
    [("items".toList, .list (r.items.map JItem.toPVal)), ("params".toList, r.params), ("genomeset".toList, r.genomeset.toPVal),
     ("signaturesmeta".toList, r.sigmeta.toPVal), ("gambit_version".toList, .str r.gambitVersion), ("timestamp".toList, .hooked r.timestamp),
     ("extra".toList, .dict r.extra)]

def genomeSetJson (g : JGenomeSet) : Json :=
  .obj [("id".toList, .int g.id), ("key".toList, .str g.key), ("version".toList, jStr g.version), ("name".toList, jStr g.name),
        ("description".toList, jStr g.description)]

def sigMetaJson (m : JSigMeta) : Json :=
  .obj [("id".toList, jStr m.id), ("name".toList, jStr m.name), ("version".toList, jStr m.version), ("id_attr".toList, jStr m.idAttr),
        ("description".toList, jStr m.description), ("extra".toList, .obj (plainJsonFields m.extra))]

/-- the document `JSONResultsExporter.export` writes -/
def resultsJson (r : JResults) : Json :=
  .obj [("items".toList, .arr (r.items.map itemJson)), ("genomeset".toList, genomeSetJson r.genomeset), ("signaturesmeta".toList, sigMetaJson r.sigmeta),
        ("gambit_version".toList, .str r.gambitVersion), ("timestamp".toList, .str r.timestamp), ("extra".toList, .obj (plainJsonFields r.extra))]

end GambitV.Json
