/-!
Model of the concurrent branch of `gambit.sigs.calc.calc_file_signatures`:
submit one task per file, remember `future → index`, and as the futures complete (in *some* order
`σ`) store `sigs[i] = future.result()`; `result()` re-raises a worker's exception.  Core Lean only.
-/
namespace GambitV

/-- one iteration of `for future in as_completed(...)`: `sigs[i] = future.result()` -/
def collectStep {ε α : Type} (result : Nat → Except ε α) (acc : Except ε (List (Option α))) (i : Nat) :
    Except ε (List (Option α)) :=
  match acc with
  | .error e => .error e
  | .ok l => match result i with
    | .ok r => .ok (l.set i (some r))
    | .error e => .error e

/-- the loop over completions, starting from `[None] * n` -/
def collect {ε α : Type} (n : Nat) (result : Nat → Except ε α) (σ : List Nat) : Except ε (List (Option α)) :=
  σ.foldl (collectStep result) (.ok (List.replicate n none))

/-- `assert all(sig is not None …)`; `none` = the assertion fails -/
def allSome {α : Type} : List (Option α) → Option (List α)
  | [] => some []
  | none :: _ => none
  | some x :: xs => (allSome xs).map (x :: ·)

/-- `calc_file_signatures` with an executor: error, assertion failure (`ok none`), or the list. -/
def calcAll {ε α : Type} (n : Nat) (result : Nat → Except ε α) (σ : List Nat) : Except ε (Option (List α)) :=
  match collect n result σ with
  | .error e => .error e
  | .ok l => .ok (allSome l)

/-- the sequential branch (`executor is None`): files in order, first failure raises -/
def calcSeq {ε α : Type} (n : Nat) (result : Nat → Except ε α) : Except ε (List α) :=
  (List.range n).mapM result

end GambitV
