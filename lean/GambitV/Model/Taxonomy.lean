/-!
Model of `gambit/classify.py` (`matching_taxon`, `find_matches`, `consensus_taxon`,
`GenomeMatch.next_taxon`, `classify`), `gambit.db.models.reportable_taxon` and of the
closest-genomes list of `gambit.query.get_result_item`.  Core Lean only.

A taxonomy is a forest given by parent pointers over node ids `0..n-1`; thresholds and distances
are exact numbers scaled to naturals by the harness (all values of one case are dyadic rationals,
multiplied by a common power of two), so `≤` on them is the comparison the code performs
(`np.float32 <= float` compares exactly in binary64).
-/
namespace GambitV

structure Forest where
  parent : List (Option Nat)
  thr : List (Option Nat)
  report : List Bool
  deriving Repr

def Forest.size (F : Forest) : Nat := F.parent.length
def Forest.parentOf (F : Forest) (t : Nat) : Option Nat := (F.parent.getD t none)
def Forest.thrOf (F : Forest) (t : Nat) : Option Nat := (F.thr.getD t none)
def Forest.reportOf (F : Forest) (t : Nat) : Bool := (F.report.getD t true)

/-- `Taxon.ancestors(incself=True)`: the node, its parent, … up to the root (bottom to top).
Fuel = number of nodes (parent pointers of a forest are acyclic). -/
def Forest.lineageFuel (F : Forest) : (fuel : Nat) → (t : Nat) → List Nat
  | 0, _ => []
  | fuel + 1, t => t :: (match F.parentOf t with
      | some p => F.lineageFuel fuel p
      | none => [])

def Forest.lineage (F : Forest) (t : Nat) : List Nat := F.lineageFuel F.size t

/-- proper ancestors, bottom to top (`ancestors(incself=False)`) -/
def Forest.properAncestors (F : Forest) (t : Nat) : List Nat := (F.lineage t).drop 1

/-- root-first path of a node -/
def Forest.path (F : Forest) (t : Nat) : List Nat := (F.lineage t).reverse

def Forest.covers (F : Forest) (t : Nat) (d : Nat) : Bool :=
  match F.thrOf t with
  | some th => decide (d ≤ th)
  | none => false

/-- `matching_taxon(taxon, d)`: first ancestor-or-self whose threshold is defined and `≥ d`. -/
def matchingTaxon (F : Forest) (t : Nat) (d : Nat) : Option Nat :=
  (F.lineage t).find? (fun a => F.covers a d)

/-- `reportable_taxon`: first ancestor-or-self flagged `report`. -/
def reportable (F : Forest) : Option Nat → Option Nat
  | none => none
  | some t => (F.lineage t).find? (fun a => F.reportOf a)

/-- `GenomeMatch.next_taxon`, as the loop is written (after the repair: the walk starts at the
first threshold-bearing taxon of the lineage).  `lo` trails `hi` over the threshold-bearing
members of the lineage; returns `lo` when `hi` covers `d`, the last `lo` when the lineage ends. -/
def nextWalk (F : Forest) (d : Nat) : (thrLineage : List Nat) → (lo : Option Nat) → Option Nat
  | [], lo => lo
  | hi :: rest, lo => if F.covers hi d then lo else nextWalk F d rest (some hi)

def nextTaxon (F : Forest) (t : Nat) (d : Nat) : Option Nat :=
  nextWalk F d ((F.lineage t).filter (fun a => (F.thrOf a).isSome)) none

/-- `np.argmin`: index of the first minimum (0 for an empty list, which the code never passes). -/
def argminFirst : List Nat → Nat
  | [] => 0
  | d :: ds =>
    let rec go (best bestI i : Nat) : List Nat → Nat
      | [] => bestI
      | x :: xs => if x < best then go x i (i + 1) xs else go best bestI (i + 1) xs
    go d 0 1 ds

structure ClassifyResult where
  success : Bool
  predicted : Option Nat
  primary : Option Nat        -- index of the primary-match genome
  closest : Nat               -- index of the closest-match genome
  next : Option Nat
  warnInconsistent : List Nat -- taxa named in the "inconsistent taxa" warning (sorted), [] = no warning
  warnNotClosest : Bool
  failed : Bool               -- error "Matched taxa have no common ancestor."
  deriving Repr, DecidableEq

/-- `classify(ref_genomes, dists, strict=False)`; `gtax[i]` = taxon of reference genome `i`. -/
def classifyDefault (F : Forest) (gtax : List Nat) (ds : List Nat) : ClassifyResult :=
  let c := argminFirst ds
  let d := ds.getD c 0
  let t := gtax.getD c 0
  let m := matchingTaxon F t d
  { success := true, predicted := m, primary := if m.isSome then some c else none, closest := c,
    next := nextTaxon F t d, warnInconsistent := [], warnNotClosest := false, failed := false }

/-! ### Closest-genomes list (`np.argsort(dists, kind='stable')[:N]`) -/

def insertByDist (ds : List Nat) (i : Nat) : List Nat → List Nat
  | [] => [i]
  | j :: js => if ds.getD i 0 ≤ ds.getD j 0 then i :: j :: js else j :: insertByDist ds i js

/-- stable argsort: indices are inserted from the last to the first, so every index already in the list is larger than the one inserted, and `≤` puts the smaller index first among equal keys -/
def stableArgsort (ds : List Nat) : List Nat :=
  (List.range ds.length).foldr (insertByDist ds) []

def closestList (ds : List Nat) (n : Nat) : List Nat := (stableArgsort ds).take n

/-! ### Strict mode -/

/-- `find_matches`: taxon ↦ indices of genomes matched to it, taxa in first-match order. -/
def findMatches (F : Forest) (gtax : List Nat) (ds : List Nat) : List (Nat × List Nat) :=
  let ms := (List.range gtax.length).filterMap (fun i =>
    (matchingTaxon F (gtax.getD i 0) (ds.getD i 0)).map (fun t => (t, i)))
  ms.foldl (fun acc (ti : Nat × Nat) =>
    if acc.any (fun e => e.1 == ti.1)
    then acc.map (fun e => if e.1 == ti.1 then (e.1, e.2 ++ [ti.2]) else e)
    else acc ++ [(ti.1, [ti.2])]) []

/-- longest common prefix -/
def lcp : List Nat → List Nat → List Nat
  | a :: as, b :: bs => if a = b then a :: lcp as bs else []
  | _, _ => []

def isPrefix (p s : List Nat) : Bool := p.length ≤ s.length && (s.take p.length == p)

structure Trunk where
  c : List Nat      -- root-first path of the current consensus (`trunk` = its non-empty prefixes, bottom to top)
  split : Bool      -- the consensus is a point where two matched lineages diverge
  deriving Repr, DecidableEq

/-- One iteration of the merge loop of `consensus_taxon` (after the repair), in path terms.
`none` = "No common ancestor exists". -/
def consensusStep (s : Trunk) (t : List Nat) : Option Trunk :=
  if isPrefix t s.c then some s                       -- taxon in trunk
  else
    let l := lcp s.c t
    if l = [] then none                               -- for/else: no ancestor in trunk
    else if l = s.c then                              -- meets the trunk at index 0
      (if s.split then some s else some { c := t, split := false })
    else some { c := l, split := true }               -- meets further up

def consensusFold (s : Trunk) : List (List Nat) → Option Trunk
  | [] => some s
  | t :: ts => match consensusStep s t with
    | some s' => consensusFold s' ts
    | none => none

/-- `consensus_taxon(taxa)` on paths: `(consensus path or none, others)`. -/
def consensusPaths : List (List Nat) → Option (List Nat) × List (List Nat)
  | [] => (none, [])
  | t :: ts =>
    match consensusFold { c := t, split := false } ts with
    | none => (none, t :: ts)
    | some s => (some s.c, (t :: ts).filter (fun x => !isPrefix x s.c))

/-- The unrepaired step (classify.py as pinned): a taxon meeting the trunk at index 0 always
becomes the new consensus. Kept to state why the repair was needed. -/
def consensusStepOld (c : List Nat) (t : List Nat) : Option (List Nat) :=
  if isPrefix t c then some c
  else
    let l := lcp c t
    if l = [] then none else if l = c then some t else some l

def consensusOld : List (List Nat) → Option (List Nat)
  | [] => none
  | t :: ts => ts.foldl (fun acc x => acc.bind (fun c => consensusStepOld c x)) (some t)

/-- `classify(ref_genomes, dists, strict=True)`. -/
def classifyStrict (F : Forest) (gtax : List Nat) (ds : List Nat) : ClassifyResult :=
  let c := argminFirst ds
  let dc := ds.getD c 0
  let tc := gtax.getD c 0
  let nxt := nextTaxon F tc dc
  let mts := findMatches F gtax ds
  if mts.isEmpty then
    { success := true, predicted := none, primary := none, closest := c, next := nxt,
      warnInconsistent := [], warnNotClosest := false, failed := false }
  else
    let taxa := mts.map (·.1)
    let (cons, others) := consensusPaths (taxa.map F.path)
    let consNode := cons.bind (fun p => p.getLast?)
    let otherNodes := others.filterMap (fun p => p.getLast?)
    -- primary match: first strictly-smallest distance among genomes matched at or below the consensus
    let primary : Option Nat := match cons with
      | none => none
      | some cp =>
        let cands := mts.flatMap (fun e => if isPrefix cp (F.path e.1) then e.2 else [])
        (cands.foldl (fun (acc : Option (Nat × Nat)) i =>
          match acc with
          | none => some (i, ds.getD i 0)
          | some (bi, bd) => if ds.getD i 0 < bd then some (i, ds.getD i 0) else some (bi, bd)) none).map (·.1)
    { success := cons.isSome, predicted := consNode, primary := primary, closest := c, next := nxt,
      warnInconsistent := otherNodes,
      warnNotClosest := (match primary with | some p => p != c | none => false),
      failed := cons.isNone }

end GambitV
