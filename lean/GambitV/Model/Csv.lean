/-!
Model of the CSV dialect used by the exporters: CPython 3.12 `csv.writer` with `QUOTE_MINIMAL`,
delimiter `,`, quote char `"`, `doublequote=True`, and a configurable line terminator
(`"\n"` for `CSVResultsExporter`, the default `"\r\n"` for `dump_dmat_csv`), and of `csv.reader`
(default dialect) reading the text back (file opened with `newline=''`).  Core Lean only.
-/
namespace GambitV

/-- CPython 3.12: a field is quoted iff it contains the delimiter, the quote character, or a
character of the line terminator.  (A lone `\r` is therefore *not* quoted when the terminator is `"\n"`.) -/
def needsQuote (lt : List Char) (f : List Char) : Bool :=
  f.any (fun c => c == ',' || c == '"' || lt.contains c)

def quoteField (f : List Char) : List Char :=
  ['"'] ++ f.flatMap (fun c => if c == '"' then ['"', '"'] else [c]) ++ ['"']

def writeField (lt : List Char) (f : List Char) : List Char :=
  if needsQuote lt f then quoteField f else f

/-- one record; a record consisting of a single empty field is written as `""` -/
def writeRow (lt : List Char) (row : List (List Char)) : List Char :=
  (if row == [[]] then ['"', '"'] else
    ((row.map (writeField lt)).intersperse [',']).flatten) ++ lt

def writeCsv (lt : List Char) (rows : List (List (List Char))) : List Char :=
  (rows.map (writeRow lt)).flatten

/-! ### Reader (state machine of `_csv.c`, default dialect, non-strict) -/

inductive RState where
  | startRecord | startField | inField | inQuoted | quoteInQuoted | eatCrnl
  deriving DecidableEq, Repr

structure Reader where
  st : RState
  field : List Char          -- reversed
  row : List (List Char)     -- reversed
  rows : List (List (List Char))  -- reversed
  deriving Repr

def Reader.init : Reader := { st := .startRecord, field := [], row := [], rows := [] }

def Reader.saveField (r : Reader) : Reader := { r with row := r.field.reverse :: r.row, field := [] }

def Reader.endRecord (r : Reader) : Reader :=
  { r with rows := r.row.reverse :: r.rows, row := [], field := [], st := .startRecord }

def isNl (c : Char) : Bool := c == '\n' || c == '\r'

/-- processing a character at the start of a record / field -/
def Reader.stepStart (r : Reader) (c : Char) (atRecordStart : Bool) : Reader :=
  if isNl c then (if atRecordStart then { r with st := .eatCrnl } else { (r.saveField) with st := .eatCrnl })
  else if c == '"' then { r with st := .inQuoted }
  else if c == ',' then { (r.saveField) with st := .startField }
  else { r with field := c :: r.field, st := .inField }

def Reader.step (r : Reader) (c : Char) : Reader :=
  match r.st with
  | .startRecord => r.stepStart c true
  | .startField => r.stepStart c false
  | .inField =>
    if isNl c then { (r.saveField) with st := .eatCrnl }
    else if c == ',' then { (r.saveField) with st := .startField }
    else { r with field := c :: r.field }
  | .inQuoted =>
    if c == '"' then { r with st := .quoteInQuoted } else { r with field := c :: r.field }
  | .quoteInQuoted =>
    if c == '"' then { r with field := '"' :: r.field, st := .inQuoted }
    else if c == ',' then { (r.saveField) with st := .startField }
    else if isNl c then { (r.saveField) with st := .eatCrnl }
    else { r with field := c :: r.field, st := .inField }
  | .eatCrnl =>
    -- the record ended at the previous newline character; the `\n` of a `\r\n` pair belongs to it
    -- (a blank line directly after a `\n` is not produced by the writers and is not distinguished)
    if c == '\n' then r.endRecord else (r.endRecord).stepStart c true

def Reader.finish (r : Reader) : List (List (List Char)) :=
  match r.st with
  | .startRecord => r.rows.reverse
  | .eatCrnl => (r.endRecord).rows.reverse
  | _ => ((r.saveField).endRecord).rows.reverse

def parseCsv (text : List Char) : List (List (List Char)) :=
  (text.foldl Reader.step Reader.init).finish

/-- the guard under which a field survives a write/read cycle with terminator `lt` -/
def fieldOk (lt : List Char) (f : List Char) : Bool :=
  needsQuote lt f || !(f.any isNl)

end GambitV
