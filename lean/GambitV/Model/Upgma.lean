import GambitV.Model.Cluster

/-!
Executable model of `gambit.cluster.hclust` = average-linkage (UPGMA) agglomeration of a distance
matrix, in exact arithmetic: the height of a merge is the fraction
`sumD D A B / (|A|·|B|)`, comparisons are cross-multiplied, the first minimal pair (in position
order) is merged, the new cluster is appended and numbered `n, n+1, …` like a SciPy linkage matrix.

`hclust` itself delegates to SciPy; the correspondence check compares its linkage matrix with this
model on every matrix where the model meets no tie (`upgmaTieFree`), where the merge order is unique.
Core Lean only.
-/
namespace GambitV

/-- an active cluster: its number in the linkage numbering, its members (observation indices) -/
structure Clus where
  id : Nat
  mem : List Nat
  deriving Repr, DecidableEq

/-- a linkage row with an exact height `num / den` -/
structure QRow where
  left : Nat
  right : Nat
  num : Int
  den : Nat
  deriving Repr, DecidableEq

/-- `avg(A,B) < avg(C,E)`, cross-multiplied (all four lists non-empty in every use) -/
def avgLt (D : List (List Int)) (A B C E : List Nat) : Bool :=
  decide (sumD D A B * ((C.length * E.length : Nat) : Int) < sumD D C E * ((A.length * B.length : Nat) : Int))

/-- position pairs `(i, j)`, `i < j < k`, in lexicographic order -/
def idxPairs (k : Nat) : List (Nat × Nat) :=
  (List.range k).flatMap fun i => ((List.range k).filter (fun j => decide (i < j))).map fun j => (i, j)

def memAt (act : List Clus) (i : Nat) : List Nat := (act.getD i ⟨0, []⟩).mem

/-- the first pair of active clusters (position order) whose average distance is minimal -/
def argminPair (D : List (List Int)) (act : List Clus) : Option (Nat × Nat) :=
  (idxPairs act.length).foldl (fun best p =>
    match best with
    | none => some p
    | some b => if avgLt D (memAt act p.1) (memAt act p.2) (memAt act b.1) (memAt act b.2) then some p else some b) none

structure UState where
  act : List Clus
  rows : List QRow
  next : Nat
  deriving Repr

/-- one agglomeration step: merge the minimal pair, emit its row, append the union -/
def upgmaStep (D : List (List Int)) (s : UState) : UState :=
  match argminPair D s.act with
  | none => s
  | some (i, j) =>
    let A := s.act.getD i ⟨0, []⟩
    let B := s.act.getD j ⟨0, []⟩
    { act := (s.act.eraseIdx j).eraseIdx i ++ [⟨s.next, A.mem ++ B.mem⟩],
      rows := s.rows ++ [⟨A.id, B.id, sumD D A.mem B.mem, A.mem.length * B.mem.length⟩],
      next := s.next + 1 }

def upgmaInit (n : Nat) : UState := ⟨(List.range n).map fun i => ⟨i, [i]⟩, [], n⟩

def upgmaRun (D : List (List Int)) : Nat → UState → UState
  | 0, s => s
  | k + 1, s => upgmaRun D k (upgmaStep D s)

/-- the linkage of `n` observations with distance matrix `D` -/
def upgma (D : List (List Int)) (n : Nat) : List QRow := (upgmaRun D (n - 1) (upgmaInit n)).rows

/-- the heights brought to the common denominator `L = ∏ den`: an integer linkage for `linkageToTree` -/
def commonDen (rows : List QRow) : Nat := rows.foldl (fun acc r => acc * r.den) 1

def toLink (rows : List QRow) : List LinkRow :=
  rows.map fun r => ⟨r.left, r.right, r.num * ((commonDen rows / r.den : Nat) : Int)⟩

/-- the observations below cluster `i` according to the rows (fuel ≥ number of rows + 1 suffices) -/
def rowLeaves (n : Nat) (rows : List QRow) : Nat → Nat → List Nat
  | 0, _ => []
  | f + 1, i =>
    if i < n then [i] else
    match rows[i - n]? with
    | none => []
    | some r => rowLeaves n rows f r.left ++ rowLeaves n rows f r.right

/-- entry `(a, b)` of the matrix, as `sumD` reads it -/
def dAt (D : List (List Int)) (a b : Nat) : Int := (D.getD a []).getD b 0

/-! ### tie detection (for the correspondence with SciPy: the merge order is unique iff no tie) -/

/-- at this state exactly one pair attains the minimal average distance -/
def stepTieFree (D : List (List Int)) (act : List Clus) : Bool :=
  match argminPair D act with
  | none => true
  | some b => (idxPairs act.length).all fun p =>
      p == b || avgLt D (memAt act b.1) (memAt act b.2) (memAt act p.1) (memAt act p.2)

def runTieFree (D : List (List Int)) : Nat → UState → Bool
  | 0, _ => true
  | k + 1, s => stepTieFree D s.act && runTieFree D k (upgmaStep D s)

def upgmaTieFree (D : List (List Int)) (n : Nat) : Bool := runTieFree D (n - 1) (upgmaInit n)

/-! ### replaying somebody else's merge sequence (SciPy's): every merge must be *a* minimal pair -/

def findPos (act : List Clus) (id : Nat) : Option Nat := act.findIdx? (fun c => c.id == id)

/-- merge the clusters numbered `l` and `r` if both are active, distinct, and no pair of active clusters is
strictly closer on average -/
def replayStep (D : List (List Int)) (s : UState) (l r : Nat) : Option UState :=
  match findPos s.act l, findPos s.act r with
  | some i, some j =>
    if i == j then none else
    let A := memAt s.act i
    let B := memAt s.act j
    if (idxPairs s.act.length).any (fun p => avgLt D (memAt s.act p.1) (memAt s.act p.2) A B) then none else
    some { act := (s.act.eraseIdx (max i j)).eraseIdx (min i j) ++ [⟨s.next, A ++ B⟩],
           rows := s.rows ++ [⟨l, r, sumD D A B, A.length * B.length⟩],
           next := s.next + 1 }
  | _, _ => none

def replayRun (D : List (List Int)) : List (Nat × Nat) → UState → Option UState
  | [], s => some s
  | (l, r) :: rest, s => (replayStep D s l r).bind (replayRun D rest)

end GambitV
