/-!
Bit-exact model of the IEEE-754 binary32 operations the distance kernel uses on x86-64 SSE:
`(float) n` for a non-negative integer, `a / b`, `a - b` — each is "compute the exact result, round
once to nearest, ties to even".  Only positive normal results (and +0) are modelled; anything else
maps to the marker `nanBits` (unreachable for Jaccard distances; the correspondence run checks the
model against NumPy float32 on the operands that occur).  Core Lean only, all arithmetic in `Nat`/`Int`.
-/
namespace GambitV.F32

def nanBits : UInt32 := 0x7FC00000
def zeroBits : UInt32 := 0
def oneBits : UInt32 := 0x3F800000

/-- `⌊log₂ (num/den)⌋` for positive `num`, `den`. -/
def ratExp (num den : Nat) : Int :=
  let ln := Nat.log2 num
  let ld := Nat.log2 den
  if num * 2 ^ ld ≥ den * 2 ^ ln then (ln : Int) - ld else (ln : Int) - ld - 1

/-- Round the non-negative rational `num/den` to the nearest binary32 (ties to even) and return
its bit pattern. -/
def roundRat (num den : Nat) : UInt32 :=
  if num = 0 ∨ den = 0 then zeroBits else
  let e := ratExp num den
  let sh : Int := 23 - e
  let n' := if sh ≥ 0 then num * 2 ^ sh.toNat else num
  let d' := if sh ≥ 0 then den else den * 2 ^ (-sh).toNat
  let q := n' / d'
  let r := n' % d'
  let q := if 2 * r > d' ∨ (2 * r = d' ∧ q % 2 = 1) then q + 1 else q
  let e := if q = 2 ^ 24 then e + 1 else e
  let q := if q = 2 ^ 24 then 2 ^ 23 else q
  let be := e + 127
  if be ≤ 0 ∨ be ≥ 255 then nanBits else UInt32.ofNat (be.toNat * 2 ^ 23 + (q - 2 ^ 23))

/-- Decode a bit pattern to `(mant, exp)` with value `mant * 2^exp`; `none` for negative,
subnormal, infinite or NaN patterns. -/
def decode (b : UInt32) : Option (Nat × Int) :=
  let n := b.toNat
  if n = 0 then some (0, 0) else
  let be : Nat := n / 2 ^ 23
  let frac : Nat := n % 2 ^ 23
  if be = 0 ∨ be ≥ 255 then none else some (2 ^ 23 + frac, (be : Int) - 150)

/-- `(float) n`, `n ≥ 0`. -/
def ofNat (n : Nat) : UInt32 := roundRat n 1

/-- `(float) i`; negative values are outside the modelled range. -/
def ofInt (i : Int) : UInt32 := if i < 0 then nanBits else ofNat i.toNat

/-- `a / b` for non-negative `a`, positive `b`. -/
def div (a b : UInt32) : UInt32 :=
  match decode a, decode b with
  | some (ma, ea), some (mb, eb) =>
    if mb = 0 then nanBits else
    let d := ea - eb
    if d ≥ 0 then roundRat (ma * 2 ^ d.toNat) mb else roundRat ma (mb * 2 ^ (-d).toNat)
  | _, _ => nanBits

/-- `a - b` for `a ≥ b ≥ 0`. -/
def sub (a b : UInt32) : UInt32 :=
  match decode a, decode b with
  | some (ma, ea), some (mb, eb) =>
    let e := min ea eb
    let na := ma * 2 ^ (ea - e).toNat
    let nb := mb * 2 ^ (eb - e).toNat
    if na < nb then nanBits else
    if e ≥ 0 then roundRat ((na - nb) * 2 ^ e.toNat) 1 else roundRat (na - nb) (2 ^ (-e).toNat)
  | _, _ => nanBits

/-- Format the exact value of a bit pattern with 4 decimals, rounding half to even on the exact
binary value (what `format(x, '0.4f')` does for a float32 converted to double: the conversion is
exact and CPython rounds the exact binary value correctly). Returns the decimal string. -/
def fmt4 (b : UInt32) : String :=
  match decode b with
  | none => "nan"
  | some (m, e) =>
    -- value * 10^4 = m * 2^e * 10^4
    let num := if e ≥ 0 then m * 2 ^ e.toNat * 10000 else m * 10000
    let den := if e ≥ 0 then 1 else 2 ^ (-e).toNat
    let q := num / den
    let r := num % den
    let q := if 2 * r > den ∨ (2 * r = den ∧ q % 2 = 1) then q + 1 else q
    let ip := q / 10000
    let fp := q % 10000
    let fs := toString fp
    toString ip ++ "." ++ String.ofList (List.replicate (4 - fs.length) '0') ++ fs

end GambitV.F32
