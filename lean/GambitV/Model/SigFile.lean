import GambitV.Model.Indexing

/-!
Model of `gambit/sigs/hdf5.py`: what `HDF5Signatures.create` stores (both write paths), what
`HDF5Signatures.__init__` / `load_signatures_hdf5` read back and when they refuse, and — for C19 —
the sequence of storage-library calls of a write together with the crash semantics of the file
("the on-disk image becomes a valid HDF5 file with its objects only at flush/close").
Core Lean only.  HDF5/h5py are modelled as a key-value store; see DESIGN §3.
-/
namespace GambitV

/-- attribute value: h5py.Empty ↔ `none` -/
abbrev Attr := Option String

structure SigStore where
  marker : Option Nat            -- `gambit_signatures_version` attribute (none = absent)
  k : Nat
  pre : List UInt8
  metaAttrs : List Attr               -- id, name, id_attr, version, description, extra(JSON text)
  ids : List String
  values : List Nat
  bounds : List Nat
  dtypeBytes : Nat
  deriving Repr, DecidableEq

structure SigCollection where
  k : Nat
  pre : List UInt8
  metaAttrs : List Attr               -- `None` fields are `none`
  ids : List String
  sigs : List (List Nat)
  dtypeBytes : Nat
  deriving Repr, DecidableEq

/-- cumulative bounds `[0, |s0|, |s0|+|s1|, …]` (`np.cumsum(sizes)` with a leading 0) -/
def cumBounds : List (List Nat) → List Nat
  | sigs => sigs.foldl (fun acc s => acc ++ [acc.getLastD 0 + s.length]) [0]

/-- generic write path: `values[bounds[i]:bounds[i+1]] = signatures[i]` into a zero-initialised dataset -/
def writeSlices (sigs : List (List Nat)) : List Nat :=
  let b := cumBounds sigs
  (List.range sigs.length).foldl (fun vals i =>
    let a := b.getD i 0
    let s := sigs.getD i []
    vals.take a ++ s ++ vals.drop (a + s.length)) (List.replicate (b.getLastD 0) 0)

/-- `HDF5Signatures.create`.  `fast = true`: the collection is a `SignatureArray` and its
`values` / `bounds` arrays are stored as they are; otherwise the per-signature path. -/
def writeSigs (fast : Bool) (c : SigCollection) : SigStore :=
  { marker := some 1, k := c.k, pre := c.pre, metaAttrs := c.metaAttrs, ids := c.ids,
    values := if fast then (Concat.ofList c.sigs).values else writeSlices c.sigs,
    bounds := if fast then (Concat.ofList c.sigs).bounds else cumBounds c.sigs,
    dtypeBytes := c.dtypeBytes }

inductive LoadOutcome where
  | loaded (c : SigCollection)
  | sigFileError        -- the dedicated `SignaturesFileError`
  | otherError          -- any other exception (e.g. unknown format version, I/O error)
  deriving Repr, DecidableEq

/-- `HDF5Signatures.__init__` on an opened group -/
def readSigs (s : SigStore) : LoadOutcome :=
  match s.marker with
  | none => .sigFileError
  | some v =>
    if v ≠ 1 then .otherError else
    .loaded { k := s.k, pre := s.pre, metaAttrs := s.metaAttrs, ids := s.ids,
              sigs := ({ values := s.values, bounds := s.bounds } : Concat).toList, dtypeBytes := s.dtypeBytes }

/-- what a path can hold, as far as `load_signatures_hdf5` can tell -/
inductive FileImage where
  | notHdf5                    -- first 8 bytes are not the HDF5 magic number (empty, text, FASTA, gzip, …)
  | unopenable                 -- magic number present but the library cannot open it (truncated / never flushed)
  | hdf5 (root : SigStore)     -- an HDF5 file; `root.marker = none` for a file of another kind
  deriving Repr, DecidableEq

def loadFile : FileImage → LoadOutcome
  | .notHdf5 => .sigFileError
  | .unopenable => .otherError
  | .hdf5 root => readSigs root

/-! ### Write trace and crash images (C19) -/

inductive WOp where
  | createFile            -- `h5.File(path, 'w')`: truncates; superblock only
  | setAttr (name : String)
  | createDataset (name : String)
  | writeChunk (i : Nat)  -- `values[bounds[i]:bounds[i+1]] = signatures[i]` / `bounds[...] = …`
  | flush                 -- never issued by the writer (see `writerTrace_no_flush`)
  | close
  deriving Repr, DecidableEq

def attrNames : List String :=
  ["gambit_signatures_version", "kmerspec_k", "kmerspec_prefix", "id", "name", "id_attr", "version", "description", "extra"]

/-- the storage-library calls of `dump_signatures_hdf5`, in program order -/
def writerTrace (fast : Bool) (nsigs : Nat) : List WOp :=
  [.createFile] ++ attrNames.map .setAttr ++ [.createDataset "ids"] ++
  (if fast then [.createDataset "values", .createDataset "bounds"]
   else [.createDataset "bounds", .writeChunk 0, .writeChunk 1, .createDataset "values"] ++
        (List.range nsigs).map (fun i => .writeChunk (i + 2))) ++
  [.close]

/-- File image if the process dies after executing exactly the first `n` calls.
Snapshot semantics: the image on disk is the state at the last `flush`/`close`; before the first of
those the file exists (from `createFile` on) but cannot be opened. `full` = the complete store. -/
def crashImage (trace : List WOp) (full : SigStore) (n : Nat) : FileImage :=
  let done := trace.take n
  if done.contains .close then .hdf5 full
  else if done.contains .flush then .unopenable   -- unreachable for `writerTrace`; conservative
  else if done.contains .createFile then .unopenable
  else .notHdf5

/-- File image if the writer is *interrupted by an exception* raised immediately before its `n`-th call
(Ctrl-C, a termination handler raising `SystemExit`, a failing signature source, a full disk): the
`with` block closes the half-written file — which would make it a readable HDF5 file with the marker and
zero-filled datasets — and `dump_signatures_hdf5` (since the repair `fix: … partially written`) removes it
before re-raising.  No file at the path is `notHdf5` for the loader (it raises).  An exception before the
file was created (`n = 0`) leaves whatever was at the path before, which is not a partial file and is not
modelled here; one after the last call finds the complete, closed file. -/
def unwindImage (trace : List WOp) (full : SigStore) (n : Nat) : FileImage :=
  if trace.length ≤ n then .hdf5 full else .notHdf5

/-- Pre-repair behaviour, kept as the witness of finding C19-F1: the store that `close` finalised when
the per-signature writer was interrupted by an exception after `j` of its signatures had been copied —
attributes, ids and bounds complete, the rest of `values` still zero. -/
def interruptedStoreSlow (c : SigCollection) (j : Nat) : SigStore :=
  let full := writeSigs false c
  let upto := full.bounds.getD j 0
  { full with values := full.values.take upto ++ List.replicate (full.values.length - upto) 0 }

end GambitV
