import GambitV.Model.Csv
import GambitV.Model.F32

/-!
Model of the label derivation of `gambit/cli/common.py` (`get_file_id`, `strip_seq_file_ext`) and of
`gambit.cluster.dump_dmat_csv` as used by `gambit dist`.  Core Lean only.
-/
namespace GambitV

/-- `os.path.basename` (POSIX): everything after the last `/`. -/
def basename (p : List Char) : List Char :=
  (p.reverse.takeWhile (· != '/')).reverse

def endsWith (s ext : List Char) : Bool := ext.length ≤ s.length && s.drop (s.length - ext.length) == ext

/-- `strip_extensions`: remove the first extension of the tuple that matches, once. -/
def stripExtensions (s : List Char) : List (List Char) → List Char
  | [] => s
  | ext :: rest => if endsWith s ext then s.take (s.length - ext.length) else stripExtensions s rest

def fastaExts : List (List Char) := [".fasta", ".fna", ".ffn", ".faa", ".frn", ".fa"].map String.toList
def gzipExts : List (List Char) := [".gz".toList]

/-- `strip_seq_file_ext`: `.gz` first, then one FASTA extension. -/
def stripSeqExt (name : List Char) : List Char := stripExtensions (stripExtensions name gzipExts) fastaExts

/-- `get_file_id(path)` with the default `strip_dir=True, strip_ext=True`. -/
def fileLabel (path : List Char) : List Char := stripSeqExt (basename path)

/-- `dump_dmat_csv(file, dmat, row_ids, col_ids)`: header = empty corner + column ids; one row per
row id with `format(d, '0.4f')` cells; default csv dialect (`\r\n`). `cells` are binary32 bit patterns. -/
def distCsv (rowIds colIds : List (List Char)) (cells : List (List UInt32)) : List Char :=
  writeCsv ['\r', '\n'] (([] :: colIds) :: (rowIds.zip cells).map (fun rc => rc.1 :: rc.2.map (fun b => (F32.fmt4 b).toList)))

end GambitV
