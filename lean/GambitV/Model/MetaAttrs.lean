/-!
The attributes of the HDF5 group of a signature file as a key-value store (C12): which attribute holds which field, on the writing side
(`HDF5Signatures._init_attrs`, `write_metadata`) and on the reading side (`HDF5Signatures.__init__`, `read_metadata`), both driven by tables so
that the tables read from the current source can be run through the same functions.  `None` is stored as an empty attribute (`none_to_empty`) and an
empty attribute is read back as `None` (`empty_to_none`); `extra` travels as JSON text (the value is abstracted to its text: `json.loads ∘ json.dumps`
is the identity on what `SignaturesMeta.extra` may hold).  Core Lean only.
-/
namespace GambitV.MetaAttrs

/-- an attribute value: `h5py.Empty`, a string, an integer -/
inductive AttrV
  | empty
  | text (s : String)
  | int (n : Nat)
  deriving Repr, DecidableEq, Inhabited

/-- what a file says about itself: format version, k-mer parameters, the six metadata fields (`none` = `None`) -/
structure Header where
  version : Nat
  k : Nat
  pre : String
  fields : List (String × Option String)        -- id, name, id_attr, version, description, extra (JSON text), by name
  deriving Repr, DecidableEq, Inhabited

/-- what the writer stores under an attribute name -/
inductive Src
  | version (n : Nat)            -- the constant `CURRENT_FMT_VERSION`
  | k
  | pre
  | field (name : String)        -- `none_to_empty(meta.<name>, STR_DTYPE)`
  | json (name : String)         -- `json.dumps(meta.<name>)`, or an empty attribute when it is `None`
  deriving Repr, DecidableEq, Inhabited

/-- how the reader reads an attribute -/
inductive Kind
  | int | text | opt | json
  deriving Repr, DecidableEq, Inhabited

def fieldOf (h : Header) (name : String) : Option String := ((h.fields.find? (·.1 == name)).map (·.2)).getD none

def optV : Option String → AttrV
  | some s => .text s
  | none => .empty

def Src.value (h : Header) : Src → AttrV
  | .version n => .int n
  | .k => .int h.k
  | .pre => .text h.pre
  | .field name => optV (fieldOf h name)
  | .json name => optV (fieldOf h name)

/-- `group.attrs[name] = value` for every row of the writer's table, in order (a later store to the same name wins) -/
def writeAttrs (tbl : List (String × Src)) (h : Header) : List (String × AttrV) :=
  tbl.foldl (fun st row => (st.filter (·.1 != row.1)) ++ [(row.1, row.2.value h)]) []

def getAttr (st : List (String × AttrV)) (name : String) : Option AttrV := (st.find? (·.1 == name)).map (·.2)

/-- one field as the reader reads it: `none` = the read raises (`group.attrs[name]` of a missing attribute) or yields a value of another kind -/
def readOpt (st : List (String × AttrV)) (name : String) : Option (Option String) :=
  match getAttr st name with
  | some (.text s) => some (some s)
  | some .empty => some none
  | none => some none                 -- `group.attrs.get(name)` of a missing attribute is `None`
  | _ => none

def readInt (st : List (String × AttrV)) (name : String) : Option Nat :=
  match getAttr st name with
  | some (.int n) => some n
  | _ => none

def readText (st : List (String × AttrV)) (name : String) : Option String :=
  match getAttr st name with
  | some (.text s) => some s
  | _ => none

def lookupRow (tbl : List (String × String × Kind)) (field : String) : Option (String × Kind) := (tbl.find? (·.1 == field)).map (·.2)

/-- the reader: version, k, prefix through their rows, the metadata fields (every row of kind `opt` / `json`) in table order -/
def readHeader (tbl : List (String × String × Kind)) (st : List (String × AttrV)) : Option Header := do
  let (vn, _) ← lookupRow tbl "format_version"
  let (kn, _) ← lookupRow tbl "k"
  let (pn, _) ← lookupRow tbl "pre"
  let version ← readInt st vn
  let k ← readInt st kn
  let pre ← readText st pn
  let fields ← (tbl.filter (fun r => r.2.2 == .opt || r.2.2 == .json)).mapM (fun r => (readOpt st r.2.1).map (fun v => (r.1, v)))
  pure { version := version, k := k, pre := pre, fields := fields }

/-- the model's tables (what the code is expected to say) -/
def writerTable : List (String × Src) :=
  [("gambit_signatures_version", .version 1), ("kmerspec_k", .k), ("kmerspec_prefix", .pre),
   ("id", .field "id"), ("name", .field "name"), ("id_attr", .field "id_attr"), ("version", .field "version"), ("description", .field "description"),
   ("extra", .json "extra")]

def readerTable : List (String × String × Kind) :=
  [("k", "kmerspec_k", .int), ("pre", "kmerspec_prefix", .text), ("format_version", "gambit_signatures_version", .int),
   ("id", "id", .opt), ("name", "name", .opt), ("id_attr", "id_attr", .opt), ("version", "version", .opt), ("description", "description", .opt),
   ("extra", "extra", .json)]

/-- a header with the six fields in the order of `SignaturesMeta(…)` in `read_metadata` -/
def mkHeader (k : Nat) (pre : String) (id name idAttr version description extra : Option String) : Header :=
  { version := 1, k := k, pre := pre,
    fields := [("id", id), ("name", name), ("id_attr", idAttr), ("version", version), ("description", description), ("extra", extra)] }

end GambitV.MetaAttrs
