import GambitV.Model.Json

/-!
The result objects of a query as the JSON exporters see them (`gambit.query`, `gambit.classify`, `gambit.db.models`), their image as
`PVal`s (the attribute layout of the real classes: `attrs` fields in declaration order, ORM attributes by name), and the documented JSON
each exporter writes for them, as explicit functions.  `Props/C11Json.lean` proves that the encoder of `Model/Json.lean`, run with the
exporters' conversion rules, produces exactly these.  Core Lean only.
-/
namespace GambitV.Json

private def c (s : String) : List Char := s.toList

/-- a `Taxon` row (flat: without its place in the tree) -/
structure JTaxon where
  id : Int
  key : List Char
  name : List Char
  ncbiId : Option Int
  rank : Option (List Char)
  threshold : Option Nat                 -- binary64 bits of `distance_threshold`
  deriving Repr, DecidableEq, Inhabited

/-- an `AnnotatedGenome` with its `Genome` attributes, its taxon and that taxon's lineage (`taxon.ancestors(incself=True)`: self first) -/
structure JGenome where
  key : List Char
  description : Option (List Char)
  organism : Option (List Char)
  ncbiDb : Option (List Char)
  ncbiId : Option Int
  genbankAcc : Option (List Char)
  refseqAcc : Option (List Char)
  genomeId : Int
  taxon : JTaxon
  taxonomy : List JTaxon
  deriving Repr, DecidableEq, Inhabited

structure JMatch where
  genome : JGenome
  distance : Nat                         -- binary64 bits of `float(distance)`
  matched : Option JTaxon
  deriving Repr, DecidableEq, Inhabited

structure JFile where
  path : List Char                       -- `str(path)`
  format : List Char
  compression : Option (List Char)
  deriving Repr, DecidableEq, Inhabited

structure JItem where
  label : List Char
  file : Option JFile
  success : Bool
  predicted : Option JTaxon
  primary : Option JMatch
  closestMatch : JMatch
  next : Option JTaxon
  warnings : List (List Char)
  error : Option (List Char)
  report : Option JTaxon
  closest : List JMatch
  deriving Repr, DecidableEq, Inhabited

/-! ### images as Python values -/

def optStr : Option (List Char) → PVal
  | some s => .str s
  | Option.none => .none
def optInt : Option Int → PVal
  | some i => .int i
  | Option.none => .none
def optFloat : Option Nat → PVal
  | some b => .float b
  | Option.none => .none

def JTaxon.columns (t : JTaxon) : List (List Char × PVal) :=
  [(c "id", .int t.id), (c "key", .str t.key), (c "name", .str t.name), (c "ncbi_id", optInt t.ncbiId), (c "rank", optStr t.rank),
   (c "distance_threshold", optFloat t.threshold)]

/-- a taxon as an element of a lineage list -/
def JTaxon.toPVal (t : JTaxon) : PVal := .inst (c "Taxon") false t.columns

/-- a taxon together with its lineage -/
def JTaxon.toPValWith (t : JTaxon) (lineage : List JTaxon) : PVal :=
  .inst (c "Taxon") false (t.columns ++ [(c "ancestors(incself=True)", .list (lineage.map JTaxon.toPVal))])

def optTaxon : Option JTaxon → PVal
  | some t => t.toPVal
  | Option.none => .none

def JGenome.toPVal (g : JGenome) : PVal :=
  .inst (c "AnnotatedGenome") false
    [(c "key", .str g.key), (c "description", optStr g.description), (c "organism", optStr g.organism), (c "ncbi_db", optStr g.ncbiDb),
     (c "ncbi_id", optInt g.ncbiId), (c "genbank_acc", optStr g.genbankAcc), (c "refseq_acc", optStr g.refseqAcc),
     (c "genome_id", .int g.genomeId), (c "taxon", g.taxon.toPValWith g.taxonomy)]

def JMatch.toPVal (m : JMatch) : PVal :=
  .inst (c "GenomeMatch") true [(c "genome", m.genome.toPVal), (c "distance", .float m.distance), (c "matched_taxon", optTaxon m.matched)]

def optMatch : Option JMatch → PVal
  | some m => m.toPVal
  | Option.none => .none

def JFile.toPVal (f : JFile) : PVal :=
  .inst (c "SequenceFile") true [(c "path", .hooked f.path), (c "format", .str f.format), (c "compression", optStr f.compression)]

def optFile : Option JFile → PVal
  | some f => f.toPVal
  | Option.none => .none

def JItem.inputPVal (it : JItem) : PVal := .inst (c "QueryInput") true [(c "label", .str it.label), (c "file", optFile it.file)]

def JItem.resultPVal (it : JItem) : PVal :=
  .inst (c "ClassifierResult") true
    [(c "success", .bool it.success), (c "predicted_taxon", optTaxon it.predicted), (c "primary_match", optMatch it.primary),
     (c "closest_match", it.closestMatch.toPVal), (c "next_taxon", optTaxon it.next), (c "warnings", .list (it.warnings.map .str)),
     (c "error", optStr it.error)]

def JItem.toPVal (it : JItem) : PVal :=
  .inst (c "QueryResultItem") true
    [(c "input", it.inputPVal), (c "classifier_result", it.resultPVal), (c "report_taxon", optTaxon it.report),
     (c "closest_genomes", .list (it.closest.map JMatch.toPVal))]

/-! ### the documented JSON of `JSONResultsExporter` -/

def jStr : Option (List Char) → Json
  | some s => .str s
  | Option.none => .null
def jInt : Option Int → Json
  | some i => .int i
  | Option.none => .null
def jFloat : Option Nat → Json
  | some b => .float b
  | Option.none => .null

def taxonJson (t : JTaxon) : Json :=
  .obj [(c "id", .int t.id), (c "key", .str t.key), (c "name", .str t.name), (c "ncbi_id", jInt t.ncbiId), (c "rank", jStr t.rank),
        (c "distance_threshold", jFloat t.threshold)]

def optTaxonJson : Option JTaxon → Json
  | some t => taxonJson t
  | Option.none => .null

def genomeJson (g : JGenome) : Json :=
  .obj [(c "key", .str g.key), (c "description", jStr g.description), (c "organism", jStr g.organism), (c "ncbi_db", jStr g.ncbiDb),
        (c "ncbi_id", jInt g.ncbiId), (c "genbank_acc", jStr g.genbankAcc), (c "refseq_acc", jStr g.refseqAcc),
        (c "id", .int g.genomeId), (c "taxonomy", .arr (g.taxonomy.map taxonJson))]

def matchJson (m : JMatch) : Json :=
  .obj [(c "genome", genomeJson m.genome), (c "distance", .float m.distance), (c "matched_taxon", optTaxonJson m.matched)]

def inputJson (it : JItem) : Json :=
  .obj [(c "name", .str it.label),
        (c "path", match it.file with | some f => .str f.path | Option.none => .null),
        (c "format", match it.file with | some f => .str f.format | Option.none => .null)]

/-- one element of `items` in the JSON export -/
def itemJson (it : JItem) : Json :=
  .obj [(c "query", inputJson it), (c "predicted_taxon", optTaxonJson it.report), (c "next_taxon", optTaxonJson it.next),
        (c "closest_genomes", .arr (it.closest.map matchJson))]

/-! ### the archive format: database objects as keys only -/

def keyJson (k : List Char) : Json := .obj [(c "key", .str k)]
def optKeyJson : Option JTaxon → Json
  | some t => keyJson t.key
  | Option.none => .null

def archiveMatchJson (m : JMatch) : Json :=
  .obj [(c "genome", keyJson m.genome.key), (c "distance", .float m.distance), (c "matched_taxon", optKeyJson m.matched)]

def optArchiveMatchJson : Option JMatch → Json
  | some m => archiveMatchJson m
  | Option.none => .null

def archiveFileJson : Option JFile → Json
  | some f => .obj [(c "path", .str f.path), (c "format", .str f.format), (c "compression", jStr f.compression)]
  | Option.none => .null

def archiveItemJson (it : JItem) : Json :=
  .obj [(c "input", .obj [(c "label", .str it.label), (c "file", archiveFileJson it.file)]),
        (c "classifier_result",
          .obj [(c "success", .bool it.success), (c "predicted_taxon", optKeyJson it.predicted), (c "primary_match", optArchiveMatchJson it.primary),
                (c "closest_match", archiveMatchJson it.closestMatch), (c "next_taxon", optKeyJson it.next),
                (c "warnings", .arr (it.warnings.map .str)), (c "error", jStr it.error)]),
        (c "report_taxon", optKeyJson it.report),
        (c "closest_genomes", .arr (it.closest.map archiveMatchJson))]

/-- what the archive keeps of an item: keys of database objects, everything else as it is -/
structure MatchKeysJ where
  genome : List Char
  distance : Nat
  matched : Option (List Char)
  deriving Repr, DecidableEq

structure ItemKeysJ where
  label : List Char
  file : Option JFile
  success : Bool
  predicted : Option (List Char)
  primary : Option MatchKeysJ
  closestMatch : MatchKeysJ
  next : Option (List Char)
  warnings : List (List Char)
  error : Option (List Char)
  report : Option (List Char)
  closest : List MatchKeysJ
  deriving Repr, DecidableEq

def JMatch.keys (m : JMatch) : MatchKeysJ := { genome := m.genome.key, distance := m.distance, matched := m.matched.map (·.key) }

def JItem.keys (it : JItem) : ItemKeysJ :=
  { label := it.label, file := it.file, success := it.success, predicted := it.predicted.map (·.key), primary := it.primary.map JMatch.keys,
    closestMatch := it.closestMatch.keys, next := it.next.map (·.key), warnings := it.warnings, error := it.error,
    report := it.report.map (·.key), closest := it.closest.map JMatch.keys }

end GambitV.Json
