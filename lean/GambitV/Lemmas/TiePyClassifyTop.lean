import GambitV.Gen.PyClassify
import GambitV.Lemmas.PyRt
import GambitV.Lemmas.Consensus
import GambitV.Lemmas.TiePyClassify
import GambitV.Lemmas.TiePyConsensus

/-!
Helper lemmas for `GambitV.Tie.PyClassify` (the tie of the machine-translated `classify`, classify.py, to the
models `classifyDefault` / `classifyStrict`):

* list indexing of the run-time library at natural indices,
* clean versions `innerB`, `outerB` of the two nested `for` loops that pick the primary match in strict
  mode, and the loop rules showing that they compute a nested left fold (`nestStep`) on the triple
  `(best_i, best_d, best_taxon)`,
* the relation of that nested fold to the model's fold over the flattened candidate list,
* facts about `findMatches` (distinct keys, keys and indices in range, the key of an index is its
  matched taxon) and about the result of `consensusPaths` on the matched taxa.

Core Lean only.
-/
namespace GambitV.TieTop
open GambitV

/-! ### list indexing at natural indices -/

theorem getItem?_natCast {α : Type} (xs : List α) (i : Nat) : Py.getItem? xs (i : Int) = xs[i]? := by
  unfold Py.getItem?
  have h1 : ¬ ((i : Int) < 0) := by omega
  simp only [h1, if_false, Int.toNat_natCast]

theorem getItem?_range {n i : Nat} (h : i < n) : Py.getItem? (List.range n) (i : Int) = some i := by
  rw [getItem?_natCast, List.getElem?_range h]

theorem getItem?_getD (ds : List Nat) {i : Nat} (h : i < ds.length) :
    Py.getItem? ds (i : Int) = some (ds.getD i 0) := by
  rw [getItem?_natCast, List.getD_eq_getElem?_getD, List.getElem?_eq_getElem h]
  rfl

/-- the keys of the `matches` dict returned by the translated `find_matches` (indices cast to Python ints) -/
theorem map_castE_fst (L : List (Nat × List Nat)) :
    (L.map (fun e => (e.1, e.2.map (fun (i : Nat) => (i : Int))))).map (·.1) = L.map (·.1) := by
  rw [List.map_map]; rfl

/-! ### the two loops of strict mode -/

abbrev St := Gen.classify.St
abbrev Ret := Gen.classify.Ret

/-- body of `for i in idxs:` -/
def innerB (x : Int) (s : St) : Py.M St Ret St :=
  match Py.getItem? s.dists x with
  | none => .error (.exc .IndexError)
  | some d =>
    if (match s.best_d with | none => true | some b => decide (d < b)) then
      .ok { s with i := x, best_i := some x, best_d := some d, best_taxon := some s.taxon }
    else .ok { s with i := x }

/-- body of `for taxon, idxs in matches.items():` -/
def outerB (F : Forest) (x : Nat × List Int) (s : St) : Py.M St Ret St :=
  if (F.lineage x.1).contains (s.consensus.getD 0) then
    match Py.forEach x.2 innerB { s with taxon := x.1, idxs := x.2 } with
    | .ok r => .ok r.1
    | .error e => .error e
  else .error (.cont { s with taxon := x.1, idxs := x.2 })

/-- the fields the loops leave alone (those read after the loops) -/
structure Frame (s s' : St) : Prop where
  ref_genomes : s'.ref_genomes = s.ref_genomes
  dists : s'.dists = s.dists
  consensus : s'.consensus = s.consensus
  closest_match : s'.closest_match = s.closest_match
  others : s'.others = s.others

theorem Frame.refl (s : St) : Frame s s := ⟨rfl, rfl, rfl, rfl, rfl⟩

theorem Frame.trans {s₁ s₂ s₃ : St} (h₁ : Frame s₁ s₂) (h₂ : Frame s₂ s₃) : Frame s₁ s₃ :=
  ⟨h₂.ref_genomes.trans h₁.ref_genomes, h₂.dists.trans h₁.dists, h₂.consensus.trans h₁.consensus,
    h₂.closest_match.trans h₁.closest_match, h₂.others.trans h₁.others⟩

/-- `(best_i, best_d, best_taxon)` as one optional triple (index, distance, taxon) -/
def R (s : St) (acc : Option (Nat × Nat × Nat)) : Prop :=
  s.best_i = acc.map (fun r => (r.1 : Int)) ∧ s.best_d = acc.map (fun r => r.2.1) ∧
    s.best_taxon = acc.map (fun r => r.2.2)

/-- `if d < best_d: best_i, best_d, best_taxon = i, d, taxon` on the triple; `it = (i, taxon)` -/
def pickT (ds : List Nat) (acc : Option (Nat × Nat × Nat)) (it : Nat × Nat) : Option (Nat × Nat × Nat) :=
  match acc with
  | none => some (it.1, ds.getD it.1 0, it.2)
  | some (bi, bd, bt) => if ds.getD it.1 0 < bd then some (it.1, ds.getD it.1 0, it.2) else some (bi, bd, bt)

/-- one iteration of the outer loop on the triple; `c` is the consensus taxon -/
def nestStep (F : Forest) (c : Nat) (ds : List Nat) (acc : Option (Nat × Nat × Nat)) (e : Nat × List Nat) :
    Option (Nat × Nat × Nat) :=
  if (F.lineage e.1).contains c then e.2.foldl (fun a i => pickT ds a (i, e.1)) acc else acc

theorem innerB_step (s : St) (acc : Option (Nat × Nat × Nat)) (i : Nat) (hi : i < s.dists.length)
    (hR : R s acc) :
    ∃ s', innerB (i : Int) s = .ok s' ∧ Frame s s' ∧ s'.taxon = s.taxon ∧
      R s' (pickT s.dists acc (i, s.taxon)) := by
  obtain ⟨h1, h2, h3⟩ := hR
  unfold innerB
  rw [getItem?_getD s.dists hi]
  cases acc with
  | none =>
    simp only [Option.map_none] at h1 h2 h3
    simp only [h2, if_true]
    exact ⟨_, rfl, ⟨rfl, rfl, rfl, rfl, rfl⟩, rfl, rfl, rfl, rfl⟩
  | some r =>
    obtain ⟨bi, bd, bt⟩ := r
    simp only [Option.map_some] at h1 h2 h3
    simp only [h2, pickT]
    by_cases hlt : s.dists.getD i 0 < bd
    · simp only [hlt, decide_true, if_true]
      exact ⟨_, rfl, ⟨rfl, rfl, rfl, rfl, rfl⟩, rfl, rfl, rfl, rfl⟩
    · simp only [hlt, decide_false, if_false, Bool.false_eq_true]
      exact ⟨_, rfl, ⟨rfl, rfl, rfl, rfl, rfl⟩, rfl, h1, rfl, h3⟩

/-- the inner `for` is a left fold of `pickT` -/
theorem forEach_innerB : ∀ (idxs : List Nat) (s : St) (acc : Option (Nat × Nat × Nat)),
    (∀ i ∈ idxs, i < s.dists.length) → R s acc →
    ∃ s', Py.forEach (idxs.map (fun (i : Nat) => (i : Int))) innerB s = .ok (s', true) ∧ Frame s s' ∧
      s'.taxon = s.taxon ∧ R s' (idxs.foldl (fun a i => pickT s.dists a (i, s.taxon)) acc)
  | [], s, acc, _, hR => ⟨s, rfl, Frame.refl s, rfl, hR⟩
  | i :: idxs, s, acc, hidx, hR => by
    obtain ⟨s1, hb, hf1, ht1, hR1⟩ := innerB_step s acc i (hidx i List.mem_cons_self) hR
    obtain ⟨s2, hl, hf2, ht2, hR2⟩ := forEach_innerB idxs s1 _
      (fun j hj => by rw [hf1.dists]; exact hidx j (List.mem_cons_of_mem _ hj)) hR1
    refine ⟨s2, ?_, hf1.trans hf2, ht2.trans ht1, ?_⟩
    · rw [List.map_cons, Py.forEach_cons, hb]; exact hl
    · rw [List.foldl_cons]
      rw [hf1.dists, ht1] at hR2
      exact hR2

/-- one iteration of the outer `for` is `nestStep` on the triple -/
theorem outerB_step (F : Forest) (c : Nat) (e : Nat × List Nat) (s : St) (acc : Option (Nat × Nat × Nat))
    (hc : s.consensus = some c) (hidx : ∀ i ∈ e.2, i < s.dists.length) (hR : R s acc) :
    ∃ s', (outerB F (e.1, e.2.map (fun (i : Nat) => (i : Int))) s = .ok s' ∨
        outerB F (e.1, e.2.map (fun (i : Nat) => (i : Int))) s = .error (.cont s')) ∧
      Frame s s' ∧ R s' (nestStep F c s.dists acc e) := by
  have hg : s.consensus.getD 0 = c := by rw [hc]; rfl
  unfold outerB nestStep
  rw [hg]
  by_cases hm : (F.lineage e.1).contains c = true
  · simp only [hm, if_true]
    obtain ⟨s1, hl, hf1, _, hR1⟩ := forEach_innerB e.2
      { s with taxon := e.1, idxs := e.2.map (fun (i : Nat) => (i : Int)) } acc hidx hR
    rw [hl]
    exact ⟨s1, Or.inl rfl, ⟨hf1.ref_genomes, hf1.dists, hf1.consensus, hf1.closest_match, hf1.others⟩, hR1⟩
  · simp only [hm, if_false, Bool.false_eq_true]
    exact ⟨_, Or.inr rfl, ⟨rfl, rfl, rfl, rfl, rfl⟩, hR⟩

/-- the outer `for` is a left fold of `nestStep` -/
theorem forEach_outerB (F : Forest) (c : Nat) : ∀ (L : List (Nat × List Nat)) (s : St)
    (acc : Option (Nat × Nat × Nat)), s.consensus = some c →
    (∀ e ∈ L, ∀ i ∈ e.2, i < s.dists.length) → R s acc →
    ∃ s', Py.forEach (L.map (fun e => (e.1, e.2.map (fun (i : Nat) => (i : Int))))) (outerB F) s
        = .ok (s', true) ∧ Frame s s' ∧ R s' (L.foldl (nestStep F c s.dists) acc)
  | [], s, acc, _, _, hR => ⟨s, rfl, Frame.refl s, hR⟩
  | e :: L, s, acc, hc, hidx, hR => by
    obtain ⟨s1, hb, hf1, hR1⟩ := outerB_step F c e s acc hc (hidx e List.mem_cons_self) hR
    obtain ⟨s2, hl2, hf2, hR2⟩ := forEach_outerB F c L s1 _ (hf1.consensus.trans hc)
      (fun e' he' i hi => by rw [hf1.dists]; exact hidx e' (List.mem_cons_of_mem _ he') i hi) hR1
    rw [hf1.dists] at hR2
    refine ⟨s2, ?_, hf1.trans hf2, hR2⟩
    rw [List.map_cons, Py.forEach_cons]
    rcases hb with hb | hb <;> rw [hb] <;> exact hl2

/-! ### the nested fold against the model's fold over the flattened candidate list -/

/-- (index, distance) of a triple -/
abbrev proj (r : Nat × Nat × Nat) : Nat × Nat := (r.1, r.2.1)

theorem pickT_proj (ds : List Nat) (acc : Option (Nat × Nat × Nat)) (it : Nat × Nat) :
    (pickT ds acc it).map proj = pickStep ds (acc.map proj) it.1 := by
  cases acc with
  | none => rfl
  | some r =>
    obtain ⟨bi, bd, bt⟩ := r
    simp only [pickT, pickStep, Option.map_some, proj]
    by_cases hlt : ds.getD it.1 0 < bd
    · simp only [hlt, if_true, Option.map_some]
    · simp only [hlt, if_false, Option.map_some]

theorem foldl_pickT_proj (ds : List Nat) : ∀ (T : List (Nat × Nat)) (acc : Option (Nat × Nat × Nat)),
    (T.foldl (pickT ds) acc).map proj = (T.map (·.1)).foldl (pickStep ds) (acc.map proj)
  | [], _ => rfl
  | it :: T, acc => by
    rw [List.foldl_cons, List.map_cons, List.foldl_cons, foldl_pickT_proj ds T, pickT_proj]

/-- a property of all candidates (with their distance) holds of the chosen triple -/
theorem foldl_pickT_inv (ds : List Nat) (P : Nat × Nat × Nat → Prop) :
    ∀ (T : List (Nat × Nat)) (acc : Option (Nat × Nat × Nat)), (∀ r, acc = some r → P r) →
      (∀ it ∈ T, P (it.1, ds.getD it.1 0, it.2)) → ∀ r, T.foldl (pickT ds) acc = some r → P r
  | [], _, hacc, _, r, hr => hacc r hr
  | it :: T, acc, hacc, hT, r, hr => by
    rw [List.foldl_cons] at hr
    refine foldl_pickT_inv ds P T (pickT ds acc it) ?_ (fun it' h' => hT it' (List.mem_cons_of_mem _ h')) r hr
    intro r' hr'
    have hit := hT it List.mem_cons_self
    cases acc with
    | none =>
      simp only [pickT, Option.some.injEq] at hr'
      rw [← hr']; exact hit
    | some r0 =>
      obtain ⟨bi, bd, bt⟩ := r0
      simp only [pickT] at hr'
      by_cases hlt : ds.getD it.1 0 < bd
      · simp only [hlt, if_true, Option.some.injEq] at hr'
        rw [← hr']; exact hit
      · simp only [hlt, if_false, Option.some.injEq] at hr'
        rw [← hr']; exact hacc _ rfl

/-- candidates tagged with the taxon they are listed under -/
def candsT (F : Forest) (c : Nat) (L : List (Nat × List Nat)) : List (Nat × Nat) :=
  L.flatMap (fun e => if (F.lineage e.1).contains c then e.2.map (fun i => (i, e.1)) else [])

theorem foldl_nestStep (F : Forest) (c : Nat) (ds : List Nat) (L : List (Nat × List Nat))
    (acc : Option (Nat × Nat × Nat)) :
    L.foldl (nestStep F c ds) acc = (candsT F c L).foldl (pickT ds) acc := by
  unfold candsT
  rw [List.foldl_flatMap]
  congr 1
  funext a e
  unfold nestStep
  by_cases hm : (F.lineage e.1).contains c = true
  · simp only [hm, if_true, List.foldl_map]
  · simp only [hm, if_false, List.foldl_nil, Bool.false_eq_true]

theorem mem_candsT {F : Forest} {c : Nat} {L : List (Nat × List Nat)} {it : Nat × Nat}
    (h : it ∈ candsT F c L) : ∃ e ∈ L, e.1 = it.2 ∧ it.1 ∈ e.2 := by
  unfold candsT at h
  obtain ⟨e, he, hit⟩ := List.mem_flatMap.1 h
  by_cases hm : (F.lineage e.1).contains c = true
  · rw [if_pos hm] at hit
    obtain ⟨i, hi, rfl⟩ := List.mem_map.1 hit
    exact ⟨e, he, rfl, hi⟩
  · rw [if_neg hm] at hit; cases hit

theorem candsT_fst (F : Forest) (hF : ForestWF F) {c : Nat} (hc : c < F.size) :
    ∀ (L : List (Nat × List Nat)), (∀ e ∈ L, e.1 < F.size) →
      (candsT F c L).map (·.1) = L.flatMap (fun e => if isPrefix (F.path c) (F.path e.1) then e.2 else [])
  | [], _ => rfl
  | e :: L, hL => by
    have ih := candsT_fst F hF hc L (fun e' he' => hL e' (List.mem_cons_of_mem _ he'))
    unfold candsT at ih ⊢
    rw [List.flatMap_cons, List.flatMap_cons, List.map_append, ih]
    congr 1
    have he : e.1 < F.size := hL e List.mem_cons_self
    have hiff : (F.lineage e.1).contains c = isPrefix (F.path c) (F.path e.1) := by
      rw [Bool.eq_iff_iff, isPrefix_iff, List.contains_iff_mem]
      exact TieCons.mem_lineage_iff_prefix F hF he hc
    rw [hiff]
    by_cases hp : isPrefix (F.path c) (F.path e.1) = true
    · simp only [hp, if_true, List.map_map]
      exact List.map_id' _
    · simp only [hp, if_false, List.map_nil, Bool.false_eq_true]

/-! ### facts about `findMatches` -/

theorem matchingTaxon_eq_predictedSpec (F : Forest) (t d : Nat) :
    matchingTaxon F t d = predictedSpec F t d := by
  unfold matchingTaxon predictedSpec thrLineage
  exact (find?_filter_of_imp _ _ (fun a h => covers_thr_isSome h) _).symm

theorem findMatches_keys_nodup (F : Forest) (gtax ds : List Nat) :
    ((findMatches F gtax ds).map (·.1)).Nodup := by
  rw [findMatches_eq_dictFold]
  suffices H : ∀ (l : List Nat) (acc : List (Nat × List Nat)), (acc.map (·.1)).Nodup →
      ((l.foldl (fun acc i =>
        match matchingTaxon F (gtax.getD i 0) (ds.getD i 0) with
        | some t => Py.dictAppend acc t i
        | none => acc) acc).map (·.1)).Nodup from H _ [] List.nodup_nil
  intro l
  induction l with
  | nil => intro acc h; exact h
  | cons i l ih =>
    intro acc h
    rw [List.foldl_cons]
    apply ih
    cases matchingTaxon F (gtax.getD i 0) (ds.getD i 0) with
    | none => exact h
    | some t => exact nodup_keys_dictAppend acc t i h

theorem findMatches_idx (F : Forest) (gtax ds : List Nat) {e : Nat × List Nat}
    (he : e ∈ findMatches F gtax ds) {i : Nat} (hi : i ∈ e.2) :
    i < gtax.length ∧ matchingTaxon F (gtax.getD i 0) (ds.getD i 0) = some e.1 := by
  rw [matchingTaxon_eq_predictedSpec]
  exact (findMatches_mem F gtax ds e.1 i).1 ⟨e, he, rfl, hi⟩

theorem findMatches_key_lt (F : Forest) (hF : ForestWF F) (gtax ds : List Nat)
    (hT : ∀ t ∈ gtax, t < F.size) {e : Nat × List Nat} (he : e ∈ findMatches F gtax ds) :
    e.1 < F.size := by
  obtain ⟨i, hi⟩ := List.exists_mem_of_ne_nil _ (findMatches_ne_nil F gtax ds e he)
  obtain ⟨hlt, hm⟩ := findMatches_idx F gtax ds he hi
  have hmem : e.1 ∈ F.lineage (gtax.getD i 0) := by
    unfold matchingTaxon at hm
    exact List.mem_of_find?_eq_some hm
  have hg : gtax.getD i 0 < F.size := by
    apply hT
    rw [List.getD_eq_getElem?_getD, List.getElem?_eq_getElem hlt]
    exact List.getElem_mem hlt
  exact TieCons.mem_lineage_lt_size F hF hg hmem

/-! ### paths -/

theorem lineage_head?_pos (F : Forest) (hpos : 0 < F.size) (x : Nat) : (F.lineage x).head? = some x := by
  unfold Forest.lineage
  obtain ⟨k, hk⟩ : ∃ k, F.size = k + 1 := ⟨F.size - 1, by omega⟩
  rw [hk]
  rfl

theorem path_getLast? (F : Forest) (hpos : 0 < F.size) (x : Nat) : (F.path x).getLast? = some x := by
  unfold Forest.path
  rw [List.getLast?_reverse, lineage_head?_pos F hpos]

theorem filterMap_getLast?_isEmpty (l : List (List Nat)) (h : ∀ p ∈ l, p ≠ []) :
    (l.filterMap (fun p => p.getLast?)).isEmpty = l.isEmpty := by
  cases l with
  | nil => rfl
  | cons p l =>
    have hp := h p List.mem_cons_self
    cases p with
    | nil => exact absurd rfl hp
    | cons a p =>
      rw [List.filterMap_cons]
      have : (a :: p).getLast? = some ((a :: p).getLast (by simp)) := List.getLast?_eq_some_getLast _
      rw [this]
      rfl

/-! ### the result of `consensusPaths` on the matched taxa -/

/-- the paths of the matched taxa -/
abbrev matchedPaths (F : Forest) (gtax ds : List Nat) : List (List Nat) :=
  ((findMatches F gtax ds).map (·.1)).map F.path

/-- the consensus taxon is a node of the forest below which some genome is matched -/
theorem consensus_facts (F : Forest) (hF : ForestWF F) (gtax ds : List Nat) (hT : ∀ t ∈ gtax, t < F.size)
    (c : Nat) (h : (consensusPaths (matchedPaths F gtax ds)).1 = some (F.path c)) :
    c < F.size ∧
      (findMatches F gtax ds).flatMap (fun e => if isPrefix (F.path c) (F.path e.1) then e.2 else []) ≠ [] := by
  obtain ⟨split, inv⟩ := consensusPaths_inv _ (findMatches_path_ne_nil F gtax ds) _ h
  obtain ⟨s, hs, hcs⟩ := inv.below
  refine ⟨?_, cands_ne_nil F gtax ds _ ⟨s, hs, hcs⟩⟩
  simp only [List.mem_map] at hs
  obtain ⟨t, ⟨e, he, rfl⟩, rfl⟩ := hs
  have ht : e.1 < F.size := findMatches_key_lt F hF gtax ds hT he
  have hpos : 0 < F.size := by omega
  have h1 : c ∈ F.path c := List.mem_of_getLast? (path_getLast? F hpos c)
  have h2 : c ∈ F.lineage e.1 := (TieCons.mem_path F e.1 c).1 (hcs.subset h1)
  exact TieCons.mem_lineage_lt_size F hF ht h2

/-- the paths of the `others` list are non-empty -/
theorem others_facts (F : Forest) (gtax ds : List Nat) (os : List Nat)
    (h : (consensusPaths (matchedPaths F gtax ds)).2 = os.map F.path) :
    ((os.map F.path).filterMap (fun p => p.getLast?)).isEmpty = os.isEmpty := by
  rw [filterMap_getLast?_isEmpty, List.isEmpty_map]
  intro p hp
  rw [← h, consensusPaths_snd] at hp
  apply findMatches_path_ne_nil F gtax ds p
  cases hf : (consensusPaths (matchedPaths F gtax ds)).1 with
  | none => rw [hf] at hp; exact hp
  | some cp => rw [hf] at hp; exact (List.mem_filter.1 hp).1

/-- a failed consensus leaves all matched taxa in `others` -/
theorem others_of_none (F : Forest) (gtax ds : List Nat) (os : List Nat)
    (hne : (findMatches F gtax ds).isEmpty = false)
    (h1 : (consensusPaths (matchedPaths F gtax ds)).1 = none)
    (h2 : (consensusPaths (matchedPaths F gtax ds)).2 = os.map F.path) : os.isEmpty = false := by
  rw [consensusPaths_snd, h1] at h2
  have : (os.map F.path).isEmpty = false := by
    rw [← h2, List.isEmpty_map, List.isEmpty_map]; exact hne
  simpa using this

/-- the primary match: the nested fold of the loops yields the model's primary index `p`, together
with its distance and the taxon matched by genome `p` -/
theorem primary_spec (F : Forest) (hF : ForestWF F) (gtax ds : List Nat) (hT : ∀ t ∈ gtax, t < F.size)
    (c : Nat) (h : (consensusPaths (matchedPaths F gtax ds)).1 = some (F.path c)) :
    ∃ p t, (findMatches F gtax ds).foldl (nestStep F c ds) none = some (p, ds.getD p 0, t) ∧
      p < gtax.length ∧ matchingTaxon F (gtax.getD p 0) (ds.getD p 0) = some t ∧
      (((findMatches F gtax ds).flatMap
        (fun e => if isPrefix (F.path c) (F.path e.1) then e.2 else [])).foldl (pickStep ds) none).map (·.1)
        = some p := by
  obtain ⟨hc, hne⟩ := consensus_facts F hF gtax ds hT c h
  have hfst := candsT_fst F hF hc (findMatches F gtax ds)
    (fun e he => findMatches_key_lt F hF gtax ds hT he)
  obtain ⟨p, _, hp, _⟩ := pick_spec ds _ hne
  have hproj := foldl_pickT_proj ds (candsT F c (findMatches F gtax ds)) none
  rw [hfst, Option.map_none] at hproj
  rw [foldl_nestStep]
  cases hfin : (candsT F c (findMatches F gtax ds)).foldl (pickT ds) none with
  | none =>
    rw [hfin, Option.map_none] at hproj
    rw [← hproj] at hp
    cases hp
  | some r =>
    obtain ⟨bi, bd, bt⟩ := r
    rw [hfin, Option.map_some] at hproj
    rw [← hproj] at hp
    simp only [Option.map_some, Option.some.injEq, proj] at hp
    subst hp
    have hP := foldl_pickT_inv ds
      (fun r => r.2.1 = ds.getD r.1 0 ∧ r.1 < gtax.length ∧
        matchingTaxon F (gtax.getD r.1 0) (ds.getD r.1 0) = some r.2.2)
      (candsT F c (findMatches F gtax ds)) none (fun r hr => by cases hr)
      (fun it hit => by
        obtain ⟨e, he, het, hi⟩ := mem_candsT hit
        obtain ⟨h1, h2⟩ := findMatches_idx F gtax ds he hi
        exact ⟨rfl, h1, het ▸ h2⟩) _ hfin
    obtain ⟨h1, h2, h3⟩ := hP
    simp only at h1 h2 h3
    subst h1
    exact ⟨bi, bt, rfl, h2, h3, by rw [← hproj]; rfl⟩

end GambitV.TieTop
