import GambitV.Spec.Taxonomy

/-!
Helper lemmas for `Props/C03` and `Props/C09` (core Lean only).
-/
namespace GambitV

/-! ### thresholds / `covers` -/

theorem covers_thr_isSome {F : Forest} {a d : Nat} (h : F.covers a d = true) :
    (F.thrOf a).isSome = true := by
  unfold Forest.covers at h
  cases hth : F.thrOf a with
  | none => simp [hth] at h
  | some th => rfl

theorem covers_mono {F : Forest} {a d d' : Nat} (hd : d ≤ d') (h : F.covers a d' = true) :
    F.covers a d = true := by
  unfold Forest.covers at h ⊢
  cases hth : F.thrOf a with
  | none => simp [hth] at h
  | some th =>
    simp only [hth, decide_eq_true_eq] at h ⊢
    omega

/-- filtering on a weaker predicate does not change the first hit -/
theorem find?_filter_of_imp {α : Type} (p q : α → Bool) (hq : ∀ a, q a = true → p a = true)
    (l : List α) : (l.filter p).find? q = l.find? q := by
  induction l with
  | nil => rfl
  | cons a l ih =>
    by_cases hqa : q a = true
    · have hpa := hq a hqa
      simp [hpa, hqa]
    · by_cases hpa : p a = true
      · simp [hpa, hqa, ih]
      · simp [hpa, hqa, ih]

/-- the first hit of a stronger predicate is at or after the first hit of a weaker one -/
theorem find?_weaken {α : Type} (q q' : α → Bool) (hq : ∀ a, q' a = true → q a = true)
    (l : List α) (p' : α) (h : l.find? q' = some p') :
    ∃ (p : α) (i j : Nat), l.find? q = some p ∧ i ≤ j ∧ l[i]? = some p ∧ l[j]? = some p' := by
  induction l with
  | nil => simp at h
  | cons a l ih =>
    by_cases hqa : q a = true
    · have hmem : p' ∈ a :: l := List.mem_of_find?_eq_some h
      obtain ⟨j, hj⟩ := List.mem_iff_getElem?.mp hmem
      exact ⟨a, 0, j, by simp [hqa], Nat.zero_le _, by simp, hj⟩
    · have hq'a : ¬ q' a = true := fun h' => hqa (hq a h')
      have h' : l.find? q' = some p' := by simpa [List.find?_cons, hq'a] using h
      obtain ⟨p, i, j, h1, h2, h3, h4⟩ := ih h'
      exact ⟨p, i + 1, j + 1, by simpa [List.find?_cons, hqa] using h1, by omega,
        by simpa using h3, by simpa using h4⟩

/-! ### `nextWalk` -/

theorem nextWalk_eq (F : Forest) (d : Nat) (T : List Nat) (lo : Option Nat) :
    nextWalk F d T lo =
      match T.findIdx? (fun a => F.covers a d) with
      | some 0 => lo
      | some (i + 1) => T[i]?
      | none => (T.getLast?).or lo := by
  induction T generalizing lo with
  | nil => simp [nextWalk]
  | cons hi rest ih =>
    by_cases hc : F.covers hi d = true
    · simp [nextWalk, List.findIdx?_cons, hc]
    · simp only [nextWalk, hc, List.findIdx?_cons, if_false, Bool.false_eq_true]
      rw [ih]
      cases hf : List.findIdx? (fun a => F.covers a d) rest with
      | none =>
        simp only [Option.map_none, List.getLast?_cons]
        cases rest.getLast? <;> rfl
      | some k =>
        cases k with
        | zero => simp
        | succ k => simp

/-! ### `argminFirst` -/

theorem argminFirst_go_spec (xs : List Nat) :
    ∀ (pre : List Nat) (best bestI : Nat),
      bestI < pre.length → pre[bestI]? = some best → (∀ x ∈ pre, best ≤ x) →
      (∀ j, j < bestI → ∀ y, pre[j]? = some y → best < y) →
      let c := argminFirst.go best bestI pre.length xs
      ∃ m, c < (pre ++ xs).length ∧ (pre ++ xs)[c]? = some m ∧ (∀ x ∈ pre ++ xs, m ≤ x) ∧
        (∀ j, j < c → ∀ y, (pre ++ xs)[j]? = some y → m < y) := by
  induction xs with
  | nil =>
    intro pre best bestI h1 h2 h3 h4
    simp only [argminFirst.go, List.append_nil]
    exact ⟨best, h1, h2, h3, h4⟩
  | cons x xs ih =>
    intro pre best bestI h1 h2 h3 h4
    have hlen : (pre ++ [x]).length = pre.length + 1 := by simp
    have happ : pre ++ x :: xs = (pre ++ [x]) ++ xs := by simp
    simp only [argminFirst.go]
    rw [happ, ← hlen]
    by_cases hx : x < best
    · simp only [hx, if_true]
      have := ih (pre ++ [x]) x pre.length (by simp) (by simp)
        (by
          intro y hy
          rcases List.mem_append.mp hy with hy | hy
          · have := h3 y hy; omega
          · simp at hy; omega)
        (by
          intro j hj y hy
          rw [List.getElem?_append_left hj] at hy
          have := h3 y (List.mem_of_getElem? hy); omega)
      rw [hlen] at this ⊢
      exact this
    · simp only [hx, if_false]
      have := ih (pre ++ [x]) best bestI (by simp; omega)
        (by rw [List.getElem?_append_left h1]; exact h2)
        (by
          intro y hy
          rcases List.mem_append.mp hy with hy | hy
          · exact h3 y hy
          · simp at hy; omega)
        (by
          intro j hj y hy
          rw [List.getElem?_append_left (by omega)] at hy
          exact h4 j hj y hy)
      rw [hlen] at this ⊢
      exact this

theorem argminFirst_spec' (ds : List Nat) (h : ds ≠ []) :
    ∃ m, argminFirst ds < ds.length ∧ ds[argminFirst ds]? = some m ∧ (∀ x ∈ ds, m ≤ x) ∧
      (∀ j, j < argminFirst ds → ∀ y, ds[j]? = some y → m < y) := by
  cases ds with
  | nil => exact absurd rfl h
  | cons d ds =>
    have := argminFirst_go_spec ds [d] d 0 (by simp) (by simp) (by simp) (by intro j hj; omega)
    simpa [argminFirst] using this

/-- `argminFirst` in `getD` form (the form used by `classifyDefault`) -/
theorem argminFirst_getD_spec (ds : List Nat) (h : ds ≠ []) :
    argminFirst ds < ds.length ∧ (∀ x ∈ ds, ds.getD (argminFirst ds) 0 ≤ x) ∧
      (∀ j, j < argminFirst ds → ds.getD (argminFirst ds) 0 < ds.getD j 0) := by
  obtain ⟨m, h1, h2, h3, h4⟩ := argminFirst_spec' ds h
  have hm : ds.getD (argminFirst ds) 0 = m := by simp [List.getD_eq_getElem?_getD, h2]
  rw [hm]
  refine ⟨h1, h3, ?_⟩
  intro j hj
  have hjl : j < ds.length := by omega
  have := h4 j hj ds[j] (List.getElem?_eq_getElem hjl)
  simpa [List.getD_eq_getElem?_getD, hjl] using this

/-! ### `keyLt` is a strict total order on indices -/

theorem keyLt_irrefl (ds : List Nat) (i : Nat) : keyLt ds i i = false := by
  simp [keyLt]

theorem keyLt_asymm {ds : List Nat} {i j : Nat} (h : keyLt ds i j = true) : keyLt ds j i = false := by
  simp only [keyLt, Bool.or_eq_true, decide_eq_true_eq, Bool.and_eq_true, beq_iff_eq] at h
  simp only [keyLt, Bool.or_eq_false_iff, decide_eq_false_iff_not, Bool.and_eq_false_iff, beq_eq_false_iff_ne]
  omega

theorem keyLt_trans {ds : List Nat} {i j k : Nat} (h1 : keyLt ds i j = true) (h2 : keyLt ds j k = true) :
    keyLt ds i k = true := by
  simp only [keyLt, Bool.or_eq_true, decide_eq_true_eq, Bool.and_eq_true, beq_iff_eq] at h1 h2 ⊢
  omega

theorem keyLt_total (ds : List Nat) {i j : Nat} (h : i ≠ j) : keyLt ds i j = true ∨ keyLt ds j i = true := by
  simp only [keyLt, Bool.or_eq_true, decide_eq_true_eq, Bool.and_eq_true, beq_iff_eq]
  omega

theorem keyLt_of_le_of_lt {ds : List Nat} {i j : Nat} (h1 : ds.getD i 0 ≤ ds.getD j 0) (h2 : i < j) :
    keyLt ds i j = true := by
  simp only [keyLt, Bool.or_eq_true, decide_eq_true_eq, Bool.and_eq_true, beq_iff_eq]
  omega

theorem keyLt_of_lt {ds : List Nat} {i j : Nat} (h1 : ds.getD i 0 < ds.getD j 0) :
    keyLt ds i j = true := by
  simp only [keyLt, Bool.or_eq_true, decide_eq_true_eq, Bool.and_eq_true, beq_iff_eq]
  omega

theorem keyLt_le {ds : List Nat} {i j : Nat} (h : keyLt ds i j = true) : ds.getD i 0 ≤ ds.getD j 0 := by
  simp only [keyLt, Bool.or_eq_true, decide_eq_true_eq, Bool.and_eq_true, beq_iff_eq] at h
  omega

/-! ### insertion / stable argsort -/

theorem insertByDist_perm (ds : List Nat) (i : Nat) (l : List Nat) :
    (insertByDist ds i l).Perm (i :: l) := by
  induction l with
  | nil => exact List.Perm.refl _
  | cons j js ih =>
    simp only [insertByDist]
    split
    · exact List.Perm.refl _
    · exact (List.Perm.cons j ih).trans (List.Perm.swap i j js)

theorem insertByDist_sorted (ds : List Nat) (i : Nat) (l : List Nat)
    (hgt : ∀ j ∈ l, i < j) (hs : l.Pairwise (fun a b => keyLt ds a b = true)) :
    (insertByDist ds i l).Pairwise (fun a b => keyLt ds a b = true) := by
  induction l with
  | nil => simp [insertByDist]
  | cons j js ih =>
    have hs' := List.pairwise_cons.mp hs
    simp only [insertByDist]
    split
    · rename_i hle
      refine List.pairwise_cons.mpr ⟨?_, hs⟩
      intro x hx
      rcases List.mem_cons.mp hx with rfl | hx'
      · exact keyLt_of_le_of_lt hle (hgt _ (List.mem_cons_self))
      · have := keyLt_le (hs'.1 x hx')
        exact keyLt_of_le_of_lt (by omega) (hgt _ hx)
    · rename_i hle
      refine List.pairwise_cons.mpr ⟨?_, ih (fun x hx => hgt x (List.mem_cons_of_mem _ hx)) hs'.2⟩
      intro x hx
      rcases List.mem_cons.mp ((insertByDist_perm ds i js).mem_iff.mp hx) with rfl | hx'
      · exact keyLt_of_lt (by omega)
      · exact hs'.1 x hx'

theorem foldr_insert_perm (ds : List Nat) (idx : List Nat) :
    (idx.foldr (insertByDist ds) []).Perm idx := by
  induction idx with
  | nil => exact List.Perm.refl _
  | cons i rest ih =>
    simp only [List.foldr_cons]
    exact (insertByDist_perm ds i _).trans (List.Perm.cons i ih)

theorem foldr_insert_sorted (ds : List Nat) (idx : List Nat) (h : idx.Pairwise (· < ·)) :
    (idx.foldr (insertByDist ds) []).Pairwise (fun a b => keyLt ds a b = true) := by
  induction idx with
  | nil => simp
  | cons i rest ih =>
    have h' := List.pairwise_cons.mp h
    simp only [List.foldr_cons]
    refine insertByDist_sorted ds i _ ?_ (ih h'.2)
    intro j hj
    exact h'.1 j ((foldr_insert_perm ds rest).mem_iff.mp hj)

/-! ### uniqueness of a sorted, downward-closed selection -/

theorem sorted_closed_unique (ds : List Nat) :
    ∀ (L L' : List Nat) (P : Nat → Prop), L.length = L'.length →
      (∀ i ∈ L, P i) → (∀ i ∈ L', P i) →
      L.Pairwise (fun a b => keyLt ds a b = true) → L'.Pairwise (fun a b => keyLt ds a b = true) →
      (∀ j, P j → j ∈ L ∨ ∀ i ∈ L, keyLt ds i j = true) →
      (∀ j, P j → j ∈ L' ∨ ∀ i ∈ L', keyLt ds i j = true) → L = L' := by
  intro L
  induction L with
  | nil =>
    intro L' P hlen _ _ _ _ _ _
    cases L' with
    | nil => rfl
    | cons _ _ => simp at hlen
  | cons a L1 ih =>
    intro L' P hlen hP hP' hs hs' hc hc'
    cases L' with
    | nil => simp at hlen
    | cons b L1' =>
      have hsa := List.pairwise_cons.mp hs
      have hsb := List.pairwise_cons.mp hs'
      -- heads agree
      have hab : a = b := by
        apply Classical.byContradiction
        intro hne
        rcases keyLt_total ds hne with hlt | hlt
        · -- a before b: a is not in L', so b before a
          rcases hc' a (hP a List.mem_cons_self) with hmem | hall
          · rcases List.mem_cons.mp hmem with h | h
            · exact hne h
            · have := keyLt_asymm (hsb.1 a h); simp [hlt] at this
          · have := keyLt_asymm (hall b List.mem_cons_self); simp [hlt] at this
        · rcases hc b (hP' b List.mem_cons_self) with hmem | hall
          · rcases List.mem_cons.mp hmem with h | h
            · exact hne h.symm
            · have := keyLt_asymm (hsa.1 b h); simp [hlt] at this
          · have := keyLt_asymm (hall a List.mem_cons_self); simp [hlt] at this
      subst hab
      have hne_of : ∀ {l : List Nat}, (∀ x ∈ l, keyLt ds a x = true) → ∀ i ∈ l, i ≠ a := by
        intro l hl i hi hia
        subst hia
        have := hl i hi
        simp [keyLt_irrefl] at this
      have htail : L1 = L1' := by
        refine ih L1' (fun j => P j ∧ j ≠ a) (by simpa using hlen)
          (fun i hi => ⟨hP i (List.mem_cons_of_mem _ hi), hne_of hsa.1 i hi⟩)
          (fun i hi => ⟨hP' i (List.mem_cons_of_mem _ hi), hne_of hsb.1 i hi⟩)
          hsa.2 hsb.2 ?_ ?_
        · intro j ⟨hPj, hja⟩
          rcases hc j hPj with hmem | hall
          · rcases List.mem_cons.mp hmem with h | h
            · exact absurd h hja
            · exact Or.inl h
          · exact Or.inr (fun i hi => hall i (List.mem_cons_of_mem _ hi))
        · intro j ⟨hPj, hja⟩
          rcases hc' j hPj with hmem | hall
          · rcases List.mem_cons.mp hmem with h | h
            · exact absurd h hja
            · exact Or.inl h
          · exact Or.inr (fun i hi => hall i (List.mem_cons_of_mem _ hi))
      rw [htail]

/-- `closestOk` in `Prop` form -/
theorem closestOk_iff (ds : List Nat) (N : Nat) (L : List Nat) :
    closestOk ds N L = true ↔
      L.length = min N ds.length ∧ (∀ i ∈ L, i < ds.length) ∧
      L.Pairwise (fun a b => keyLt ds a b = true) ∧
      (∀ j, j < ds.length → j ∈ L ∨ ∀ i ∈ L, keyLt ds i j = true) := by
  unfold closestOk
  simp only [Bool.and_eq_true, decide_eq_true_eq, List.all_eq_true, List.mem_range, Bool.or_eq_true,
    Bool.not_eq_true', decide_eq_false_iff_not, List.contains_iff_mem]
  constructor
  · rintro ⟨⟨⟨h1, h2⟩, h3⟩, h4⟩
    refine ⟨h1, h2, ?_, h4⟩
    rw [List.pairwise_iff_getElem]
    intro a b ha hb hab
    rcases h3 a ha b hb with h | h
    · exact absurd hab h
    · simpa [List.getD_eq_getElem?_getD, ha, hb] using h
  · rintro ⟨h1, h2, h3, h4⟩
    refine ⟨⟨⟨h1, h2⟩, ?_⟩, h4⟩
    intro a ha b hb
    by_cases hab : a < b
    · right
      rw [List.pairwise_iff_getElem] at h3
      simpa [List.getD_eq_getElem?_getD, ha, hb] using h3 a b ha hb hab
    · exact Or.inl hab

end GambitV
