import GambitV.Model.SigFile
import GambitV.Lemmas.Indexing

/-!
Helper lemmas for C12 / C19 (`Model/SigFile.lean`): the per-signature slice writes fill the
zero-initialised dataset with the concatenation, and the shape of the writer's call trace.
Core Lean only.
-/
namespace GambitV

/-! ### Cumulative bounds -/

theorem cumBounds_eq_ofList (sigs : List (List Nat)) : cumBounds sigs = (Concat.ofList sigs).bounds :=
  rfl

theorem cumBounds_eq_prefixSums (sigs : List (List Nat)) : cumBounds sigs = 0 :: prefixSums 0 sigs := by
  rw [cumBounds_eq_ofList, ofList_bounds]

theorem cumBounds_getD (sigs : List (List Nat)) (i : Nat) (h : i ≤ sigs.length) :
    (cumBounds sigs).getD i 0 = (sigs.take i).flatten.length := by
  rw [cumBounds_eq_prefixSums, prefixSums_getD 0 sigs i h, Nat.zero_add]

theorem cumBounds_getLastD (sigs : List (List Nat)) :
    (cumBounds sigs).getLastD 0 = sigs.flatten.length := by
  rw [cumBounds_eq_prefixSums, prefixSums_getLastD, Nat.zero_add]

/-! ### The slice writes -/

/-- one `values[bounds[i]:bounds[i+1]] = signatures[i]` -/
def writeSliceStep (b : List Nat) (sigs : List (List Nat)) (vals : List Nat) (i : Nat) : List Nat :=
  vals.take (b.getD i 0) ++ sigs.getD i [] ++ vals.drop (b.getD i 0 + (sigs.getD i []).length)

theorem writeSlices_eq_foldl (sigs : List (List Nat)) :
    writeSlices sigs =
      (List.range sigs.length).foldl (writeSliceStep (cumBounds sigs) sigs)
        (List.replicate ((cumBounds sigs).getLastD 0) 0) := rfl

/-- Writing a signature `s` at offset `|P|` into `P ++ 0…0` gives `P ++ s ++ 0…0`. -/
theorem write_into_zeros (P s : List Nat) (k : Nat) :
    (P ++ List.replicate k 0).take P.length ++ s ++
        (P ++ List.replicate k 0).drop (P.length + s.length) =
      (P ++ s) ++ List.replicate (k - s.length) 0 := by
  rw [List.take_left', List.drop_append, List.drop_of_length_le (by omega), List.nil_append]
  · have : P.length + s.length - P.length = s.length := by omega
    rw [this, List.drop_replicate]
  · rfl

/-- Loop invariant: after the first `m` slice writes the dataset holds the first `m` signatures,
concatenated, followed by zeros. -/
theorem writeSlices_prefix (sigs : List (List Nat)) (T m : Nat) (hm : m ≤ sigs.length) :
    (List.range m).foldl (writeSliceStep (cumBounds sigs) sigs) (List.replicate T 0) =
      (sigs.take m).flatten ++ List.replicate (T - (sigs.take m).flatten.length) 0 := by
  induction m with
  | zero => simp
  | succ m ih =>
    have hm' : m < sigs.length := by omega
    rw [List.range_succ, List.foldl_append, ih (by omega), List.foldl_cons, List.foldl_nil]
    unfold writeSliceStep
    rw [cumBounds_getD sigs m (by omega)]
    have hget : sigs.getD m [] = sigs[m] := by
      rw [List.getD_eq_getElem?_getD, List.getElem?_eq_getElem hm']; rfl
    have htake : sigs.take (m + 1) = sigs.take m ++ [sigs[m]] := by
      rw [List.take_add_one, List.getElem?_eq_getElem hm']; rfl
    rw [hget, write_into_zeros, htake, List.flatten_append]
    simp only [List.flatten_cons, List.flatten_nil, List.append_nil, List.length_append]
    congr 2
    omega

/-! ### The writer's trace -/

/-- everything before the final `close` -/
def writerBody (fast : Bool) (nsigs : Nat) : List WOp :=
  [.createFile] ++ attrNames.map .setAttr ++ [.createDataset "ids"] ++
  (if fast then [.createDataset "values", .createDataset "bounds"]
   else [.createDataset "bounds", .writeChunk 0, .writeChunk 1, .createDataset "values"] ++
        (List.range nsigs).map (fun i => .writeChunk (i + 2)))

theorem writerTrace_eq (fast : Bool) (nsigs : Nat) :
    writerTrace fast nsigs = writerBody fast nsigs ++ [.close] := rfl

theorem close_not_mem_writerBody (fast : Bool) (nsigs : Nat) : WOp.close ∉ writerBody fast nsigs := by
  cases fast <;> simp [writerBody, attrNames]

theorem flush_not_mem_writerBody (fast : Bool) (nsigs : Nat) : WOp.flush ∉ writerBody fast nsigs := by
  cases fast <;> simp [writerBody, attrNames]

theorem writerTrace_length (fast : Bool) (nsigs : Nat) :
    (writerTrace fast nsigs).length = (writerBody fast nsigs).length + 1 := by
  rw [writerTrace_eq, List.length_append]; rfl

/-- a strict prefix of the trace is a prefix of the body -/
theorem take_writerTrace (fast : Bool) (nsigs n : Nat) (hn : n < (writerTrace fast nsigs).length) :
    (writerTrace fast nsigs).take n = (writerBody fast nsigs).take n := by
  rw [writerTrace_length] at hn
  rw [writerTrace_eq, List.take_append_of_le_length (by omega)]

theorem close_not_mem_take (fast : Bool) (nsigs n : Nat) (hn : n < (writerTrace fast nsigs).length) :
    WOp.close ∉ (writerTrace fast nsigs).take n := by
  rw [take_writerTrace fast nsigs n hn]
  exact fun h => close_not_mem_writerBody fast nsigs (List.mem_of_mem_take h)

theorem flush_not_mem_take (fast : Bool) (nsigs n : Nat) (hn : n < (writerTrace fast nsigs).length) :
    WOp.flush ∉ (writerTrace fast nsigs).take n := by
  rw [take_writerTrace fast nsigs n hn]
  exact fun h => flush_not_mem_writerBody fast nsigs (List.mem_of_mem_take h)

end GambitV
