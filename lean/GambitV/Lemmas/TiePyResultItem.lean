import GambitV.Lemmas.PyRt
import GambitV.Lemmas.Consensus
import GambitV.Props.C09

/-!
Helper lemmas for the tie of the translated `get_result_item` (`GambitV.Tie.PyResultItem`): the slice
`xs[:N]`, a `for` loop whose body falls through on every element that satisfies a side condition (under a
state invariant), the entries of `stableArgsort`, and the `closest` field of the two classifier models.
Nothing here mentions the generated term.  Core Lean only.
-/
namespace GambitV.TieRI
open GambitV GambitV.Py GambitV.C09

/-- `xs[:N]` for a natural `N` -/
theorem slice_none_natCast {α : Type} (xs : List α) (N : Nat) :
    Py.slice xs none (some (N : Int)) = xs.take N := by
  unfold Py.slice Py.clampBound
  have h1 : ¬ ((N : Int) < 0) := by omega
  simp only [h1, if_false, Int.toNat_natCast, List.drop_zero, Nat.sub_zero]
  exact (List.take_eq_take_min).symm

/-- A `for` loop whose body falls through (`ok (step s x)`) on every element satisfying `Q`, from every state
satisfying the invariant `P`, is a left fold.  The loop is passed as an equation so that the body is found by
unification, whatever shape it has. -/
theorem forEach_fold_of {α σ ρ : Type} {xs : List α} {body : α → σ → M σ ρ σ} {s : σ} {w : M σ ρ (σ × Bool)}
    (hw : forEach xs body s = w) (P : σ → Prop) (Q : α → Prop) (step : σ → α → σ)
    (hb : ∀ x s, Q x → P s → body x s = .ok (step s x) ∧ P (step s x))
    (hx : ∀ x ∈ xs, Q x) (hs : P s) : w = .ok (xs.foldl step s, true) := by
  subst hw
  induction xs generalizing s with
  | nil => rfl
  | cons x xs ih =>
    obtain ⟨h1, h2⟩ := hb x s (hx x (List.mem_cons_self ..)) hs
    rw [forEach_cons, h1]
    exact ih (fun y hy => hx y (List.mem_cons_of_mem _ hy)) h2

/-- every entry of the argsort is an index of the distance row -/
theorem stableArgsort_lt (ds : List Nat) {i : Nat} (hi : i ∈ stableArgsort ds) : i < ds.length := by
  have := (stableArgsort_perm ds).mem_iff.1 hi
  simpa using this

theorem closestList_lt (ds : List Nat) (N : Nat) {i : Nat} (hi : i ∈ closestList ds N) : i < ds.length :=
  stableArgsort_lt ds (List.mem_of_mem_take hi)

/-- the closest match of the strict-mode model is `np.argmin` of the distances, as in default mode -/
theorem classifyStrict_closest (F : Forest) (gtax ds : List Nat) :
    (classifyStrict F gtax ds).closest = argminFirst ds := by
  by_cases hE : (findMatches F gtax ds).isEmpty = true
  · rw [classifyStrict_empty F gtax ds hE]
  · have hE' : (findMatches F gtax ds).isEmpty = false := by simpa using hE
    rw [classifyStrict_nonempty F gtax ds hE']

theorem classifyDefault_closest (F : Forest) (gtax ds : List Nat) :
    (classifyDefault F gtax ds).closest = argminFirst ds := rfl

end GambitV.TieRI
