import GambitV.Model.PyRt
import GambitV.Model.Kmers
import GambitV.Model.Params

/-!
Helper lemmas for `GambitV.Tie.PyParams`: text vs bytes.  The translated `kspec_from_params` upper-cases the prefix as TEXT
(`Char.toUpper`), encodes it as ASCII and lets `KmerSpec` upper-case the BYTES again; the model upper-cases bytes directly.
For bytes below 128 the two agree (checked on all 128 values by kernel evaluation).  Core Lean only.
-/
namespace GambitV.TiePyParams
open GambitV

/-- a byte as the character the command line hands over -/
def charOf (b : UInt8) : Char := Char.ofNat b.toNat

theorem upper_char_fin : ∀ n : Fin 128,
    UInt8.ofNat (Char.toUpper (Char.ofNat n.val)).toNat = upperByte (UInt8.ofNat n.val)
      ∧ (Char.toUpper (Char.ofNat n.val)).toNat < 128 := by decide +kernel

theorem upperByte_idem_fin : ∀ n : Fin 256, upperByte (upperByte (UInt8.ofNat n.val)) = upperByte (UInt8.ofNat n.val) := by
  decide +kernel

theorem upper_char (b : UInt8) (h : b.toNat < 128) :
    UInt8.ofNat (Char.toUpper (charOf b)).toNat = upperByte b ∧ (Char.toUpper (charOf b)).toNat < 128 := by
  have := upper_char_fin ⟨b.toNat, h⟩
  simpa [charOf] using this

theorem upperByte_idem (b : UInt8) : upperByte (upperByte b) = upperByte b := by
  have := upperByte_idem_fin ⟨b.toNat, b.toNat_lt⟩
  simpa using this

theorem upper_idem (p : List UInt8) : upper (upper p) = upper p := by
  simp [upper, upperByte_idem]

theorem isAscii_upper_text (p : List UInt8) (hp : ∀ b ∈ p, b.toNat < 128) :
    Py.isAscii (Py.strUpper (p.map charOf)) = true := by
  simp only [Py.isAscii, Py.strUpper, List.all_map, List.all_eq_true]
  intro b hb
  simpa using (upper_char b (hp b hb)).2

theorem encode_upper_text (p : List UInt8) (hp : ∀ b ∈ p, b.toNat < 128) :
    Py.encodeAscii (Py.strUpper (p.map charOf)) = upper p := by
  simp only [Py.encodeAscii, Py.strUpper, upper, List.map_map]
  apply List.map_congr_left
  intro b hb
  simpa using (upper_char b (hp b hb)).1

end GambitV.TiePyParams
