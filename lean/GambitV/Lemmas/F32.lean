import GambitV.Model.F32
import Mathlib.Algebra.Order.Field.Rat
import Mathlib.Algebra.Order.Field.Basic
import Mathlib.Algebra.Order.Field.Power
import Mathlib.Data.Nat.Cast.Order.Ring
import Mathlib.Tactic.Linarith
import Mathlib.Tactic.Positivity
import Mathlib.Tactic.Ring
import Mathlib.Tactic.FieldSimp

/-! Helper lemmas about the binary32 model (`Model/F32.lean`). -/
namespace GambitV.F32

/-! ### F1. `ratExp num den = ⌊log₂ (num/den)⌋` -/

theorem two_zpow_pos (e : ℤ) : (0 : ℚ) < 2 ^ e := zpow_pos (by norm_num) e

/-- F1 (existence): `den * 2^e ≤ num < den * 2^(e+1)` for `e = ratExp num den`. -/
theorem ratExp_spec {num den : ℕ} (hn : 0 < num) (hd : 0 < den) :
    (den : ℚ) * 2 ^ (ratExp num den) ≤ num ∧ (num : ℚ) < den * 2 ^ (ratExp num den + 1) := by
  have h2 : (2 : ℚ) ≠ 0 := by norm_num
  have hln1 : 2 ^ num.log2 ≤ num := Nat.log2_self_le (by omega)
  have hln2 : num < 2 ^ (num.log2 + 1) := Nat.lt_log2_self
  have hld1 : 2 ^ den.log2 ≤ den := Nat.log2_self_le (by omega)
  have hld2 : den < 2 ^ (den.log2 + 1) := Nat.lt_log2_self
  have qln1 : (2 : ℚ) ^ num.log2 ≤ num := by exact_mod_cast hln1
  have qln2 : (num : ℚ) < 2 ^ (num.log2 + 1) := by exact_mod_cast hln2
  have qld1 : (2 : ℚ) ^ den.log2 ≤ den := by exact_mod_cast hld1
  have qld2 : (den : ℚ) < 2 ^ (den.log2 + 1) := by exact_mod_cast hld2
  have pn : (0 : ℚ) < 2 ^ num.log2 := by positivity
  have pd : (0 : ℚ) < 2 ^ den.log2 := by positivity
  have hnq : (0 : ℚ) < num := by exact_mod_cast hn
  have hdq : (0 : ℚ) < den := by exact_mod_cast hd
  unfold ratExp
  simp only []
  split
  · next hc =>
    have hcq : (den : ℚ) * 2 ^ num.log2 ≤ num * 2 ^ den.log2 := by exact_mod_cast hc
    have e1 : (2 : ℚ) ^ ((num.log2 : ℤ) - (den.log2 : ℤ)) = 2 ^ num.log2 / 2 ^ den.log2 := by
      rw [zpow_sub₀ h2, zpow_natCast, zpow_natCast]
    have e2 : (2 : ℚ) ^ ((num.log2 : ℤ) - (den.log2 : ℤ) + 1) = 2 ^ num.log2 * 2 / 2 ^ den.log2 := by
      rw [zpow_add_one₀ h2, e1, div_mul_eq_mul_div]
    rw [e1, e2]
    constructor
    · rw [← mul_div_assoc, div_le_iff₀ pd]; exact hcq
    · rw [← mul_div_assoc, lt_div_iff₀ pd]
      have : (num : ℚ) * 2 ^ den.log2 < 2 ^ (num.log2 + 1) * 2 ^ den.log2 :=
        mul_lt_mul_of_pos_right qln2 pd
      have h3 : (2 : ℚ) ^ (num.log2 + 1) * 2 ^ den.log2 ≤ den * (2 ^ num.log2 * 2) := by
        rw [pow_succ]; nlinarith
      linarith
  · next hc =>
    have hc' : num * 2 ^ den.log2 < den * 2 ^ num.log2 := Nat.lt_of_not_ge hc
    have hcq : (num : ℚ) * 2 ^ den.log2 < den * 2 ^ num.log2 := by exact_mod_cast hc'
    have e1 : (2 : ℚ) ^ ((num.log2 : ℤ) - (den.log2 : ℤ) - 1 + 1)
        = 2 ^ num.log2 / 2 ^ den.log2 := by
      rw [sub_add_cancel, zpow_sub₀ h2, zpow_natCast, zpow_natCast]
    have e2 : (2 : ℚ) ^ ((num.log2 : ℤ) - (den.log2 : ℤ) - 1)
        = 2 ^ num.log2 / 2 ^ den.log2 / 2 := by
      rw [zpow_sub₀ h2, zpow_sub₀ h2, zpow_natCast, zpow_natCast, zpow_one]
    rw [e1, e2]
    constructor
    · rw [← mul_div_assoc, ← mul_div_assoc, div_le_iff₀ (by norm_num : (0 : ℚ) < 2),
        div_le_iff₀ pd]
      have h3 : (den : ℚ) * 2 ^ num.log2 ≤ 2 ^ (den.log2 + 1) * 2 ^ num.log2 :=
        mul_le_mul_of_nonneg_right (le_of_lt qld2) (le_of_lt pn)
      have h4 : (2 : ℚ) ^ (den.log2 + 1) * 2 ^ num.log2 ≤ num * 2 * 2 ^ den.log2 := by
        rw [pow_succ]; nlinarith
      linarith
    · rw [← mul_div_assoc, lt_div_iff₀ pd]; exact hcq

/-- F1 (uniqueness). -/
theorem ratExp_unique {num den : ℕ} (hn : 0 < num) (hd : 0 < den) (e : ℤ)
    (h1 : (den : ℚ) * 2 ^ e ≤ num) (h2 : (num : ℚ) < den * 2 ^ (e + 1)) :
    ratExp num den = e := by
  obtain ⟨s1, s2⟩ := ratExp_spec hn hd
  have hdq : (0 : ℚ) < den := by exact_mod_cast hd
  have a1 : (den : ℚ) * 2 ^ e < den * 2 ^ (ratExp num den + 1) := lt_of_le_of_lt h1 s2
  have a2 : (den : ℚ) * 2 ^ (ratExp num den) < den * 2 ^ (e + 1) := lt_of_le_of_lt s1 h2
  have b1 := lt_of_mul_lt_mul_left a1 (le_of_lt hdq)
  have b2 := lt_of_mul_lt_mul_left a2 (le_of_lt hdq)
  rw [zpow_lt_zpow_iff_right₀ (by norm_num : (1 : ℚ) < 2)] at b1 b2
  omega

/-- F1 (corollary): the exponent only depends on the ratio. -/
theorem ratExp_scale {c num den : ℕ} (hc : 0 < c) (hn : 0 < num) (hd : 0 < den) :
    ratExp (c * num) (c * den) = ratExp num den := by
  obtain ⟨s1, s2⟩ := ratExp_spec hn hd
  have hcq : (0 : ℚ) < c := by exact_mod_cast hc
  apply ratExp_unique (Nat.mul_pos hc hn) (Nat.mul_pos hc hd)
  · push_cast; rw [mul_assoc]; exact mul_le_mul_of_nonneg_left s1 (le_of_lt hcq)
  · push_cast; rw [mul_assoc]; exact mul_lt_mul_of_pos_left s2 hcq

/-! ### F2. Structure of `roundRat`; it only depends on the ratio -/

/-- Scaled numerator: `num * 2^(23-e)` when `23 - e ≥ 0`. -/
def scN (num : ℕ) (e : ℤ) : ℕ := if 23 - e ≥ 0 then num * 2 ^ (23 - e).toNat else num
/-- Scaled denominator: `den * 2^(e-23)` when `23 - e < 0`. -/
def scD (den : ℕ) (e : ℤ) : ℕ := if 23 - e ≥ 0 then den else den * 2 ^ (-(23 - e)).toNat

/-- Quotient `n/d` rounded to the nearest integer, ties to even. -/
def rnd (n d : ℕ) : ℕ :=
  if 2 * (n % d) > d ∨ (2 * (n % d) = d ∧ n / d % 2 = 1) then n / d + 1 else n / d

/-- Assemble the bit pattern from a 24-bit significand `q` (or `2^24` after a carry) and the
unbiased exponent `e`. -/
def pack (q : ℕ) (e : ℤ) : UInt32 :=
  let e' := if q = 2 ^ 24 then e + 1 else e
  let q' := if q = 2 ^ 24 then 2 ^ 23 else q
  if e' + 127 ≤ 0 ∨ e' + 127 ≥ 255 then nanBits
  else UInt32.ofNat ((e' + 127).toNat * 2 ^ 23 + (q' - 2 ^ 23))

theorem roundRat_eq (num den : ℕ) :
    roundRat num den =
      if num = 0 ∨ den = 0 then zeroBits
      else pack (rnd (scN num (ratExp num den)) (scD den (ratExp num den))) (ratExp num den) := rfl

theorem roundRat_zero_left (den : ℕ) : roundRat 0 den = 0 := by
  simp [roundRat_eq, zeroBits]

theorem roundRat_of_pos {num den : ℕ} (hn : 0 < num) (hd : 0 < den) :
    roundRat num den =
      pack (rnd (scN num (ratExp num den)) (scD den (ratExp num den))) (ratExp num den) := by
  rw [roundRat_eq, if_neg (by omega)]

theorem scN_scale (c num : ℕ) (e : ℤ) : scN (c * num) e = c * scN num e := by
  unfold scN; split
  · rw [Nat.mul_assoc]
  · rfl

theorem scD_scale (c den : ℕ) (e : ℤ) : scD (c * den) e = c * scD den e := by
  unfold scD; split
  · rfl
  · rw [Nat.mul_assoc]

theorem rnd_scale {c : ℕ} (hc : 0 < c) (n d : ℕ) : rnd (c * n) (c * d) = rnd n d := by
  unfold rnd
  rw [Nat.mul_mod_mul_left, Nat.mul_div_mul_left _ _ hc]
  have h1 : 2 * (c * (n % d)) > c * d ↔ 2 * (n % d) > d := by
    rw [Nat.mul_left_comm]; exact Nat.mul_lt_mul_left hc
  have h2 : 2 * (c * (n % d)) = c * d ↔ 2 * (n % d) = d := by
    rw [Nat.mul_left_comm]; exact Nat.mul_right_inj (by omega)
  simp only [h1, h2]

/-- F2. `roundRat` is a function of the ratio `num/den`. -/
theorem roundRat_scale {c : ℕ} (hc : 0 < c) (num den : ℕ) :
    roundRat (c * num) (c * den) = roundRat num den := by
  by_cases h : num = 0 ∨ den = 0
  · have h' : c * num = 0 ∨ c * den = 0 := by
      rcases h with h | h
      · left; rw [h]; rfl
      · right; rw [h]; rfl
    rw [roundRat_eq, roundRat_eq, if_pos h, if_pos h']
  · have hn : 0 < num := by omega
    have hd : 0 < den := by omega
    rw [roundRat_of_pos hn hd, roundRat_of_pos (Nat.mul_pos hc hn) (Nat.mul_pos hc hd),
      ratExp_scale hc hn hd, scN_scale, scD_scale, rnd_scale hc]

/-! ### F3. Decoding packed values; exact conversion of integers below `2^24` -/

theorem log2_one : Nat.log2 1 = 0 := by decide

theorem ratExp_one {n : ℕ} (hn : 0 < n) : ratExp n 1 = n.log2 := by
  have h : 2 ^ n.log2 ≤ n := Nat.log2_self_le (by omega)
  simp [ratExp, log2_one, h]

theorem decode_bits {k q : ℕ} (hk1 : 1 ≤ k) (hk2 : k ≤ 254) (hq1 : 2 ^ 23 ≤ q) (hq2 : q < 2 ^ 24) :
    decode (UInt32.ofNat (k * 2 ^ 23 + (q - 2 ^ 23))) = some (q, (k : ℤ) - 150) := by
  have e23 : (2 : ℕ) ^ 23 = 8388608 := by norm_num
  have e24 : (2 : ℕ) ^ 24 = 16777216 := by norm_num
  rw [e23] at hq1 ⊢; rw [e24] at hq2
  generalize hN : k * 8388608 + (q - 8388608) = N
  have hlt : N < UInt32.size := by simp only [UInt32.size]; omega
  have h0 : N ≠ 0 := by omega
  have h1 : N / 8388608 = k := by omega
  have h2 : N % 8388608 = q - 8388608 := by omega
  have h3 : ¬ (k = 0 ∨ k ≥ 255) := by omega
  unfold decode
  simp only [UInt32.toNat_ofNat_of_lt' hlt, e23, h1, h2, if_neg h0, if_neg h3]
  simp only [Option.some.injEq, Prod.mk.injEq, and_true]
  omega

/-- A packed normal number decodes to its significand and exponent. -/
theorem decode_pack {q : ℕ} {e : ℤ} (hq1 : 2 ^ 23 ≤ q) (hq2 : q < 2 ^ 24)
    (he1 : -126 ≤ e) (he2 : e ≤ 127) : decode (pack q e) = some (q, e - 23) := by
  obtain ⟨k, hk⟩ : ∃ k : ℕ, e + 127 = k := ⟨(e + 127).toNat, by omega⟩
  have hqne : q ≠ 2 ^ 24 := by omega
  have hrange : ¬ ((k : ℤ) ≤ 0 ∨ (k : ℤ) ≥ 255) := by omega
  simp only [pack, if_neg hqne, hk, Int.toNat_natCast, if_neg hrange]
  rw [decode_bits (by omega) (by omega) hq1 hq2]
  simp only [Option.some.injEq, Prod.mk.injEq, true_and]
  omega

theorem rnd_one (m : ℕ) : rnd m 1 = m := by
  simp [rnd, Nat.mod_one]

theorem log2_le_23 {n : ℕ} (h0 : 0 < n) (h : n < 2 ^ 24) : n.log2 ≤ 23 := by
  have := (Nat.log2_lt (n := n) (k := 24) (by omega)).mpr h
  omega

/-- Normalised significand of `n`: `2^23 ≤ n * 2^(23 - log2 n) < 2^24`. -/
theorem norm_sig_bounds {n : ℕ} (h0 : 0 < n) (h : n < 2 ^ 24) :
    2 ^ 23 ≤ n * 2 ^ (23 - n.log2) ∧ n * 2 ^ (23 - n.log2) < 2 ^ 24 := by
  have hl := log2_le_23 h0 h
  have h1 : 2 ^ n.log2 ≤ n := Nat.log2_self_le (by omega)
  have h2 : n < 2 ^ (n.log2 + 1) := Nat.lt_log2_self
  have hp : 0 < 2 ^ (23 - n.log2) := Nat.pow_pos (by omega)
  constructor
  · calc 2 ^ 23 = 2 ^ (n.log2 + (23 - n.log2)) := by congr 1; omega
      _ = 2 ^ n.log2 * 2 ^ (23 - n.log2) := Nat.pow_add _ _ _
      _ ≤ n * 2 ^ (23 - n.log2) := Nat.mul_le_mul_right _ h1
  · calc n * 2 ^ (23 - n.log2) < 2 ^ (n.log2 + 1) * 2 ^ (23 - n.log2) :=
          Nat.mul_lt_mul_of_pos_right h2 hp
      _ = 2 ^ (n.log2 + 1 + (23 - n.log2)) := (Nat.pow_add _ _ _).symm
      _ = 2 ^ 24 := by congr 1; omega

theorem ofNat_eq_pack {n : ℕ} (h0 : 0 < n) (h : n < 2 ^ 24) :
    ofNat n = pack (n * 2 ^ (23 - n.log2)) n.log2 := by
  have hl := log2_le_23 h0 h
  have hsh : (23 : ℤ) - (n.log2 : ℤ) ≥ 0 := by omega
  have ht : ((23 : ℤ) - (n.log2 : ℤ)).toNat = 23 - n.log2 := by omega
  unfold ofNat
  rw [roundRat_of_pos h0 (by omega), ratExp_one h0]
  simp only [scN, scD, if_pos hsh, ht, rnd_one]

theorem decode_ofNat {n : ℕ} (h0 : 0 < n) (h : n < 2 ^ 24) :
    decode (ofNat n) = some (n * 2 ^ (23 - n.log2), -((23 - n.log2 : ℕ) : ℤ)) := by
  have hl := log2_le_23 h0 h
  obtain ⟨b1, b2⟩ := norm_sig_bounds h0 h
  rw [ofNat_eq_pack h0 h, decode_pack b1 b2 (by omega) (by omega)]
  simp only [Option.some.injEq, Prod.mk.injEq, true_and]
  omega

/-- F3. `(float) n` is exact for `0 < n < 2^24`: it decodes to `m * 2^(-s)` with `m = n * 2^s`. -/
theorem ofNat_exact {n : ℕ} (h0 : 0 < n) (h : n < 2 ^ 24) :
    ∃ m s : ℕ, decode (ofNat n) = some (m, -(s : ℤ)) ∧ m = n * 2 ^ s :=
  ⟨_, _, decode_ofNat h0 h, rfl⟩

theorem ofNat_zero : ofNat 0 = 0 := roundRat_zero_left 1

theorem decode_zero : decode 0 = some (0, 0) := by decide

/-! ### F4. Division of two exactly converted integers rounds the exact ratio once -/

theorem div_ofNat {n u : ℕ} (h0 : 0 < n) (hu : 0 < u) (hn : n < 2 ^ 24) (hu' : u < 2 ^ 24) :
    div (ofNat n) (ofNat u) = roundRat n u := by
  have hln := log2_le_23 h0 hn
  have hlu := log2_le_23 hu hu'
  have hmb : u * 2 ^ (23 - u.log2) ≠ 0 :=
    Nat.ne_of_gt (Nat.mul_pos hu (Nat.pow_pos (by omega)))
  unfold div
  rw [decode_ofNat h0 hn, decode_ofNat hu hu']
  simp only [if_neg hmb]
  by_cases hd : (-((23 - n.log2 : ℕ) : ℤ)) - (-((23 - u.log2 : ℕ) : ℤ)) ≥ 0
  · rw [if_pos hd]
    have ht : ((-((23 - n.log2 : ℕ) : ℤ)) - (-((23 - u.log2 : ℕ) : ℤ))).toNat
        = n.log2 - u.log2 := by omega
    have hs : 23 - n.log2 + (n.log2 - u.log2) = 23 - u.log2 := by omega
    rw [ht, Nat.mul_assoc, ← Nat.pow_add, hs, Nat.mul_comm n, Nat.mul_comm u,
      roundRat_scale (Nat.pow_pos (by omega))]
  · rw [if_neg hd]
    have ht : (-((-((23 - n.log2 : ℕ) : ℤ)) - (-((23 - u.log2 : ℕ) : ℤ)))).toNat
        = u.log2 - n.log2 := by omega
    have hs : 23 - u.log2 + (u.log2 - n.log2) = 23 - n.log2 := by omega
    rw [ht, Nat.mul_assoc, ← Nat.pow_add, hs, Nat.mul_comm n, Nat.mul_comm u,
      roundRat_scale (Nat.pow_pos (by omega))]

theorem div_ofNat_zero {u : ℕ} (hu : 0 < u) (hu' : u < 2 ^ 24) :
    div (ofNat 0) (ofNat u) = 0 := by
  have hmb : u * 2 ^ (23 - u.log2) ≠ 0 :=
    Nat.ne_of_gt (Nat.mul_pos hu (Nat.pow_pos (by omega)))
  unfold div
  rw [ofNat_zero, decode_zero, decode_ofNat hu hu']
  simp only [if_neg hmb]
  have hd : (0 : ℤ) - (-((23 - u.log2 : ℕ) : ℤ)) ≥ 0 := by omega
  rw [if_pos hd, Nat.zero_mul, roundRat_zero_left]

end GambitV.F32
