import GambitV.Model.F32

/-! Helper lemmas about the binary32 model (`Model/F32.lean`). -/
namespace GambitV.F32

end GambitV.F32
