import GambitV.Model.F32
import Mathlib.Algebra.Order.Field.Rat
import Mathlib.Algebra.Order.Field.Basic
import Mathlib.Algebra.Order.Field.Power
import Mathlib.Data.Nat.Cast.Order.Ring
import Mathlib.Tactic.Linarith
import Mathlib.Tactic.Positivity
import Mathlib.Tactic.Ring
import Mathlib.Tactic.FieldSimp

/-! Helper lemmas about the binary32 model (`Model/F32.lean`). -/
namespace GambitV.F32

/-! ### F1. `ratExp num den = ⌊log₂ (num/den)⌋` -/

theorem two_zpow_pos (e : ℤ) : (0 : ℚ) < 2 ^ e := zpow_pos (by norm_num) e

/-- F1 (existence): `den * 2^e ≤ num < den * 2^(e+1)` for `e = ratExp num den`. -/
theorem ratExp_spec {num den : ℕ} (hn : 0 < num) (hd : 0 < den) :
    (den : ℚ) * 2 ^ (ratExp num den) ≤ num ∧ (num : ℚ) < den * 2 ^ (ratExp num den + 1) := by
  have h2 : (2 : ℚ) ≠ 0 := by norm_num
  have hln1 : 2 ^ num.log2 ≤ num := Nat.log2_self_le (by omega)
  have hln2 : num < 2 ^ (num.log2 + 1) := Nat.lt_log2_self
  have hld1 : 2 ^ den.log2 ≤ den := Nat.log2_self_le (by omega)
  have hld2 : den < 2 ^ (den.log2 + 1) := Nat.lt_log2_self
  have qln1 : (2 : ℚ) ^ num.log2 ≤ num := by exact_mod_cast hln1
  have qln2 : (num : ℚ) < 2 ^ (num.log2 + 1) := by exact_mod_cast hln2
  have qld1 : (2 : ℚ) ^ den.log2 ≤ den := by exact_mod_cast hld1
  have qld2 : (den : ℚ) < 2 ^ (den.log2 + 1) := by exact_mod_cast hld2
  have pn : (0 : ℚ) < 2 ^ num.log2 := by positivity
  have pd : (0 : ℚ) < 2 ^ den.log2 := by positivity
  have hnq : (0 : ℚ) < num := by exact_mod_cast hn
  have hdq : (0 : ℚ) < den := by exact_mod_cast hd
  unfold ratExp
  simp only []
  split
  · next hc =>
    have hcq : (den : ℚ) * 2 ^ num.log2 ≤ num * 2 ^ den.log2 := by exact_mod_cast hc
    have e1 : (2 : ℚ) ^ ((num.log2 : ℤ) - (den.log2 : ℤ)) = 2 ^ num.log2 / 2 ^ den.log2 := by
      rw [zpow_sub₀ h2, zpow_natCast, zpow_natCast]
    have e2 : (2 : ℚ) ^ ((num.log2 : ℤ) - (den.log2 : ℤ) + 1) = 2 ^ num.log2 * 2 / 2 ^ den.log2 := by
      rw [zpow_add_one₀ h2, e1, div_mul_eq_mul_div]
    rw [e1, e2]
    constructor
    · rw [← mul_div_assoc, div_le_iff₀ pd]; exact hcq
    · rw [← mul_div_assoc, lt_div_iff₀ pd]
      have : (num : ℚ) * 2 ^ den.log2 < 2 ^ (num.log2 + 1) * 2 ^ den.log2 :=
        mul_lt_mul_of_pos_right qln2 pd
      have h3 : (2 : ℚ) ^ (num.log2 + 1) * 2 ^ den.log2 ≤ den * (2 ^ num.log2 * 2) := by
        rw [pow_succ]; nlinarith
      linarith
  · next hc =>
    have hc' : num * 2 ^ den.log2 < den * 2 ^ num.log2 := Nat.lt_of_not_ge hc
    have hcq : (num : ℚ) * 2 ^ den.log2 < den * 2 ^ num.log2 := by exact_mod_cast hc'
    have e1 : (2 : ℚ) ^ ((num.log2 : ℤ) - (den.log2 : ℤ) - 1 + 1)
        = 2 ^ num.log2 / 2 ^ den.log2 := by
      rw [sub_add_cancel, zpow_sub₀ h2, zpow_natCast, zpow_natCast]
    have e2 : (2 : ℚ) ^ ((num.log2 : ℤ) - (den.log2 : ℤ) - 1)
        = 2 ^ num.log2 / 2 ^ den.log2 / 2 := by
      rw [zpow_sub₀ h2, zpow_sub₀ h2, zpow_natCast, zpow_natCast, zpow_one]
    rw [e1, e2]
    constructor
    · rw [← mul_div_assoc, ← mul_div_assoc, div_le_iff₀ (by norm_num : (0 : ℚ) < 2),
        div_le_iff₀ pd]
      have h3 : (den : ℚ) * 2 ^ num.log2 ≤ 2 ^ (den.log2 + 1) * 2 ^ num.log2 :=
        mul_le_mul_of_nonneg_right (le_of_lt qld2) (le_of_lt pn)
      have h4 : (2 : ℚ) ^ (den.log2 + 1) * 2 ^ num.log2 ≤ num * 2 * 2 ^ den.log2 := by
        rw [pow_succ]; nlinarith
      linarith
    · rw [← mul_div_assoc, lt_div_iff₀ pd]; exact hcq

/-- F1 (uniqueness). -/
theorem ratExp_unique {num den : ℕ} (hn : 0 < num) (hd : 0 < den) (e : ℤ)
    (h1 : (den : ℚ) * 2 ^ e ≤ num) (h2 : (num : ℚ) < den * 2 ^ (e + 1)) :
    ratExp num den = e := by
  obtain ⟨s1, s2⟩ := ratExp_spec hn hd
  have hdq : (0 : ℚ) < den := by exact_mod_cast hd
  have a1 : (den : ℚ) * 2 ^ e < den * 2 ^ (ratExp num den + 1) := lt_of_le_of_lt h1 s2
  have a2 : (den : ℚ) * 2 ^ (ratExp num den) < den * 2 ^ (e + 1) := lt_of_le_of_lt s1 h2
  have b1 := lt_of_mul_lt_mul_left a1 (le_of_lt hdq)
  have b2 := lt_of_mul_lt_mul_left a2 (le_of_lt hdq)
  rw [zpow_lt_zpow_iff_right₀ (by norm_num : (1 : ℚ) < 2)] at b1 b2
  omega

/-- F1 (corollary): the exponent only depends on the ratio. -/
theorem ratExp_scale {c num den : ℕ} (hc : 0 < c) (hn : 0 < num) (hd : 0 < den) :
    ratExp (c * num) (c * den) = ratExp num den := by
  obtain ⟨s1, s2⟩ := ratExp_spec hn hd
  have hcq : (0 : ℚ) < c := by exact_mod_cast hc
  apply ratExp_unique (Nat.mul_pos hc hn) (Nat.mul_pos hc hd)
  · push_cast; rw [mul_assoc]; exact mul_le_mul_of_nonneg_left s1 (le_of_lt hcq)
  · push_cast; rw [mul_assoc]; exact mul_lt_mul_of_pos_left s2 hcq

/-! ### F2. Structure of `roundRat`; it only depends on the ratio -/

/-- Scaled numerator: `num * 2^(23-e)` when `23 - e ≥ 0`. -/
def scN (num : ℕ) (e : ℤ) : ℕ := if 23 - e ≥ 0 then num * 2 ^ (23 - e).toNat else num
/-- Scaled denominator: `den * 2^(e-23)` when `23 - e < 0`. -/
def scD (den : ℕ) (e : ℤ) : ℕ := if 23 - e ≥ 0 then den else den * 2 ^ (-(23 - e)).toNat

/-- Quotient `n/d` rounded to the nearest integer, ties to even. -/
def rnd (n d : ℕ) : ℕ :=
  if 2 * (n % d) > d ∨ (2 * (n % d) = d ∧ n / d % 2 = 1) then n / d + 1 else n / d

/-- Assemble the bit pattern from a 24-bit significand `q` (or `2^24` after a carry) and the
unbiased exponent `e`. -/
def pack (q : ℕ) (e : ℤ) : UInt32 :=
  let e' := if q = 2 ^ 24 then e + 1 else e
  let q' := if q = 2 ^ 24 then 2 ^ 23 else q
  if e' + 127 ≤ 0 ∨ e' + 127 ≥ 255 then nanBits
  else UInt32.ofNat ((e' + 127).toNat * 2 ^ 23 + (q' - 2 ^ 23))

theorem roundRat_eq (num den : ℕ) :
    roundRat num den =
      if num = 0 ∨ den = 0 then zeroBits
      else pack (rnd (scN num (ratExp num den)) (scD den (ratExp num den))) (ratExp num den) := rfl

theorem roundRat_zero_left (den : ℕ) : roundRat 0 den = 0 := by
  simp [roundRat_eq, zeroBits]

theorem roundRat_of_pos {num den : ℕ} (hn : 0 < num) (hd : 0 < den) :
    roundRat num den =
      pack (rnd (scN num (ratExp num den)) (scD den (ratExp num den))) (ratExp num den) := by
  rw [roundRat_eq, if_neg (by omega)]

theorem scN_scale (c num : ℕ) (e : ℤ) : scN (c * num) e = c * scN num e := by
  unfold scN; split
  · rw [Nat.mul_assoc]
  · rfl

theorem scD_scale (c den : ℕ) (e : ℤ) : scD (c * den) e = c * scD den e := by
  unfold scD; split
  · rfl
  · rw [Nat.mul_assoc]

theorem rnd_scale {c : ℕ} (hc : 0 < c) (n d : ℕ) : rnd (c * n) (c * d) = rnd n d := by
  unfold rnd
  rw [Nat.mul_mod_mul_left, Nat.mul_div_mul_left _ _ hc]
  have h1 : 2 * (c * (n % d)) > c * d ↔ 2 * (n % d) > d := by
    rw [Nat.mul_left_comm]; exact Nat.mul_lt_mul_left hc
  have h2 : 2 * (c * (n % d)) = c * d ↔ 2 * (n % d) = d := by
    rw [Nat.mul_left_comm]; exact Nat.mul_right_inj (by omega)
  simp only [h1, h2]

/-- F2. `roundRat` is a function of the ratio `num/den`. -/
theorem roundRat_scale {c : ℕ} (hc : 0 < c) (num den : ℕ) :
    roundRat (c * num) (c * den) = roundRat num den := by
  by_cases h : num = 0 ∨ den = 0
  · have h' : c * num = 0 ∨ c * den = 0 := by
      rcases h with h | h
      · left; rw [h]; rfl
      · right; rw [h]; rfl
    rw [roundRat_eq, roundRat_eq, if_pos h, if_pos h']
  · have hn : 0 < num := by omega
    have hd : 0 < den := by omega
    rw [roundRat_of_pos hn hd, roundRat_of_pos (Nat.mul_pos hc hn) (Nat.mul_pos hc hd),
      ratExp_scale hc hn hd, scN_scale, scD_scale, rnd_scale hc]

/-! ### F3. Decoding packed values; exact conversion of integers below `2^24` -/

theorem log2_one : Nat.log2 1 = 0 := by decide

theorem ratExp_one {n : ℕ} (hn : 0 < n) : ratExp n 1 = n.log2 := by
  have h : 2 ^ n.log2 ≤ n := Nat.log2_self_le (by omega)
  simp [ratExp, log2_one, h]

theorem decode_bits {k q : ℕ} (hk1 : 1 ≤ k) (hk2 : k ≤ 254) (hq1 : 2 ^ 23 ≤ q) (hq2 : q < 2 ^ 24) :
    decode (UInt32.ofNat (k * 2 ^ 23 + (q - 2 ^ 23))) = some (q, (k : ℤ) - 150) := by
  have e23 : (2 : ℕ) ^ 23 = 8388608 := by norm_num
  have e24 : (2 : ℕ) ^ 24 = 16777216 := by norm_num
  rw [e23] at hq1 ⊢; rw [e24] at hq2
  generalize hN : k * 8388608 + (q - 8388608) = N
  have hlt : N < UInt32.size := by simp only [UInt32.size]; omega
  have h0 : N ≠ 0 := by omega
  have h1 : N / 8388608 = k := by omega
  have h2 : N % 8388608 = q - 8388608 := by omega
  have h3 : ¬ (k = 0 ∨ k ≥ 255) := by omega
  unfold decode
  simp only [UInt32.toNat_ofNat_of_lt' hlt, e23, h1, h2, if_neg h0, if_neg h3]
  simp only [Option.some.injEq, Prod.mk.injEq, and_true]
  omega

/-- A packed normal number decodes to its significand and exponent. -/
theorem decode_pack {q : ℕ} {e : ℤ} (hq1 : 2 ^ 23 ≤ q) (hq2 : q < 2 ^ 24)
    (he1 : -126 ≤ e) (he2 : e ≤ 127) : decode (pack q e) = some (q, e - 23) := by
  obtain ⟨k, hk⟩ : ∃ k : ℕ, e + 127 = k := ⟨(e + 127).toNat, by omega⟩
  have hqne : q ≠ 2 ^ 24 := by omega
  have hrange : ¬ ((k : ℤ) ≤ 0 ∨ (k : ℤ) ≥ 255) := by omega
  simp only [pack, if_neg hqne, hk, Int.toNat_natCast, if_neg hrange]
  rw [decode_bits (by omega) (by omega) hq1 hq2]
  simp only [Option.some.injEq, Prod.mk.injEq, true_and]
  omega

theorem rnd_one (m : ℕ) : rnd m 1 = m := by
  simp [rnd, Nat.mod_one]

theorem log2_le_23 {n : ℕ} (h0 : 0 < n) (h : n < 2 ^ 24) : n.log2 ≤ 23 := by
  have := (Nat.log2_lt (n := n) (k := 24) (by omega)).mpr h
  omega

/-- Normalised significand of `n`: `2^23 ≤ n * 2^(23 - log2 n) < 2^24`. -/
theorem norm_sig_bounds {n : ℕ} (h0 : 0 < n) (h : n < 2 ^ 24) :
    2 ^ 23 ≤ n * 2 ^ (23 - n.log2) ∧ n * 2 ^ (23 - n.log2) < 2 ^ 24 := by
  have hl := log2_le_23 h0 h
  have h1 : 2 ^ n.log2 ≤ n := Nat.log2_self_le (by omega)
  have h2 : n < 2 ^ (n.log2 + 1) := Nat.lt_log2_self
  have hp : 0 < 2 ^ (23 - n.log2) := Nat.pow_pos (by omega)
  constructor
  · calc 2 ^ 23 = 2 ^ (n.log2 + (23 - n.log2)) := by congr 1; omega
      _ = 2 ^ n.log2 * 2 ^ (23 - n.log2) := Nat.pow_add _ _ _
      _ ≤ n * 2 ^ (23 - n.log2) := Nat.mul_le_mul_right _ h1
  · calc n * 2 ^ (23 - n.log2) < 2 ^ (n.log2 + 1) * 2 ^ (23 - n.log2) :=
          Nat.mul_lt_mul_of_pos_right h2 hp
      _ = 2 ^ (n.log2 + 1 + (23 - n.log2)) := (Nat.pow_add _ _ _).symm
      _ = 2 ^ 24 := by congr 1; omega

theorem ofNat_eq_pack {n : ℕ} (h0 : 0 < n) (h : n < 2 ^ 24) :
    ofNat n = pack (n * 2 ^ (23 - n.log2)) n.log2 := by
  have hl := log2_le_23 h0 h
  have hsh : (23 : ℤ) - (n.log2 : ℤ) ≥ 0 := by omega
  have ht : ((23 : ℤ) - (n.log2 : ℤ)).toNat = 23 - n.log2 := by omega
  unfold ofNat
  rw [roundRat_of_pos h0 (by omega), ratExp_one h0]
  simp only [scN, scD, if_pos hsh, ht, rnd_one]

theorem decode_ofNat {n : ℕ} (h0 : 0 < n) (h : n < 2 ^ 24) :
    decode (ofNat n) = some (n * 2 ^ (23 - n.log2), -((23 - n.log2 : ℕ) : ℤ)) := by
  have hl := log2_le_23 h0 h
  obtain ⟨b1, b2⟩ := norm_sig_bounds h0 h
  rw [ofNat_eq_pack h0 h, decode_pack b1 b2 (by omega) (by omega)]
  simp only [Option.some.injEq, Prod.mk.injEq, true_and]
  omega

/-- F3. `(float) n` is exact for `0 < n < 2^24`: it decodes to `m * 2^(-s)` with `m = n * 2^s`. -/
theorem ofNat_exact {n : ℕ} (h0 : 0 < n) (h : n < 2 ^ 24) :
    ∃ m s : ℕ, decode (ofNat n) = some (m, -(s : ℤ)) ∧ m = n * 2 ^ s :=
  ⟨_, _, decode_ofNat h0 h, rfl⟩

theorem ofNat_zero : ofNat 0 = 0 := roundRat_zero_left 1

theorem decode_zero : decode 0 = some (0, 0) := by decide

/-! ### F4. Division of two exactly converted integers rounds the exact ratio once -/

theorem div_ofNat {n u : ℕ} (h0 : 0 < n) (hu : 0 < u) (hn : n < 2 ^ 24) (hu' : u < 2 ^ 24) :
    div (ofNat n) (ofNat u) = roundRat n u := by
  have hln := log2_le_23 h0 hn
  have hlu := log2_le_23 hu hu'
  have hmb : u * 2 ^ (23 - u.log2) ≠ 0 :=
    Nat.ne_of_gt (Nat.mul_pos hu (Nat.pow_pos (by omega)))
  unfold div
  rw [decode_ofNat h0 hn, decode_ofNat hu hu']
  simp only [if_neg hmb]
  by_cases hd : (-((23 - n.log2 : ℕ) : ℤ)) - (-((23 - u.log2 : ℕ) : ℤ)) ≥ 0
  · rw [if_pos hd]
    have ht : ((-((23 - n.log2 : ℕ) : ℤ)) - (-((23 - u.log2 : ℕ) : ℤ))).toNat
        = n.log2 - u.log2 := by omega
    have hs : 23 - n.log2 + (n.log2 - u.log2) = 23 - u.log2 := by omega
    rw [ht, Nat.mul_assoc, ← Nat.pow_add, hs, Nat.mul_comm n, Nat.mul_comm u,
      roundRat_scale (Nat.pow_pos (by omega))]
  · rw [if_neg hd]
    have ht : (-((-((23 - n.log2 : ℕ) : ℤ)) - (-((23 - u.log2 : ℕ) : ℤ)))).toNat
        = u.log2 - n.log2 := by omega
    have hs : 23 - u.log2 + (u.log2 - n.log2) = 23 - n.log2 := by omega
    rw [ht, Nat.mul_assoc, ← Nat.pow_add, hs, Nat.mul_comm n, Nat.mul_comm u,
      roundRat_scale (Nat.pow_pos (by omega))]

theorem div_ofNat_zero {u : ℕ} (hu : 0 < u) (hu' : u < 2 ^ 24) :
    div (ofNat 0) (ofNat u) = 0 := by
  have hmb : u * 2 ^ (23 - u.log2) ≠ 0 :=
    Nat.ne_of_gt (Nat.mul_pos hu (Nat.pow_pos (by omega)))
  unfold div
  rw [ofNat_zero, decode_zero, decode_ofNat hu hu']
  simp only [if_neg hmb]
  have hd : (0 : ℤ) - (-((23 - u.log2 : ℕ) : ℤ)) ≥ 0 := by omega
  rw [if_pos hd, Nat.zero_mul, roundRat_zero_left]

/-! ### F6–F8. Value-level facts -/

/-- Exact rational value of a (non-negative, normal or zero) bit pattern; `0` for patterns outside
the modelled range. -/
def val (b : UInt32) : ℚ :=
  match decode b with
  | some (m, e) => (m : ℚ) * 2 ^ e
  | none => 0

theorem val_of_decode {b : UInt32} {m : ℕ} {e : ℤ} (h : decode b = some (m, e)) :
    val b = (m : ℚ) * 2 ^ e := by
  simp [val, h]

theorem val_zero : val 0 = 0 := by
  rw [val_of_decode decode_zero]; simp

theorem decode_one : decode oneBits = some (2 ^ 23, -23) := by decide

theorem val_one : val oneBits = 1 := by
  rw [val_of_decode decode_one]
  norm_num

/-- `rnd N D` is a nearest integer to `N/D`, and it is even in case of a tie. -/
theorem rnd_spec {N D : ℕ} (hD : 0 < D) :
    2 * N ≤ 2 * (rnd N D * D) + D ∧ 2 * (rnd N D * D) ≤ 2 * N + D ∧
    ((2 * (rnd N D * D) = 2 * N + D ∨ 2 * N = 2 * (rnd N D * D) + D) → rnd N D % 2 = 0) := by
  have hN : D * (N / D) + N % D = N := Nat.div_add_mod N D
  have hm : N % D < D := Nat.mod_lt _ hD
  unfold rnd
  generalize N / D = f at *
  generalize N % D = m at *
  rw [Nat.mul_comm D f] at hN
  split
  · next hc =>
    simp only [Nat.add_mul, Nat.one_mul]
    generalize f * D = P at *
    omega
  · next hc =>
    generalize f * D = P at *
    omega

theorem rnd_spec_rat {N D : ℕ} (hD : 0 < D) :
    (N : ℚ) / D ≤ rnd N D + 1 / 2 ∧ (rnd N D : ℚ) ≤ N / D + 1 / 2 := by
  obtain ⟨h1, h2, _⟩ := rnd_spec (N := N) hD
  have hDq : (0 : ℚ) < D := by exact_mod_cast hD
  have q1 : (2 : ℚ) * N ≤ 2 * (rnd N D * D) + D := by exact_mod_cast h1
  have q2 : (2 : ℚ) * (rnd N D * D) ≤ 2 * N + D := by exact_mod_cast h2
  constructor
  · rw [div_le_iff₀ hDq]; nlinarith
  · rw [← sub_le_iff_le_add, le_div_iff₀ hDq]; nlinarith

/-- Rounding to nearest-even is monotone. -/
theorem rnd_mono {N D N' D' : ℕ} (hD : 0 < D) (hD' : 0 < D') (h : N * D' ≤ N' * D) :
    rnd N D ≤ rnd N' D' := by
  obtain ⟨a1, a2, a3⟩ := rnd_spec (N := N) hD
  obtain ⟨b1, b2, b3⟩ := rnd_spec (N := N') hD'
  by_contra hlt
  have hlt' : rnd N' D' + 1 ≤ rnd N D := by omega
  -- 2 r D ≤ 2N + D, 2N' ≤ 2 r' D' + D'.  Multiply: (2r - 1) D D' ≤ 2 N D' ≤ 2 N' D ≤ (2r' + 1) D D'
  have c1 : 2 * (rnd N D * D) * D' ≤ (2 * N + D) * D' := Nat.mul_le_mul_right _ a2
  have c2 : 2 * N' * D ≤ (2 * (rnd N' D' * D') + D') * D := Nat.mul_le_mul_right _ b1
  have hDD : 0 < D * D' := Nat.mul_pos hD hD'
  have key : 2 * rnd N D * (D * D') ≤ (2 * rnd N' D' + 2) * (D * D') := by nlinarith
  have key' : 2 * rnd N D ≤ 2 * rnd N' D' + 2 := Nat.le_of_mul_le_mul_right key hDD
  have hr : rnd N D = rnd N' D' + 1 := by omega
  -- all inequalities are equalities
  have e1 : 2 * (rnd N D * D) * D' = (2 * N + D) * D' := by nlinarith
  have e2 : 2 * N' * D = (2 * (rnd N' D' * D') + D') * D := by nlinarith
  have e1' : 2 * (rnd N D * D) = 2 * N + D := Nat.eq_of_mul_eq_mul_right hD' e1
  have e2' : 2 * N' = 2 * (rnd N' D' * D') + D' := Nat.eq_of_mul_eq_mul_right hD e2
  have p1 := a3 (Or.inl e1')
  have p2 := b3 (Or.inr e2')
  omega

theorem scD_pos {den : ℕ} (hd : 0 < den) (e : ℤ) : 0 < scD den e := by
  unfold scD; split
  · exact hd
  · exact Nat.mul_pos hd (Nat.pow_pos (by omega))

/-- The scaled operands represent `num/den * 2^(23-e)`. -/
theorem sc_ratio (num : ℕ) {den : ℕ} (hd : 0 < den) (e : ℤ) :
    (scN num e : ℚ) / (scD den e : ℚ) = (num : ℚ) / den * 2 ^ (23 - e) := by
  have hdq : (den : ℚ) ≠ 0 := by exact_mod_cast (Nat.ne_of_gt hd)
  have h2 : (2 : ℚ) ≠ 0 := by norm_num
  unfold scN scD
  by_cases h : 23 - e ≥ 0
  · rw [if_pos h, if_pos h]
    obtain ⟨k, hk⟩ : ∃ k : ℕ, 23 - e = k := ⟨(23 - e).toNat, by omega⟩
    rw [hk, Int.toNat_natCast, zpow_natCast]
    push_cast
    ring
  · rw [if_neg h, if_neg h]
    obtain ⟨k, hk⟩ : ∃ k : ℕ, -(23 - e) = k := ⟨(-(23 - e)).toNat, by omega⟩
    have hk' : 23 - e = -(k : ℤ) := by omega
    rw [hk, hk', Int.toNat_natCast, zpow_neg, zpow_natCast]
    push_cast
    field_simp

theorem pack_carry (e : ℤ) : pack (2 ^ 24) e = pack (2 ^ 23) (e + 1) := by
  simp [pack]

theorem val_pack {r : ℕ} {e : ℤ} (h1 : 2 ^ 23 ≤ r) (h2 : r ≤ 2 ^ 24) (he1 : -126 ≤ e)
    (he2 : e ≤ 126) : val (pack r e) = (r : ℚ) * 2 ^ (e - 23) := by
  by_cases hr : r = 2 ^ 24
  · subst hr
    rw [pack_carry, val_of_decode (decode_pack (le_refl _) (by norm_num) (by omega) (by omega))]
    have : e + 1 - 23 = (e - 23) + 1 := by ring
    rw [this, zpow_add_one₀ (by norm_num : (2 : ℚ) ≠ 0)]
    push_cast
    ring
  · rw [val_of_decode (decode_pack h1 (by omega) he1 (by omega))]

theorem two_zpow_mul_compl (e : ℤ) : (2 : ℚ) ^ e * 2 ^ (23 - e) = 2 ^ 23 := by
  rw [← zpow_add₀ (by norm_num : (2 : ℚ) ≠ 0)]
  have : e + (23 - e) = ((23 : ℕ) : ℤ) := by omega
  rw [this, zpow_natCast]

theorem two_zpow_compl_mul (e : ℤ) : (2 : ℚ) ^ (23 - e) * 2 ^ (e - 23) = 1 := by
  rw [← zpow_add₀ (by norm_num : (2 : ℚ) ≠ 0)]
  have : 23 - e + (e - 23) = 0 := by omega
  rw [this, zpow_zero]

/-- The ratio scaled by `2^(23-e)` lies in `[2^23, 2^24)`. -/
theorem scaled_bounds {num den : ℕ} (hn : 0 < num) (hd : 0 < den) :
    (2 : ℚ) ^ 23 ≤ (num : ℚ) / den * 2 ^ (23 - ratExp num den) ∧
    (num : ℚ) / den * 2 ^ (23 - ratExp num den) < 2 ^ 24 := by
  obtain ⟨s1, s2⟩ := ratExp_spec hn hd
  have hdq : (0 : ℚ) < den := by exact_mod_cast hd
  have hp := two_zpow_pos (23 - ratExp num den)
  have t1 : (2 : ℚ) ^ ratExp num den ≤ (num : ℚ) / den := by
    rw [le_div_iff₀ hdq, mul_comm]; exact s1
  have t2 : (num : ℚ) / den < 2 ^ (ratExp num den + 1) := by
    rw [div_lt_iff₀ hdq, mul_comm]; exact s2
  constructor
  · rw [← two_zpow_mul_compl (ratExp num den)]
    exact mul_le_mul_of_nonneg_right t1 (le_of_lt hp)
  · have : (2 : ℚ) ^ 24 = 2 ^ (ratExp num den + 1) * 2 ^ (23 - ratExp num den) := by
      rw [zpow_add_one₀ (by norm_num : (2 : ℚ) ≠ 0), mul_right_comm, two_zpow_mul_compl]
      norm_num
    rw [this]
    exact mul_lt_mul_of_pos_right t2 hp

/-- The 24-bit significand chosen by `roundRat` (possibly `2^24` after a carry). -/
def sig (num den : ℕ) : ℕ := rnd (scN num (ratExp num den)) (scD den (ratExp num den))

/-- Main value-level description of `roundRat`: for a ratio in the normal range the result is
`r * 2^(e-23)` where `e = ⌊log₂(num/den)⌋` and `r = sig num den ∈ [2^23, 2^24]` is
`num/den * 2^(23-e)` rounded to a nearest integer. -/
theorem roundRat_val {num den : ℕ} (hn : 0 < num) (hd : 0 < den)
    (he1 : -126 ≤ ratExp num den) (he2 : ratExp num den ≤ 126) :
    2 ^ 23 ≤ sig num den ∧ sig num den ≤ 2 ^ 24 ∧
      val (roundRat num den) = (sig num den : ℚ) * 2 ^ (ratExp num den - 23) ∧
      (num : ℚ) / den * 2 ^ (23 - ratExp num den) ≤ sig num den + 1 / 2 ∧
      (sig num den : ℚ) ≤ (num : ℚ) / den * 2 ^ (23 - ratExp num den) + 1 / 2 := by
  obtain ⟨b1, b2⟩ := scaled_bounds hn hd
  obtain ⟨r1, r2⟩ := rnd_spec_rat (N := scN num (ratExp num den)) (scD_pos hd (ratExp num den))
  rw [sc_ratio num hd] at r1 r2
  have hv : roundRat num den = pack (sig num den) (ratExp num den) := roundRat_of_pos hn hd
  change _ ≤ ((sig num den : ℕ) : ℚ) + 1 / 2 at r1
  change ((sig num den : ℕ) : ℚ) ≤ _ at r2
  generalize sig num den = r at *
  have hr1 : 2 ^ 23 ≤ r := by
    by_contra hc
    have h' : r + 1 ≤ 2 ^ 23 := by omega
    have h'' : (r : ℚ) + 1 ≤ 2 ^ 23 := by exact_mod_cast h'
    linarith
  have hr2 : r ≤ 2 ^ 24 := by
    by_contra hc
    have h' : 2 ^ 24 + 1 ≤ r := by omega
    have h'' : (2 : ℚ) ^ 24 + 1 ≤ r := by exact_mod_cast h'
    linarith
  refine ⟨hr1, hr2, ?_, r1, r2⟩
  rw [hv]
  exact val_pack hr1 hr2 he1 he2

/-- Absolute error: at most half a unit in the last place of the binade of `num/den`. -/
theorem roundRat_err {num den : ℕ} (hn : 0 < num) (hd : 0 < den)
    (he1 : -126 ≤ ratExp num den) (he2 : ratExp num den ≤ 126) :
    |val (roundRat num den) - (num : ℚ) / den| ≤ 2 ^ (ratExp num den - 24) := by
  obtain ⟨_, _, hv, r1, r2⟩ := roundRat_val hn hd he1 he2
  generalize ratExp num den = e at *
  generalize sig num den = r at *
  have hp := two_zpow_pos (e - 23)
  have hx : (num : ℚ) / den = (num : ℚ) / den * 2 ^ (23 - e) * 2 ^ (e - 23) := by
    rw [mul_assoc, two_zpow_compl_mul, mul_one]
  have hhalf : (2 : ℚ) ^ (e - 24) = 1 / 2 * 2 ^ (e - 23) := by
    have : e - 23 = (e - 24) + 1 := by ring
    rw [this, zpow_add_one₀ (by norm_num : (2 : ℚ) ≠ 0)]; ring
  rw [hv, hhalf, abs_le]
  generalize (num : ℚ) / den * 2 ^ (23 - e) = X at *
  rw [hx]
  constructor
  · nlinarith
  · nlinarith

/-! #### Exponent range for small operands -/

theorem le_ratExp {num den : ℕ} (hn : 0 < num) (hd : 0 < den) (k : ℤ)
    (h : (den : ℚ) * 2 ^ k ≤ num) : k ≤ ratExp num den := by
  obtain ⟨_, s2⟩ := ratExp_spec hn hd
  have hdq : (0 : ℚ) < den := by exact_mod_cast hd
  have a := lt_of_mul_lt_mul_left (lt_of_le_of_lt h s2) (le_of_lt hdq)
  rw [zpow_lt_zpow_iff_right₀ (by norm_num : (1 : ℚ) < 2)] at a
  omega

theorem ratExp_lt {num den : ℕ} (hn : 0 < num) (hd : 0 < den) (k : ℤ)
    (h : (num : ℚ) < den * 2 ^ k) : ratExp num den < k := by
  obtain ⟨s1, _⟩ := ratExp_spec hn hd
  have hdq : (0 : ℚ) < den := by exact_mod_cast hd
  have a := lt_of_mul_lt_mul_left (lt_of_le_of_lt s1 h) (le_of_lt hdq)
  rwa [zpow_lt_zpow_iff_right₀ (by norm_num : (1 : ℚ) < 2)] at a

theorem ratExp_range {n u : ℕ} (hn : 0 < n) (hu : 0 < u) (hn' : n < 2 ^ 24) (hu' : u < 2 ^ 24) :
    -24 ≤ ratExp n u ∧ ratExp n u ≤ 23 := by
  have hnq : (1 : ℚ) ≤ n := by exact_mod_cast hn
  have huq : (1 : ℚ) ≤ u := by exact_mod_cast hu
  have hnq' : (n : ℚ) < 2 ^ 24 := by exact_mod_cast hn'
  have huq' : (u : ℚ) < 2 ^ 24 := by exact_mod_cast hu'
  constructor
  · apply le_ratExp hn hu
    have : (2 : ℚ) ^ (-24 : ℤ) = 1 / 2 ^ 24 := by norm_num [zpow_neg]
    rw [this, mul_one_div, div_le_iff₀ (by positivity)]
    nlinarith
  · have := ratExp_lt hn hu 24 (by
      have : (2 : ℚ) ^ (24 : ℤ) = 2 ^ 24 := by norm_num
      rw [this]; nlinarith)
    omega

theorem ratExp_nonpos {n u : ℕ} (hn : 0 < n) (hle : n ≤ u) : ratExp n u ≤ 0 := by
  have hq : (n : ℚ) ≤ u := by exact_mod_cast hle
  have hnq : (0 : ℚ) < n := by exact_mod_cast hn
  have := ratExp_lt hn (by omega : 0 < u) 1 (by rw [zpow_one]; linarith)
  omega

theorem ratExp_neg {n u : ℕ} (hn : 0 < n) (hlt : n < u) : ratExp n u < 0 := by
  have hq : (n : ℚ) < u := by exact_mod_cast hlt
  exact ratExp_lt hn (by omega : 0 < u) 0 (by rw [zpow_zero, mul_one]; exact hq)

/-! #### F6 -/

theorem roundRat_self {n : ℕ} (hn : 0 < n) : roundRat n n = oneBits := by
  have h := roundRat_scale hn 1 1
  rw [Nat.mul_one] at h
  rw [h]; decide +kernel

theorem val_roundRat_pos {n u : ℕ} (hn : 0 < n) (hu : 0 < u) (hn' : n < 2 ^ 24)
    (hu' : u < 2 ^ 24) : 0 < val (roundRat n u) := by
  obtain ⟨e1, e2⟩ := ratExp_range hn hu hn' hu'
  obtain ⟨h1, _, hv, _, _⟩ := roundRat_val hn hu (by omega) (by omega)
  rw [hv]
  have : (0 : ℚ) < sig n u := by exact_mod_cast (by omega : 0 < sig n u)
  exact mul_pos this (two_zpow_pos _)

/-- F7. Absolute error of the rounded distance: at most `2^-25` (half an ulp below `1`). -/
theorem roundRat_err_unit {n u : ℕ} (hn : 0 < n) (hle : n ≤ u) (hu' : u < 2 ^ 24) :
    |val (roundRat n u) - (n : ℚ) / u| ≤ 1 / 2 ^ 25 := by
  have hu : 0 < u := by omega
  rcases Nat.eq_or_lt_of_le hle with heq | hlt
  · subst heq
    have hnq : (n : ℚ) ≠ 0 := by exact_mod_cast (Nat.ne_of_gt hn)
    rw [roundRat_self hn, val_one, div_self hnq, sub_self, abs_zero]
    positivity
  · obtain ⟨e1, e2⟩ := ratExp_range hn hu (by omega) hu'
    have e3 := ratExp_neg hn hlt
    refine le_trans (roundRat_err hn hu (by omega) (by omega)) ?_
    have : (1 : ℚ) / 2 ^ 25 = 2 ^ (-25 : ℤ) := by norm_num [zpow_neg]
    rw [this]
    exact zpow_le_zpow_right₀ (by norm_num) (by omega)

theorem val_roundRat_lt_one {n u : ℕ} (hn : 0 < n) (hlt : n < u) (hu' : u < 2 ^ 24) :
    val (roundRat n u) < 1 := by
  have herr := roundRat_err_unit hn (le_of_lt hlt) hu'
  rw [abs_le] at herr
  have huq : (0 : ℚ) < u := by exact_mod_cast (by omega : 0 < u)
  have huq' : (u : ℚ) < 2 ^ 24 := by exact_mod_cast hu'
  have hq : (n : ℚ) + 1 ≤ u := by exact_mod_cast hlt
  have hx : (n : ℚ) / u ≤ 1 - 1 / 2 ^ 24 := by
    rw [div_le_iff₀ huq]
    have : (u : ℚ) / 2 ^ 24 < 1 := by rw [div_lt_one (by positivity)]; exact huq'
    have : (1 - 1 / 2 ^ 24) * (u : ℚ) = u - u / 2 ^ 24 := by ring
    linarith
  have : (1 : ℚ) / 2 ^ 25 < 1 / 2 ^ 24 := by norm_num
  linarith

theorem val_roundRat_le_one {n u : ℕ} (hn : 0 < n) (hle : n ≤ u) (hu' : u < 2 ^ 24) :
    val (roundRat n u) ≤ 1 := by
  rcases Nat.eq_or_lt_of_le hle with heq | hlt
  · subst heq; rw [roundRat_self hn, val_one]
  · exact le_of_lt (val_roundRat_lt_one hn hlt hu')

/-- F6. The rounded ratio is `1.0` exactly when the ratio is `1`. -/
theorem roundRat_eq_one_iff {n u : ℕ} (hn : 0 < n) (hle : n ≤ u) (hu' : u < 2 ^ 24) :
    roundRat n u = oneBits ↔ n = u := by
  constructor
  · intro h
    by_contra hne
    have := val_roundRat_lt_one hn (by omega : n < u) hu'
    rw [h, val_one] at this
    exact lt_irrefl _ this
  · intro h; subst h; exact roundRat_self hn

/-- F6. The rounded ratio is `+0.0` exactly when the numerator is `0`. -/
theorem roundRat_eq_zero_iff {n u : ℕ} (hu : 0 < u) (hn' : n < 2 ^ 24) (hu' : u < 2 ^ 24) :
    roundRat n u = 0 ↔ n = 0 := by
  constructor
  · intro h
    by_contra hne
    have := val_roundRat_pos (Nat.pos_of_ne_zero hne) hu hn' hu'
    rw [h, val_zero] at this
    exact lt_irrefl _ this
  · intro h; subst h; exact roundRat_zero_left u

/-! #### F8. Monotonicity -/

theorem val_le_two_zpow {num den : ℕ} (hn : 0 < num) (hd : 0 < den)
    (he1 : -126 ≤ ratExp num den) (he2 : ratExp num den ≤ 126) :
    (2 : ℚ) ^ ratExp num den ≤ val (roundRat num den) ∧
      val (roundRat num den) ≤ 2 ^ (ratExp num den + 1) := by
  obtain ⟨h1, h2, hv, _, _⟩ := roundRat_val hn hd he1 he2
  have q1 : (2 : ℚ) ^ 23 ≤ sig num den := by exact_mod_cast h1
  have q2 : (sig num den : ℚ) ≤ 2 ^ 24 := by exact_mod_cast h2
  have hp := two_zpow_pos (ratExp num den - 23)
  have a1 : (2 : ℚ) ^ ratExp num den = 2 ^ 23 * 2 ^ (ratExp num den - 23) := by
    have : ratExp num den = ((23 : ℕ) : ℤ) + (ratExp num den - 23) := by omega
    conv_lhs => rw [this, zpow_add₀ (by norm_num : (2 : ℚ) ≠ 0), zpow_natCast]
  have a2 : (2 : ℚ) ^ (ratExp num den + 1) = 2 ^ 24 * 2 ^ (ratExp num den - 23) := by
    have : ratExp num den + 1 = ((24 : ℕ) : ℤ) + (ratExp num den - 23) := by omega
    conv_lhs => rw [this, zpow_add₀ (by norm_num : (2 : ℚ) ≠ 0), zpow_natCast]
  rw [hv, a1, a2]
  exact ⟨mul_le_mul_of_nonneg_right q1 (le_of_lt hp), mul_le_mul_of_nonneg_right q2 (le_of_lt hp)⟩

/-- F8. Rounding is monotone in the exact ratio (both ratios in the normal range). -/
theorem roundRat_mono {n u n' u' : ℕ} (hn : 0 < n) (hu : 0 < u) (hn' : 0 < n') (hu' : 0 < u')
    (he1 : -126 ≤ ratExp n u) (he2 : ratExp n u ≤ 126)
    (he1' : -126 ≤ ratExp n' u') (he2' : ratExp n' u' ≤ 126)
    (h : (n : ℚ) / u ≤ (n' : ℚ) / u') :
    val (roundRat n u) ≤ val (roundRat n' u') := by
  have huq : (0 : ℚ) < u := by exact_mod_cast hu
  have huq' : (0 : ℚ) < u' := by exact_mod_cast hu'
  obtain ⟨s1, _⟩ := ratExp_spec hn hu
  have hee : ratExp n u ≤ ratExp n' u' := by
    apply le_ratExp hn' hu'
    have t1 : (2 : ℚ) ^ ratExp n u ≤ (n : ℚ) / u := by
      rw [le_div_iff₀ huq, mul_comm]; exact s1
    have t2 := le_trans t1 h
    rw [le_div_iff₀ huq', mul_comm] at t2
    exact t2
  rcases Int.lt_or_eq_of_le hee with hlt | heq
  · obtain ⟨_, b2⟩ := val_le_two_zpow hn hu he1 he2
    obtain ⟨b1', _⟩ := val_le_two_zpow hn' hu' he1' he2'
    have : (2 : ℚ) ^ (ratExp n u + 1) ≤ 2 ^ ratExp n' u' :=
      zpow_le_zpow_right₀ (by norm_num) (by omega)
    linarith
  · obtain ⟨_, _, hv, _, _⟩ := roundRat_val hn hu he1 he2
    obtain ⟨_, _, hv', _, _⟩ := roundRat_val hn' hu' he1' he2'
    rw [hv, hv', ← heq]
    apply mul_le_mul_of_nonneg_right _ (le_of_lt (two_zpow_pos _))
    have hD := scD_pos hu (ratExp n u)
    have hD' := scD_pos hu' (ratExp n u)
    have hDq : (0 : ℚ) < scD u (ratExp n u) := by exact_mod_cast hD
    have hDq' : (0 : ℚ) < scD u' (ratExp n u) := by exact_mod_cast hD'
    have hr : (scN n (ratExp n u) : ℚ) / scD u (ratExp n u)
        ≤ (scN n' (ratExp n u) : ℚ) / scD u' (ratExp n u) := by
      rw [sc_ratio n hu, sc_ratio n' hu']
      exact mul_le_mul_of_nonneg_right h (le_of_lt (two_zpow_pos _))
    rw [div_le_div_iff₀ hDq hDq'] at hr
    have hr' : scN n (ratExp n u) * scD u' (ratExp n u)
        ≤ scN n' (ratExp n u) * scD u (ratExp n u) := by exact_mod_cast hr
    have := rnd_mono hD hD' hr'
    unfold sig
    rw [← heq]
    exact_mod_cast this

/-- Relative error: at most `2^-24`. -/
theorem roundRat_rel_err {num den : ℕ} (hn : 0 < num) (hd : 0 < den)
    (he1 : -126 ≤ ratExp num den) (he2 : ratExp num den ≤ 126) :
    |val (roundRat num den) - (num : ℚ) / den| ≤ (num : ℚ) / den / 2 ^ 24 := by
  refine le_trans (roundRat_err hn hd he1 he2) ?_
  obtain ⟨s1, _⟩ := ratExp_spec hn hd
  have hdq : (0 : ℚ) < den := by exact_mod_cast hd
  have t1 : (2 : ℚ) ^ ratExp num den ≤ (num : ℚ) / den := by
    rw [le_div_iff₀ hdq, mul_comm]; exact s1
  have : (2 : ℚ) ^ (ratExp num den - 24) = 2 ^ ratExp num den / 2 ^ 24 := by
    rw [zpow_sub₀ (by norm_num : (2 : ℚ) ≠ 0)]; norm_num
  rw [this]
  exact div_le_div_of_nonneg_right t1 (by positivity)

/-- F8 (strict). Enlarging the denominator by one changes the rounded value, as long as the
denominators stay below `2^23`. -/
theorem roundRat_succ_den_lt {n u : ℕ} (hn : 0 < n) (hle : n ≤ u) (hu' : u + 1 < 2 ^ 23) :
    val (roundRat n (u + 1)) < val (roundRat n u) := by
  have hu : 0 < u := by omega
  obtain ⟨e1, e2⟩ := ratExp_range hn hu (by omega) (by omega)
  obtain ⟨e1', e2'⟩ := ratExp_range hn (by omega : 0 < u + 1) (by omega) (by omega)
  have r1 := roundRat_rel_err hn hu (by omega) (by omega)
  have r2 := roundRat_rel_err hn (by omega : 0 < u + 1) (by omega) (by omega)
  rw [abs_le] at r1 r2
  have hnq : (0 : ℚ) < n := by exact_mod_cast hn
  have huq : (0 : ℚ) < u := by exact_mod_cast hu
  have huq' : (u : ℚ) + 1 < 2 ^ 23 := by exact_mod_cast hu'
  push_cast at r2 ⊢
  have key : (n : ℚ) / (u + 1) + (n : ℚ) / (u + 1) / 2 ^ 24 < (n : ℚ) / u - (n : ℚ) / u / 2 ^ 24 := by
    have h1 : (n : ℚ) / (u + 1) + (n : ℚ) / (u + 1) / 2 ^ 24
        = (n : ℚ) * (1 + 1 / 2 ^ 24) / (u + 1) := by ring
    have h2 : (n : ℚ) / u - (n : ℚ) / u / 2 ^ 24 = (n : ℚ) * (1 - 1 / 2 ^ 24) / u := by ring
    rw [h1, h2, div_lt_div_iff₀ (by linarith) huq]
    have h3 : (0 : ℚ) < 1 - (2 * u + 1) / 2 ^ 24 := by
      have : (2 * (u : ℚ) + 1) / 2 ^ 24 < 1 := by
        rw [div_lt_one (by positivity)]; norm_num at huq' ⊢; linarith
      linarith
    have h4 := mul_pos hnq h3
    have h5 : (n : ℚ) * (1 - 1 / 2 ^ 24) * (u + 1) - (n : ℚ) * (1 + 1 / 2 ^ 24) * u
        = (n : ℚ) * (1 - (2 * u + 1) / 2 ^ 24) := by ring
    linarith
  linarith

end GambitV.F32
