import GambitV.Spec.Taxonomy
import GambitV.Lemmas.Taxonomy

/-!
Helper lemmas for C10 (`consensus_taxon` on root-first paths): `isPrefix` / `lcp` facts, the fold
invariant of `consensusFold`, the characterisation of `consensusSpec` by that invariant, and (last
section) `find_matches` / the primary-match loop / the assembly of `classifyStrict`.
Core Lean only; `Lemmas/Taxonomy.lean` (C03) supplies `argminFirst_getD_spec`, `find?_filter_of_imp`
and `covers_thr_isSome` for the last section.
-/
namespace GambitV

/-! ### `isPrefix`, `properPrefix` -/

theorem isPrefix_iff (p s : List Nat) : isPrefix p s = true ↔ p <+: s := by
  unfold isPrefix
  simp only [Bool.and_eq_true, decide_eq_true_eq, beq_iff_eq]
  constructor
  · rintro ⟨_, h⟩
    rw [List.prefix_iff_eq_take]
    exact h.symm
  · intro h
    exact ⟨h.length_le, (List.prefix_iff_eq_take.mp h).symm⟩

theorem isPrefix_false_iff (p s : List Nat) : isPrefix p s = false ↔ ¬ p <+: s := by
  rw [← isPrefix_iff]; simp

theorem properPrefix_iff (p s : List Nat) :
    properPrefix p s = true ↔ p <+: s ∧ p.length < s.length := by
  unfold properPrefix
  simp only [Bool.and_eq_true, decide_eq_true_eq, isPrefix_iff]

theorem prefix_antisymm {a b : List Nat} (h1 : a <+: b) (h2 : b <+: a) : a = b :=
  h1.eq_of_length_le h2.length_le

theorem head?_eq_of_prefix {p s : List Nat} (h : p <+: s) (hp : p ≠ []) : s.head? = p.head? := by
  obtain ⟨r, rfl⟩ := h
  cases p with
  | nil => exact absurd rfl hp
  | cons a p => rfl

/-- two extensions of `c` by different elements have no common extension -/
theorem fork_absurd {c m : List Nat} {x y : Nat} (hxy : x ≠ y)
    (h1 : c ++ [x] <+: m) (h2 : c ++ [y] <+: m) : False := by
  have := List.prefix_of_prefix_length_le h1 h2 (by simp)
  have := this.eq_of_length (by simp)
  simp at this
  exact hxy this

/-- a prefix of something that extends `c ++ [x]`, not extending `c ++ [x]` itself, is a prefix of `c` -/
theorem prefix_of_not_snoc {c p m : List Nat} {x : Nat} (h1 : c ++ [x] <+: m) (hp : p <+: m)
    (hn : ¬ c ++ [x] <+: p) : p <+: c := by
  have hc : c <+: m := (List.prefix_append c [x]).trans h1
  by_cases hl : p.length ≤ c.length
  · exact List.prefix_of_prefix_length_le hp hc hl
  · exfalso
    apply hn
    apply List.prefix_of_prefix_length_le h1 hp
    simp
    omega

/-! ### `lcp` -/

theorem lcp_nil_left (b : List Nat) : lcp [] b = [] := by simp [lcp]
theorem lcp_nil_right (a : List Nat) : lcp a [] = [] := by cases a <;> simp [lcp]
theorem lcp_cons (a : Nat) (as : List Nat) (b : Nat) (bs : List Nat) :
    lcp (a :: as) (b :: bs) = if a = b then a :: lcp as bs else [] := by simp [lcp]

theorem lcp_prefix_left : ∀ a b : List Nat, lcp a b <+: a
  | [], b => by simp [lcp_nil_left]
  | a :: as, [] => by simp [lcp_nil_right]
  | a :: as, b :: bs => by
    rw [lcp_cons]
    split
    · exact (List.prefix_cons_inj a).mpr (lcp_prefix_left as bs)
    · exact List.nil_prefix

theorem lcp_prefix_right : ∀ a b : List Nat, lcp a b <+: b
  | [], b => by simp [lcp_nil_left]
  | a :: as, [] => by simp [lcp_nil_right]
  | a :: as, b :: bs => by
    rw [lcp_cons]
    split
    · next h => subst h; exact (List.prefix_cons_inj a).mpr (lcp_prefix_right as bs)
    · exact List.nil_prefix

theorem prefix_lcp : ∀ {p a b : List Nat}, p <+: a → p <+: b → p <+: lcp a b
  | [], _, _, _, _ => List.nil_prefix
  | x :: p, [], _, h, _ => by simp at h
  | x :: p, _ :: _, [], _, h => by simp at h
  | x :: p, a :: as, b :: bs, h1, h2 => by
    rw [List.cons_prefix_cons] at h1 h2
    obtain ⟨rfl, h1⟩ := h1
    obtain ⟨rfl, h2⟩ := h2
    rw [lcp_cons, if_pos rfl]
    exact (List.prefix_cons_inj x).mpr (prefix_lcp h1 h2)

/-- The two lists either have one of them as `lcp`, or continue past it with different elements. -/
theorem lcp_cases : ∀ a b : List Nat, lcp a b = a ∨ lcp a b = b ∨
    ∃ x y ra rb, x ≠ y ∧ a = lcp a b ++ x :: ra ∧ b = lcp a b ++ y :: rb
  | [], b => Or.inl (lcp_nil_left b)
  | a :: as, [] => Or.inr (Or.inl (lcp_nil_right _))
  | a :: as, b :: bs => by
    rw [lcp_cons]
    by_cases h : a = b
    · subst h
      rw [if_pos rfl]
      rcases lcp_cases as bs with h | h | ⟨x, y, ra, rb, hxy, h1, h2⟩
      · left; rw [h]
      · right; left; rw [h]
      · right; right
        refine ⟨x, y, ra, rb, hxy, ?_, ?_⟩
        · rw [List.cons_append, ← h1]
        · rw [List.cons_append, ← h2]
    · rw [if_neg h]
      right; right
      exact ⟨a, b, as, bs, h, rfl, rfl⟩

theorem lcp_eq_nil_head {a b : List Nat} (ha : a ≠ []) (hb : b ≠ []) (h : lcp a b = []) :
    a.head? ≠ b.head? := by
  cases a with
  | nil => exact absurd rfl ha
  | cons x a =>
    cases b with
    | nil => exact absurd rfl hb
    | cons y b =>
      rw [lcp_cons] at h
      by_cases hxy : x = y
      · rw [if_pos hxy] at h; simp at h
      · simpa using hxy

/-! ### The fold invariant -/

/-- State `(c, split)` after the non-empty set `seen` of matched paths has been processed. -/
structure ConsInv (seen : List (List Nat)) (c : List Nat) (split : Bool) : Prop where
  ne : c ≠ []
  below : ∃ s ∈ seen, c <+: s
  comp : ∀ s ∈ seen, s <+: c ∨ c <+: s
  nosplit : split = false → c ∈ seen ∧ ∀ s ∈ seen, s <+: c
  fork : split = true → ∃ s₁ ∈ seen, ∃ s₂ ∈ seen, ∃ x₁ x₂ : Nat, x₁ ≠ x₂ ∧
    c ++ [x₁] <+: s₁ ∧ c ++ [x₂] <+: s₂

theorem ConsInv.congr {A B : List (List Nat)} {c : List Nat} {split : Bool}
    (h : ∀ x, x ∈ A ↔ x ∈ B) (hi : ConsInv A c split) : ConsInv B c split where
  ne := hi.ne
  below := by
    obtain ⟨s, hs, hc⟩ := hi.below
    exact ⟨s, (h s).1 hs, hc⟩
  comp := fun s hs => hi.comp s ((h s).2 hs)
  nosplit := fun hsp => ⟨(h c).1 (hi.nosplit hsp).1, fun s hs => (hi.nosplit hsp).2 s ((h s).2 hs)⟩
  fork := fun hsp => by
    obtain ⟨s₁, h₁, s₂, h₂, x₁, x₂, hx, ha, hb⟩ := hi.fork hsp
    exact ⟨s₁, (h _).1 h₁, s₂, (h _).1 h₂, x₁, x₂, hx, ha, hb⟩

theorem ConsInv.init (t : List Nat) (ht : t ≠ []) : ConsInv [t] t false where
  ne := ht
  below := ⟨t, List.mem_singleton.2 rfl, List.prefix_rfl⟩
  comp := fun s hs => by rw [List.mem_singleton.1 hs]; exact Or.inl List.prefix_rfl
  nosplit := fun _ => ⟨List.mem_singleton.2 rfl, fun s hs => by
    rw [List.mem_singleton.1 hs]; exact List.prefix_rfl⟩
  fork := fun h => by cases h

/-- The four succeeding branches of `consensusStep` preserve the invariant. -/
theorem consensusStep_inv {seen : List (List Nat)} {s s' : Trunk} {t : List Nat}
    (hi : ConsInv seen s.c s.split) (h : consensusStep s t = some s') :
    ConsInv (t :: seen) s'.c s'.split := by
  unfold consensusStep at h
  by_cases h1 : isPrefix t s.c = true
  · -- taxon in trunk
    rw [if_pos h1] at h
    cases h
    rw [isPrefix_iff] at h1
    exact {
      ne := hi.ne
      below := by
        obtain ⟨x, hx, hc⟩ := hi.below
        exact ⟨x, List.mem_cons_of_mem _ hx, hc⟩
      comp := fun x hx => by
        rcases List.mem_cons.1 hx with rfl | hx
        · exact Or.inl h1
        · exact hi.comp x hx
      nosplit := fun hsp => ⟨List.mem_cons_of_mem _ (hi.nosplit hsp).1, fun x hx => by
        rcases List.mem_cons.1 hx with rfl | hx
        · exact h1
        · exact (hi.nosplit hsp).2 x hx⟩
      fork := fun hsp => by
        obtain ⟨s₁, h₁, s₂, h₂, x₁, x₂, hx, ha, hb⟩ := hi.fork hsp
        exact ⟨s₁, List.mem_cons_of_mem _ h₁, s₂, List.mem_cons_of_mem _ h₂, x₁, x₂, hx, ha, hb⟩ }
  · rw [if_neg h1] at h
    simp only at h
    have h1' : ¬ t <+: s.c := fun hp => h1 ((isPrefix_iff _ _).2 hp)
    by_cases h2 : lcp s.c t = []
    · rw [if_pos h2] at h; cases h
    · rw [if_neg h2] at h
      by_cases h3 : lcp s.c t = s.c
      · rw [if_pos h3] at h
        have hct : s.c <+: t := h3 ▸ lcp_prefix_right s.c t
        by_cases h4 : s.split = true
        · -- meets the trunk at its tip, consensus already a fork: unchanged
          rw [if_pos h4] at h
          cases h
          exact {
            ne := hi.ne
            below := by
              obtain ⟨x, hx, hc⟩ := hi.below
              exact ⟨x, List.mem_cons_of_mem _ hx, hc⟩
            comp := fun x hx => by
              rcases List.mem_cons.1 hx with rfl | hx
              · exact Or.inr hct
              · exact hi.comp x hx
            nosplit := fun hsp => by rw [h4] at hsp; cases hsp
            fork := fun hsp => by
              obtain ⟨s₁, h₁, s₂, h₂, x₁, x₂, hx, ha, hb⟩ := hi.fork hsp
              exact ⟨s₁, List.mem_cons_of_mem _ h₁, s₂, List.mem_cons_of_mem _ h₂, x₁, x₂, hx, ha, hb⟩ }
        · -- descends below a non-fork consensus: becomes the consensus
          rw [if_neg h4] at h
          cases h
          have h4' : s.split = false := by simpa using h4
          have hall := (hi.nosplit h4').2
          have htne : t ≠ [] := fun h0 => hi.ne (by
            have := hct; rw [h0] at this; exact List.prefix_nil.1 this)
          exact {
            ne := htne
            below := ⟨t, List.mem_cons_self, List.prefix_rfl⟩
            comp := fun x hx => by
              rcases List.mem_cons.1 hx with rfl | hx
              · exact Or.inl List.prefix_rfl
              · exact Or.inl ((hall x hx).trans hct)
            nosplit := fun _ => ⟨List.mem_cons_self, fun x hx => by
              rcases List.mem_cons.1 hx with rfl | hx
              · exact List.prefix_rfl
              · exact (hall x hx).trans hct⟩
            fork := fun hsp => by cases hsp }
      · -- meets further up: fork at the lcp
        rw [if_neg h3] at h
        cases h
        have hlc : lcp s.c t <+: s.c := lcp_prefix_left _ _
        have hlt : lcp s.c t <+: t := lcp_prefix_right _ _
        have h5 : lcp s.c t ≠ t := fun h5 => h1' (h5 ▸ hlc)
        obtain ⟨x, y, ra, rb, hxy, hc, ht⟩ : ∃ x y ra rb, x ≠ y ∧ s.c = lcp s.c t ++ x :: ra ∧
            t = lcp s.c t ++ y :: rb := by
          rcases lcp_cases s.c t with h | h | h
          · exact absurd h h3
          · exact absurd h h5
          · exact h
        have hx : lcp s.c t ++ [x] <+: s.c := by
          refine ⟨ra, ?_⟩
          rw [List.append_assoc, List.singleton_append]
          exact hc.symm
        have hy : lcp s.c t ++ [y] <+: t := by
          refine ⟨rb, ?_⟩
          rw [List.append_assoc, List.singleton_append]
          exact ht.symm
        obtain ⟨w, hw, hcw⟩ := hi.below
        exact {
          ne := h2
          below := ⟨t, List.mem_cons_self, hlt⟩
          comp := fun z hz => by
            rcases List.mem_cons.1 hz with rfl | hz
            · exact Or.inr hlt
            · rcases hi.comp z hz with hzc | hcz
              · exact List.prefix_or_prefix_of_prefix hzc hlc
              · exact Or.inr (hlc.trans hcz)
          nosplit := fun hsp => by cases hsp
          fork := fun _ => ⟨w, List.mem_cons_of_mem _ hw, t, List.mem_cons_self, x, y, hxy,
            hx.trans hcw, hy⟩ }

/-- The failing branch: the new path and a processed one have different roots. -/
theorem consensusStep_none {seen : List (List Nat)} {s : Trunk} {t : List Nat}
    (hi : ConsInv seen s.c s.split) (ht : t ≠ []) (h : consensusStep s t = none) :
    ∃ w ∈ seen, w.head? ≠ t.head? := by
  unfold consensusStep at h
  by_cases h1 : isPrefix t s.c = true
  · rw [if_pos h1] at h; cases h
  · rw [if_neg h1] at h
    simp only at h
    by_cases h2 : lcp s.c t = []
    · obtain ⟨w, hw, hcw⟩ := hi.below
      refine ⟨w, hw, ?_⟩
      rw [head?_eq_of_prefix hcw hi.ne]
      exact lcp_eq_nil_head hi.ne ht h2
    · rw [if_neg h2] at h
      split at h
      · split at h <;> cases h
      · cases h

theorem consensusFold_inv : ∀ (ts : List (List Nat)) (seen : List (List Nat)) (s s' : Trunk),
    ConsInv seen s.c s.split → consensusFold s ts = some s' →
    ConsInv (ts.reverse ++ seen) s'.c s'.split
  | [], seen, s, s', hi, h => by
    simp only [consensusFold, Option.some.injEq] at h
    subst h
    simpa using hi
  | t :: ts, seen, s, s', hi, h => by
    simp only [consensusFold] at h
    cases hst : consensusStep s t with
    | none => rw [hst] at h; cases h
    | some s1 =>
      rw [hst] at h
      have := consensusFold_inv ts (t :: seen) s1 s' (consensusStep_inv hi hst) h
      simpa using this

theorem consensusFold_none : ∀ (ts : List (List Nat)) (seen : List (List Nat)) (s : Trunk),
    ConsInv seen s.c s.split → (∀ t ∈ ts, t ≠ []) → consensusFold s ts = none →
    ∃ a ∈ ts.reverse ++ seen, ∃ b ∈ ts.reverse ++ seen, a.head? ≠ b.head?
  | [], seen, s, hi, hne, h => by simp [consensusFold] at h
  | t :: ts, seen, s, hi, hne, h => by
    simp only [consensusFold] at h
    cases hst : consensusStep s t with
    | none =>
      obtain ⟨w, hw, hh⟩ := consensusStep_none hi (hne t List.mem_cons_self) hst
      exact ⟨w, by simp [hw], t, by simp, hh⟩
    | some s1 =>
      rw [hst] at h
      have := consensusFold_none ts (t :: seen) s1 (consensusStep_inv hi hst)
        (fun x hx => hne x (List.mem_cons_of_mem _ hx)) h
      simpa using this

/-! ### `consensusPaths` -/

theorem consensusPaths_snd (T : List (List Nat)) :
    (consensusPaths T).2 = match (consensusPaths T).1 with
      | none => T
      | some c => T.filter (fun x => !isPrefix x c) := by
  cases T with
  | nil => rfl
  | cons t ts =>
    simp only [consensusPaths]
    cases consensusFold { c := t, split := false } ts <;> rfl

/-- A successful run ends in a state satisfying the invariant for the whole input. -/
theorem consensusPaths_inv (T : List (List Nat)) (hne : ∀ t ∈ T, t ≠ []) (c : List Nat)
    (h : (consensusPaths T).1 = some c) : ∃ split, ConsInv T c split := by
  cases T with
  | nil => simp [consensusPaths] at h
  | cons t ts =>
    simp only [consensusPaths] at h
    cases hf : consensusFold { c := t, split := false } ts with
    | none => rw [hf] at h; cases h
    | some s' =>
      rw [hf] at h
      simp only [Option.some.injEq] at h
      subst h
      have := consensusFold_inv ts [t] _ s' (ConsInv.init t (hne t List.mem_cons_self)) hf
      exact ⟨s'.split, this.congr (by intro x; simp [or_comm])⟩

/-- A failing run on a non-empty input: two paths with different roots. -/
theorem consensusPaths_none (T : List (List Nat)) (hne : ∀ t ∈ T, t ≠ []) (hT : T ≠ [])
    (h : (consensusPaths T).1 = none) : ∃ a ∈ T, ∃ b ∈ T, a.head? ≠ b.head? := by
  cases T with
  | nil => exact absurd rfl hT
  | cons t ts =>
    simp only [consensusPaths] at h
    cases hf : consensusFold { c := t, split := false } ts with
    | some s' => rw [hf] at h; cases h
    | none =>
      obtain ⟨a, ha, b, hb, hab⟩ := consensusFold_none ts [t] _
        (ConsInv.init t (hne t List.mem_cons_self)) (fun x hx => hne x (List.mem_cons_of_mem _ hx)) hf
      refine ⟨a, ?_, b, ?_, hab⟩
      · simpa [or_comm] using ha
      · simpa [or_comm] using hb

/-! ### The specification side -/

theorem mem_maximalPaths {T : List (List Nat)} {m : List Nat} :
    m ∈ maximalPaths T ↔ m ∈ T ∧ ∀ s ∈ T, m <+: s → s.length ≤ m.length := by
  unfold maximalPaths
  simp only [List.mem_filter, Bool.not_eq_true', List.any_eq_false, properPrefix_iff, not_and,
    Nat.not_lt]

/-- every matched path extends to a most specific one -/
theorem exists_maximal (T : List (List Nat)) : ∀ (n : Nat) (t : List Nat), t ∈ T →
    (∀ s ∈ T, s.length ≤ t.length + n) → ∃ m ∈ maximalPaths T, t <+: m
  | 0, t, ht, hb => ⟨t, mem_maximalPaths.2 ⟨ht, fun s hs _ => by simpa using hb s hs⟩, List.prefix_rfl⟩
  | n + 1, t, ht, hb => by
    by_cases hmax : ∃ s ∈ T, t <+: s ∧ t.length < s.length
    · obtain ⟨s, hs, hts, hlen⟩ := hmax
      obtain ⟨m, hm, hsm⟩ := exists_maximal T n s hs (fun z hz => by have := hb z hz; omega)
      exact ⟨m, hm, hts.trans hsm⟩
    · refine ⟨t, mem_maximalPaths.2 ⟨ht, fun s hs hts => ?_⟩, List.prefix_rfl⟩
      exact Nat.le_of_not_lt (fun hlt => hmax ⟨s, hs, hts, hlt⟩)

theorem length_bound (T : List (List Nat)) : ∃ N, ∀ s ∈ T, s.length ≤ N := by
  induction T with
  | nil => exact ⟨0, fun s hs => by cases hs⟩
  | cons t T ih =>
    obtain ⟨N, hN⟩ := ih
    refine ⟨max N t.length, fun s hs => ?_⟩
    rcases List.mem_cons.1 hs with rfl | hs
    · exact Nat.le_max_right _ _
    · exact Nat.le_trans (hN s hs) (Nat.le_max_left _ _)

theorem exists_maximal' {T : List (List Nat)} {t : List Nat} (ht : t ∈ T) :
    ∃ m ∈ maximalPaths T, t <+: m := by
  obtain ⟨N, hN⟩ := length_bound T
  exact exists_maximal T N t ht (fun s hs => by have := hN s hs; omega)

theorem prefix_foldl_lcp {p : List Nat} : ∀ (ps : List (List Nat)) (a : List Nat),
    p <+: ps.foldl lcp a ↔ p <+: a ∧ ∀ s ∈ ps, p <+: s
  | [], a => by simp
  | b :: ps, a => by
    rw [List.foldl_cons, prefix_foldl_lcp ps (lcp a b)]
    constructor
    · rintro ⟨h1, h2⟩
      refine ⟨h1.trans (lcp_prefix_left _ _), fun s hs => ?_⟩
      rcases List.mem_cons.1 hs with rfl | hs
      · exact h1.trans (lcp_prefix_right _ _)
      · exact h2 s hs
    · rintro ⟨h1, h2⟩
      exact ⟨prefix_lcp h1 (h2 b List.mem_cons_self), fun s hs => h2 s (List.mem_cons_of_mem _ hs)⟩

/-- `lcpAll L` is the greatest common prefix of a non-empty `L`. -/
theorem prefix_lcpAll {L : List (List Nat)} (hL : L ≠ []) (p : List Nat) :
    p <+: lcpAll L ↔ ∀ s ∈ L, p <+: s := by
  cases L with
  | nil => exact absurd rfl hL
  | cons a ps =>
    simp only [lcpAll, prefix_foldl_lcp, List.mem_cons, forall_eq_or_imp]

theorem lcpAll_eq_of_glb {L : List (List Nat)} (hL : L ≠ []) {c : List Nat}
    (hlb : ∀ s ∈ L, c <+: s) (hglb : ∀ p, (∀ s ∈ L, p <+: s) → p <+: c) : lcpAll L = c :=
  prefix_antisymm (hglb _ ((prefix_lcpAll hL _).1 List.prefix_rfl)) ((prefix_lcpAll hL c).2 hlb)

/-- `lcpAll` only depends on the set of members. -/
theorem lcpAll_congr {L₁ L₂ : List (List Nat)} (h : ∀ x, x ∈ L₁ ↔ x ∈ L₂) : lcpAll L₁ = lcpAll L₂ := by
  cases L₁ with
  | nil =>
    cases L₂ with
    | nil => rfl
    | cons b L₂ => exact absurd ((h b).2 List.mem_cons_self) (by simp)
  | cons a L₁ =>
    have h2 : L₂ ≠ [] := fun h0 => by
      have := (h a).1 List.mem_cons_self
      rw [h0] at this
      cases this
    apply lcpAll_eq_of_glb (by simp)
    · intro s hs
      exact (prefix_lcpAll h2 _).1 List.prefix_rfl s ((h s).1 hs)
    · intro p hp
      exact (prefix_lcpAll h2 p).2 (fun s hs => hp s ((h s).2 hs))

theorem maximalPaths_congr {T₁ T₂ : List (List Nat)} (h : ∀ x, x ∈ T₁ ↔ x ∈ T₂) (x : List Nat) :
    x ∈ maximalPaths T₁ ↔ x ∈ maximalPaths T₂ := by
  rw [mem_maximalPaths, mem_maximalPaths, h x]
  constructor
  · rintro ⟨h1, h2⟩
    exact ⟨h1, fun s hs => h2 s ((h s).2 hs)⟩
  · rintro ⟨h1, h2⟩
    exact ⟨h1, fun s hs => h2 s ((h s).1 hs)⟩

/-- The specification only depends on the set of matched paths. -/
theorem consensusSpec_congr {T₁ T₂ : List (List Nat)} (h : ∀ x, x ∈ T₁ ↔ x ∈ T₂) :
    consensusSpec T₁ = consensusSpec T₂ := by
  unfold consensusSpec
  have he : T₁.isEmpty = T₂.isEmpty := by
    cases T₁ with
    | nil =>
      cases T₂ with
      | nil => rfl
      | cons b T₂ => exact absurd ((h b).2 List.mem_cons_self) (by simp)
    | cons a T₁ =>
      cases T₂ with
      | nil => exact absurd ((h a).1 List.mem_cons_self) (by simp)
      | cons b T₂ => rfl
  rw [he, lcpAll_congr (maximalPaths_congr h)]

/-- The invariant pins the state to the specification value. -/
theorem consensusSpec_of_inv {T : List (List Nat)} {c : List Nat} {split : Bool}
    (hi : ConsInv T c split) : consensusSpec T = some c := by
  obtain ⟨w, hw, hcw⟩ := hi.below
  have hT : T.isEmpty = false := by
    cases T with
    | nil => cases hw
    | cons a T => rfl
  obtain ⟨mw, hmw, hwm⟩ := exists_maximal' hw
  have hM : maximalPaths T ≠ [] := fun h0 => by rw [h0] at hmw; cases hmw
  have hl : lcpAll (maximalPaths T) = c := by
    apply lcpAll_eq_of_glb hM
    · -- `c` is a prefix of every most specific path
      intro m hm
      obtain ⟨hmT, hmax⟩ := mem_maximalPaths.1 hm
      rcases hi.comp m hmT with hmc | hcm
      · have h1 := hmax w hw (hmc.trans hcw)
        have h2 := hcw.length_le
        have h3 := hmc.length_le
        rw [hmc.eq_of_length (by omega)]
        exact List.prefix_rfl
      · exact hcm
    · -- and the longest such
      intro p hp
      cases hsp : split with
      | false =>
        obtain ⟨hc, hall⟩ := hi.nosplit hsp
        exact hp c (mem_maximalPaths.2 ⟨hc, fun s hs _ => (hall s hs).length_le⟩)
      | true =>
        obtain ⟨s₁, h₁, s₂, h₂, x₁, x₂, hx, ha, hb⟩ := hi.fork hsp
        obtain ⟨m₁, hm₁, hsm₁⟩ := exists_maximal' h₁
        obtain ⟨m₂, hm₂, hsm₂⟩ := exists_maximal' h₂
        apply prefix_of_not_snoc (ha.trans hsm₁) (hp m₁ hm₁)
        intro hcp
        exact fork_absurd hx (hcp.trans (hp m₂ hm₂)) (hb.trans hsm₂)
  unfold consensusSpec
  rw [hT]
  simp only [Bool.false_eq_true, if_false, hl]
  have : c.isEmpty = false := by
    cases c with
    | nil => exact absurd rfl hi.ne
    | cons a c => rfl
  rw [this]
  simp

/-- Two non-empty matched paths with different roots: the specification is "no taxon". -/
theorem consensusSpec_none_of_heads {T : List (List Nat)} {a b : List Nat} (ha : a ∈ T) (hb : b ∈ T)
    (hane : a ≠ []) (hbne : b ≠ []) (hab : a.head? ≠ b.head?) : consensusSpec T = none := by
  obtain ⟨ma, hma, hama⟩ := exists_maximal' ha
  obtain ⟨mb, hmb, hbmb⟩ := exists_maximal' hb
  have hM : maximalPaths T ≠ [] := fun h0 => by rw [h0] at hma; cases hma
  have hl : lcpAll (maximalPaths T) = [] := by
    cases hl : lcpAll (maximalPaths T) with
    | nil => rfl
    | cons x l =>
      exfalso
      have hp := (prefix_lcpAll hM (lcpAll (maximalPaths T))).1 List.prefix_rfl
      have h1 := head?_eq_of_prefix (hp ma hma) (by rw [hl]; simp)
      have h2 := head?_eq_of_prefix (hp mb hmb) (by rw [hl]; simp)
      have h3 := head?_eq_of_prefix hama hane
      have h4 := head?_eq_of_prefix hbmb hbne
      apply hab
      rw [← h3, ← h4, h1, h2]
  unfold consensusSpec
  simp [hl]

/-! ### Strict mode: `find_matches`, the primary match, assembling `classifyStrict` -/

/-- the grouping step of `find_matches` -/
def fmStep (acc : List (Nat × List Nat)) (ti : Nat × Nat) : List (Nat × List Nat) :=
  if acc.any (fun e => e.1 == ti.1)
  then acc.map (fun e => if e.1 == ti.1 then (e.1, e.2 ++ [ti.2]) else e)
  else acc ++ [(ti.1, [ti.2])]

/-- (matched taxon, genome index) pairs in genome order -/
def fmPairs (F : Forest) (gtax ds : List Nat) : List (Nat × Nat) :=
  (List.range gtax.length).filterMap (fun i =>
    (matchingTaxon F (gtax.getD i 0) (ds.getD i 0)).map (fun t => (t, i)))

theorem findMatches_eq (F : Forest) (gtax ds : List Nat) :
    findMatches F gtax ds = (fmPairs F gtax ds).foldl fmStep [] := rfl

def pickStep (ds : List Nat) (acc : Option (Nat × Nat)) (i : Nat) : Option (Nat × Nat) :=
  match acc with
  | none => some (i, ds.getD i 0)
  | some (bi, bd) => if ds.getD i 0 < bd then some (i, ds.getD i 0) else some (bi, bd)

/-- `classifyStrict` when something matched, with the pair of `consensusPaths` projected. -/
theorem classifyStrict_nonempty (F : Forest) (gtax ds : List Nat)
    (h : (findMatches F gtax ds).isEmpty = false) :
    classifyStrict F gtax ds =
      let mts := findMatches F gtax ds
      let T := (mts.map (·.1)).map F.path
      let cons := (consensusPaths T).1
      let others := (consensusPaths T).2
      let primary : Option Nat := match cons with
        | none => none
        | some cp => ((mts.flatMap (fun e => if isPrefix cp (F.path e.1) then e.2 else [])).foldl
            (pickStep ds) none).map (·.1)
      { success := cons.isSome, predicted := cons.bind (fun p => p.getLast?), primary := primary,
        closest := argminFirst ds,
        next := nextTaxon F (gtax.getD (argminFirst ds) 0) (ds.getD (argminFirst ds) 0),
        warnInconsistent := others.filterMap (fun p => p.getLast?),
        warnNotClosest := (match primary with | some p => p != argminFirst ds | none => false),
        failed := cons.isNone } := by
  unfold classifyStrict
  simp only [h]
  rfl

theorem classifyStrict_empty (F : Forest) (gtax ds : List Nat)
    (h : (findMatches F gtax ds).isEmpty = true) :
    classifyStrict F gtax ds =
      { success := true, predicted := none, primary := none, closest := argminFirst ds,
        next := nextTaxon F (gtax.getD (argminFirst ds) 0) (ds.getD (argminFirst ds) 0),
        warnInconsistent := [], warnNotClosest := false, failed := false } := by
  unfold classifyStrict
  simp only [h]
  rfl

/-! #### grouping -/

theorem fmStep_fst (acc : List (Nat × List Nat)) (ti : Nat × Nat) :
    (fmStep acc ti).map (·.1) =
      if (acc.map (·.1)).contains ti.1 then acc.map (·.1) else acc.map (·.1) ++ [ti.1] := by
  have hany : acc.any (fun e => e.1 == ti.1) = (acc.map (·.1)).contains ti.1 := by
    rw [Bool.eq_iff_iff]
    simp only [List.any_eq_true, beq_iff_eq, List.contains_iff_mem, List.mem_map]
  unfold fmStep
  rw [hany]
  split
  · rw [List.map_map]
    apply List.map_congr_left
    intro e _
    simp only [Function.comp]
    split <;> rfl
  · simp

theorem foldl_fmStep_fst (ms : List (Nat × Nat)) : ∀ acc : List (Nat × List Nat),
    (ms.foldl fmStep acc).map (·.1) =
      (ms.map (·.1)).foldl (fun acc x => if acc.contains x then acc else acc ++ [x]) (acc.map (·.1)) := by
  induction ms with
  | nil => intro acc; rfl
  | cons ti ms ih =>
    intro acc
    rw [List.foldl_cons, ih, List.map_cons, List.foldl_cons, fmStep_fst]

theorem fmStep_mem (acc : List (Nat × List Nat)) (ti : Nat × Nat) (t i : Nat) :
    (∃ e ∈ fmStep acc ti, e.1 = t ∧ i ∈ e.2) ↔ (∃ e ∈ acc, e.1 = t ∧ i ∈ e.2) ∨ (t, i) = ti := by
  unfold fmStep
  split
  · next hany =>
    simp only [List.any_eq_true, beq_iff_eq] at hany
    simp only [List.mem_map]
    constructor
    · rintro ⟨e', ⟨e, he, rfl⟩, h1, h2⟩
      by_cases hk : e.1 = ti.1
      · simp only [hk, beq_self_eq_true, if_true, List.mem_append, List.mem_singleton] at h1 h2
        rcases h2 with h2 | h2
        · exact Or.inl ⟨e, he, hk.trans h1, h2⟩
        · right; rw [← h1, h2]
      · have : (e.1 == ti.1) = false := by simpa using hk
        simp only [this] at h1 h2
        exact Or.inl ⟨e, he, h1, h2⟩
    · rintro (⟨e, he, h1, h2⟩ | h)
      · refine ⟨_, ⟨e, he, rfl⟩, ?_⟩
        split
        · exact ⟨h1, List.mem_append_left _ h2⟩
        · exact ⟨h1, h2⟩
      · obtain ⟨e, he, hk⟩ := hany
        refine ⟨_, ⟨e, he, rfl⟩, ?_⟩
        cases h
        simp [hk]
  · simp only [List.mem_append, List.mem_singleton]
    constructor
    · rintro ⟨e, he | rfl, h1, h2⟩
      · exact Or.inl ⟨e, he, h1, h2⟩
      · right
        simp only [List.mem_singleton] at h2
        rw [← h1, h2]
    · rintro (⟨e, he, h1, h2⟩ | h)
      · exact ⟨e, Or.inl he, h1, h2⟩
      · cases h
        exact ⟨_, Or.inr rfl, rfl, List.mem_singleton.2 rfl⟩

theorem foldl_fmStep_mem (ms : List (Nat × Nat)) (t i : Nat) : ∀ acc : List (Nat × List Nat),
    (∃ e ∈ ms.foldl fmStep acc, e.1 = t ∧ i ∈ e.2) ↔ (∃ e ∈ acc, e.1 = t ∧ i ∈ e.2) ∨ (t, i) ∈ ms := by
  induction ms with
  | nil => intro acc; simp
  | cons ti ms ih =>
    intro acc
    rw [List.foldl_cons, ih, fmStep_mem, List.mem_cons, or_assoc]

theorem fmStep_ne_nil (acc : List (Nat × List Nat)) (ti : Nat × Nat) (h : ∀ e ∈ acc, e.2 ≠ []) :
    ∀ e ∈ fmStep acc ti, e.2 ≠ [] := by
  unfold fmStep
  split
  · intro e' he'
    obtain ⟨e, he, rfl⟩ := List.mem_map.1 he'
    split
    · simp
    · exact h e he
  · intro e he
    rcases List.mem_append.1 he with he | he
    · exact h e he
    · rw [List.mem_singleton.1 he]; simp

theorem foldl_fmStep_ne_nil (ms : List (Nat × Nat)) : ∀ acc : List (Nat × List Nat),
    (∀ e ∈ acc, e.2 ≠ []) → ∀ e ∈ ms.foldl fmStep acc, e.2 ≠ [] := by
  induction ms with
  | nil => intro acc h; exact h
  | cons ti ms ih => intro acc h; exact ih _ (fmStep_ne_nil acc ti h)

theorem mem_fmPairs (F : Forest) (gtax ds : List Nat) (t i : Nat) :
    (t, i) ∈ fmPairs F gtax ds ↔
      i < gtax.length ∧ predictedSpec F (gtax.getD i 0) (ds.getD i 0) = some t := by
  have hm : ∀ t d, matchingTaxon F t d = predictedSpec F t d := fun t d => by
    unfold matchingTaxon predictedSpec thrLineage
    exact (find?_filter_of_imp _ _ (fun a h => covers_thr_isSome h) _).symm
  unfold fmPairs
  simp only [List.mem_filterMap, List.mem_range, Option.map_eq_some_iff, Prod.mk.injEq, hm]
  constructor
  · rintro ⟨j, hj, a, ha, rfl, rfl⟩; exact ⟨hj, ha⟩
  · rintro ⟨hi, h⟩; exact ⟨i, hi, t, h, rfl, rfl⟩

/-- the spec's list of matched taxa -/
def matchedSpec (F : Forest) (gtax ds : List Nat) : List (Option Nat) :=
  (List.range gtax.length).map (fun i => predictedSpec F (gtax.getD i 0) (ds.getD i 0))

theorem fmPairs_fst (F : Forest) (gtax ds : List Nat) :
    (fmPairs F gtax ds).map (·.1) = (matchedSpec F gtax ds).filterMap id := by
  have hm : ∀ t d, matchingTaxon F t d = predictedSpec F t d := fun t d => by
    unfold matchingTaxon predictedSpec thrLineage
    exact (find?_filter_of_imp _ _ (fun a h => covers_thr_isSome h) _).symm
  unfold fmPairs matchedSpec
  rw [List.map_filterMap, List.filterMap_map]
  congr 1
  funext i
  simp [hm, Option.map_map, Function.comp_def]

/-- the matched taxa of `find_matches`, in first-match order, are the spec's -/
theorem findMatches_fst (F : Forest) (gtax ds : List Nat) :
    (findMatches F gtax ds).map (·.1) = dedup ((matchedSpec F gtax ds).filterMap id) := by
  rw [findMatches_eq, foldl_fmStep_fst, fmPairs_fst]
  rfl

/-- genome `i` is listed under taxon `t` iff `t` is the taxon matched by genome `i` -/
theorem findMatches_mem (F : Forest) (gtax ds : List Nat) (t i : Nat) :
    (∃ e ∈ findMatches F gtax ds, e.1 = t ∧ i ∈ e.2) ↔
      i < gtax.length ∧ predictedSpec F (gtax.getD i 0) (ds.getD i 0) = some t := by
  rw [findMatches_eq, foldl_fmStep_mem, mem_fmPairs]
  simp

theorem findMatches_ne_nil (F : Forest) (gtax ds : List Nat) :
    ∀ e ∈ findMatches F gtax ds, e.2 ≠ [] := by
  rw [findMatches_eq]
  exact foldl_fmStep_ne_nil _ [] (fun e he => by cases he)

/-! #### paths of matched taxa are non-empty -/

theorem path_ne_nil_of_mem_lineage (F : Forest) (t a : Nat) (h : a ∈ F.lineage t) : F.path a ≠ [] := by
  unfold Forest.lineage at h
  unfold Forest.path Forest.lineage
  cases hs : F.size with
  | zero => rw [hs] at h; simp [Forest.lineageFuel] at h
  | succ n => simp [Forest.lineageFuel]

theorem path_ne_nil_of_predicted (F : Forest) (t d a : Nat) (h : predictedSpec F t d = some a) :
    F.path a ≠ [] := by
  unfold predictedSpec thrLineage at h
  have := List.mem_of_find?_eq_some h
  exact path_ne_nil_of_mem_lineage F t a (List.mem_filter.1 this).1

theorem findMatches_path_ne_nil (F : Forest) (gtax ds : List Nat) :
    ∀ p ∈ ((findMatches F gtax ds).map (·.1)).map F.path, p ≠ [] := by
  intro p hp
  simp only [List.mem_map] at hp
  obtain ⟨t, ⟨e, he, rfl⟩, rfl⟩ := hp
  have hne := findMatches_ne_nil F gtax ds e he
  obtain ⟨i, hi⟩ := List.exists_mem_of_ne_nil _ hne
  have := (findMatches_mem F gtax ds e.1 i).1 ⟨e, he, rfl, hi⟩
  exact path_ne_nil_of_predicted F _ _ _ this.2

/-! #### the primary match -/

theorem pick_some (ds : List Nat) : ∀ (cands : List Nat) (b : Nat),
    ∃ p, cands.foldl (pickStep ds) (some (b, ds.getD b 0)) = some (p, ds.getD p 0) ∧
      (p = b ∨ p ∈ cands) ∧ ds.getD p 0 ≤ ds.getD b 0 ∧ ∀ i ∈ cands, ds.getD p 0 ≤ ds.getD i 0
  | [], b => ⟨b, rfl, Or.inl rfl, Nat.le_refl _, fun i hi => by cases hi⟩
  | i :: cands, b => by
    rw [List.foldl_cons]
    simp only [pickStep]
    by_cases hlt : ds.getD i 0 < ds.getD b 0
    · rw [if_pos hlt]
      obtain ⟨p, h1, h2, h3, h4⟩ := pick_some ds cands i
      refine ⟨p, h1, Or.inr ?_, by omega, ?_⟩
      · rcases h2 with rfl | h2
        · exact List.mem_cons_self
        · exact List.mem_cons_of_mem _ h2
      · intro j hj
        rcases List.mem_cons.1 hj with rfl | hj
        · exact h3
        · exact h4 j hj
    · rw [if_neg hlt]
      obtain ⟨p, h1, h2, h3, h4⟩ := pick_some ds cands b
      refine ⟨p, h1, ?_, h3, ?_⟩
      · rcases h2 with rfl | h2
        · exact Or.inl rfl
        · exact Or.inr (List.mem_cons_of_mem _ h2)
      · intro j hj
        rcases List.mem_cons.1 hj with rfl | hj
        · omega
        · exact h4 j hj

/-- the primary-match loop returns a candidate at the minimum distance -/
theorem pick_spec (ds : List Nat) (cands : List Nat) (h : cands ≠ []) :
    ∃ p ∈ cands, (cands.foldl (pickStep ds) none).map (·.1) = some p ∧
      ∀ i ∈ cands, ds.getD p 0 ≤ ds.getD i 0 := by
  cases cands with
  | nil => exact absurd rfl h
  | cons b cands =>
    rw [List.foldl_cons]
    simp only [pickStep]
    obtain ⟨p, h1, h2, h3, h4⟩ := pick_some ds cands b
    refine ⟨p, ?_, by rw [h1]; rfl, ?_⟩
    · rcases h2 with rfl | h2
      · exact List.mem_cons_self
      · exact List.mem_cons_of_mem _ h2
    · intro j hj
      rcases List.mem_cons.1 hj with rfl | hj
      · exact h3
      · exact h4 j hj

/-! #### candidates for the primary match -/

theorem mem_cands (F : Forest) (gtax ds : List Nat) (cp : List Nat) (i : Nat) :
    i ∈ (findMatches F gtax ds).flatMap (fun e => if isPrefix cp (F.path e.1) then e.2 else []) ↔
      i < gtax.length ∧ ∃ t, predictedSpec F (gtax.getD i 0) (ds.getD i 0) = some t ∧
        isPrefix cp (F.path t) = true := by
  rw [List.mem_flatMap]
  constructor
  · rintro ⟨e, he, hi⟩
    by_cases hp : isPrefix cp (F.path e.1) = true
    · rw [if_pos hp] at hi
      obtain ⟨h1, h2⟩ := (findMatches_mem F gtax ds e.1 i).1 ⟨e, he, rfl, hi⟩
      exact ⟨h1, e.1, h2, hp⟩
    · rw [if_neg hp] at hi; cases hi
  · rintro ⟨h1, t, h2, hp⟩
    obtain ⟨e, he, rfl, hi⟩ := (findMatches_mem F gtax ds t i).2 ⟨h1, h2⟩
    exact ⟨e, he, by rw [if_pos hp]; exact hi⟩

theorem cands_ne_nil (F : Forest) (gtax ds : List Nat) (cp : List Nat)
    (h : ∃ s ∈ ((findMatches F gtax ds).map (·.1)).map F.path, cp <+: s) :
    (findMatches F gtax ds).flatMap (fun e => if isPrefix cp (F.path e.1) then e.2 else []) ≠ [] := by
  obtain ⟨s, hs, hcs⟩ := h
  simp only [List.mem_map] at hs
  obtain ⟨t, ⟨e, he, rfl⟩, rfl⟩ := hs
  obtain ⟨i, hi⟩ := List.exists_mem_of_ne_nil _ (findMatches_ne_nil F gtax ds e he)
  apply List.ne_nil_of_mem (a := i)
  rw [List.mem_flatMap]
  exact ⟨e, he, by rw [if_pos ((isPrefix_iff _ _).2 hcs)]; exact hi⟩

/-! #### assembling the strict-mode statement -/

theorem matchedSpec_getD (F : Forest) (gtax ds : List Nat) (i : Nat) (hi : i < gtax.length) :
    (matchedSpec F gtax ds).getD i none = predictedSpec F (gtax.getD i 0) (ds.getD i 0) := by
  simp [matchedSpec, List.getD_eq_getElem?_getD, hi]

/-- Sufficient conditions, in `Prop` form, for the executable statement `strictOk`. -/
theorem strictOk_intro (F : Forest) (gtax ds : List Nat) (success : Bool)
    (predicted primary : Option Nat) (closest : Nat) (warn : List Nat) (failed : Bool)
    (h1 : closest < ds.length) (h2 : ∀ x ∈ ds, ds.getD closest 0 ≤ x)
    (taxa : List Nat) (htaxa : taxa = dedup ((matchedSpec F gtax ds).filterMap id))
    (cons : Option (List Nat)) (hcons : cons = consensusSpec (taxa.map F.path))
    (h3 : predicted = cons.bind (fun p => p.getLast?))
    (h4 : failed = (!taxa.isEmpty && cons.isNone))
    (h5 : success = !failed)
    (h6 : failed = true ∨ warn = (othersSpec (taxa.map F.path)).filterMap (fun p => p.getLast?))
    (h7 : match cons with
      | none => primary = none
      | some cp => ∃ p, primary = some p ∧ p < gtax.length ∧
          (∃ t, predictedSpec F (gtax.getD p 0) (ds.getD p 0) = some t ∧ isPrefix cp (F.path t) = true) ∧
          ∀ i, i < gtax.length → ∀ t, predictedSpec F (gtax.getD i 0) (ds.getD i 0) = some t →
            isPrefix cp (F.path t) = true → ds.getD p 0 ≤ ds.getD i 0) :
    strictOk F gtax ds success predicted primary closest warn failed = true := by
  unfold strictOk
  simp only [Bool.and_eq_true]
  rw [show (List.range gtax.length).map (fun i => predictedSpec F (gtax.getD i 0) (ds.getD i 0)) =
    matchedSpec F gtax ds from rfl, ← htaxa, ← hcons]
  refine ⟨⟨⟨⟨⟨⟨?_, ?_⟩, ?_⟩, ?_⟩, ?_⟩, ?_⟩, ?_⟩
  · simpa using h1
  · simpa [List.all_eq_true] using h2
  · rw [h3]; exact beq_self_eq_true _
  · rw [h4]; exact beq_self_eq_true _
  · rw [h5]; exact beq_self_eq_true _
  · rcases h6 with h6 | h6
    · rw [h6]; rfl
    · rw [h6, Bool.or_eq_true]; exact Or.inr (beq_self_eq_true _)
  · cases cons with
    | none => simp only at h7 ⊢; rw [h7]; rfl
    | some cp =>
      simp only at h7 ⊢
      obtain ⟨p, rfl, hp, ⟨t, ht, hpre⟩, hmin⟩ := h7
      simp only [Bool.and_eq_true, List.contains_iff_mem, List.mem_filter, List.mem_range,
        List.all_eq_true, decide_eq_true_eq]
      refine ⟨⟨hp, ?_⟩, ?_⟩
      · rw [matchedSpec_getD F gtax ds p hp, ht]; exact hpre
      · rintro i ⟨hi, hm⟩
        rw [matchedSpec_getD F gtax ds i hi] at hm
        cases hq : predictedSpec F (gtax.getD i 0) (ds.getD i 0) with
        | none => rw [hq] at hm; cases hm
        | some t' => rw [hq] at hm; exact hmin i hi t' hq hm
end GambitV
