import GambitV.Lemmas.Indexing

/-!
A `SignatureArray` that is a *window* of a larger values array (`SignatureArray.from_arrays(values, bounds, …)` with bounds that neither
start at 0 nor end at `len(values)`): the layout `values[bounds[i] : bounds[i+1]]` denotes the same signatures whatever surrounds them.
Used by C05 / C12 / C15 (containers `subarray` / `window`).  Core Lean only.
-/
namespace GambitV

/-- the window: `padL ++ concatenated signatures ++ padR`, bounds shifted by `|padL|` -/
def Concat.window (padL padR : List Nat) (sigs : List (List Nat)) : Concat :=
  { values := padL ++ sigs.flatten ++ padR
    bounds := (Concat.ofList sigs).bounds.map (· + padL.length) }

theorem prefixSums_shift (b : Nat) (sigs : List (List Nat)) :
    (prefixSums 0 sigs).map (· + b) = prefixSums b sigs := by
  suffices h : ∀ a, (prefixSums a sigs).map (· + b) = prefixSums (a + b) sigs by simpa using h 0
  induction sigs with
  | nil => intro a; rfl
  | cons s r ih =>
    intro a
    simp only [prefixSums, List.map_cons]
    rw [ih]
    have e : a + s.length + b = a + b + s.length := by omega
    rw [e]

theorem window_bounds (padL padR : List Nat) (sigs : List (List Nat)) :
    (Concat.window padL padR sigs).bounds = padL.length :: prefixSums padL.length sigs := by
  unfold Concat.window
  simp only []
  rw [ofList_bounds, List.map_cons, prefixSums_shift]
  simp

theorem take_drop_append_left {α : Type} (l r : List α) (a n : Nat) (h : a + n ≤ l.length) :
    ((l ++ r).drop a).take n = (l.drop a).take n := by
  rw [List.drop_append_of_le_length (by omega), List.take_append_of_le_length (by simp; omega)]

theorem window_len (padL padR : List Nat) (sigs : List (List Nat)) :
    (Concat.window padL padR sigs).len = sigs.length := by
  unfold Concat.len
  rw [window_bounds, List.length_cons, length_prefixSums]; rfl

/-- Reading signature `i` of a window gives signature `i` (out-of-range positions read as empty on both sides). -/
theorem window_get (padL padR : List Nat) (sigs : List (List Nat)) (i : Nat) :
    (Concat.window padL padR sigs).get i = sigs.getD i [] := by
  unfold Concat.get
  rw [window_bounds]
  by_cases hi : i < sigs.length
  · have h0 := prefixSums_getD padL.length sigs i (by omega)
    have h1 := prefixSums_getD padL.length sigs (i + 1) (by omega)
    have hle : (sigs.take (i + 1)).flatten.length ≤ sigs.flatten.length := by
      have : sigs.flatten = (sigs.take (i + 1)).flatten ++ (sigs.drop (i + 1)).flatten := by
        rw [← List.flatten_append, List.take_append_drop]
      rw [this, List.length_append]
      omega
    have hmono : (sigs.take i).flatten.length ≤ (sigs.take (i + 1)).flatten.length := by
      rw [List.take_succ]
      simp
    have key := get_prefixSums padL padL.length rfl sigs i
    rw [← key]
    show ((padL ++ sigs.flatten ++ padR).drop _).take _ = _
    rw [take_drop_append_left (padL ++ sigs.flatten) padR]
    rw [h0, h1, List.length_append]
    omega
  · have hge : sigs.length ≤ i := by omega
    have h1 : (padL.length :: prefixSums padL.length sigs).getD (i + 1) 0 = 0 :=
      prefixSums_getD_gt _ _ _ (by omega)
    rw [h1]
    simp [List.getD_eq_getElem?_getD, List.getElem?_eq_none hge]

/-- The window denotes exactly the signatures it was cut around. -/
theorem window_toList (padL padR : List Nat) (sigs : List (List Nat)) :
    (Concat.window padL padR sigs).toList = sigs := by
  unfold Concat.toList
  rw [window_len]
  have : (Concat.window padL padR sigs).get = fun i => sigs.getD i [] := funext (window_get padL padR sigs)
  rw [this, range_map_getD]

example : (Concat.window [3, 5, 8] [1, 2] [[4, 9], [], [7]]).toList = [[4, 9], [], [7]] := by decide
example : (Concat.window [3, 5, 8] [1, 2] [[4, 9], [], [7]]).bounds = [3, 5, 5, 6] := by decide

end GambitV
